(* JsonDocP.v -- proofs about JsonDoc: the generic RFC 8259 reader reads the compact rendering of a JSON value back (for
   every string reader that inverts json_print_string on a class of strings: the standard one and the model of
   libyang's lexer), the RFC 7951 value of a forest converts back to the forest, and on canonical forests the
   printer's state machine writes, for every node selection, exactly the rendering of the value of the selected part. *)
From LY Require Import Base Utf8 Utf8P XmlText XmlTextP JsonText JsonTextP StdText StdTextP Tree TreeP XmlDoc XmlDocP JsonDoc.
From Coq Require Import Sorted ZifyBool ZifyNat ZifyN.
Local Open Scope N_scope.

(* induction on JSON values with hypotheses for the nested lists *)
Section JvalInd.
  Variable P : jval -> Prop.
  Hypothesis Hstr : forall s, P (JVstr s).
  Hypothesis Hnum : forall tok, P (JVnum tok).
  Hypothesis Htrue : P JVtrue.
  Hypothesis Hfalse : P JVfalse.
  Hypothesis Hnull : P JVnull.
  Hypothesis Harr : forall l, Forall P l -> P (JVarr l).
  Hypothesis Hobj : forall l, Forall (fun kx : bytes * jval => P (snd kx)) l -> P (JVobj l).
  Fixpoint jval_ind' (v : jval) : P v :=
    match v with
    | JVstr s => Hstr s
    | JVnum tok => Hnum tok
    | JVtrue => Htrue
    | JVfalse => Hfalse
    | JVnull => Hnull
    | JVarr l =>
        Harr l ((fix go (l : list jval) : Forall P l :=
                   match l with
                   | [] => Forall_nil P
                   | x :: l' => Forall_cons x (jval_ind' x) (go l')
                   end) l)
    | JVobj l =>
        Hobj l ((fix go (l : list (bytes * jval)) : Forall (fun kx : bytes * jval => P (snd kx)) l :=
                   match l with
                   | [] => Forall_nil _
                   | kx :: l' => Forall_cons kx (jval_ind' (snd kx)) (go l')
                   end) l)
    end.
End JvalInd.

(* rendering of arrays and objects as separated lists *)
Fixpoint jr_elems (l : list jval) (first : bool) : bytes :=
  match l with
  | [] => []
  | x :: l' => (if first then [] else [44]) ++ jrender x ++ jr_elems l' false
  end.
Fixpoint jr_members (l : list (bytes * jval)) (first : bool) : bytes :=
  match l with
  | [] => []
  | (k, x) :: l' => (if first then [] else [44]) ++ 34 :: k ++ [34; 58] ++ jrender x ++ jr_members l' false
  end.

Lemma jrender_arr l : jrender (JVarr l) = 91 :: jr_elems l true ++ [93].
Proof.
  cbn [jrender]. apply f_equal. apply (f_equal (fun x => x ++ [93])). generalize true. induction l as [|x l IH]; intro b; [reflexivity|].
  cbn. rewrite IH. reflexivity.
Qed.
Lemma jrender_obj l : jrender (JVobj l) = 123 :: jr_members l true ++ [125].
Proof.
  cbn [jrender]. apply f_equal. apply (f_equal (fun x => x ++ [125])). generalize true. induction l as [|[k x] l IH]; intro b; [reflexivity|].
  cbn. rewrite IH. reflexivity.
Qed.

(* ====================================================================================== *)
(* the generic reader reads the rendering back                                             *)
(* ====================================================================================== *)
Lemma jws_stop c r : is_jws c = false -> jws (c :: r) = c :: r.
Proof. intro H. unfold jws. rewrite (span_stop _ _ _ H). reflexivity. Qed.

Ltac len_lia := repeat (rewrite ?app_length in *; cbn [length app] in * ); lia.

Definition delim (rest : bytes) : Prop := rest = [] \/ exists c r, rest = c :: r /\ is_numchar c = false.

Section GenParse.
  Variable SV : bytes -> Prop.
  Variable rdstr : bytes -> option (bytes * bytes).
  Hypothesis rdstr_ok : forall s rest, SV s -> rdstr (json_esc s ++ rest) = Some (s, rest).


  (* unfolding equations of the mutually recursive reader *)
  Lemma jv_value_S f s0 :
    jv_value rdstr (S f) s0 =
    let s := jws s0 in
    match s with
    | [] => None
    | c :: r =>
        if c =? 34 then match rdstr s with Some (v, r') => Some (JVstr v, r') | None => None end
        else if c =? 123 then
          match jws r with
          | [] => None
          | c2 :: r2 =>
              if c2 =? 125 then Some (JVobj [], r2)
              else match jv_members rdstr f (c2 :: r2) with Some (ms, r') => Some (JVobj ms, r') | None => None end
          end
        else if c =? 91 then
          match jws r with
          | [] => None
          | c2 :: r2 =>
              if c2 =? 93 then Some (JVarr [], r2)
              else match jv_value rdstr f (c2 :: r2) with
                   | Some (v, r3) =>
                       match jv_elems rdstr f r3 with Some (es, r4) => Some (JVarr (v :: es), r4) | None => None end
                   | None => None
                   end
          end
        else if starts_with true_b s then Some (JVtrue, skipn 4 s)
        else if starts_with false_b s then Some (JVfalse, skipn 5 s)
        else if starts_with null_b s then Some (JVnull, skipn 4 s)
        else let '(tok, r') := span is_numchar s in
             if jnumber_ok tok then Some (JVnum tok, r') else None
    end.
  Proof. reflexivity. Qed.

  Lemma jv_members_S f s0 :
    jv_members rdstr (S f) s0 =
    match rdstr (jws s0) with
    | None => None
    | Some (k, r) =>
        match jws r with
        | [] => None
        | c :: r1 =>
            if c =? 58 then
              match jv_value rdstr f r1 with
              | None => None
              | Some (v, r2) =>
                  match jws r2 with
                  | [] => None
                  | c2 :: r3 =>
                      if c2 =? 44 then
                        match jv_members rdstr f r3 with
                        | Some (ms, r4) => Some ((k, v) :: ms, r4)
                        | None => None
                        end
                      else if c2 =? 125 then Some ([(k, v)], r3)
                      else None
                  end
              end
            else None
        end
    end.
  Proof. reflexivity. Qed.

  Lemma jv_elems_S f s0 :
    jv_elems rdstr (S f) s0 =
    match jws s0 with
    | [] => None
    | c :: r =>
        if c =? 44 then
          match jv_value rdstr f r with
          | Some (v, r2) =>
              match jv_elems rdstr f r2 with
              | Some (es, r4) => Some (v :: es, r4)
              | None => None
              end
          | None => None
          end
        else if c =? 93 then Some ([], r)
        else None
    end.
  Proof. reflexivity. Qed.

  (* member names are written as they are: strings that need no escaping *)
  Definition key_ok (k : bytes) : Prop := SV k /\ json_esc k = 34 :: k ++ [34].

  Fixpoint W (v : jval) {struct v} : Prop :=
    match v with
    | JVstr s => SV s
    | JVnum tok => jnumber_ok tok = true /\ forallb is_numchar tok = true /\ tok <> []
    | JVtrue | JVfalse | JVnull => True
    | JVarr l => (fix all (l : list jval) : Prop := match l with [] => True | x :: l' => W x /\ all l' end) l
    | JVobj l =>
        (fix all (l : list (bytes * jval)) : Prop :=
           match l with [] => True | kx :: l' => key_ok (fst kx) /\ W (snd kx) /\ all l' end) l
    end.

  Lemma W_arr l : W (JVarr l) <-> Forall W l.
  Proof.
    cbn [W]. induction l as [|x l IH]; [split; [constructor|trivial]|]. split.
    - intros [H1 H2]. constructor; [assumption|apply IH; assumption].
    - intro H. inversion H; subst. split; [assumption|apply IH; assumption].
  Qed.
  Lemma W_obj l : W (JVobj l) <-> Forall (fun kx : bytes * jval => key_ok (fst kx) /\ W (snd kx)) l.
  Proof.
    cbn [W]. induction l as [|x l IH]; [split; [constructor|trivial]|]. split.
    - intros (H1 & H2 & H3). constructor; [split; assumption|apply IH; assumption].
    - intro H. inversion H as [|? ? [Ha Hb] Hr]; subst. split; [assumption|split; [assumption|apply IH; assumption]].
  Qed.

  Definition head_ok (c : N) : Prop :=
    is_jws c = false /\ c <> 93 /\ c <> 125 /\ c <> 44 /\ c <> 58.

  Lemma numchar_facts c : is_numchar c = true ->
    is_jws c = false /\ c <> 34 /\ c <> 123 /\ c <> 91 /\ c <> 116 /\ c <> 102 /\ c <> 110 /\ c <> 93 /\ c <> 125 /\ c <> 44 /\ c <> 58.
  Proof. unfold is_numchar, is_digit, is_jws. lia. Qed.

  Lemma jrender_head v : W v -> exists c r, jrender v = c :: r /\ head_ok c.
  Proof.
    destruct v as [s|tok| | | |l|l]; intro H.
    - exists 34, (json_esc_body s ++ [34]). split; [reflexivity|]. repeat split; discriminate.
    - cbn [W] in H. destruct H as (_ & Hc & Hne). destruct tok as [|c t]; [contradiction|].
      cbn [forallb] in Hc. apply andb_true_iff in Hc. destruct Hc as [Hc _].
      exists c, t. split; [reflexivity|]. pose proof (numchar_facts c Hc). unfold head_ok. tauto.
    - exists 116, [114; 117; 101]. split; [reflexivity|]. repeat split; discriminate.
    - exists 102, [97; 108; 115; 101]. split; [reflexivity|]. repeat split; discriminate.
    - exists 110, [117; 108; 108]. split; [reflexivity|]. repeat split; discriminate.
    - rewrite jrender_arr. eexists; eexists; split; [reflexivity|]. repeat split; discriminate.
    - rewrite jrender_obj. eexists; eexists; split; [reflexivity|]. repeat split; discriminate.
  Qed.

  Definition Pv (x : jval) : Prop := forall fuel rest,
    W x -> delim rest -> (length (jrender x ++ rest) < fuel)%nat ->
    jv_value rdstr fuel (jrender x ++ rest) = Some (x, rest).

  Lemma delim_cons c r : is_numchar c = false -> delim (c :: r).
  Proof. intro H. right. exists c, r. split; [reflexivity|exact H]. Qed.

  Lemma jrender_nonempty x : W x -> (1 <= length (jrender x))%nat.
  Proof. intro H. destruct (jrender_head x H) as (c & r & -> & _). cbn [length]. lia. Qed.

  Lemma jv_elems_render l : Forall Pv l -> forall fuel rest,
    Forall W l -> (length (jr_elems l false ++ 93%N :: rest) < fuel)%nat ->
    jv_elems rdstr fuel (jr_elems l false ++ 93 :: rest) = Some (l, rest).
  Proof.
    induction 1 as [|x l Hx _ IH]; intros fuel rest HW Hf.
    - destruct fuel as [|f]; [cbn in Hf; lia|]. cbn [jr_elems app]. rewrite jv_elems_S. rewrite jws_stop by reflexivity.
      reflexivity.
    - destruct fuel as [|f]; [cbn in Hf; lia|]. inversion HW as [|? ? Wx Wl]; subst.
      cbn [jr_elems app]. rewrite jv_elems_S. rewrite jws_stop by reflexivity. change (44 =? 44) with true. cbv iota.
      rewrite <- app_assoc.
      assert (Hd : delim (jr_elems l false ++ 93 :: rest)).
      { destruct l as [|y l']; cbn [jr_elems app]; apply delim_cons; reflexivity. }
      cbn [jr_elems app length] in Hf. rewrite <- app_assoc in Hf.
      rewrite (Hx f _ Wx Hd) by lia.
      rewrite (IH f rest Wl).
      + reflexivity.
      + rewrite app_length in Hf. pose proof (jrender_nonempty x Wx). lia.
  Qed.

  Lemma jv_members_render l : Forall (fun kx : bytes * jval => Pv (snd kx)) l -> forall fuel rest,
    l <> [] -> Forall (fun kx : bytes * jval => key_ok (fst kx) /\ W (snd kx)) l ->
    (length (jr_members l true ++ 125%N :: rest) < fuel)%nat ->
    jv_members rdstr fuel (jr_members l true ++ 125 :: rest) = Some (l, rest).
  Proof.
    induction 1 as [|[k x] l Hx _ IH]; intros fuel rest Hne HW Hf; [contradiction|].
    destruct fuel as [|f]; [cbn in Hf; lia|]. inversion HW as [|? ? [[HS Hk] Wx] Wl]; subst. cbn [fst snd] in *.
    cbn [jr_members app]. rewrite jv_members_S. rewrite jws_stop by reflexivity.
    norm_app.
    replace (34 :: k ++ 34 :: 58 :: jrender x ++ jr_members l false ++ 125 :: rest)
      with (json_esc k ++ 58 :: jrender x ++ jr_members l false ++ 125 :: rest)
      by (rewrite Hk; cbn [app]; rewrite <- app_assoc; reflexivity).
    rewrite (rdstr_ok k _ HS). rewrite jws_stop by reflexivity. change (58 =? 58) with true. cbv iota.
    assert (Hd : delim (jr_members l false ++ 125 :: rest)).
    { destruct l as [|[k' y] l']; cbn [jr_members app]; apply delim_cons; reflexivity. }
    cbn [jr_members] in Hf.
    rewrite (Hx f _ Wx Hd) by len_lia.
    destruct l as [|[k' y] l'].
    + cbn [jr_members app]. rewrite jws_stop by reflexivity. reflexivity.
    + remember ((k', y) :: l') as l2. assert (Hl2 : jr_members l2 false = 44 :: jr_members l2 true).
      { subst l2. reflexivity. }
      rewrite Hl2. cbn [app]. rewrite jws_stop by reflexivity. change (44 =? 44) with true. cbv iota.
      rewrite (IH f rest); [reflexivity|subst l2; discriminate|exact Wl|].
      rewrite Hl2 in Hf. len_lia.
  Qed.

  Lemma jv_value_render v : Pv v.
  Proof.
    induction v as [s|tok| | | |l IH|l IH] using jval_ind'; intros fuel rest HW Hd Hf;
      (destruct fuel as [|f]; [cbn in Hf; lia|]).
    - cbn [jrender W] in *. unfold json_esc at 1. cbn [app]. rewrite jv_value_S. cbv zeta. rewrite jws_stop by reflexivity.
      change (34 =? 34) with true. cbv iota.
      change (34 :: (json_esc_body s ++ [34]) ++ rest) with (json_esc s ++ rest).
      rewrite (rdstr_ok s rest HW). reflexivity.
    - cbn [jrender W] in *. destruct HW as (Hn & Hc & Hne). destruct tok as [|c t]; [contradiction|].
      pose proof Hc as Hc'. cbn [forallb] in Hc'. apply andb_true_iff in Hc'. destruct Hc' as [Hc0 _].
      destruct (numchar_facts c Hc0) as (Hws & H34 & H123 & H91 & H116 & H102 & H110 & _).
      cbn [app]. rewrite jv_value_S. cbv zeta. rewrite jws_stop by exact Hws.
      apply N.eqb_neq in H34, H123, H91. rewrite H34, H123, H91.
      assert (E1 : starts_with true_b (c :: t ++ rest) = false).
      { cbn [true_b starts_with]. apply N.eqb_neq in H116. rewrite (N.eqb_sym 116 c), H116. reflexivity. }
      assert (E2 : starts_with false_b (c :: t ++ rest) = false).
      { cbn [false_b starts_with]. apply N.eqb_neq in H102. rewrite (N.eqb_sym 102 c), H102. reflexivity. }
      assert (E3 : starts_with null_b (c :: t ++ rest) = false).
      { cbn [null_b starts_with]. apply N.eqb_neq in H110. rewrite (N.eqb_sym 110 c), H110. reflexivity. }
      rewrite E1, E2, E3.
      assert (Es : span is_numchar ((c :: t) ++ rest) = (c :: t, rest)).
      { destruct Hd as [->|(c' & r' & -> & Hc')]; [rewrite app_nil_r; apply span_app_nil, Hc|apply span_app; assumption]. }
      cbn [app] in Es. rewrite Es, Hn. reflexivity.
    - cbn [jrender true_b app]. rewrite jv_value_S. cbv zeta. rewrite jws_stop by reflexivity. reflexivity.
    - cbn [jrender false_b app]. rewrite jv_value_S. cbv zeta. rewrite jws_stop by reflexivity. reflexivity.
    - cbn [jrender null_b app]. rewrite jv_value_S. cbv zeta. rewrite jws_stop by reflexivity. reflexivity.
    - rewrite jrender_arr in Hf |- *. rewrite W_arr in HW. cbn [app]. rewrite jv_value_S. cbv zeta. rewrite jws_stop by reflexivity.
      change (91 =? 34) with false. change (91 =? 123) with false. change (91 =? 91) with true. cbv iota.
      rewrite <- app_assoc. cbn [app].
      destruct l as [|x l].
      + cbn [jr_elems app]. rewrite jws_stop by reflexivity. reflexivity.
      + inversion IH as [|? ? Hx Hl]; subst. inversion HW as [|? ? Wx Wl]; subst.
        cbn [jr_elems app]. rewrite <- app_assoc.
        destruct (jrender_head x Wx) as (c & r & Ec & Hws & H93 & _).
        rewrite Ec at 1. cbn [app]. rewrite jws_stop by exact Hws. apply N.eqb_neq in H93. rewrite H93.
        change (c :: r ++ jr_elems l false ++ 93 :: rest) with ((c :: r) ++ jr_elems l false ++ 93 :: rest).
        rewrite <- Ec.
        assert (Hd2 : delim (jr_elems l false ++ 93 :: rest)).
        { destruct l as [|y l']; cbn [jr_elems app]; apply delim_cons; reflexivity. }
        cbn [jr_elems app length] in Hf. rewrite <- !app_assoc in Hf. cbn [app] in Hf.
        rewrite (Hx f _ Wx Hd2) by (rewrite app_length in *; lia).
        rewrite (jv_elems_render l Hl f rest Wl); [reflexivity|].
        rewrite !app_length in *. pose proof (jrender_nonempty x Wx). cbn [length] in *. lia.
    - rewrite jrender_obj in Hf |- *. rewrite W_obj in HW. cbn [app]. rewrite jv_value_S. cbv zeta. rewrite jws_stop by reflexivity.
      change (123 =? 34) with false. change (123 =? 123) with true. cbv iota.
      rewrite <- app_assoc. cbn [app].
      destruct l as [|[k x] l].
      + cbn [jr_members app]. rewrite jws_stop by reflexivity. reflexivity.
      + assert (Eh : jr_members ((k, x) :: l) true ++ 125 :: rest = 34 :: tl (jr_members ((k, x) :: l) true ++ 125 :: rest))
          by reflexivity.
        rewrite Eh. rewrite jws_stop by reflexivity. change (34 =? 125) with false. cbv iota. rewrite <- Eh.
        rewrite (jv_members_render _ IH f rest); [reflexivity|discriminate|exact HW|].
        cbn [length app] in Hf. rewrite <- app_assoc in Hf. cbn [app] in Hf. lia.
  Qed.

  Theorem jv_text_render v : W v -> jv_text rdstr (jrender v) = Some v.
  Proof.
    intro HW. unfold jv_text.
    pose proof (jv_value_render v (S (length (jrender v))) [] HW (or_introl eq_refl)) as H.
    rewrite app_nil_r in H. rewrite H by lia. reflexivity.
  Qed.
End GenParse.

(* ====================================================================================== *)
(* the two string readers                                                                  *)
(* ====================================================================================== *)
Definition SV_ly (s : bytes) : Prop := lexable s /\ bytes_ok s = true.

Lemma ly_rdstr_ok s rest : SV_ly s -> ly_rdstr (json_esc s ++ rest) = Some (s, rest).
Proof. intros [H1 H2]. unfold ly_rdstr. rewrite (json_quoted_roundtrip s rest H1 H2). reflexivity. Qed.

(* the standard side: cutting the token at its closing quotation mark *)
Lemma scan_plain f c r acc : c <> 34 -> c <> 92 -> scan_jstring (S f) (c :: r) acc = scan_jstring f r (c :: acc).
Proof. intros H1 H2. cbn [scan_jstring]. apply N.eqb_neq in H1, H2. rewrite H1, H2. reflexivity. Qed.
Lemma scan_esc f e r acc : scan_jstring (S f) (92 :: e :: r) acc = scan_jstring f r (e :: 92 :: acc).
Proof. reflexivity. Qed.

Lemma hexdig_up_plain d : d < 16 -> hexdig_up d <> 34 /\ hexdig_up d <> 92.
Proof. intro H. unfold hexdig_up. destruct (d <? 10) eqn:E; lia. Qed.

Lemma scan_printed s : Forall (fun b => b <> 0) s -> forall fuel rest acc,
  (length (json_esc_body s) < fuel)%nat ->
  scan_jstring fuel (json_esc_body s ++ 34 :: rest) acc = Some (rev acc ++ json_esc_body s, rest).
Proof.
  induction 1 as [|b s Hb _ IH]; intros fuel rest acc Hf.
  - destruct fuel as [|f]; [cbn in Hf; lia|]. cbn [json_esc_body app scan_jstring]. change (34 =? 34) with true. cbv iota.
    rewrite app_nil_r. reflexivity.
  - rewrite json_esc_body_cons in Hf |- * by exact Hb. rewrite json_esc_byte_spec in Hf |- *.
    rewrite app_length in Hf.
    assert (Fin : forall chunk, rev (rev chunk ++ acc) ++ json_esc_body s = rev acc ++ chunk ++ json_esc_body s).
    { intro chunk. rewrite rev_app_distr, rev_involutive, <- app_assoc. reflexivity. }
    destruct (b =? 34) eqn:E34.
    { cbn [app length] in Hf |- *. destruct fuel as [|f]; [lia|]. rewrite scan_esc. rewrite IH by lia.
      cbn [rev app]. rewrite <- ?app_assoc. reflexivity. }
    destruct (b =? 92) eqn:E92.
    { cbn [app length] in Hf |- *. destruct fuel as [|f]; [lia|]. rewrite scan_esc. rewrite IH by lia.
      cbn [rev app]. rewrite <- ?app_assoc. reflexivity. }
    destruct (b =? 13) eqn:E13.
    { cbn [app length] in Hf |- *. destruct fuel as [|f]; [lia|]. rewrite scan_esc. rewrite IH by lia.
      cbn [rev app]. rewrite <- ?app_assoc. reflexivity. }
    destruct (b =? 9) eqn:E9.
    { cbn [app length] in Hf |- *. destruct fuel as [|f]; [lia|]. rewrite scan_esc. rewrite IH by lia.
      cbn [rev app]. rewrite <- ?app_assoc. reflexivity. }
    destruct (is_cntrl b) eqn:Ec.
    { cbn [app length] in Hf |- *.
      destruct fuel as [|f]; [lia|]. rewrite scan_esc.
      pose proof (hexdig_up_plain ((b / 4096) mod 16) ltac:(apply N.mod_upper_bound; discriminate)) as [A1 A2].
      pose proof (hexdig_up_plain ((b / 256) mod 16) ltac:(apply N.mod_upper_bound; discriminate)) as [B1 B2].
      pose proof (hexdig_up_plain ((b / 16) mod 16) ltac:(apply N.mod_upper_bound; discriminate)) as [C1 C2].
      pose proof (hexdig_up_plain (b mod 16) ltac:(apply N.mod_upper_bound; discriminate)) as [D1 D2].
      destruct f as [|f]; [lia|]. rewrite scan_plain by assumption.
      destruct f as [|f]; [lia|]. rewrite scan_plain by assumption.
      destruct f as [|f]; [lia|]. rewrite scan_plain by assumption.
      destruct f as [|f]; [lia|]. rewrite scan_plain by assumption.
      rewrite IH by lia.
      cbn [rev app]. rewrite <- ?app_assoc. reflexivity. }
    cbn [app length] in Hf |- *. destruct fuel as [|f]; [lia|].
    rewrite scan_plain by (apply N.eqb_neq; assumption). rewrite IH by lia. cbn [rev app]. rewrite <- ?app_assoc. reflexivity.
Qed.

Lemma utf8_nonul_nozero s : utf8_nonul s -> Forall (fun b => b <> 0) s.
Proof.
  intros (cps & Hv & ->). induction cps as [|cp cps IH]; [constructor|].
  cbn [forallb] in Hv. apply andb_true_iff in Hv. destruct Hv as [Hc Hr]. cbn [flat_map]. apply Forall_app. split; [|apply IH, Hr].
  unfold valid_cp in Hc. apply andb_true_iff in Hc. destruct Hc as [Hs Hz].
  destruct (N.lt_ge_cases cp 128) as [Hlow|Hhigh].
  - rewrite utf8_encode_ascii by exact Hlow. constructor; [lia|constructor].
  - eapply Forall_impl; [|apply utf8_encode_high, Hhigh]. cbn beta. intros; lia.
Qed.

Lemma std_rdstr_ok s rest : utf8_nonul s -> std_rdstr (json_esc s ++ rest) = Some (s, rest).
Proof.
  intro Hs. unfold std_rdstr, json_esc. cbn [app]. change (34 =? 34) with true. cbv iota.
  rewrite <- app_assoc. cbn [app].
  rewrite (scan_printed s (utf8_nonul_nozero s Hs) _ rest []) by (rewrite app_length; cbn [length]; lia).
  cbn [rev app]. change (34 :: json_esc_body s ++ [34]) with (json_esc s).
  rewrite (json_string_std_proof s Hs). reflexivity.
Qed.

(* ====================================================================================== *)
(* the RFC 7951 value of a forest is well formed for the generic reader                    *)
(* ====================================================================================== *)
Definition jkey_char (c : N) : bool := is_ncname_char c || (c =? 58) || (c =? 64).

Lemma jkey_esc_body k : forallb jkey_char k = true -> json_esc_body k = k.
Proof.
  induction k as [|c k IH]; intro H; [reflexivity|]. cbn [forallb] in H. apply andb_true_iff in H. destruct H as [Hc Hk].
  assert (Hc' : 45 <= c /\ c <= 122 /\ c <> 92).
  { unfold jkey_char, is_ncname_char, is_ncname_start, is_alpha, is_digit in Hc. lia. }
  rewrite json_esc_body_cons by lia. rewrite (IH Hk), json_esc_byte_spec.
  assert (E1 : (c =? 34) = false) by lia. assert (E2 : (c =? 92) = false) by lia.
  assert (E3 : (c =? 13) = false) by lia. assert (E4 : (c =? 9) = false) by lia.
  assert (E5 : is_cntrl c = false) by (unfold is_cntrl; lia).
  rewrite E1, E2, E3, E4, E5. reflexivity.
Qed.

Lemma jkey_esc k : forallb jkey_char k = true -> json_esc k = 34 :: k ++ [34].
Proof. intro H. unfold json_esc. rewrite (jkey_esc_body k H). reflexivity. Qed.

Lemma ncname_jkey nm : ncname_ok nm = true -> forallb jkey_char nm = true.
Proof.
  intro H. destruct (ncname_ok_chars nm H) as [Hc _]. rewrite forallb_forall in *. intros c Hin.
  unfold jkey_char. rewrite (Hc c Hin). reflexivity.
Qed.

Lemma forallb_app {A} (p : A -> bool) a b : forallb p (a ++ b) = forallb p a && forallb p b.
Proof. induction a as [|x a IH]; [reflexivity|]. cbn [app forallb]. rewrite IH, andb_assoc. reflexivity. Qed.

Lemma group_runs_in {A} (l : list (dnode * A)) g x :
  In g (group_runs l) -> In x (snd g) -> In x l /\ d_sid (fst x) = fst g.
Proof.
  revert g. induction l as [|y l IH]; intros g Hg Hx; [contradiction|]. cbn [group_runs] in Hg.
  destruct (group_runs l) as [|[s run] gs] eqn:E.
  - destruct Hg as [<-|[]]. cbn [snd fst] in *. destruct Hx as [<-|[]]. split; [left; reflexivity|reflexivity].
  - destruct (s =? d_sid (fst y)) eqn:Es.
    + apply N.eqb_eq in Es. destruct Hg as [<-|Hg].
      * cbn [snd fst] in *. destruct Hx as [<-|Hx]; [split; [left; reflexivity|symmetry; exact Es]|].
        destruct (IH (s, run) (or_introl eq_refl) Hx) as [H1 H2]. split; [right; exact H1|exact H2].
      * destruct (IH g (or_intror Hg) Hx) as [H1 H2]. split; [right; exact H1|exact H2].
    + destruct Hg as [<-|Hg].
      * cbn [snd fst] in *. destruct Hx as [<-|[]]. split; [left; reflexivity|reflexivity].
      * destruct (IH g Hg Hx) as [H1 H2]. split; [right; exact H1|exact H2].
Qed.

Lemma group_runs_nonempty {A} (l : list (dnode * A)) g : In g (group_runs l) -> snd g <> [].
Proof.
  revert g. induction l as [|y l IH]; intros g Hg; [contradiction|]. cbn [group_runs] in Hg.
  destruct (group_runs l) as [|[s run] gs] eqn:E.
  - destruct Hg as [<-|[]]. discriminate.
  - destruct (s =? d_sid (fst y)).
    + destruct Hg as [<-|Hg]; [discriminate|]. apply IH. right. exact Hg.
    + destruct Hg as [<-|Hg]; [discriminate|]. apply IH. exact Hg.
Qed.

Definition jterm_ok (SV : bytes -> Prop) (k : jkind) (v : bytes) : Prop :=
  match k with
  | JStr => SV v
  | JNum => jnumber_ok v = true /\ forallb is_numchar v = true /\ v <> []
  | JBool => v = true_b \/ v = false_b
  | JEmpty => v = []
  end.

Section JsonData.
  Variable sch : schema.
  Variable t : doctabs.
  Variable jk : list (sid * jkind).
  Variable SV : bytes -> Prop.
  Hypothesis Htabs : tabs_okb sch t = true.
  Hypothesis SV_key : forall k, forallb jkey_char k = true -> SV k.

  Let Hm : mods_okb t = true := Hmods sch t Htabs.
  Let Hn : names_okb sch t = true := Hnames sch t Htabs.

  (* the data hypotheses of the JSON theorems: as XmlDocP.DocN with the values of terms constrained by their JSON class *)
  Fixpoint JDocN (n : dnode) {struct n} : Prop :=
    match n with
    | DN s v d m ch =>
        kind_of sch s <> KAny /\ (if is_term sch s then jterm_ok SV (jkind_of jk s) v else v = []) /\
        Forall (meta_ok t SV) m /\ NoDup (map fst m) /\
        (fix all (l : list dnode) : Prop := match l with [] => True | x :: l' => JDocN x /\ all l' end) ch
    end.

  Lemma JDocN_unfold s v d m ch :
    JDocN (DN s v d m ch) <->
    kind_of sch s <> KAny /\ (if is_term sch s then jterm_ok SV (jkind_of jk s) v else v = []) /\
    Forall (meta_ok t SV) m /\ NoDup (map fst m) /\ Forall JDocN ch.
  Proof.
    cbn [JDocN].
    assert (HF : forall l, (fix all (l : list dnode) : Prop :=
                              match l with [] => True | x :: l' => JDocN x /\ all l' end) l <-> Forall JDocN l).
    { induction l as [|x l IH]; [split; [constructor|trivial]|]. split.
      - intros [H1 H2]. constructor; [assumption|apply IH; assumption].
      - intro H. inversion H; subst. split; [assumption|apply IH; assumption]. }
    rewrite HF. reflexivity.
  Qed.

  Lemma key_ok_chars k : forallb jkey_char k = true -> key_ok SV k.
  Proof. intro H. split; [apply SV_key, H|apply jkey_esc, H]. Qed.

  Lemma W_term k v : jterm_ok SV k v -> W SV (jval_of_term k v).
  Proof.
    destruct k; cbn [jterm_ok jval_of_term].
    - intro H. exact H.
    - intros (H1 & H2 & H3). destruct v; [contradiction|]. cbn [W]. repeat split; assumption.
    - intros [->| ->]; vm_compute; exact I.
    - intros ->. cbn [W]. split; exact I.
  Qed.

  Lemma meta_key_chars kv : meta_ok t SV kv -> forallb jkey_char (fst kv) = true /\ SV (snd kv).
  Proof.
    intros (Hv & m0 & mi & nm & Hin & Hnm & Ek). split; [|exact Hv]. rewrite Ek.
    pose proof (mods_ok_entry _ _ _ Hm Hin) as MF.
    rewrite forallb_app. cbn [forallb]. rewrite (ncname_jkey _ (mf_name _ _ _ MF)), (ncname_jkey _ Hnm). reflexivity.
  Qed.

  Lemma W_meta_obj m : Forall (meta_ok t SV) m -> W SV (jmeta_obj m).
  Proof.
    intro H. unfold jmeta_obj. rewrite W_obj. apply Forall_forall. intros kx Hin. apply in_map_iff in Hin.
    destruct Hin as (kv & <- & Hkv). rewrite Forall_forall in H. destruct (meta_key_chars kv (H kv Hkv)) as [H1 H2].
    cbn [fst snd W]. split; [apply key_ok_chars, H1|exact H2].
  Qed.

  Lemma mname_chars pm s i : lookup sch s = Some i -> forallb jkey_char (mname t pm s) = true.
  Proof.
    intro Hl. pose proof (names_ok_entry _ _ _ _ Hn Hl) as NF. destruct (nf_mod _ _ _ NF) as (mi & Hin & Emi).
    pose proof (mods_ok_entry _ _ _ Hm Hin) as MF.
    unfold mname. rewrite forallb_app, (ncname_jkey _ (nf_name _ _ _ NF)), andb_true_r.
    destruct (match pm with None => true | Some m => negb (m =? node_mod t s) end); [|reflexivity].
    rewrite forallb_app, Emi, (ncname_jkey _ (mf_name _ _ _ MF)). reflexivity.
  Qed.

  Definition ElemOK (x : dnode * jval) : Prop :=
    (exists i, lookup sch (d_sid (fst x)) = Some i) /\ W SV (snd x) /\ Forall (meta_ok t SV) (d_meta (fst x)).

  Lemma assemble_W pm l : Forall ElemOK l ->
    Forall (fun kx : bytes * jval => key_ok SV (fst kx) /\ W SV (snd kx)) (assemble sch t pm l).
  Proof.
    intro HE. unfold assemble. apply Forall_forall. intros kx Hkx. apply in_flat_map in Hkx.
    destruct Hkx as ([s run] & Hg & Hkx).
    assert (Hrun : forall x, In x run -> ElemOK x /\ d_sid (fst x) = s).
    { intros x Hx. destruct (group_runs_in l (s, run) x Hg Hx) as [H1 H2]. rewrite Forall_forall in HE. split; [apply HE, H1|exact H2]. }
    assert (Hkey : forall x, In x run -> key_ok SV (mname t pm s) /\ key_ok SV (64 :: mname t pm s)).
    { intros x Hx. destruct (Hrun x Hx) as [((i & Hl) & _) Es]. rewrite Es in Hl.
      pose proof (mname_chars pm s i Hl) as Hc. split; apply key_ok_chars; [exact Hc|]. cbn [forallb]. rewrite Hc. reflexivity. }
    assert (Wrun : Forall (W SV) (map snd run)).
    { apply Forall_forall. intros v Hv. apply in_map_iff in Hv. destruct Hv as (x & <- & Hx). apply (Hrun x Hx). }
    assert (Wmeta : Forall (W SV) (map (meta_or_null) run)).
    { apply Forall_forall. intros v Hv. apply in_map_iff in Hv. destruct Hv as (x & <- & Hx).
      unfold meta_or_null. destruct (Hrun x Hx) as [(_ & _ & Hmx) _].
      destruct (d_meta (fst x)) eqn:E; [exact I|]. rewrite <- E. apply W_meta_obj. rewrite E. exact Hmx. }
    cbn [group_members] in Hkx.
    destruct (kind_of sch s).
    - apply in_map_iff in Hkx. destruct Hkx as (x & <- & Hx). cbn [fst snd]. split; [apply (Hkey x Hx)|apply (Hrun x Hx)].
    - apply in_flat_map in Hkx. destruct Hkx as (x & Hx & Hkx). destruct (Hrun x Hx) as [(_ & Wx & Hmx) _].
      destruct Hkx as [<-|Hkx]; [cbn [fst snd]; split; [apply (Hkey x Hx)|exact Wx]|].
      destruct (has_meta x); [|contradiction]. destruct Hkx as [<-|[]]. cbn [fst snd].
      split; [apply (Hkey x Hx)|apply W_meta_obj, Hmx].
    - destruct run as [|x0 run']; [exfalso; apply (group_runs_nonempty l _ Hg); reflexivity|].
      destruct Hkx as [<-|Hkx]; [cbn [fst snd]; split; [apply (Hkey x0 (or_introl eq_refl))|rewrite W_arr; exact Wrun]|].
      destruct (existsb has_meta (x0 :: run')); [|contradiction]. destruct Hkx as [<-|[]]. cbn [fst snd].
      split; [apply (Hkey x0 (or_introl eq_refl))|rewrite W_arr; exact Wmeta].
    - destruct run as [|x0 run']; [exfalso; apply (group_runs_nonempty l _ Hg); reflexivity|].
      destruct Hkx as [<-|[]]. cbn [fst snd]. split; [apply (Hkey x0 (or_introl eq_refl))|rewrite W_arr; exact Wrun].
    - apply in_map_iff in Hkx. destruct Hkx as (x & <- & Hx). cbn [fst snd]. split; [apply (Hkey x Hx)|apply (Hrun x Hx)].
  Qed.

  Lemma jnode_val_unfold s v d m ch :
    jnode_val sch t jk (DN s v d m ch) =
    match kind_of sch s with
    | KLeaf | KLeafList => jval_of_term (jkind_of jk s) v
    | KCont _ | KList =>
        JVobj ((match m with [] => [] | _ => [([64], jmeta_obj m)] end) ++
               assemble sch t (Some (node_mod t s)) (map (fun c => (c, jnode_val sch t jk c)) ch))
    | KAny => JVobj []
    end.
  Proof. reflexivity. Qed.

  Lemma Placed_lookup p n : Placed sch p n -> exists i, lookup sch (d_sid n) = Some i /\ si_parent i = p.
  Proof. destruct n as [s v d m ch]. rewrite Placed_unfold. intros ((i & Hl & Hp & _) & _). exists i. split; assumption. Qed.

  Lemma JDocN_meta n : JDocN n -> Forall (meta_ok t SV) (d_meta n).
  Proof. destruct n as [s v d m ch]. rewrite JDocN_unfold. intros (_ & _ & H & _). exact H. Qed.

  Lemma children_ElemOK s ch :
    Forall (fun n => forall p, Placed sch p n -> JDocN n -> W SV (jnode_val sch t jk n)) ch ->
    Forall (Placed sch (Some s)) ch -> Forall JDocN ch ->
    Forall ElemOK (map (fun c => (c, jnode_val sch t jk c)) ch).
  Proof.
    intros IH HP HD. apply Forall_forall. intros x Hx. apply in_map_iff in Hx. destruct Hx as (c & <- & Hc).
    rewrite Forall_forall in IH, HP, HD. unfold ElemOK. cbn [fst snd].
    destruct (Placed_lookup _ _ (HP c Hc)) as (i & Hl & _).
    split; [exists i; exact Hl|]. split; [apply (IH c Hc (Some s)); auto|apply JDocN_meta; auto].
  Qed.

  Lemma W_node n : forall p, Placed sch p n -> JDocN n -> W SV (jnode_val sch t jk n).
  Proof.
    induction n as [s v d m ch IH] using dnode_ind'. intros p HP HD.
    rewrite Placed_unfold in HP. destruct HP as ((i & Hl & Hpar & Hterm) & HPch).
    rewrite JDocN_unfold in HD. destruct HD as (Hany & Hval & Hmeta & Hnd & HDch).
    rewrite jnode_val_unfold.
    assert (Inner : W SV (JVobj ((match m with [] => [] | _ => [([64], jmeta_obj m)] end) ++
               assemble sch t (Some (node_mod t s)) (map (fun c => (c, jnode_val sch t jk c)) ch)))).
    { rewrite W_obj. apply Forall_app. split.
      - destruct m as [|kv m']; [constructor|]. constructor; [|constructor]. cbn [fst snd].
        split; [apply key_ok_chars; reflexivity|apply W_meta_obj, Hmeta].
      - apply assemble_W. apply (children_ElemOK s ch IH HPch HDch). }
    unfold is_term, kind_of, sget in *. rewrite Hl in *.
    destruct (si_kind i); cbn [is_term_kind] in Hval; try exact Inner; try (apply W_term; exact Hval).
    exfalso. apply Hany. reflexivity.
  Qed.

  Lemma W_tree f : Forall (Placed sch None) f -> Forall JDocN f -> W SV (json_tree sch t jk f).
  Proof.
    intros HP HD. unfold json_tree. rewrite W_obj. apply assemble_W.
    apply Forall_forall. intros x Hx. apply in_map_iff in Hx. destruct Hx as (c & <- & Hc).
    rewrite Forall_forall in HP, HD. unfold ElemOK. cbn [fst snd].
    destruct (Placed_lookup _ _ (HP c Hc)) as (i & Hl & _).
    split; [exists i; exact Hl|]. split; [apply (W_node c None); auto|apply JDocN_meta; auto].
  Qed.

  (* the generic reader, with any string reader that inverts json_print_string on the class SV, reads the rendering of
     the RFC 7951 value of a forest back as that value *)
  Theorem jv_text_doc rdstr f :
    (forall s rest, SV s -> rdstr (json_esc s ++ rest) = Some (s, rest)) ->
    Forall (Placed sch None) f -> Forall JDocN f ->
    jv_text rdstr (json_doc sch t jk f) = Some (json_tree sch t jk f).
  Proof. intros Hr HP HD. unfold json_doc. apply (jv_text_render SV rdstr Hr), W_tree; assumption. Qed.
End JsonData.

(* ====================================================================================== *)
(* the schema-directed conversion of the RFC 7951 value gives the forest back              *)
(* ====================================================================================== *)
Section ConvUnfold.
  Variable sch : schema.
  Variable t : doctabs.
  Variable jk : list (sid * jkind).
  (* the recursive calls of conv_obj as a parameter, so that its member loop can be named *)
  Variable rec : option sid -> option N -> jval -> option (list (bytes * bytes) * forest).

  Fixpoint conv_each (sd : sid) (md : option N) (os : list jval) : option forest :=
    match os with
    | [] => Some []
    | o :: os' =>
        match rec (Some sd) md o, conv_each sd md os' with
        | Some (mm, ch), Some f => Some (DN sd [] false mm ch :: f)
        | _, _ => None
        end
    end.

  Fixpoint conv_go (p : option sid) (pm : option N) (l : list (bytes * jval)) {struct l} : option forest :=
    match l with
    | [] => Some []
    | (k, x) :: r =>
        match resolve_member sch t p pm k with
        | None => None
        | Some sd =>
            let md := Some (node_mod t sd) in
            match kind_of sch sd with
            | KLeaf =>
                match term_of_jval (jkind_of jk sd) x with
                | None => None
                | Some tv =>
                    match r with
                    | (k2, x2) :: r' =>
                        if beq_bytes k2 (64 :: k) then
                          match metas_of_jval x2, conv_go p pm r' with
                          | Some mm, Some f => Some (DN sd tv false mm [] :: f)
                          | _, _ => None
                          end
                        else match conv_go p pm r with Some f => Some (DN sd tv false [] [] :: f) | None => None end
                    | [] => Some [DN sd tv false [] []]
                    end
                end
            | KCont _ =>
                match rec (Some sd) md x, conv_go p pm r with
                | Some (mm, ch), Some f => Some (DN sd [] false mm ch :: f)
                | _, _ => None
                end
            | KList =>
                match x with
                | JVarr objs =>
                    match conv_each sd md objs, conv_go p pm r with
                    | Some a, Some f => Some (a ++ f)
                    | _, _ => None
                    end
                | _ => None
                end
            | KLeafList =>
                match x with
                | JVarr vals =>
                    match r with
                    | (k2, JVarr ms) :: r' =>
                        if beq_bytes k2 (64 :: k) then
                          match zip_leaflist jk sd vals ms, conv_go p pm r' with
                          | Some a, Some f => Some (a ++ f)
                          | _, _ => None
                          end
                        else match zip_leaflist jk sd vals [], conv_go p pm r with
                             | Some a, Some f => Some (a ++ f)
                             | _, _ => None
                             end
                    | _ => match zip_leaflist jk sd vals [], conv_go p pm r with
                           | Some a, Some f => Some (a ++ f)
                           | _, _ => None
                           end
                    end
                | _ => None
                end
            | KAny => None
            end
        end
    end.
End ConvUnfold.

Lemma conv_obj_unfold sch t jk p pm l0 :
  conv_obj sch t jk p pm (JVobj l0) =
  match l0 with
  | (k, x) :: r =>
      if beq_bytes k [64] then
        match metas_of_jval x, conv_go sch t jk (conv_obj sch t jk) p pm r with
        | Some mm, Some f => Some (mm, f)
        | _, _ => None
        end
      else match conv_go sch t jk (conv_obj sch t jk) p pm l0 with Some f => Some ([], f) | None => None end
  | [] => Some ([], [])
  end.
Proof.
  cbn [conv_obj].
  match goal with |- context[(fix go (l : list (bytes * jval)) {struct l} : option forest := _)] =>
    set (go := (fix go (l : list (bytes * jval)) {struct l} : option forest := _)) end.
  assert (E : forall n l, (length l <= n)%nat -> go l = conv_go sch t jk (conv_obj sch t jk) p pm l).
  { induction n as [|n IH]; intros l Hl.
    - destruct l; [reflexivity|cbn in Hl; lia].
    - destruct l as [|[k x] r]; [reflexivity|].
      unfold go at 1. cbn fix beta iota. fold go. cbn [conv_go]. cbn [length] in Hl.
      destruct (resolve_member sch t p pm k) as [sd|]; [|reflexivity]. cbv zeta.
      assert (Er : go r = conv_go sch t jk (conv_obj sch t jk) p pm r) by (apply IH; lia).
      destruct (kind_of sch sd).
      + rewrite Er. reflexivity.
      + destruct (term_of_jval (jkind_of jk sd) x); [|reflexivity].
        destruct r as [|[k2 x2] r']; [reflexivity|].
        destruct (beq_bytes k2 (64 :: k)); [|rewrite Er; reflexivity].
        rewrite (IH r') by (cbn [length] in Hl; lia). reflexivity.
      + destruct x; try reflexivity.
        destruct r as [|[k2 x2] r']; [rewrite Er; reflexivity|].
        destruct x2; try (rewrite Er; reflexivity).
        destruct (beq_bytes k2 (64 :: k)); [|rewrite Er; reflexivity].
        rewrite (IH r') by (cbn [length] in Hl; lia). reflexivity.
      + destruct x; try reflexivity. rewrite Er.
        match goal with |- context[(fix each (os : list jval) {struct os} : option forest := _)] =>
          set (each := (fix each (os : list jval) {struct os} : option forest := _)) end.
        assert (Ee : forall os, each os = conv_each (conv_obj sch t jk) sd (Some (node_mod t sd)) os).
        { induction os as [|o os IHo]; [reflexivity|]. unfold each at 1. cbn fix beta iota. fold each. cbn [conv_each].
          rewrite IHo. reflexivity. }
        rewrite Ee. reflexivity.
      + reflexivity. }
  destruct l0 as [|[k x] r]; [reflexivity|].
  rewrite (E _ r (Nat.le_refl _)), (E _ ((k, x) :: r) (Nat.le_refl _)). reflexivity.
Qed.

Lemma has_colon_app a b : has_colon (a ++ 58 :: b) = true.
Proof. induction a as [|x a IH]; cbn [app has_colon]; [reflexivity|]. rewrite IH. apply orb_true_r. Qed.

Lemma has_colon_ncname nm : ncname_ok nm = true -> has_colon nm = false.
Proof.
  intro H. destruct (ncname_ok_chars nm H) as [Hc _]. clear H. induction nm as [|c r IH]; [reflexivity|].
  cbn [forallb] in Hc. apply andb_true_iff in Hc. destruct Hc as [H1 H2]. cbn [has_colon]. rewrite (IH H2), orb_false_r.
  destruct (c =? 58) eqn:E; [apply N.eqb_eq in E; subst c; discriminate H1|reflexivity].
Qed.

Lemma mod_id_by_name_rel l nm :
  match mod_id_by_name l nm, mod_by_name l nm with
  | Some m', Some mi' => In (m', mi') l
  | None, None => True
  | _, _ => False
  end.
Proof.
  induction l as [|[a x] r IH]; cbn [mod_id_by_name mod_by_name]; [exact I|].
  destruct (beq_bytes (mi_name x) nm); [left; reflexivity|].
  destruct (mod_id_by_name r nm), (mod_by_name r nm); try exact IH. right. exact IH.
Qed.

Lemma mod_id_by_name_ok t m mi : mods_okb t = true -> In (m, mi) (dt_mods t) -> mod_id_by_name (dt_mods t) (mi_name mi) = Some m.
Proof.
  intros Hm Hin. pose proof (mods_ok_entry _ _ _ Hm Hin) as MF.
  pose proof (mod_id_by_name_rel (dt_mods t) (mi_name mi)) as R. rewrite (mf_byname _ _ _ MF) in R.
  destruct (mod_id_by_name (dt_mods t) (mi_name mi)) as [m'|]; [|contradiction].
  pose proof (mf_byns _ _ _ (mods_ok_entry _ _ _ Hm R)) as B. rewrite (mf_byns _ _ _ MF) in B. inversion B. reflexivity.
Qed.

Lemma metas_of_jobj_meta m : metas_of_jobj (map (fun kv : bytes * bytes => (fst kv, JVstr (snd kv))) m) = Some m.
Proof. induction m as [|[k v] m IH]; [reflexivity|]. cbn [map metas_of_jobj fst snd]. rewrite IH. reflexivity. Qed.

Lemma metas_of_jval_obj m : metas_of_jval (jmeta_obj m) = Some m.
Proof. apply metas_of_jobj_meta. Qed.

Lemma term_of_jval_term SV k v : jterm_ok SV k v -> term_of_jval k (jval_of_term k v) = Some v.
Proof.
  destruct k; cbn [jterm_ok jval_of_term term_of_jval].
  - reflexivity.
  - intros (_ & _ & Hne). destruct v; [contradiction|reflexivity].
  - intros [->| ->]; reflexivity.
  - intros ->. reflexivity.
Qed.

Fixpoint ungroup {A} (G : list (sid * list (dnode * A))) : list (dnode * A) :=
  match G with [] => [] | g :: G' => snd g ++ ungroup G' end.

Lemma ungroup_group_runs {A} (l : list (dnode * A)) : ungroup (group_runs l) = l.
Proof.
  induction l as [|x l IH]; [reflexivity|]. cbn [group_runs].
  destruct (group_runs l) as [|[s run] gs] eqn:E; [cbn in IH |- *; rewrite <- IH; reflexivity|].
  destruct (s =? d_sid (fst x)); cbn [ungroup snd app] in *; rewrite <- IH; reflexivity.
Qed.

Lemma clear_term s v d m : clear_dflt_node (DN s v d m []) = DN s v false m [].
Proof. reflexivity. Qed.

Section Conv.
  Variable sch : schema.
  Variable t : doctabs.
  Variable jk : list (sid * jkind).
  Variable SV : bytes -> Prop.
  Hypothesis Htabs : tabs_okb sch t = true.

  Let Hm : mods_okb t = true := Hmods sch t Htabs.
  Let Hn : names_okb sch t = true := Hnames sch t Htabs.

  Notation JD := (JDocN sch t jk SV).
  Notation jval_of := (jnode_val sch t jk).
  Notation cgo := (conv_go sch t jk (conv_obj sch t jk)).

  Lemma resolve_mname p pm s i :
    lookup sch s = Some i -> si_parent i = p -> resolve_member sch t p pm (mname t pm s) = Some s.
  Proof.
    intros Hl Hp. pose proof (names_ok_entry _ _ _ _ Hn Hl) as NF. destruct (nf_mod _ _ _ NF) as (mi & Hin & Emi).
    pose proof (mods_ok_entry _ _ _ Hm Hin) as MF.
    pose proof (nf_sid _ _ _ NF) as Hsid. unfold sget in Hsid at 1. rewrite Hl, Hp in Hsid.
    unfold resolve_member, mname.
    destruct (match pm with None => true | Some m => negb (m =? node_mod t s) end) eqn:Eq.
    - rewrite Emi. rewrite <- app_assoc. cbn [app]. rewrite has_colon_app.
      rewrite (split_colon_app _ _ (proj1 (ncname_ok_chars _ (mf_name _ _ _ MF)))).
      rewrite (mod_id_by_name_ok t _ _ Hm Hin). exact Hsid.
    - cbn [app]. rewrite (has_colon_ncname _ (nf_name _ _ _ NF)).
      destruct pm as [m|]; [|discriminate Eq]. apply negb_false_iff, N.eqb_eq in Eq. subst m. exact Hsid.
  Qed.

  Definition key_head_ok (k : bytes) : Prop := exists c r, k = c :: r /\ c <> 64.
  Definition tail_ok (tail : list (bytes * jval)) : Prop :=
    match tail with (k2, _) :: _ => key_head_ok k2 | [] => True end.

  Lemma mname_head pm s i : lookup sch s = Some i -> key_head_ok (mname t pm s).
  Proof.
    intro Hl. pose proof (names_ok_entry _ _ _ _ Hn Hl) as NF. destruct (nf_mod _ _ _ NF) as (mi & Hin & Emi).
    pose proof (mods_ok_entry _ _ _ Hm Hin) as MF. unfold mname.
    assert (Hh : forall nm r, ncname_ok nm = true -> key_head_ok (nm ++ r)).
    { intros nm r H. destruct (ncname_first nm H) as (c & r' & -> & Hc). exists c, (r' ++ r). split; [reflexivity|].
      unfold is_ncname_start, is_alpha in Hc. lia. }
    destruct (match pm with None => true | Some m => negb (m =? node_mod t s) end).
    - rewrite Emi, <- app_assoc. apply Hh, (mf_name _ _ _ MF).
    - cbn [app]. rewrite <- (app_nil_r (node_name t s)). apply Hh, (nf_name _ _ _ NF).
  Qed.

  Lemma beq_key_head k2 nm : key_head_ok k2 -> beq_bytes k2 (64 :: nm) = false.
  Proof.
    intros (c & r & -> & Hc). cbn [beq_bytes]. apply N.eqb_neq in Hc. rewrite Hc. reflexivity.
  Qed.

  (* what the conversion needs to know of a sibling and the value it contributes *)
  Definition Good (p : option sid) (x : dnode * jval) : Prop :=
    Placed sch p (fst x) /\ JD (fst x) /\ snd x = jval_of (fst x) /\
    (is_term sch (d_sid (fst x)) = false ->
     conv_obj sch t jk (Some (d_sid (fst x))) (Some (node_mod t (d_sid (fst x)))) (snd x) =
       Some (d_meta (fst x), clear_dflt (d_ch (fst x)))).

  Definition clearl (run : list (dnode * jval)) : forest := map clear_dflt_node (map fst run).

  Lemma Good_facts p x : Good p x ->
    exists s v d m ch i, fst x = DN s v d m ch /\ lookup sch s = Some i /\ si_parent i = p /\
      (is_term_kind (si_kind i) = true -> ch = []) /\ kind_of sch s = si_kind i /\
      (if is_term_kind (si_kind i) then jterm_ok SV (jkind_of jk s) v else v = []) /\ si_kind i <> KAny.
  Proof.
    intros (HP & HD & _ & _). destruct (fst x) as [s v d m ch]. rewrite Placed_unfold in HP.
    destruct HP as ((i & Hl & Hp & Ht) & _). rewrite JDocN_unfold in HD. destruct HD as (Hany & Hval & _).
    exists s, v, d, m, ch, i. unfold is_term, kind_of, sget in *. rewrite Hl in *. repeat split; assumption.
  Qed.

  (* leaf-list: the values zipped with the metadata entries (or with none) *)
  Lemma zip_run p sd run :
    Forall (fun x => Good p x /\ d_sid (fst x) = sd) run -> kind_of sch sd = KLeafList ->
    zip_leaflist jk sd (map snd run) (map meta_or_null run) = Some (clearl run) /\
    (existsb has_meta run = false -> zip_leaflist jk sd (map snd run) [] = Some (clearl run)).
  Proof.
    intros Hall Hk. induction Hall as [|x run [Hx Hs] _ IH]; [split; reflexivity|].
    destruct (Good_facts p x Hx) as (s & v & d & m & ch & i & Ex & Hl & Hp & Hterm & Ekind & Hval & Hany).
    destruct Hx as (_ & _ & Ev & _). rewrite Ex in Hs, Ev. cbn [d_sid] in Hs. subst s.
    rewrite Hk in Ekind. rewrite <- Ekind in *. cbn [is_term_kind] in *. specialize (Hterm eq_refl). subst ch.
    rewrite jnode_val_unfold, Hk in Ev.
    destruct IH as [IH1 IH2]. unfold clearl in *. cbn [map]. rewrite Ex. cbn [zip_leaflist tl].
    rewrite Ev, (term_of_jval_term SV _ _ Hval). split.
    - unfold meta_or_null at 1. rewrite Ex. cbn [fst d_meta].
      assert (Em : metas_of_jval (match m with [] => JVnull | p0 :: l => jmeta_obj (p0 :: l) end) = Some m)
        by (destruct m; [reflexivity|apply metas_of_jval_obj]).
      rewrite Em, IH1. reflexivity.
    - cbn [existsb]. intro He. apply orb_false_iff in He. destruct He as [He1 He2].
      unfold has_meta in He1. rewrite Ex in He1. cbn [fst d_meta] in He1. destruct m; [|discriminate He1].
      rewrite (IH2 He2). reflexivity.
  Qed.

  (* one run of siblings *)
  Lemma conv_group p pm s run tail :
    run <> [] -> Forall (fun x => Good p x /\ d_sid (fst x) = s) run -> tail_ok tail ->
    cgo p pm (group_members sch t pm (s, run) ++ tail) =
      match cgo p pm tail with Some f => Some (clearl run ++ f) | None => None end.
  Proof.
    intros Hne Hall Htail.
    destruct run as [|x0 run0]; [contradiction|].
    pose proof (Forall_inv Hall) as [Hx0 Hs0].
    destruct (Good_facts p x0 Hx0) as (s0 & v0 & d0 & m0 & ch0 & i & Ex0 & Hl & Hp & _ & Ekind & _ & Hany).
    rewrite Ex0 in Hs0. cbn [d_sid] in Hs0. subst s0.
    pose proof (resolve_mname p pm s i Hl Hp) as Hres.
    pose proof (mname_head pm s i Hl) as Hhead.
    set (nm := mname t pm s) in *.
    cbn [group_members]. fold nm. rewrite Ekind.
    destruct (si_kind i) eqn:Ek; [| | | |exfalso; apply Hany; reflexivity].
    - (* containers, one member each *)
      clear Hne Ex0 Hx0. induction Hall as [|x run [Hx Hs] _ IH]; [cbn [map app clearl]; destruct (cgo p pm tail); reflexivity|].
      destruct (Good_facts p x Hx) as (s1 & v & d & m & ch & i1 & Ex & Hl1 & _ & _ & Ekind1 & Hval & _).
      rewrite Ex in Hs. cbn [d_sid] in Hs. subst s1. rewrite Hl in Hl1. inversion Hl1; subst i1. rewrite Ek in Hval. cbn [is_term_kind] in Hval. subst v.
      destruct Hx as (_ & _ & _ & Hconv). rewrite Ex in Hconv. cbn [fst d_sid d_meta d_ch] in Hconv.
      assert (Hnt : is_term sch s = false) by (unfold is_term; rewrite Ekind; reflexivity).
      cbn [map app]. cbn [conv_go]. rewrite Hres. cbv zeta. rewrite Ekind. rewrite (Hconv Hnt), IH.
      unfold clearl. cbn [map]. rewrite Ex. destruct (cgo p pm tail); reflexivity.
    - (* leaves: the value member, then the metadata member when there is metadata *)
      clear Hne Ex0 Hx0. induction Hall as [|x run [Hx Hs] _ IH]; [cbn [flat_map app clearl map]; destruct (cgo p pm tail); reflexivity|].
      destruct (Good_facts p x Hx) as (s1 & v & d & m & ch & i1 & Ex & Hl1 & _ & Hterm & Ekind1 & Hval & _).
      rewrite Ex in Hs. cbn [d_sid] in Hs. subst s1. rewrite Hl in Hl1. inversion Hl1; subst i1. rewrite Ek in Hval, Hterm. cbn [is_term_kind] in Hval, Hterm.
      specialize (Hterm eq_refl). subst ch.
      destruct Hx as (_ & _ & Ev & _). rewrite Ex in Ev. rewrite jnode_val_unfold, Ekind in Ev.
      assert (Hhm : has_meta x = negb (isnil m)) by (unfold has_meta; rewrite Ex; reflexivity).
      assert (Hdm : d_meta (fst x) = m) by (rewrite Ex; reflexivity).
      cbn [flat_map]. rewrite Hhm, Hdm. rewrite <- app_assoc. cbn [app]. cbn [conv_go]. rewrite Hres. cbv zeta. rewrite Ekind.
      rewrite Ev, (term_of_jval_term SV _ _ Hval).
      assert (Hc : clearl (x :: run) = DN s v false m [] :: clearl run) by (unfold clearl; cbn [map]; rewrite Ex; reflexivity).
      rewrite Hc. clear Hc.
      set (rest := flat_map (fun x1 : dnode * jval =>
                     (nm, snd x1) :: (if has_meta x1 then [(64 :: nm, jmeta_obj (d_meta (fst x1)))] else [])) run ++ tail) in *.
      assert (Hrest : tail_ok rest).
      { subst rest. destruct run as [|y run']; [exact Htail|]. cbn [flat_map app tail_ok]. exact Hhead. }
      destruct m as [|kv m'].
      + cbn [isnil negb app].
        destruct rest as [|[k2 x2] r'] eqn:Er.
        * cbn [conv_go] in IH. destruct (cgo p pm tail); inversion IH. cbn [app]. destruct (clearl run); [reflexivity|discriminate].
        * cbn [tail_ok] in Hrest. rewrite (beq_key_head k2 nm Hrest). rewrite IH.
          destruct (cgo p pm tail); reflexivity.
      + cbn [isnil negb app]. rewrite beq_bytes_true, metas_of_jval_obj, IH.
        destruct (cgo p pm tail); reflexivity.
    - (* leaf-list: the array, then the metadata array when an instance has metadata *)
      destruct (zip_run p s (x0 :: run0) Hall Ekind) as [Z1 Z2].
      cbn [app conv_go]. rewrite Hres. cbv zeta. rewrite Ekind.
      destruct (existsb has_meta (x0 :: run0)) eqn:Em.
      + cbn [app]. rewrite beq_bytes_true, Z1. destruct (cgo p pm tail); reflexivity.
      + cbn [app]. rewrite (Z2 eq_refl).
        destruct tail as [|[k2 x2] r']; [reflexivity|]. cbn [tail_ok] in Htail.
        destruct x2; try reflexivity. rewrite (beq_key_head k2 nm Htail). reflexivity.
    - (* list: one array of objects *)
      cbn [app conv_go]. rewrite Hres. cbv zeta. rewrite Ekind.
      assert (He : conv_each (conv_obj sch t jk) s (Some (node_mod t s)) (map snd (x0 :: run0)) = Some (clearl (x0 :: run0))).
      { clear Hne Ex0 Hx0. induction Hall as [|x run [Hx Hs] _ IH]; [reflexivity|].
        destruct (Good_facts p x Hx) as (s1 & v & d & m & ch & i1 & Ex & Hl1 & _ & _ & Ekind1 & Hval & _).
        rewrite Ex in Hs. cbn [d_sid] in Hs. subst s1. rewrite Hl in Hl1. inversion Hl1; subst i1. rewrite Ek in Hval. cbn [is_term_kind] in Hval. subst v.
        destruct Hx as (_ & _ & _ & Hconv). rewrite Ex in Hconv. cbn [fst d_sid d_meta d_ch] in Hconv.
        assert (Hnt : is_term sch s = false) by (unfold is_term; rewrite Ekind; reflexivity).
        cbn [map conv_each]. rewrite (Hconv Hnt), IH. unfold clearl. cbn [map]. rewrite Ex. reflexivity. }
      rewrite He. destruct (cgo p pm tail); reflexivity.
  Qed.

  Lemma clearl_app a b : clearl (a ++ b) = clearl a ++ clearl b.
  Proof. unfold clearl. rewrite !map_app. reflexivity. Qed.

  Definition GroupOK (p : option sid) (g : sid * list (dnode * jval)) : Prop :=
    snd g <> [] /\ Forall (fun x => Good p x /\ d_sid (fst x) = fst g) (snd g).

  Lemma groups_tail_ok p pm G : Forall (GroupOK p) G -> tail_ok (flat_map (group_members sch t pm) G).
  Proof.
    intro H. destruct G as [|[s run] G']; [exact I|]. inversion H as [|? ? [Hne Hall] _]; subst. cbn [fst snd] in *.
    destruct run as [|x0 run0]; [contradiction|]. pose proof (Forall_inv Hall) as [Hx0 Hs0].
    destruct (Good_facts p x0 Hx0) as (s0 & v0 & d0 & m0 & ch0 & i & Ex0 & Hl & _ & _ & Ekind & _ & Hany).
    rewrite Ex0 in Hs0. cbn [d_sid] in Hs0. subst s0. pose proof (mname_head pm s i Hl) as Hh.
    cbn [flat_map group_members]. rewrite Ekind.
    destruct (si_kind i); cbn [map flat_map app tail_ok]; try exact Hh.
  Qed.

  Lemma conv_groups p pm G :
    Forall (GroupOK p) G -> cgo p pm (flat_map (group_members sch t pm) G) = Some (clearl (ungroup G)).
  Proof.
    induction 1 as [|[s run] G' [Hne Hall] HG IH]; [reflexivity|]. cbn [fst snd] in *.
    cbn [flat_map ungroup snd]. rewrite (conv_group p pm s run _ Hne Hall (groups_tail_ok p pm G' HG)).
    rewrite IH, clearl_app. reflexivity.
  Qed.

  Lemma assemble_conv p pm l : Forall (Good p) l -> cgo p pm (assemble sch t pm l) = Some (clearl l).
  Proof.
    intro H. unfold assemble. rewrite conv_groups; [rewrite ungroup_group_runs; reflexivity|].
    apply Forall_forall. intros g Hg. split; [apply (group_runs_nonempty l g Hg)|].
    apply Forall_forall. intros x Hx. destruct (group_runs_in l g x Hg Hx) as [H1 H2]. rewrite Forall_forall in H. split; [apply H, H1|exact H2].
  Qed.

  Lemma clearl_pairs ch : clearl (map (fun c => (c, jval_of c)) ch) = clear_dflt ch.
  Proof. unfold clearl, clear_dflt. rewrite !map_map. cbn [fst]. reflexivity. Qed.

  Lemma conv_node n : forall p,
    Placed sch p n -> JD n -> is_term sch (d_sid n) = false ->
    conv_obj sch t jk (Some (d_sid n)) (Some (node_mod t (d_sid n))) (jval_of n) = Some (d_meta n, clear_dflt (d_ch n)).
  Proof.
    induction n as [s v d m ch IH] using dnode_ind'. intros p HP HD Hnt.
    pose proof HP as HP0. pose proof HD as HD0.
    rewrite Placed_unfold in HP. destruct HP as ((i & Hl & Hpar & Hterm) & HPch).
    rewrite JDocN_unfold in HD. destruct HD as (Hany & Hval & Hmeta & Hnd & HDch).
    cbn [d_sid d_meta d_ch] in *.
    assert (HG : Forall (Good (Some s)) (map (fun c => (c, jval_of c)) ch)).
    { apply Forall_forall. intros x Hx. apply in_map_iff in Hx. destruct Hx as (c & <- & Hc).
      rewrite Forall_forall in IH, HPch, HDch. unfold Good. cbn [fst snd].
      split; [apply HPch, Hc|]. split; [apply HDch, Hc|]. split; [reflexivity|].
      intro Hc'. apply (IH c Hc (Some s)); auto. }
    pose proof (assemble_conv (Some s) (Some (node_mod t s)) _ HG) as Hconv. rewrite clearl_pairs in Hconv.
    rewrite jnode_val_unfold.
    unfold is_term, kind_of, sget in *. rewrite Hl in *.
    assert (Main : conv_obj sch t jk (Some s) (Some (node_mod t s))
              (JVobj ((match m with [] => [] | _ => [([64], jmeta_obj m)] end) ++
                      assemble sch t (Some (node_mod t s)) (map (fun c => (c, jval_of c)) ch))) = Some (m, clear_dflt ch)).
    { rewrite conv_obj_unfold. destruct m as [|kv m'].
      - cbn [app].
        destruct (assemble sch t (Some (node_mod t s)) (map (fun c => (c, jval_of c)) ch)) as [|[k x] r] eqn:Ea.
        + cbn [conv_go] in Hconv. inversion Hconv. reflexivity.
        + assert (Hk : key_head_ok k).
          { pose proof (groups_tail_ok (Some s) (Some (node_mod t s)) (group_runs (map (fun c => (c, jval_of c)) ch))) as Ht.
            unfold assemble in Ea. rewrite Ea in Ht. apply Ht.
            apply Forall_forall. intros g Hg. split; [apply (group_runs_nonempty _ g Hg)|].
            apply Forall_forall. intros y Hy. destruct (group_runs_in _ g y Hg Hy) as [H1 H2]. rewrite Forall_forall in HG. split; [apply HG, H1|exact H2]. }
          destruct Hk as (c & r' & -> & Hc). cbn [beq_bytes]. apply N.eqb_neq in Hc. rewrite Hc. cbn [andb].
          rewrite Hconv. reflexivity.
      - cbn [app]. rewrite beq_bytes_true, metas_of_jval_obj, Hconv. reflexivity. }
    destruct (si_kind i); cbn [is_term_kind] in Hnt; try discriminate Hnt; try exact Main.
  Qed.

  Theorem conv_tree f :
    Forall (Placed sch None) f -> Forall JD f -> conv_obj sch t jk None None (json_tree sch t jk f) = Some ([], clear_dflt f).
  Proof.
    intros HP HD. unfold json_tree.
    assert (HG : Forall (Good None) (map (fun c => (c, jval_of c)) f)).
    { apply Forall_forall. intros x Hx. apply in_map_iff in Hx. destruct Hx as (c & <- & Hc).
      rewrite Forall_forall in HP, HD. unfold Good. cbn [fst snd].
      split; [apply HP, Hc|]. split; [apply HD, Hc|]. split; [reflexivity|].
      intro Hc'. apply (conv_node c None); auto. }
    pose proof (assemble_conv None None _ HG) as Hconv. rewrite clearl_pairs in Hconv.
    rewrite conv_obj_unfold.
    destruct (assemble sch t None (map (fun c => (c, jval_of c)) f)) as [|[k x] r] eqn:Ea.
    - cbn [conv_go] in Hconv. inversion Hconv. reflexivity.
    - assert (Hk : key_head_ok k).
      { pose proof (groups_tail_ok None None (group_runs (map (fun c => (c, jval_of c)) f))) as Ht.
        unfold assemble in Ea. rewrite Ea in Ht. apply Ht.
        apply Forall_forall. intros g Hg. split; [apply (group_runs_nonempty _ g Hg)|].
        apply Forall_forall. intros y Hy. destruct (group_runs_in _ g y Hg Hy) as [H1 H2]. rewrite Forall_forall in HG. split; [apply HG, H1|exact H2]. }
      destruct Hk as (c & r' & -> & Hc). cbn [beq_bytes]. apply N.eqb_neq in Hc. rewrite Hc. cbn [andb].
      rewrite Hconv. reflexivity.
  Qed.
End Conv.

(* ====================================================================================== *)
(* the theorems about the RFC 7951 rendering                                               *)
(* ====================================================================================== *)
Lemma jkey_ascii k : forallb jkey_char k = true -> Forall (fun c => 45 <= c /\ c <= 122) k.
Proof.
  intro H. apply Forall_forall. intros c Hc. rewrite forallb_forall in H. specialize (H c Hc).
  unfold jkey_char, is_ncname_char, is_ncname_start, is_alpha, is_digit in H. lia.
Qed.

Lemma SV_ly_key k : forallb jkey_char k = true -> SV_ly k.
Proof.
  intro H. pose proof (jkey_ascii k H) as Ha. clear H. split.
  - induction Ha as [|c r Hc _ IH]; [constructor|]. apply lx_cons with (cp := c) (u := 1%nat); [apply getutf8_ascii; lia|exact IH].
  - induction Ha as [|c r Hc _ IH]; [reflexivity|]. cbn [bytes_ok forallb]. fold (bytes_ok r). rewrite IH.
    unfold byte_ok. assert (E : (c <? 256) = true) by lia. rewrite E. reflexivity.
Qed.

Lemma utf8_nonul_key k : forallb jkey_char k = true -> utf8_nonul k.
Proof.
  intro H. pose proof (jkey_ascii k H) as Ha. clear H. exists k. split.
  - induction Ha as [|c r Hc _ IH]; [reflexivity|]. cbn [forallb]. rewrite IH. unfold valid_cp, is_scalar.
    assert (E : ((c <? 55296) || (57343 <? c) && (c <? 1114112)) && negb (c =? 0) = true) by lia. rewrite E. reflexivity.
  - induction Ha as [|c r Hc _ IH]; [reflexivity|]. cbn [flat_map]. rewrite <- IH. rewrite utf8_encode_ascii by lia. reflexivity.
Qed.

(* C01, JSON: libyang's side reads the rendering of the RFC 7951 value of a forest back as the forest *)
Theorem json_doc_roundtrip_proof sch t jk f :
  tabs_okb sch t = true -> Canon sch f -> Forall (JDocN sch t jk SV_ly) f ->
  json_parse sch t jk (json_doc sch t jk f) = Some (clear_dflt f).
Proof.
  intros Ht HC HD. unfold json_parse.
  rewrite (jv_text_doc sch t jk SV_ly Ht SV_ly_key ly_rdstr f ly_rdstr_ok (Canon_Placed _ _ HC) HD).
  rewrite (conv_tree sch t jk SV_ly Ht f (Canon_Placed _ _ HC) HD). reflexivity.
Qed.

(* C12, JSON: an RFC 8259 reader reads the rendering as exactly the RFC 7951 value of the forest *)
Theorem json_doc_std_proof sch t jk f :
  tabs_okb sch t = true -> Canon sch f -> Forall (JDocN sch t jk utf8_nonul) f ->
  std_json_value (json_doc sch t jk f) = Some (json_tree sch t jk f).
Proof.
  intros Ht HC HD. unfold std_json_value.
  apply (jv_text_doc sch t jk utf8_nonul Ht utf8_nonul_key std_rdstr f std_rdstr_ok (Canon_Placed _ _ HC) HD).
Qed.

(* the boolean checkers imply the data hypotheses *)
Lemma jterm_okb_spec (vb : bytes -> bool) (SV : bytes -> Prop) k v :
  (forall v, vb v = true -> SV v) -> jterm_okb vb k v = true -> jterm_ok SV k v.
Proof.
  intros HV. destruct k; cbn [jterm_okb jterm_ok]; intro H.
  - apply HV, H.
  - apply andb_true_iff in H. destruct H as [H H3]. apply andb_true_iff in H. destruct H as [H1 H2].
    repeat split; try assumption. intro E. subst v. discriminate H3.
  - apply orb_true_iff in H. destruct H as [H|H]; apply beq_bytes_eq in H; auto.
  - destruct v; [reflexivity|discriminate H].
Qed.

Lemma jdocb_spec sch t jk (vb : bytes -> bool) (SV : bytes -> Prop) n :
  (forall v, vb v = true -> SV v) -> jdocb sch t jk vb n = true -> JDocN sch t jk SV n.
Proof.
  intros HV. induction n as [s v d m ch IH] using dnode_ind'. intro H. cbn [jdocb] in H.
  repeat (apply andb_true_iff in H; destruct H as [H ?]).
  rewrite JDocN_unfold. split; [|split; [|split; [|split]]].
  - intro E. rewrite E in H. discriminate H.
  - destruct (is_term sch s); [apply (jterm_okb_spec vb SV _ _ HV); assumption|]. destruct v; [reflexivity|discriminate].
  - apply Forall_forall. intros kv Hin. apply (meta_okb_spec t vb SV kv HV).
    match goal with Hm : forallb (meta_okb t vb) m = true |- _ => rewrite forallb_forall in Hm; apply Hm, Hin end.
  - apply nodupb_spec. assumption.
  - match goal with Hc : forallb (jdocb sch t jk vb) ch = true |- _ => rewrite forallb_forall in Hc end.
    rewrite Forall_forall in *. intros x Hx. apply (IH x Hx). auto.
Qed.

Lemma jlexb_spec v : jlexb v = true -> SV_ly v.
Proof. unfold jlexb. intro H. apply andb_true_iff in H. destruct H as [H1 H2]. split; [apply lexableb_spec, H1|exact H2]. Qed.

Lemma nonulb_spec v : nonulb v = true -> utf8_nonul v.
Proof.
  unfold nonulb. destruct (std_decode_all (S (length v)) v []) as [cps|]; [|discriminate].
  intro H. apply andb_true_iff in H. destruct H as [H H3]. apply andb_true_iff in H. destruct H as [H1 H2].
  apply beq_bytes_eq in H3. exists cps. split; [|symmetry; exact H3].
  rewrite forallb_forall in *. intros c Hc. unfold valid_cp. rewrite (H2 c Hc), (H1 c Hc). reflexivity.
Qed.

(* ====================================================================================== *)
(* the state machine of printer_json.c prints the rendering of the RFC 7951 value          *)
(* ====================================================================================== *)
Ltac fin_pair := apply f_equal2; [norm_app; rewrite ?app_nil_r; reflexivity|reflexivity].

Section Equiv.
  Variable sch : schema.
  Variable t : doctabs.
  Variable jk : list (sid * jkind).

  Variable sel : dnode -> bool.

  Notation jn := (json_node sch t jk sel).
  Notation jsib := (json_siblings sch t jk sel).

  (* siblings [a] followed by the siblings [b] (which the nodes of [a] see as following nodes) *)
  Fixpoint sibs (par : option N) (prev a b : list dnode) (st : jst) : bytes * jst :=
    match a with
    | [] => ([], st)
    | c :: a' =>
        let '(o1, s1) := jn par prev (a' ++ b) st c in
        let '(o2, s2) := sibs par (c :: prev) a' b s1 in
        (o1 ++ o2, s2)
    end.

  Lemma jsib_sibs par prev l st : jsib par prev l st = sibs par prev l [] st.
  Proof.
    revert prev st. induction l as [|c l IH]; intros prev st; [reflexivity|].
    cbn [json_siblings sibs]. rewrite app_nil_r. destruct (jn par prev l st c) as [o1 s1]. rewrite IH. reflexivity.
  Qed.

  Lemma sibs_app par a1 : forall prev a2 b st,
    sibs par prev (a1 ++ a2) b st =
    let '(o1, s1) := sibs par prev a1 (a2 ++ b) st in
    let '(o2, s2) := sibs par (rev a1 ++ prev) a2 b s1 in
    (o1 ++ o2, s2).
  Proof.
    induction a1 as [|c a1 IH]; intros prev a2 b st.
    - cbn [app sibs rev]. destruct (sibs par prev a2 b st). reflexivity.
    - cbn [app sibs]. rewrite <- app_assoc. destruct (jn par prev (a1 ++ a2 ++ b) st c) as [o1 s1].
      rewrite IH. destruct (sibs par (c :: prev) a1 (a2 ++ b) s1) as [o2 s2].
      cbn [rev]. rewrite <- app_assoc. cbn [app].
      destruct (sibs par (rev a1 ++ c :: prev) a2 b s2) as [o3 s3]. rewrite app_assoc. reflexivity.
  Qed.

  (* json_print_node(): the pending metadata of a leaf-list is written when the next sibling is not an instance of it *)
  Definition flushf (par : option N) (nexts : list dnode) (o : bytes) (st2 : jst) : bytes * jst :=
    match j_first st2 with
    | Some run =>
        let fs := match run with x :: _ => d_sid x | [] => 0 end in
        if match nexts with x :: _ => d_sid x =? fs | [] => false end then (o, st2)
        else let '(o', st3) := jmeta_arr t sel st2 par run in (o ++ o', st_first st3 None)
    | None => (o, st2)
    end.

  (* unfolding of the node printer: a node that is not printed *)
  Lemma json_node_unsel par prev nexts st n :
    sel n = false ->
    jn par prev nexts st n =
      if is_open st (d_sid n) && negb (match nexts with x :: _ => d_sid x =? d_sid n | [] => false end)
      then flushf par nexts [93] (st_printed (st_close (st_dec st))) else flushf par nexts [] st.
  Proof. intro H. destruct n as [s v d m ch]. cbn [json_node d_sid]. rewrite H. reflexivity. Qed.

  (* ... and a node that is printed *)
  Lemma json_node_all par prev nexts st s v d m ch :
    sel (DN s v d m ch) = true ->
    jn par prev nexts st (DN s v d m ch) =
    let next_same := match nexts with x :: _ => d_sid x =? s | [] => false end in
    let inner (st : jst) : bytes * jst :=
      let o0 := (if is_open st s && (j_level st <=? j_lp st) then [44] else []) ++ [123] in
      let '(o1, st1) := jattrs t (st_inc st) par s m true in
      let '(o2, st2) := jsib (Some (node_mod t s)) [] ch st1 in
      (o0 ++ o1 ++ o2 ++ [125], st_printed (st_dec st2)) in
    let close_if_last (st : jst) : bytes * jst :=
      if is_open st s && negb next_same then ([93], st_close (st_dec st)) else ([], st) in
    let '(o, st1) :=
      match kind_of sch s with
      | KCont _ =>
          let o1 := jmember t st par s false in
          let '(o2, st2) := inner st in (o1 ++ o2, st2)
      | KLeaf =>
          let o1 := jmember t st par s false ++ jvalue_bytes (jkind_of jk s) v in
          let '(o2, st2) := jattrs t (st_printed st) par s m false in (o1 ++ o2, st2)
      | KList =>
          let '(o1, sta) :=
            if is_open st s then ([], st) else (jmember t st par s false ++ [91], st_inc (st_open st s)) in
          let '(o2, stb) := inner sta in
          let '(o3, stc) := close_if_last stb in
          (o1 ++ o2 ++ o3, stc)
      | KLeafList =>
          let '(o1, sta) :=
            if is_open st s then ([44], st) else (jmember t st par s false ++ [91], st_inc (st_open st s)) in
          let o2 := jvalue_bytes (jkind_of jk s) v in
          let stb := match j_first sta, m with
                     | None, _ :: _ => st_first sta (Some (run_of prev (DN s v d m ch) nexts))
                     | _, _ => sta
                     end in
          let '(o3, stc) := close_if_last stb in
          (o1 ++ o2 ++ o3, stc)
      | KAny => (jmember t st par s false ++ [123; 125], st_printed st)
      end in
    flushf par nexts o (st_printed st1).
  Proof.
    intro Hsel. cbn [json_node]. rewrite Hsel. cbn [negb]. unfold flushf.
    match goal with |- context[(fix go (prev : list dnode) (l : list dnode) (st : jst) {struct l} : bytes * jst := _)] =>
      set (go := (fix go (prev : list dnode) (l : list dnode) (st : jst) {struct l} : bytes * jst := _)) end.
    assert (E : forall l prev st, go prev l st = jsib (Some (node_mod t s)) prev l st).
    { induction l as [|c l IH]; intros pv st0; [reflexivity|].
      unfold go at 1. cbn fix beta iota. fold go. cbn [json_siblings].
      destruct (jn (Some (node_mod t s)) pv l st0 c) as [a sta]. rewrite IH. reflexivity. }
    cbv zeta. destruct (kind_of sch s); try reflexivity.
    - destruct (jattrs t (st_inc st) par s m true) as [o1 st1]. rewrite E. reflexivity.
    - destruct (is_open st s).
      + destruct (jattrs t (st_inc st) par s m true) as [o1 st1]. rewrite E. reflexivity.
      + destruct (jattrs t (st_inc (st_inc (st_open st s))) par s m true) as [o1 st1]. rewrite E. reflexivity.
  Qed.

  (* ---------- rendering lemmas ---------- *)
  Lemma jr_members_app a b first :
    jr_members (a ++ b) first = jr_members a first ++ jr_members b (first && isnil a).
  Proof.
    revert first. induction a as [|[k x] a IH]; intro first; [cbn [app jr_members isnil]; rewrite andb_true_r; reflexivity|].
    cbn [app jr_members isnil]. rewrite IH, andb_false_r. cbn [andb]. norm_app. reflexivity.
  Qed.

  Lemma jr_elems_app a b first :
    jr_elems (a ++ b) first = jr_elems a first ++ jr_elems b (first && isnil a).
  Proof.
    revert first. induction a as [|x a IH]; intro first; [cbn [app jr_elems isnil]; rewrite andb_true_r; reflexivity|].
    cbn [app jr_elems isnil]. rewrite IH, andb_false_r. cbn [andb]. norm_app. reflexivity.
  Qed.

  Definition mk_clean (l : N) (o : list sid) : jst := mk_jst l l o None.

  Lemma st_printed_idem st : st_printed (st_printed st) = st_printed st.
  Proof. reflexivity. Qed.

  Lemma jcomma_printed st : jcomma (st_printed st) = [44].
  Proof. unfold jcomma, st_printed. cbn [j_level j_lp]. rewrite N.leb_refl. reflexivity. Qed.

  Definition meta_members (m : list (bytes * bytes)) : list (bytes * jval) :=
    map (fun kv : bytes * bytes => (fst kv, JVstr (snd kv))) m.

  Lemma jmetas_render m : forall st,
    jmetas st m = (jr_members (meta_members m) (negb (j_level st <=? j_lp st)),
                   match m with [] => st | _ => st_printed st end).
  Proof.
    induction m as [|[k v] m IH]; intro st; [reflexivity|].
    cbn [jmetas meta_members map jr_members fst snd]. rewrite IH. cbn [st_printed j_level j_lp]. rewrite N.leb_refl. cbn [negb].
    unfold jcomma. destruct (j_level st <=? j_lp st); cbn [negb app]; rewrite <- ?app_assoc; cbn [app];
      (destruct m; [reflexivity|reflexivity]).
  Qed.

  Lemma jrender_meta_obj m : jrender (jmeta_obj m) = 123 :: jr_members (meta_members m) true ++ [125].
  Proof. unfold jmeta_obj. rewrite jrender_obj. reflexivity. Qed.

  (* the invariant of the counters: nothing is marked printed below the current level *)
  Definition lp_ok (st : jst) : Prop := j_lp st <= j_level st.

  Lemma jattrs_inner st par s m :
    lp_ok st -> m <> [] ->
    jattrs t st par s m true =
      (jcomma st ++ [34; 64; 34; 58] ++ jrender (jmeta_obj m), mk_jst (j_level st) (j_level st) (j_open st) (j_first st)).
  Proof.
    intros Hl Hm. destruct m as [|kv m']; [contradiction|]. unfold jattrs. rewrite jmetas_render.
    cbn [st_inc j_level j_lp]. unfold lp_ok in Hl.
    assert (E : (j_level st + 1 <=? j_lp st) = false) by lia. rewrite E. cbn [negb].
    rewrite jrender_meta_obj.
    assert (Es : st_printed (st_dec (st_printed (st_inc st))) = mk_jst (j_level st) (j_level st) (j_open st) (j_first st)).
    { unfold st_printed, st_dec, st_inc. cbn [j_level j_lp j_open j_first]. rewrite N.add_sub. reflexivity. }
    rewrite Es. apply (f_equal (fun x => (x, mk_jst (j_level st) (j_level st) (j_open st) (j_first st)))). norm_app. reflexivity.
  Qed.

  Lemma jattrs_leaf st par s m :
    lp_ok st -> m <> [] ->
    jattrs t st par s m false =
      (jmember t st par s true ++ jrender (jmeta_obj m), mk_jst (j_level st) (j_level st) (j_open st) (j_first st)).
  Proof.
    intros Hl Hm. destruct m as [|kv m']; [contradiction|]. unfold jattrs. rewrite jmetas_render.
    cbn [st_inc j_level j_lp]. unfold lp_ok in Hl.
    assert (E : (j_level st + 1 <=? j_lp st) = false) by lia. rewrite E. cbn [negb].
    rewrite jrender_meta_obj.
    assert (Es : st_printed (st_dec (st_printed (st_inc st))) = mk_jst (j_level st) (j_level st) (j_open st) (j_first st)).
    { unfold st_printed, st_dec, st_inc. cbn [j_level j_lp j_open j_first]. rewrite N.add_sub. reflexivity. }
    rewrite Es. apply (f_equal (fun x => (x, mk_jst (j_level st) (j_level st) (j_open st) (j_first st)))). norm_app. reflexivity.
  Qed.

  Lemma jattrs_nil st par s inner : jattrs t st par s [] inner = ([], st).
  Proof. reflexivity. Qed.

  Lemma jvalue_render SV k v : jterm_ok SV k v -> jvalue_bytes k v = jrender (jval_of_term k v).
  Proof.
    destruct k; cbn [jterm_ok jvalue_bytes jval_of_term].
    - reflexivity.
    - intros (_ & _ & Hne). destruct v; [contradiction|reflexivity].
    - intros [->| ->]; reflexivity.
    - intros ->. reflexivity.
  Qed.

  (* ---------- one node ---------- *)
  (* the member name: json_print_member() asks LEVEL == 1 or json_nscmp(); they agree when only top-level nodes are at
     level 1 *)
  Definition Q (l : N) (par : option N) : Prop := l = 1 -> par = None.

  Lemma jmember_key st par s attr :
    Q (j_level st) par ->
    jmember t st par s attr = jcomma st ++ 34 :: (if attr then [64] else []) ++ mname t par s ++ [34; 58].
  Proof.
    intro HQ. unfold jmember, mname, mod_name.
    assert (E : (j_level st =? 1) || match par with None => true | Some pm => negb (pm =? node_mod t s) end =
                match par with None => true | Some m => negb (m =? node_mod t s) end).
    { destruct (j_level st =? 1) eqn:E1; [|reflexivity]. apply N.eqb_eq in E1. rewrite (HQ E1). reflexivity. }
    rewrite E. destruct (match par with None => true | Some m => negb (m =? node_mod t s) end); norm_app; reflexivity.
  Qed.

  (* json_print_inner() *)
  Definition inner_out (par : option N) (st : jst) (n : dnode) : bytes * jst :=
    match n with
    | DN s v d m ch =>
        let o0 := (if is_open st s && (j_level st <=? j_lp st) then [44] else []) ++ [123] in
        let '(o1, st1) := jattrs t (st_inc st) par s m true in
        let '(o2, st2) := jsib (Some (node_mod t s)) [] ch st1 in
        (o0 ++ o1 ++ o2 ++ [125], st_printed (st_dec st2))
    end.

  Definition no_first (st : jst) : Prop := j_first st = None.

  Lemma node_leaf par prev nexts st s v d m ch :
    sel (DN s v d m ch) = true -> kind_of sch s = KLeaf -> no_first st ->
    jn par prev nexts st (DN s v d m ch) =
      let o1 := jmember t st par s false ++ jvalue_bytes (jkind_of jk s) v in
      let '(o2, st2) := jattrs t (st_printed st) par s m false in
      (o1 ++ o2, st_printed st2).
  Proof.
    intros Hsel Hk Hf. rewrite (json_node_all _ _ _ _ _ _ _ _ _ Hsel), Hk. cbv zeta. unfold flushf.
    assert (E : j_first (st_printed (snd (jattrs t (st_printed st) par s m false))) = None).
    { destruct m as [|kv m']; [exact Hf|]. unfold jattrs. rewrite jmetas_render. cbn [snd]. exact Hf. }
    destruct (jattrs t (st_printed st) par s m false) as [o2 st2]. cbn [snd] in E. rewrite E. reflexivity.
  Qed.

  Lemma inner_first par st n : j_first (snd (inner_out par st n)) = j_first (snd (jsib (Some (node_mod t (d_sid n))) [] (d_ch n)
                                  (snd (jattrs t (st_inc st) par (d_sid n) (d_meta n) true)))).
  Proof.
    destruct n as [s v d m ch]. cbn [inner_out d_sid d_ch d_meta].
    destruct (jattrs t (st_inc st) par s m true) as [o1 st1]. cbn [snd].
    destruct (jsib (Some (node_mod t s)) [] ch st1) as [o2 st2]. reflexivity.
  Qed.

  Lemma node_cont par prev nexts st s v d m ch pr :
    sel (DN s v d m ch) = true -> kind_of sch s = KCont pr ->
    j_first (snd (inner_out par st (DN s v d m ch))) = None ->
    jn par prev nexts st (DN s v d m ch) =
      let '(o2, st2) := inner_out par st (DN s v d m ch) in (jmember t st par s false ++ o2, st_printed st2).
  Proof.
    intros Hsel Hk Hf. rewrite (json_node_all _ _ _ _ _ _ _ _ _ Hsel), Hk. cbv zeta. unfold flushf. cbn [inner_out] in Hf |- *.
    destruct (jattrs t (st_inc st) par s m true) as [o1 st1].
    destruct (jsib (Some (node_mod t s)) [] ch st1) as [o2 st2]. cbn [snd] in Hf.
    assert (E : j_first (st_printed (st_printed (st_dec st2))) = None) by exact Hf. rewrite E. reflexivity.
  Qed.

  Lemma node_list par prev nexts st s v d m ch :
    sel (DN s v d m ch) = true -> kind_of sch s = KList ->
    let next_same := match nexts with x :: _ => d_sid x =? s | [] => false end in
    let '(o1, sta) := if is_open st s then ([], st) else (jmember t st par s false ++ [91], st_inc (st_open st s)) in
    j_first (snd (inner_out par sta (DN s v d m ch))) = None ->
    jn par prev nexts st (DN s v d m ch) =
      let '(o2, stb) := inner_out par sta (DN s v d m ch) in
      let '(o3, stc) := if is_open stb s && negb next_same then ([93], st_close (st_dec stb)) else ([], stb) in
      (o1 ++ o2 ++ o3, st_printed stc).
  Proof.
    intros Hsel Hk next_same. rewrite (json_node_all _ _ _ _ _ _ _ _ _ Hsel), Hk. cbv zeta. unfold flushf. fold next_same.
    destruct (is_open st s).
    - cbn [inner_out]. destruct (jattrs t (st_inc st) par s m true) as [o1 st1].
      destruct (jsib (Some (node_mod t s)) [] ch st1) as [o2 st2]. cbn [snd]. intro Hf.
      destruct (is_open (st_printed (st_dec st2)) s && negb next_same).
      + assert (E : j_first (st_printed (st_close (st_dec (st_printed (st_dec st2))))) = None) by exact Hf. rewrite E. reflexivity.
      + assert (E : j_first (st_printed (st_printed (st_dec st2))) = None) by exact Hf. rewrite E. reflexivity.
    - cbn [inner_out]. destruct (jattrs t (st_inc (st_inc (st_open st s))) par s m true) as [o1 st1].
      destruct (jsib (Some (node_mod t s)) [] ch st1) as [o2 st2]. cbn [snd]. intro Hf.
      destruct (is_open (st_printed (st_dec st2)) s && negb next_same).
      + assert (E : j_first (st_printed (st_close (st_dec (st_printed (st_dec st2))))) = None) by exact Hf. rewrite E. reflexivity.
      + assert (E : j_first (st_printed (st_printed (st_dec st2))) = None) by exact Hf. rewrite E. reflexivity.
  Qed.

  (* ---------- the specification of json_print_inner on a node, and of a sibling list ---------- *)
  Variable SV : bytes -> Prop.
  Hypothesis Htabs : tabs_okb sch t = true.
  (* the schema is a forest: a node's sid is larger than its parent's (sids are positions in a pre-order walk) *)
  Hypothesis Hplt : forall s i q, lookup sch s = Some i -> si_parent i = Some q -> q < s.

  Notation JD := (JDocN sch t jk SV).
  Notation jval_of := (jnode_val sch t jk).
  Notation PN := (prune_node sel).
  Notation prl := (prune sel).

  Lemma prl_cons x l : prl (x :: l) = (if sel x then [PN x] else []) ++ prl l.
  Proof. reflexivity. Qed.
  Lemma prl_app a b : prl (a ++ b) = prl a ++ prl b.
  Proof. unfold prune. apply flat_map_app. Qed.
  Lemma PN_sid n : d_sid (PN n) = d_sid n.
  Proof. destruct n; reflexivity. Qed.
  Lemma PN_meta n : d_meta (PN n) = d_meta n.
  Proof. destruct n; reflexivity. Qed.

  (* the innermost open array belongs to an ancestor (or to the node itself) *)
  Definition open_le (o : list sid) (s : sid) : Prop := match o with x :: _ => x <= s | [] => True end.

  Definition ISpec (n : dnode) : Prop := forall par st p,
    is_term sch (d_sid n) = false -> CanonN sch p n -> JD n ->
    no_first st -> lp_ok st -> 1 <= j_level st -> open_le (j_open st) (d_sid n) ->
    inner_out par st n =
      ((if is_open st (d_sid n) && (j_level st <=? j_lp st) then [44] else []) ++ jrender (jval_of (PN n)),
       mk_jst (j_level st) (j_level st) (j_open st) None).

  Definition pairs (l : list dnode) : list (dnode * jval) := map (fun c => (c, jval_of c)) l.

  Definition SibSpec (l : list dnode) : Prop := forall par st p,
    CanonAt sch p l -> Forall JD l ->
    no_first st -> lp_ok st -> 1 <= j_level st -> Q (j_level st) par ->
    match p with Some q => open_le (j_open st) q | None => j_open st = [] end ->
    jsib par [] l st =
      (jr_members (assemble sch t par (pairs (prl l))) (negb (j_level st <=? j_lp st)),
       match prl l with [] => st | _ => mk_clean (j_level st) (j_open st) end).

  Lemma jcomma_inc st : lp_ok st -> jcomma (st_inc st) = [].
  Proof. unfold lp_ok, jcomma, st_inc. cbn [j_level j_lp]. intro H. assert (E : (j_level st + 1 <=? j_lp st) = false) by lia. rewrite E. reflexivity. Qed.

  Lemma ispec_of_sib n : SibSpec (d_ch n) -> ISpec n.
  Proof.
    destruct n as [s v d m ch]. cbn [d_ch]. intros HS par st p Hnt HP HD Hnf Hlp Hlv Hop. cbn [d_sid] in *.
    pose proof (CanonAt_children sch p _ HP) as HCch. cbn [d_sid d_ch] in HCch.
    rewrite JDocN_unfold in HD. destruct HD as (Hany & Hval & Hmeta & Hnd & HDch).
    assert (Hobj : jval_of (PN (DN s v d m ch)) =
              JVobj ((match m with [] => [] | _ => [([64], jmeta_obj m)] end) ++ assemble sch t (Some (node_mod t s)) (pairs (prl ch)))).
    { change (PN (DN s v d m ch)) with (DN s v d m (prl ch)).
      rewrite jnode_val_unfold. unfold is_term in Hnt. destruct (kind_of sch s); cbn [is_term_kind] in Hnt; try discriminate Hnt; try reflexivity. }
    rewrite Hobj, jrender_obj, jr_members_app. cbn [inner_out].
    destruct m as [|kv m'].
    - rewrite jattrs_nil.
      rewrite (HS (Some (node_mod t s)) (st_inc st) (Some s) HCch HDch).
      + cbn [st_inc j_level j_lp j_open]. unfold lp_ok in Hlp.
        assert (E : (j_level st + 1 <=? j_lp st) = false) by lia. rewrite E. cbn [negb jr_members app andb isnil].
        unfold no_first in Hnf.
        match goal with |- (?a, ?b) = (?c, ?e) => assert (Hs : b = e) end.
        { destruct (prl ch); unfold st_printed, st_dec, st_inc, mk_clean; cbn [j_level j_lp j_open j_first]; rewrite N.add_sub, ?Hnf; reflexivity. }
        rewrite Hs. apply (f_equal (fun x => (x, mk_jst (j_level st) (j_level st) (j_open st) None))). norm_app. reflexivity.
      + exact Hnf.
      + unfold lp_ok, st_inc in *. cbn [j_level j_lp]. lia.
      + cbn [st_inc j_level]. lia.
      + intro E. cbn [st_inc j_level] in E. lia.
      + exact Hop.
    - rewrite (jattrs_inner (st_inc st) par s (kv :: m')); [|unfold lp_ok, st_inc in *; cbn [j_level j_lp]; lia|discriminate].
      rewrite (jcomma_inc st Hlp).
      rewrite (HS (Some (node_mod t s)) _ (Some s) HCch HDch).
      + cbn [st_inc j_level j_lp j_open]. rewrite N.leb_refl. cbn [negb jr_members app andb isnil].
        unfold no_first in Hnf.
        match goal with |- (?a, ?b) = (?c, ?e) => assert (Hs : b = e) end.
        { destruct (prl ch); unfold st_printed, st_dec, st_inc, mk_clean; cbn [j_level j_lp j_open j_first]; rewrite N.add_sub, ?Hnf; reflexivity. }
        rewrite Hs. apply (f_equal (fun x => (x, mk_jst (j_level st) (j_level st) (j_open st) None))). norm_app. reflexivity.
      + exact Hnf.
      + unfold lp_ok. cbn [j_level j_lp st_inc]. lia.
      + cbn [st_inc j_level]. lia.
      + intro E. cbn [st_inc j_level] in E. lia.
      + exact Hop.
  Qed.

  (* ---------- the metadata array of a leaf-list ---------- *)
  Definition hm (n : dnode) : bool := negb (isnil (d_meta n)).
  Definition mon (n : dnode) : jval := match d_meta n with [] => JVnull | m => jmeta_obj m end.
  Lemma hm_PN n : hm (PN n) = hm n.
  Proof. unfold hm. rewrite PN_meta. reflexivity. Qed.
  Lemma mon_PN n : mon (PN n) = mon n.
  Proof. unfold mon. rewrite PN_meta. reflexivity. Qed.

  Lemma jmeta_entries_render run : forall st,
    lp_ok st ->
    jmeta_entries sel st run =
      (jr_elems (map mon (prl run)) (negb (j_level st <=? j_lp st)),
       match prl run with [] => st | _ => mk_jst (j_level st) (j_level st) (j_open st) (j_first st) end).
  Proof.
    induction run as [|n r IH]; intros st Hlp; [reflexivity|].
    cbn [jmeta_entries]. rewrite prl_cons. destruct (sel n) eqn:Hsel; cbn [negb app]; [|apply IH, Hlp].
    cbn [map jr_elems]. rewrite mon_PN.
    assert (Hstep : forall o st1, st_printed st1 = mk_jst (j_level st) (j_level st) (j_open st) (j_first st) ->
              o = jrender (mon n) ->
              (let '(o3, st3) := jmeta_entries sel (st_printed st1) r in (jcomma st ++ o ++ o3, st3)) =
              ((if negb (j_level st <=? j_lp st) then [] else [44]) ++ jrender (mon n) ++ jr_elems (map mon (prl r)) false,
               mk_jst (j_level st) (j_level st) (j_open st) (j_first st))).
    { intros o st1 Es ->. rewrite Es. rewrite IH by (unfold lp_ok; cbn; lia). cbn [j_level j_lp j_open j_first].
      rewrite N.leb_refl. cbn [negb]. unfold jcomma.
      assert (Est : match prl r with [] => mk_jst (j_level st) (j_level st) (j_open st) (j_first st)
                    | _ :: _ => mk_jst (j_level st) (j_level st) (j_open st) (j_first st) end =
                    mk_jst (j_level st) (j_level st) (j_open st) (j_first st)) by (destruct (prl r); reflexivity).
      rewrite Est. destruct (j_level st <=? j_lp st); reflexivity. }
    destruct (d_meta n) as [|kv m'] eqn:Em.
    - apply (Hstep null_b st); [reflexivity|unfold mon; rewrite Em; reflexivity].
    - rewrite jmetas_render. cbn [st_inc j_level j_lp]. unfold lp_ok in Hlp.
      assert (E : (j_level st + 1 <=? j_lp st) = false) by lia. rewrite E. cbn [negb].
      apply Hstep.
      + unfold st_printed, st_dec, st_inc. cbn [j_level j_lp j_open j_first]. rewrite N.add_sub. reflexivity.
      + unfold mon. rewrite Em, jrender_meta_obj. reflexivity.
  Qed.

  Lemma take_while_all (f : dnode -> bool) a b :
    forallb f a = true -> match b with x :: _ => f x = false | [] => True end -> take_while f (a ++ b) = a.
  Proof.
    intros Ha Hb. induction a as [|x a IH].
    - destruct b as [|y b']; [reflexivity|]. cbn [app take_while]. rewrite Hb. reflexivity.
    - cbn [forallb] in Ha. apply andb_true_iff in Ha. destruct Ha as [H1 H2]. cbn [app take_while]. rewrite H1, (IH H2). reflexivity.
  Qed.

  (* ---------- one group of siblings ---------- *)
  Section Group.
    Variable par : option N.
    Variable L : N.
    Variable O : list sid.
    Variable p : option sid.
    Hypothesis HQ : Q L par.
    Hypothesis HL : 1 <= L.
    Hypothesis HO : match p with Some q => open_le O q | None => O = [] end.

    Definition stc (lp : N) : jst := mk_jst L lp O None.

    Lemma placed_facts n : CanonN sch p n ->
      exists i, lookup sch (d_sid n) = Some i /\ si_parent i = p /\ open_le O (d_sid n) /\
                (forall l lp f, is_open (mk_jst l lp O f) (d_sid n) = false).
    Proof.
      intro HC. pose proof (CanonN_Placed sch n p HC) as HP.
      destruct (Placed_lookup sch p n HP) as (i & Hl & Hp). exists i. split; [exact Hl|]. split; [exact Hp|].
      destruct p as [q|].
      - pose proof (Hplt _ _ _ Hl Hp) as Hlt. unfold open_le in *. destruct O as [|x O']; [split; [exact I|reflexivity]|].
        split; [lia|]. intros l lp f. unfold is_open. cbn [j_open]. apply N.eqb_neq. lia.
      - subst O. split; [exact I|reflexivity].
    Qed.

    (* a node that is not printed, outside of an array of its schema node: nothing happens *)
    Lemma skip_node prev nexts lp n :
      sel n = false -> CanonN sch p n -> jn par prev nexts (stc lp) n = ([], stc lp).
    Proof.
      intros Hsel HP. destruct (placed_facts n HP) as (i & _ & _ & _ & Hno).
      rewrite (json_node_unsel par prev nexts (stc lp) n Hsel). unfold stc. rewrite Hno. cbn [andb]. reflexivity.
    Qed.

    Definition leaf_members (n : dnode) : list (bytes * jval) :=
      (mname t par (d_sid n), jval_of n) ::
      (if negb (isnil (d_meta n)) then [(64 :: mname t par (d_sid n), jmeta_obj (d_meta n))] else []).

    Lemma leaf_node prev nexts lp n :
      sel n = true -> kind_of sch (d_sid n) = KLeaf -> CanonN sch p n -> JD n -> lp <= L ->
      jn par prev nexts (stc lp) n = (jr_members (leaf_members (PN n)) (negb (L <=? lp)), mk_clean L O).
    Proof.
      intros Hsel Hk HP HD Hlp. destruct n as [s v d m ch]. cbn [d_sid d_meta] in *.
      rewrite JDocN_unfold in HD. destruct HD as (_ & Hval & _).
      unfold is_term in Hval. rewrite Hk in Hval. cbn [is_term_kind] in Hval.
      rewrite (node_leaf par prev nexts (stc lp) s v d m ch Hsel Hk eq_refl). cbv zeta.
      rewrite (jmember_key (stc lp) par s false HQ).
      rewrite (jvalue_render SV _ _ Hval).
      assert (Ev : jval_of (PN (DN s v d m ch)) = jval_of_term (jkind_of jk s) v).
      { change (PN (DN s v d m ch)) with (DN s v d m (prl ch)). rewrite jnode_val_unfold, Hk. reflexivity. }
      unfold leaf_members. rewrite Ev. change (PN (DN s v d m ch)) with (DN s v d m (prl ch)). cbn [d_sid d_meta].
      destruct m as [|kv m'].
      - rewrite jattrs_nil. cbn [isnil negb jr_members app]. unfold jcomma, stc, st_printed, mk_clean. cbn [j_level j_lp j_open j_first].
        apply (f_equal (fun x => (x, mk_jst L L O None))). destruct (L <=? lp); cbn [negb app]; norm_app; rewrite ?app_nil_r; reflexivity.
      - rewrite (jattrs_leaf (st_printed (stc lp)) par s (kv :: m')); [|unfold lp_ok; cbn; lia|discriminate].
        rewrite (jmember_key (st_printed (stc lp)) par s true HQ), jcomma_printed.
        cbn [isnil negb jr_members app]. unfold jcomma, stc, st_printed, mk_clean. cbn [j_level j_lp j_open j_first].
        apply (f_equal (fun x => (x, mk_jst L L O None))). destruct (L <=? lp); cbn [negb app]; norm_app; rewrite ?app_nil_r; reflexivity.
    Qed.

    Lemma cont_node prev nexts lp n pr :
      sel n = true -> kind_of sch (d_sid n) = KCont pr -> CanonN sch p n -> JD n -> ISpec n -> lp <= L ->
      jn par prev nexts (stc lp) n = (jr_members [(mname t par (d_sid n), jval_of (PN n))] (negb (L <=? lp)), mk_clean L O).
    Proof.
      intros Hsel Hk HP HD HI Hlp. destruct (placed_facts n HP) as (i & Hl & Hp & Hop & Hno).
      assert (Hnt : is_term sch (d_sid n) = false) by (unfold is_term; rewrite Hk; reflexivity).
      pose proof (HI par (stc lp) p Hnt HP HD eq_refl Hlp HL Hop) as E.
      destruct n as [s v d m ch]. cbn [d_sid] in *.
      rewrite (node_cont par prev nexts (stc lp) s v d m ch pr Hsel Hk); [|rewrite E; reflexivity].
      rewrite E. rewrite (jmember_key (stc lp) par s false HQ).
      unfold stc at 2. rewrite Hno. cbn [andb app jr_members]. unfold jcomma, stc, st_printed, mk_clean. cbn [j_level j_lp j_open j_first].
      apply (f_equal (fun x => (x, mk_jst L L O None))). destruct (L <=? lp); cbn [negb app]; norm_app; rewrite ?app_nil_r; reflexivity.
    Qed.

    Definition hd_not (s : sid) (b : list dnode) : Prop := match b with x :: _ => d_sid x <> s | [] => True end.

    Lemma next_same_app s (r b : list dnode) :
      Forall (fun n => d_sid n = s) r -> hd_not s b ->
      match r ++ b with x :: _ => d_sid x =? s | [] => false end = negb (isnil r).
    Proof.
      intros Hr Hb. destruct r as [|y r']; cbn [app isnil negb].
      - destruct b as [|x b']; [reflexivity|]. cbn [hd_not] in Hb. apply N.eqb_neq. exact Hb.
      - inversion Hr; subst. apply N.eqb_refl.
    Qed.

    Definition RunOK (s : sid) (run : list dnode) : Prop :=
      Forall (fun n => d_sid n = s /\ CanonN sch p n /\ JD n /\ ISpec n) run.

    Lemma RunOK_sids s run : RunOK s run -> Forall (fun n => d_sid n = s) run.
    Proof. intro H. apply Forall_forall. intros n Hn. unfold RunOK in H. rewrite Forall_forall in H. apply (H n Hn). Qed.

    Lemma list_tail s run : forall prev b,
      run <> [] -> RunOK s run -> kind_of sch s = KList -> hd_not s b -> open_le O s ->
      sibs par prev run b (mk_jst (L + 1) (L + 1) (s :: O) None) = (jr_elems (map jval_of (prl run)) false ++ [93], mk_clean L O).
    Proof.
      induction run as [|y r IH]; intros prev b Hne HR Hk Hb Hop; [contradiction|].
      inversion HR as [|? ? (Hs & HP & HD & HI) HRr]; subst.
      pose proof (RunOK_sids _ _ HRr) as Er.
      set (st := mk_jst (L + 1) (L + 1) (d_sid y :: O) None).
      assert (Eo : is_open st (d_sid y) = true) by (unfold st, is_open; cbn [j_open]; apply N.eqb_refl).
      cbn [sibs]. rewrite prl_cons. destruct (sel y) eqn:Hsel.
      - assert (Hnt : is_term sch (d_sid y) = false) by (unfold is_term; rewrite Hk; reflexivity).
        assert (Ein : inner_out par st y = ([44] ++ jrender (jval_of (PN y)), st)).
        { rewrite (HI par st p Hnt HP HD eq_refl); [|unfold lp_ok, st; cbn; lia|unfold st; cbn; lia|unfold st, open_le; cbn; lia].
          unfold st, is_open. cbn [j_open j_level j_lp]. rewrite N.eqb_refl, N.leb_refl. reflexivity. }
        destruct y as [s v d m ch]. cbn [d_sid] in *.
        pose proof (node_list par prev (r ++ b) st s v d m ch Hsel Hk) as NL. cbv zeta in NL.
        rewrite Eo in NL. rewrite Ein in NL. specialize (NL eq_refl). rewrite NL. clear NL.
        rewrite (next_same_app s r b Er Hb). rewrite Eo. cbn [andb].
        destruct r as [|y' r'].
        + cbn [isnil negb sibs map jr_elems app prune flat_map]. unfold st, st_close, st_dec, st_printed, mk_clean. cbn [j_level j_lp j_open j_first tl].
          rewrite N.add_sub. fin_pair.
        + cbn [isnil negb]. change (st_printed st) with st. unfold st. rewrite (IH _ b); [|discriminate|exact HRr|exact Hk|exact Hb|exact Hop].
          cbn [map jr_elems app]. fin_pair.
      - rewrite (json_node_unsel par prev (r ++ b) st y Hsel). rewrite Eo.
        rewrite (next_same_app (d_sid y) r b Er Hb). cbn [andb app].
        destruct r as [|y' r'].
        + cbn [isnil negb sibs map jr_elems app prune flat_map]. unfold flushf, st, st_close, st_dec, st_printed, mk_clean. cbn [j_level j_lp j_open j_first tl].
          rewrite N.add_sub. reflexivity.
        + cbn [isnil negb]. unfold flushf. unfold st at 1. cbn [j_first]. unfold st.
          rewrite (IH _ b); [|discriminate|exact HRr|exact Hk|exact Hb|exact Hop]. reflexivity.
    Qed.

    Lemma list_run s run : forall prev b lp,
      RunOK s run -> kind_of sch s = KList -> hd_not s b -> lp <= L ->
      sibs par prev run b (stc lp) =
        (jr_members (if isnil (prl run) then [] else [(mname t par s, JVarr (map jval_of (prl run)))]) (negb (L <=? lp)),
         if isnil (prl run) then stc lp else mk_clean L O).
    Proof.
      induction run as [|x run' IH]; intros prev b lp HR Hk Hb Hlp; [reflexivity|].
      inversion HR as [|? ? (Hs & HP & HD & HI) HRr]; subst.
      cbn [sibs]. rewrite prl_cons. destruct (sel x) eqn:Hsel.
      2:{ rewrite (skip_node prev (run' ++ b) lp x Hsel HP). cbn [app]. rewrite (IH _ b lp HRr Hk Hb Hlp). reflexivity. }
      cbn [app isnil]. clear IH.
      destruct (placed_facts x HP) as (i & Hl & Hp & Hop & Hno).
      assert (Hnt : is_term sch (d_sid x) = false) by (unfold is_term; rewrite Hk; reflexivity).
      set (sta := mk_jst (L + 1) lp (d_sid x :: O) None).
      set (stb := mk_jst (L + 1) (L + 1) (d_sid x :: O) None).
      assert (Ein : inner_out par sta x = (jrender (jval_of (PN x)), stb)).
      { rewrite (HI par sta p Hnt HP HD eq_refl); [|unfold lp_ok, sta; cbn; lia|unfold sta; cbn; lia|unfold sta, open_le; cbn; lia].
        unfold sta, is_open. cbn [j_open j_level j_lp]. rewrite N.eqb_refl.
        assert (E : (L + 1 <=? lp) = false) by lia. rewrite E. reflexivity. }
      destruct x as [s v d m ch]. cbn [d_sid] in *.
      pose proof (node_list par prev (run' ++ b) (stc lp) s v d m ch Hsel Hk) as NL. cbv zeta in NL.
      unfold stc in NL. rewrite (Hno L lp None) in NL. change (st_inc (st_open (mk_jst L lp O None) s)) with sta in NL. rewrite Ein in NL. specialize (NL eq_refl).
      unfold stc at 1. rewrite NL. clear NL.
      pose proof (RunOK_sids _ _ HRr) as Er.
      rewrite (next_same_app s run' b Er Hb).
      assert (Eo : is_open stb s = true) by (unfold stb, is_open; cbn [j_open]; apply N.eqb_refl). rewrite Eo. cbn [andb].
      fold (stc lp). rewrite (jmember_key (stc lp) par s false HQ).
      destruct run' as [|y' r'].
      - cbn [isnil negb sibs jr_members prune flat_map]. rewrite jrender_arr. cbn [map jr_elems app]. unfold stb, st_close, st_dec, st_printed, mk_clean, jcomma, stc. cbn [j_level j_lp j_open j_first tl].
        rewrite N.add_sub. apply (f_equal (fun z => (z, mk_jst L L O None))).
        destruct (L <=? lp); cbn [negb app]; norm_app; rewrite ?app_nil_r; reflexivity.
      - cbn [isnil negb]. change (st_printed stb) with stb. unfold stb. rewrite (list_tail s (y' :: r') _ b); [|discriminate|exact HRr|exact Hk|exact Hb|exact Hop].
        cbn [jr_members]. rewrite jrender_arr. cbn [map jr_elems app]. unfold jcomma, stc. cbn [j_level j_lp].
        apply (f_equal (fun z => (z, mk_clean L O))).
        destruct (L <=? lp); cbn [negb app]; norm_app; rewrite ?app_nil_r; reflexivity.
    Qed.
    (* ---- leaf-list ---- *)
    Definition LLOK (s : sid) (run : list dnode) : Prop :=
      Forall (fun n => d_sid n = s /\ CanonN sch p n /\ JD n) run.

    Lemma LLOK_sids s run : LLOK s run -> Forall (fun n => d_sid n = s) run.
    Proof. intro H. apply Forall_forall. intros n Hn. unfold LLOK in H. rewrite Forall_forall in H. apply (H n Hn). Qed.

    (* [wp] = the printed instances of the run *)
    Definition meta_part (s : sid) (wp : list dnode) : bytes :=
      if existsb hm wp then [44] ++ 34 :: 64 :: mname t par s ++ [34; 58] ++ jrender (JVarr (map mon wp)) else [].

    Lemma jmeta_arr_render s whole f :
      whole <> [] -> Forall (fun n => d_sid n = s) whole ->
      jmeta_arr t sel (mk_jst L L O f) par whole =
        ([44] ++ 34 :: 64 :: mname t par s ++ [34; 58] ++ jrender (JVarr (map mon (prl whole))), mk_jst L L O f).
    Proof.
      intros Hne Hs. destruct whole as [|x w]; [contradiction|]. pose proof (Forall_inv Hs) as Hx. cbn beta in Hx.
      unfold jmeta_arr. rewrite Hx.
      rewrite (jmember_key (mk_jst L L O f) par s true HQ).
      rewrite jmeta_entries_render by (unfold lp_ok; cbn; lia). cbn [st_inc j_level j_lp j_open j_first].
      assert (E : (L + 1 <=? L) = false) by lia. rewrite E. cbn [negb]. rewrite jrender_arr.
      unfold jcomma, st_printed, st_dec. cbn [j_level j_lp j_open j_first]. rewrite N.leb_refl.
      destruct (prl (x :: w)); cbn [st_inc j_level j_lp j_open j_first]; rewrite N.add_sub; fin_pair.
    Qed.

    (* the pending metadata is written after the last instance ... *)
    Lemma flush_last s whole b o :
      whole <> [] -> Forall (fun n => d_sid n = s) whole -> hd_not s b ->
      flushf par b o (mk_jst L L O (if existsb hm (prl whole) then Some whole else None)) =
        (o ++ meta_part s (prl whole), mk_clean L O).
    Proof.
      intros Hne Hs Hb. unfold flushf, meta_part. destruct (existsb hm (prl whole)); cbn [j_first].
      - assert (Ehd : match b with x :: _ => d_sid x =? match whole with [] => 0 | x0 :: _ => d_sid x0 end | [] => false end = false).
        { destruct whole as [|w0 wr]; [contradiction|]. pose proof (Forall_inv Hs) as Hw0. cbn beta in Hw0. rewrite Hw0.
          destruct b as [|x b']; [reflexivity|]. cbn [hd_not] in Hb. apply N.eqb_neq, Hb. }
        rewrite Ehd. rewrite (jmeta_arr_render s whole _ Hne Hs). unfold st_first, mk_clean. cbn [j_level j_lp j_open]. reflexivity.
      - rewrite app_nil_r. reflexivity.
    Qed.

    (* ... and not before *)
    Lemma flush_mid s whole y r o st :
      whole <> [] -> Forall (fun n => d_sid n = s) whole -> d_sid y = s ->
      j_first st = None \/ j_first st = Some whole ->
      flushf par (y :: r) o st = (o, st).
    Proof.
      intros Hne Hs Hy [E|E]; unfold flushf; rewrite E; [reflexivity|].
      destruct whole as [|w0 wr]; [contradiction|]. pose proof (Forall_inv Hs) as Hw0. cbn beta in Hw0. rewrite Hw0, Hy, N.eqb_refl. reflexivity.
    Qed.

    Lemma ll_val n : kind_of sch (d_sid n) = KLeafList -> JD n ->
      jvalue_bytes (jkind_of jk (d_sid n)) (d_val n) = jrender (jval_of (PN n)).
    Proof.
      intros Hk HD. destruct n as [s v d m ch]. cbn [d_sid d_val] in *. rewrite JDocN_unfold in HD. destruct HD as (_ & Hval & _).
      unfold is_term in Hval. rewrite Hk in Hval. cbn [is_term_kind] in Hval.
      change (PN (DN s v d m ch)) with (DN s v d m (prl ch)).
      rewrite (jvalue_render SV _ _ Hval), jnode_val_unfold, Hk. reflexivity.
    Qed.

    Lemma prl_rev_cons y l : prl (rev (y :: l)) = prl (rev l) ++ (if sel y then [PN y] else []).
    Proof. cbn [rev]. rewrite prl_app, prl_cons. cbn [prune flat_map]. rewrite app_nil_r. reflexivity. Qed.

    Lemma run_of_whole s done prev0 y r b :
      Forall (fun n => d_sid n = s) done -> Forall (fun n => d_sid n = s) r -> d_sid y = s ->
      hd_not s prev0 -> hd_not s b ->
      run_of (done ++ prev0) y (r ++ b) = rev done ++ y :: r.
    Proof.
      intros Hd Er Hy Hp0 Hb. unfold run_of. rewrite Hy.
      rewrite (take_while_all (has_sid s) done prev0).
      - rewrite (take_while_all (has_sid s) r b); [reflexivity| |].
        + apply forallb_forall. intros n Hn. rewrite Forall_forall in Er. unfold has_sid. apply N.eqb_eq, Er, Hn.
        + destruct b as [|x b']; [exact I|]. cbn [hd_not] in Hb. unfold has_sid. apply N.eqb_neq, Hb.
      - apply forallb_forall. intros n Hn. rewrite Forall_forall in Hd. unfold has_sid. apply N.eqb_eq, Hd, Hn.
      - destruct prev0 as [|x p']; [exact I|]. cbn [hd_not] in Hp0. unfold has_sid. apply N.eqb_neq, Hp0.
    Qed.

    Lemma ll_tail s run : forall done prev0 b,
      run <> [] -> LLOK s run -> Forall (fun n => d_sid n = s) done -> kind_of sch s = KLeafList ->
      hd_not s prev0 -> hd_not s b ->
      let whole := rev done ++ run in
      let F := if existsb hm (prl (rev done)) then Some whole else None in
      sibs par (done ++ prev0) run b (mk_jst (L + 1) (L + 1) (s :: O) F) =
        (jr_elems (map jval_of (prl run)) false ++ [93] ++ meta_part s (prl whole), mk_clean L O).
    Proof.
      induction run as [|y r IH]; intros done prev0 b Hne HR Hd Hk Hp0 Hb whole F; [contradiction|].
      inversion HR as [|? ? (Hs & HP & HD) HRr]; subst.
      pose proof (LLOK_sids _ _ HRr) as Er.
      assert (Hwhole : Forall (fun n => d_sid n = d_sid y) whole).
      { subst whole. apply Forall_app. split; [apply Forall_rev, Hd|constructor; [reflexivity|exact Er]]. }
      assert (Hwne : whole <> []) by (subst whole; destruct (rev done); discriminate).
      pose proof (run_of_whole (d_sid y) done prev0 y r b Hd Er eq_refl Hp0 Hb) as Erun. fold whole in Erun.
      assert (Ewh : rev (y :: done) ++ r = whole) by (subst whole; cbn [rev]; rewrite <- app_assoc; reflexivity).
      assert (Eo : forall f, is_open (mk_jst (L + 1) (L + 1) (d_sid y :: O) f) (d_sid y) = true) by (intro f; unfold is_open; cbn [j_open]; apply N.eqb_refl).
      set (F' := if existsb hm (prl (rev (y :: done))) then Some whole else None).
      assert (HF : forall (X : option (list dnode)), X = F \/ X = F' -> X = None \/ X = Some whole).
      { intros X [->| ->]; [subst F; destruct (existsb hm (prl (rev done)))|subst F'; destruct (existsb hm (prl (rev (y :: done))))]; auto. }
      (* the state after the node, whether it is printed or not *)
      assert (Hlast : forall o, r = [] ->
                flushf par b o (mk_jst L L O F') = (o ++ meta_part (d_sid y) (prl whole), mk_clean L O)).
      { intros o ->. subst F'. rewrite app_nil_r in Ewh. rewrite Ewh. apply flush_last; assumption. }
      cbn [sibs]. rewrite prl_cons. destruct (sel y) eqn:Hsel.
      - pose proof (ll_val y Hk HD) as Hval.
        destruct y as [s v d m ch]. cbn [d_sid d_val] in *.
        rewrite (json_node_all _ _ _ _ _ _ _ _ _ Hsel), Hk. cbv zeta.
        rewrite Eo. rewrite (next_same_app s r b Er Hb). rewrite Hval.
        assert (EF : match j_first (mk_jst (L + 1) (L + 1) (s :: O) F), m with
                     | None, _ :: _ => st_first (mk_jst (L + 1) (L + 1) (s :: O) F) (Some (run_of (done ++ prev0) (DN s v d m ch) (r ++ b)))
                     | _, _ => mk_jst (L + 1) (L + 1) (s :: O) F end = mk_jst (L + 1) (L + 1) (s :: O) F').
        { rewrite Erun. subst F F'. rewrite prl_rev_cons, Hsel, existsb_app. cbn [existsb]. rewrite hm_PN, orb_false_r.
          destruct (existsb hm (prl (rev done))) eqn:Ee; cbn [orb j_first].
          - destruct m; reflexivity.
          - unfold hm. cbn [d_meta]. destruct m; reflexivity. }
        rewrite EF. rewrite Eo. cbn [andb].
        destruct r as [|y' r'].
        + cbn [isnil negb sibs map jr_elems app prune flat_map]. rewrite app_nil_r.
          unfold st_close, st_dec, st_printed. cbn [j_level j_lp j_open j_first tl]. rewrite N.add_sub.
          rewrite (Hlast _ eq_refl). fin_pair.
        + cbn [isnil negb app]. unfold st_printed. cbn [j_level j_lp j_open j_first].
          rewrite (flush_mid s whole y' (r' ++ b) _ _ Hwne Hwhole (Forall_inv Er)); [|cbn [j_first]; apply HF; right; reflexivity].
          pose proof (IH (DN s v d m ch :: done) prev0 b ltac:(discriminate) HRr ltac:(constructor; [reflexivity|exact Hd]) Hk Hp0 Hb) as IH'.
          cbv zeta in IH'. rewrite Ewh in IH'. fold F' in IH'. cbn [app] in IH'. rewrite IH'.
          cbn [map jr_elems]. fin_pair.
      - rewrite (json_node_unsel par (done ++ prev0) (r ++ b) _ y Hsel). rewrite Eo.
        rewrite (next_same_app (d_sid y) r b Er Hb). cbn [andb app].
        assert (EF : F' = F).
        { subst F F'. rewrite prl_rev_cons, Hsel, app_nil_r. reflexivity. }
        destruct r as [|y' r'].
        + cbn [isnil negb sibs map jr_elems app prune flat_map].
          unfold st_close, st_dec, st_printed. cbn [j_level j_lp j_open j_first tl]. rewrite N.add_sub.
          rewrite <- EF. rewrite (Hlast _ eq_refl). fin_pair.
        + cbn [isnil negb].
          rewrite (flush_mid (d_sid y) whole y' (r' ++ b) _ _ Hwne Hwhole (Forall_inv Er)); [|cbn [j_first]; apply HF; left; reflexivity].
          pose proof (IH (y :: done) prev0 b ltac:(discriminate) HRr ltac:(constructor; [reflexivity|exact Hd]) Hk Hp0 Hb) as IH'.
          cbv zeta in IH'. rewrite Ewh in IH'. fold F' in IH'. rewrite EF in IH'. cbn [app] in IH'. rewrite IH'.
          reflexivity.
    Qed.

    Definition ll_members (s : sid) (wp : list dnode) : list (bytes * jval) :=
      (mname t par s, JVarr (map jval_of wp)) ::
      (if existsb hm wp then [(64 :: mname t par s, JVarr (map mon wp))] else []).

    Lemma ll_run s run : forall done prev0 b lp,
      LLOK s run -> Forall (fun n => d_sid n = s) done -> prl (rev done) = [] -> kind_of sch s = KLeafList ->
      hd_not s prev0 -> hd_not s b -> lp <= L ->
      sibs par (done ++ prev0) run b (stc lp) =
        (jr_members (if isnil (prl run) then [] else ll_members s (prl run)) (negb (L <=? lp)),
         if isnil (prl run) then stc lp else mk_clean L O).
    Proof.
      induction run as [|x run' IH]; intros done prev0 b lp HR Hd Hdn Hk Hp0 Hb Hlp; [reflexivity|].
      inversion HR as [|? ? (Hs & HP & HD) HRr]; subst.
      cbn [sibs]. rewrite prl_cons. destruct (sel x) eqn:Hsel.
      2:{ rewrite (skip_node (done ++ prev0) (run' ++ b) lp x Hsel HP). cbn [app].
          pose proof (IH (x :: done) prev0 b lp HRr ltac:(constructor; [reflexivity|exact Hd])) as IH'. cbn [app] in IH'.
          rewrite IH'; [reflexivity| |exact Hk|exact Hp0|exact Hb|exact Hlp].
          rewrite prl_rev_cons, Hsel, Hdn. reflexivity. }
      cbn [app isnil]. clear IH.
      destruct (placed_facts x HP) as (i & Hl & Hp & Hop & Hno).
      pose proof (LLOK_sids _ _ HRr) as Er.
      pose (whole := rev done ++ x :: run').
      assert (Hwhole : Forall (fun n => d_sid n = d_sid x) whole).
      { subst whole. apply Forall_app. split; [apply Forall_rev, Hd|constructor; [reflexivity|exact Er]]. }
      assert (Hwne : whole <> []) by (subst whole; destruct (rev done); discriminate).
      pose proof (run_of_whole (d_sid x) done prev0 x run' b Hd Er eq_refl Hp0 Hb) as Erun. fold whole in Erun.
      assert (Epw : prl whole = PN x :: prl run').
      { subst whole. rewrite prl_app, Hdn, prl_cons, Hsel. reflexivity. }
      pose proof (ll_val x Hk HD) as Hval.
      destruct x as [s v d m ch]. cbn [d_sid d_val] in *.
      rewrite (json_node_all _ _ _ _ _ _ _ _ _ Hsel), Hk. cbv zeta. unfold stc. rewrite (Hno L lp None).
      rewrite (next_same_app s run' b Er Hb). rewrite Hval.
      change (st_inc (st_open (mk_jst L lp O None) s)) with (mk_jst (L + 1) lp (s :: O) None).
      set (F' := if hm (DN s v d m ch) then Some whole else None).
      assert (EF : match j_first (mk_jst (L + 1) lp (s :: O) None), m with
                   | None, _ :: _ => st_first (mk_jst (L + 1) lp (s :: O) None) (Some (run_of (done ++ prev0) (DN s v d m ch) (run' ++ b)))
                   | _, _ => mk_jst (L + 1) lp (s :: O) None end = mk_jst (L + 1) lp (s :: O) F').
      { rewrite Erun. subst F'. unfold hm. cbn [d_meta j_first]. destruct m; reflexivity. }
      rewrite EF.
      assert (Eo : forall l f, is_open (mk_jst (L + 1) l (s :: O) f) s = true) by (intros l f; unfold is_open; cbn [j_open]; apply N.eqb_refl).
      rewrite Eo. cbn [andb].
      fold (stc lp). rewrite (jmember_key (stc lp) par s false HQ).
      unfold ll_members. cbn [jr_members]. rewrite jrender_arr.
      assert (EhmD : existsb hm (prl (rev (DN s v d m ch :: done))) = hm (DN s v d m ch)).
      { rewrite prl_rev_cons, Hsel, Hdn. cbn [app existsb]. rewrite hm_PN. apply orb_false_r. }
      destruct run' as [|y' r'].
      - cbn [isnil negb sibs map jr_elems app prune flat_map].
        unfold st_close, st_dec, st_printed. cbn [j_level j_lp j_open j_first tl]. rewrite N.add_sub.
        assert (Ehm : existsb hm (prl whole) = hm (DN s v d m ch)) by (rewrite Epw; cbn [prune flat_map existsb]; rewrite hm_PN; apply orb_false_r).
        subst F'. rewrite <- Ehm. rewrite (flush_last s whole b _ Hwne Hwhole Hb).
        unfold meta_part. rewrite Epw. cbn [prune flat_map map existsb jr_elems]. rewrite hm_PN, orb_false_r.
        unfold jcomma, stc. cbn [j_level j_lp].
        apply (f_equal (fun z => (z, mk_clean L O))).
        destruct (hm (DN s v d m ch)); destruct (L <=? lp); cbn [negb app jr_members]; norm_app; rewrite ?app_nil_r; reflexivity.
      - cbn [isnil negb app]. unfold st_printed. cbn [j_level j_lp j_open j_first].
        rewrite (flush_mid s whole y' (r' ++ b) _ _ Hwne Hwhole (Forall_inv Er)); [|cbn [j_first]; subst F'; destruct (hm (DN s v d m ch)); auto].
        pose proof (ll_tail s (y' :: r') (DN s v d m ch :: done) prev0 b ltac:(discriminate) HRr ltac:(constructor; [reflexivity|exact Hd]) Hk Hp0 Hb) as T.
        cbv zeta in T. rewrite EhmD in T. cbn [app] in T.
        assert (Ewh : rev (DN s v d m ch :: done) ++ y' :: r' = whole) by (subst whole; cbn [rev]; rewrite <- app_assoc; reflexivity).
        rewrite Ewh in T. fold F' in T. rewrite T. unfold meta_part. rewrite Epw.
        unfold jcomma, stc. cbn [j_level j_lp map jr_elems existsb].
        apply (f_equal (fun z => (z, mk_clean L O))).
        destruct (hm (PN (DN s v d m ch)) || existsb hm (prl (y' :: r'))); destruct (L <=? lp); cbn [negb app jr_members]; norm_app; rewrite ?app_nil_r; reflexivity.
    Qed.
    (* ---- any group ---- *)
    Definition NodeOK (n : dnode) : Prop := CanonN sch p n /\ JD n /\ ISpec n.

    Lemma pairs_map_fst run : map fst (pairs run) = run.
    Proof. unfold pairs. rewrite map_map. cbn [fst]. apply map_id. Qed.
    Lemma pairs_app a b : pairs (a ++ b) = pairs a ++ pairs b.
    Proof. apply map_app. Qed.

    Lemma prl_sids s run : Forall (fun n => d_sid n = s) run -> Forall (fun n => d_sid n = s) (prl run).
    Proof.
      induction 1 as [|x l Hx _ IH]; [constructor|]. rewrite prl_cons. apply Forall_app. split; [|exact IH].
      destruct (sel x); constructor; [rewrite PN_sid; exact Hx|constructor].
    Qed.

    Lemma leaf_group s run : forall prev b lp,
      Forall (fun n => d_sid n = s /\ NodeOK n) run -> kind_of sch s = KLeaf -> lp <= L ->
      sibs par prev run b (stc lp) =
        (jr_members (flat_map leaf_members (prl run)) (negb (L <=? lp)), match prl run with [] => stc lp | _ => mk_clean L O end).
    Proof.
      induction run as [|y r IH]; intros prev b lp Hall Hk Hlp; [reflexivity|].
      inversion Hall as [|? ? (Hs & HP & HD & _) Hr]; subst.
      cbn [sibs]. rewrite prl_cons. destruct (sel y) eqn:Hsel.
      2:{ rewrite (skip_node prev (r ++ b) lp y Hsel HP). cbn [app]. rewrite (IH _ b lp Hr Hk Hlp). reflexivity. }
      cbn [app flat_map]. rewrite (leaf_node prev (r ++ b) lp y Hsel Hk HP HD Hlp).
      change (mk_clean L O) with (stc L). rewrite (IH _ b L Hr Hk (N.le_refl L)).
      rewrite jr_members_app. rewrite N.leb_refl. cbn [negb].
      assert (En : isnil (leaf_members (PN y)) = false) by reflexivity. rewrite En, andb_false_r.
      destruct (prl r); reflexivity.
    Qed.

    Lemma cont_group s run pr : forall prev b lp,
      Forall (fun n => d_sid n = s /\ NodeOK n) run -> kind_of sch s = KCont pr -> lp <= L ->
      sibs par prev run b (stc lp) =
        (jr_members (map (fun n => (mname t par s, jval_of n)) (prl run)) (negb (L <=? lp)),
         match prl run with [] => stc lp | _ => mk_clean L O end).
    Proof.
      induction run as [|y r IH]; intros prev b lp Hall Hk Hlp; [reflexivity|].
      inversion Hall as [|? ? (Hs & HP & HD & HI) Hr]; subst.
      cbn [sibs]. rewrite prl_cons. destruct (sel y) eqn:Hsel.
      2:{ rewrite (skip_node prev (r ++ b) lp y Hsel HP). cbn [app]. rewrite (IH _ b lp Hr Hk Hlp). reflexivity. }
      cbn [app map]. rewrite (cont_node prev (r ++ b) lp y pr Hsel Hk HP HD HI Hlp).
      change (mk_clean L O) with (stc L). rewrite (IH _ b L Hr Hk (N.le_refl L)).
      rewrite N.leb_refl. cbn [negb].
      change ((mname t par (d_sid y), jval_of (PN y)) :: map (fun n => (mname t par (d_sid y), jval_of n)) (prl r))
        with ([(mname t par (d_sid y), jval_of (PN y))] ++ map (fun n => (mname t par (d_sid y), jval_of n)) (prl r)).
      rewrite jr_members_app. cbn [isnil]. rewrite andb_false_r. destruct (prl r); reflexivity.
    Qed.

    (* the members of a group of siblings of which [rp] are printed *)
    Definition gmem (s : sid) (rp : list dnode) : list (bytes * jval) :=
      if isnil rp then [] else group_members sch t par (s, pairs rp).

    Lemma group_spec s run prev b lp :
      run <> [] -> Forall (fun n => d_sid n = s /\ NodeOK n) run -> hd_not s prev -> hd_not s b -> lp <= L ->
      sibs par prev run b (stc lp) =
        (jr_members (gmem s (prl run)) (negb (L <=? lp)), if isnil (prl run) then stc lp else mk_clean L O).
    Proof.
      intros Hne Hall Hp Hb Hlp. destruct run as [|x run']; [contradiction|].
      pose proof (Forall_inv Hall) as (Hsx & HPx & HDx & HIx).
      assert (Hkany : kind_of sch s <> KAny).
      { destruct x as [s0 v d m ch]. cbn [d_sid] in Hsx. subst s0. rewrite JDocN_unfold in HDx. apply HDx. }
      assert (Hsids : Forall (fun n => d_sid n = s) (x :: run')).
      { apply Forall_forall. intros n Hn. rewrite Forall_forall in Hall. apply (Hall n Hn). }
      pose proof (prl_sids s _ Hsids) as Hps.
      unfold gmem. cbn [group_members]. destruct (kind_of sch s) eqn:Hk; [| | | |contradiction].
      - rewrite (cont_group s (x :: run') presence prev b lp Hall Hk Hlp).
        destruct (prl (x :: run')) as [|z rp]; [reflexivity|]. cbn [isnil]. unfold pairs. rewrite map_map. reflexivity.
      - rewrite (leaf_group s (x :: run') prev b lp Hall Hk Hlp).
        destruct (prl (x :: run')) as [|z rp]; [reflexivity|]. cbn [isnil].
        assert (E : forall l, flat_map (fun x0 : dnode * jval => (mname t par s, snd x0) ::
                       (if has_meta x0 then [(64 :: mname t par s, jmeta_obj (d_meta (fst x0)))] else [])) (pairs l) =
                     flat_map (fun n => (mname t par s, jval_of n) ::
                       (if negb (isnil (d_meta n)) then [(64 :: mname t par s, jmeta_obj (d_meta n))] else [])) l).
        { induction l as [|n l IHl]; [reflexivity|]. cbn [pairs map flat_map]. fold (pairs l). rewrite IHl. reflexivity. }
        rewrite E.
        assert (E2 : flat_map leaf_members (z :: rp) =
                     flat_map (fun n => (mname t par s, jval_of n) ::
                       (if negb (isnil (d_meta n)) then [(64 :: mname t par s, jmeta_obj (d_meta n))] else [])) (z :: rp)).
        { clear -Hps. induction Hps as [|n l Hs _ IHl]; [reflexivity|]. cbn [flat_map]. rewrite IHl. unfold leaf_members. rewrite Hs. reflexivity. }
        rewrite E2. reflexivity.
      - assert (HLL : LLOK s (x :: run')).
        { apply Forall_forall. intros n Hn. rewrite Forall_forall in Hall. destruct (Hall n Hn) as (H1 & H2 & H3 & _). repeat split; assumption. }
        pose proof (ll_run s (x :: run') [] prev b lp HLL ltac:(constructor) eq_refl Hk Hp Hb Hlp) as R. cbn [app] in R. rewrite R.
        destruct (prl (x :: run')) as [|z rp]; [reflexivity|]. cbn [isnil]. unfold ll_members.
        assert (E1 : map snd (pairs (z :: rp)) = map jval_of (z :: rp)) by (unfold pairs; rewrite map_map; reflexivity).
        assert (E2 : existsb has_meta (pairs (z :: rp)) = existsb hm (z :: rp)).
        { generalize (z :: rp). induction l as [|n l IHl]; [reflexivity|]. cbn [pairs map existsb]. fold (pairs l). rewrite IHl. reflexivity. }
        assert (E3 : map meta_or_null (pairs (z :: rp)) = map mon (z :: rp)) by (unfold pairs; rewrite map_map; reflexivity).
        rewrite E1, E2, E3. reflexivity.
      - assert (HR : RunOK s (x :: run')).
        { apply Forall_forall. intros n Hn. rewrite Forall_forall in Hall. destruct (Hall n Hn) as (H1 & H2 & H3 & H4). repeat split; assumption. }
        rewrite (list_run s (x :: run') prev b lp HR Hk Hb Hlp).
        destruct (prl (x :: run')) as [|z rp]; [reflexivity|]. cbn [isnil].
        assert (E1 : map snd (pairs (z :: rp)) = map jval_of (z :: rp)) by (unfold pairs; rewrite map_map; reflexivity).
        rewrite E1. reflexivity.
    Qed.

    (* ---- the groups of a sibling list, one after the other ---- *)
    Definition GOK (g : sid * list dnode) : Prop :=
      snd g <> [] /\ Forall (fun n => d_sid n = fst g /\ NodeOK n) (snd g).

    Fixpoint adj_ok' (G : list (sid * list dnode)) : Prop :=
      match G with
      | (s1, _) :: (((s2, _) :: _) as G') => s1 <> s2 /\ adj_ok' G'
      | _ => True
      end.

    Definition gnodes (G : list (sid * list dnode)) : list dnode := flat_map snd G.
    Definition gmembers (G : list (sid * list dnode)) : list (bytes * jval) :=
      flat_map (fun g : sid * list dnode => gmem (fst g) (prl (snd g))) G.

    Lemma gm_nonempty s rp : rp <> [] -> isnil (group_members sch t par (s, pairs rp)) = false.
    Proof.
      intros Hne. destruct rp as [|x r]; [contradiction|]. cbn [group_members pairs map].
      destruct (kind_of sch s); reflexivity.
    Qed.

    Lemma hd_not_rev s s' run prev : run <> [] -> Forall (fun n => d_sid n = s) run -> s <> s' -> hd_not s' (rev run ++ prev).
    Proof.
      intros Hne Hall Hd. destruct (rev run) as [|y r] eqn:E.
      - exfalso. apply Hne. rewrite <- (rev_involutive run), E. reflexivity.
      - cbn [app hd_not]. assert (Hin : In y run) by (apply in_rev; rewrite E; left; reflexivity).
        rewrite Forall_forall in Hall. rewrite (Hall y Hin). exact Hd.
    Qed.

    Lemma groups_seq G : forall prev lp,
      Forall GOK G -> adj_ok' G -> match G with (s, _) :: _ => hd_not s prev | [] => True end -> lp <= L ->
      sibs par prev (gnodes G) [] (stc lp) =
        (jr_members (gmembers G) (negb (L <=? lp)), if isnil (prl (gnodes G)) then stc lp else mk_clean L O).
    Proof.
      induction G as [|[s run] G' IH]; intros prev lp HG Hadj Hp Hlp; [reflexivity|].
      inversion HG as [|? ? [Hne Hall] HG']; subst. cbn [fst snd] in *.
      unfold gnodes, gmembers. cbn [flat_map fst snd]. fold (gnodes G'). fold (gmembers G').
      rewrite sibs_app. rewrite app_nil_r.
      assert (Hb : hd_not s (gnodes G')).
      { destruct G' as [|[s2 r2] G'']; [exact I|]. cbn [adj_ok'] in Hadj. destruct Hadj as [Hd _].
        inversion HG' as [|? ? [Hne2 Hall2] _]; subst. cbn [fst snd] in *. unfold gnodes. cbn [flat_map snd].
        destruct r2 as [|y r2']; [contradiction|]. cbn [app hd_not]. pose proof (Forall_inv Hall2) as [Hy _]. rewrite Hy. intro E. apply Hd. symmetry. exact E. }
      rewrite (group_spec s run prev (gnodes G') lp Hne Hall Hp Hb Hlp).
      assert (Hadj' : adj_ok' G') by (destruct G' as [|[s2 r2] G'']; [exact I|apply Hadj]).
      assert (Hp' : match G' with (s0, _) :: _ => hd_not s0 (rev run ++ prev) | [] => True end).
      { destruct G' as [|[s2 r2] G'']; [exact I|]. cbn [adj_ok'] in Hadj. destruct Hadj as [Hd _].
        apply (hd_not_rev s s2 run prev Hne); [|exact Hd].
        apply Forall_forall. intros n Hn. rewrite Forall_forall in Hall. apply (Hall n Hn). }
      rewrite prl_app, jr_members_app. unfold gmem.
      destruct (prl run) as [|z rp] eqn:Epr; cbn [isnil app].
      - rewrite (IH (rev run ++ prev) lp HG' Hadj' Hp' Hlp). rewrite andb_true_r. reflexivity.
      - change (mk_clean L O) with (stc L).
        rewrite (IH (rev run ++ prev) L HG' Hadj' Hp' (N.le_refl L)).
        rewrite N.leb_refl. cbn [negb]. rewrite (gm_nonempty s (z :: rp) ltac:(discriminate)), andb_false_r.
        destruct (isnil (prl (gnodes G'))); reflexivity.
    Qed.

    Definition Gn (l : list dnode) : list (sid * list dnode) :=
      map (fun g : sid * list (dnode * jval) => (fst g, map fst (snd g))) (group_runs (pairs l)).

    Lemma Gn_nodes l : gnodes (Gn l) = l.
    Proof.
      unfold gnodes, Gn. rewrite flat_map_concat_map, map_map. cbn [snd].
      rewrite <- (pairs_map_fst l) at 2. rewrite <- (ungroup_group_runs (pairs l)) at 2.
      generalize (group_runs (pairs l)). induction l0 as [|g G IH]; [reflexivity|].
      cbn [map concat ungroup]. rewrite map_app, IH. reflexivity.
    Qed.

    Lemma Gn_ok l : Forall NodeOK l -> Forall GOK (Gn l).
    Proof.
      intro Hall. unfold Gn.
      apply Forall_forall. intros g Hg. apply in_map_iff in Hg. destruct Hg as ([s runP] & <- & Hin). cbn [fst snd]. split.
      - pose proof (group_runs_nonempty (pairs l) _ Hin) as Hne. cbn [snd] in Hne. destruct runP; [contradiction|discriminate].
      - cbn [fst snd]. apply Forall_forall. intros n Hn. apply in_map_iff in Hn. destruct Hn as (x & <- & Hx).
        destruct (group_runs_in (pairs l) (s, runP) x Hin Hx) as [H1 H2]. cbn [fst] in H2. split; [exact H2|].
        unfold pairs in H1. apply in_map_iff in H1. destruct H1 as (c & <- & Hc). cbn [fst]. rewrite Forall_forall in Hall. apply Hall, Hc.
    Qed.
    (* ---- the groups of the printed nodes are what is left of the groups of all nodes ---- *)
    Lemma group_runs_sorted {A} (l : list (dnode * A)) :
      StronglySorted (fun a b => d_sid (fst a) <= d_sid (fst b)) l ->
      StronglySorted (fun g1 g2 : sid * list (dnode * A) => fst g1 < fst g2) (group_runs l).
    Proof.
      induction l as [|x l IH]; intro HS; [constructor|].
      apply StronglySorted_inv in HS. destruct HS as [HSl Hx]. specialize (IH HSl).
      cbn [group_runs]. destruct (group_runs l) as [|[s run] gs] eqn:E; [repeat constructor|].
      assert (Hge : forall g, In g ((s, run) :: gs) -> d_sid (fst x) <= fst g).
      { intros g Hg. rewrite <- E in Hg. pose proof (group_runs_nonempty l g Hg) as Hne. destruct (snd g) as [|y r] eqn:Eg; [contradiction|].
        assert (Hy : In y (snd g)) by (rewrite Eg; left; reflexivity).
        destruct (group_runs_in l g y Hg Hy) as [Hin Hsid]. rewrite <- Hsid. rewrite Forall_forall in Hx. apply Hx, Hin. }
      apply StronglySorted_inv in IH. destruct IH as [IHgs Hs].
      pose proof (Hge (s, run) (or_introl eq_refl)) as H2. cbn [fst] in H2.
      destruct (s =? d_sid (fst x)) eqn:Es.
      - constructor; [exact IHgs|exact Hs].
      - apply N.eqb_neq in Es. constructor; [constructor; assumption|].
        constructor.
        + cbn [fst]. lia.
        + rewrite Forall_forall in Hs |- *. intros g Hg. pose proof (Hs g Hg) as H1. cbn [fst] in H1 |- *. lia.
    Qed.

    Fixpoint adj_okA {A} (G : list (sid * list (dnode * A))) : Prop :=
      match G with
      | (s1, _) :: (((s2, _) :: _) as G') => s1 <> s2 /\ adj_okA G'
      | _ => True
      end.

    Lemma group_runs_block {A} s (run : list (dnode * A)) l :
      run <> [] -> Forall (fun x => d_sid (fst x) = s) run ->
      match group_runs l with (s2, _) :: _ => s <> s2 | [] => True end ->
      group_runs (run ++ l) = (s, run) :: group_runs l.
    Proof.
      intros Hne Hall Hhd. induction run as [|x r IH]; [contradiction|].
      pose proof (Forall_inv Hall) as Hx. pose proof (Forall_inv_tail Hall) as Hr. cbn beta in Hx. cbn [app group_runs].
      destruct r as [|y r'].
      - cbn [app]. destruct (group_runs l) as [|[s2 r2] gs]; [rewrite Hx; reflexivity|].
        assert (E : (s2 =? d_sid (fst x)) = false) by (apply N.eqb_neq; rewrite Hx; intro; apply Hhd; symmetry; assumption). rewrite E, Hx. reflexivity.
      - rewrite IH; [|discriminate|exact Hr]. rewrite Hx, N.eqb_refl. reflexivity.
    Qed.

    Lemma group_runs_ungroup {A} (G : list (sid * list (dnode * A))) :
      Forall (fun g => snd g <> [] /\ Forall (fun x => d_sid (fst x) = fst g) (snd g)) G -> adj_okA G ->
      group_runs (ungroup G) = G.
    Proof.
      induction G as [|[s run] G' IH]; intros HG Ha; [reflexivity|].
      inversion HG as [|? ? [Hne Hall] HG']; subst. cbn [fst snd] in *. cbn [ungroup snd].
      assert (Ha' : adj_okA G') by (destruct G' as [|[s2 r2] G'']; [exact I|apply Ha]).
      rewrite (group_runs_block s run (ungroup G') Hne Hall); rewrite (IH HG' Ha'); [reflexivity|].
      destruct G' as [|[s2 r2] G'']; [exact I|]. apply Ha.
    Qed.

    Definition Gp (G : list (sid * list dnode)) : list (sid * list (dnode * jval)) :=
      flat_map (fun g : sid * list dnode => if isnil (prl (snd g)) then [] else [(fst g, pairs (prl (snd g)))]) G.

    Lemma Gp_ungroup G : ungroup (Gp G) = pairs (prl (gnodes G)).
    Proof.
      induction G as [|g G IH]; [reflexivity|]. unfold Gp, gnodes. cbn [flat_map]. fold (Gp G). fold (gnodes G).
      rewrite prl_app, pairs_app, <- IH. destruct (prl (snd g)); reflexivity.
    Qed.

    Lemma Gp_members G : flat_map (group_members sch t par) (Gp G) = gmembers G.
    Proof.
      induction G as [|g G IH]; [reflexivity|]. unfold Gp, gmembers. cbn [flat_map]. fold (Gp G). fold (gmembers G).
      rewrite flat_map_app, IH. unfold gmem. destruct (prl (snd g)); cbn [isnil flat_map app]; rewrite ?app_nil_r; reflexivity.
    Qed.

    Lemma Gp_in G g' : In g' (Gp G) ->
      exists g, In g G /\ fst g = fst g' /\ snd g' = pairs (prl (snd g)) /\ prl (snd g) <> [].
    Proof.
      induction G as [|g G IH]; intro H; [contradiction|]. unfold Gp in H. cbn [flat_map] in H. fold (Gp G) in H.
      apply in_app_or in H. destruct H as [H|H].
      - destruct (prl (snd g)) as [|z rp] eqn:E; cbn [isnil] in H; [contradiction|]. destruct H as [<-|[]].
        exists g. cbn [fst snd]. rewrite E. repeat split; [left; reflexivity|discriminate].
      - destruct (IH H) as (g0 & H1 & H2). exists g0. split; [right; exact H1|exact H2].
    Qed.

    Lemma Gp_sorted G :
      StronglySorted (fun a b : sid * list dnode => fst a < fst b) G ->
      StronglySorted (fun a b : sid * list (dnode * jval) => fst a < fst b) (Gp G).
    Proof.
      induction 1 as [|g G HS IH Hg]; [constructor|]. unfold Gp. cbn [flat_map]. fold (Gp G).
      destruct (isnil (prl (snd g))); [exact IH|]. cbn [app]. constructor; [exact IH|].
      apply Forall_forall. intros g' Hg'. destruct (Gp_in G g' Hg') as (g0 & Hin & Hf & _). cbn [fst]. rewrite <- Hf.
      rewrite Forall_forall in Hg. apply Hg, Hin.
    Qed.

    Lemma sorted_adj {A} (G : list (sid * list (dnode * A))) :
      StronglySorted (fun a b : sid * list (dnode * A) => fst a < fst b) G -> adj_okA G.
    Proof.
      induction 1 as [|[s1 r1] G HS IH Hg]; [exact I|]. destruct G as [|[s2 r2] G']; [exact I|]. cbn [adj_okA]. split; [|exact IH].
      pose proof (Forall_inv Hg) as H. cbn [fst] in H. lia.
    Qed.

    Lemma sorted_adj' (G : list (sid * list dnode)) :
      StronglySorted (fun a b : sid * list dnode => fst a < fst b) G -> adj_ok' G.
    Proof.
      induction 1 as [|[s1 r1] G HS IH Hg]; [exact I|]. destruct G as [|[s2 r2] G']; [exact I|]. cbn [adj_ok']. split; [|exact IH].
      pose proof (Forall_inv Hg) as H. cbn [fst] in H. lia.
    Qed.

    Definition sid_le (a b : dnode) : Prop := d_sid a <= d_sid b.

    Lemma Gn_sorted l : StronglySorted sid_le l -> StronglySorted (fun a b : sid * list dnode => fst a < fst b) (Gn l).
    Proof.
      intro HS. unfold Gn.
      assert (H : StronglySorted (fun g1 g2 : sid * list (dnode * jval) => fst g1 < fst g2) (group_runs (pairs l))).
      { apply group_runs_sorted. unfold pairs. induction HS as [|x l HS IH Hx]; [constructor|]. cbn [map]. constructor; [exact IH|].
        apply Forall_forall. intros y Hy. apply in_map_iff in Hy. destruct Hy as (c & <- & Hc). cbn [fst]. rewrite Forall_forall in Hx. apply Hx, Hc. }
      induction H as [|g G HG IH Hg]; [constructor|]. cbn [map]. constructor; [exact IH|].
      apply Forall_forall. intros g' Hg'. apply in_map_iff in Hg'. destruct Hg' as (g0 & <- & Hin). cbn [fst]. rewrite Forall_forall in Hg. apply Hg, Hin.
    Qed.

    Lemma Gn_members_prune l : Forall NodeOK l -> StronglySorted sid_le l -> gmembers (Gn l) = assemble sch t par (pairs (prl l)).
    Proof.
      intros Hall HS. unfold assemble. rewrite <- Gp_members.
      assert (E : group_runs (pairs (prl l)) = Gp (Gn l)).
      { rewrite <- (Gn_nodes l) at 1. rewrite <- Gp_ungroup. apply group_runs_ungroup.
        - apply Forall_forall. intros g' Hg'. destruct (Gp_in _ g' Hg') as (g & Hin & Hf & Hs & Hne). split.
          + rewrite Hs. destruct (prl (snd g)); [contradiction|discriminate].
          + rewrite Hs. apply Forall_forall. intros x Hx. unfold pairs in Hx. apply in_map_iff in Hx. destruct Hx as (c & <- & Hc). cbn [fst]. rewrite <- Hf.
            pose proof (Gn_ok l Hall) as HG. rewrite Forall_forall in HG. destruct (HG g Hin) as [_ Hg].
            assert (Hsids : Forall (fun n => d_sid n = fst g) (snd g)) by (apply Forall_forall; intros n Hn; rewrite Forall_forall in Hg; apply (Hg n Hn)).
            pose proof (prl_sids _ _ Hsids) as Hp. rewrite Forall_forall in Hp. apply Hp, Hc.
        - apply sorted_adj, Gp_sorted, Gn_sorted, HS. }
      rewrite E. reflexivity.
    Qed.

    Lemma sib_spec_group l lp :
      Forall NodeOK l -> StronglySorted sid_le l -> lp <= L ->
      jsib par [] l (stc lp) =
        (jr_members (assemble sch t par (pairs (prl l))) (negb (L <=? lp)), match prl l with [] => stc lp | _ => mk_clean L O end).
    Proof.
      intros Hall HS Hlp. rewrite jsib_sibs. rewrite <- (Gn_nodes l) at 1.
      rewrite (groups_seq (Gn l) [] lp (Gn_ok l Hall) (sorted_adj' _ (Gn_sorted l HS))); [|destruct (Gn l) as [|[s r] G]; exact I|exact Hlp].
      rewrite Gn_nodes, (Gn_members_prune l Hall HS). destruct (prl l); reflexivity.
    Qed.
  End Group.

  (* ---------- every node, every sibling list ---------- *)
  Lemma sorted_sids p l : CanonAt sch p l -> StronglySorted sid_le l.
  Proof.
    intro H. pose proof (canon_strongly_sorted sch p l H) as HS. clear H.
    induction HS as [|x l HS IH Hx]; [constructor|]. constructor; [exact IH|].
    rewrite Forall_forall in *. intros y Hy. unfold sid_le. destruct (Hx y Hy) as [H1|[H1 _]]; lia.
  Qed.

  Lemma sib_spec_of_ispec l : Forall ISpec l -> SibSpec l.
  Proof.
    intros HI par st p HP HD Hnf Hlp Hlv HQ HO.
    destruct st as [lv lp o f]. unfold no_first in Hnf. cbn [j_first j_level j_lp j_open] in *. subst f.
    assert (Hall : Forall (NodeOK p) l).
    { destruct HP as [_ HPn]. apply Forall_forall. intros n Hn. rewrite Forall_forall in HPn, HD, HI. unfold NodeOK. auto. }
    pose proof (sib_spec_group par lv o p HQ Hlv HO l lp Hall (sorted_sids p l HP) Hlp) as E. unfold stc in E. exact E.
  Qed.

  Theorem ispec_all n : ISpec n.
  Proof.
    induction n as [s v d m ch IH] using dnode_ind'. apply ispec_of_sib. cbn [d_ch]. apply sib_spec_of_ispec, IH.
  Qed.

  Theorem sib_spec_all l : SibSpec l.
  Proof. apply sib_spec_of_ispec, Forall_forall. intros n _. apply ispec_all. Qed.

  (* json_print_data() writes the rendering of the RFC 7951 value of the nodes the selection keeps *)
  Theorem json_print_sm_doc f :
    Canon sch f -> Forall JD f ->
    json_print_sm sch t jk sel f = json_doc sch t jk (prune sel f).
  Proof.
    intros HC HD. unfold json_print_sm, json_doc, json_tree. rewrite jrender_obj.
    destruct f as [|x f']; [reflexivity|].
    rewrite (sib_spec_all (x :: f') None (mk_jst 1 0 [] None) None HC HD).
    - reflexivity.
    - reflexivity.
    - unfold lp_ok. cbn [j_lp j_level]. lia.
    - cbn [j_level]. lia.
    - intros _. reflexivity.
    - reflexivity.
  Qed.
End Equiv.

(* ====================================================================================== *)
(* the theorems about the printer itself                                                   *)
(* ====================================================================================== *)
Lemma parents_ltb_spec sch : parents_ltb sch = true -> forall s i q, lookup sch s = Some i -> si_parent i = Some q -> q < s.
Proof.
  unfold parents_ltb. rewrite forallb_forall. intros H s i q Hl Hp. specialize (H _ (lookup_In _ _ _ Hl)). cbn [fst snd] in H.
  rewrite Hp in H. lia.
Qed.

Lemma prune_node_all n : prune_node sel_all n = n.
Proof.
  induction n as [s v d m ch IH] using dnode_ind'. cbn [prune_node]. f_equal.
  induction IH as [|c l Hc _ IHl]; [reflexivity|]. cbn [flat_map]. unfold sel_all at 1. cbn [app]. rewrite Hc, IHl. reflexivity.
Qed.
Lemma prune_all f : prune sel_all f = f.
Proof. induction f as [|c l IH]; [reflexivity|]. unfold prune in *. cbn [flat_map]. unfold sel_all at 1. cbn [app]. rewrite prune_node_all, IH. reflexivity. Qed.

(* for every node selection the printer writes the rendering of the value of the selected part *)
Theorem json_print_sel_doc sch t jk (SV : bytes -> Prop) (sel : dnode -> bool) f :
  tabs_okb sch t = true -> parents_ltb sch = true -> Canon sch f -> Forall (JDocN sch t jk SV) f ->
  json_print sch t jk sel f = json_doc sch t jk (prune sel f).
Proof.
  intros Ht Hp HC HD. unfold json_print.
  apply (json_print_sm_doc sch t jk sel SV Ht (parents_ltb_spec sch Hp) f HC HD).
Qed.

Theorem json_print_all_doc sch t jk (SV : bytes -> Prop) f :
  tabs_okb sch t = true -> parents_ltb sch = true -> Canon sch f -> Forall (JDocN sch t jk SV) f ->
  json_print_all sch t jk f = json_doc sch t jk f.
Proof.
  intros Ht Hp HC HD. unfold json_print_all. rewrite (json_print_sel_doc sch t jk SV sel_all f Ht Hp HC HD), prune_all. reflexivity.
Qed.

Lemma JDocN_prune sch t jk (SV : bytes -> Prop) (sel : dnode -> bool) n :
  JDocN sch t jk SV n -> JDocN sch t jk SV (prune_node sel n).
Proof.
  induction n as [s v d m ch IH] using dnode_ind'. intro HD.
  rewrite JDocN_unfold in HD. destruct HD as (Hany & Hval & Hmeta & Hnd & HDch).
  cbn [prune_node]. rewrite JDocN_unfold. repeat split; try assumption.
  induction ch as [|c ch IHc]; [constructor|]. inversion IH as [|? ? Hc Hr]; subst.
  inversion HDch as [|? ? Dc Dr]; subst. cbn [flat_map]. destruct (sel c); cbn [app]; [constructor; [apply Hc, Dc|]|]; apply IHc; assumption.
Qed.

(* the rendering of the selected part of a forest is read back as the selected part *)
Theorem json_doc_roundtrip_sel_proof sch t jk (sel : dnode -> bool) f :
  tabs_okb sch t = true -> Canon sch f -> Forall (JDocN sch t jk SV_ly) f ->
  json_parse sch t jk (json_doc sch t jk (prune sel f)) = Some (clear_dflt (prune sel f)).
Proof.
  intros Ht HC HD. unfold json_parse.
  assert (HP' : Forall (Placed sch None) (prune sel f)) by (apply Forall_prune; [intro n; apply Placed_prune|apply Canon_Placed, HC]).
  assert (HD' : Forall (JDocN sch t jk SV_ly) (prune sel f)) by (apply Forall_prune; [intro n; apply JDocN_prune|exact HD]).
  rewrite (jv_text_doc sch t jk SV_ly Ht SV_ly_key ly_rdstr (prune sel f) ly_rdstr_ok HP' HD').
  rewrite (conv_tree sch t jk SV_ly Ht (prune sel f) HP' HD'). reflexivity.
Qed.

(* ... and a standard reader reads it as the RFC 7951 value of the selected part *)
Theorem json_doc_std_sel_proof sch t jk (sel : dnode -> bool) f :
  tabs_okb sch t = true -> Canon sch f -> Forall (JDocN sch t jk utf8_nonul) f ->
  std_json_value (json_doc sch t jk (prune sel f)) = Some (json_tree sch t jk (prune sel f)).
Proof.
  intros Ht HC HD. unfold std_json_value.
  assert (HP' : Forall (Placed sch None) (prune sel f)) by (apply Forall_prune; [intro n; apply Placed_prune|apply Canon_Placed, HC]).
  assert (HD' : Forall (JDocN sch t jk utf8_nonul) (prune sel f)) by (apply Forall_prune; [intro n; apply JDocN_prune|exact HD]).
  exact (jv_text_doc sch t jk utf8_nonul Ht utf8_nonul_key std_rdstr (prune sel f) std_rdstr_ok HP' HD').
Qed.

Theorem json_print_roundtrip_sel_proof sch t jk (sel : dnode -> bool) f :
  tabs_okb sch t = true -> parents_ltb sch = true -> Canon sch f -> Forall (JDocN sch t jk SV_ly) f ->
  json_parse sch t jk (json_print sch t jk sel f) = Some (clear_dflt (prune sel f)).
Proof.
  intros Ht Hp HC HD. rewrite (json_print_sel_doc sch t jk SV_ly sel f Ht Hp HC HD). apply json_doc_roundtrip_sel_proof; assumption.
Qed.

Theorem json_print_std_sel_proof sch t jk (sel : dnode -> bool) f :
  tabs_okb sch t = true -> parents_ltb sch = true -> Canon sch f -> Forall (JDocN sch t jk utf8_nonul) f ->
  std_json_value (json_print sch t jk sel f) = Some (json_tree sch t jk (prune sel f)).
Proof.
  intros Ht Hp HC HD. rewrite (json_print_sel_doc sch t jk utf8_nonul sel f Ht Hp HC HD). apply json_doc_std_sel_proof; assumption.
Qed.

Theorem json_print_roundtrip_proof sch t jk f :
  tabs_okb sch t = true -> parents_ltb sch = true -> Canon sch f -> Forall (JDocN sch t jk SV_ly) f ->
  json_parse sch t jk (json_print_all sch t jk f) = Some (clear_dflt f).
Proof.
  intros Ht Hp HC HD. rewrite (json_print_all_doc sch t jk SV_ly f Ht Hp HC HD). apply json_doc_roundtrip_proof; assumption.
Qed.

Theorem json_print_std_proof sch t jk f :
  tabs_okb sch t = true -> parents_ltb sch = true -> Canon sch f -> Forall (JDocN sch t jk utf8_nonul) f ->
  std_json_value (json_print_all sch t jk f) = Some (json_tree sch t jk f).
Proof.
  intros Ht Hp HC HD. rewrite (json_print_all_doc sch t jk utf8_nonul f Ht Hp HC HD). apply json_doc_std_proof; assumption.
Qed.
