(* JsonDocP.v -- proofs about JsonDoc: the generic RFC 8259 reader reads the compact rendering of a JSON value back (for
   every string reader that inverts json_print_string on a class of strings: the standard one and the model of
   libyang's lexer), the RFC 7951 value of a forest converts back to the forest, and on canonical forests with every
   node selected the printer's state machine writes exactly the rendering of that value. *)
From LY Require Import Base Utf8 Utf8P XmlText XmlTextP JsonText JsonTextP StdText StdTextP Tree TreeP XmlDoc XmlDocP JsonDoc.
From Coq Require Import ZifyBool ZifyNat ZifyN.
Local Open Scope N_scope.

(* induction on JSON values with hypotheses for the nested lists *)
Section JvalInd.
  Variable P : jval -> Prop.
  Hypothesis Hstr : forall s, P (JVstr s).
  Hypothesis Hnum : forall tok, P (JVnum tok).
  Hypothesis Htrue : P JVtrue.
  Hypothesis Hfalse : P JVfalse.
  Hypothesis Hnull : P JVnull.
  Hypothesis Harr : forall l, Forall P l -> P (JVarr l).
  Hypothesis Hobj : forall l, Forall (fun kx : bytes * jval => P (snd kx)) l -> P (JVobj l).
  Fixpoint jval_ind' (v : jval) : P v :=
    match v with
    | JVstr s => Hstr s
    | JVnum tok => Hnum tok
    | JVtrue => Htrue
    | JVfalse => Hfalse
    | JVnull => Hnull
    | JVarr l =>
        Harr l ((fix go (l : list jval) : Forall P l :=
                   match l with
                   | [] => Forall_nil P
                   | x :: l' => Forall_cons x (jval_ind' x) (go l')
                   end) l)
    | JVobj l =>
        Hobj l ((fix go (l : list (bytes * jval)) : Forall (fun kx : bytes * jval => P (snd kx)) l :=
                   match l with
                   | [] => Forall_nil _
                   | kx :: l' => Forall_cons kx (jval_ind' (snd kx)) (go l')
                   end) l)
    end.
End JvalInd.

(* rendering of arrays and objects as separated lists *)
Fixpoint jr_elems (l : list jval) (first : bool) : bytes :=
  match l with
  | [] => []
  | x :: l' => (if first then [] else [44]) ++ jrender x ++ jr_elems l' false
  end.
Fixpoint jr_members (l : list (bytes * jval)) (first : bool) : bytes :=
  match l with
  | [] => []
  | (k, x) :: l' => (if first then [] else [44]) ++ 34 :: k ++ [34; 58] ++ jrender x ++ jr_members l' false
  end.

Lemma jrender_arr l : jrender (JVarr l) = 91 :: jr_elems l true ++ [93].
Proof.
  cbn [jrender]. apply f_equal. apply (f_equal (fun x => x ++ [93])). generalize true. induction l as [|x l IH]; intro b; [reflexivity|].
  cbn. rewrite IH. reflexivity.
Qed.
Lemma jrender_obj l : jrender (JVobj l) = 123 :: jr_members l true ++ [125].
Proof.
  cbn [jrender]. apply f_equal. apply (f_equal (fun x => x ++ [125])). generalize true. induction l as [|[k x] l IH]; intro b; [reflexivity|].
  cbn. rewrite IH. reflexivity.
Qed.

(* ====================================================================================== *)
(* the generic reader reads the rendering back                                             *)
(* ====================================================================================== *)
Lemma jws_stop c r : is_jws c = false -> jws (c :: r) = c :: r.
Proof. intro H. unfold jws. rewrite (span_stop _ _ _ H). reflexivity. Qed.

Ltac len_lia := repeat (rewrite ?app_length in *; cbn [length app] in * ); lia.

Definition delim (rest : bytes) : Prop := rest = [] \/ exists c r, rest = c :: r /\ is_numchar c = false.

Section GenParse.
  Variable SV : bytes -> Prop.
  Variable rdstr : bytes -> option (bytes * bytes).
  Hypothesis rdstr_ok : forall s rest, SV s -> rdstr (json_esc s ++ rest) = Some (s, rest).


  (* unfolding equations of the mutually recursive reader *)
  Lemma jv_value_S f s0 :
    jv_value rdstr (S f) s0 =
    let s := jws s0 in
    match s with
    | [] => None
    | c :: r =>
        if c =? 34 then match rdstr s with Some (v, r') => Some (JVstr v, r') | None => None end
        else if c =? 123 then
          match jws r with
          | [] => None
          | c2 :: r2 =>
              if c2 =? 125 then Some (JVobj [], r2)
              else match jv_members rdstr f (c2 :: r2) with Some (ms, r') => Some (JVobj ms, r') | None => None end
          end
        else if c =? 91 then
          match jws r with
          | [] => None
          | c2 :: r2 =>
              if c2 =? 93 then Some (JVarr [], r2)
              else match jv_value rdstr f (c2 :: r2) with
                   | Some (v, r3) =>
                       match jv_elems rdstr f r3 with Some (es, r4) => Some (JVarr (v :: es), r4) | None => None end
                   | None => None
                   end
          end
        else if starts_with true_b s then Some (JVtrue, skipn 4 s)
        else if starts_with false_b s then Some (JVfalse, skipn 5 s)
        else if starts_with null_b s then Some (JVnull, skipn 4 s)
        else let '(tok, r') := span is_numchar s in
             if jnumber_ok tok then Some (JVnum tok, r') else None
    end.
  Proof. reflexivity. Qed.

  Lemma jv_members_S f s0 :
    jv_members rdstr (S f) s0 =
    match rdstr (jws s0) with
    | None => None
    | Some (k, r) =>
        match jws r with
        | [] => None
        | c :: r1 =>
            if c =? 58 then
              match jv_value rdstr f r1 with
              | None => None
              | Some (v, r2) =>
                  match jws r2 with
                  | [] => None
                  | c2 :: r3 =>
                      if c2 =? 44 then
                        match jv_members rdstr f r3 with
                        | Some (ms, r4) => Some ((k, v) :: ms, r4)
                        | None => None
                        end
                      else if c2 =? 125 then Some ([(k, v)], r3)
                      else None
                  end
              end
            else None
        end
    end.
  Proof. reflexivity. Qed.

  Lemma jv_elems_S f s0 :
    jv_elems rdstr (S f) s0 =
    match jws s0 with
    | [] => None
    | c :: r =>
        if c =? 44 then
          match jv_value rdstr f r with
          | Some (v, r2) =>
              match jv_elems rdstr f r2 with
              | Some (es, r4) => Some (v :: es, r4)
              | None => None
              end
          | None => None
          end
        else if c =? 93 then Some ([], r)
        else None
    end.
  Proof. reflexivity. Qed.

  (* member names are written as they are: strings that need no escaping *)
  Definition key_ok (k : bytes) : Prop := SV k /\ json_esc k = 34 :: k ++ [34].

  Fixpoint W (v : jval) {struct v} : Prop :=
    match v with
    | JVstr s => SV s
    | JVnum tok => jnumber_ok tok = true /\ forallb is_numchar tok = true /\ tok <> []
    | JVtrue | JVfalse | JVnull => True
    | JVarr l => (fix all (l : list jval) : Prop := match l with [] => True | x :: l' => W x /\ all l' end) l
    | JVobj l =>
        (fix all (l : list (bytes * jval)) : Prop :=
           match l with [] => True | kx :: l' => key_ok (fst kx) /\ W (snd kx) /\ all l' end) l
    end.

  Lemma W_arr l : W (JVarr l) <-> Forall W l.
  Proof.
    cbn [W]. induction l as [|x l IH]; [split; [constructor|trivial]|]. split.
    - intros [H1 H2]. constructor; [assumption|apply IH; assumption].
    - intro H. inversion H; subst. split; [assumption|apply IH; assumption].
  Qed.
  Lemma W_obj l : W (JVobj l) <-> Forall (fun kx : bytes * jval => key_ok (fst kx) /\ W (snd kx)) l.
  Proof.
    cbn [W]. induction l as [|x l IH]; [split; [constructor|trivial]|]. split.
    - intros (H1 & H2 & H3). constructor; [split; assumption|apply IH; assumption].
    - intro H. inversion H as [|? ? [Ha Hb] Hr]; subst. split; [assumption|split; [assumption|apply IH; assumption]].
  Qed.

  Definition head_ok (c : N) : Prop :=
    is_jws c = false /\ c <> 93 /\ c <> 125 /\ c <> 44 /\ c <> 58.

  Lemma numchar_facts c : is_numchar c = true ->
    is_jws c = false /\ c <> 34 /\ c <> 123 /\ c <> 91 /\ c <> 116 /\ c <> 102 /\ c <> 110 /\ c <> 93 /\ c <> 125 /\ c <> 44 /\ c <> 58.
  Proof. unfold is_numchar, is_digit, is_jws. lia. Qed.

  Lemma jrender_head v : W v -> exists c r, jrender v = c :: r /\ head_ok c.
  Proof.
    destruct v as [s|tok| | | |l|l]; intro H.
    - exists 34, (json_esc_body s ++ [34]). split; [reflexivity|]. repeat split; discriminate.
    - cbn [W] in H. destruct H as (_ & Hc & Hne). destruct tok as [|c t]; [contradiction|].
      cbn [forallb] in Hc. apply andb_true_iff in Hc. destruct Hc as [Hc _].
      exists c, t. split; [reflexivity|]. pose proof (numchar_facts c Hc). unfold head_ok. tauto.
    - exists 116, [114; 117; 101]. split; [reflexivity|]. repeat split; discriminate.
    - exists 102, [97; 108; 115; 101]. split; [reflexivity|]. repeat split; discriminate.
    - exists 110, [117; 108; 108]. split; [reflexivity|]. repeat split; discriminate.
    - rewrite jrender_arr. eexists; eexists; split; [reflexivity|]. repeat split; discriminate.
    - rewrite jrender_obj. eexists; eexists; split; [reflexivity|]. repeat split; discriminate.
  Qed.

  Definition Pv (x : jval) : Prop := forall fuel rest,
    W x -> delim rest -> (length (jrender x ++ rest) < fuel)%nat ->
    jv_value rdstr fuel (jrender x ++ rest) = Some (x, rest).

  Lemma delim_cons c r : is_numchar c = false -> delim (c :: r).
  Proof. intro H. right. exists c, r. split; [reflexivity|exact H]. Qed.

  Lemma jrender_nonempty x : W x -> (1 <= length (jrender x))%nat.
  Proof. intro H. destruct (jrender_head x H) as (c & r & -> & _). cbn [length]. lia. Qed.

  Lemma jv_elems_render l : Forall Pv l -> forall fuel rest,
    Forall W l -> (length (jr_elems l false ++ 93%N :: rest) < fuel)%nat ->
    jv_elems rdstr fuel (jr_elems l false ++ 93 :: rest) = Some (l, rest).
  Proof.
    induction 1 as [|x l Hx _ IH]; intros fuel rest HW Hf.
    - destruct fuel as [|f]; [cbn in Hf; lia|]. cbn [jr_elems app]. rewrite jv_elems_S. rewrite jws_stop by reflexivity.
      reflexivity.
    - destruct fuel as [|f]; [cbn in Hf; lia|]. inversion HW as [|? ? Wx Wl]; subst.
      cbn [jr_elems app]. rewrite jv_elems_S. rewrite jws_stop by reflexivity. change (44 =? 44) with true. cbv iota.
      rewrite <- app_assoc.
      assert (Hd : delim (jr_elems l false ++ 93 :: rest)).
      { destruct l as [|y l']; cbn [jr_elems app]; apply delim_cons; reflexivity. }
      cbn [jr_elems app length] in Hf. rewrite <- app_assoc in Hf.
      rewrite (Hx f _ Wx Hd) by lia.
      rewrite (IH f rest Wl).
      + reflexivity.
      + rewrite app_length in Hf. pose proof (jrender_nonempty x Wx). lia.
  Qed.

  Lemma jv_members_render l : Forall (fun kx : bytes * jval => Pv (snd kx)) l -> forall fuel rest,
    l <> [] -> Forall (fun kx : bytes * jval => key_ok (fst kx) /\ W (snd kx)) l ->
    (length (jr_members l true ++ 125%N :: rest) < fuel)%nat ->
    jv_members rdstr fuel (jr_members l true ++ 125 :: rest) = Some (l, rest).
  Proof.
    induction 1 as [|[k x] l Hx _ IH]; intros fuel rest Hne HW Hf; [contradiction|].
    destruct fuel as [|f]; [cbn in Hf; lia|]. inversion HW as [|? ? [[HS Hk] Wx] Wl]; subst. cbn [fst snd] in *.
    cbn [jr_members app]. rewrite jv_members_S. rewrite jws_stop by reflexivity.
    norm_app.
    replace (34 :: k ++ 34 :: 58 :: jrender x ++ jr_members l false ++ 125 :: rest)
      with (json_esc k ++ 58 :: jrender x ++ jr_members l false ++ 125 :: rest)
      by (rewrite Hk; cbn [app]; rewrite <- app_assoc; reflexivity).
    rewrite (rdstr_ok k _ HS). rewrite jws_stop by reflexivity. change (58 =? 58) with true. cbv iota.
    assert (Hd : delim (jr_members l false ++ 125 :: rest)).
    { destruct l as [|[k' y] l']; cbn [jr_members app]; apply delim_cons; reflexivity. }
    cbn [jr_members] in Hf.
    rewrite (Hx f _ Wx Hd) by len_lia.
    destruct l as [|[k' y] l'].
    + cbn [jr_members app]. rewrite jws_stop by reflexivity. reflexivity.
    + remember ((k', y) :: l') as l2. assert (Hl2 : jr_members l2 false = 44 :: jr_members l2 true).
      { subst l2. reflexivity. }
      rewrite Hl2. cbn [app]. rewrite jws_stop by reflexivity. change (44 =? 44) with true. cbv iota.
      rewrite (IH f rest); [reflexivity|subst l2; discriminate|exact Wl|].
      rewrite Hl2 in Hf. len_lia.
  Qed.

  Lemma jv_value_render v : Pv v.
  Proof.
    induction v as [s|tok| | | |l IH|l IH] using jval_ind'; intros fuel rest HW Hd Hf;
      (destruct fuel as [|f]; [cbn in Hf; lia|]).
    - cbn [jrender W] in *. unfold json_esc at 1. cbn [app]. rewrite jv_value_S. cbv zeta. rewrite jws_stop by reflexivity.
      change (34 =? 34) with true. cbv iota.
      change (34 :: (json_esc_body s ++ [34]) ++ rest) with (json_esc s ++ rest).
      rewrite (rdstr_ok s rest HW). reflexivity.
    - cbn [jrender W] in *. destruct HW as (Hn & Hc & Hne). destruct tok as [|c t]; [contradiction|].
      pose proof Hc as Hc'. cbn [forallb] in Hc'. apply andb_true_iff in Hc'. destruct Hc' as [Hc0 _].
      destruct (numchar_facts c Hc0) as (Hws & H34 & H123 & H91 & H116 & H102 & H110 & _).
      cbn [app]. rewrite jv_value_S. cbv zeta. rewrite jws_stop by exact Hws.
      apply N.eqb_neq in H34, H123, H91. rewrite H34, H123, H91.
      assert (E1 : starts_with true_b (c :: t ++ rest) = false).
      { cbn [true_b starts_with]. apply N.eqb_neq in H116. rewrite (N.eqb_sym 116 c), H116. reflexivity. }
      assert (E2 : starts_with false_b (c :: t ++ rest) = false).
      { cbn [false_b starts_with]. apply N.eqb_neq in H102. rewrite (N.eqb_sym 102 c), H102. reflexivity. }
      assert (E3 : starts_with null_b (c :: t ++ rest) = false).
      { cbn [null_b starts_with]. apply N.eqb_neq in H110. rewrite (N.eqb_sym 110 c), H110. reflexivity. }
      rewrite E1, E2, E3.
      assert (Es : span is_numchar ((c :: t) ++ rest) = (c :: t, rest)).
      { destruct Hd as [->|(c' & r' & -> & Hc')]; [rewrite app_nil_r; apply span_app_nil, Hc|apply span_app; assumption]. }
      cbn [app] in Es. rewrite Es, Hn. reflexivity.
    - cbn [jrender true_b app]. rewrite jv_value_S. cbv zeta. rewrite jws_stop by reflexivity. reflexivity.
    - cbn [jrender false_b app]. rewrite jv_value_S. cbv zeta. rewrite jws_stop by reflexivity. reflexivity.
    - cbn [jrender null_b app]. rewrite jv_value_S. cbv zeta. rewrite jws_stop by reflexivity. reflexivity.
    - rewrite jrender_arr in Hf |- *. rewrite W_arr in HW. cbn [app]. rewrite jv_value_S. cbv zeta. rewrite jws_stop by reflexivity.
      change (91 =? 34) with false. change (91 =? 123) with false. change (91 =? 91) with true. cbv iota.
      rewrite <- app_assoc. cbn [app].
      destruct l as [|x l].
      + cbn [jr_elems app]. rewrite jws_stop by reflexivity. reflexivity.
      + inversion IH as [|? ? Hx Hl]; subst. inversion HW as [|? ? Wx Wl]; subst.
        cbn [jr_elems app]. rewrite <- app_assoc.
        destruct (jrender_head x Wx) as (c & r & Ec & Hws & H93 & _).
        rewrite Ec at 1. cbn [app]. rewrite jws_stop by exact Hws. apply N.eqb_neq in H93. rewrite H93.
        change (c :: r ++ jr_elems l false ++ 93 :: rest) with ((c :: r) ++ jr_elems l false ++ 93 :: rest).
        rewrite <- Ec.
        assert (Hd2 : delim (jr_elems l false ++ 93 :: rest)).
        { destruct l as [|y l']; cbn [jr_elems app]; apply delim_cons; reflexivity. }
        cbn [jr_elems app length] in Hf. rewrite <- !app_assoc in Hf. cbn [app] in Hf.
        rewrite (Hx f _ Wx Hd2) by (rewrite app_length in *; lia).
        rewrite (jv_elems_render l Hl f rest Wl); [reflexivity|].
        rewrite !app_length in *. pose proof (jrender_nonempty x Wx). cbn [length] in *. lia.
    - rewrite jrender_obj in Hf |- *. rewrite W_obj in HW. cbn [app]. rewrite jv_value_S. cbv zeta. rewrite jws_stop by reflexivity.
      change (123 =? 34) with false. change (123 =? 123) with true. cbv iota.
      rewrite <- app_assoc. cbn [app].
      destruct l as [|[k x] l].
      + cbn [jr_members app]. rewrite jws_stop by reflexivity. reflexivity.
      + assert (Eh : jr_members ((k, x) :: l) true ++ 125 :: rest = 34 :: tl (jr_members ((k, x) :: l) true ++ 125 :: rest))
          by reflexivity.
        rewrite Eh. rewrite jws_stop by reflexivity. change (34 =? 125) with false. cbv iota. rewrite <- Eh.
        rewrite (jv_members_render _ IH f rest); [reflexivity|discriminate|exact HW|].
        cbn [length app] in Hf. rewrite <- app_assoc in Hf. cbn [app] in Hf. lia.
  Qed.

  Theorem jv_text_render v : W v -> jv_text rdstr (jrender v) = Some v.
  Proof.
    intro HW. unfold jv_text.
    pose proof (jv_value_render v (S (length (jrender v))) [] HW (or_introl eq_refl)) as H.
    rewrite app_nil_r in H. rewrite H by lia. reflexivity.
  Qed.
End GenParse.
