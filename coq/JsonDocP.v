(* JsonDocP.v -- proofs about JsonDoc: the generic RFC 8259 reader reads the compact rendering of a JSON value back (for
   every string reader that inverts json_print_string on a class of strings: the standard one and the model of
   libyang's lexer), the RFC 7951 value of a forest converts back to the forest, and on canonical forests with every
   node selected the printer's state machine writes exactly the rendering of that value. *)
From LY Require Import Base Utf8 Utf8P XmlText XmlTextP JsonText JsonTextP StdText StdTextP Tree TreeP XmlDoc XmlDocP JsonDoc.
From Coq Require Import ZifyBool ZifyNat ZifyN.
Local Open Scope N_scope.

(* induction on JSON values with hypotheses for the nested lists *)
Section JvalInd.
  Variable P : jval -> Prop.
  Hypothesis Hstr : forall s, P (JVstr s).
  Hypothesis Hnum : forall tok, P (JVnum tok).
  Hypothesis Htrue : P JVtrue.
  Hypothesis Hfalse : P JVfalse.
  Hypothesis Hnull : P JVnull.
  Hypothesis Harr : forall l, Forall P l -> P (JVarr l).
  Hypothesis Hobj : forall l, Forall (fun kx : bytes * jval => P (snd kx)) l -> P (JVobj l).
  Fixpoint jval_ind' (v : jval) : P v :=
    match v with
    | JVstr s => Hstr s
    | JVnum tok => Hnum tok
    | JVtrue => Htrue
    | JVfalse => Hfalse
    | JVnull => Hnull
    | JVarr l =>
        Harr l ((fix go (l : list jval) : Forall P l :=
                   match l with
                   | [] => Forall_nil P
                   | x :: l' => Forall_cons x (jval_ind' x) (go l')
                   end) l)
    | JVobj l =>
        Hobj l ((fix go (l : list (bytes * jval)) : Forall (fun kx : bytes * jval => P (snd kx)) l :=
                   match l with
                   | [] => Forall_nil _
                   | kx :: l' => Forall_cons kx (jval_ind' (snd kx)) (go l')
                   end) l)
    end.
End JvalInd.

(* rendering of arrays and objects as separated lists *)
Fixpoint jr_elems (l : list jval) (first : bool) : bytes :=
  match l with
  | [] => []
  | x :: l' => (if first then [] else [44]) ++ jrender x ++ jr_elems l' false
  end.
Fixpoint jr_members (l : list (bytes * jval)) (first : bool) : bytes :=
  match l with
  | [] => []
  | (k, x) :: l' => (if first then [] else [44]) ++ 34 :: k ++ [34; 58] ++ jrender x ++ jr_members l' false
  end.

Lemma jrender_arr l : jrender (JVarr l) = 91 :: jr_elems l true ++ [93].
Proof.
  cbn [jrender]. apply f_equal. apply (f_equal (fun x => x ++ [93])). generalize true. induction l as [|x l IH]; intro b; [reflexivity|].
  cbn. rewrite IH. reflexivity.
Qed.
Lemma jrender_obj l : jrender (JVobj l) = 123 :: jr_members l true ++ [125].
Proof.
  cbn [jrender]. apply f_equal. apply (f_equal (fun x => x ++ [125])). generalize true. induction l as [|[k x] l IH]; intro b; [reflexivity|].
  cbn. rewrite IH. reflexivity.
Qed.

(* ====================================================================================== *)
(* the generic reader reads the rendering back                                             *)
(* ====================================================================================== *)
Lemma jws_stop c r : is_jws c = false -> jws (c :: r) = c :: r.
Proof. intro H. unfold jws. rewrite (span_stop _ _ _ H). reflexivity. Qed.

Ltac len_lia := repeat (rewrite ?app_length in *; cbn [length app] in * ); lia.

Definition delim (rest : bytes) : Prop := rest = [] \/ exists c r, rest = c :: r /\ is_numchar c = false.

Section GenParse.
  Variable SV : bytes -> Prop.
  Variable rdstr : bytes -> option (bytes * bytes).
  Hypothesis rdstr_ok : forall s rest, SV s -> rdstr (json_esc s ++ rest) = Some (s, rest).


  (* unfolding equations of the mutually recursive reader *)
  Lemma jv_value_S f s0 :
    jv_value rdstr (S f) s0 =
    let s := jws s0 in
    match s with
    | [] => None
    | c :: r =>
        if c =? 34 then match rdstr s with Some (v, r') => Some (JVstr v, r') | None => None end
        else if c =? 123 then
          match jws r with
          | [] => None
          | c2 :: r2 =>
              if c2 =? 125 then Some (JVobj [], r2)
              else match jv_members rdstr f (c2 :: r2) with Some (ms, r') => Some (JVobj ms, r') | None => None end
          end
        else if c =? 91 then
          match jws r with
          | [] => None
          | c2 :: r2 =>
              if c2 =? 93 then Some (JVarr [], r2)
              else match jv_value rdstr f (c2 :: r2) with
                   | Some (v, r3) =>
                       match jv_elems rdstr f r3 with Some (es, r4) => Some (JVarr (v :: es), r4) | None => None end
                   | None => None
                   end
          end
        else if starts_with true_b s then Some (JVtrue, skipn 4 s)
        else if starts_with false_b s then Some (JVfalse, skipn 5 s)
        else if starts_with null_b s then Some (JVnull, skipn 4 s)
        else let '(tok, r') := span is_numchar s in
             if jnumber_ok tok then Some (JVnum tok, r') else None
    end.
  Proof. reflexivity. Qed.

  Lemma jv_members_S f s0 :
    jv_members rdstr (S f) s0 =
    match rdstr (jws s0) with
    | None => None
    | Some (k, r) =>
        match jws r with
        | [] => None
        | c :: r1 =>
            if c =? 58 then
              match jv_value rdstr f r1 with
              | None => None
              | Some (v, r2) =>
                  match jws r2 with
                  | [] => None
                  | c2 :: r3 =>
                      if c2 =? 44 then
                        match jv_members rdstr f r3 with
                        | Some (ms, r4) => Some ((k, v) :: ms, r4)
                        | None => None
                        end
                      else if c2 =? 125 then Some ([(k, v)], r3)
                      else None
                  end
              end
            else None
        end
    end.
  Proof. reflexivity. Qed.

  Lemma jv_elems_S f s0 :
    jv_elems rdstr (S f) s0 =
    match jws s0 with
    | [] => None
    | c :: r =>
        if c =? 44 then
          match jv_value rdstr f r with
          | Some (v, r2) =>
              match jv_elems rdstr f r2 with
              | Some (es, r4) => Some (v :: es, r4)
              | None => None
              end
          | None => None
          end
        else if c =? 93 then Some ([], r)
        else None
    end.
  Proof. reflexivity. Qed.

  (* member names are written as they are: strings that need no escaping *)
  Definition key_ok (k : bytes) : Prop := SV k /\ json_esc k = 34 :: k ++ [34].

  Fixpoint W (v : jval) {struct v} : Prop :=
    match v with
    | JVstr s => SV s
    | JVnum tok => jnumber_ok tok = true /\ forallb is_numchar tok = true /\ tok <> []
    | JVtrue | JVfalse | JVnull => True
    | JVarr l => (fix all (l : list jval) : Prop := match l with [] => True | x :: l' => W x /\ all l' end) l
    | JVobj l =>
        (fix all (l : list (bytes * jval)) : Prop :=
           match l with [] => True | kx :: l' => key_ok (fst kx) /\ W (snd kx) /\ all l' end) l
    end.

  Lemma W_arr l : W (JVarr l) <-> Forall W l.
  Proof.
    cbn [W]. induction l as [|x l IH]; [split; [constructor|trivial]|]. split.
    - intros [H1 H2]. constructor; [assumption|apply IH; assumption].
    - intro H. inversion H; subst. split; [assumption|apply IH; assumption].
  Qed.
  Lemma W_obj l : W (JVobj l) <-> Forall (fun kx : bytes * jval => key_ok (fst kx) /\ W (snd kx)) l.
  Proof.
    cbn [W]. induction l as [|x l IH]; [split; [constructor|trivial]|]. split.
    - intros (H1 & H2 & H3). constructor; [split; assumption|apply IH; assumption].
    - intro H. inversion H as [|? ? [Ha Hb] Hr]; subst. split; [assumption|split; [assumption|apply IH; assumption]].
  Qed.

  Definition head_ok (c : N) : Prop :=
    is_jws c = false /\ c <> 93 /\ c <> 125 /\ c <> 44 /\ c <> 58.

  Lemma numchar_facts c : is_numchar c = true ->
    is_jws c = false /\ c <> 34 /\ c <> 123 /\ c <> 91 /\ c <> 116 /\ c <> 102 /\ c <> 110 /\ c <> 93 /\ c <> 125 /\ c <> 44 /\ c <> 58.
  Proof. unfold is_numchar, is_digit, is_jws. lia. Qed.

  Lemma jrender_head v : W v -> exists c r, jrender v = c :: r /\ head_ok c.
  Proof.
    destruct v as [s|tok| | | |l|l]; intro H.
    - exists 34, (json_esc_body s ++ [34]). split; [reflexivity|]. repeat split; discriminate.
    - cbn [W] in H. destruct H as (_ & Hc & Hne). destruct tok as [|c t]; [contradiction|].
      cbn [forallb] in Hc. apply andb_true_iff in Hc. destruct Hc as [Hc _].
      exists c, t. split; [reflexivity|]. pose proof (numchar_facts c Hc). unfold head_ok. tauto.
    - exists 116, [114; 117; 101]. split; [reflexivity|]. repeat split; discriminate.
    - exists 102, [97; 108; 115; 101]. split; [reflexivity|]. repeat split; discriminate.
    - exists 110, [117; 108; 108]. split; [reflexivity|]. repeat split; discriminate.
    - rewrite jrender_arr. eexists; eexists; split; [reflexivity|]. repeat split; discriminate.
    - rewrite jrender_obj. eexists; eexists; split; [reflexivity|]. repeat split; discriminate.
  Qed.

  Definition Pv (x : jval) : Prop := forall fuel rest,
    W x -> delim rest -> (length (jrender x ++ rest) < fuel)%nat ->
    jv_value rdstr fuel (jrender x ++ rest) = Some (x, rest).

  Lemma delim_cons c r : is_numchar c = false -> delim (c :: r).
  Proof. intro H. right. exists c, r. split; [reflexivity|exact H]. Qed.

  Lemma jrender_nonempty x : W x -> (1 <= length (jrender x))%nat.
  Proof. intro H. destruct (jrender_head x H) as (c & r & -> & _). cbn [length]. lia. Qed.

  Lemma jv_elems_render l : Forall Pv l -> forall fuel rest,
    Forall W l -> (length (jr_elems l false ++ 93%N :: rest) < fuel)%nat ->
    jv_elems rdstr fuel (jr_elems l false ++ 93 :: rest) = Some (l, rest).
  Proof.
    induction 1 as [|x l Hx _ IH]; intros fuel rest HW Hf.
    - destruct fuel as [|f]; [cbn in Hf; lia|]. cbn [jr_elems app]. rewrite jv_elems_S. rewrite jws_stop by reflexivity.
      reflexivity.
    - destruct fuel as [|f]; [cbn in Hf; lia|]. inversion HW as [|? ? Wx Wl]; subst.
      cbn [jr_elems app]. rewrite jv_elems_S. rewrite jws_stop by reflexivity. change (44 =? 44) with true. cbv iota.
      rewrite <- app_assoc.
      assert (Hd : delim (jr_elems l false ++ 93 :: rest)).
      { destruct l as [|y l']; cbn [jr_elems app]; apply delim_cons; reflexivity. }
      cbn [jr_elems app length] in Hf. rewrite <- app_assoc in Hf.
      rewrite (Hx f _ Wx Hd) by lia.
      rewrite (IH f rest Wl).
      + reflexivity.
      + rewrite app_length in Hf. pose proof (jrender_nonempty x Wx). lia.
  Qed.

  Lemma jv_members_render l : Forall (fun kx : bytes * jval => Pv (snd kx)) l -> forall fuel rest,
    l <> [] -> Forall (fun kx : bytes * jval => key_ok (fst kx) /\ W (snd kx)) l ->
    (length (jr_members l true ++ 125%N :: rest) < fuel)%nat ->
    jv_members rdstr fuel (jr_members l true ++ 125 :: rest) = Some (l, rest).
  Proof.
    induction 1 as [|[k x] l Hx _ IH]; intros fuel rest Hne HW Hf; [contradiction|].
    destruct fuel as [|f]; [cbn in Hf; lia|]. inversion HW as [|? ? [[HS Hk] Wx] Wl]; subst. cbn [fst snd] in *.
    cbn [jr_members app]. rewrite jv_members_S. rewrite jws_stop by reflexivity.
    norm_app.
    replace (34 :: k ++ 34 :: 58 :: jrender x ++ jr_members l false ++ 125 :: rest)
      with (json_esc k ++ 58 :: jrender x ++ jr_members l false ++ 125 :: rest)
      by (rewrite Hk; cbn [app]; rewrite <- app_assoc; reflexivity).
    rewrite (rdstr_ok k _ HS). rewrite jws_stop by reflexivity. change (58 =? 58) with true. cbv iota.
    assert (Hd : delim (jr_members l false ++ 125 :: rest)).
    { destruct l as [|[k' y] l']; cbn [jr_members app]; apply delim_cons; reflexivity. }
    cbn [jr_members] in Hf.
    rewrite (Hx f _ Wx Hd) by len_lia.
    destruct l as [|[k' y] l'].
    + cbn [jr_members app]. rewrite jws_stop by reflexivity. reflexivity.
    + remember ((k', y) :: l') as l2. assert (Hl2 : jr_members l2 false = 44 :: jr_members l2 true).
      { subst l2. reflexivity. }
      rewrite Hl2. cbn [app]. rewrite jws_stop by reflexivity. change (44 =? 44) with true. cbv iota.
      rewrite (IH f rest); [reflexivity|subst l2; discriminate|exact Wl|].
      rewrite Hl2 in Hf. len_lia.
  Qed.

  Lemma jv_value_render v : Pv v.
  Proof.
    induction v as [s|tok| | | |l IH|l IH] using jval_ind'; intros fuel rest HW Hd Hf;
      (destruct fuel as [|f]; [cbn in Hf; lia|]).
    - cbn [jrender W] in *. unfold json_esc at 1. cbn [app]. rewrite jv_value_S. cbv zeta. rewrite jws_stop by reflexivity.
      change (34 =? 34) with true. cbv iota.
      change (34 :: (json_esc_body s ++ [34]) ++ rest) with (json_esc s ++ rest).
      rewrite (rdstr_ok s rest HW). reflexivity.
    - cbn [jrender W] in *. destruct HW as (Hn & Hc & Hne). destruct tok as [|c t]; [contradiction|].
      pose proof Hc as Hc'. cbn [forallb] in Hc'. apply andb_true_iff in Hc'. destruct Hc' as [Hc0 _].
      destruct (numchar_facts c Hc0) as (Hws & H34 & H123 & H91 & H116 & H102 & H110 & _).
      cbn [app]. rewrite jv_value_S. cbv zeta. rewrite jws_stop by exact Hws.
      apply N.eqb_neq in H34, H123, H91. rewrite H34, H123, H91.
      assert (E1 : starts_with true_b (c :: t ++ rest) = false).
      { cbn [true_b starts_with]. apply N.eqb_neq in H116. rewrite (N.eqb_sym 116 c), H116. reflexivity. }
      assert (E2 : starts_with false_b (c :: t ++ rest) = false).
      { cbn [false_b starts_with]. apply N.eqb_neq in H102. rewrite (N.eqb_sym 102 c), H102. reflexivity. }
      assert (E3 : starts_with null_b (c :: t ++ rest) = false).
      { cbn [null_b starts_with]. apply N.eqb_neq in H110. rewrite (N.eqb_sym 110 c), H110. reflexivity. }
      rewrite E1, E2, E3.
      assert (Es : span is_numchar ((c :: t) ++ rest) = (c :: t, rest)).
      { destruct Hd as [->|(c' & r' & -> & Hc')]; [rewrite app_nil_r; apply span_app_nil, Hc|apply span_app; assumption]. }
      cbn [app] in Es. rewrite Es, Hn. reflexivity.
    - cbn [jrender true_b app]. rewrite jv_value_S. cbv zeta. rewrite jws_stop by reflexivity. reflexivity.
    - cbn [jrender false_b app]. rewrite jv_value_S. cbv zeta. rewrite jws_stop by reflexivity. reflexivity.
    - cbn [jrender null_b app]. rewrite jv_value_S. cbv zeta. rewrite jws_stop by reflexivity. reflexivity.
    - rewrite jrender_arr in Hf |- *. rewrite W_arr in HW. cbn [app]. rewrite jv_value_S. cbv zeta. rewrite jws_stop by reflexivity.
      change (91 =? 34) with false. change (91 =? 123) with false. change (91 =? 91) with true. cbv iota.
      rewrite <- app_assoc. cbn [app].
      destruct l as [|x l].
      + cbn [jr_elems app]. rewrite jws_stop by reflexivity. reflexivity.
      + inversion IH as [|? ? Hx Hl]; subst. inversion HW as [|? ? Wx Wl]; subst.
        cbn [jr_elems app]. rewrite <- app_assoc.
        destruct (jrender_head x Wx) as (c & r & Ec & Hws & H93 & _).
        rewrite Ec at 1. cbn [app]. rewrite jws_stop by exact Hws. apply N.eqb_neq in H93. rewrite H93.
        change (c :: r ++ jr_elems l false ++ 93 :: rest) with ((c :: r) ++ jr_elems l false ++ 93 :: rest).
        rewrite <- Ec.
        assert (Hd2 : delim (jr_elems l false ++ 93 :: rest)).
        { destruct l as [|y l']; cbn [jr_elems app]; apply delim_cons; reflexivity. }
        cbn [jr_elems app length] in Hf. rewrite <- !app_assoc in Hf. cbn [app] in Hf.
        rewrite (Hx f _ Wx Hd2) by (rewrite app_length in *; lia).
        rewrite (jv_elems_render l Hl f rest Wl); [reflexivity|].
        rewrite !app_length in *. pose proof (jrender_nonempty x Wx). cbn [length] in *. lia.
    - rewrite jrender_obj in Hf |- *. rewrite W_obj in HW. cbn [app]. rewrite jv_value_S. cbv zeta. rewrite jws_stop by reflexivity.
      change (123 =? 34) with false. change (123 =? 123) with true. cbv iota.
      rewrite <- app_assoc. cbn [app].
      destruct l as [|[k x] l].
      + cbn [jr_members app]. rewrite jws_stop by reflexivity. reflexivity.
      + assert (Eh : jr_members ((k, x) :: l) true ++ 125 :: rest = 34 :: tl (jr_members ((k, x) :: l) true ++ 125 :: rest))
          by reflexivity.
        rewrite Eh. rewrite jws_stop by reflexivity. change (34 =? 125) with false. cbv iota. rewrite <- Eh.
        rewrite (jv_members_render _ IH f rest); [reflexivity|discriminate|exact HW|].
        cbn [length app] in Hf. rewrite <- app_assoc in Hf. cbn [app] in Hf. lia.
  Qed.

  Theorem jv_text_render v : W v -> jv_text rdstr (jrender v) = Some v.
  Proof.
    intro HW. unfold jv_text.
    pose proof (jv_value_render v (S (length (jrender v))) [] HW (or_introl eq_refl)) as H.
    rewrite app_nil_r in H. rewrite H by lia. reflexivity.
  Qed.
End GenParse.

(* ====================================================================================== *)
(* the two string readers                                                                  *)
(* ====================================================================================== *)
Definition SV_ly (s : bytes) : Prop := lexable s /\ bytes_ok s = true.

Lemma ly_rdstr_ok s rest : SV_ly s -> ly_rdstr (json_esc s ++ rest) = Some (s, rest).
Proof. intros [H1 H2]. unfold ly_rdstr. rewrite (json_quoted_roundtrip s rest H1 H2). reflexivity. Qed.

(* the standard side: cutting the token at its closing quotation mark *)
Lemma scan_plain f c r acc : c <> 34 -> c <> 92 -> scan_jstring (S f) (c :: r) acc = scan_jstring f r (c :: acc).
Proof. intros H1 H2. cbn [scan_jstring]. apply N.eqb_neq in H1, H2. rewrite H1, H2. reflexivity. Qed.
Lemma scan_esc f e r acc : scan_jstring (S f) (92 :: e :: r) acc = scan_jstring f r (e :: 92 :: acc).
Proof. reflexivity. Qed.

Lemma hexdig_up_plain d : d < 16 -> hexdig_up d <> 34 /\ hexdig_up d <> 92.
Proof. intro H. unfold hexdig_up. destruct (d <? 10) eqn:E; lia. Qed.

Lemma scan_printed s : Forall (fun b => b <> 0) s -> forall fuel rest acc,
  (length (json_esc_body s) < fuel)%nat ->
  scan_jstring fuel (json_esc_body s ++ 34 :: rest) acc = Some (rev acc ++ json_esc_body s, rest).
Proof.
  induction 1 as [|b s Hb _ IH]; intros fuel rest acc Hf.
  - destruct fuel as [|f]; [cbn in Hf; lia|]. cbn [json_esc_body app scan_jstring]. change (34 =? 34) with true. cbv iota.
    rewrite app_nil_r. reflexivity.
  - rewrite json_esc_body_cons in Hf |- * by exact Hb. rewrite json_esc_byte_spec in Hf |- *.
    rewrite app_length in Hf.
    assert (Fin : forall chunk, rev (rev chunk ++ acc) ++ json_esc_body s = rev acc ++ chunk ++ json_esc_body s).
    { intro chunk. rewrite rev_app_distr, rev_involutive, <- app_assoc. reflexivity. }
    destruct (b =? 34) eqn:E34.
    { cbn [app length] in Hf |- *. destruct fuel as [|f]; [lia|]. rewrite scan_esc. rewrite IH by lia.
      cbn [rev app]. rewrite <- ?app_assoc. reflexivity. }
    destruct (b =? 92) eqn:E92.
    { cbn [app length] in Hf |- *. destruct fuel as [|f]; [lia|]. rewrite scan_esc. rewrite IH by lia.
      cbn [rev app]. rewrite <- ?app_assoc. reflexivity. }
    destruct (b =? 13) eqn:E13.
    { cbn [app length] in Hf |- *. destruct fuel as [|f]; [lia|]. rewrite scan_esc. rewrite IH by lia.
      cbn [rev app]. rewrite <- ?app_assoc. reflexivity. }
    destruct (b =? 9) eqn:E9.
    { cbn [app length] in Hf |- *. destruct fuel as [|f]; [lia|]. rewrite scan_esc. rewrite IH by lia.
      cbn [rev app]. rewrite <- ?app_assoc. reflexivity. }
    destruct (is_cntrl b) eqn:Ec.
    { cbn [app length] in Hf |- *.
      destruct fuel as [|f]; [lia|]. rewrite scan_esc.
      pose proof (hexdig_up_plain ((b / 4096) mod 16) ltac:(apply N.mod_upper_bound; discriminate)) as [A1 A2].
      pose proof (hexdig_up_plain ((b / 256) mod 16) ltac:(apply N.mod_upper_bound; discriminate)) as [B1 B2].
      pose proof (hexdig_up_plain ((b / 16) mod 16) ltac:(apply N.mod_upper_bound; discriminate)) as [C1 C2].
      pose proof (hexdig_up_plain (b mod 16) ltac:(apply N.mod_upper_bound; discriminate)) as [D1 D2].
      destruct f as [|f]; [lia|]. rewrite scan_plain by assumption.
      destruct f as [|f]; [lia|]. rewrite scan_plain by assumption.
      destruct f as [|f]; [lia|]. rewrite scan_plain by assumption.
      destruct f as [|f]; [lia|]. rewrite scan_plain by assumption.
      rewrite IH by lia.
      cbn [rev app]. rewrite <- ?app_assoc. reflexivity. }
    cbn [app length] in Hf |- *. destruct fuel as [|f]; [lia|].
    rewrite scan_plain by (apply N.eqb_neq; assumption). rewrite IH by lia. cbn [rev app]. rewrite <- ?app_assoc. reflexivity.
Qed.

Lemma utf8_nonul_nozero s : utf8_nonul s -> Forall (fun b => b <> 0) s.
Proof.
  intros (cps & Hv & ->). induction cps as [|cp cps IH]; [constructor|].
  cbn [forallb] in Hv. apply andb_true_iff in Hv. destruct Hv as [Hc Hr]. cbn [flat_map]. apply Forall_app. split; [|apply IH, Hr].
  unfold valid_cp in Hc. apply andb_true_iff in Hc. destruct Hc as [Hs Hz].
  destruct (N.lt_ge_cases cp 128) as [Hlow|Hhigh].
  - rewrite utf8_encode_ascii by exact Hlow. constructor; [lia|constructor].
  - eapply Forall_impl; [|apply utf8_encode_high, Hhigh]. cbn beta. intros; lia.
Qed.

Lemma std_rdstr_ok s rest : utf8_nonul s -> std_rdstr (json_esc s ++ rest) = Some (s, rest).
Proof.
  intro Hs. unfold std_rdstr, json_esc. cbn [app]. change (34 =? 34) with true. cbv iota.
  rewrite <- app_assoc. cbn [app].
  rewrite (scan_printed s (utf8_nonul_nozero s Hs) _ rest []) by (rewrite app_length; cbn [length]; lia).
  cbn [rev app]. change (34 :: json_esc_body s ++ [34]) with (json_esc s).
  rewrite (json_string_std_proof s Hs). reflexivity.
Qed.

(* ====================================================================================== *)
(* the RFC 7951 value of a forest is well formed for the generic reader                    *)
(* ====================================================================================== *)
Definition jkey_char (c : N) : bool := is_ncname_char c || (c =? 58) || (c =? 64).

Lemma jkey_esc_body k : forallb jkey_char k = true -> json_esc_body k = k.
Proof.
  induction k as [|c k IH]; intro H; [reflexivity|]. cbn [forallb] in H. apply andb_true_iff in H. destruct H as [Hc Hk].
  assert (Hc' : 45 <= c /\ c <= 122 /\ c <> 92).
  { unfold jkey_char, is_ncname_char, is_ncname_start, is_alpha, is_digit in Hc. lia. }
  rewrite json_esc_body_cons by lia. rewrite (IH Hk), json_esc_byte_spec.
  assert (E1 : (c =? 34) = false) by lia. assert (E2 : (c =? 92) = false) by lia.
  assert (E3 : (c =? 13) = false) by lia. assert (E4 : (c =? 9) = false) by lia.
  assert (E5 : is_cntrl c = false) by (unfold is_cntrl; lia).
  rewrite E1, E2, E3, E4, E5. reflexivity.
Qed.

Lemma jkey_esc k : forallb jkey_char k = true -> json_esc k = 34 :: k ++ [34].
Proof. intro H. unfold json_esc. rewrite (jkey_esc_body k H). reflexivity. Qed.

Lemma ncname_jkey nm : ncname_ok nm = true -> forallb jkey_char nm = true.
Proof.
  intro H. destruct (ncname_ok_chars nm H) as [Hc _]. rewrite forallb_forall in *. intros c Hin.
  unfold jkey_char. rewrite (Hc c Hin). reflexivity.
Qed.

Lemma forallb_app {A} (p : A -> bool) a b : forallb p (a ++ b) = forallb p a && forallb p b.
Proof. induction a as [|x a IH]; [reflexivity|]. cbn [app forallb]. rewrite IH, andb_assoc. reflexivity. Qed.

Lemma group_runs_in {A} (l : list (dnode * A)) g x :
  In g (group_runs l) -> In x (snd g) -> In x l /\ d_sid (fst x) = fst g.
Proof.
  revert g. induction l as [|y l IH]; intros g Hg Hx; [contradiction|]. cbn [group_runs] in Hg.
  destruct (group_runs l) as [|[s run] gs] eqn:E.
  - destruct Hg as [<-|[]]. cbn [snd fst] in *. destruct Hx as [<-|[]]. split; [left; reflexivity|reflexivity].
  - destruct (s =? d_sid (fst y)) eqn:Es.
    + apply N.eqb_eq in Es. destruct Hg as [<-|Hg].
      * cbn [snd fst] in *. destruct Hx as [<-|Hx]; [split; [left; reflexivity|symmetry; exact Es]|].
        destruct (IH (s, run) (or_introl eq_refl) Hx) as [H1 H2]. split; [right; exact H1|exact H2].
      * destruct (IH g (or_intror Hg) Hx) as [H1 H2]. split; [right; exact H1|exact H2].
    + destruct Hg as [<-|Hg].
      * cbn [snd fst] in *. destruct Hx as [<-|[]]. split; [left; reflexivity|reflexivity].
      * destruct (IH g Hg Hx) as [H1 H2]. split; [right; exact H1|exact H2].
Qed.

Lemma group_runs_nonempty {A} (l : list (dnode * A)) g : In g (group_runs l) -> snd g <> [].
Proof.
  revert g. induction l as [|y l IH]; intros g Hg; [contradiction|]. cbn [group_runs] in Hg.
  destruct (group_runs l) as [|[s run] gs] eqn:E.
  - destruct Hg as [<-|[]]. discriminate.
  - destruct (s =? d_sid (fst y)).
    + destruct Hg as [<-|Hg]; [discriminate|]. apply IH. right. exact Hg.
    + destruct Hg as [<-|Hg]; [discriminate|]. apply IH. exact Hg.
Qed.

Definition jterm_ok (SV : bytes -> Prop) (k : jkind) (v : bytes) : Prop :=
  match k with
  | JStr => SV v
  | JNum => jnumber_ok v = true /\ forallb is_numchar v = true /\ v <> []
  | JBool => v = true_b \/ v = false_b
  | JEmpty => v = []
  end.

Section JsonData.
  Variable sch : schema.
  Variable t : doctabs.
  Variable jk : list (sid * jkind).
  Variable SV : bytes -> Prop.
  Hypothesis Htabs : tabs_okb sch t = true.
  Hypothesis SV_key : forall k, forallb jkey_char k = true -> SV k.

  Let Hm : mods_okb t = true := Hmods sch t Htabs.
  Let Hn : names_okb sch t = true := Hnames sch t Htabs.

  (* the data hypotheses of the JSON theorems: as XmlDocP.DocN with the values of terms constrained by their JSON class *)
  Fixpoint JDocN (n : dnode) {struct n} : Prop :=
    match n with
    | DN s v d m ch =>
        kind_of sch s <> KAny /\ (if is_term sch s then jterm_ok SV (jkind_of jk s) v else v = []) /\
        Forall (meta_ok t SV) m /\ NoDup (map fst m) /\
        (fix all (l : list dnode) : Prop := match l with [] => True | x :: l' => JDocN x /\ all l' end) ch
    end.

  Lemma JDocN_unfold s v d m ch :
    JDocN (DN s v d m ch) <->
    kind_of sch s <> KAny /\ (if is_term sch s then jterm_ok SV (jkind_of jk s) v else v = []) /\
    Forall (meta_ok t SV) m /\ NoDup (map fst m) /\ Forall JDocN ch.
  Proof.
    cbn [JDocN].
    assert (HF : forall l, (fix all (l : list dnode) : Prop :=
                              match l with [] => True | x :: l' => JDocN x /\ all l' end) l <-> Forall JDocN l).
    { induction l as [|x l IH]; [split; [constructor|trivial]|]. split.
      - intros [H1 H2]. constructor; [assumption|apply IH; assumption].
      - intro H. inversion H; subst. split; [assumption|apply IH; assumption]. }
    rewrite HF. reflexivity.
  Qed.

  Lemma key_ok_chars k : forallb jkey_char k = true -> key_ok SV k.
  Proof. intro H. split; [apply SV_key, H|apply jkey_esc, H]. Qed.

  Lemma W_term k v : jterm_ok SV k v -> W SV (jval_of_term k v).
  Proof.
    destruct k; cbn [jterm_ok jval_of_term].
    - intro H. exact H.
    - intros (H1 & H2 & H3). destruct v; [contradiction|]. cbn [W]. repeat split; assumption.
    - intros [->| ->]; vm_compute; exact I.
    - intros ->. cbn [W]. split; exact I.
  Qed.

  Lemma meta_key_chars kv : meta_ok t SV kv -> forallb jkey_char (fst kv) = true /\ SV (snd kv).
  Proof.
    intros (Hv & m0 & mi & nm & Hin & Hnm & Ek). split; [|exact Hv]. rewrite Ek.
    pose proof (mods_ok_entry _ _ _ Hm Hin) as MF.
    rewrite forallb_app. cbn [forallb]. rewrite (ncname_jkey _ (mf_name _ _ _ MF)), (ncname_jkey _ Hnm). reflexivity.
  Qed.

  Lemma W_meta_obj m : Forall (meta_ok t SV) m -> W SV (jmeta_obj m).
  Proof.
    intro H. unfold jmeta_obj. rewrite W_obj. apply Forall_forall. intros kx Hin. apply in_map_iff in Hin.
    destruct Hin as (kv & <- & Hkv). rewrite Forall_forall in H. destruct (meta_key_chars kv (H kv Hkv)) as [H1 H2].
    cbn [fst snd W]. split; [apply key_ok_chars, H1|exact H2].
  Qed.

  Lemma mname_chars pm s i : lookup sch s = Some i -> forallb jkey_char (mname t pm s) = true.
  Proof.
    intro Hl. pose proof (names_ok_entry _ _ _ _ Hn Hl) as NF. destruct (nf_mod _ _ _ NF) as (mi & Hin & Emi).
    pose proof (mods_ok_entry _ _ _ Hm Hin) as MF.
    unfold mname. rewrite forallb_app, (ncname_jkey _ (nf_name _ _ _ NF)), andb_true_r.
    destruct (match pm with None => true | Some m => negb (m =? node_mod t s) end); [|reflexivity].
    rewrite forallb_app, Emi, (ncname_jkey _ (mf_name _ _ _ MF)). reflexivity.
  Qed.

  Definition ElemOK (x : dnode * jval) : Prop :=
    (exists i, lookup sch (d_sid (fst x)) = Some i) /\ W SV (snd x) /\ Forall (meta_ok t SV) (d_meta (fst x)).

  Lemma assemble_W pm l : Forall ElemOK l ->
    Forall (fun kx : bytes * jval => key_ok SV (fst kx) /\ W SV (snd kx)) (assemble sch t pm l).
  Proof.
    intro HE. unfold assemble. apply Forall_forall. intros kx Hkx. apply in_flat_map in Hkx.
    destruct Hkx as ([s run] & Hg & Hkx).
    assert (Hrun : forall x, In x run -> ElemOK x /\ d_sid (fst x) = s).
    { intros x Hx. destruct (group_runs_in l (s, run) x Hg Hx) as [H1 H2]. rewrite Forall_forall in HE. split; [apply HE, H1|exact H2]. }
    assert (Hkey : forall x, In x run -> key_ok SV (mname t pm s) /\ key_ok SV (64 :: mname t pm s)).
    { intros x Hx. destruct (Hrun x Hx) as [((i & Hl) & _) Es]. rewrite Es in Hl.
      pose proof (mname_chars pm s i Hl) as Hc. split; apply key_ok_chars; [exact Hc|]. cbn [forallb]. rewrite Hc. reflexivity. }
    assert (Wrun : Forall (W SV) (map snd run)).
    { apply Forall_forall. intros v Hv. apply in_map_iff in Hv. destruct Hv as (x & <- & Hx). apply (Hrun x Hx). }
    assert (Wmeta : Forall (W SV) (map (meta_or_null) run)).
    { apply Forall_forall. intros v Hv. apply in_map_iff in Hv. destruct Hv as (x & <- & Hx).
      unfold meta_or_null. destruct (Hrun x Hx) as [(_ & _ & Hmx) _].
      destruct (d_meta (fst x)) eqn:E; [exact I|]. rewrite <- E. apply W_meta_obj. rewrite E. exact Hmx. }
    cbn [group_members] in Hkx.
    destruct (kind_of sch s).
    - apply in_map_iff in Hkx. destruct Hkx as (x & <- & Hx). cbn [fst snd]. split; [apply (Hkey x Hx)|apply (Hrun x Hx)].
    - apply in_flat_map in Hkx. destruct Hkx as (x & Hx & Hkx). destruct (Hrun x Hx) as [(_ & Wx & Hmx) _].
      destruct Hkx as [<-|Hkx]; [cbn [fst snd]; split; [apply (Hkey x Hx)|exact Wx]|].
      destruct (has_meta x); [|contradiction]. destruct Hkx as [<-|[]]. cbn [fst snd].
      split; [apply (Hkey x Hx)|apply W_meta_obj, Hmx].
    - destruct run as [|x0 run']; [exfalso; apply (group_runs_nonempty l _ Hg); reflexivity|].
      destruct Hkx as [<-|Hkx]; [cbn [fst snd]; split; [apply (Hkey x0 (or_introl eq_refl))|rewrite W_arr; exact Wrun]|].
      destruct (existsb has_meta (x0 :: run')); [|contradiction]. destruct Hkx as [<-|[]]. cbn [fst snd].
      split; [apply (Hkey x0 (or_introl eq_refl))|rewrite W_arr; exact Wmeta].
    - destruct run as [|x0 run']; [exfalso; apply (group_runs_nonempty l _ Hg); reflexivity|].
      destruct Hkx as [<-|[]]. cbn [fst snd]. split; [apply (Hkey x0 (or_introl eq_refl))|rewrite W_arr; exact Wrun].
    - apply in_map_iff in Hkx. destruct Hkx as (x & <- & Hx). cbn [fst snd]. split; [apply (Hkey x Hx)|apply (Hrun x Hx)].
  Qed.

  Lemma jnode_val_unfold s v d m ch :
    jnode_val sch t jk (DN s v d m ch) =
    match kind_of sch s with
    | KLeaf | KLeafList => jval_of_term (jkind_of jk s) v
    | KCont _ | KList =>
        JVobj ((match m with [] => [] | _ => [([64], jmeta_obj m)] end) ++
               assemble sch t (Some (node_mod t s)) (map (fun c => (c, jnode_val sch t jk c)) ch))
    | KAny => JVobj []
    end.
  Proof. reflexivity. Qed.

  Lemma Placed_lookup p n : Placed sch p n -> exists i, lookup sch (d_sid n) = Some i /\ si_parent i = p.
  Proof. destruct n as [s v d m ch]. rewrite Placed_unfold. intros ((i & Hl & Hp & _) & _). exists i. split; assumption. Qed.

  Lemma JDocN_meta n : JDocN n -> Forall (meta_ok t SV) (d_meta n).
  Proof. destruct n as [s v d m ch]. rewrite JDocN_unfold. intros (_ & _ & H & _). exact H. Qed.

  Lemma children_ElemOK s ch :
    Forall (fun n => forall p, Placed sch p n -> JDocN n -> W SV (jnode_val sch t jk n)) ch ->
    Forall (Placed sch (Some s)) ch -> Forall JDocN ch ->
    Forall ElemOK (map (fun c => (c, jnode_val sch t jk c)) ch).
  Proof.
    intros IH HP HD. apply Forall_forall. intros x Hx. apply in_map_iff in Hx. destruct Hx as (c & <- & Hc).
    rewrite Forall_forall in IH, HP, HD. unfold ElemOK. cbn [fst snd].
    destruct (Placed_lookup _ _ (HP c Hc)) as (i & Hl & _).
    split; [exists i; exact Hl|]. split; [apply (IH c Hc (Some s)); auto|apply JDocN_meta; auto].
  Qed.

  Lemma W_node n : forall p, Placed sch p n -> JDocN n -> W SV (jnode_val sch t jk n).
  Proof.
    induction n as [s v d m ch IH] using dnode_ind'. intros p HP HD.
    rewrite Placed_unfold in HP. destruct HP as ((i & Hl & Hpar & Hterm) & HPch).
    rewrite JDocN_unfold in HD. destruct HD as (Hany & Hval & Hmeta & Hnd & HDch).
    rewrite jnode_val_unfold.
    assert (Inner : W SV (JVobj ((match m with [] => [] | _ => [([64], jmeta_obj m)] end) ++
               assemble sch t (Some (node_mod t s)) (map (fun c => (c, jnode_val sch t jk c)) ch)))).
    { rewrite W_obj. apply Forall_app. split.
      - destruct m as [|kv m']; [constructor|]. constructor; [|constructor]. cbn [fst snd].
        split; [apply key_ok_chars; reflexivity|apply W_meta_obj, Hmeta].
      - apply assemble_W. apply (children_ElemOK s ch IH HPch HDch). }
    unfold is_term, kind_of, sget in *. rewrite Hl in *.
    destruct (si_kind i); cbn [is_term_kind] in Hval; try exact Inner; try (apply W_term; exact Hval).
    exfalso. apply Hany. reflexivity.
  Qed.

  Lemma W_tree f : Forall (Placed sch None) f -> Forall JDocN f -> W SV (json_tree sch t jk f).
  Proof.
    intros HP HD. unfold json_tree. rewrite W_obj. apply assemble_W.
    apply Forall_forall. intros x Hx. apply in_map_iff in Hx. destruct Hx as (c & <- & Hc).
    rewrite Forall_forall in HP, HD. unfold ElemOK. cbn [fst snd].
    destruct (Placed_lookup _ _ (HP c Hc)) as (i & Hl & _).
    split; [exists i; exact Hl|]. split; [apply (W_node c None); auto|apply JDocN_meta; auto].
  Qed.

  (* the generic reader, with any string reader that inverts json_print_string on the class SV, reads the rendering of
     the RFC 7951 value of a forest back as that value *)
  Theorem jv_text_doc rdstr f :
    (forall s rest, SV s -> rdstr (json_esc s ++ rest) = Some (s, rest)) ->
    Forall (Placed sch None) f -> Forall JDocN f ->
    jv_text rdstr (json_doc sch t jk f) = Some (json_tree sch t jk f).
  Proof. intros Hr HP HD. unfold json_doc. apply (jv_text_render SV rdstr Hr), W_tree; assumption. Qed.
End JsonData.

(* ====================================================================================== *)
(* the schema-directed conversion of the RFC 7951 value gives the forest back              *)
(* ====================================================================================== *)
Section ConvUnfold.
  Variable sch : schema.
  Variable t : doctabs.
  Variable jk : list (sid * jkind).
  (* the recursive calls of conv_obj as a parameter, so that its member loop can be named *)
  Variable rec : option sid -> option N -> jval -> option (list (bytes * bytes) * forest).

  Fixpoint conv_each (sd : sid) (md : option N) (os : list jval) : option forest :=
    match os with
    | [] => Some []
    | o :: os' =>
        match rec (Some sd) md o, conv_each sd md os' with
        | Some (mm, ch), Some f => Some (DN sd [] false mm ch :: f)
        | _, _ => None
        end
    end.

  Fixpoint conv_go (p : option sid) (pm : option N) (l : list (bytes * jval)) {struct l} : option forest :=
    match l with
    | [] => Some []
    | (k, x) :: r =>
        match resolve_member sch t p pm k with
        | None => None
        | Some sd =>
            let md := Some (node_mod t sd) in
            match kind_of sch sd with
            | KLeaf =>
                match term_of_jval (jkind_of jk sd) x with
                | None => None
                | Some tv =>
                    match r with
                    | (k2, x2) :: r' =>
                        if beq_bytes k2 (64 :: k) then
                          match metas_of_jval x2, conv_go p pm r' with
                          | Some mm, Some f => Some (DN sd tv false mm [] :: f)
                          | _, _ => None
                          end
                        else match conv_go p pm r with Some f => Some (DN sd tv false [] [] :: f) | None => None end
                    | [] => Some [DN sd tv false [] []]
                    end
                end
            | KCont _ =>
                match rec (Some sd) md x, conv_go p pm r with
                | Some (mm, ch), Some f => Some (DN sd [] false mm ch :: f)
                | _, _ => None
                end
            | KList =>
                match x with
                | JVarr objs =>
                    match conv_each sd md objs, conv_go p pm r with
                    | Some a, Some f => Some (a ++ f)
                    | _, _ => None
                    end
                | _ => None
                end
            | KLeafList =>
                match x with
                | JVarr vals =>
                    match r with
                    | (k2, JVarr ms) :: r' =>
                        if beq_bytes k2 (64 :: k) then
                          match zip_leaflist jk sd vals ms, conv_go p pm r' with
                          | Some a, Some f => Some (a ++ f)
                          | _, _ => None
                          end
                        else match zip_leaflist jk sd vals [], conv_go p pm r with
                             | Some a, Some f => Some (a ++ f)
                             | _, _ => None
                             end
                    | _ => match zip_leaflist jk sd vals [], conv_go p pm r with
                           | Some a, Some f => Some (a ++ f)
                           | _, _ => None
                           end
                    end
                | _ => None
                end
            | KAny => None
            end
        end
    end.
End ConvUnfold.

Lemma conv_obj_unfold sch t jk p pm l0 :
  conv_obj sch t jk p pm (JVobj l0) =
  match l0 with
  | (k, x) :: r =>
      if beq_bytes k [64] then
        match metas_of_jval x, conv_go sch t jk (conv_obj sch t jk) p pm r with
        | Some mm, Some f => Some (mm, f)
        | _, _ => None
        end
      else match conv_go sch t jk (conv_obj sch t jk) p pm l0 with Some f => Some ([], f) | None => None end
  | [] => Some ([], [])
  end.
Proof.
  cbn [conv_obj].
  match goal with |- context[(fix go (l : list (bytes * jval)) {struct l} : option forest := _)] =>
    set (go := (fix go (l : list (bytes * jval)) {struct l} : option forest := _)) end.
  assert (E : forall n l, (length l <= n)%nat -> go l = conv_go sch t jk (conv_obj sch t jk) p pm l).
  { induction n as [|n IH]; intros l Hl.
    - destruct l; [reflexivity|cbn in Hl; lia].
    - destruct l as [|[k x] r]; [reflexivity|].
      unfold go at 1. cbn fix beta iota. fold go. cbn [conv_go]. cbn [length] in Hl.
      destruct (resolve_member sch t p pm k) as [sd|]; [|reflexivity]. cbv zeta.
      assert (Er : go r = conv_go sch t jk (conv_obj sch t jk) p pm r) by (apply IH; lia).
      destruct (kind_of sch sd).
      + rewrite Er. reflexivity.
      + destruct (term_of_jval (jkind_of jk sd) x); [|reflexivity].
        destruct r as [|[k2 x2] r']; [reflexivity|].
        destruct (beq_bytes k2 (64 :: k)); [|rewrite Er; reflexivity].
        rewrite (IH r') by (cbn [length] in Hl; lia). reflexivity.
      + destruct x; try reflexivity.
        destruct r as [|[k2 x2] r']; [rewrite Er; reflexivity|].
        destruct x2; try (rewrite Er; reflexivity).
        destruct (beq_bytes k2 (64 :: k)); [|rewrite Er; reflexivity].
        rewrite (IH r') by (cbn [length] in Hl; lia). reflexivity.
      + destruct x; try reflexivity. rewrite Er.
        match goal with |- context[(fix each (os : list jval) {struct os} : option forest := _)] =>
          set (each := (fix each (os : list jval) {struct os} : option forest := _)) end.
        assert (Ee : forall os, each os = conv_each (conv_obj sch t jk) sd (Some (node_mod t sd)) os).
        { induction os as [|o os IHo]; [reflexivity|]. unfold each at 1. cbn fix beta iota. fold each. cbn [conv_each].
          rewrite IHo. reflexivity. }
        rewrite Ee. reflexivity.
      + reflexivity. }
  destruct l0 as [|[k x] r]; [reflexivity|].
  rewrite (E _ r (Nat.le_refl _)), (E _ ((k, x) :: r) (Nat.le_refl _)). reflexivity.
Qed.

Lemma has_colon_app a b : has_colon (a ++ 58 :: b) = true.
Proof. induction a as [|x a IH]; cbn [app has_colon]; [reflexivity|]. rewrite IH. apply orb_true_r. Qed.

Lemma has_colon_ncname nm : ncname_ok nm = true -> has_colon nm = false.
Proof.
  intro H. destruct (ncname_ok_chars nm H) as [Hc _]. clear H. induction nm as [|c r IH]; [reflexivity|].
  cbn [forallb] in Hc. apply andb_true_iff in Hc. destruct Hc as [H1 H2]. cbn [has_colon]. rewrite (IH H2), orb_false_r.
  destruct (c =? 58) eqn:E; [apply N.eqb_eq in E; subst c; discriminate H1|reflexivity].
Qed.

Lemma mod_id_by_name_rel l nm :
  match mod_id_by_name l nm, mod_by_name l nm with
  | Some m', Some mi' => In (m', mi') l
  | None, None => True
  | _, _ => False
  end.
Proof.
  induction l as [|[a x] r IH]; cbn [mod_id_by_name mod_by_name]; [exact I|].
  destruct (beq_bytes (mi_name x) nm); [left; reflexivity|].
  destruct (mod_id_by_name r nm), (mod_by_name r nm); try exact IH. right. exact IH.
Qed.

Lemma mod_id_by_name_ok t m mi : mods_okb t = true -> In (m, mi) (dt_mods t) -> mod_id_by_name (dt_mods t) (mi_name mi) = Some m.
Proof.
  intros Hm Hin. pose proof (mods_ok_entry _ _ _ Hm Hin) as MF.
  pose proof (mod_id_by_name_rel (dt_mods t) (mi_name mi)) as R. rewrite (mf_byname _ _ _ MF) in R.
  destruct (mod_id_by_name (dt_mods t) (mi_name mi)) as [m'|]; [|contradiction].
  pose proof (mf_byns _ _ _ (mods_ok_entry _ _ _ Hm R)) as B. rewrite (mf_byns _ _ _ MF) in B. inversion B. reflexivity.
Qed.

Lemma metas_of_jobj_meta m : metas_of_jobj (map (fun kv : bytes * bytes => (fst kv, JVstr (snd kv))) m) = Some m.
Proof. induction m as [|[k v] m IH]; [reflexivity|]. cbn [map metas_of_jobj fst snd]. rewrite IH. reflexivity. Qed.

Lemma metas_of_jval_obj m : metas_of_jval (jmeta_obj m) = Some m.
Proof. apply metas_of_jobj_meta. Qed.

Lemma term_of_jval_term SV k v : jterm_ok SV k v -> term_of_jval k (jval_of_term k v) = Some v.
Proof.
  destruct k; cbn [jterm_ok jval_of_term term_of_jval].
  - reflexivity.
  - intros (_ & _ & Hne). destruct v; [contradiction|reflexivity].
  - intros [->| ->]; reflexivity.
  - intros ->. reflexivity.
Qed.

Fixpoint ungroup {A} (G : list (sid * list (dnode * A))) : list (dnode * A) :=
  match G with [] => [] | g :: G' => snd g ++ ungroup G' end.

Lemma ungroup_group_runs {A} (l : list (dnode * A)) : ungroup (group_runs l) = l.
Proof.
  induction l as [|x l IH]; [reflexivity|]. cbn [group_runs].
  destruct (group_runs l) as [|[s run] gs] eqn:E; [cbn in IH |- *; rewrite <- IH; reflexivity|].
  destruct (s =? d_sid (fst x)); cbn [ungroup snd app] in *; rewrite <- IH; reflexivity.
Qed.

Lemma clear_term s v d m : clear_dflt_node (DN s v d m []) = DN s v false m [].
Proof. reflexivity. Qed.

Section Conv.
  Variable sch : schema.
  Variable t : doctabs.
  Variable jk : list (sid * jkind).
  Variable SV : bytes -> Prop.
  Hypothesis Htabs : tabs_okb sch t = true.

  Let Hm : mods_okb t = true := Hmods sch t Htabs.
  Let Hn : names_okb sch t = true := Hnames sch t Htabs.

  Notation JD := (JDocN sch t jk SV).
  Notation jval_of := (jnode_val sch t jk).
  Notation cgo := (conv_go sch t jk (conv_obj sch t jk)).

  Lemma resolve_mname p pm s i :
    lookup sch s = Some i -> si_parent i = p -> resolve_member sch t p pm (mname t pm s) = Some s.
  Proof.
    intros Hl Hp. pose proof (names_ok_entry _ _ _ _ Hn Hl) as NF. destruct (nf_mod _ _ _ NF) as (mi & Hin & Emi).
    pose proof (mods_ok_entry _ _ _ Hm Hin) as MF.
    pose proof (nf_sid _ _ _ NF) as Hsid. unfold sget in Hsid at 1. rewrite Hl, Hp in Hsid.
    unfold resolve_member, mname.
    destruct (match pm with None => true | Some m => negb (m =? node_mod t s) end) eqn:Eq.
    - rewrite Emi. rewrite <- app_assoc. cbn [app]. rewrite has_colon_app.
      rewrite (split_colon_app _ _ (proj1 (ncname_ok_chars _ (mf_name _ _ _ MF)))).
      rewrite (mod_id_by_name_ok t _ _ Hm Hin). exact Hsid.
    - cbn [app]. rewrite (has_colon_ncname _ (nf_name _ _ _ NF)).
      destruct pm as [m|]; [|discriminate Eq]. apply negb_false_iff, N.eqb_eq in Eq. subst m. exact Hsid.
  Qed.

  Definition key_head_ok (k : bytes) : Prop := exists c r, k = c :: r /\ c <> 64.
  Definition tail_ok (tail : list (bytes * jval)) : Prop :=
    match tail with (k2, _) :: _ => key_head_ok k2 | [] => True end.

  Lemma mname_head pm s i : lookup sch s = Some i -> key_head_ok (mname t pm s).
  Proof.
    intro Hl. pose proof (names_ok_entry _ _ _ _ Hn Hl) as NF. destruct (nf_mod _ _ _ NF) as (mi & Hin & Emi).
    pose proof (mods_ok_entry _ _ _ Hm Hin) as MF. unfold mname.
    assert (Hh : forall nm r, ncname_ok nm = true -> key_head_ok (nm ++ r)).
    { intros nm r H. destruct (ncname_first nm H) as (c & r' & -> & Hc). exists c, (r' ++ r). split; [reflexivity|].
      unfold is_ncname_start, is_alpha in Hc. lia. }
    destruct (match pm with None => true | Some m => negb (m =? node_mod t s) end).
    - rewrite Emi, <- app_assoc. apply Hh, (mf_name _ _ _ MF).
    - cbn [app]. rewrite <- (app_nil_r (node_name t s)). apply Hh, (nf_name _ _ _ NF).
  Qed.

  Lemma beq_key_head k2 nm : key_head_ok k2 -> beq_bytes k2 (64 :: nm) = false.
  Proof.
    intros (c & r & -> & Hc). cbn [beq_bytes]. apply N.eqb_neq in Hc. rewrite Hc. reflexivity.
  Qed.

  (* what the conversion needs to know of a sibling and the value it contributes *)
  Definition Good (p : option sid) (x : dnode * jval) : Prop :=
    Placed sch p (fst x) /\ JD (fst x) /\ snd x = jval_of (fst x) /\
    (is_term sch (d_sid (fst x)) = false ->
     conv_obj sch t jk (Some (d_sid (fst x))) (Some (node_mod t (d_sid (fst x)))) (snd x) =
       Some (d_meta (fst x), clear_dflt (d_ch (fst x)))).

  Definition clearl (run : list (dnode * jval)) : forest := map clear_dflt_node (map fst run).

  Lemma Good_facts p x : Good p x ->
    exists s v d m ch i, fst x = DN s v d m ch /\ lookup sch s = Some i /\ si_parent i = p /\
      (is_term_kind (si_kind i) = true -> ch = []) /\ kind_of sch s = si_kind i /\
      (if is_term_kind (si_kind i) then jterm_ok SV (jkind_of jk s) v else v = []) /\ si_kind i <> KAny.
  Proof.
    intros (HP & HD & _ & _). destruct (fst x) as [s v d m ch]. rewrite Placed_unfold in HP.
    destruct HP as ((i & Hl & Hp & Ht) & _). rewrite JDocN_unfold in HD. destruct HD as (Hany & Hval & _).
    exists s, v, d, m, ch, i. unfold is_term, kind_of, sget in *. rewrite Hl in *. repeat split; assumption.
  Qed.

  (* leaf-list: the values zipped with the metadata entries (or with none) *)
  Lemma zip_run p sd run :
    Forall (fun x => Good p x /\ d_sid (fst x) = sd) run -> kind_of sch sd = KLeafList ->
    zip_leaflist jk sd (map snd run) (map meta_or_null run) = Some (clearl run) /\
    (existsb has_meta run = false -> zip_leaflist jk sd (map snd run) [] = Some (clearl run)).
  Proof.
    intros Hall Hk. induction Hall as [|x run [Hx Hs] _ IH]; [split; reflexivity|].
    destruct (Good_facts p x Hx) as (s & v & d & m & ch & i & Ex & Hl & Hp & Hterm & Ekind & Hval & Hany).
    destruct Hx as (_ & _ & Ev & _). rewrite Ex in Hs, Ev. cbn [d_sid] in Hs. subst s.
    rewrite Hk in Ekind. rewrite <- Ekind in *. cbn [is_term_kind] in *. specialize (Hterm eq_refl). subst ch.
    rewrite jnode_val_unfold, Hk in Ev.
    destruct IH as [IH1 IH2]. unfold clearl in *. cbn [map]. rewrite Ex. cbn [zip_leaflist tl].
    rewrite Ev, (term_of_jval_term SV _ _ Hval). split.
    - unfold meta_or_null at 1. rewrite Ex. cbn [fst d_meta].
      assert (Em : metas_of_jval (match m with [] => JVnull | p0 :: l => jmeta_obj (p0 :: l) end) = Some m)
        by (destruct m; [reflexivity|apply metas_of_jval_obj]).
      rewrite Em, IH1. reflexivity.
    - cbn [existsb]. intro He. apply orb_false_iff in He. destruct He as [He1 He2].
      unfold has_meta in He1. rewrite Ex in He1. cbn [fst d_meta] in He1. destruct m; [|discriminate He1].
      rewrite (IH2 He2). reflexivity.
  Qed.

  (* one run of siblings *)
  Lemma conv_group p pm s run tail :
    run <> [] -> Forall (fun x => Good p x /\ d_sid (fst x) = s) run -> tail_ok tail ->
    cgo p pm (group_members sch t pm (s, run) ++ tail) =
      match cgo p pm tail with Some f => Some (clearl run ++ f) | None => None end.
  Proof.
    intros Hne Hall Htail.
    destruct run as [|x0 run0]; [contradiction|].
    pose proof (Forall_inv Hall) as [Hx0 Hs0].
    destruct (Good_facts p x0 Hx0) as (s0 & v0 & d0 & m0 & ch0 & i & Ex0 & Hl & Hp & _ & Ekind & _ & Hany).
    rewrite Ex0 in Hs0. cbn [d_sid] in Hs0. subst s0.
    pose proof (resolve_mname p pm s i Hl Hp) as Hres.
    pose proof (mname_head pm s i Hl) as Hhead.
    set (nm := mname t pm s) in *.
    cbn [group_members]. fold nm. rewrite Ekind.
    destruct (si_kind i) eqn:Ek; [| | | |exfalso; apply Hany; reflexivity].
    - (* containers, one member each *)
      clear Hne Ex0 Hx0. induction Hall as [|x run [Hx Hs] _ IH]; [cbn [map app clearl]; destruct (cgo p pm tail); reflexivity|].
      destruct (Good_facts p x Hx) as (s1 & v & d & m & ch & i1 & Ex & Hl1 & _ & _ & Ekind1 & Hval & _).
      rewrite Ex in Hs. cbn [d_sid] in Hs. subst s1. rewrite Hl in Hl1. inversion Hl1; subst i1. rewrite Ek in Hval. cbn [is_term_kind] in Hval. subst v.
      destruct Hx as (_ & _ & _ & Hconv). rewrite Ex in Hconv. cbn [fst d_sid d_meta d_ch] in Hconv.
      assert (Hnt : is_term sch s = false) by (unfold is_term; rewrite Ekind; reflexivity).
      cbn [map app]. cbn [conv_go]. rewrite Hres. cbv zeta. rewrite Ekind. rewrite (Hconv Hnt), IH.
      unfold clearl. cbn [map]. rewrite Ex. destruct (cgo p pm tail); reflexivity.
    - (* leaves: the value member, then the metadata member when there is metadata *)
      clear Hne Ex0 Hx0. induction Hall as [|x run [Hx Hs] _ IH]; [cbn [flat_map app clearl map]; destruct (cgo p pm tail); reflexivity|].
      destruct (Good_facts p x Hx) as (s1 & v & d & m & ch & i1 & Ex & Hl1 & _ & Hterm & Ekind1 & Hval & _).
      rewrite Ex in Hs. cbn [d_sid] in Hs. subst s1. rewrite Hl in Hl1. inversion Hl1; subst i1. rewrite Ek in Hval, Hterm. cbn [is_term_kind] in Hval, Hterm.
      specialize (Hterm eq_refl). subst ch.
      destruct Hx as (_ & _ & Ev & _). rewrite Ex in Ev. rewrite jnode_val_unfold, Ekind in Ev.
      assert (Hhm : has_meta x = negb (isnil m)) by (unfold has_meta; rewrite Ex; reflexivity).
      assert (Hdm : d_meta (fst x) = m) by (rewrite Ex; reflexivity).
      cbn [flat_map]. rewrite Hhm, Hdm. rewrite <- app_assoc. cbn [app]. cbn [conv_go]. rewrite Hres. cbv zeta. rewrite Ekind.
      rewrite Ev, (term_of_jval_term SV _ _ Hval).
      assert (Hc : clearl (x :: run) = DN s v false m [] :: clearl run) by (unfold clearl; cbn [map]; rewrite Ex; reflexivity).
      rewrite Hc. clear Hc.
      set (rest := flat_map (fun x1 : dnode * jval =>
                     (nm, snd x1) :: (if has_meta x1 then [(64 :: nm, jmeta_obj (d_meta (fst x1)))] else [])) run ++ tail) in *.
      assert (Hrest : tail_ok rest).
      { subst rest. destruct run as [|y run']; [exact Htail|]. cbn [flat_map app tail_ok]. exact Hhead. }
      destruct m as [|kv m'].
      + cbn [isnil negb app].
        destruct rest as [|[k2 x2] r'] eqn:Er.
        * cbn [conv_go] in IH. destruct (cgo p pm tail); inversion IH. cbn [app]. destruct (clearl run); [reflexivity|discriminate].
        * cbn [tail_ok] in Hrest. rewrite (beq_key_head k2 nm Hrest). rewrite IH.
          destruct (cgo p pm tail); reflexivity.
      + cbn [isnil negb app]. rewrite beq_bytes_true, metas_of_jval_obj, IH.
        destruct (cgo p pm tail); reflexivity.
    - (* leaf-list: the array, then the metadata array when an instance has metadata *)
      destruct (zip_run p s (x0 :: run0) Hall Ekind) as [Z1 Z2].
      cbn [app conv_go]. rewrite Hres. cbv zeta. rewrite Ekind.
      destruct (existsb has_meta (x0 :: run0)) eqn:Em.
      + cbn [app]. rewrite beq_bytes_true, Z1. destruct (cgo p pm tail); reflexivity.
      + cbn [app]. rewrite (Z2 eq_refl).
        destruct tail as [|[k2 x2] r']; [reflexivity|]. cbn [tail_ok] in Htail.
        destruct x2; try reflexivity. rewrite (beq_key_head k2 nm Htail). reflexivity.
    - (* list: one array of objects *)
      cbn [app conv_go]. rewrite Hres. cbv zeta. rewrite Ekind.
      assert (He : conv_each (conv_obj sch t jk) s (Some (node_mod t s)) (map snd (x0 :: run0)) = Some (clearl (x0 :: run0))).
      { clear Hne Ex0 Hx0. induction Hall as [|x run [Hx Hs] _ IH]; [reflexivity|].
        destruct (Good_facts p x Hx) as (s1 & v & d & m & ch & i1 & Ex & Hl1 & _ & _ & Ekind1 & Hval & _).
        rewrite Ex in Hs. cbn [d_sid] in Hs. subst s1. rewrite Hl in Hl1. inversion Hl1; subst i1. rewrite Ek in Hval. cbn [is_term_kind] in Hval. subst v.
        destruct Hx as (_ & _ & _ & Hconv). rewrite Ex in Hconv. cbn [fst d_sid d_meta d_ch] in Hconv.
        assert (Hnt : is_term sch s = false) by (unfold is_term; rewrite Ekind; reflexivity).
        cbn [map conv_each]. rewrite (Hconv Hnt), IH. unfold clearl. cbn [map]. rewrite Ex. reflexivity. }
      rewrite He. destruct (cgo p pm tail); reflexivity.
  Qed.

  Lemma clearl_app a b : clearl (a ++ b) = clearl a ++ clearl b.
  Proof. unfold clearl. rewrite !map_app. reflexivity. Qed.

  Definition GroupOK (p : option sid) (g : sid * list (dnode * jval)) : Prop :=
    snd g <> [] /\ Forall (fun x => Good p x /\ d_sid (fst x) = fst g) (snd g).

  Lemma groups_tail_ok p pm G : Forall (GroupOK p) G -> tail_ok (flat_map (group_members sch t pm) G).
  Proof.
    intro H. destruct G as [|[s run] G']; [exact I|]. inversion H as [|? ? [Hne Hall] _]; subst. cbn [fst snd] in *.
    destruct run as [|x0 run0]; [contradiction|]. pose proof (Forall_inv Hall) as [Hx0 Hs0].
    destruct (Good_facts p x0 Hx0) as (s0 & v0 & d0 & m0 & ch0 & i & Ex0 & Hl & _ & _ & Ekind & _ & Hany).
    rewrite Ex0 in Hs0. cbn [d_sid] in Hs0. subst s0. pose proof (mname_head pm s i Hl) as Hh.
    cbn [flat_map group_members]. rewrite Ekind.
    destruct (si_kind i); cbn [map flat_map app tail_ok]; try exact Hh.
  Qed.

  Lemma conv_groups p pm G :
    Forall (GroupOK p) G -> cgo p pm (flat_map (group_members sch t pm) G) = Some (clearl (ungroup G)).
  Proof.
    induction 1 as [|[s run] G' [Hne Hall] HG IH]; [reflexivity|]. cbn [fst snd] in *.
    cbn [flat_map ungroup snd]. rewrite (conv_group p pm s run _ Hne Hall (groups_tail_ok p pm G' HG)).
    rewrite IH, clearl_app. reflexivity.
  Qed.

  Lemma assemble_conv p pm l : Forall (Good p) l -> cgo p pm (assemble sch t pm l) = Some (clearl l).
  Proof.
    intro H. unfold assemble. rewrite conv_groups; [rewrite ungroup_group_runs; reflexivity|].
    apply Forall_forall. intros g Hg. split; [apply (group_runs_nonempty l g Hg)|].
    apply Forall_forall. intros x Hx. destruct (group_runs_in l g x Hg Hx) as [H1 H2]. rewrite Forall_forall in H. split; [apply H, H1|exact H2].
  Qed.

  Lemma clearl_pairs ch : clearl (map (fun c => (c, jval_of c)) ch) = clear_dflt ch.
  Proof. unfold clearl, clear_dflt. rewrite !map_map. cbn [fst]. reflexivity. Qed.

  Lemma conv_node n : forall p,
    Placed sch p n -> JD n -> is_term sch (d_sid n) = false ->
    conv_obj sch t jk (Some (d_sid n)) (Some (node_mod t (d_sid n))) (jval_of n) = Some (d_meta n, clear_dflt (d_ch n)).
  Proof.
    induction n as [s v d m ch IH] using dnode_ind'. intros p HP HD Hnt.
    pose proof HP as HP0. pose proof HD as HD0.
    rewrite Placed_unfold in HP. destruct HP as ((i & Hl & Hpar & Hterm) & HPch).
    rewrite JDocN_unfold in HD. destruct HD as (Hany & Hval & Hmeta & Hnd & HDch).
    cbn [d_sid d_meta d_ch] in *.
    assert (HG : Forall (Good (Some s)) (map (fun c => (c, jval_of c)) ch)).
    { apply Forall_forall. intros x Hx. apply in_map_iff in Hx. destruct Hx as (c & <- & Hc).
      rewrite Forall_forall in IH, HPch, HDch. unfold Good. cbn [fst snd].
      split; [apply HPch, Hc|]. split; [apply HDch, Hc|]. split; [reflexivity|].
      intro Hc'. apply (IH c Hc (Some s)); auto. }
    pose proof (assemble_conv (Some s) (Some (node_mod t s)) _ HG) as Hconv. rewrite clearl_pairs in Hconv.
    rewrite jnode_val_unfold.
    unfold is_term, kind_of, sget in *. rewrite Hl in *.
    assert (Main : conv_obj sch t jk (Some s) (Some (node_mod t s))
              (JVobj ((match m with [] => [] | _ => [([64], jmeta_obj m)] end) ++
                      assemble sch t (Some (node_mod t s)) (map (fun c => (c, jval_of c)) ch))) = Some (m, clear_dflt ch)).
    { rewrite conv_obj_unfold. destruct m as [|kv m'].
      - cbn [app].
        destruct (assemble sch t (Some (node_mod t s)) (map (fun c => (c, jval_of c)) ch)) as [|[k x] r] eqn:Ea.
        + cbn [conv_go] in Hconv. inversion Hconv. reflexivity.
        + assert (Hk : key_head_ok k).
          { pose proof (groups_tail_ok (Some s) (Some (node_mod t s)) (group_runs (map (fun c => (c, jval_of c)) ch))) as Ht.
            unfold assemble in Ea. rewrite Ea in Ht. apply Ht.
            apply Forall_forall. intros g Hg. split; [apply (group_runs_nonempty _ g Hg)|].
            apply Forall_forall. intros y Hy. destruct (group_runs_in _ g y Hg Hy) as [H1 H2]. rewrite Forall_forall in HG. split; [apply HG, H1|exact H2]. }
          destruct Hk as (c & r' & -> & Hc). cbn [beq_bytes]. apply N.eqb_neq in Hc. rewrite Hc. cbn [andb].
          rewrite Hconv. reflexivity.
      - cbn [app]. rewrite beq_bytes_true, metas_of_jval_obj, Hconv. reflexivity. }
    destruct (si_kind i); cbn [is_term_kind] in Hnt; try discriminate Hnt; try exact Main.
  Qed.

  Theorem conv_tree f :
    Forall (Placed sch None) f -> Forall JD f -> conv_obj sch t jk None None (json_tree sch t jk f) = Some ([], clear_dflt f).
  Proof.
    intros HP HD. unfold json_tree.
    assert (HG : Forall (Good None) (map (fun c => (c, jval_of c)) f)).
    { apply Forall_forall. intros x Hx. apply in_map_iff in Hx. destruct Hx as (c & <- & Hc).
      rewrite Forall_forall in HP, HD. unfold Good. cbn [fst snd].
      split; [apply HP, Hc|]. split; [apply HD, Hc|]. split; [reflexivity|].
      intro Hc'. apply (conv_node c None); auto. }
    pose proof (assemble_conv None None _ HG) as Hconv. rewrite clearl_pairs in Hconv.
    rewrite conv_obj_unfold.
    destruct (assemble sch t None (map (fun c => (c, jval_of c)) f)) as [|[k x] r] eqn:Ea.
    - cbn [conv_go] in Hconv. inversion Hconv. reflexivity.
    - assert (Hk : key_head_ok k).
      { pose proof (groups_tail_ok None None (group_runs (map (fun c => (c, jval_of c)) f))) as Ht.
        unfold assemble in Ea. rewrite Ea in Ht. apply Ht.
        apply Forall_forall. intros g Hg. split; [apply (group_runs_nonempty _ g Hg)|].
        apply Forall_forall. intros y Hy. destruct (group_runs_in _ g y Hg Hy) as [H1 H2]. rewrite Forall_forall in HG. split; [apply HG, H1|exact H2]. }
      destruct Hk as (c & r' & -> & Hc). cbn [beq_bytes]. apply N.eqb_neq in Hc. rewrite Hc. cbn [andb].
      rewrite Hconv. reflexivity.
  Qed.
End Conv.

(* ====================================================================================== *)
(* the theorems about the RFC 7951 rendering                                               *)
(* ====================================================================================== *)
Lemma jkey_ascii k : forallb jkey_char k = true -> Forall (fun c => 45 <= c /\ c <= 122) k.
Proof.
  intro H. apply Forall_forall. intros c Hc. rewrite forallb_forall in H. specialize (H c Hc).
  unfold jkey_char, is_ncname_char, is_ncname_start, is_alpha, is_digit in H. lia.
Qed.

Lemma SV_ly_key k : forallb jkey_char k = true -> SV_ly k.
Proof.
  intro H. pose proof (jkey_ascii k H) as Ha. clear H. split.
  - induction Ha as [|c r Hc _ IH]; [constructor|]. apply lx_cons with (cp := c) (u := 1%nat); [apply getutf8_ascii; lia|exact IH].
  - induction Ha as [|c r Hc _ IH]; [reflexivity|]. cbn [bytes_ok forallb]. fold (bytes_ok r). rewrite IH.
    unfold byte_ok. assert (E : (c <? 256) = true) by lia. rewrite E. reflexivity.
Qed.

Lemma utf8_nonul_key k : forallb jkey_char k = true -> utf8_nonul k.
Proof.
  intro H. pose proof (jkey_ascii k H) as Ha. clear H. exists k. split.
  - induction Ha as [|c r Hc _ IH]; [reflexivity|]. cbn [forallb]. rewrite IH. unfold valid_cp, is_scalar.
    assert (E : ((c <? 55296) || (57343 <? c) && (c <? 1114112)) && negb (c =? 0) = true) by lia. rewrite E. reflexivity.
  - induction Ha as [|c r Hc _ IH]; [reflexivity|]. cbn [flat_map]. rewrite <- IH. rewrite utf8_encode_ascii by lia. reflexivity.
Qed.

(* C01, JSON: libyang's side reads the rendering of the RFC 7951 value of a forest back as the forest *)
Theorem json_doc_roundtrip_proof sch t jk f :
  tabs_okb sch t = true -> Canon sch f -> Forall (JDocN sch t jk SV_ly) f ->
  json_parse sch t jk (json_doc sch t jk f) = Some (clear_dflt f).
Proof.
  intros Ht HC HD. unfold json_parse.
  rewrite (jv_text_doc sch t jk SV_ly Ht SV_ly_key ly_rdstr f ly_rdstr_ok (Canon_Placed _ _ HC) HD).
  rewrite (conv_tree sch t jk SV_ly Ht f (Canon_Placed _ _ HC) HD). reflexivity.
Qed.

(* C12, JSON: an RFC 8259 reader reads the rendering as exactly the RFC 7951 value of the forest *)
Theorem json_doc_std_proof sch t jk f :
  tabs_okb sch t = true -> Canon sch f -> Forall (JDocN sch t jk utf8_nonul) f ->
  std_json_value (json_doc sch t jk f) = Some (json_tree sch t jk f).
Proof.
  intros Ht HC HD. unfold std_json_value.
  apply (jv_text_doc sch t jk utf8_nonul Ht utf8_nonul_key std_rdstr f std_rdstr_ok (Canon_Placed _ _ HC) HD).
Qed.

(* the boolean checkers imply the data hypotheses *)
Lemma jterm_okb_spec (vb : bytes -> bool) (SV : bytes -> Prop) k v :
  (forall v, vb v = true -> SV v) -> jterm_okb vb k v = true -> jterm_ok SV k v.
Proof.
  intros HV. destruct k; cbn [jterm_okb jterm_ok]; intro H.
  - apply HV, H.
  - apply andb_true_iff in H. destruct H as [H H3]. apply andb_true_iff in H. destruct H as [H1 H2].
    repeat split; try assumption. intro E. subst v. discriminate H3.
  - apply orb_true_iff in H. destruct H as [H|H]; apply beq_bytes_eq in H; auto.
  - destruct v; [reflexivity|discriminate H].
Qed.

Lemma jdocb_spec sch t jk (vb : bytes -> bool) (SV : bytes -> Prop) n :
  (forall v, vb v = true -> SV v) -> jdocb sch t jk vb n = true -> JDocN sch t jk SV n.
Proof.
  intros HV. induction n as [s v d m ch IH] using dnode_ind'. intro H. cbn [jdocb] in H.
  repeat (apply andb_true_iff in H; destruct H as [H ?]).
  rewrite JDocN_unfold. split; [|split; [|split; [|split]]].
  - intro E. rewrite E in H. discriminate H.
  - destruct (is_term sch s); [apply (jterm_okb_spec vb SV _ _ HV); assumption|]. destruct v; [reflexivity|discriminate].
  - apply Forall_forall. intros kv Hin. apply (meta_okb_spec t vb SV kv HV).
    match goal with Hm : forallb (meta_okb t vb) m = true |- _ => rewrite forallb_forall in Hm; apply Hm, Hin end.
  - apply nodupb_spec. assumption.
  - match goal with Hc : forallb (jdocb sch t jk vb) ch = true |- _ => rewrite forallb_forall in Hc end.
    rewrite Forall_forall in *. intros x Hx. apply (IH x Hx). auto.
Qed.

Lemma jlexb_spec v : jlexb v = true -> SV_ly v.
Proof. unfold jlexb. intro H. apply andb_true_iff in H. destruct H as [H1 H2]. split; [apply lexableb_spec, H1|exact H2]. Qed.

Lemma nonulb_spec v : nonulb v = true -> utf8_nonul v.
Proof.
  unfold nonulb. destruct (std_decode_all (S (length v)) v []) as [cps|]; [|discriminate].
  intro H. apply andb_true_iff in H. destruct H as [H H3]. apply andb_true_iff in H. destruct H as [H1 H2].
  apply beq_bytes_eq in H3. exists cps. split; [|symmetry; exact H3].
  rewrite forallb_forall in *. intros c Hc. unfold valid_cp. rewrite (H2 c Hc), (H1 c Hc). reflexivity.
Qed.

