(* Properties_C15_ytext.v — property C15 (a node's path identifies that node), value quoting:
   the predicate lyd_path() prints for a list key / leaf-list value against the Literal rule of the
   tokenizer both lyd_find_path() and lyd_find_xpath() use. Theorem statements only. *)
From LY Require Import Base Utf8 PathQuote PathQuoteP.
Local Open Scope N_scope.

(* For every value v (any bytes: blanks, brackets, slashes, backslashes, Unicode, the empty string) that
   does not contain both quote characters, and every key name: the printed predicate, whatever follows
   it, is read as exactly (name, v) - resp. (., v) for a leaf-list - by the path side (token minus its
   first and last byte) and by the XPath side (eval_literal), and the search succeeds. *)
Theorem C15_path_literal_roundtrip :
  forall name v,
    name_ok name = true -> one_quote_kind v = true ->
    (forall rest, parse_pred path_literal (list_pred name v ++ rest) = Some (Some name, v, rest)) /\
    (forall rest, parse_pred xpath_literal (list_pred name v ++ rest) = Some (Some name, v, rest)) /\
    (forall rest, parse_pred path_literal (leaflist_pred v ++ rest) = Some (None, v, rest)) /\
    (forall rest, parse_pred xpath_literal (leaflist_pred v ++ rest) = Some (None, v, rest)) /\
    pred_finds path_literal (Some name) v (list_pred name v) = true /\
    pred_finds xpath_literal (Some name) v (list_pred name v) = true /\
    pred_finds path_literal None v (leaflist_pred v) = true /\
    pred_finds xpath_literal None v (leaflist_pred v) = true.
Proof. exact literal_roundtrip. Qed.
Print Assumptions C15_path_literal_roundtrip.

(* A value with both quote characters (a, single quote, b, double quote, c - a valid string value):
   lyd_path() prints it between double quotes without escaping, the literal ends at the inner double
   quote, the predicate is rejected by both readers. *)
Theorem C15_path_literal_both_quotes_refuted :
  exists v, all_checkutf8 v = true /\
    parse_pred path_literal (list_pred [107] v) = None /\
    parse_pred xpath_literal (list_pred [107] v) = None /\
    parse_pred path_literal (leaflist_pred v) = None /\
    parse_pred xpath_literal (leaflist_pred v) = None.
Proof.
  exists both_quotes_value. destruct both_quotes_refuted as (_ & H2 & H3 & H4 & H5 & H6 & _). auto.
Qed.
Print Assumptions C15_path_literal_both_quotes_refuted.

(* ly_parse_instance_predicate() (no caller in the library) reads the same predicates back unless the
   value ends in a backslash, which it takes as escaping the closing quote. *)
Theorem C15_inst_predicate_roundtrip_partial :
  forall v rest,
    one_quote_kind v = true -> last v 0 <> 92 ->
    inst_quoted (quote_for v :: v ++ quote_for v :: rest) = Some (v, rest).
Proof. exact inst_quoted_roundtrip. Qed.
Print Assumptions C15_inst_predicate_roundtrip_partial.

Theorem C15_inst_predicate_backslash_refuted :
  exists v, one_quote_kind v = true /\ all_checkutf8 v = true /\
            inst_quoted (quote_for v :: v ++ [quote_for v; 93]) = None /\
            path_literal (quote_for v :: v ++ [quote_for v; 93]) = Some (v, [93]).
Proof. exact inst_quoted_backslash_refuted. Qed.
Print Assumptions C15_inst_predicate_backslash_refuted.

(* The hypotheses are satisfiable by non-trivial values. *)
Example C15_path_literal_example :
  let v1 := [97; 32; 39; 93; 91; 47; 92; 195; 169] in      (* a, blank, single quote, brackets, slash, backslash, e-acute *)
  let v2 := [34; 34; 61; 42] in
  one_quote_kind v1 = true /\ one_quote_kind v2 = true /\ one_quote_kind [] = true /\
  pred_finds path_literal (Some [107]) v1 (list_pred [107] v1) = true /\
  pred_finds xpath_literal None v2 (leaflist_pred v2) = true /\
  pred_finds xpath_literal None [] (leaflist_pred []) = true.
Proof. vm_compute. repeat split. Qed.
