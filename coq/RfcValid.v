(* RfcValid.v -- SPEC of property C02: when is an instance valid according to RFC 7950 (XPath-free fragment).

   MODEL ONLY (proofs: ValidP.v). One independent boolean per rule, written from the RFC text; no flags (LYD_NEW,
   LYD_DEFAULT are not looked at), no dependence on the order of siblings (every rule is built from existsb / forallb /
   counting over the sibling list; proved in ValidP.v: rfc_valid_perm).

   Schema: Tree.schema (per schema node: kind, keys, config, defaults, mandatory, min/max) + two tables of this slice:
     vs_tree  the schema TREE of the module with choices and cases explicit (Tree.v flattens them away), one stree per
              top-level schema node; TNode carries the sid of Tree.v
     vs_uniq  the unique statements of every list: list sid -> statements -> descendant leaf paths (sids below the list)
   Type restrictions (RFC 7950 section 9) are a parameter  ty : sid -> bytes -> bool  (slices types / restrict / regex).

   Rules (RFC 7950 section, error-app-tag of section 15 where one is defined):
     rfc_types        9        every leaf / leaf-list value is in the value space of its type
     rfc_keys         7.8.2    every list entry has all its key leaves
     rfc_single       7.5 7.6 7.10  at most one instance of a container / leaf / anydata per parent instance
     rfc_keyuniq      7.8.2    the key tuples of the entries of one list (per parent instance) are pairwise different
     rfc_llval        7.7      configuration leaf-list: values pairwise different (state leaf-lists may repeat)
     rfc_case         7.9      nodes of at most one case of a choice exist
     rfc_mand         7.6.5 (7.10) a mandatory leaf / anydata exists whenever it is required: its closest ancestor that is
                               not a non-presence container exists, resp. - when that ancestor is a case - another node
                               of the case exists
     rfc_mand_choice  7.9.4    missing-choice; same enforcement rule
     rfc_min          7.7.5    too-few-elements; same enforcement rule
     rfc_max          7.7.6    too-many-elements; per parent instance
     rfc_unique       7.8.3    data-not-unique: among the entries in which all referenced leafs exist or have a default
                               value IN USE (7.6.1), the value combinations are pairwise different
   All rules are read on the tree from which non-presence containers without children were removed (7.5.1: such a
   container is semantically equivalent to its absence).
   NOT here (covered by the API-level oracle only): must 7.5.3, when 7.21.5, leafref / instance-identifier
   require-instance 9.9.3 / 9.13, config/state and input/output placement, if-feature (compiled away: C11). *)
From LY Require Import Base Tree.
Local Open Scope N_scope.

(* ------------------------------------------------------------------------------------------- *)
(* schema tree with choices and cases                                                            *)
(* ------------------------------------------------------------------------------------------- *)
Inductive stree :=
| TNode (s : sid) (ch : list stree)                    (* data node; ch = [] for leaf / leaf-list / anydata *)
| TChoice (cid : N) (mand : bool) (cases : list stree) (* the elements are TCase *)
| TCase (cs : N) (dflt : bool) (ch : list stree).      (* dflt: the default case of its choice *)

Record vschema := mk_vschema {
  vs_info : schema;
  vs_tree : list stree;
  vs_uniq : list (sid * list (list (list sid)))
}.

Definition info (vs : vschema) (s : sid) : sinfo := sget (vs_info vs) s.
Definition kind (vs : vschema) (s : sid) : skind := si_kind (info vs s).

Section Comb.
  Context {A B : Type}.
  Variable g : A -> option B.
  Fixpoint first_some (l : list A) : option B :=
    match l with
    | [] => None
    | x :: r => match g x with Some b => Some b | None => first_some r end
    end.
End Comb.

(* induction principle for the nested lists *)
Section StreeInd.
  Variable P : stree -> Prop.
  Hypothesis HN : forall s ch, Forall P ch -> P (TNode s ch).
  Hypothesis HC : forall cid m cs, Forall P cs -> P (TChoice cid m cs).
  Hypothesis HK : forall cs d ch, Forall P ch -> P (TCase cs d ch).
  Fixpoint stree_ind' (t : stree) : P t :=
    let fix go (l : list stree) : Forall P l :=
      match l with
      | [] => Forall_nil P
      | x :: l' => Forall_cons x (stree_ind' x) (go l')
      end in
    match t with
    | TNode s ch => HN s ch (go ch)
    | TChoice c m cs => HC c m cs (go cs)
    | TCase c d ch => HK c d ch (go ch)
    end.
End StreeInd.

(* the data-node sids of one sibling level below t (choices and cases are transparent, children of nodes are not entered) *)
Fixpoint st_sids (t : stree) : list sid :=
  match t with
  | TNode s _ => [s]
  | TChoice _ _ cs => flat_map st_sids cs
  | TCase _ _ ch => flat_map st_sids ch
  end.

(* schema children of data node s, found among the sibling schema trees l *)
Fixpoint st_find (s : sid) (t : stree) : option (list stree) :=
  match t with
  | TNode s' ch => if s' =? s then Some ch else None
  | TChoice _ _ cs => first_some (st_find s) cs
  | TCase _ _ ch => first_some (st_find s) ch
  end.
Definition st_children (l : list stree) (s : sid) : list stree :=
  match first_some (st_find s) l with Some ch => ch | None => [] end.

(* ------------------------------------------------------------------------------------------- *)
(* data helpers                                                                                  *)
(* ------------------------------------------------------------------------------------------- *)
Definition has_sid (f : forest) (s : sid) : bool := existsb (fun d => d_sid d =? s) f.
Definition insts (f : forest) (s : sid) : forest := filter (fun d => d_sid d =? s) f.
Definition count (f : forest) (s : sid) : N := N.of_nat (length (insts f s)).

(* some data node of the sibling list f belongs to the schema subtree t (a case: some node of the case exists) *)
Definition sub_has_data (f : forest) (t : stree) : bool := existsb (has_sid f) (st_sids t).

(* every pair of different positions satisfies r (r symmetric in all uses) *)
Fixpoint pairwise {A} (r : A -> A -> bool) (l : list A) : bool :=
  match l with
  | [] => true
  | x :: t => forallb (r x) t && pairwise r t
  end.

(* a rule about one sibling list (with the schema trees of that level) holds at the top level and below every node *)
Fixpoint all_ctx_node (P : list stree -> forest -> bool) (l : list stree) (n : dnode) {struct n} : bool :=
  match n with
  | DN s _ _ _ ch => let l' := st_children l s in P l' ch && forallb (all_ctx_node P l') ch
  end.
Definition all_ctx (P : list stree -> forest -> bool) (l : list stree) (f : forest) : bool :=
  P l f && forallb (all_ctx_node P l) f.

Section Rules.
  Variable ty : sid -> bytes -> bool.
  Variable vs : vschema.

  (* ---- section 9: type restrictions -------------------------------------------------------- *)
  Fixpoint types_node (n : dnode) : bool :=
    match n with
    | DN s v _ _ ch =>
        (match kind vs s with KLeaf | KLeafList => ty s v | _ => true end) && forallb types_node ch
    end.
  Definition rfc_types (f : forest) : bool := forallb types_node f.

  (* ---- 7.8.2: all keys of a list entry exist ------------------------------------------------ *)
  Fixpoint keys_node (n : dnode) : bool :=
    match n with
    | DN s _ _ _ ch => forallb (has_sid ch) (si_keys (info vs s)) && forallb keys_node ch
    end.
  Definition rfc_keys (f : forest) : bool := forallb keys_node f.

  (* ---- 7.5 / 7.6 / 7.10: container, leaf, anydata exist in zero or one instances ------------ *)
  Definition same_single (a b : dnode) : bool := (d_sid a =? d_sid b) && negb (multi (vs_info vs) (d_sid a)).
  Definition single_ctx (_ : list stree) (f : forest) : bool := pairwise (fun a b => negb (same_single a b)) f.
  Definition rfc_single (f : forest) : bool := all_ctx single_ctx (vs_tree vs) f.

  (* ---- 7.8.2: the key values identify a list entry ------------------------------------------ *)
  Definition keyed_list (s : sid) : bool :=
    match kind vs s with KList => match si_keys (info vs s) with [] => false | _ => true end | _ => false end.
  (* the values of the instances of leaf k among the children *)
  Definition kvals (n : dnode) (k : sid) : list bytes := map d_val (insts (d_ch n) k).
  Definition common (a b : list bytes) : bool := existsb (fun x => existsb (beq_bytes x) b) a.
  (* two entries of one list with keys in which every key has the same value *)
  Definition same_keys (a b : dnode) : bool :=
    (d_sid a =? d_sid b) && keyed_list (d_sid a) &&
    forallb (fun k => common (kvals a k) (kvals b k)) (si_keys (info vs (d_sid a))).
  Definition keyuniq_ctx (_ : list stree) (f : forest) : bool := pairwise (fun a b => negb (same_keys a b)) f.
  Definition rfc_keyuniq (f : forest) : bool := all_ctx keyuniq_ctx (vs_tree vs) f.

  (* ---- 7.7: in configuration data the values of a leaf-list are unique ---------------------- *)
  Definition same_llval (a b : dnode) : bool :=
    (d_sid a =? d_sid b) && match kind vs (d_sid a) with KLeafList => true | _ => false end &&
    si_config (info vs (d_sid a)) && beq_bytes (d_val a) (d_val b).
  Definition llval_ctx (_ : list stree) (f : forest) : bool := pairwise (fun a b => negb (same_llval a b)) f.
  Definition rfc_llval (f : forest) : bool := all_ctx llval_ctx (vs_tree vs) f.

  (* ---- 7.9: only one of the choice's cases can exist at any time ---------------------------- *)
  Fixpoint case_t (f : forest) (t : stree) : bool :=
    match t with
    | TNode _ _ => true
    | TChoice _ _ cs => (length (filter (sub_has_data f) cs) <=? 1)%nat && forallb (case_t f) cs
    | TCase _ _ ch => forallb (case_t f) ch
    end.
  Definition case_ctx (l : list stree) (f : forest) : bool := forallb (case_t f) l.
  Definition rfc_case (f : forest) : bool := all_ctx case_ctx (vs_tree vs) f.

  (* ---- enforcement of mandatory / min-elements constraints (7.6.5, 7.9.4, 7.7.5, same text):
          the constraint is enforced if the closest ancestor (in the schema tree) that is not a non-presence container
            - does not exist (top level), or
            - is a case node and any other node from the case exists, or
            - is another node and exists in the data tree.
        [req P f eff t]: t is looked at in the sibling context f (the children of an existing node, or of an absent
        non-presence container: f = []); eff says whether that closest ancestor condition holds so far. P s is the
        constraint on schema node s in context f. An absent non-presence container passes the context on to its
        children (with no data). *)
  Section Req.
    Variable Pn : forest -> sid -> list stree -> bool.   (* constraint on a data schema node (with its schema children), when enforced *)
    Variable Pc : forest -> bool -> list stree -> bool.   (* constraint on a choice (mandatory flag, cases), when enforced *)
    Fixpoint req (f : forest) (eff : bool) (t : stree) : bool :=
      match t with
      | TNode s ch =>
          (negb eff || Pn f s ch) &&
          (match kind vs s with
           | KCont false => has_sid f s || negb eff || forallb (req [] true) ch
           | _ => true
           end)
      | TChoice _ m cs => (negb eff || Pc f m cs) && forallb (req f eff) cs
      | TCase _ _ ch => forallb (req f (eff && sub_has_data f t)) ch
      end.
    Definition req_ctx (l : list stree) (f : forest) : bool := forallb (req f true) l.
  End Req.

  (* ---- 7.6.5 (leaf), 7.10 (anydata): mandatory node ---------------------------------------- *)
  Definition mand_node (f : forest) (s : sid) (_ : list stree) : bool :=
    match kind vs s with
    | KLeaf | KAny => negb (si_mand (info vs s)) || has_sid f s
    | _ => true
    end.
  Definition rfc_mand (f : forest) : bool :=
    all_ctx (req_ctx mand_node (fun _ _ _ => true)) (vs_tree vs) f.

  (* ---- 7.9.4: mandatory choice (error-app-tag missing-choice) ------------------------------- *)
  Definition mand_choice (f : forest) (m : bool) (cs : list stree) : bool := negb m || existsb (sub_has_data f) cs.
  Definition rfc_mand_choice (f : forest) : bool :=
    all_ctx (req_ctx (fun _ _ _ => true) mand_choice) (vs_tree vs) f.

  (* ---- 7.7.5: min-elements (too-few-elements) ----------------------------------------------- *)
  Definition min_node (f : forest) (s : sid) (_ : list stree) : bool :=
    match kind vs s with
    | KList | KLeafList => si_min (info vs s) <=? count f s
    | _ => true
    end.
  Definition rfc_min (f : forest) : bool :=
    all_ctx (req_ctx min_node (fun _ _ _ => true)) (vs_tree vs) f.

  (* ---- 7.7.6: max-elements (too-many-elements), per parent instance ------------------------- *)
  Definition max_node (f : forest) (s : sid) : bool :=
    match kind vs s, si_max (info vs s) with
    | (KList | KLeafList), Some m => count f s <=? m
    | _, _ => true
    end.
  Definition max_ctx (l : list stree) (f : forest) : bool := forallb (max_node f) (flat_map st_sids l).
  Definition rfc_max (f : forest) : bool := all_ctx max_ctx (vs_tree vs) f.

  (* ---- 7.8.3: unique (data-not-unique) ------------------------------------------------------ *)
  (* 7.6.1: is schema node s (one of the sibling schema trees) in effect in context f, as far as cases go: every
     enclosing case has a node in f, or is the default case of a choice none of whose other cases has a node (and the
     choice itself is in effect). chd: some case of the enclosing choice has data. *)
  Fixpoint eff_in (f : forest) (eff chd : bool) (s : sid) (t : stree) : option bool :=
    match t with
    | TNode s' _ => if s' =? s then Some eff else None
    | TChoice _ _ cs => first_some (eff_in f eff (existsb (sub_has_data f) cs) s) cs
    | TCase _ d ch => first_some (eff_in f (eff && (sub_has_data f t || (d && negb chd))) false s) ch
    end.
  Definition in_effect (l : list stree) (f : forest) (s : sid) : bool :=
    match first_some (eff_in f true false s) l with Some e => e | None => false end.

  Definition leaf_dflt (s : sid) : list bytes :=
    match si_dflts (info vs s) with d :: _ => [d] | [] => [] end.

  (* the values the leaf addressed by the descendant path p has in context (l, f): the values of its instances; when
     there is none, its default value if that is in use (7.6.1: the closest ancestor that is not a non-presence container
     exists - an absent presence container ends the search - and the cases on the way are in effect) *)
  Fixpoint uvals (l : list stree) (f : forest) (p : list sid) {struct p} : list bytes :=
    match p with
    | [] => []
    | s :: p' =>
        match p' with
        | [] =>
            match insts f s with
            | [] => if in_effect l f s then leaf_dflt s else []
            | is => map d_val is
            end
        | _ =>
            match insts f s with
            | [] => match kind vs s with
                    | KCont false => if in_effect l f s then uvals (st_children l s) [] p' else []
                    | _ => []
                    end
            | is => flat_map (fun d => uvals (st_children l s) (d_ch d) p') is
            end
        end
    end.

  (* entries a and b of list s (schema children ls) agree on unique statement u: every referenced leaf has a value
     (or a default in use) in both and the values are equal *)
  Definition uq_conflict (ls : list stree) (u : list (list sid)) (a b : dnode) : bool :=
    match u with
    | [] => false
    | _ => forallb (fun p => common (uvals ls (d_ch a) p) (uvals ls (d_ch b) p)) u
    end.

  Definition uniques_of (s : sid) : list (list (list sid)) :=
    match find (fun e => fst e =? s) (vs_uniq vs) with Some e => snd e | None => [] end.

  (* the entries of list s (schema children ls) among the siblings f are pairwise different on every unique statement *)
  Definition unique_node (ls : list stree) (f : forest) (s : sid) : bool :=
    match kind vs s with
    | KList => pairwise (fun a b => negb (existsb (fun u => uq_conflict ls u a b) (uniques_of s))) (insts f s)
    | _ => true
    end.
  (* every list of the sibling level, through choices and cases *)
  Fixpoint unique_t (f : forest) (t : stree) : bool :=
    match t with
    | TNode s ch => unique_node ch f s
    | TChoice _ _ cs => forallb (unique_t f) cs
    | TCase _ _ ch => forallb (unique_t f) ch
    end.
  Definition unique_ctx (l : list stree) (f : forest) : bool := forallb (unique_t f) l.
  Definition rfc_unique (f : forest) : bool := all_ctx unique_ctx (vs_tree vs) f.

  (* ---- 7.5.1: a non-presence container has no meaning of its own; its presence with no child nodes is semantically
          equivalent to its absence. The rules are read on the tree without such containers (innermost first). -------- *)
  Fixpoint prune_node (n : dnode) : option dnode :=
    match n with
    | DN s v d m ch =>
        let ch' := flat_map (fun c => match prune_node c with Some c' => [c'] | None => [] end) ch in
        match kind vs s, ch' with
        | KCont false, [] => None
        | _, _ => Some (DN s v d m ch')
        end
    end.
  Definition prune (f : forest) : forest :=
    flat_map (fun c => match prune_node c with Some c' => [c'] | None => [] end) f.

  (* ---- the verdict --------------------------------------------------------------------------- *)
  Definition rules_hold (f : forest) : bool :=
    rfc_types f && rfc_keys f && rfc_single f && rfc_keyuniq f && rfc_llval f && rfc_case f &&
    rfc_mand f && rfc_mand_choice f && rfc_min f && rfc_max f && rfc_unique f.
  Definition rfc_valid (f : forest) : bool := rules_hold (prune f).
End Rules.

(* every non-presence container of the tree has a child (then prune is the identity: ValidP.prune_id) *)
Fixpoint no_empty_np_node (vs : vschema) (n : dnode) : bool :=
  match n with
  | DN s _ _ _ ch =>
      (match kind vs s, ch with KCont false, [] => false | _, _ => true end) && forallb (no_empty_np_node vs) ch
  end.
Definition no_empty_np (vs : vschema) (f : forest) : bool := forallb (no_empty_np_node vs) f.

(* ------------------------------------------------------------------------------------------- *)
(* the data tree is an instance of the schema at all (not a constraint: what makes a tree readable as data of the
   module): every node is an instance of a schema node that is a child of its parent's schema node, leaf / leaf-list /
   anydata nodes have no children *)
Fixpoint placed_node (vs : vschema) (l : list stree) (n : dnode) {struct n} : bool :=
  match n with
  | DN s _ _ _ ch =>
      existsb (fun t => existsb (N.eqb s) (st_sids t)) l &&
      (match kind vs s with
       | KLeaf | KLeafList | KAny => match ch with [] => true | _ => false end
       | _ => true
       end) &&
      forallb (placed_node vs (st_children l s)) ch
  end.
Definition placed (vs : vschema) (f : forest) : bool := forallb (placed_node vs (vs_tree vs)) f.

(* ------------------------------------------------------------------------------------------- *)
(* well-formed vschema (what the encoder tools/validenc.py produces from a compiled module; checked on every generated
   schema by the correspondence run)                                                             *)
(* ------------------------------------------------------------------------------------------- *)
(* the elements of a choice are cases, cases occur only there *)
Fixpoint shape (in_choice : bool) (t : stree) : bool :=
  match t with
  | TNode _ ch => negb in_choice && forallb (shape false) ch
  | TChoice _ _ cs => negb in_choice && forallb (shape true) cs
  | TCase _ _ ch => in_choice && forallb (shape false) ch
  end.

(* RFC 7950 section 3, mandatory node: a leaf / anydata / choice with mandatory true, a list / leaf-list with
   min-elements > 0, a non-presence container with a mandatory node as a child *)
Fixpoint mand_t (vs : vschema) (t : stree) : bool :=
  match t with
  | TNode s ch =>
      match kind vs s with
      | KLeaf | KAny => si_mand (info vs s)
      | KList | KLeafList => negb (si_min (info vs s) =? 0)
      | KCont false => existsb (mand_t vs) ch
      | KCont true => false
      end
  | TChoice _ m _ => m
  | TCase _ _ _ => false
  end.

(* 7.9.3: there must not be any mandatory nodes directly under the default case (the compiler enforces it) *)
Fixpoint dflt_ok (vs : vschema) (t : stree) : bool :=
  match t with
  | TNode _ ch => forallb (dflt_ok vs) ch
  | TChoice _ _ cs => forallb (dflt_ok vs) cs
  | TCase _ d ch => (negb d || negb (existsb (mand_t vs) ch)) && forallb (dflt_ok vs) ch
  end.

(* list keys are leaves; the steps of a unique path are containers, its end a leaf *)
Definition keys_ok (vs : vschema) : bool :=
  forallb (fun e : sid * sinfo =>
    forallb (fun k => match kind vs k with KLeaf => true | _ => false end) (si_keys (snd e))) (vs_info vs).

Fixpoint upath_ok (vs : vschema) (p : list sid) : bool :=
  match p with
  | [] => false
  | s :: p' =>
      match p' with
      | [] => match kind vs s with KLeaf => true | _ => false end
      | _ => match kind vs s with KCont _ => upath_ok vs p' | _ => false end
      end
  end.
Definition uniq_ok (vs : vschema) : bool :=
  forallb (fun e : sid * list (list (list sid)) => forallb (forallb (upath_ok vs)) (snd e)) (vs_uniq vs).

(* the steps of a unique path are schema nodes of the level they are looked up in *)
Fixpoint upath_in (l : list stree) (p : list sid) {struct p} : bool :=
  match p with
  | [] => true
  | s :: p' => existsb (N.eqb s) (flat_map st_sids l) && upath_in (st_children l s) p'
  end.
Fixpoint uniq_placed_t (vs : vschema) (t : stree) : bool :=
  match t with
  | TNode s ch => forallb (forallb (upath_in ch)) (uniques_of vs s) && forallb (uniq_placed_t vs) ch
  | TChoice _ _ cs => forallb (uniq_placed_t vs) cs
  | TCase _ _ ch => forallb (uniq_placed_t vs) ch
  end.

Definition vschema_ok (vs : vschema) : bool :=
  forallb (shape false) (vs_tree vs) && forallb (dflt_ok vs) (vs_tree vs) && keys_ok vs && uniq_ok vs &&
  forallb (uniq_placed_t vs) (vs_tree vs).

(* ------------------------------------------------------------------------------------------- *)
(* CONFIGURATION ONLY (LYD_VALIDATE_NO_STATE; RFC 7950 sec. 8.1: the constraints on configuration; 7.21.1: config false
   nodes are not part of a configuration datastore): the tree contains no config false node, and it is valid for the
   CONFIGURATION VIEW of the schema, in which config false nodes carry no mandatory / min-elements / max-elements /
   unique constraint and no default. The view keeps the schema tree (choices and cases are unchanged), so it is the
   intended reading only where no mandatory choice sits below a config false node (cfg_ready).                      *)
Definition neut (i : sinfo) : sinfo :=
  if si_config i then i
  else mk_sinfo (si_kind i) (si_parent i) (si_keys i) (si_userord i) false [] (si_choice i) false 0 None (si_order i).

Definition cfg_view (vs : vschema) : vschema :=
  mk_vschema (map (fun ki => (fst ki, neut (snd ki))) (vs_info vs)) (vs_tree vs)
             (filter (fun u => si_config (sget (vs_info vs) (fst u))) (vs_uniq vs)).

Fixpoint nostate_node (vs : vschema) (n : dnode) : bool :=
  match n with DN s _ _ _ ch => si_config (info vs s) && forallb (nostate_node vs) ch end.
Definition rfc_nostate (vs : vschema) (f : forest) : bool := forallb (nostate_node vs) f.

Definition rfc_valid_config (ty : sid -> bytes -> bool) (vs : vschema) (f : forest) : bool :=
  rfc_nostate (cfg_view vs) f && rfc_valid ty (cfg_view vs) f.

Fixpoint no_mand_choice (t : stree) : bool :=
  match t with
  | TNode _ ch => forallb no_mand_choice ch
  | TChoice _ m cs => negb m && forallb no_mand_choice cs
  | TCase _ _ ch => forallb no_mand_choice ch
  end.
Fixpoint cfg_ready_t (vs : vschema) (t : stree) : bool :=
  match t with
  | TNode s ch => if si_config (info vs s) then forallb (cfg_ready_t vs) ch else forallb no_mand_choice ch
  | TChoice _ _ cs => forallb (cfg_ready_t vs) cs
  | TCase _ _ ch => forallb (cfg_ready_t vs) ch
  end.
(* ... and no unique statement of a config true list refers to a config false leaf (libyang evaluates such a unique on the
   schema default of the leaf also with LYD_VALIDATE_NO_STATE, where the default nodes of config false leaves are not
   created; cfg_view drops those defaults) *)
Definition cfg_uniq_ready (vs : vschema) : bool :=
  forallb (fun u => negb (si_config (info vs (fst u))) ||
                    forallb (forallb (fun p => si_config (info vs (last p 0)))) (snd u)) (vs_uniq vs).
Definition cfg_ready (vs : vschema) : bool := forallb (cfg_ready_t vs) (vs_tree vs) && cfg_uniq_ready vs.
