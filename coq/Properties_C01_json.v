(* Properties_C01_json.v — property C01 (print o parse = identity), JSON string level: theorem
   statements only. Each is closed by [exact] of a lemma proved in JsonTextP.v and followed by
   Print Assumptions. *)
From LY Require Import Base Utf8 XmlTextP JsonText JsonTextP.
Local Open Scope N_scope.

(* JSON strings: what json_print_string() prints (quotes included), the parser reads back
   unchanged (opening quote skipped by lyjson_next_value(), then lyjson_string()), for every
   string of characters ly_getutf8 accepts (any length), and it stops exactly after the closing
   quote whatever follows. [bytes_ok]: the list elements are bytes (below 256) — a
   well-formedness condition of the model's representation of C strings, not a restriction on
   the C inputs. *)
Theorem C01_json_string_roundtrip :
  forall s rest,
    lexable s -> bytes_ok s = true ->
    json_quoted (json_esc s ++ rest) = Ok (s, rest).
Proof. exact json_quoted_roundtrip. Qed.
Print Assumptions C01_json_string_roundtrip.

(* without [bytes_ok] the statement is false of the model (a list element that is not a byte;
   no C input corresponds to this witness) *)
Theorem C01_json_string_roundtrip_nonbyte_refuted :
  exists s rest, lexable s /\ json_quoted (json_esc s ++ rest) <> Ok (s, rest).
Proof. exact json_quoted_roundtrip_nonbyte_refuted. Qed.
Print Assumptions C01_json_string_roundtrip_nonbyte_refuted.

(* both hypotheses are met by the RFC 3629 encoding of every sequence of yang-char
   (RFC 7950 section 14: Unicode scalar values except C0 controls other than TAB/LF/CR and the
   noncharacters), which since /repo commit d2cc93f are exactly the characters ly_getutf8 accepts
   (Utf8P.getutf8_encode_iff) *)
Theorem C01_json_string_roundtrip_unicode :
  forall cps rest,
    forallb is_yang_char cps = true ->
    let s := flat_map utf8_encode cps in
    json_quoted (json_esc s ++ rest) = Ok (s, rest).
Proof. exact json_quoted_roundtrip_encoded. Qed.
Print Assumptions C01_json_string_roundtrip_unicode.

(* the hypotheses are satisfiable by a value mixing every escape class *)
Example C01_json_string_roundtrip_example :
  let cps := [97; 34; 92; 47; 13; 9; 10; 127; 32; 233; 8364; 128512; 91; 93] in
  forallb is_yang_char cps = true /\
  json_quoted (json_esc (flat_map utf8_encode cps) ++ [44; 34; 120; 34]) =
    Ok (flat_map utf8_encode cps, [44; 34; 120; 34]).
Proof. exact json_roundtrip_example. Qed.
