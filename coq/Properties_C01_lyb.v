(* Properties_C01_lyb.v - property C01 (print o parse = identity), LYB part: theorem statements only.
   Each is closed by [exact] of a lemma proved in LybChunkP.v / LybHashP.v and followed by Print Assumptions. *)
From LY Require Import Base LybChunk LybChunkP LybHash LybHashP.
From LY.Gen Require Consts.
Local Open Scope N_scope.

(* LYB chunk layer: for every well-bracketed script of lyb_write_start_siblings() / lyb_write() /
   lyb_write_stop_siblings() calls - any length, any nesting depth, payloads of any size - on which the
   writer succeeds (its only failure is the inner_chunks counter at LYB_INCHUNK_MAX), the reader calls
   lyb_read_start_siblings() / lyb_read(same count) / lyb_read_stop_siblings() in the same order on the
   produced bytes return exactly the written payloads and end with no open siblings at the end of
   the buffer. *)
Theorem C01_lyb_chunk_roundtrip :
  forall script st,
    well_bracketed script = true -> lyb_run_write script = Ok st ->
    lyb_run_read (shape script) (w_out st) = Ok (payloads script, mk_r [] []).
Proof. exact lyb_chunk_roundtrip_proof. Qed.
Print Assumptions C01_lyb_chunk_roundtrip.

(* the hypotheses are met by non-trivial scripts: nested siblings with the constants of lyb.h (bytes checked
   literally), and - with LYB_SIZE_MAX = 7 in the same code - a payload that spans three chunks on two
   nested levels *)
Example C01_lyb_chunk_example :
  let script := [Start; Write [1; 2; 3]; Start; Write [4]; Stop; Start; Stop; Write [5; 6]; Stop] in
  well_bracketed script = true /\
  match lyb_run_write script with
  | Ok st => w_out st = [6; 0; 2; 0;  1; 2; 3;  1; 0; 0; 0;  4;  0; 0; 0; 0;  5; 6]
  | Err _ => False
  end.
Proof. exact chunk_example. Qed.
Example C01_lyb_chunk_example_multi :
  let script := [Start; Write [9]; Start; Write (pattern 20); Stop; Write [8]; Stop] in
  well_bracketed script = true /\
  match lyb_run_write_small 7 script with
  | Ok st => lyb_run_read_small 7 (shape script) (w_out st) = Ok (payloads script, mk_r [] []) /\
             length (w_out st) = 50%nat
  | Err _ => False
  end.
Proof. exact chunk_example_multi. Qed.

(* the writer is total on well-bracketed scripts up to the inner_chunks limit: the loop of lyb_write() ends
   within the fuel of the model, assert(written <= LYB_SIZE_MAX) never fails, and the only error is LOGINT *)
Theorem C01_lyb_write_fails_only_logint :
  forall script, well_bracketed script = true ->
    (exists st, lyb_run_write script = Ok st) \/ lyb_run_write script = Err E_LOGINT.
Proof. exact lyb_write_total_proof. Qed.
Print Assumptions C01_lyb_write_fails_only_logint.

(* lyb_inner_chunks_bounded as planned (one payload byte before every nested start gives
   inner_chunks <= written + 1, hence no LOGINT) is false. Witnesses with small constants in the same code:
   LYB_SIZE_MAX = 3 reaches written = 2, inner_chunks = 4; LYB_SIZE_MAX = LYB_INCHUNK_MAX = 3 (equal, as in
   lyb.h) fails with LOGINT at nesting depth 3. What is missing: the positive statement for the discipline the
   printer really obeys (two bytes - node type and hash - before every nested start) and bounded depth. *)
Theorem C01_lyb_inner_chunks_bounded_refuted_small :
  exists script st s,
    disciplined 1 script 0 0 = true /\ lyb_run_write_small 3 script = Ok st /\
    In s (w_sibs st) /\ written s + 1 < inner_chunks s.
Proof. exact inner_le_written_refuted_small. Qed.
Print Assumptions C01_lyb_inner_chunks_bounded_refuted_small.

Theorem C01_lyb_logint_reachable_small :
  exists script,
    disciplined 1 script 0 0 = true /\ well_bracketed script = false /\ max_depth script 0 = 3%nat /\
    run_write 3 2 3 2 4 script = Err E_LOGINT.
Proof. exact logint_reachable_small. Qed.
Print Assumptions C01_lyb_logint_reachable_small.

(* LYB schema hashes: whenever lyb_hash_siblings() succeeds on a list of siblings (module name, node name)
   in lys_getnext() order, then for every sibling the bytes that lyb_print_schema_hash() writes are read by
   lyb_read_hashes() without tripping its asserts or its array bound, and lyb_parse_schema_hash() - first
   sibling whose hashes 0..i all match - finds exactly that sibling (by position), whatever follows in the
   input. No duplicate-freeness is needed: with duplicate names hashing fails. *)
Theorem C01_lyb_hashseq_identifies :
  forall (l : list snode) ht,
    hash_siblings l = Some ht ->
    forall k n, nth_error l k = Some n ->
    exists bs, print_schema_hash ht k n = Some bs /\
               forall rest, parse_schema_hash l (bs ++ rest) = Ok (Some k, rest).
Proof. exact lyb_hashseq_identifies_proof. Qed.
Print Assumptions C01_lyb_hashseq_identifies.

(* "hashing never fails for distinct names" is false: leaves n29 and n88 of a module m have the same
   lyb_generate_hash() for every collision id, lyb_hash_siblings() gives up (LOGINT, LY_EINT) *)
Theorem C01_lyb_hash_total_refuted :
  exists l : list snode, NoDup l /\ hash_siblings l = None.
Proof. exact hash_total_refuted_proof. Qed.
Print Assumptions C01_lyb_hash_total_refuted.

(* a sibling set that needs two hashes: leaves a, b, c, n256 of module m; n256 collides with a on collision
   id 0 and is printed as [hash id 1; hash id 0] *)
Example C01_lyb_hashseq_example :
  match hash_siblings [([109], [97]); ([109], [98]); ([109], [99]); ([109], [110; 50; 53; 54])] with
  | Some ht => (print_schema_hash ht 0 ([109], [97]), print_schema_hash ht 3 ([109], [110; 50; 53; 54]))
  | None => (None, None)
  end = (Some [202], Some [71; 202]).
Proof. exact hashseq_example. Qed.

(* regression case for collisions deeper than the node-hash cache (LYS_NODE_HASH_COUNT = 4; corpus/lyb_collisions.txt):
   the leaves n370 and n24119 of module hashcol collide on the collision ids 0, 1, 2 and 3, so the second one is printed
   as FIVE hashes (collision id 4 first) and the reader, comparing every id, finds sibling 1 - an instance of
   C01_lyb_hashseq_identifies, which holds for every collision depth. (A reader that compares the cached ids only would
   take sibling 0: seeded change C01-5.) *)
Example C01_lyb_hashseq_depth4_example :
  let hc := [104; 97; 115; 104; 99; 111; 108] in
  let l := [(hc, [110; 51; 55; 48]); (hc, [110; 50; 52; 49; 49; 57])] in
  match hash_siblings l with
  | Some ht => print_schema_hash ht 0 (hc, [110; 51; 55; 48]) = Some [157] /\
               print_schema_hash ht 1 (hc, [110; 50; 52; 49; 49; 57]) = Some [8; 16; 58; 78; 157] /\
               parse_schema_hash l ([8; 16; 58; 78; 157] ++ [7]) = Ok (Some 1%nat, [7]) /\
               parse_schema_hash l ([157] ++ [7]) = Ok (Some 0%nat, [7])
  | None => False
  end.
Proof. vm_compute. repeat split. Qed.
