(* Properties_C01_lyb.v - property C01 (print o parse = identity), LYB part: theorem statements only.
   Each is closed by [exact] of a lemma proved in LybChunkP.v / LybHashP.v and followed by Print Assumptions. *)
From LY Require Import Base LybChunk LybChunkP.
From LY.Gen Require Consts.
Local Open Scope N_scope.

(* LYB chunk layer: for every well-bracketed script of lyb_write_start_siblings() / lyb_write() /
   lyb_write_stop_siblings() calls - any length, any nesting depth, payloads of any size - on which the
   writer succeeds (its only failure is the inner_chunks counter at LYB_INCHUNK_MAX), the reader calls
   lyb_read_start_siblings() / lyb_read(same count) / lyb_read_stop_siblings() in the same order on the
   produced bytes return exactly the written payloads and end with no open siblings at the end of
   the buffer. *)
Theorem C01_lyb_chunk_roundtrip :
  forall script st,
    well_bracketed script = true -> lyb_run_write script = Ok st ->
    lyb_run_read (shape script) (w_out st) = Ok (payloads script, mk_r [] []).
Proof. exact lyb_chunk_roundtrip_proof. Qed.
Print Assumptions C01_lyb_chunk_roundtrip.
