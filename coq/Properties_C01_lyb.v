(* Properties_C01_lyb.v - property C01 (print o parse = identity), LYB part: theorem statements only.
   Each is closed by [exact] of a lemma proved in LybChunkP.v / LybHashP.v and followed by Print Assumptions. *)
From LY Require Import Base LybChunk LybChunkP LybHash LybHashP.
From LY.Gen Require Consts.
Local Open Scope N_scope.

(* LYB chunk layer: for every well-bracketed script of lyb_write_start_siblings() / lyb_write() /
   lyb_write_stop_siblings() calls - any length, any nesting depth, payloads of any size - on which the
   writer succeeds (its only failure is the inner_chunks counter at LYB_INCHUNK_MAX), the reader calls
   lyb_read_start_siblings() / lyb_read(same count) / lyb_read_stop_siblings() in the same order on the
   produced bytes return exactly the written payloads and end with no open siblings at the end of
   the buffer. *)
Theorem C01_lyb_chunk_roundtrip :
  forall script st,
    well_bracketed script = true -> lyb_run_write script = Ok st ->
    lyb_run_read (shape script) (w_out st) = Ok (payloads script, mk_r [] []).
Proof. exact lyb_chunk_roundtrip_proof. Qed.
Print Assumptions C01_lyb_chunk_roundtrip.

(* LYB schema hashes: whenever lyb_hash_siblings() succeeds on a list of siblings (module name, node name)
   in lys_getnext() order, then for every sibling the bytes that lyb_print_schema_hash() writes are read by
   lyb_read_hashes() without tripping its asserts or its array bound, and lyb_parse_schema_hash() - first
   sibling whose hashes 0..i all match - finds exactly that sibling (by position), whatever follows in the
   input. No duplicate-freeness is needed: with duplicate names hashing fails. *)
Theorem C01_lyb_hashseq_identifies :
  forall (l : list snode) ht,
    hash_siblings l = Some ht ->
    forall k n, nth_error l k = Some n ->
    exists bs, print_schema_hash ht k n = Some bs /\
               forall rest, parse_schema_hash l (bs ++ rest) = Ok (Some k, rest).
Proof. exact lyb_hashseq_identifies_proof. Qed.
Print Assumptions C01_lyb_hashseq_identifies.

(* "hashing never fails for distinct names" is false: leaves n29 and n88 of a module m have the same
   lyb_generate_hash() for every collision id, lyb_hash_siblings() gives up (LOGINT, LY_EINT) *)
Theorem C01_lyb_hash_total_refuted :
  exists l : list snode, NoDup l /\ hash_siblings l = None.
Proof. exact hash_total_refuted_proof. Qed.
Print Assumptions C01_lyb_hash_total_refuted.
