(* Properties_C17_ht.v - property C17 (no leak, no double free, string references balance), the part
   that is proved: the record arena of src/hash_table.c and the reference counting of src/dict.c.
   Theorem statements only.  Models: HashTable.v (lyht_* as coded: hlists first/last, next chains,
   free list, used, resize states, uint32_t arithmetic), Dict.v (lydict_insert / _remove / _dup on top);
   proofs: HashTableP.v, DictP.v.  The ownership rules over the dictionary finite map (abstract model Own.v) are in
   Properties_C17_own.v.  Everything else C17 says (which heap cells and strings a given call of the data / schema tree API
   owns, consumed-input rules) is NOT modelled; it is searched by the Ownership oracle under ASan/LSan (tools/props/C17.py).

   Vocabulary.  [Rep vdef t cs fl]: representation invariant of a table t with its ghost witnesses
   cs = the chains of the buckets 0..size-1 (record indices in chain order) and fl = the free list:
   size = 2^k >= LYHT_MIN_SIZE, both arrays have size entries, cs and fl together contain every index
   0..size-1 exactly once, chain b starts at hlists[b].first, follows rec->next, ends in LYHT_NO_RECORD,
   hlists[b].last is its last element, every record in it has hash & (size-1) = b, the free list starts
   at first_free_rec and ends in the index size (as lyht_init_hlists_and_records leaves it), used =
   number of chained records.  [abs vdef t cs]: the abstract table = resize state + per bucket the list
   of (hash, value) in chain order.  a_insert / a_remove / a_resize / a_lyht_find / a_find_next
   (HashTableP.v) are the functional versions on the abstraction (append to the bucket unless a checked
   insert finds an equal record, delete the first equal record, re-insert bucket by bucket in index
   order).  Model error answers: E_OOB = access outside an array, E_FUEL = a loop ran longer than the
   arena or a resize asked for a nested resize, E_ABORT = a C assert() fails. *)
From LY Require Import Base HashFn HashTable HashTableP Dict DictP.
From LY.Gen Require Import Consts.
Local Open Scope N_scope.

(* ------------------------------------------------------------------------------------------------ *)
(* 1. hash table: each operation preserves Rep, computes the abstract function, never leaves the arrays *)
(* ------------------------------------------------------------------------------------------------ *)

(* In every state satisfying Rep no record slot is lost or used twice: the bucket chains and the free
   list are duplicate free and contain exactly the indices below size. *)
Theorem C17_ht_no_slot_lost_or_reused :
  forall V (vdef : V) (veq : bool -> V -> V -> bool) t cs fl, Rep vdef t cs fl ->
    NoDup (concat cs ++ fl) /\ forall i, i < ht_size t <-> In i (concat cs ++ fl).
Proof. exact Rep_partition. Qed.
Print Assumptions C17_ht_no_slot_lost_or_reused.

(* lyht_find: the answer (code and *match_p) is the abstract lookup; in particular not E_OOB / E_FUEL. *)
Theorem C17_ht_find_refines :
  forall V (vdef : V) veq t cs fl h v, Rep vdef t cs fl ->
    lyht_find veq t h v = Ok (a_lyht_find veq (abs vdef t cs) h v).
Proof. exact lyht_find_sim. Qed.
Print Assumptions C17_ht_find_refines.

(* lyht_find_next / lyht_find_next_with_collision_cb (cb = the collision callback or None) *)
Theorem C17_ht_find_next_refines :
  forall V (vdef : V) veq t cs fl cb h v, Rep vdef t cs fl ->
    lyht_find_next veq t cb h v = Ok (a_find_next veq (abs vdef t cs) cb h v).
Proof. exact lyht_find_next_sim. Qed.
Print Assumptions C17_ht_find_next_refines.

(* lyht_insert (check = true) / lyht_insert_no_check (check = false), wm = match_p given, including the
   enlarging resize: when the abstract insert answers (code, matched value, m') the C function answers the
   same code, leaves a table that satisfies Rep and abstracts to m', and the record *match_p points at is a
   chained record holding the matched value; when the abstract insert stops at an assertion so does the C
   function (same error); no other error (E_OOB, loop fuel) is possible.  The bound 2^30 keeps size << 1
   inside uint32_t. *)
Theorem C17_ht_insert_refines :
  forall V (vdef : V) veq t cs fl check wm h v, Rep vdef t cs fl -> ht_size t <= 1073741824 ->
    isim vdef wm (insert vdef veq t check wm h v) (a_insert veq (abs vdef t cs) check wm h v).
Proof. exact insert_sim. Qed.
Print Assumptions C17_ht_insert_refines.

(* lyht_remove including the shrinking resize *)
Theorem C17_ht_remove_refines :
  forall V (vdef : V) veq t cs fl h v, Rep vdef t cs fl ->
    msim vdef (lyht_remove vdef veq t h v) (a_remove veq (abs vdef t cs) h v).
Proof. exact lyht_remove_sim. Qed.
Print Assumptions C17_ht_remove_refines.

(* lyht_resize (enlarge / shrink / rehash): the new table satisfies Rep and is the old content re-inserted
   bucket by bucket, chain order, into an empty table of the new size *)
Theorem C17_ht_resize_refines :
  forall V (vdef : V) veq t cs fl op check, Rep vdef t cs fl -> size_ok (new_size (ht_size t) op) ->
    rsim vdef (lyht_resize vdef veq t op check) (a_resize veq (abs vdef t cs) op check).
Proof. exact lyht_resize_sim. Qed.
Print Assumptions C17_ht_resize_refines.

(* in-place update of a stored value through *match_p (reference counts): Rep is kept, one entry of the
   abstraction changes its value *)
Theorem C17_ht_set_val_refines :
  forall V (vdef : V) (veq : bool -> V -> V -> bool) t cs fl i v', Rep vdef t cs fl -> In i (concat cs) ->
    exists t', set_val t i v' = Ok t' /\ Rep vdef t' cs fl /\
      upd_rel (abs vdef t cs) (abs vdef t' cs) (ent V vdef (ht_recs t) i) (fst (ent V vdef (ht_recs t) i), v').
Proof. exact set_val_sim. Qed.
Print Assumptions C17_ht_set_val_refines.

(* The C assertion [first_free_rec < size] of an insert follows from the load-factor invariant
   used * 100 < 75 * size, which every insert and remove re-establishes while resizing is enabled. *)
Theorem C17_ht_free_list_nonempty :
  forall V (vdef : V) (veq : bool -> V -> V -> bool) t cs fl,
    Rep vdef t cs fl -> LF (abs vdef t cs) -> ht_ff t < ht_size t.
Proof. exact @LF_free_rec. Qed.
Print Assumptions C17_ht_free_list_nonempty.

(* ------------------------------------------------------------------------------------------------ *)
(* 2. operation sequences (the instance the T2 component HtScript runs: values N, callback equality) *)
(* ------------------------------------------------------------------------------------------------ *)

(* For every script of insert / insert_no_check / remove / find / find_next / find_next_with_collision_cb /
   lyht_dup (continuing on the duplicate) on lyht_new(2^k, resize): the printed results are those of the abstract
   run; when the abstract run completes, the table reached satisfies Rep (so by the first theorem no slot
   is lost or used twice in any reachable state: every prefix of a script is a script) and abstracts to
   the abstract result; when it stops, it stops at a C assert (E_ABORT: table full with resize = 0, a
   checked re-insertion meeting a duplicate stored with insert_no_check) - never E_OOB, never E_FUEL.
   Length bound: 3 * 2^26 operations, so that size << 1 stays inside uint32_t. *)
Theorem C17_ht_run_refines :
  forall k rz ops, k <= 26 -> rz <= 1 -> N.of_nat (length ops) <= 201326592 ->
    lyht_new 0 (2 ^ k) rz = Ok (init_tab 0 (new_sz k) rz) /\
    match a_nrun (mkamm rz (repeat [] (N.to_nat (new_sz k)))) ops [] with
    | (outs, Ok m') => exists t' cs' fl',
        nht_run (init_tab 0 (new_sz k) rz) ops [] = (outs, Ok t') /\ Rep 0 t' cs' fl' /\ abs 0 t' cs' = m'
    | (outs, Err e) => nht_run (init_tab 0 (new_sz k) rz) ops [] = (outs, Err e) /\ e = E_ABORT
    end.
Proof. exact nht_new_run_refines. Qed.
Print Assumptions C17_ht_run_refines.

(* With resizing enabled the free list is non-empty in every reachable state, whatever the script
   (also with insert_no_check): assert(rec_idx < ht->size) cannot fail. *)
Theorem C17_ht_run_free_rec :
  forall k ops, k <= 26 -> N.of_nat (length ops) <= 201326592 ->
    match nht_run (init_tab 0 (new_sz k) 1) ops [] with
    | (_, Ok t') => ht_ff t' < ht_size t'
    | (_, Err e) => e = E_ABORT
    end.
Proof. exact nht_new_run_free_rec. Qed.
Print Assumptions C17_ht_run_free_rec.

(* Scripts of checked operations (no insert_no_check) with resizing enabled never stop at all:
   no assertion of hash_table.c fails, every access is in bounds, the loops terminate. *)
Theorem C17_ht_checked_run_total :
  forall k ops, k <= 26 -> N.of_nat (length ops) <= 201326592 -> forallb checked_op ops = true ->
    exists outs t' cs' fl',
      nht_run (init_tab 0 (new_sz k) 1) ops [] = (outs, Ok t') /\ Rep 0 t' cs' fl' /\
      a_nrun (mkamm 1 (repeat [] (N.to_nat (new_sz k)))) ops [] = (outs, Ok (abs 0 t' cs')).
Proof. exact nht_new_checked_total. Qed.
Print Assumptions C17_ht_checked_run_total.

(* lyht_dup(): the duplicate satisfies Rep with the same chains and the same free list and holds the same
   content; resize 2 becomes 1.  (Before /repo commit d69e9c2 first_free_rec was not copied and this was
   refuted: an insert into the duplicate reused record 0.  The former witness scripts are kept below.) *)
Theorem C17_ht_dup_preserves_rep :
  forall V (vdef : V) (veq : bool -> V -> V -> bool) t cs fl, Rep vdef t cs fl ->
    exists t', lyht_dup vdef t = Ok t' /\ Rep vdef t' cs fl /\
               abs vdef t' cs = mkamm (dup_rz (ht_resize t)) (a_bk (abs vdef t cs)).
Proof. exact @lyht_dup_sim. Qed.
Print Assumptions C17_ht_dup_preserves_rep.

Example C17_ht_dup_regression :
  fst (nht_run (init_tab 0 8 1) [OpIns 1 1; OpDup; OpIns 2 2; OpFind 1 1] [])
    = [(LY_ERR_SUCCESS, Some 1); (LY_ERR_SUCCESS, None); (LY_ERR_SUCCESS, Some 2); (LY_ERR_SUCCESS, Some 1)] /\
  is_ok (snd (nht_run (init_tab 0 8 1) [OpIns 1 1; OpDup; OpIns 2 2; OpIns 3 3] [])) = true.
Proof. exact nht_dup_regression. Qed.

(* The load percentage r = used * 100 / size is exact for every used and size (64-bit product since /repo
   commit be54a69; with the uint32_t product it was refuted beyond 2^25 records): the enlarge test r >= 75
   and the shrink test r < 25 compare the true load.  The remaining length bound of the sequence theorems
   (3 * 2^26 operations) only keeps size << 1 inside uint32_t. *)
Theorem C17_ht_pct_exact :
  forall V (t : ht V), 0 < ht_size t ->
    (LYHT_ENLARGE_PERCENTAGE <= pct t <-> 75 * ht_size t <= ht_used t * 100) /\
    (pct t < LYHT_SHRINK_PERCENTAGE <-> ht_used t * 100 < 25 * ht_size t).
Proof. exact @pct_exact. Qed.
Print Assumptions C17_ht_pct_exact.

Example C17_ht_pct_former_witness :
  pct (mkht 55000000 67108864 2 0 (@nil hlist) (@nil (hrec N))) = 81.
Proof. exact pct_former_witness. Qed.

(* ------------------------------------------------------------------------------------------------ *)
(* 3. dictionary: reference counts balance                                                          *)
(* ------------------------------------------------------------------------------------------------ *)
(* Specification: a finite map f : string -> number of references.  sstep/srun (DictP.v):
     insert s, insert_zc s : answers (LY_SUCCESS, s), f s := f s + 1
     remove s : f s = 0 -> (LY_ENOTFOUND), f unchanged; otherwise (LY_SUCCESS), f s := f s - 1
     dup s    : f s = 0 -> (LY_ENOTFOUND), f unchanged; otherwise (LY_SUCCESS, s), f s := f s + 1
   [dcnt d cs x] = the reference count the table d stores for x (0 when there is no record);
   [DRep d cs fl] = Rep + load factor + one record per string, stored under hash lyht_hash(string), with
   1 <= refcount < 2^32. *)

(* For every script of lydict_insert / lydict_insert_zc / lydict_remove / lydict_dup on a fresh dictionary
   (lydict_init is k = 10) - removes and dups of strings that are not held included - the C functions run to completion
   (no assertion, no out-of-bounds access), give the answers of the finite map, and the table ends up
   storing exactly the finite map: a record for precisely the strings with a positive count, with that
   count. *)
Theorem C17_dict_refs_balance :
  forall k ops, k <= 26 -> N.of_nat (length ops) <= 201326592 ->
    exists d' cs' fl',
      dict_run (init_tab dvdef (new_sz k) 1) ops [] = (fst (srun (fun _ => 0) ops []), Ok d') /\
      DRep d' cs' fl' /\ forall x, dcnt d' cs' x = snd (srun (fun _ => 0) ops []) x.
Proof. exact dict_refs_balance. Qed.
Print Assumptions C17_dict_refs_balance.

(* In a script in which every remove / dup targets a string currently held, the finite map is
   (#inserts + #dups - #removes) per string. *)
Theorem C17_dict_counts :
  forall ops f acc x, svalid f ops -> snd (srun f ops acc) x + released ops x = f x + acquired ops x.
Proof. exact srun_counts. Qed.
Print Assumptions C17_dict_counts.

(* Hence after removing every reference taken the dictionary is empty: used = 0. *)
Theorem C17_dict_release_all_empty :
  forall k ops, k <= 26 -> N.of_nat (length ops) <= 201326592 ->
    (forall x, snd (srun (fun _ => 0) ops []) x = 0) ->
    exists d', dict_run (init_tab dvdef (new_sz k) 1) ops [] = (fst (srun (fun _ => 0) ops []), Ok d') /\
               ht_used d' = 0.
Proof. exact dict_release_all_empty. Qed.
Print Assumptions C17_dict_release_all_empty.

(* lydict_remove of a string that is not held reports LY_ENOTFOUND and changes nothing (one surplus
   release is detected, it cannot free a string some other holder still uses). *)
Theorem C17_dict_remove_not_held :
  forall d cs fl s n, DRep d cs fl -> Bnd (abs dvdef d cs) n -> 4 * n <= 2147483648 ->
    dcnt d cs s = 0 -> lydict_remove d s = Ok (LY_ERR_ENOTFOUND, d).
Proof. exact dict_remove_not_held. Qed.
Print Assumptions C17_dict_remove_not_held.

(* the hypotheses are satisfiable by non-trivial values: a script that grows the 8-record table twice,
   holds the same string twice, releases everything and ends empty *)
Example C17_dict_example :
  let ops := map (fun i => DIns [i]) [1;2;3;4;5;6;7;8;9;10;11;12;13;3;3] ++
             map (fun i => DRem [i]) [3;1;2;3;4;5;6;7;8;9;10;11;12;13;3;99] in
  svalid (fun _ => 0) (removelast ops) /\
  (exists d, snd (dict_run (init_tab dvdef (new_sz 3) 1) ops []) = Ok d /\ ht_used d = 0 /\ ht_size d = 8) /\
  last (fst (dict_run (init_tab dvdef (new_sz 3) 1) ops [])) (0, []) = (LY_ERR_ENOTFOUND, []).
Proof.
  cbv zeta. split; [vm_compute; repeat split; discriminate|]. split; [|vm_compute; reflexivity].
  eexists. split; [vm_compute; reflexivity|]. split; reflexivity.
Qed.
