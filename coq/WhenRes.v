(* WhenRes.v -- the fixpoint of lyd_validate_unres_when (src/validation.c, as of 7b3176d) on a flat abstraction.

   lyd_validate_unres() holds a set of QUEUED data nodes whose when conditions are to be evaluated. Since 7b3176d no
   queued node carries LYD_WHEN_TRUE while it waits, only the transient mark "was true before" (may be auto-deleted).
   One pass (lyd_validate_unres_when) walks the set from its end; for every node
     - the XPath evaluation of its when answers LY_EINCOMPLETE when it meets another node that is still queued
       (xpath.c: lysc_has_when && !(flags & LYD_WHEN_TRUE) && node != cur_node): the node stays queued;
     - when true: LYD_WHEN_TRUE is set, the node leaves the set;
     - when false: the node is deleted (and leaves the set) if it was true before, else the data are invalid;
   and lyd_validate_unres() repeats the pass for as long as the set shrank; afterwards the set must be empty
   (assert: "there could have been no cyclic when dependencies").

   Abstraction: a world is the list of present (node, value) entries, a condition is a boolean function of the world that
   reads only the entries of its DEPENDENCIES (deps), deleting a node removes its entry. Not modelled: the subtree of
   a deleted node (its descendants leave the world and the set with it), the schema-level sharing of one when by the
   instances of a list. *)
From Coq Require Import List Arith Lia Bool Permutation.
Import ListNotations.

Notation id := nat (only parsing).
Notation item := (nat * bool)%type (only parsing).          (* queued node, "was true before" *)

Inductive res (W : Type) := Done (w : W) | Err (n : id) | Stuck.
Arguments Done {W}. Arguments Err {W}. Arguments Stuck {W}.

Section WhenRes.
Variable val : Type.
Definition world := list (id * val).

Definition wdel (x : id) (w : world) : world := filter (fun p => negb (fst p =? x)) w.
Definition memb (x : id) (l : list id) : bool := existsb (fun y => y =? x) l.
(* the world after the nodes D were deleted from w0 *)
Definition wof (w0 : world) (D : list id) : world := filter (fun p => negb (memb (fst p) D)) w0.

Variable cond : id -> world -> bool.
Variable deps : id -> list id.

Definition entries (d : id) (w : world) := filter (fun p => fst p =? d) w.
Definition agree (l : list id) (w1 w2 : world) := forall d, In d l -> entries d w1 = entries d w2.

Definition qids (Q : list item) := map fst Q.
Definition queued (Q : list item) (x : id) := memb x (qids Q).
Definition qrm (x : id) (Q : list item) := filter (fun it => negb (fst it =? x)) Q.
Definition blocked (Q : list item) (n : id) := existsb (fun d => negb (d =? n) && queued Q d) (deps n).

(* one pass over the snapshot [todo] of the set *)
Fixpoint pass (todo : list item) (w : world) (Q : list item) : (world * list item) + id :=
  match todo with
  | [] => inl (w, Q)
  | (n, wt) :: t =>
      if blocked Q n then pass t w Q
      else if cond n w then pass t w (qrm n Q)
      else if wt then pass t (wdel n w) (qrm n Q)
      else inr n
  end.

(* lyd_validate_unres: passes from the end of the set while it shrinks *)
Fixpoint run (fuel : nat) (w : world) (Q : list item) : res world :=
  match Q with
  | [] => Done w
  | _ => match fuel with
         | 0 => Stuck
         | S f => match pass (rev Q) w Q with
                  | inr n => Err n
                  | inl (w', Q') => if length Q' <? length Q then run f w' Q' else Stuck
                  end
         end
  end.

(* ---- basic facts *)
Lemma memb_In x l : memb x l = true <-> In x l.
Proof. unfold memb. rewrite existsb_exists. split.
  - intros [y [H E]]. apply Nat.eqb_eq in E. now subst.
  - intros H. exists x. split; [assumption | apply Nat.eqb_refl]. Qed.

Lemma memb_false x l : memb x l = false <-> ~ In x l.
Proof. rewrite <- memb_In. destruct (memb x l); intuition congruence. Qed.

Lemma wdel_wof w0 D x : wdel x (wof w0 D) = wof w0 (x :: D).
Proof. unfold wdel, wof. induction w0 as [|p w IH]; [reflexivity|].
  cbn [filter]. change (memb (fst p) (x :: D)) with ((x =? fst p) || memb (fst p) D).
  destruct (memb (fst p) D) eqn:E.
  - rewrite orb_true_r. cbn [negb]. exact IH.
  - rewrite orb_false_r. cbn [negb filter]. rewrite (Nat.eqb_sym x). destruct (fst p =? x); cbn [negb].
    + exact IH.
    + f_equal. exact IH. Qed.

Lemma wof_nil w0 : wof w0 [] = w0.
Proof. unfold wof, memb. induction w0 as [|a w IH]; cbn in *; [reflexivity | now f_equal]. Qed.

Lemma wof_ext w0 D1 D2 : (forall x, In x D1 <-> In x D2) -> wof w0 D1 = wof w0 D2.
Proof. intros H. unfold wof. apply filter_ext. intros p. f_equal.
  destruct (memb (fst p) D1) eqn:E1, (memb (fst p) D2) eqn:E2; try reflexivity.
  - apply memb_In in E1. apply H in E1. apply memb_In in E1. congruence.
  - apply memb_In in E2. apply H in E2. apply memb_In in E2. congruence. Qed.

Lemma entries_wof d w0 D : entries d (wof w0 D) = if memb d D then [] else entries d w0.
Proof. unfold entries, wof. destruct (memb d D) eqn:M; induction w0 as [|p w IH]; cbn [filter]; try reflexivity.
  - destruct (memb (fst p) D) eqn:E; cbn [negb]; [exact IH|]. cbn [filter]. destruct (fst p =? d) eqn:E2; [|exact IH].
    apply Nat.eqb_eq in E2. rewrite E2 in E. congruence.
  - destruct (fst p =? d) eqn:E2.
    + assert (E3 : memb (fst p) D = false) by (apply Nat.eqb_eq in E2; now rewrite E2).
      rewrite E3. cbn [negb filter]. rewrite E2. now f_equal.
    + destruct (memb (fst p) D); cbn [negb filter]; [exact IH|]. rewrite E2. exact IH. Qed.

(* worlds that differ in deleted nodes outside l agree on l *)
Lemma agree_wof l w0 D1 D2 : (forall d, In d l -> memb d D1 = memb d D2) -> agree l (wof w0 D1) (wof w0 D2).
Proof. intros H d Hd. rewrite !entries_wof. now rewrite (H d Hd). Qed.

Lemma qids_qrm x Q y : In y (qids (qrm x Q)) <-> In y (qids Q) /\ y <> x.
Proof. unfold qids, qrm. rewrite !in_map_iff. split.
  - intros [it [E H]]. apply filter_In in H. destruct H as [H1 H2]. subst y. split.
    + exists it. auto.
    + apply negb_true_iff in H2. now apply Nat.eqb_neq in H2.
  - intros [[it [E H]] N]. exists it. split; [assumption|]. apply filter_In. split; [assumption|].
    apply negb_true_iff. apply Nat.eqb_neq. congruence. Qed.

Lemma In_qrm x Q it : In it (qrm x Q) <-> In it Q /\ fst it <> x.
Proof. unfold qrm. rewrite filter_In. rewrite negb_true_iff, Nat.eqb_neq. tauto. Qed.

Lemma qrm_len x Q : length (qrm x Q) <= length Q.
Proof. unfold qrm. induction Q as [|a Q IH]; cbn; [lia|]. destruct (negb (fst a =? x)); cbn; lia. Qed.

Lemma qrm_len_lt x Q : In x (qids Q) -> length (qrm x Q) < length Q.
Proof. unfold qrm, qids. induction Q as [|a Q IH]; cbn; [easy|]. intros [E|H].
  - subst x. rewrite Nat.eqb_refl. cbn. pose proof (qrm_len (fst a) Q). unfold qrm in H. lia.
  - destruct (negb (fst a =? x)); cbn; specialize (IH H); lia. Qed.

Lemma qrm_id x Q : ~ In x (qids Q) -> qrm x Q = Q.
Proof. unfold qrm, qids. induction Q as [|a Q IH]; cbn; [reflexivity|]. intros H.
  destruct (fst a =? x) eqn:E.
  - apply Nat.eqb_eq in E. exfalso. apply H. now left.
  - cbn. f_equal. apply IH. intros H1. apply H. now right. Qed.

Lemma queued_In Q x : queued Q x = true <-> In x (qids Q).
Proof. apply memb_In. Qed.

Lemma blocked_false Q n : blocked Q n = false <-> forall d, In d (deps n) -> d <> n -> ~ In d (qids Q).
Proof. unfold blocked. split.
  - intros H d Hd Hn Hq. assert (existsb (fun d => negb (d =? n) && queued Q d) (deps n) = true); [|congruence].
    apply existsb_exists. exists d. split; [assumption|]. apply andb_true_iff. split.
    + apply negb_true_iff. now apply Nat.eqb_neq.
    + now apply queued_In.
  - intros H. destruct (existsb _ (deps n)) eqn:E; [|reflexivity]. apply existsb_exists in E.
    destruct E as [d [Hd E]]. apply andb_true_iff in E. destruct E as [E1 E2].
    apply negb_true_iff in E1. apply Nat.eqb_neq in E1. apply queued_In in E2. exfalso. exact (H d Hd E1 E2). Qed.

(* ---- termination *)
Lemma pass_len todo : forall w Q w' Q', pass todo w Q = inl (w', Q') -> length Q' <= length Q.
Proof. induction todo as [|[n wt] t IH]; cbn [pass]; intros w Q w' Q' H.
  - inversion H; subst. lia.
  - destruct (blocked Q n); [eauto|]. destruct (cond n w).
    + apply IH in H. pose proof (qrm_len n Q). lia.
    + destruct wt; [|discriminate]. apply IH in H. pose proof (qrm_len n Q). lia. Qed.

Lemma pass_incl todo : forall w Q w' Q', pass todo w Q = inl (w', Q') -> incl Q' Q.
Proof. induction todo as [|[n wt] t IH]; cbn [pass]; intros w Q w' Q' H.
  - inversion H; subst. apply incl_refl.
  - destruct (blocked Q n); [eauto|]. destruct (cond n w).
    + apply IH in H. intros it Hi. apply H in Hi. apply In_qrm in Hi. tauto.
    + destruct wt; [|discriminate]. apply IH in H. intros it Hi. apply H in Hi. apply In_qrm in Hi. tauto. Qed.

(* a queued node of the snapshot whose dependencies are not queued leaves the set in this pass *)
Lemma pass_progress todo : forall w Q w' Q' m,
  In m (qids todo) -> In m (qids Q) -> (forall d, In d (deps m) -> ~ In d (qids Q)) ->
  pass todo w Q = inl (w', Q') -> length Q' < length Q.
Proof. induction todo as [|[n wt] t IH]; cbn [pass]; intros w Q w' Q' m Ht Hq Hd H; [easy|].
  destruct (Nat.eq_dec n m) as [E|N].
  - subst n. assert (B : blocked Q m = false) by (apply blocked_false; intros d D1 _; auto).
    rewrite B in H. destruct (cond m w).
    + apply pass_len in H. pose proof (qrm_len_lt m Q Hq). lia.
    + destruct wt; [|discriminate]. apply pass_len in H. pose proof (qrm_len_lt m Q Hq). lia.
  - destruct Ht as [E|Ht]; [cbn in E; congruence|]. change (In m (qids t)) in Ht.
    assert (Hq' : In m (qids (qrm n Q))) by (apply qids_qrm; split; auto).
    assert (Hd' : forall d, In d (deps m) -> ~ In d (qids (qrm n Q))).
    { intros d D1 D2. apply qids_qrm in D2. exact (Hd d D1 (proj1 D2)). }
    destruct (blocked Q n); [eapply IH; eauto|]. destruct (cond n w).
    + pose proof (IH _ _ _ _ m Ht Hq' Hd' H). pose proof (qrm_len n Q). lia.
    + destruct wt; [|discriminate]. pose proof (IH _ _ _ _ m Ht Hq' Hd' H). pose proof (qrm_len n Q). lia. Qed.

Variable rank : id -> nat.
Hypothesis acyclic : forall n d, In d (deps n) -> rank d < rank n.

Lemma min_rank (l : list id) : l <> [] -> exists m, In m l /\ forall x, In x l -> rank m <= rank x.
Proof. induction l as [|a l IH]; [easy|]. intros _. destruct l as [|b l].
  - exists a. split; [now left|]. intros x [E|[]]. subst. lia.
  - destruct IH as [m [Hm Hmin]]; [easy|]. destruct (le_lt_dec (rank a) (rank m)).
    + exists a. split; [now left|]. intros x [E|H]; [subst; lia|]. specialize (Hmin x H). lia.
    + exists m. split; [now right|]. intros x [E|H]; [subst; lia|]. auto. Qed.

Lemma pass_shrinks w Q w' Q' todo : Q <> [] -> (forall x, In x (qids Q) -> In x (qids todo)) ->
  pass todo w Q = inl (w', Q') -> length Q' < length Q.
Proof. intros NE Hsub H. destruct (min_rank (qids Q)) as [m [Hm Hmin]].
  { destruct Q; [easy|discriminate]. }
  apply (pass_progress todo w Q w' Q' m (Hsub m Hm) Hm); [|exact H].
  intros d Hd Hq. specialize (Hmin d Hq). specialize (acyclic m d Hd). lia. Qed.

(* fuel = number of queued nodes suffices, and the assertion after the loop holds *)
Theorem run_terminates fuel : forall w Q, length Q <= fuel -> run fuel w Q <> Stuck.
Proof. induction fuel as [|f IH]; intros w Q HL.
  - destruct Q; [cbn; discriminate | cbn in HL; lia].
  - destruct Q as [|a Q0]; [cbn; discriminate|]. set (Q := a :: Q0) in *.
    change (run (S f) w Q) with (match pass (rev Q) w Q with inr n => Err n
      | inl (w', Q') => if length Q' <? length Q then run f w' Q' else Stuck end).
    destruct (pass (rev Q) w Q) as [[w' Q']|n] eqn:E; [|discriminate].
    assert (L : length Q' < length Q).
    { apply (pass_shrinks _ Q _ Q' (rev Q)) in E; [exact E | subst Q; discriminate |].
      intros x Hx. unfold qids in *. rewrite map_rev. now apply in_rev in Hx. }
    apply Nat.ltb_lt in L. rewrite L. apply IH. apply Nat.ltb_lt in L. lia. Qed.

(* a set in which every node was true before (the entry of lyd_new_implicit_*: only nodes it created are queued) is
   resolved without an error *)
Lemma pass_no_err todo : forall w Q, forallb snd todo = true -> forall n, pass todo w Q <> inr n.
Proof. induction todo as [|[m wt] t IH]; cbn [pass forallb]; intros w Q H n; [discriminate|].
  apply andb_true_iff in H. destruct H as [H1 H2]. cbn in H1. subst wt.
  destruct (blocked Q m); [now apply IH|]. destruct (cond m w); now apply IH. Qed.

Lemma forallb_incl {A} (f : A -> bool) l1 l2 : incl l1 l2 -> forallb f l2 = true -> forallb f l1 = true.
Proof. intros I H. apply forallb_forall. intros x Hx. rewrite forallb_forall in H. apply H. now apply I. Qed.

Theorem run_all_true_done fuel : forall w Q, length Q <= fuel -> forallb snd Q = true -> exists w', run fuel w Q = Done w'.
Proof. induction fuel as [|f IH]; intros w Q HL HT.
  - destruct Q; [cbn; eauto | cbn in HL; lia].
  - destruct Q as [|a Q0]; [cbn; eauto|]. set (Q := a :: Q0) in *.
    change (run (S f) w Q) with (match pass (rev Q) w Q with inr n => Err n
      | inl (w', Q') => if length Q' <? length Q then run f w' Q' else Stuck end).
    destruct (pass (rev Q) w Q) as [[w' Q']|n] eqn:E.
    + assert (L : length Q' < length Q).
      { apply (pass_shrinks _ Q _ Q' (rev Q)) in E; [exact E | subst Q; discriminate |].
        intros x Hx. unfold qids in *. rewrite map_rev. now apply in_rev in Hx. }
      pose proof L as L2. apply Nat.ltb_lt in L. rewrite L. apply IH; [lia|].
      apply (forallb_incl snd Q' Q); [exact (pass_incl _ _ _ _ _ E) | exact HT].
    + exfalso. apply (pass_no_err (rev Q) w Q) with (n := n); [|exact E].
      apply (forallb_incl snd (rev Q) Q); [intros x Hx; now apply in_rev in Hx | exact HT]. Qed.

(* ---- what a run computes: a stable solution *)
(* D = the deleted nodes: queued, was-true, condition false in the final world; every other queued node has a true condition *)
Definition Sol (w0 : world) (Q0 : list item) (D : list id) :=
  (forall x, In x D -> In x (qids Q0)) /\
  forall n wt, In (n, wt) Q0 ->
    if memb n D then cond n (wof w0 D) = false /\ wt = true else cond n (wof w0 D) = true.

Hypothesis cond_deps : forall n w1 w2, agree (deps n) w1 w2 -> cond n w1 = cond n w2.

Lemma not_self n : ~ In n (deps n).
Proof. intros H. specialize (acyclic n n H). lia. Qed.

Section Sound.
Variable w0 : world.
Variable Q0 : list item.
Hypothesis nodup : NoDup (qids Q0).

(* resolved nodes are decided for good: their dependencies are resolved too *)
Record SInv (D : list id) (Q : list item) : Prop := {
  s_sub : incl Q Q0;
  s_del : forall x, In x D -> In x (qids Q0) /\ ~ In x (qids Q);
  s_res : forall n wt, In (n, wt) Q0 -> ~ In n (qids Q) ->
            (forall d, In d (deps n) -> ~ In d (qids Q)) /\
            if memb n D then cond n (wof w0 D) = false /\ wt = true else cond n (wof w0 D) = true }.

Lemma flag_unique n wt wt' : In (n, wt) Q0 -> In (n, wt') Q0 -> wt = wt'.
Proof. clear acyclic cond_deps. revert nodup. unfold qids. induction Q0 as [|a Q IH]; cbn; [easy|].
  intros ND H1 H2. apply NoDup_cons_iff in ND. destruct ND as [NI ND].
  destruct H1 as [E1|H1], H2 as [E2|H2].
  - congruence.
  - subst a. exfalso. apply NI. apply in_map_iff. exists (n, wt'). auto.
  - subst a. exfalso. apply NI. apply in_map_iff. exists (n, wt). auto.
  - auto. Qed.

Lemma SInv_keep D Q n wt : SInv D Q -> In (n, wt) Q -> blocked Q n = false -> cond n (wof w0 D) = true ->
  SInv D (qrm n Q).
Proof. intros I Hn B C. destruct I as [I1 I2 I3]. split.
  - intros it H. apply In_qrm in H. apply I1. tauto.
  - intros x Hx. destruct (I2 x Hx) as [A1 A2]. split; [assumption|]. intros H. apply qids_qrm in H. tauto.
  - intros m wm Hm Hq. destruct (Nat.eq_dec m n) as [E|N].
    + subst m. split.
      * intros d Hd H. apply qids_qrm in H. destruct H as [H1 H2].
        exact (proj1 (blocked_false Q n) B d Hd H2 H1).
      * assert (M : memb n D = false).
        { apply memb_false. intros H. apply (proj2 (I2 n H)). apply in_map_iff. exists (n, wt). auto. }
        rewrite M. exact C.
    + assert (Hq' : ~ In m (qids Q)). { intros H. apply Hq. apply qids_qrm. auto. }
      destruct (I3 m wm Hm Hq') as [A1 A2]. split; [|assumption].
      intros d Hd H. apply qids_qrm in H. exact (A1 d Hd (proj1 H)). Qed.

Lemma SInv_del D Q n : SInv D Q -> In (n, true) Q -> blocked Q n = false -> cond n (wof w0 D) = false ->
  SInv (n :: D) (qrm n Q).
Proof. intros I Hn B C. destruct I as [I1 I2 I3].
  assert (HnQ : In n (qids Q)) by (apply in_map_iff; exists (n, true); auto).
  split.
  - intros it H. apply In_qrm in H. apply I1. tauto.
  - intros x [E|Hx].
    + subst x. split.
      * apply in_map_iff. exists (n, true). split; [reflexivity|]. now apply I1.
      * intros H. apply qids_qrm in H. tauto.
    + destruct (I2 x Hx) as [A1 A2]. split; [assumption|]. intros H. apply qids_qrm in H. tauto.
  - intros m wm Hm Hq. destruct (Nat.eq_dec m n) as [E|N].
    + subst m. split.
      * intros d Hd H. apply qids_qrm in H. destruct H as [H1 H2].
        exact (proj1 (blocked_false Q n) B d Hd H2 H1).
      * assert (M : memb n (n :: D) = true) by (apply memb_In; now left). rewrite M. split.
        -- rewrite <- C. apply cond_deps. apply agree_wof. intros d Hd. cbn.
           destruct (n =? d) eqn:E; [|reflexivity]. apply Nat.eqb_eq in E. subst d. exfalso. exact (not_self n Hd).
        -- apply (flag_unique n wm true Hm). now apply I1.
    + assert (Hq' : ~ In m (qids Q)). { intros H. apply Hq. apply qids_qrm. auto. }
      destruct (I3 m wm Hm Hq') as [A1 A2]. split.
      * intros d Hd H. apply qids_qrm in H. exact (A1 d Hd (proj1 H)).
      * assert (EM : memb m (n :: D) = memb m D).
        { cbn. destruct (n =? m) eqn:E; [|reflexivity]. apply Nat.eqb_eq in E. congruence. }
        rewrite EM.
        assert (EC : cond m (wof w0 (n :: D)) = cond m (wof w0 D)).
        { apply cond_deps. apply agree_wof. intros d Hd. cbn. destruct (n =? d) eqn:E; [|reflexivity].
          apply Nat.eqb_eq in E. subst d. exfalso. exact (A1 n Hd HnQ). }
        rewrite EC. exact A2. Qed.

Lemma pass_SInv todo : forall D Q w' Q', incl todo Q0 -> SInv D Q ->
  pass todo (wof w0 D) Q = inl (w', Q') -> exists D', w' = wof w0 D' /\ SInv D' Q'.
Proof. induction todo as [|[n wt] t IH]; cbn [pass]; intros D Q w' Q' Ht I H.
  - inversion H; subst. eauto.
  - assert (Ht' : incl t Q0) by (intros x Hx; apply Ht; now right).
    destruct (blocked Q n) eqn:B; [eauto|].
    destruct (in_dec Nat.eq_dec n (qids Q)) as [HQ|HQ].
    + assert (HI : In (n, wt) Q).
      { apply in_map_iff in HQ. destruct HQ as [[n' wt'] [E HI]]. cbn in E. subst n'.
        assert (wt' = wt); [|subst; assumption].
        apply (flag_unique n); [now apply (s_sub _ _ I) | apply Ht; now left]. }
      destruct (cond n (wof w0 D)) eqn:C.
      * exact (IH D (qrm n Q) w' Q' Ht' (SInv_keep D Q n wt I HI B C) H).
      * destruct wt; [|discriminate]. rewrite wdel_wof in H.
        exact (IH (n :: D) (qrm n Q) w' Q' Ht' (SInv_del D Q n I HI B C) H).
    + (* already resolved in this pass (cannot happen for a duplicate-free snapshot, harmless) *)
      assert (R : qrm n Q = Q) by (now apply qrm_id).
      rewrite R in H. destruct (s_res _ _ I n wt (Ht _ (or_introl eq_refl)) HQ) as [_ A].
      destruct (cond n (wof w0 D)) eqn:C; [eauto|]. destruct wt; [|discriminate].
      destruct (memb n D) eqn:M; [|congruence].
      rewrite wdel_wof in H. rewrite (wof_ext w0 (n :: D) D) in H; [eauto|].
      intros x. split; [intros [E|Hx]; [subst; now apply memb_In|assumption] | now right]. Qed.

Lemma run_SInv fuel : forall D Q w, SInv D Q -> run fuel (wof w0 D) Q = Done w ->
  exists D', w = wof w0 D' /\ SInv D' [].
Proof. induction fuel as [|f IH]; intros D Q w I H.
  - destruct Q; [|discriminate]. injection H as E. subst. eauto.
  - destruct Q as [|a Q1]; [injection H as E; subst; eauto|]. set (Q := a :: Q1) in *.
    change (run (S f) (wof w0 D) Q) with (match pass (rev Q) (wof w0 D) Q with inr n => Err n
      | inl (w', Q') => if length Q' <? length Q then run f w' Q' else Stuck end) in H.
    destruct (pass (rev Q) (wof w0 D) Q) as [[w' Q']|n] eqn:E; [|discriminate].
    destruct (length Q' <? length Q); [|discriminate].
    apply pass_SInv in E; auto.
    + destruct E as [D' [E1 E2]]. subst w'. eapply IH; eauto.
    + intros x Hx. apply in_rev in Hx. now apply (s_sub _ _ I). Qed.

Lemma SInv_init : SInv [] Q0.
Proof. split; [apply incl_refl | easy | intros n wt H N; exfalso; apply N; apply in_map_iff; exists (n, wt); auto]. Qed.

(* soundness: a successful run ends in a stable solution *)
Theorem run_sound fuel w : run fuel w0 Q0 = Done w -> exists D, w = wof w0 D /\ Sol w0 Q0 D.
Proof. intros H. rewrite <- (wof_nil w0) in H at 1. apply (run_SInv _ _ _ _ SInv_init) in H.
  destruct H as [D [E I]]. exists D. split; [assumption|]. split.
  - intros x Hx. exact (proj1 (s_del _ _ I x Hx)).
  - intros n wt Hn. exact (proj2 (s_res _ _ I n wt Hn (fun F => F))). Qed.

(* completeness: when a stable solution exists every run finds it, in whatever order the set is walked *)
Variable Df : list id.
Hypothesis sol : Sol w0 Q0 Df.

Record CInv (D : list id) (Q : list item) : Prop := {
  c_sub : incl Q Q0;
  c_in : forall x, In x D -> In x Df /\ ~ In x (qids Q);
  c_rest : forall x, In x Df -> ~ In x D -> In x (qids Q) }.

Lemma CInv_cond D Q n : CInv D Q -> blocked Q n = false -> cond n (wof w0 D) = cond n (wof w0 Df).
Proof. intros I B. apply cond_deps. apply agree_wof. intros d Hd.
  assert (N : d <> n) by (intros E; subst; exact (not_self n Hd)).
  pose proof (proj1 (blocked_false Q n) B d Hd N) as HQ.
  destruct (memb d D) eqn:E1, (memb d Df) eqn:E2; try reflexivity.
  - apply memb_In in E1. apply memb_false in E2. exfalso. apply E2. exact (proj1 (c_in _ _ I d E1)).
  - apply memb_In in E2. apply memb_false in E1. exfalso. exact (HQ (c_rest _ _ I d E2 E1)). Qed.

Lemma pass_CInv todo : forall D Q, incl todo Q0 -> CInv D Q ->
  exists D' Q', pass todo (wof w0 D) Q = inl (wof w0 D', Q') /\ CInv D' Q'.
Proof. induction todo as [|[n wt] t IH]; cbn [pass]; intros D Q Ht I; [eauto|].
  assert (Ht' : incl t Q0) by (intros x Hx; apply Ht; now right).
  destruct (blocked Q n) eqn:B; [eauto|].
  rewrite (CInv_cond D Q n I B).
  pose proof (proj2 sol n wt (Ht _ (or_introl eq_refl))) as S.
  destruct (memb n Df) eqn:M.
  - destruct S as [S1 S2]. rewrite S1. subst wt. rewrite wdel_wof.
    destruct (in_dec Nat.eq_dec n D) as [HD|HD].
    + (* deleted before (duplicate in the snapshot) *)
      rewrite (wof_ext w0 (n :: D) D).
      * apply IH; auto. destruct I as [I1 I2 I3]. split.
        -- intros it H. apply In_qrm in H. apply I1. tauto.
        -- intros x Hx. destruct (I2 x Hx) as [A1 A2]. split; [assumption|]. intros H. apply qids_qrm in H. tauto.
        -- intros x H1 H2. apply qids_qrm. split; [auto|]. intros E. subst. contradiction.
      * intros x. split; [intros [E|Hx]; [subst|]; assumption | now right].
    + apply IH; auto. destruct I as [I1 I2 I3]. split.
      * intros it H. apply In_qrm in H. apply I1. tauto.
      * intros x [E|Hx].
        -- subst x. split; [now apply memb_In|]. intros H. apply qids_qrm in H. tauto.
        -- destruct (I2 x Hx) as [A1 A2]. split; [assumption|]. intros H. apply qids_qrm in H. tauto.
      * intros x H1 H2. apply qids_qrm. split.
        -- apply I3; [assumption|]. intros H. apply H2. now right.
        -- intros E. apply H2. now left.
  - rewrite S. apply IH; auto. destruct I as [I1 I2 I3]. split.
    + intros it H. apply In_qrm in H. apply I1. tauto.
    + intros x Hx. destruct (I2 x Hx) as [A1 A2]. split; [assumption|]. intros H. apply qids_qrm in H. tauto.
    + intros x H1 H2. apply qids_qrm. split; [auto|]. intros E. subst x. apply memb_false in M. contradiction. Qed.

Lemma run_CInv fuel : forall D Q, length Q <= fuel -> CInv D Q -> run fuel (wof w0 D) Q = Done (wof w0 Df).
Proof. induction fuel as [|f IH]; intros D Q HL I.
  - destruct Q; [|cbn in HL; lia]. cbn. f_equal. apply wof_ext. intros x. split.
    + intros H. exact (proj1 (c_in _ _ I x H)).
    + intros H. destruct (in_dec Nat.eq_dec x D) as [|N]; [assumption|]. destruct (c_rest _ _ I x H N).
  - destruct Q as [|a Q1].
    + cbn. f_equal. apply wof_ext. intros x. split.
      * intros H. exact (proj1 (c_in _ _ I x H)).
      * intros H. destruct (in_dec Nat.eq_dec x D) as [|N]; [assumption|]. destruct (c_rest _ _ I x H N).
    + set (Q := a :: Q1) in *.
      change (run (S f) (wof w0 D) Q) with (match pass (rev Q) (wof w0 D) Q with inr n => Err n
        | inl (w', Q') => if length Q' <? length Q then run f w' Q' else Stuck end).
      destruct (pass_CInv (rev Q) D Q) as [D' [Q' [E I']]]; auto.
      { intros x Hx. apply in_rev in Hx. now apply (c_sub _ _ I). }
      rewrite E.
      assert (L : length Q' < length Q).
      { apply (pass_shrinks _ Q _ Q' (rev Q)) in E; [exact E | subst Q; discriminate |].
      intros x Hx. unfold qids in *. rewrite map_rev. now apply in_rev in Hx. }
      pose proof L as L2. apply Nat.ltb_lt in L. rewrite L. apply IH; [lia|assumption]. Qed.

Theorem run_complete fuel : length Q0 <= fuel -> run fuel w0 Q0 = Done (wof w0 Df).
Proof. intros HL. rewrite <- (wof_nil w0) at 1. apply run_CInv; [assumption|]. split.
  - apply incl_refl.
  - easy.
  - intros x H _. exact (proj1 sol x H). Qed.

End Sound.

(* ---- the three statements *)
Lemma Sol_perm w0 Q1 Q2 D : Permutation Q1 Q2 -> Sol w0 Q1 D -> Sol w0 Q2 D.
Proof. intros P [S1 S2]. split.
  - intros x Hx. unfold qids. apply (Permutation_in _ (Permutation_map fst P)). now apply S1.
  - intros n wt H. apply S2. apply (Permutation_in _ (Permutation_sym P) H). Qed.

(* the result does not depend on the order of the set *)
Theorem run_order_independent w0 Q1 Q2 f1 f2 : NoDup (qids Q1) -> Permutation Q1 Q2 ->
  length Q1 <= f1 -> length Q2 <= f2 ->
  (forall w, run f1 w0 Q1 = Done w -> run f2 w0 Q2 = Done w) /\
  ((exists n, run f1 w0 Q1 = Err n) -> exists n, run f2 w0 Q2 = Err n).
Proof. intros ND P L1 L2.
  assert (ND2 : NoDup (qids Q2)) by (apply (Permutation_NoDup (Permutation_map fst P) ND)).
  split.
  - intros w H. destruct (run_sound w0 Q1 ND f1 w H) as [D [E S]]. subst w.
    apply (run_complete w0 Q2 D (Sol_perm _ _ _ _ P S)). exact L2.
  - intros [n H]. destruct (run f2 w0 Q2) as [w| m |] eqn:E.
    + destruct (run_sound w0 Q2 ND2 f2 w E) as [D [E' S]].
      rewrite (run_complete w0 Q1 D (Sol_perm _ _ _ _ (Permutation_sym P) S) f1 L1) in H. discriminate.
    + eauto.
    + exfalso. exact (run_terminates f2 w0 Q2 L2 E). Qed.

(* the next validation queues the surviving nodes again, all of them "were true": nothing changes *)
Definition requeue (Q : list item) (D : list id) : list item :=
  map (fun it => (fst it, true)) (filter (fun it => negb (memb (fst it) D)) Q).

(* resolving in phases: first the set Q1, then - on the resulting world - the set Q2, gives what one resolution of both sets
   gives, provided no condition of Q1 reads a node of Q2 (lyd_new_implicit_module: the new top-level nodes first, then
   the new nested nodes root by root) *)
Lemma memb_app x D1 D2 : memb x (D1 ++ D2) = memb x D1 || memb x D2.
Proof. unfold memb. apply existsb_app. Qed.

Lemma wof_app w0 D1 D2 : wof (wof w0 D1) D2 = wof w0 (D1 ++ D2).
Proof. unfold wof. induction w0 as [|p w IH]; [reflexivity|]. cbn [filter]. rewrite memb_app.
  destruct (memb (fst p) D1); cbn [negb orb filter]; [exact IH|].
  destruct (memb (fst p) D2); cbn [negb]; [exact IH | f_equal; exact IH]. Qed.

Lemma NoDup_app_parts (l1 l2 : list nat) : NoDup (l1 ++ l2) ->
  NoDup l1 /\ NoDup l2 /\ forall x, In x l1 -> In x l2 -> False.
Proof. induction l1 as [|a l IH]; cbn; intros H.
  - split; [constructor|]. split; [assumption|easy].
  - inversion H as [|? ? NI ND]; subst. destruct (IH ND) as [A [B C]]. split.
    + constructor; [|assumption]. intros F. apply NI. apply in_or_app. now left.
    + split; [assumption|]. intros x [E|Hx] H2.
      * subst. apply NI. apply in_or_app. now right.
      * exact (C x Hx H2). Qed.

Theorem run_split w0 Q1 Q2 f1 f2 f w1 w2 :
  NoDup (qids (Q1 ++ Q2)) ->
  (forall n wt d, In (n, wt) Q1 -> In d (deps n) -> ~ In d (qids Q2)) ->
  run f1 w0 Q1 = Done w1 -> run f2 w1 Q2 = Done w2 -> length (Q1 ++ Q2) <= f ->
  run f w0 (Q1 ++ Q2) = Done w2.
Proof. intros ND Hd H1 H2 L.
  assert (ND' := ND). unfold qids in ND'. rewrite map_app in ND'.
  destruct (NoDup_app_parts _ _ ND') as [ND1 [ND2 Disj]].
  destruct (run_sound w0 Q1 ND1 f1 w1 H1) as [D1 [E1 S1]]. subst w1.
  destruct (run_sound (wof w0 D1) Q2 ND2 f2 w2 H2) as [D2 [E2 S2]]. subst w2.
  rewrite wof_app. apply run_complete; [|exact L]. split.
  - intros x Hx. unfold qids. rewrite map_app. apply in_or_app. apply in_app_or in Hx.
    destruct Hx as [Hx|Hx]; [left; exact (proj1 S1 x Hx) | right; exact (proj1 S2 x Hx)].
  - intros n wt Hn. rewrite memb_app. apply in_app_or in Hn. destruct Hn as [Hn|Hn].
    + assert (N2 : memb n D2 = false).
      { apply memb_false. intros A. apply (Disj n); [apply in_map_iff; exists (n, wt); auto | exact (proj1 S2 n A)]. }
      rewrite N2, orb_false_r.
      assert (EC : cond n (wof w0 (D1 ++ D2)) = cond n (wof w0 D1)).
      { apply cond_deps. apply agree_wof. intros d Hdd. rewrite memb_app.
        assert (M : memb d D2 = false); [|now rewrite M, orb_false_r].
        apply memb_false. intros A. exact (Hd n wt d Hn Hdd (proj1 S2 d A)). }
      rewrite EC. exact (proj2 S1 n wt Hn).
    + assert (N1 : memb n D1 = false).
      { apply memb_false. intros A. apply (Disj n); [exact (proj1 S1 n A) | apply in_map_iff; exists (n, wt); auto]. }
      rewrite N1. cbn [orb]. rewrite <- wof_app. exact (proj2 S2 n wt Hn). Qed.

(* ... and the second phase may start on a world that gained NEW entries E in between (lyd_new_implicit_module creates
   the nested default nodes only after the top-level ones were resolved), provided the first phase reads none of them *)
Lemma entries_app d (w1 w2 : world) : entries d (w1 ++ w2) = entries d w1 ++ entries d w2.
Proof. unfold entries. apply filter_app. Qed.

Lemma wof_app_l w1 w2 D : wof (w1 ++ w2) D = wof w1 D ++ wof w2 D.
Proof. unfold wof. apply filter_app. Qed.

Lemma wof_untouched (E : world) D : (forall x, In x D -> entries x E = []) -> wof E D = E.
Proof. unfold wof, entries. induction E as [|p E IH]; intros H; [reflexivity|]. cbn [filter].
  assert (M : memb (fst p) D = false).
  { apply memb_false. intros A. specialize (H (fst p) A). cbn [filter] in H. rewrite Nat.eqb_refl in H. discriminate. }
  rewrite M. cbn [negb]. f_equal. apply IH. intros x Hx. specialize (H x Hx). cbn [filter] in H.
  destruct (fst p =? x); [discriminate | exact H]. Qed.

Theorem run_split_ext w0 (E : world) Q1 Q2 f1 f2 f w1 w2 :
  NoDup (qids (Q1 ++ Q2)) ->
  (forall n wt d, In (n, wt) Q1 -> In d (deps n) -> ~ In d (qids Q2) /\ entries d E = []) ->
  (forall x, In x (qids Q1) -> entries x E = []) ->
  run f1 w0 Q1 = Done w1 -> run f2 (w1 ++ E) Q2 = Done w2 -> length (Q1 ++ Q2) <= f ->
  run f (w0 ++ E) (Q1 ++ Q2) = Done w2.
Proof. intros ND Hd HE H1 H2 L.
  assert (ND' := ND). unfold qids in ND'. rewrite map_app in ND'.
  destruct (NoDup_app_parts _ _ ND') as [ND1 [ND2 Disj]].
  destruct (run_sound w0 Q1 ND1 f1 w1 H1) as [D1 [E1 S1]]. subst w1.
  assert (EW : wof w0 D1 ++ E = wof (w0 ++ E) D1).
  { rewrite wof_app_l. f_equal. symmetry. apply wof_untouched. intros x Hx. apply HE. exact (proj1 S1 x Hx). }
  rewrite EW in H2.
  destruct (run_sound (wof (w0 ++ E) D1) Q2 ND2 f2 w2 H2) as [D2 [E2 S2]]. subst w2.
  rewrite wof_app. apply run_complete; [|exact L]. split.
  - intros x Hx. unfold qids. rewrite map_app. apply in_or_app. apply in_app_or in Hx.
    destruct Hx as [Hx|Hx]; [left; exact (proj1 S1 x Hx) | right; exact (proj1 S2 x Hx)].
  - intros n wt Hn. rewrite memb_app. apply in_app_or in Hn. destruct Hn as [Hn|Hn].
    + assert (N2 : memb n D2 = false).
      { apply memb_false. intros A. apply (Disj n); [apply in_map_iff; exists (n, wt); auto | exact (proj1 S2 n A)]. }
      rewrite N2, orb_false_r.
      assert (EC : cond n (wof (w0 ++ E) (D1 ++ D2)) = cond n (wof w0 D1)).
      { apply cond_deps. intros d Hdd. destruct (Hd n wt d Hn Hdd) as [Hq He]. rewrite !entries_wof, memb_app.
        assert (M : memb d D2 = false) by (apply memb_false; intros A; exact (Hq (proj1 S2 d A))).
        rewrite M, orb_false_r. destruct (memb d D1); [reflexivity|]. rewrite entries_app, He. apply app_nil_r. }
      rewrite EC. exact (proj2 S1 n wt Hn).
    + assert (N1 : memb n D1 = false).
      { apply memb_false. intros A. apply (Disj n); [exact (proj1 S1 n A) | apply in_map_iff; exists (n, wt); auto]. }
      rewrite N1. cbn [orb]. rewrite <- wof_app. exact (proj2 S2 n wt Hn). Qed.

Lemma filter_len_le {A} (f : A -> bool) l : length (filter f l) <= length l.
Proof. induction l as [|a l IH]; cbn; [lia|]. destruct (f a); cbn; lia. Qed.

Theorem run_idempotent w0 Q0 f1 f2 D : NoDup (qids Q0) -> run f1 w0 Q0 = Done (wof w0 D) -> Sol w0 Q0 D ->
  length (requeue Q0 D) <= f2 -> run f2 (wof w0 D) (requeue Q0 D) = Done (wof w0 D).
Proof. intros ND H S L.
  assert (S2 : Sol (wof w0 D) (requeue Q0 D) []).
  { split; [easy|]. intros n wt Hn. cbn. rewrite wof_nil. unfold requeue in Hn. apply in_map_iff in Hn.
    destruct Hn as [[n' wt'] [E Hn]]. cbn in E. injection E as E1 E2. subst n' wt.
    apply filter_In in Hn. destruct Hn as [Hn M]. cbn in M. apply negb_true_iff in M.
    pose proof (proj2 S n wt' Hn) as A. rewrite M in A. exact A. }
  pose proof (run_complete (wof w0 D) (requeue Q0 D) [] S2 f2) as R. rewrite wof_nil in R. apply R. exact L. Qed.

End WhenRes.

(* ---- an executable instance: conditions over the presence / value of other nodes (what the correspondence run feeds) *)
Inductive cexp := CTrue | CHas (d : nat) | CEq (d v : nat) | CNot (c : cexp) | CAnd (a b : cexp) | COr (a b : cexp).

Fixpoint ceval (c : cexp) (w : list (nat * nat)) : bool :=
  match c with
  | CTrue => true
  | CHas d => match entries nat d w with [] => false | _ => true end
  | CEq d v => existsb (fun p => snd p =? v) (entries nat d w)
  | CNot a => negb (ceval a w)
  | CAnd a b => ceval a w && ceval b w
  | COr a b => ceval a w || ceval b w
  end.

Fixpoint cdeps (c : cexp) : list nat :=
  match c with
  | CTrue => []
  | CHas d | CEq d _ => [d]
  | CNot a => cdeps a
  | CAnd a b | COr a b => cdeps a ++ cdeps b
  end.

Definition prog := list (nat * cexp).
Fixpoint expr_of (p : prog) (n : nat) : cexp :=
  match p with [] => CTrue | (m, c) :: t => if m =? n then c else expr_of t n end.
Definition pcond (p : prog) (n : nat) (w : list (nat * nat)) := ceval (expr_of p n) w.
Definition pdeps (p : prog) (n : nat) := cdeps (expr_of p n).
(* every condition reads nodes with a smaller number only *)
Definition acyclicb (p : prog) := forallb (fun e => forallb (fun d => d <? fst e) (cdeps (snd e))) p.
Definition wrun (p : prog) (w : list (nat * nat)) (Q : list (nat * bool)) := run nat (pcond p) (pdeps p) (length Q) w Q.

Lemma ceval_agree c w1 w2 : agree nat (cdeps c) w1 w2 -> ceval c w1 = ceval c w2.
Proof. induction c as [|d|d v|a IH|a IHa b IHb|a IHa b IHb]; cbn; intros H; try reflexivity.
  - now rewrite (H d (or_introl eq_refl)).
  - now rewrite (H d (or_introl eq_refl)).
  - now rewrite IH.
  - rewrite IHa, IHb; [reflexivity| |]; intros d Hd; apply H; apply in_or_app; auto.
  - rewrite IHa, IHb; [reflexivity| |]; intros d Hd; apply H; apply in_or_app; auto. Qed.

Lemma acyclicb_spec p : acyclicb p = true -> forall n d, In d (pdeps p n) -> d < n.
Proof. unfold pdeps. induction p as [|[m c] t IH]; cbn; intros H n d Hd; [easy|].
  apply andb_true_iff in H. destruct H as [H1 H2]. destruct (m =? n) eqn:E.
  - apply Nat.eqb_eq in E. subst m. rewrite forallb_forall in H1. specialize (H1 d Hd). now apply Nat.ltb_lt in H1.
  - now apply IH. Qed.

Theorem wrun_terminates p w Q : acyclicb p = true -> wrun p w Q <> Stuck.
Proof. intros A. apply (run_terminates nat (pcond p) (pdeps p) (fun x => x) (acyclicb_spec p A)). apply le_n. Qed.

Theorem wrun_order_independent p w Q1 Q2 : acyclicb p = true -> NoDup (map fst Q1) -> Permutation Q1 Q2 ->
  (forall w', wrun p w Q1 = Done w' -> wrun p w Q2 = Done w') /\
  ((exists n, wrun p w Q1 = Err n) -> exists n, wrun p w Q2 = Err n).
Proof. intros A ND P.
  apply (run_order_independent nat (pcond p) (pdeps p) (fun x => x) (acyclicb_spec p A)
           (fun n w1 w2 H => ceval_agree (expr_of p n) w1 w2 H) w Q1 Q2 (length Q1) (length Q2) ND P); apply le_n. Qed.

Theorem wrun_idempotent p w Q w' : acyclicb p = true -> NoDup (map fst Q) -> wrun p w Q = Done w' ->
  exists D, w' = wof nat w D /\ wrun p w' (requeue Q D) = Done w'.
Proof. intros A ND H.
  destruct (run_sound nat (pcond p) (pdeps p) (fun x => x) (acyclicb_spec p A)
              (fun n w1 w2 H => ceval_agree (expr_of p n) w1 w2 H) w Q ND _ _ H) as [D [E S]].
  exists D. split; [assumption|]. subst w'.
  apply (run_idempotent nat (pcond p) (pdeps p) (fun x => x) (acyclicb_spec p A)
           (fun n w1 w2 H => ceval_agree (expr_of p n) w1 w2 H) w Q (length Q) _ D ND H S).
  apply le_n. Qed.

Theorem wrun_split p w Q1 Q2 w1 w2 : acyclicb p = true -> NoDup (map fst (Q1 ++ Q2)) ->
  (forall n wt d, In (n, wt) Q1 -> In d (pdeps p n) -> ~ In d (map fst Q2)) ->
  wrun p w Q1 = Done w1 -> wrun p w1 Q2 = Done w2 -> wrun p w (Q1 ++ Q2) = Done w2.
Proof. intros A ND Hd H1 H2.
  apply (run_split nat (pcond p) (pdeps p) (fun x => x) (acyclicb_spec p A)
           (fun n w1 w2 H => ceval_agree (expr_of p n) w1 w2 H) w Q1 Q2 (length Q1) (length Q2) _ w1 w2 ND Hd H1 H2).
  apply le_n. Qed.

Theorem wrun_all_true_done p w Q : acyclicb p = true -> forallb snd Q = true -> exists w', wrun p w Q = Done w'.
Proof. intros A H. apply (run_all_true_done nat (pcond p) (pdeps p) (fun x => x) (acyclicb_spec p A)); [apply le_n|exact H]. Qed.

Theorem wrun_split_ext p w E Q1 Q2 w1 w2 : acyclicb p = true -> NoDup (map fst (Q1 ++ Q2)) ->
  (forall n wt d, In (n, wt) Q1 -> In d (pdeps p n) -> ~ In d (map fst Q2) /\ entries nat d E = []) ->
  (forall x, In x (map fst Q1) -> entries nat x E = []) ->
  wrun p w Q1 = Done w1 -> wrun p (w1 ++ E) Q2 = Done w2 -> wrun p (w ++ E) (Q1 ++ Q2) = Done w2.
Proof. intros A ND Hd HE H1 H2.
  apply (run_split_ext nat (pcond p) (pdeps p) (fun x => x) (acyclicb_spec p A)
           (fun n w1 w2 H => ceval_agree (expr_of p n) w1 w2 H) w E Q1 Q2 (length Q1) (length Q2) _ w1 w2 ND Hd HE H1 H2).
  apply le_n. Qed.

(* regression instance for the class of seeded change C07-8 (lyd_new_implicit_module resolving the new top-level nodes only
   AFTER the nested ones were created and resolved): node 0 = explicit top-level leaf mode (value 0), node 1 = top-level
   default flag (value 1) with when "mode = 7" (false), node 2 = nested default extra (value 5) with when "flag = 1".
   Phases in libyang's order (top-level, then nested on the resulting world) delete both defaults, and so does ONE
   resolution of both (the dependent node is postponed); resolving the nested node first, while the doomed flag still
   exists, keeps extra although its when is false in the result. *)
Definition ph_prog : prog := [(1, CEq 0 7); (2, CEq 1 1)].
Definition ph_w : list (nat * nat) := [(0, 0)].
Lemma ph_facts :
  acyclicb ph_prog = true /\
  wrun ph_prog (ph_w ++ [(1, 1)]) [(1, true)] = Done ph_w /\
  wrun ph_prog (ph_w ++ [(2, 5)]) [(2, true)] = Done ph_w /\
  wrun ph_prog (ph_w ++ [(1, 1)] ++ [(2, 5)]) ([(1, true)] ++ [(2, true)]) = Done ph_w /\
  wrun ph_prog (ph_w ++ [(1, 1)] ++ [(2, 5)]) [(2, true)] = Done (ph_w ++ [(1, 1)] ++ [(2, 5)]) /\
  wrun ph_prog (ph_w ++ [(1, 1)] ++ [(2, 5)]) [(1, true)] = Done (ph_w ++ [(2, 5)]).
Proof. vm_compute. repeat split; reflexivity. Qed.
