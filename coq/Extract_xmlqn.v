(* Extract_xmlqn.v -- extraction of the start-tag namespace model XmlQn.open_tag (and the attribute renderer of XmlDoc) to
   coq/model_xmlqn.ml; the arithmetic functions are what ocaml/helpers.ml refers to *)
From Coq Require Extraction ExtrOcamlBasic.
From Coq Require Import NArith ZArith.
From LY Require Import Base XmlDoc XmlQn.
Extraction Language OCaml.
Extraction "model_xmlqn.ml"
  N.add N.mul N.div N.modulo N.sub Z.add Z.mul Z.opp Z.of_N Z.abs_N Z.sub Z.ltb
  XmlQn.open_tag XmlDoc.render_attrs.
