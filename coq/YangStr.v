(* YangStr.v - slice yangstr: sizes and counters of the quoted-string lexer of src/parser_yang.c, as coded:
   read_qstring() (block indentation removal, trimming of the white space before a line break with the
   trailing_ws counter, escapes, the need_buf switch, concatenation with +), buf_store_char() (word as a
   substring of the input until a buffer is needed, then malloc of word_len bytes + copy), buf_add_char()
   (one growth step of 16 bytes when buf_len <= used + len) and the end of get_argument() (realloc to
   word_len + 1 and the NUL). Bytes are abstracted away; kept are word_len, buf_len, trailing_ws, the block
   and current indentation, need_buf, whether the buffer exists, whether the current part is double-quoted.

   Every store is recorded as a write (position, count, size of the block at that moment), every allocator call
   with its size. Two things the C code does without a check are explicit outcomes of the model:
   RUnderflow - word_len - trailing_ws with trailing_ws > word_len (size_t would wrap), and RAssert - the
   assert(need_buf) of the tab-in-indentation branch failing.

   Events are what the loop distinguishes. In a single-quoted part every character is just stored.
   Allocation failure is not modelled. Numbers are unbounded N (all of them are bounded by the input length + 17). *)
From Coq Require Import NArith List Lia Bool.
Import ListNotations.
Local Open Scope N_scope.

Definition BUF_STEP : N := 16.
Definition Y_TAB_SPACES : N := 8.

Inductive wr := W (pos n size : N).
Definition wr_ok (w : wr) : Prop := match w with W pos n size => pos + n <= size end.
Definition wr_okb (w : wr) : bool := match w with W pos n size => pos + n <=? size end.
Inductive al := AMalloc (n : N) | ARealloc (n : N) | AFree.

Record st := mkst {
  q_dq : bool;      (* the current part is double-quoted *)
  q_wl : N;         (* word_len *)
  q_alloc : bool;   (* the buffer word_b exists *)
  q_bl : N;         (* buf_len *)
  q_tws : N;        (* trailing_ws *)
  q_bi : N;         (* block_indent *)
  q_ci : N;         (* current_indent *)
  q_nb : bool }.    (* need_buf *)

Inductive ev :=
| EChar (u : N)       (* any other character, u bytes (1 to 4) *)
| ESpace
| ETab
| ELf                 (* line feed (or CR LF) *)
| EEsc                (* backslash + n, t, double quote or backslash: one byte is stored *)
| EEscBad             (* backslash + anything else: error *)
| EBadChar            (* invalid UTF-8 / character not allowed in a YANG string: error *)
| EConcat (dq : bool) (* closing quote, +, opening quote of the next part (double-quoted or not) *)
| EEnd                (* closing quote, the string is finished *)
| EEof.               (* end of input inside the string: the loop ends, the word is handed on *)

Definition ev_wf (e : ev) : Prop := match e with EChar u => 1 <= u <= 4 | _ => True end.

Inductive res := RErr | ROk (dynamic : bool) (len : N) | RUnderflow | RAssert.
Inductive out := Cont (s : st) | Stop (r : res).

(* buf_add_char: ONE step of 16 bytes when buf_len <= used + len *)
Definition buf_add (wl bl u : N) : N * list al :=
  if bl <=? wl + u then (bl + BUF_STEP, [ARealloc (bl + BUF_STEP)]) else (bl, []).

Definition set_store (s : st) (wl : N) (alloc : bool) (bl : N) : st :=
  mkst (q_dq s) wl alloc bl (q_tws s) (q_bi s) (q_ci s) (q_nb s).

(* buf_store_char with a character of u bytes *)
Definition store (s : st) (u : N) : st * list wr * list al :=
  if q_alloc s then
    let '(bl, tr) := buf_add (q_wl s) (q_bl s) u in
    (set_store s (q_wl s + u) true bl, [W (q_wl s) u bl], tr)
  else if q_nb s then
    (* first time a buffer is needed: copy what was read so far *)
    let '(bl0, ws0, tr0) :=
      if q_wl s =? 0 then (q_bl s, [], []) else (q_wl s, [W 0 (q_wl s) (q_wl s)], [AMalloc (q_wl s)]) in
    let '(bl, tr) := buf_add (q_wl s) bl0 u in
    (set_store s (q_wl s + u) true bl, ws0 ++ [W (q_wl s) u bl], tr0 ++ tr)
  else (set_store s (q_wl s + u) false (q_bl s), [], []).

Definition set_tws (s : st) (t : N) : st := mkst (q_dq s) (q_wl s) (q_alloc s) (q_bl s) t (q_bi s) (q_ci s) (q_nb s).
Definition set_ci (s : st) (c : N) : st := mkst (q_dq s) (q_wl s) (q_alloc s) (q_bl s) (q_tws s) (q_bi s) c (q_nb s).
Definition set_nb (s : st) : st := mkst (q_dq s) (q_wl s) (q_alloc s) (q_bl s) (q_tws s) (q_bi s) (q_ci s) true.
Definition set_wl (s : st) (w : N) : st := mkst (q_dq s) w (q_alloc s) (q_bl s) (q_tws s) (q_bi s) (q_ci s) (q_nb s).
Definition set_dq (s : st) (d : bool) : st := mkst d (q_wl s) (q_alloc s) (q_bl s) (q_tws s) (q_bi s) (q_ci s) (q_nb s).

(* store one byte and count it as trailing white space *)
Definition store_ws (s : st) : st * list wr * list al :=
  let '(s1, ws, tr) := store s 1 in (set_tws s1 (q_tws s1 + 1), ws, tr).

(* the leftover spaces of a tab in the indentation:
   for ( ; current_indent > block_indent; --current_indent) { store a space; trailing_ws++; } *)
Fixpoint tab_loop (fuel : nat) (s : st) : st * list wr * list al :=
  match fuel with
  | O => (s, [], [])
  | S f =>
      if q_bi s <? q_ci s then
        let '(s1, ws, tr) := store_ws s in
        let '(s2, ws2, tr2) := tab_loop f (set_ci s1 (q_ci s1 - 1)) in
        (s2, ws ++ ws2, tr ++ tr2)
      else (s, [], [])
  end.

Definition free_tr (s : st) : list al := if q_alloc s then [AFree] else [].

(* the end of get_argument(): terminating NUL for a dynamic word *)
Definition finish (s : st) : out * list wr * list al :=
  if q_alloc s then (Stop (ROk true (q_wl s)), [W (q_wl s) 1 (q_wl s + 1)], [ARealloc (q_wl s + 1)])
  else (Stop (ROk false (q_wl s)), [], []).

Definition cont (x : st * list wr * list al) : out * list wr * list al :=
  let '(s, ws, tr) := x in (Cont s, ws, tr).

(* reset_lf: the statement trailing_ws = 0 after the line break is stored (true in the code as it is;
   false is the seeded change C05-3) *)
Definition step (reset_lf : bool) (s : st) (e : ev) : out * list wr * list al :=
  match e with
  | EBadChar => (Stop RErr, [], free_tr s)
  | EEnd | EEof => finish s
  | EConcat d =>
      let s1 := if q_dq s then set_tws s 0 else s in
      (Cont (set_dq (set_nb s1) d), [], [])
  | _ =>
    if q_dq s then
      match e with
      | EChar u =>
          let '(s1, ws, tr) := store (set_ci s (q_bi s)) u in (Cont (set_tws s1 0), ws, tr)
      | ESpace =>
          if q_ci s <? q_bi s then (Cont (set_ci s (q_ci s + 1)), [], []) else cont (store_ws s)
      | ETab =>
          if q_ci s <? q_bi s then
            if q_nb s then cont (tab_loop 8 (set_ci s (q_ci s + Y_TAB_SPACES))) else (Stop RAssert, [], [])
          else cont (store_ws s)
      | ELf =>
          if q_bi s =? 0 then
            let '(s1, ws, tr) := store s 1 in (Cont (if reset_lf then set_tws s1 0 else s1), ws, tr)
          else if q_wl s <? q_tws s then (Stop RUnderflow, [], [])
          else
            let '(s1, ws, tr) := store (set_ci (set_wl (set_nb s) (q_wl s - q_tws s)) 0) 1 in
            (Cont (if reset_lf then set_tws s1 0 else s1), ws, tr)
      | EEsc =>
          let '(s1, ws, tr) := store (set_ci (set_tws (set_nb s) 0) (q_bi s)) 1 in (Cont s1, ws, tr)
      | _ => (Stop RErr, [], free_tr s)      (* EEscBad *)
      end
    else
      match e with
      | EChar u => cont (store s u)
      | EEsc | EEscBad =>
          let '(s1, ws, tr) := store s 1 in
          let '(s2, ws2, tr2) := store s1 1 in (Cont s2, ws ++ ws2, tr ++ tr2)
      | _ => cont (store s 1)
      end
  end.

Fixpoint run (reset_lf : bool) (s : st) (evs : list ev) : res * list wr * list al :=
  match evs with
  | [] => match finish s with (Stop r, ws, tr) => (r, ws, tr) | (Cont _, ws, tr) => (RErr, ws, tr) end
  | e :: rest =>
      match step reset_lf s e with
      | (Stop r, ws, tr) => (r, ws, tr)
      | (Cont s1, ws, tr) =>
          match run reset_lf s1 rest with (r, ws2, tr2) => (r, ws ++ ws2, tr ++ tr2) end
      end
  end.

(* read_qstring() entered at the opening quote with ctx->indent = indent *)
Definition init (dq : bool) (indent : N) : st :=
  let bi := if dq then indent + 1 else 0 in mkst dq 0 false 0 0 bi bi false.

Definition qstring (dq : bool) (indent : N) (evs : list ev) := run true (init dq indent) evs.
Definition qstring_noreset (dq : bool) (indent : N) (evs : list ev) := run false (init dq indent) evs.
