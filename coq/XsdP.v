(* XsdP.v - slice regex (property C18): the derivative matcher of Xsd.v decides the denotational
   semantics, for every regular expression and every string (no bound). *)
From LY Require Import Base Xsd.
From Coq Require Import ZifyBool ZifyNat ZifyN.
Local Open Scope N_scope.

(* ---- powers of a language -------------------------------------------------------------------- *)
Lemma pow_nil_all (L : list N -> Prop) : L [] -> forall k, pow_lang L k [].
Proof.
  intros HL k. induction k as [|k IH]; cbn [pow_lang]; [reflexivity|].
  exists [], []. repeat split; assumption.
Qed.

Lemma pow_nil_inv (L : list N -> Prop) k : pow_lang L k [] -> k = O \/ L [].
Proof.
  destruct k as [|k]; cbn [pow_lang]; [left; reflexivity|].
  intros (s1 & s2 & Heq & HL & _). right.
  symmetry in Heq. apply app_eq_nil in Heq. destruct Heq as [-> _]. exact HL.
Qed.

(* with the empty string in L, more repetitions are always possible *)
Lemma pow_pad (L : list N -> Prop) j s : L [] -> pow_lang L j s -> forall d, pow_lang L (d + j) s.
Proof.
  intros HL Hp d. induction d as [|d IH]; [exact Hp|].
  cbn [Nat.add pow_lang]. exists [], s. repeat split; assumption.
Qed.

(* a non-empty member of L^k starts with a non-empty member of L; the empty members in front of it
   can be dropped, which is why the remaining count j can be smaller than k - 1 *)
Lemma pow_cons (L : list N -> Prop) k c s :
  pow_lang L k (c :: s) ->
  exists j s1 s2, s = s1 ++ s2 /\ L (c :: s1) /\ pow_lang L j s2 /\
                  (S j = k \/ (L [] /\ (S j <= k)%nat)).
Proof.
  revert s. induction k as [|k IH]; intros s Hp; cbn [pow_lang] in Hp; [discriminate|].
  destruct Hp as (s1 & s2 & Heq & HL & Hp).
  destruct s1 as [|c1 s1].
  - cbn [app] in Heq. subst s2.
    destruct (IH _ Hp) as (j & t1 & t2 & Hs & HL1 & Hp1 & Hj).
    exists j, t1, t2. repeat split; try assumption.
    right. split; [exact HL|]. destruct Hj as [Hj|[_ Hj]]; lia.
  - cbn [app] in Heq. inversion Heq; subst c1 s.
    exists k, s1, s2. repeat split; try assumption. left. reflexivity.
Qed.

(* ---- nullable --------------------------------------------------------------------------------- *)
Lemma nullable_correct r : nullable r = true <-> in_lang r [].
Proof.
  induction r as [| |cs|a IHa b IHb|a IHa b IHb|a IHa lo hi]; cbn [nullable in_lang].
  - split; [discriminate|intros []].
  - split; reflexivity.
  - split; [discriminate|]. intros (c & Heq & _). discriminate.
  - rewrite andb_true_iff, IHa, IHb. split.
    + intros [Ha Hb]. exists [], []. repeat split; assumption.
    + intros (s1 & s2 & Heq & Ha & Hb). symmetry in Heq. apply app_eq_nil in Heq.
      destruct Heq as [-> ->]. split; assumption.
  - rewrite orb_true_iff, IHa, IHb. reflexivity.
  - rewrite andb_true_iff, orb_true_iff, IHa. split.
    + intros [Hge [Hlo|Ha]].
      * exists O. split; [|split].
        -- lia.
        -- destruct hi as [h|]; cbn [hi_ok]; [lia|exact I].
        -- reflexivity.
      * exists (N.to_nat lo). split; [|split].
        -- lia.
        -- destruct hi as [h|]; cbn [hi_ok hi_ge] in *; [lia|exact I].
        -- apply pow_nil_all. exact Ha.
    + intros (k & Hlo & Hhi & Hp). split.
      * destruct hi as [h|]; cbn [hi_ok hi_ge] in *; [lia|reflexivity].
      * apply pow_nil_inv in Hp. destruct Hp as [->|Ha]; [left; lia|right; exact Ha].
Qed.

(* ---- smart constructors ------------------------------------------------------------------------ *)
Lemma cat_empty_l b s : in_lang Empty s <-> in_lang (Cat Empty b) s.
Proof. cbn [in_lang]. split; [intros []|]. intros (s1 & s2 & _ & [] & _). Qed.

Lemma cat_empty_r a s : in_lang Empty s <-> in_lang (Cat a Empty) s.
Proof. cbn [in_lang]. split; [intros []|]. intros (s1 & s2 & _ & _ & []). Qed.

Lemma cat_eps_l b s : in_lang b s <-> in_lang (Cat Eps b) s.
Proof.
  cbn [in_lang]. split.
  - intro H. exists [], s. repeat split. exact H.
  - intros (s1 & s2 & -> & -> & H). exact H.
Qed.

Lemma cat_eps_r a s : in_lang a s <-> in_lang (Cat a Eps) s.
Proof.
  cbn [in_lang]. split.
  - intro H. exists s, []. rewrite app_nil_r. repeat split. exact H.
  - intros (s1 & s2 & -> & H & ->). rewrite app_nil_r. exact H.
Qed.

Lemma mk_cat_correct a b s : in_lang (mk_cat a b) s <-> in_lang (Cat a b) s.
Proof.
  destruct a; destruct b; cbn [mk_cat];
    first [ apply cat_empty_l | apply cat_empty_r | apply cat_eps_l | apply cat_eps_r | reflexivity ].
Qed.

(* syntactic equality is sound *)
Lemma cs_eqb_eq a : forall b, cs_eqb a b = true -> a = b.
Proof.
  induction a as [|l1 h1|a1 IH1 a2 IH2|a1 IH1|a1 IH1 a2 IH2]; intros b H; destruct b; cbn [cs_eqb] in H;
    try discriminate.
  - reflexivity.
  - apply andb_true_iff in H. destruct H as [H1 H2]. apply N.eqb_eq in H1, H2. congruence.
  - apply andb_true_iff in H. destruct H as [H1 H2]. f_equal; [apply IH1|apply IH2]; assumption.
  - f_equal. apply IH1. exact H.
  - apply andb_true_iff in H. destruct H as [H1 H2]. f_equal; [apply IH1|apply IH2]; assumption.
Qed.

Lemma hi_eqb_eq a b : hi_eqb a b = true -> a = b.
Proof.
  destruct a, b; cbn [hi_eqb]; intro H; try discriminate; [|reflexivity].
  apply N.eqb_eq in H. congruence.
Qed.

Lemma re_eqb_eq a : forall b, re_eqb a b = true -> a = b.
Proof.
  induction a as [| |cs|a1 IH1 a2 IH2|a1 IH1 a2 IH2|a1 IH1 lo hi]; intros b H; destruct b; cbn [re_eqb] in H;
    try discriminate.
  - reflexivity.
  - reflexivity.
  - f_equal. apply cs_eqb_eq. exact H.
  - apply andb_true_iff in H. destruct H as [H1 H2]. f_equal; [apply IH1|apply IH2]; assumption.
  - apply andb_true_iff in H. destruct H as [H1 H2]. f_equal; [apply IH1|apply IH2]; assumption.
  - apply andb_true_iff in H. destruct H as [H12 H3]. apply andb_true_iff in H12. destruct H12 as [H1 H2].
    apply N.eqb_eq in H2. apply hi_eqb_eq in H3. f_equal; [apply IH1; exact H1|exact H2|exact H3].
Qed.

Lemma alt_mem_lang x s : in_lang x s -> forall r, alt_mem x r = true -> in_lang r s.
Proof.
  intros Hx r. induction r as [| |cs|a IHa b IHb|a IHa b IHb|a IHa lo hi]; cbn [alt_mem]; intro H;
    try (apply re_eqb_eq in H; subst x; exact Hx).
  apply orb_true_iff in H. cbn [in_lang]. destruct H as [H|H]; [left; apply IHa|right; apply IHb]; exact H.
Qed.

Lemma alt_cons_correct x acc s : in_lang (alt_cons x acc) s <-> in_lang x s \/ in_lang acc s.
Proof.
  unfold alt_cons. destruct (alt_mem x acc) eqn:Hm.
  - split; [intro H; right; exact H|]. intros [H|H]; [|exact H]. exact (alt_mem_lang _ _ H _ Hm).
  - destruct acc; cbn [in_lang]; tauto.
Qed.

Lemma alt_add_correct x : forall acc s, in_lang (alt_add x acc) s <-> in_lang x s \/ in_lang acc s.
Proof.
  induction x as [| |cs|a IHa b IHb|a IHa b IHb|a IHa lo hi]; intros acc s; cbn [alt_add];
    try apply alt_cons_correct.
  - cbn [in_lang]. tauto.
  - rewrite IHa, IHb. cbn [in_lang]. tauto.
Qed.

Lemma mk_alt_correct a b s : in_lang (mk_alt a b) s <-> in_lang (Alt a b) s.
Proof.
  unfold mk_alt. rewrite !alt_add_correct. cbn [in_lang]. tauto.
Qed.

(* ---- derivative --------------------------------------------------------------------------------- *)
Lemma deriv_correct r : forall c s, in_lang (deriv c r) s <-> in_lang r (c :: s).
Proof.
  induction r as [| |cs|a IHa b IHb|a IHa b IHb|a IHa lo hi]; intros c s; cbn [deriv].
  - cbn [in_lang]. reflexivity.
  - cbn [in_lang]. split; [intros []|discriminate].
  - destruct (cs_mem cs c) eqn:Hm; cbn [in_lang]; split.
    + intros ->. exists c. split; [reflexivity|exact Hm].
    + intros (c' & Heq & _). inversion Heq. reflexivity.
    + intros [].
    + intros (c' & Heq & Hm'). inversion Heq; subst c'. congruence.
  - assert (Hcat : in_lang (Cat (deriv c a) b) s <->
                   exists s1 s2, c :: s = (c :: s1) ++ s2 /\ in_lang a (c :: s1) /\ in_lang b s2).
    { cbn [in_lang]. split.
      - intros (s1 & s2 & -> & Ha & Hb). apply IHa in Ha. exists s1, s2. repeat split; assumption.
      - intros (s1 & s2 & Heq & Ha & Hb). cbn [app] in Heq. inversion Heq; subst s.
        exists s1, s2. repeat split; [apply IHa; exact Ha|exact Hb]. }
    destruct (nullable a) eqn:Hn.
    + rewrite mk_alt_correct. cbn [in_lang]. rewrite mk_cat_correct, Hcat, IHb. split.
      * intros [(s1 & s2 & Heq & Ha & Hb)|Hb].
        -- exists (c :: s1), s2. repeat split; assumption.
        -- exists [], (c :: s). repeat split; [apply nullable_correct; exact Hn|exact Hb].
      * intros (s1 & s2 & Heq & Ha & Hb). destruct s1 as [|c1 s1].
        -- right. cbn [app] in Heq. subst s2. exact Hb.
        -- left. inversion Heq; subst c1. exists s1, s2. repeat split; assumption.
    + rewrite mk_cat_correct, Hcat. cbn [in_lang]. split.
      * intros (s1 & s2 & Heq & Ha & Hb). exists (c :: s1), s2. repeat split; assumption.
      * intros (s1 & s2 & Heq & Ha & Hb). destruct s1 as [|c1 s1].
        -- apply nullable_correct in Ha. congruence.
        -- inversion Heq; subst c1. exists s1, s2. repeat split; assumption.
  - rewrite mk_alt_correct. cbn [in_lang]. rewrite IHa, IHb. reflexivity.
  - destruct (hi_zero hi) eqn:Hz.
    + (* at most zero repetitions: only the empty string *)
      destruct hi as [h|]; cbn [hi_zero] in Hz; [|discriminate].
      cbn [in_lang]. split; [intros []|].
      intros (k & _ & Hhi & Hp). cbn [hi_ok] in Hhi.
      assert (k = O) by lia. subst k. cbn [pow_lang] in Hp. discriminate.
    + rewrite mk_cat_correct. cbn [in_lang]. split.
      * intros (s1 & s2 & -> & Ha & (k & Hlo & Hhi & Hp)). apply IHa in Ha.
        exists (S k). split; [|split].
        -- lia.
        -- destruct hi as [h|]; cbn [hi_ok pred_hi hi_zero] in *; [lia|exact I].
        -- cbn [pow_lang]. exists (c :: s1), s2. repeat split; assumption.
      * intros (k & Hlo & Hhi & Hp).
        destruct (pow_cons _ _ _ _ Hp) as (j & s1 & s2 & -> & Ha & Hpj & Hj).
        exists s1, s2. repeat split; [apply IHa; exact Ha|].
        destruct Hj as [Hj|[Hnil Hj]].
        -- exists j. split; [|split]; [lia| |exact Hpj].
           destruct hi as [h|]; cbn [hi_ok pred_hi] in *; [lia|exact I].
        -- (* empty members were dropped: pad back up to the lower bound *)
           exists (Nat.max j (N.to_nat (N.pred lo))). split; [|split].
           ++ lia.
           ++ destruct hi as [h|]; cbn [hi_ok pred_hi] in *; [lia|exact I].
           ++ replace (Nat.max j (N.to_nat (N.pred lo)))
                with ((Nat.max j (N.to_nat (N.pred lo)) - j) + j)%nat by lia.
              apply pow_pad; assumption.
Qed.

(* ---- the matcher decides the language ------------------------------------------------------------ *)
Theorem match_correct : forall r s, matches r s = true <-> in_lang r s.
Proof.
  intros r s. revert r. induction s as [|c s IH]; intro r; cbn [matches].
  - apply nullable_correct.
  - rewrite IH. apply deriv_correct.
Qed.

(* the language of the quantifier shorthands, as a sanity check of the AST reading *)
Lemma opt_lang a s : in_lang (Opt a) s <-> s = [] \/ in_lang a s.
Proof.
  unfold Opt. cbn [in_lang]. split.
  - intros (k & _ & Hhi & Hp). cbn [hi_ok] in Hhi.
    destruct k as [|[|k]]; [left; exact Hp| |lia].
    right. cbn [pow_lang] in Hp. destruct Hp as (s1 & s2 & -> & Ha & ->). rewrite app_nil_r. exact Ha.
  - intros [->|Ha].
    + exists O. cbn [hi_ok pow_lang]. repeat split; lia.
    + exists 1%nat. cbn [hi_ok pow_lang]. repeat split; try lia.
      exists s, []. rewrite app_nil_r. repeat split. exact Ha.
Qed.

Lemma star_lang a s : in_lang (Star a) s <-> exists k, pow_lang (in_lang a) k s.
Proof.
  unfold Star. cbn [in_lang]. split.
  - intros (k & _ & _ & Hp). exists k. exact Hp.
  - intros (k & Hp). exists k. cbn [hi_ok]. repeat split; [lia|exact Hp].
Qed.
