(* Extract_doc.v -- extraction of the doc slice (Tree + WithDefaults selector + XmlDoc + JsonDoc) to coq/model_doc.ml *)
From Coq Require Extraction ExtrOcamlBasic.
From LY Require Import Base Tree WithDefaults XmlDoc JsonDoc.
Extraction Language OCaml.
Extraction "model_doc.ml"
  N.add N.mul N.div N.modulo N.sub Z.add Z.mul Z.opp Z.of_N Z.abs_N Z.sub Z.ltb
  Tree.lookup Tree.sget Tree.userordered Tree.forest_eqb Tree.canonb
  WithDefaults.should_print
  XmlDoc.xml_print XmlDoc.xml_parse XmlDoc.prune XmlDoc.clear_dflt XmlDoc.sel_all
  XmlDoc.std_xml_content XmlDoc.to_generic
  XmlDoc.tabs_okb XmlDoc.docb XmlDoc.lexableb XmlDoc.std_valb
  JsonDoc.json_print JsonDoc.json_parse JsonDoc.json_tree JsonDoc.json_doc JsonDoc.std_json_value
  JsonDoc.jdocb JsonDoc.jlexb JsonDoc.nonulb JsonDoc.parents_ltb.
