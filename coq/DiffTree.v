(* DiffTree.v -- TREE-level model of src/diff.c for everything that is NOT user-ordered: leaves, containers
   (non-presence / presence), choices and cases (transparent in data), system-ordered lists and leaf-lists, at any
   depth, with default flags.  MODEL ONLY (lemmas: DiffTreeP.v).  Built on the Tree.v foundation.

   Functions transcribed
     lyd_diff_siblings()      -> [diff]        (lyd_diff_siblings_r, lyd_diff_attrs, lyd_diff_find_match, lyd_diff_add)
     lyd_diff_apply_all()     -> [apply]       (lyd_diff_apply_module, lyd_diff_apply_r, lyd_diff_get_op,
                                                lyd_np_cont_dflt_set / _del walks, lyd_change_term, lyd_insert_node)

   Representation (documented choice).  A diff is a data tree whose nodes carry the metadata yang:operation,
   yang:orig-default, yang:orig-value.  [dd] follows libyang's representation: the operation is OPTIONAL
   ([None] = no yang:operation on the node, the effective operation is inherited from the nearest ancestor that
   has one, an ancestor's replace being skipped - lyd_diff_get_op()), list instances keep their key leaves as
   children, every node keeps its LYD_DEFAULT flag (also inner nodes: the flag is maintained by the
   lyd_np_cont_dflt_del() walk of lyd_insert_node() while the diff tree is built).  The only thing that is not
   represented is the ORDER of the metadata items of one node (lookups are by name); the correspondence check
   puts the metadata of libyang's dump into the order operation, orig-default, orig-value before comparing.

   The order of the siblings in the diff tree is the one libyang produces: lyd_diff_add() links a new node with
   LYD_INSERT_NODE_LAST_BY_SCHEMA, except that the first duplicated PARENT is linked into an existing diff parent
   with LYD_INSERT_NODE_DEFAULT, which for system-ordered lists goes through lyds_insert() and a red-black tree
   that only knows the instances inserted that way ([place_default]).

   Outside the fragment: a user-ordered or duplicate-instance (leaf-)list, anydata, or an inner node other than a
   non-presence container that carries the default flag anywhere in an input makes [diff] answer [Err e_unsupported]. *)
From LY Require Import Base Tree.
Local Open Scope N_scope.

(* ------------------------------------------------------------------------------------------- *)
(* diff trees                                                                                    *)
(* ------------------------------------------------------------------------------------------- *)
Inductive dop := OpCreate | OpDelete | OpReplace | OpNone.

Definition dop_eqb (a b : dop) : bool :=
  match a, b with
  | OpCreate, OpCreate | OpDelete, OpDelete | OpReplace, OpReplace | OpNone, OpNone => true
  | _, _ => false
  end.

(* schema node, canonical value, LYD_DEFAULT, yang:operation, yang:orig-default, yang:orig-value, children *)
Inductive dd := DD (s : sid) (v : bytes) (dflt : bool) (op : option dop) (odflt : option bool) (oval : option bytes)
                   (ch : list dd).

Definition dd_sid (d : dd) : sid := match d with DD s _ _ _ _ _ _ => s end.
Definition dd_val (d : dd) : bytes := match d with DD _ v _ _ _ _ _ => v end.
Definition dd_dflt (d : dd) : bool := match d with DD _ _ f _ _ _ _ => f end.
Definition dd_op (d : dd) : option dop := match d with DD _ _ _ o _ _ _ => o end.
Definition dd_odflt (d : dd) : option bool := match d with DD _ _ _ _ o _ _ => o end.
Definition dd_oval (d : dd) : option bytes := match d with DD _ _ _ _ _ o _ => o end.
Definition dd_ch (d : dd) : list dd := match d with DD _ _ _ _ _ _ c => c end.

Definition dd_set_op (d : dd) (o : option dop) : dd := match d with DD s v f _ od ov c => DD s v f o od ov c end.
Definition dd_set_dflt (d : dd) (f : bool) : dd := match d with DD s v _ o od ov c => DD s v f o od ov c end.
Definition dd_set_val (d : dd) (v : bytes) : dd := match d with DD s _ f o od ov c => DD s v f o od ov c end.
Definition dd_set_odflt (d : dd) (od : option bool) : dd := match d with DD s v f o _ ov c => DD s v f o od ov c end.
Definition dd_set_oval (d : dd) (ov : option bytes) : dd := match d with DD s v f o od _ c => DD s v f o od ov c end.
Definition dd_set_ch (d : dd) (c : list dd) : dd := match d with DD s v f o od ov _ => DD s v f o od ov c end.

Section DdInd.
  Variable P : dd -> Prop.
  Hypothesis H : forall s v f o od ov ch, Forall P ch -> P (DD s v f o od ov ch).
  Fixpoint dd_ind' (d : dd) : P d :=
    match d with
    | DD s v f o od ov ch =>
        H s v f o od ov ch
          ((fix go (l : list dd) : Forall P l :=
              match l with
              | [] => Forall_nil P
              | x :: l' => Forall_cons x (dd_ind' x) (go l')
              end) ch)
    end.
End DdInd.

(* the data node a diff node was duplicated from (metadata dropped) *)
Fixpoint dd_node (d : dd) : dnode :=
  match d with DD s v f _ _ _ ch => DN s v f [] (map dd_node ch) end.

(* lyd_dup_single(node, LYD_DUP_RECURSIVE | LYD_DUP_NO_META | LYD_DUP_WITH_FLAGS): lyd_dup_r() copies the flags, then
   links the duplicated children into the copy one by one; lyd_insert_node() of a child without the default flag
   runs lyd_np_cont_dflt_del() on the copy.  On a tree in which a default inner node has only default children this
   is the identity on flags. *)
Fixpoint lift (n : dnode) : dd :=
  match n with
  | DN s v d _ ch => let ch' := map lift ch in DD s v (d && forallb dd_dflt ch') None None None ch'
  end.

(* lyd_dup_siblings(diff, LYD_DUP_RECURSIVE [| LYD_DUP_WITH_FLAGS]) of a diff tree: the same walk, metadata kept *)
Fixpoint redup (d : dd) : dd :=
  match d with
  | DD s v f o od ov ch => let ch' := map redup ch in DD s v (f && forallb dd_dflt ch') o od ov ch'
  end.

(* error classes (LY_ERR values of libyang where the C code returns one) *)
Definition e_inval : N := 3.        (* LY_EINVAL *)
Definition e_int : N := 6.          (* LY_EINT *)
Definition e_unsupported : N := 99. (* outside the modelled fragment *)

(* ------------------------------------------------------------------------------------------- *)
(* small list helpers                                                                            *)
(* ------------------------------------------------------------------------------------------- *)
Fixpoint find_idx {A} (p : A -> bool) (l : list A) : option nat :=
  match l with
  | [] => None
  | x :: r => if p x then Some O else match find_idx p r with Some i => Some (S i) | None => None end
  end.

Fixpoint replace_nth {A} (i : nat) (l : list A) (x : A) : list A :=
  match l, i with
  | [], _ => []
  | _ :: r, O => x :: r
  | a :: r, S i' => a :: replace_nth i' r x
  end.

Fixpoint remove_nth {A} (i : nat) (l : list A) : list A :=
  match l, i with
  | [], _ => []
  | _ :: r, O => r
  | a :: r, S i' => a :: remove_nth i' r
  end.

(* all elements other than the i-th satisfy p *)
Fixpoint others {A} (p : A -> bool) (i : nat) (l : list A) : bool :=
  match l, i with
  | [], _ => true
  | _ :: r, O => forallb p r
  | a :: r, S i' => p a && others p i' r
  end.

(* lyd_child_no_keys(): the children after the LEADING key leaves *)
Fixpoint nokeys (sch : schema) (l : forest) : forest :=
  match l with
  | [] => []
  | x :: r => if is_key sch (d_sid x) then nokeys sch r else l
  end.
Fixpoint dd_nokeys (sch : schema) (l : list dd) : list dd :=
  match l with
  | [] => []
  | x :: r => if is_key sch (dd_sid x) then dd_nokeys sch r else l
  end.
(* the leading keys *)
Fixpoint leadkeys (sch : schema) (l : forest) : forest :=
  match l with
  | [] => []
  | x :: r => if is_key sch (d_sid x) then x :: leadkeys sch r else []
  end.
Fixpoint dd_leadkeys (sch : schema) (l : list dd) : list dd :=
  match l with
  | [] => []
  | x :: r => if is_key sch (dd_sid x) then x :: dd_leadkeys sch r else []
  end.

(* ------------------------------------------------------------------------------------------- *)
(* identity of a diff node (lyd_diff_find_match / lyd_find_sibling_first / lyd_find_sibling_val)  *)
(* ------------------------------------------------------------------------------------------- *)
Definition dd_id (sch : schema) (d : dd) : option iid := inst_id sch (dd_node d).

(* index of the first sibling that is the same instance *)
Definition match_idx (sch : schema) (f : forest) (i : option iid) : option nat :=
  match i with Some j => find_idx (has_id sch j) f | None => None end.
Definition dd_match_idx (sch : schema) (l : list dd) (i : option iid) : option nat :=
  match i with Some j => find_idx (fun d => has_id sch j (dd_node d)) l | None => None end.

(* lyd_diff_find_match(siblings, target, defaults): the match, dropped when it is a default node and defaults are
   not considered *)
Definition find_match (sch : schema) (o : bool) (f : forest) (i : option iid) : option dnode :=
  match match_idx sch f i with
  | Some k => match nth_error f k with
              | Some m => if d_dflt m && negb o then None else Some m
              | None => None
              end
  | None => None
  end.

(* ------------------------------------------------------------------------------------------- *)
(* the fragment                                                                                  *)
(* ------------------------------------------------------------------------------------------- *)
Fixpoint supported_node (sch : schema) (n : dnode) {struct n} : bool :=
  match n with
  | DN s v d m ch =>
      negb (userordered sch s) &&
      match kind_of sch s with
      | KAny => false
      | KCont false => true
      | KCont true | KList => negb d
      | KLeaf | KLeafList => true
      end && forallb (supported_node sch) ch
  end.
Definition supportedb (sch : schema) (f : forest) : bool := forallb (supported_node sch) f.

(* ------------------------------------------------------------------------------------------- *)
(* order of the siblings of the diff tree                                                        *)
(* ------------------------------------------------------------------------------------------- *)
(* one sibling of the diff under construction: the node and whether lyds_insert() knows it (it is in the red-black
   tree kept in the metadata of the first instance) *)
Definition slot := (dd * bool)%type.

(* lyd_insert_node(.., LYD_INSERT_NODE_LAST_BY_SCHEMA): before the first sibling whose schema node comes later in
   lys_getnext() order, i.e. behind all instances of its own schema node *)
Fixpoint place_last_k (known : bool) (l : list slot) (n : dd) : list slot :=
  match l with
  | [] => [(n, known)]
  | b :: r => if dd_sid n <? dd_sid (fst b) then (n, known) :: b :: r else b :: place_last_k known r n
  end.
Definition place_last (l : list slot) (n : dd) : list slot := place_last_k false l n.

Definition dd_cmp (sch : schema) (a b : dd) : comparison := node_cmp sch (dd_node a) (dd_node b).

(* rb_insert_node() + lyds_link_data_node(): n is linked behind the last instance KNOWN TO THE TREE that is not
   greater (rb_prev of the new red-black node); without such an instance before the first instance (the leader).
   [seen] = a known instance that is not greater has been passed, so n goes before the next known greater one or, when
   none follows, directly behind the last known not-greater one.  Implemented in two steps: index of the predecessor. *)
Fixpoint pred_idx (sch : schema) (l : list slot) (n : dd) (k : nat) (best : option nat) : option nat :=
  match l with
  | [] => best
  | (b, known) :: r =>
      let best' :=
        if (dd_sid b =? dd_sid n) && known && negb (is_gt (dd_cmp sch b n)) then Some k else best in
      pred_idx sch r n (S k) best'
  end.

Fixpoint insert_at {A} (i : nat) (l : list A) (x : A) : list A :=
  match i, l with
  | O, _ => x :: l
  | S i', [] => [x]
  | S i', a :: r => a :: insert_at i' r x
  end.

Definition place_sorted (sch : schema) (l : list slot) (n : dd) : list slot :=
  match pred_idx sch l n O None with
  | Some k => insert_at (S k) l (n, true)
  | None =>
      match find_idx (fun b : slot => dd_sid (fst b) =? dd_sid n) l with
      | Some k => insert_at k l (n, true)
      | None => place_last_k true l n
      end
  end.

(* lyds_additionally_create_rb_tree(): the tree does not exist yet; every instance is entered in sibling order and,
   when it is not the maximum so far, relinked to its sorted place *)
Fixpoint build_tree (sch : schema) (s : sid) (todo : list slot) (acc : list slot) : list slot :=
  match todo with
  | [] => acc
  | (b, k) :: r =>
      if dd_sid b =? s then build_tree sch s r (place_sorted sch acc b)
      else build_tree sch s r (acc ++ [(b, k)])
  end.

(* lyd_insert_node(.., LYD_INSERT_NODE_DEFAULT) of a diff node: lyds_insert() when the node is an instance of a
   system-ordered (leaf-)list and an instance is there already, lyd_insert_node_ordby_schema() otherwise *)
Definition place_default (sch : schema) (l : list slot) (n : dd) : list slot :=
  let s := dd_sid n in
  if sorted_sid sch s && existsb (fun b : slot => dd_sid (fst b) =? s) l then
    let l1 := if existsb (fun b : slot => (dd_sid (fst b) =? s) && snd b) l then l else build_tree sch s l [] in
    place_sorted sch l1 n
  else place_last l n.

(* ------------------------------------------------------------------------------------------- *)
(* lyd_diff_siblings(first, second, options)                                                     *)
(* ------------------------------------------------------------------------------------------- *)
Inductive side := SA | SB.

(* one generated child of a level, in generation order: the diff node, the tree its first generated change was
   duplicated from, and whether it is an inner node that was duplicated as a PARENT of a change *)
Definition gitem := (dd * side * bool)%type.

(* the yang:operation of the duplicated parents (lyd_diff_add): the first duplicated parent gets none when the whole
   chain is new (then it is the root, [top]); below an existing diff parent only the direct parent of the changed node
   gets it (the value prepared in the item); a parent duplicated together with ITS parent gets nothing *)
Fixpoint fix_ops (top : bool) (first : bool) (g : list gitem) : list gitem :=
  match g with
  | [] => []
  | (d, sd, inner) :: r =>
      let d' := if inner then (if top then dd_set_op d (Some OpNone) else if first then dd_set_op d None else d) else d in
      (d', sd, inner) :: fix_ops top false r
  end.

(* link the generated nodes of one level in generation order *)
Fixpoint place_all (sch : schema) (top : bool) (g : list gitem) (acc : list slot) : list slot :=
  match g with
  | [] => acc
  | (d, _, inner) :: r =>
      place_all sch top r (if inner && negb top then place_default sch acc d else place_last acc d)
  end.

Definition order_level (sch : schema) (top : bool) (g : list gitem) : list dd :=
  map fst (place_all sch top (fix_ops top true g) []).

Definition is_inner_item (g : gitem) : bool := snd g.
Definition item_side (g : gitem) : side := snd (fst g).

Section DiffLevel.
  Variable sch : schema.
  Variable o : bool.                                  (* LYD_DIFF_DEFAULTS *)
  Variable pass1 : dnode -> forest -> list gitem.     (* one node of the first tree against the second siblings *)

  (* first loop of lyd_diff_siblings_r over the first siblings ([lead]: still inside the leading keys) *)
  Fixpoint pass1_all (lead : bool) (l : forest) (bs : forest) : list gitem :=
    match l with
    | [] => []
    | x :: r =>
        if lead && is_key sch (d_sid x) then pass1_all true r bs
        else pass1 x bs ++ pass1_all false r bs
    end.
End DiffLevel.

(* second loop of lyd_diff_siblings_r: nodes of the second tree without a match in the first are created *)
Fixpoint pass2_all (sch : schema) (o : bool) (lead : bool) (l : forest) (fa : forest) : list gitem :=
  match l with
  | [] => []
  | x :: r =>
      if lead && is_key sch (d_sid x) then pass2_all sch o true r fa
      else
        (if d_dflt x && negb o then []
         else match find_match sch o fa (inst_id sch x) with
              | None => [(dd_set_op (lift x) (Some OpCreate), SB, false)]
              | Some _ => []
              end) ++ pass2_all sch o false r fa
  end.

(* lyd_diff_siblings_r(), first loop body for one node [a] of the first tree; [bs] = the second siblings *)
Fixpoint diff1 (sch : schema) (o : bool) (a : dnode) (bs : forest) {struct a} : list gitem :=
  match a with
  | DN s v d m ch =>
      if d && negb o then []                                            (* skip default nodes *)
      else
        match find_match sch o bs (inst_id sch a) with
        | None => [(dd_set_op (lift a) (Some OpDelete), SA, false)]     (* lyd_diff_attrs: !second *)
        | Some b =>
            match kind_of sch s with
            | KLeaf =>
                if negb (beq_bytes v (d_val b)) then
                  [(DD s (d_val b) (d_dflt b) (Some OpReplace) (Some d) (Some v) [], SB, false)]
                else if o && xorb d (d_dflt b) then
                  [(DD s (d_val b) (d_dflt b) (Some OpNone) (Some d) None [], SB, false)]
                else []
            | KLeafList =>
                if o && xorb d (d_dflt b) then
                  [(DD s (d_val b) (d_dflt b) (Some OpNone) (Some d) None [], SB, false)]
                else []
            | KAny => []                                               (* not in the fragment *)
            | KCont _ | KList =>
                (* no change of the node itself (LY_ENOT); descendants *)
                let g := pass1_all sch (diff1 sch o) true ch (nokeys sch (d_ch b)) ++
                         pass2_all sch o true (d_ch b) (nokeys sch ch) in
                match g with
                | [] => []
                | g0 :: _ =>
                    let src := match item_side g0 with SA => a | SB => b end in
                    let keys := map lift (leadkeys sch (d_ch src)) in
                    let kids := keys ++ order_level sch false g in
                    [(DD s [] (d_dflt src && forallb dd_dflt kids)
                         (if is_inner_item g0 then None else Some OpNone) None None kids,
                      item_side g0, true)]
                end
            end
        end
  end.

Definition diff_level (sch : schema) (o : bool) (fa fb : forest) : list gitem :=
  pass1_all sch (diff1 sch o) true fa fb ++ pass2_all sch o true fb fa.

Definition diff (sch : schema) (o : bool) (fa fb : forest) : res (list dd) :=
  if supportedb sch fa && supportedb sch fb then Ok (order_level sch true (diff_level sch o fa fb))
  else Err e_unsupported.

(* ------------------------------------------------------------------------------------------- *)
(* default-flag walks                                                                            *)
(* ------------------------------------------------------------------------------------------- *)
(* a request that reaches a parent: lyd_np_cont_dflt_del(parent) or lyd_np_cont_dflt_set(parent); for the latter
   [others] says whether all children of that parent OTHER than the one the request comes from carry the default
   flag (the child itself carries it or has just been unlinked when it asks) *)
Inductive sig := SDel | SSet (others : bool).

(* one request at a node with default flag [fl]; [np] = the node is a non-presence container.
   Result: new flag, and whether the walk goes on to the node's parent (Some true: set, Some false: del) *)
Definition walk1 (np : bool) (fl : bool) (s : sig) : bool * option bool :=
  match s with
  | SDel => if fl then (false, Some false) else (fl, None)
  | SSet oth => if np && negb fl && oth then (true, Some true) else (fl, None)
  end.

(* the requests arriving one after the other; [oup] = the siblings of the node all carry the default flag *)
Fixpoint walks (np : bool) (fl : bool) (oup : bool) (sg : list sig) : bool * list sig :=
  match sg with
  | [] => (fl, [])
  | s :: r =>
      let '(fl1, up) := walk1 np fl s in
      let '(fl2, ups) := walks np fl1 oup r in
      (fl2, match up with
            | None => ups
            | Some true => SSet oup :: ups
            | Some false => SDel :: ups
            end)
  end.

(* ------------------------------------------------------------------------------------------- *)
(* lyd_diff_apply_all(data, diff)                                                                *)
(* ------------------------------------------------------------------------------------------- *)
(* lyd_diff_get_op(): own operation, else the nearest ancestor's, a replace of an ancestor being skipped.
   [inh] = what the search finds when it starts at the parent *)
Definition eff_op (inh : option dop) (own : option dop) : option dop :=
  match own with Some x => Some x | None => inh end.
Definition child_inh (inh : option dop) (own : option dop) : option dop :=
  match own with
  | Some OpReplace => inh
  | Some x => Some x
  | None => inh
  end.

Section ApplyChildren.
  Variable sch : schema.
  Variable step : dd -> forest -> res (forest * list sig).   (* lyd_diff_apply_r for one child diff node *)
  Variable np : bool.          (* the data node whose children are patched is a non-presence container *)
  Variable oup : bool.         (* its own siblings all carry the default flag *)

  (* LY_LIST_FOR(lyd_child_no_keys(diff_node), diff_child) lyd_diff_apply_r(lyd_node_child_p(match), match, ..):
     [cur] = the children of match, [fl] = its default flag, [up] = requests that went on to its parent *)
  Fixpoint apply_children (lead : bool) (l : list dd) (cur : forest) (fl : bool) (up : list sig)
    : res (forest * bool * list sig) :=
    match l with
    | [] => Ok (cur, fl, up)
    | c :: l' =>
        if lead && is_key sch (dd_sid c) then apply_children true l' cur fl up
        else
          match step c cur with
          | Err e => Err e
          | Ok (cur', sg) =>
              let '(fl', ups) := walks np fl oup sg in
              apply_children false l' cur' fl' (up ++ ups)
          end
    end.
End ApplyChildren.

Definition has_nokey_child (sch : schema) (l : list dd) : bool :=
  match dd_nokeys sch l with [] => false | _ => true end.

(* lyd_diff_apply_r(first_node, parent_node, diff_node): [f] = the siblings *first_node; the result holds the new
   siblings and the default-flag requests for parent_node *)
Fixpoint apply_r (sch : schema) (inh : option dop) (d : dd) (f : forest) {struct d} : res (forest * list sig) :=
  match d with
  | DD s v dflt op odflt oval ch =>
      match eff_op inh op with
      | None => Err e_int                                   (* Node without an operation *)
      | Some e =>
          let inh' := child_inh inh op in
          let term := is_term sch s in
          match e with
          | OpNone =>
              match match_idx sch f (dd_id sch d) with
              | None => Err e_inval
              | Some i =>
                  let m := nth i f (DN s v dflt [] []) in
                  if term then
                    (* only the default flag changes *)
                    Ok (replace_nth i f (set_dflt m dflt),
                        [if dflt then SSet (others d_dflt i f) else SDel])
                  else if negb (has_nokey_child sch ch) then Err e_inval
                  else
                    match apply_children sch (apply_r sch inh') (is_np_cont sch s) (others d_dflt i f)
                                         true ch (d_ch m) (d_dflt m) [] with
                    | Err e' => Err e'
                    | Ok (ch', fl', up) => Ok (replace_nth i f (set_dflt (set_ch m ch') fl'), up)
                    end
              end
          | OpCreate =>
              (* lyd_dup_single(diff_node, NULL, LYD_DUP_NO_META): the node with its keys, default flag kept *)
              let keys := map dd_node (dd_leadkeys sch ch) in
              let keys' := match kind_of sch s with KList => keys | _ => [] end in
              let fl0 := dflt && forallb d_dflt keys' in
              if term then Ok (insert_node sch f (DN s v fl0 [] []), if fl0 then [] else [SDel])
              else
              match apply_children sch (apply_r sch inh') (is_np_cont sch s) (forallb d_dflt f)
                                   true ch keys' fl0 [] with
              | Err e' => Err e'
              | Ok (ch', fl', up) =>
                  Ok (insert_node sch f (DN s v fl' [] ch'), (if fl0 then [] else [SDel]) ++ up)
              end
          | OpDelete =>
              match match_idx sch f (dd_id sch d) with
              | None => Err e_inval
              | Some i => let f' := remove_nth i f in Ok (f', [SSet (forallb d_dflt f')])
              end
          | OpReplace =>
              match kind_of sch s with
              | KLeaf =>
                  match match_idx sch f (dd_id sch d) with
                  | None => Err e_inval
                  | Some i =>
                      let m := nth i f (DN s v dflt [] []) in
                      (* lyd_change_term(): LY_ENOT (same value, no flag change) is an error here *)
                      if beq_bytes v (d_val m) && negb (d_dflt m) then Err e_inval
                      else
                        Ok (replace_nth i f (set_dflt (set_val m v) dflt),
                            (if d_dflt m then [SDel] else []) ++
                            [if dflt then SSet (others d_dflt i f) else SDel])
                  end
              | _ => Err e_inval
              end
          end
      end
  end.

(* lyd_diff_apply_module(): the roots one after the other, the first error stops *)
Fixpoint apply_roots (sch : schema) (ds : list dd) (f : forest) : res forest :=
  match ds with
  | [] => Ok f
  | d :: r =>
      match apply_r sch None d f with
      | Err e => Err e
      | Ok (f', _) => apply_roots sch r f'
      end
  end.

Definition apply (sch : schema) (ds : list dd) (f : forest) : res forest := apply_roots sch ds f.

(* ------------------------------------------------------------------------------------------- *)
(* what the theorems are stated with                                                             *)
(* ------------------------------------------------------------------------------------------- *)
(* a tree without its default nodes (what remains when defaults are not part of the comparison) *)
Fixpoint strip_dflt_node (n : dnode) : dnode :=
  match n with
  | DN s v d m ch =>
      DN s v d m ((fix go (l : list dnode) : list dnode :=
                     match l with
                     | [] => []
                     | c :: r => if d_dflt c then go r else strip_dflt_node c :: go r
                     end) ch)
  end.
Fixpoint strip_dflt (f : forest) : forest :=
  match f with
  | [] => []
  | c :: r => if d_dflt c then strip_dflt r else strip_dflt_node c :: strip_dflt r
  end.

(* well-formed input of the theorems (all executable; the correspondence run evaluates it on every generated tree):
   no metadata (the diff does not carry metadata: LYD_DUP_NO_META), the fragment, inner nodes have no value, a
   non-presence container carries the default flag iff all its children do (what the parser and validation
   maintain), other inner nodes and list keys never carry it, terms have no children, children sit under their
   schema parent, list keys lead, are present and are leaves, containers have no key children, siblings are sorted
   ([sib_okb]), have unique identities, and the order tells different identities apart ([ord_idb]: instances of one
   system-ordered (leaf-)list that compare equal are the same instance) *)
Definition is_nilb {A} (l : list A) : bool := match l with [] => true | _ => false end.

Definition same_idb (sch : schema) (x y : dnode) : bool :=
  match inst_id sch x, inst_id sch y with
  | Some i, Some j => iid_eqb i j
  | None, None => true
  | _, _ => false
  end.

Definition ord_idb (sch : schema) (f : forest) : bool :=
  forallb (fun x => forallb (fun y => negb (sib_okb sch x y && sib_okb sch y x) || same_idb sch x y) f) f.

Definition sibs_okb (sch : schema) (f : forest) : bool :=
  adjb (sib_okb sch) f && uniq_idsb_list sch f && ord_idb sch f.

Fixpoint wf_node (sch : schema) (n : dnode) {struct n} : bool :=
  match n with
  | DN s v d m ch =>
      is_nilb m && negb (userordered sch s) &&
      match kind_of sch s with
      | KAny => false
      | KCont false => Bool.eqb d (forallb d_dflt ch) && is_nilb v && forallb (fun c => negb (is_key sch (d_sid c))) ch
      | KCont true => negb d && is_nilb v && forallb (fun c => negb (is_key sch (d_sid c))) ch
      | KList =>
          negb d && is_nilb v && forallb (fun c => negb (is_key sch (d_sid c))) (nokeys sch ch) &&
          forallb (fun k => existsb (fun c => d_sid c =? k) ch &&
                            match kind_of sch k with KLeaf => true | _ => false end) (si_keys (sget sch s))
      | KLeaf | KLeafList => is_nilb ch && (negb (is_key sch s) || negb d)
      end &&
      forallb (fun c => opt_sid_eqb (si_parent (sget sch (d_sid c))) (Some s)) ch &&
      sibs_okb sch ch && forallb (wf_node sch) ch
  end.

Definition wfb (sch : schema) (f : forest) : bool :=
  forallb (fun c => negb (is_key sch (d_sid c))) f && sibs_okb sch f && forallb (wf_node sch) f.

(* no node carries the default flag (hypothesis of the partial theorem about diffs computed without the defaults option) *)
Fixpoint nodflt_node (n : dnode) {struct n} : bool :=
  match n with DN _ _ d _ ch => negb d && forallb nodflt_node ch end.
Definition nodfltb (f : forest) : bool := forallb nodflt_node f.
