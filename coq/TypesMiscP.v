(* TypesMiscP.v — lemmas about the scanning helpers, the range check and the boolean type. *)
From LY Require Import Base TypesMisc.
From Coq Require Import ZifyBool ZifyNat ZifyN.
Local Open Scope N_scope.

(* ---------- character classes ---------- *)
Lemma digit_not_space c : is_digit c = true -> is_space c = false.
Proof. unfold is_digit, is_space. lia. Qed.

Lemma space_not_digit c : is_space c = true -> is_digit c = false.
Proof. unfold is_digit, is_space. lia. Qed.

Lemma digit_nonzero c : is_digit c = true -> c <> 0.
Proof. unfold is_digit. lia. Qed.

Lemma space_nonzero c : is_space c = true -> c <> 0.
Proof. unfold is_space. lia. Qed.

(* ---------- skip_space ---------- *)
Lemma skip_space_split s :
  exists ws, s = ws ++ skip_space s /\ forallb is_space ws = true.
Proof.
  induction s as [|c s IH]; cbn [skip_space].
  - exists []. split; reflexivity.
  - destruct (is_space c) eqn:Hc.
    + destruct IH as [ws [Hs Hws]]. exists (c :: ws). split.
      * cbn [app]. rewrite <- Hs. reflexivity.
      * cbn [forallb]. rewrite Hc, Hws. reflexivity.
    + exists []. split; reflexivity.
Qed.

Lemma skip_space_head s c r : skip_space s = c :: r -> is_space c = false.
Proof.
  induction s as [|d s IH]; cbn [skip_space]; intro H; [discriminate|].
  destruct (is_space d) eqn:Hd.
  - apply IH. exact H.
  - inversion H; subst. exact Hd.
Qed.

Lemma skip_space_app_ws ws r : forallb is_space ws = true -> skip_space (ws ++ r) = skip_space r.
Proof.
  induction ws as [|c ws IH]; cbn [forallb app skip_space]; intro H; [reflexivity|].
  apply andb_true_iff in H. destruct H as [Hc Hws]. rewrite Hc. apply IH. exact Hws.
Qed.

Lemma skip_space_all ws : forallb is_space ws = true -> skip_space ws = [].
Proof.
  intro H. rewrite <- (app_nil_r ws). rewrite skip_space_app_ws by exact H. reflexivity.
Qed.

Lemma skip_space_nil s : skip_space s = [] -> forallb is_space s = true.
Proof.
  induction s as [|c s IH]; cbn [skip_space forallb]; intro H; [reflexivity|].
  destruct (is_space c) eqn:Hc; [|discriminate]. cbn [andb]. apply IH. exact H.
Qed.

Lemma skip_space_id c r : is_space c = false -> skip_space (c :: r) = c :: r.
Proof. intro H. cbn [skip_space]. rewrite H. reflexivity. Qed.

(* ---------- span_digits ---------- *)
Definition head_nondigit (r : bytes) : Prop :=
  match r with [] => True | c :: _ => is_digit c = false end.

Lemma span_digits_split s :
  s = fst (span_digits s) ++ snd (span_digits s) /\
  forallb is_digit (fst (span_digits s)) = true /\
  head_nondigit (snd (span_digits s)).
Proof.
  induction s as [|c s IH]; cbn [span_digits].
  - cbn. auto.
  - destruct (is_digit c) eqn:Hc.
    + destruct (span_digits s) as [d r]. cbn [fst snd] in *. destruct IH as [Hs [Hd Hr]].
      repeat split.
      * cbn [app]. rewrite <- Hs. reflexivity.
      * cbn [forallb]. rewrite Hc, Hd. reflexivity.
      * exact Hr.
    + cbn [fst snd app forallb head_nondigit]. auto.
Qed.

Lemma span_digits_app d r :
  forallb is_digit d = true -> head_nondigit r -> span_digits (d ++ r) = (d, r).
Proof.
  induction d as [|c d IH]; cbn [forallb app]; intros Hd Hr.
  - destruct r as [|c r]; cbn [span_digits]; [reflexivity|].
    cbn [head_nondigit] in Hr. rewrite Hr. reflexivity.
  - apply andb_true_iff in Hd. destruct Hd as [Hc Hd]. cbn [span_digits]. rewrite Hc.
    rewrite (IH Hd Hr). reflexivity.
Qed.

(* ---------- lyplg_type_validate_range ---------- *)
Lemma parts_sorted_later lo hi ps l h :
  parts_sorted ((lo, hi) :: ps) -> In (l, h) ps -> (hi < l)%Z.
Proof.
  revert lo hi. induction ps as [|[lo2 hi2] ps IH]; intros lo hi Hs Hin; [destruct Hin|].
  cbn [parts_sorted] in Hs. destruct Hs as [Hle [Hlt Hs2]].
  destruct Hin as [Heq|Hin].
  - inversion Heq; subst. exact Hlt.
  - assert (H2 : (hi2 < l)%Z) by (apply (IH lo2 hi2); assumption).
    cbn [parts_sorted] in Hs2. lia.
Qed.

(* On the part lists the schema compiler produces (ascending, disjoint, non-empty) the C function
   decides exactly membership in one of the parts. *)
Lemma validate_range_spec parts v :
  parts_sorted parts -> parts <> [] ->
  (validate_range parts v = true <-> in_parts parts v).
Proof.
  induction parts as [|[lo hi] ps IH]; intros Hs Hne; [congruence|].
  cbn [validate_range].
  destruct (v <? lo)%Z eqn:Hlo.
  - split; [discriminate|]. intros [l [h [Hin Hv]]]. exfalso.
    destruct Hin as [Heq|Hin].
    + inversion Heq; subst. lia.
    + pose proof (parts_sorted_later _ _ _ _ _ Hs Hin) as Hlt. cbn [parts_sorted] in Hs. lia.
  - destruct (v <=? hi)%Z eqn:Hhi.
    + split; [|reflexivity]. intros _. exists lo, hi. split; [left; reflexivity|lia].
    + destruct ps as [|p ps'].
      * split; [discriminate|]. intros [l [h [Hin Hv]]]. destruct Hin as [Heq|[]].
        inversion Heq; subst. lia.
      * assert (Hs2 : parts_sorted (p :: ps')) by (cbn [parts_sorted] in Hs; tauto).
        rewrite (IH Hs2 ltac:(discriminate)). split.
        -- intros [l [h [Hin Hv]]]. exists l, h. split; [right; exact Hin|exact Hv].
        -- intros [l [h [Hin Hv]]]. destruct Hin as [Heq|Hin].
           ++ inversion Heq; subst. lia.
           ++ exists l, h. split; assumption.
Qed.

(* without the ascending order the C function is NOT membership: a value inside a later part is
   rejected as soon as it lies below the minimum of an earlier one (never reachable from a compiled
   schema; shown so that the hypothesis of validate_range_spec is seen to be needed) *)
Lemma validate_range_unsorted_refuted :
  exists parts v, in_parts parts v /\ validate_range parts v = false.
Proof.
  exists [(10, 20); (1, 6)]%Z, 5%Z. split; [|reflexivity].
  exists 1%Z, 6%Z. split; [right; left; reflexivity|lia].
Qed.

(* an absent restriction (empty array) accepts everything *)
Lemma validate_range_nil v : validate_range [] v = true.
Proof. reflexivity. Qed.

(* ---------- boolean ---------- *)
Lemma bool_store_iff s b : bool_store s = Ok b <-> s = bool_canon b.
Proof.
  unfold bool_store.
  destruct (beq_bytes s s_true) eqn:Ht.
  - apply beq_bytes_eq in Ht. subst s. split.
    + intro H. inversion H. reflexivity.
    + destruct b; [reflexivity|]. cbn. discriminate.
  - destruct (beq_bytes s s_false) eqn:Hf.
    + apply beq_bytes_eq in Hf. subst s. split.
      * intro H. inversion H. reflexivity.
      * destruct b; [|reflexivity]. cbn. discriminate.
    + split; [discriminate|]. intro H. exfalso. destruct b; cbn [bool_canon] in H; subst s.
      * cbn in Ht. discriminate.
      * cbn in Hf. discriminate.
Qed.

Lemma bool_canon_idempotent b : bool_store (bool_canon b) = Ok b.
Proof. apply bool_store_iff. reflexivity. Qed.

Lemma bool_eq_iff_canon a b : bool_compare a b = true <-> bool_canon a = bool_canon b.
Proof. destruct a, b; cbn; split; intro H; try reflexivity; discriminate. Qed.

Lemma bool_sort_total_order :
  (forall a, bool_sort a a = Eq) /\
  (forall a b, bool_sort a b = Eq <-> bool_compare a b = true) /\
  (forall a b, bool_sort a b = CompOpp (bool_sort b a)) /\
  (forall a b c, bool_sort a b = Lt -> bool_sort b c = Lt -> bool_sort a c = Lt).
Proof.
  split; [intros []; reflexivity|].
  split; [intros [] []; cbn; split; congruence|].
  split; [intros [] []; reflexivity|].
  intros [] [] []; cbn; congruence.
Qed.
