(* Extract_sorted.v - extraction of the sorted slice (RBTree, Sorted) to OCaml; see Extract_xml.v. *)
From Coq Require Extraction ExtrOcamlBasic.
From LY Require Import Base RBTree Sorted Siblings.
Extraction Language OCaml.
Extraction "model_sorted.ml"
  N.add N.mul N.div N.modulo N.sub Z.add Z.mul Z.opp Z.of_N Z.abs_N Z.sub Z.ltb
  RBTree.rb_insert RBTree.rb_insert_max RBTree.rb_remove RBTree.rb_find RBTree.rb_check RBTree.inorder RBTree.size
  Sorted.lyds_insert Sorted.lyds_unlink Sorted.lyds_append Sorted.lyds_dup Sorted.lyds_dup_nolyds Sorted.dup_first_meta Sorted.lyd_merge_list Sorted.has_key Sorted.lyds_split Sorted.lyds_merge Siblings.sib_insert Siblings.sib_move Siblings.remove_at Sorted.elt_cmp Sorted.elt_ideq.
