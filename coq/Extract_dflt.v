(* Extract_dflt.v -- extraction of the dflt slice (Tree + Implicit + WithDefaults) to coq/model_dflt.ml *)
From Coq Require Extraction ExtrOcamlBasic.
From LY Require Import Base Tree Implicit WithDefaults WhenRes.
Extraction Language OCaml.
Extraction "model_dflt.ml"
  N.add N.mul N.div N.modulo N.sub Z.add Z.mul Z.opp Z.of_N Z.abs_N Z.sub Z.ltb
  Tree.lookup Tree.sget Tree.userordered Tree.dup_inst Tree.sorted_sid Tree.key_vals
  Tree.canonb Tree.uniq_idsb Tree.schema_okb Tree.insert_node Tree.forest_eqb
  Implicit.d_new Implicit.clr_new Implicit.validate_all Implicit.implicit_all Implicit.net
  Implicit.normalb Implicit.norm_snode Implicit.norm_level Implicit.cases_okb Implicit.active Implicit.schildren Implicit.is_inner
  Implicit.is_dflt_of Implicit.is_expl_of Implicit.apply_changes Implicit.np_norm Implicit.np_flagsb Implicit.strip Implicit.changes_idb Implicit.apply_changes_all
  WithDefaults.wd_print_forest WithDefaults.rfc_view_forest WithDefaults.should_print
  WithDefaults.wd_wf_forest WithDefaults.is_default_val WithDefaults.rfc_holds_default WithDefaults.is_termnode Implicit.flag_soundb Implicit.chc_okb Implicit.sids_uniqb Implicit.keys_plainb Implicit.editedb Implicit.freshb
  WhenRes.wrun WhenRes.acyclicb.
