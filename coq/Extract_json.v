(* Extract_json.v — extraction of the json slice (JsonText, StdText) to OCaml; see Extract_xml.v. *)
From Coq Require Extraction ExtrOcamlBasic.
From LY Require Import Base Utf8 XmlText JsonText StdText.
Extraction Language OCaml.
Extraction "model_json.ml"
  N.add N.mul N.div N.modulo N.sub Z.add Z.mul Z.opp Z.of_N Z.abs_N Z.sub Z.ltb
  JsonText.json_esc JsonText.json_string JsonText.json_quoted
  StdText.std_utf8_valid StdText.std_json_string StdText.std_xml_text XmlText.xml_esc.
