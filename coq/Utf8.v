(* Utf8.v — model of ly_getutf8 / ly_pututf8 / ly_checkutf8 (src/ly_common.c), transcribed
   branch by branch, and the RFC 3629 / RFC 7950 §9.4 specification they are compared with. *)
From LY Require Import Base.
Local Open Scope N_scope.

(* A NUL-terminated C buffer is the list of its non-NUL bytes; reading at or past the end
   gives 0, exactly what the C code sees at the terminator (it never reads past a 0 byte
   because a 0 byte fails every continuation test). *)
Definition rd0 (s : bytes) (i : nat) : N := nth i s 0.

Definition is_cont (b : N) : bool := N.land b 192 =? 128.        (* (b & 0xc0) == 0x80 *)

(* ly_getutf8: Some (code point, length) or None (LY_EINVAL) *)
Definition getutf8 (s : bytes) : option (N * nat) :=
  let c := rd0 s 0 in
  if N.land c 128 =? 0 then
    if (c <? 32) && negb (c =? 9) && negb (c =? 10) && negb (c =? 13) then None
    else Some (c, 1%nat)
  else if N.land c 224 =? 192 then
    let a1 := rd0 s 1 in
    if negb (is_cont a1) then None else
    let v := N.lor (N.shiftl (N.land c 31) 6) (N.land a1 63) in
    if v <? 128 then None else Some (v, 2%nat)
  else if N.land c 240 =? 224 then
    let a1 := rd0 s 1 in
    if negb (is_cont a1) then None else
    let a2 := rd0 s 2 in
    if negb (is_cont a2) then None else
    let v := N.lor (N.shiftl (N.lor (N.shiftl (N.land c 15) 6) (N.land a1 63)) 6) (N.land a2 63) in
    (* the noncharacter range %xFDD0-FDEF is refused since /repo commit d2cc93f *)
    if (v <? 2048) || ((55295 <? v) && (v <? 57344)) || ((64976 <=? v) && (v <=? 65007)) || (65533 <? v) then None
    else Some (v, 3%nat)
  else if N.land c 248 =? 240 then
    let a1 := rd0 s 1 in
    if negb (is_cont a1) then None else
    let a2 := rd0 s 2 in
    if negb (is_cont a2) then None else
    let a3 := rd0 s 3 in
    if negb (is_cont a3) then None else
    let v := N.lor (N.shiftl (N.lor (N.shiftl (N.lor (N.shiftl (N.land c 7) 6) (N.land a1 63)) 6)
                                    (N.land a2 63)) 6) (N.land a3 63) in
    (* (c < 0x10000) || (c > 0x10ffff)   (the lower bound was 0x1000 before /repo commit 5a70337: overlong forms) *)
    (* ... || ((c & 0xfffe) == 0xfffe): noncharacters %xnFFFE-nFFFF, since /repo commit d2cc93f *)
    if (v <? 65536) || (1114111 <? v) || (N.land v 65534 =? 65534) then None
    else Some (v, 4%nat)
  else None.

(* ly_pututf8: Some bytes or None (LY_EINVAL); value is a uint32 *)
Definition pututf8 (v : N) : option bytes :=
  if v <? 128 then
    if (v <? 32) && negb (v =? 9) && negb (v =? 10) && negb (v =? 13) then None
    else Some [v]
  else if v <? 2048 then
    Some [N.lor 192 (N.shiftr v 6); N.lor 128 (N.land v 63)]
  else if v <? 65534 then
    if (N.land v 63488 =? 55296) || ((64976 <=? v) && (v <=? 65007)) then None
    else Some [N.lor 224 (N.shiftr v 12); N.lor 128 (N.land (N.shiftr v 6) 63); N.lor 128 (N.land v 63)]
  else if v <? 1114110 then
    (* (value & 0xfffe) == 0xfffe   (the mask was 0xffe before /repo commit c0f8af1) *)
    if N.land v 65534 =? 65534 then None
    else Some [N.lor 240 (N.shiftr v 18); N.lor 128 (N.land (N.shiftr v 12) 63);
               N.lor 128 (N.land (N.shiftr v 6) 63); N.lor 128 (N.land v 63)]
  else None.

(* ly_checkutf8(input, in_len): Some len or None. [s] is the remaining buffer, in_len = length s.
   ly_utf8_less / greater compare byte-wise lexicographically. *)
Fixpoint lex_lt (a b : bytes) : bool :=          (* a < b, same length expected *)
  match a, b with
  | x :: a', y :: b' => if y <? x then false else if x <? y then true else lex_lt a' b'
  | _, _ => false
  end.
Fixpoint lex_gt (a b : bytes) : bool :=
  match a, b with
  | x :: a', y :: b' => if y <? x then true else if x <? y then false else lex_gt a' b'
  | _, _ => false
  end.
Fixpoint and_eq (a m v : bytes) : bool :=
  match a, m, v with
  | x :: a', mm :: m', vv :: v' => (N.land x mm =? vv) && and_eq a' m' v'
  | _, _, _ => true
  end.

Definition checkutf8 (s : bytes) : option nat :=
  let n := length s in
  let c := rd0 s 0 in
  if N.land c 128 =? 0 then
    if (c <? 32) && negb (c =? 9) && negb (c =? 10) && negb (c =? 13) then None else Some 1%nat
  else if (N.land c 224 =? 192) && (Nat.ltb 1 n) then
    let i := firstn 2 s in
    if lex_lt i [194;128] || lex_gt i [223;191] || negb (and_eq i [224;192] [192;128]) then None
    else Some 2%nat
  else if (N.land c 240 =? 224) && (Nat.ltb 2 n) then
    let i := firstn 3 s in
    if negb (lex_lt i [237;160;128]) && negb (lex_gt i [237;191;191]) then None
    (* (input >= 0xEFB790) && (input <= 0xEFB7AF): noncharacters %xFDD0-FDEF, since /repo commit d2cc93f *)
    else if negb (lex_lt i [239;183;144]) && negb (lex_gt i [239;183;175]) then None
    else if lex_lt i [224;160;128] || lex_gt i [239;191;189] ||      (* EF BF BD since /repo commit 2a3b08d *)
            negb (and_eq i [240;192;192] [224;128;128]) then None
    else Some 3%nat
  else if (N.land c 248 =? 240) && (Nat.ltb 3 n) then
    let i := firstn 4 s in
    if lex_lt i [240;144;128;128] || lex_gt i [244;143;191;191] ||
       negb (and_eq i [248;192;192;192] [240;128;128;128]) then None
    (* (input & 0x000FFFFE) == 0x000FBFBE: noncharacters %xnFFFE-nFFFF of planes 1-16, since /repo commit d2cc93f *)
    else if and_eq i [0;15;255;254] [0;15;191;190] then None
    else Some 4%nat
  else None.

(* ---------- specification: RFC 3629 encoding of Unicode scalar values ---------- *)

Definition utf8_encode (v : N) : bytes :=
  if v <? 128 then [v]
  else if v <? 2048 then [192 + N.shiftr v 6; 128 + N.land v 63]
  else if v <? 65536 then [224 + N.shiftr v 12; 128 + N.land (N.shiftr v 6) 63; 128 + N.land v 63]
  else [240 + N.shiftr v 18; 128 + N.land (N.shiftr v 12) 63; 128 + N.land (N.shiftr v 6) 63; 128 + N.land v 63].

Definition is_scalar (v : N) : bool := (v <? 55296) || ((57343 <? v) && (v <? 1114112)).

(* RFC 7950 §14 yang-char: Unicode scalar values minus C0 controls other than TAB/LF/CR and
   minus the noncharacters U+FDD0..FDEF and U+xFFFE/U+xFFFF *)
Definition is_yang_char (v : N) : bool :=
  is_scalar v &&
  negb ((v <? 32) && negb (v =? 9) && negb (v =? 10) && negb (v =? 13)) &&
  negb ((64976 <=? v) && (v <=? 65007)) &&
  negb (N.land v 65534 =? 65534).

(* the characters ly_getutf8 accepts when it is given their RFC 3629 encoding: since /repo commit d2cc93f
   (noncharacters refused) exactly the yang-char (Utf8P.getutf8_encode_iff); the name is kept for the lemmas
   that were stated with it *)
Definition getutf8_accepts_char (v : N) : bool := is_yang_char v.

(* whole-string check by repeated getutf8: what the XML/JSON lexers enforce on raw text *)
Fixpoint all_getutf8_f (fuel : nat) (s : bytes) : bool :=
  match fuel with
  | O => false
  | S f =>
      match s with
      | [] => true
      | _ => match getutf8 s with
             | None => false
             | Some (_, u) => all_getutf8_f f (skipn u s)
             end
      end
  end.
Definition all_getutf8 (s : bytes) : bool := all_getutf8_f (S (length s)) s.

Fixpoint all_checkutf8_f (fuel : nat) (s : bytes) : bool :=
  match fuel with
  | O => false
  | S f =>
      match s with
      | [] => true
      | _ => match checkutf8 s with
             | None => false
             | Some u => all_checkutf8_f f (skipn u s)
             end
      end
  end.
Definition all_checkutf8 (s : bytes) : bool := all_checkutf8_f (S (length s)) s.
