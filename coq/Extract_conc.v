From Coq Require Extraction ExtrOcamlBasic.
From LY Require Import Base Sched.
Extraction "model_conc.ml" N.add N.mul N.div N.modulo N.sub Z.add Z.mul Z.opp Z.of_N Z.abs_N Z.sub Z.ltb
  run run_calls init compile count_ev is_dangling is_bad_access is_blocked s_dict all_done thread_rem.
