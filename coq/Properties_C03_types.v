(* Properties_C03_types.v — property C03 (typed values: acceptance, canonical form, equality, ordering)
   for the integer types, decimal64, boolean and the range restriction: theorem statements only.
   Each is closed by [exact] of a lemma proved in IntLexP / Dec64P / TypesMiscP and followed by
   Print Assumptions. Models: IntLex.v, Dec64.v, TypesMisc.v (as coded; Dec64.v follows the code after
   the fixes f731599 and f933623 of /repo); the Spec
   definitions (rfc_int_lex, ly_int_lex, rfc_dec64_lex, rfc_ws_dec64_lex, in_parts, ...) are at the
   end of the model files. Not covered here: LYB encode/decode, duplication, the schema-default
   entry point (base 0 integers). *)
From LY Require Import Base TypesMisc TypesMiscP IntLex IntLexP Dec64 Dec64P.
Local Open Scope N_scope.

(* ====================== integers ====================== *)

(* A text is stored as the integer v of type t (with range parts) exactly when it is, between
   optional isspace() characters and optionally cut at a NUL byte, an optional sign and decimal
   digits (RFC 7950 9.2.1) denoting v, and v lies within the bounds of the type and passes the range
   check. The number is the unbounded mathematical value: 64-bit overflow never wraps. *)
Theorem C03_int_store_iff_lexical :
  forall t parts s v,
    int_store t parts s = Ok v <->
    ly_int_lex s v /\ (ity_min t <= v <= ity_max t)%Z /\ validate_range parts v = true.
Proof. exact int_store_iff_lexical. Qed.
Print Assumptions C03_int_store_iff_lexical.

(* for a value without NUL byte the accepted language is precisely: white space, RFC lexical
   representation, white space *)
Theorem C03_int_lex_without_nul :
  forall s v, no_nul s -> ly_int_lex s v ->
    exists ws1 core ws2, s = ws1 ++ core ++ ws2 /\ all_space ws1 /\ all_space ws2 /\ rfc_int_lex core v.
Proof. exact ly_int_lex_no_nul. Qed.
Print Assumptions C03_int_lex_without_nul.

(* the two departures from the strict RFC lexical space, with witnesses: surrounding white space
   (SP 1 LF), and an embedded NUL (1 NUL x) *)
Theorem C03_int_strict_rfc_refuted :
  (int_store I8 [] [32; 49; 10] = Ok 1%Z /\ forall w, ~ rfc_int_lex [32; 49; 10] w) /\
  (int_store I8 [] [49; 0; 120] = Ok 1%Z /\ forall w, ~ rfc_int_lex [49; 0; 120] w).
Proof. exact int_strict_rfc_refuted. Qed.
Print Assumptions C03_int_strict_rfc_refuted.

(* the canonical string of every value of the type is accepted and gives the value back *)
Theorem C03_int_canon_store :
  forall t parts v,
    (ity_min t <= v <= ity_max t)%Z -> validate_range parts v = true ->
    int_store t parts (int_canon v) = Ok v.
Proof. exact int_canon_store. Qed.
Print Assumptions C03_int_canon_store.

(* canonicalisation is idempotent and yields the RFC 7950 9.2.2 canonical form (no plus sign, no
   leading zeros, zero is 0 - never -0) whatever spelling was stored *)
Theorem C03_int_canon_idempotent :
  forall t parts s v,
    int_store t parts s = Ok v ->
    int_store t parts (int_canon v) = Ok v /\ rfc_int_canonical (int_canon v).
Proof. exact int_canon_idempotent. Qed.
Print Assumptions C03_int_canon_idempotent.

(* the compare callback says equal exactly when the canonical strings are equal *)
Theorem C03_int_eq_iff_canon :
  forall a b, int_compare a b = true <-> int_canon a = int_canon b.
Proof. exact int_eq_iff_canon. Qed.
Print Assumptions C03_int_eq_iff_canon.

(* the sort callback is a strict total order whose induced equality is the compare callback:
   reflexive-Eq, Eq iff compare, antisymmetric (swapping the arguments flips Lt and Gt), transitive *)
Theorem C03_int_sort_total_order :
  (forall a, int_sort a a = Eq) /\
  (forall a b, int_sort a b = Eq <-> int_compare a b = true) /\
  (forall a b, int_sort a b = CompOpp (int_sort b a)) /\
  (forall a b c, int_sort a b = Lt -> int_sort b c = Lt -> int_sort a c = Lt).
Proof. exact int_sort_total_order. Qed.
Print Assumptions C03_int_sort_total_order.

Example C03_int_example :
  int_store I8 [(-100, -10); (0, 0); (5, 20); (100, 127)]%Z [32; 43; 48; 49; 55; 10] = Ok 17%Z /\
  int_canon 17 = [49; 55] /\
  int_store U64 [] [49;56;52;52;54;55;52;52;48;55;51;55;48;57;53;53;49;54;49;53] = Ok 18446744073709551615%Z /\
  int_store U64 [] [49;56;52;52;54;55;52;52;48;55;51;55;48;57;53;53;49;54;49;54] = Err E_VALID /\
  int_store U8 [] [45; 48] = Ok 0%Z /\ int_store U8 [] [45; 49] = Err E_DENIED.
Proof. repeat split; reflexivity. Qed.

(* ====================== range / length restriction ====================== *)

(* on the part lists the schema compiler produces (non-empty, ascending, disjoint) the check is
   membership in one of the parts *)
Theorem C03_range_spec :
  forall parts v, parts_sorted parts -> parts <> [] ->
    (validate_range parts v = true <-> in_parts parts v).
Proof. exact validate_range_spec. Qed.
Print Assumptions C03_range_spec.

(* the ascending order is needed: 5 is in 1..6 but is rejected for the (uncompilable) list 10..20 | 1..6 *)
Theorem C03_range_unsorted_refuted :
  exists parts v, in_parts parts v /\ validate_range parts v = false.
Proof. exact validate_range_unsorted_refuted. Qed.
Print Assumptions C03_range_unsorted_refuted.

Example C03_range_example :
  parts_sorted [(-100, -10); (0, 0); (5, 20); (100, 127)]%Z /\
  validate_range [(-100, -10); (0, 0); (5, 20); (100, 127)]%Z 20 = true /\
  validate_range [(-100, -10); (0, 0); (5, 20); (100, 127)]%Z 21 = false.
Proof. cbn. repeat split; lia. Qed.

(* ====================== boolean ====================== *)

(* accepted exactly for the two literals (no white space), which are their own canonical form *)
Theorem C03_bool_store_iff :
  forall s b, bool_store s = Ok b <-> s = bool_canon b.
Proof. exact bool_store_iff. Qed.
Print Assumptions C03_bool_store_iff.

Theorem C03_bool_canon_idempotent :
  forall b, bool_store (bool_canon b) = Ok b.
Proof. exact bool_canon_idempotent. Qed.
Print Assumptions C03_bool_canon_idempotent.

Theorem C03_bool_eq_iff_canon :
  forall a b, bool_compare a b = true <-> bool_canon a = bool_canon b.
Proof. exact bool_eq_iff_canon. Qed.
Print Assumptions C03_bool_eq_iff_canon.

Theorem C03_bool_sort_total_order :
  (forall a, bool_sort a a = Eq) /\
  (forall a b, bool_sort a b = Eq <-> bool_compare a b = true) /\
  (forall a b, bool_sort a b = CompOpp (bool_sort b a)) /\
  (forall a b c, bool_sort a b = Lt -> bool_sort b c = Lt -> bool_sort a c = Lt).
Proof. exact bool_sort_total_order. Qed.
Print Assumptions C03_bool_sort_total_order.

(* ====================== decimal64 ====================== *)

(* dec64_scale, full strength, no side hypotheses (the model follows the code as fixed by /repo
   commits f731599 and f933623; the result does not depend on any byte outside the value). For
   fraction-digits fd >= 1: the text is stored as the scaled integer n exactly when it is, between
   optional white space, an optional sign, digits and optionally a period and digits
   (RFC 7950 9.3.1) whose value times 10^fd is n (dec64_denotes: the equation multiplied through by
   10^(number of fraction digits written)), n fits int64 and passes the range check. Any number of
   trailing fraction zeros is accepted; a significant digit beyond fd is not. *)
Theorem C03_dec64_scale :
  forall fd parts s n,
    (1 <= fd)%nat ->
    (dec64_store fd parts s = Ok n <->
     rfc_ws_dec64_lex fd s n /\ (I64MIN_Z <= n <= I64MAX_Z)%Z /\ validate_range parts n = true).
Proof. exact dec64_store_scale. Qed.
Print Assumptions C03_dec64_scale.

(* the same for the parser alone (lyplg_type_parse_dec64, no range) *)
Theorem C03_dec64_parse_scale :
  forall fd s n,
    (1 <= fd)%nat ->
    (dec64_parse fd s = Ok n <-> rfc_ws_dec64_lex fd s n /\ (I64MIN_Z <= n <= I64MAX_Z)%Z).
Proof. exact dec64_scale. Qed.
Print Assumptions C03_dec64_parse_scale.

(* every value of the RFC language (with white space) is accepted *)
Theorem C03_dec64_complete :
  forall fd s n,
    (1 <= fd)%nat -> rfc_ws_dec64_lex fd s n -> (I64MIN_Z <= n <= I64MAX_Z)%Z ->
    dec64_parse fd s = Ok n.
Proof. exact dec64_parse_complete. Qed.
Print Assumptions C03_dec64_complete.

(* regression of the former defect (fixed by f933623): a value whose first non-blank byte is a sign
   that is not followed by a digit ( -  +  -.5  +.5  - 1 ) is rejected with LY_EVALID, for every
   fraction-digits *)
Theorem C03_dec64_sign_needs_digit :
  forall fd s, dec64_sign_no_digit s = true -> dec64_parse fd s = Err E_VALID.
Proof. exact dec64_sign_needs_digit. Qed.
Print Assumptions C03_dec64_sign_needs_digit.

(* the canonical string is in RFC 7950 9.3.2 form: optional minus only, at least one digit on each
   side of the period, no other leading or trailing zeros, never -0.0 *)
Theorem C03_dec64_canon_is_rfc :
  forall fd n, (1 <= fd)%nat -> rfc_dec64_canonical (dec64_canon fd n).
Proof. exact dec64_canon_is_rfc. Qed.
Print Assumptions C03_dec64_canon_is_rfc.

(* canonicalisation is idempotent, from whatever accepted spelling *)
Theorem C03_dec64_canon_idempotent :
  forall fd parts s n,
    (1 <= fd)%nat ->
    dec64_store fd parts s = Ok n ->
    dec64_store fd parts (dec64_canon fd n) = Ok n /\ rfc_dec64_canonical (dec64_canon fd n).
Proof. exact dec64_canon_idempotent. Qed.
Print Assumptions C03_dec64_canon_idempotent.

(* every int64 is the stored form of its canonical string *)
Theorem C03_dec64_canon_store :
  forall fd parts n,
    (1 <= fd)%nat -> (I64MIN_Z <= n <= I64MAX_Z)%Z -> validate_range parts n = true ->
    dec64_store fd parts (dec64_canon fd n) = Ok n.
Proof. exact dec64_canon_store. Qed.
Print Assumptions C03_dec64_canon_store.

Theorem C03_dec64_eq_iff_canon :
  forall fd a b,
    (1 <= fd)%nat -> (I64MIN_Z <= a <= I64MAX_Z)%Z -> (I64MIN_Z <= b <= I64MAX_Z)%Z ->
    (dec64_compare a b = true <-> dec64_canon fd a = dec64_canon fd b).
Proof. exact dec64_eq_iff_canon. Qed.
Print Assumptions C03_dec64_eq_iff_canon.

Theorem C03_dec64_sort_total_order :
  (forall a, dec64_sort a a = Eq) /\
  (forall a b, dec64_sort a b = Eq <-> dec64_compare a b = true) /\
  (forall a b, dec64_sort a b = CompOpp (dec64_sort b a)) /\
  (forall a b c, dec64_sort a b = Lt -> dec64_sort b c = Lt -> dec64_sort a c = Lt).
Proof. exact dec64_sort_total_order. Qed.
Print Assumptions C03_dec64_sort_total_order.

(* C03_dec64_scale on ordinary values: SP -10.50 SP with fraction-digits 2 and the range
   -10.5..-1.25 | 0 | 3.14..100; and the former defect inputs ( -  +  -.5  +.5  - 1  1. ) are rejected *)
Example C03_dec64_example :
  dec64_store 2 [(-1050, -125); (0, 0); (314, 10000)]%Z [32; 45; 49; 48; 46; 53; 48; 32] = Ok (-1050)%Z /\
  dec64_canon 2 (-1050) = [45; 49; 48; 46; 53] /\
  dec64_canon 18 (-9223372036854775808) = [45;57;46;50;50;51;51;55;50;48;51;54;56;53;52;55;55;53;56;48;56] /\
  dec64_canon 2 5 = [48; 46; 48; 53] /\ dec64_canon 2 500 = [53; 46; 48] /\
  dec64_store 1 [] [49; 46; 53; 49] = Err E_FRAC /\ dec64_store 1 [] [49; 46; 53; 48; 48] = Ok 15%Z /\
  dec64_parse 1 [45] = Err E_VALID /\ dec64_parse 1 [43] = Err E_VALID /\
  dec64_parse 1 [45; 46; 53] = Err E_VALID /\ dec64_parse 1 [43; 46; 53] = Err E_VALID /\
  dec64_parse 1 [45; 32; 49] = Err E_VALID /\ dec64_parse 1 [49; 46] = Err E_VALID /\
  dec64_sign_no_digit [32; 45; 46; 53] = true /\
  dec64_parse 1 [45; 48; 46; 53] = Ok (-5)%Z /\ dec64_parse 1 [43; 49] = Ok 10%Z.
Proof. repeat split; reflexivity. Qed.
