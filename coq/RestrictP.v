(* RestrictP.v — proofs about Restrict.v (slice restrict, property C11). *)
From LY Require Import Base TypesMisc TypesMiscP IntLex IntLexP Dec64 Restrict.
From Coq Require Import ZifyBool ZifyNat ZifyN.
Local Open Scope N_scope.

(* ---------------------------------------------------------------------------------------------
   1. the fuel of the loop does not matter once it exceeds the length of the text
   --------------------------------------------------------------------------------------------- *)
Lemma count_digits_pos c r : is_digit c = true -> (1 <= count_digits (c :: r))%nat.
Proof. intro H. cbn [count_digits]. rewrite H. lia. Qed.

Lemma value_syntax_len_pos ty e len vc : value_syntax ty e = Ok (len, vc) -> (1 <= len)%nat.
Proof.
  unfold value_syntax. cbv zeta.
  set (c0 := rd e 0).
  set (len1 := if (c0 =? 45) || (c0 =? 43) then 1%nat else 0%nat).
  set (len2 := (len1 + count_digits (skipn len1 e))%nat).
  intro H.
  destruct (negb (is_digit c0) && negb (c0 =? 45) && negb (c0 =? 43)) eqn:Hc0; [discriminate|].
  assert (Hl2 : (1 <= len2)%nat).
  { unfold len2, len1. destruct ((c0 =? 45) || (c0 =? 43)) eqn:Hs; [lia|].
    cbn [skipn]. destruct e as [|c r]; unfold c0, rd in *; cbn [nth] in *.
    - cbn in Hc0. discriminate.
    - assert (Hd : is_digit c = true) by (destruct (is_digit c); [reflexivity|]; exfalso; lia).
      pose proof (count_digits_pos c r Hd). lia. }
  destruct ty as [t|fd|].
  - inversion H; subst. exact Hl2.
  - match type of H with context [if ?c then _ else _] => destruct c end.
    + destruct (dec_valcopy _ _ _ _); inversion H; subst. exact Hl2.
    + destruct (dec_valcopy _ _ _ _); inversion H; subst. lia.
  - inversion H; subst. exact Hl2.
Qed.

Lemma bound_num_len_pos ty mx first prev e v len :
  bound_num ty mx first prev e = Ok (v, len) -> (1 <= len)%nat.
Proof.
  unfold bound_num. destruct (value_syntax ty e) as [[l vc]|] eqn:Hs; [|discriminate].
  destruct (parse_bound ty vc); [|discriminate].
  destruct (first || asc_ok mx a prev); [|discriminate].
  intro H. inversion H; subst. exact (value_syntax_len_pos _ _ _ _ Hs).
Qed.

Lemma skip_space_length s : (length (skip_space s) <= length s)%nat.
Proof.
  induction s as [|c s IH]; cbn [skip_space]; [lia|].
  destruct (is_space c); cbn [length]; lia.
Qed.

Lemma loop_fuel f1 : forall f2 ty base rp pd re e,
  (length e < f1)%nat -> (length e < f2)%nat ->
  loop f1 ty base rp pd re e = loop f2 ty base rp pd re e.
Proof.
  induction f1 as [|f1 IH]; intros f2 ty base rp pd re e H1 H2; [lia|].
  destruct f2 as [|f2]; [lia|].
  cbn [loop]. destruct e as [|c rest]; [reflexivity|].
  cbn [length] in H1, H2.
  destruct (is_space c); [apply IH; lia|].
  destruct (starts_with s_min (c :: rest)).
  { destruct rp; [|reflexivity]. destruct (bound_kw ty base false true 0); [|reflexivity].
    apply IH; rewrite skipn_length; cbn [length]; lia. }
  destruct (c =? 124).
  { destruct (is_nil rp || re || (pd =? length rp)%nat); [reflexivity|]. apply IH; lia. }
  destruct (starts_with s_dots (c :: rest)).
  { destruct (is_nil rp || (length rp =? pd)%nat); [reflexivity|].
    pose proof (skip_space_length (skipn 2 (c :: rest))) as Hl. rewrite skipn_length in Hl. cbn [length] in Hl.
    apply IH; lia. }
  destruct (is_digit c || (c =? 45) || (c =? 43)).
  { destruct re.
    - destruct rp as [|[lo hi0] tl]; [reflexivity|].
      destruct (bound_num ty true false lo (c :: rest)) as [[v len]|] eqn:Hb; [|reflexivity].
      pose proof (bound_num_len_pos _ _ _ _ _ _ _ Hb) as Hlen.
      apply IH; rewrite skipn_length; cbn [length]; lia.
    - destruct (negb (is_nil rp) && negb (length rp =? pd)%nat); [reflexivity|].
      destruct (bound_num ty false (pd =? 0)%nat (prev_max pd rp) (c :: rest)) as [[v len]|] eqn:Hb; [|reflexivity].
      pose proof (bound_num_len_pos _ _ _ _ _ _ _ Hb) as Hlen.
      apply IH; rewrite skipn_length; cbn [length]; lia. }
  destruct (starts_with s_max (c :: rest)); [|reflexivity].
  destruct (negb re && negb (is_nil rp) && negb (length rp =? pd)%nat); [reflexivity|].
  destruct (skip_space (skipn 3 (c :: rest))); [|reflexivity].
  destruct re.
  - destruct rp as [|[lo hi0] tl]; [reflexivity|].
    destruct (bound_kw ty base true false lo); [|reflexivity]. apply IH; cbn [length]; lia.
  - destruct (bound_kw ty base true (pd =? 0)%nat (prev_max pd rp)); [|reflexivity]. apply IH; cbn [length]; lia.
Qed.

(* the loop with the fuel compile_range gives it *)
Definition run (ty : rty) (base rp : parts) (pd : nat) (re : bool) (e : bytes) : res (parts * nat) :=
  loop (S (length e)) ty base rp pd re e.

Lemma loop_run f ty base rp pd re e : (length e < f)%nat -> loop f ty base rp pd re e = run ty base rp pd re e.
Proof. intro H. unfold run. apply loop_fuel; lia. Qed.

(* one round of the loop, without fuel *)
Lemma run_nil ty base rp pd re :
  run ty base rp pd re [] =
  if re then Err E_VALID
  else if is_nil rp || (pd =? length rp)%nat then Err E_VALID
  else Ok (rev rp, S pd).
Proof. reflexivity. Qed.

Lemma run_cons ty base rp pd re c rest :
  run ty base rp pd re (c :: rest) =
  let expr := c :: rest in
  if is_space c then run ty base rp pd re rest
  else if starts_with s_min expr then
    match rp with
    | _ :: _ => Err E_VALID
    | [] => match bound_kw ty base false true 0 with
            | Err e => Err e
            | Ok m => run ty base [(m, m)] pd re (skipn 3 expr)
            end
    end
  else if c =? 124 then
    if is_nil rp || re || (pd =? length rp)%nat then Err E_VALID else run ty base rp (S pd) re rest
  else if starts_with s_dots expr then
    if is_nil rp || (length rp =? pd)%nat then Err E_VALID
    else run ty base rp pd true (skip_space (skipn 2 expr))
  else if is_digit c || (c =? 45) || (c =? 43) then
    if re then
      match rp with
      | [] => Err E_INT
      | (lo, _) :: tl =>
          match bound_num ty true false lo expr with
          | Err e => Err e
          | Ok (v, len) => run ty base ((lo, v) :: tl) pd false (skipn len expr)
          end
      end
    else if negb (is_nil rp) && negb (length rp =? pd)%nat then Err E_VALID
    else
      match bound_num ty false (pd =? 0)%nat (prev_max pd rp) expr with
      | Err e => Err e
      | Ok (v, len) => run ty base ((v, v) :: rp) pd false (skipn len expr)
      end
  else if starts_with s_max expr then
    if negb re && negb (is_nil rp) && negb (length rp =? pd)%nat then Err E_VALID else
    match skip_space (skipn 3 expr) with
    | _ :: _ => Err E_VALID
    | [] =>
        if re then
          match rp with
          | [] => Err E_INT
          | (lo, _) :: tl =>
              match bound_kw ty base true false lo with
              | Err e => Err e
              | Ok v => run ty base ((lo, v) :: tl) pd false []
              end
          end
        else
          match bound_kw ty base true (pd =? 0)%nat (prev_max pd rp) with
          | Err e => Err e
          | Ok v => run ty base ((v, v) :: rp) pd false []
          end
    end
  else Err E_VALID.
Proof.
  cbv zeta. unfold run at 1. cbn [length]. remember (S (length rest)) as f eqn:Hf. cbn [loop].
  destruct (is_space c); [apply loop_run; lia|].
  destruct (starts_with s_min (c :: rest)).
  { destruct rp; [|reflexivity]. destruct (bound_kw ty base false true 0); [|reflexivity].
    apply loop_run; rewrite skipn_length; cbn [length]; lia. }
  destruct (c =? 124).
  { destruct (is_nil rp || re || (pd =? length rp)%nat); [reflexivity|]. apply loop_run; lia. }
  destruct (starts_with s_dots (c :: rest)).
  { destruct (is_nil rp || (length rp =? pd)%nat); [reflexivity|].
    pose proof (skip_space_length (skipn 2 (c :: rest))) as Hl. rewrite skipn_length in Hl. cbn [length] in Hl.
    apply loop_run; lia. }
  destruct (is_digit c || (c =? 45) || (c =? 43)).
  { destruct re.
    - destruct rp as [|[lo hi0] tl]; [reflexivity|].
      destruct (bound_num ty true false lo (c :: rest)) as [[v len]|] eqn:Hb; [|reflexivity].
      pose proof (bound_num_len_pos _ _ _ _ _ _ _ Hb) as Hlen.
      apply loop_run; rewrite skipn_length; cbn [length]; lia.
    - destruct (negb (is_nil rp) && negb (length rp =? pd)%nat); [reflexivity|].
      destruct (bound_num ty false (pd =? 0)%nat (prev_max pd rp) (c :: rest)) as [[v len]|] eqn:Hb; [|reflexivity].
      pose proof (bound_num_len_pos _ _ _ _ _ _ _ Hb) as Hlen.
      apply loop_run; rewrite skipn_length; cbn [length]; lia. }
  destruct (starts_with s_max (c :: rest)); [|reflexivity].
  destruct (negb re && negb (is_nil rp) && negb (length rp =? pd)%nat); [reflexivity|].
  destruct (skip_space (skipn 3 (c :: rest))); [|reflexivity].
  destruct re.
  - destruct rp as [|[lo hi0] tl]; [reflexivity|].
    destruct (bound_kw ty base true false lo); [|reflexivity]. apply loop_run; cbn [length]; lia.
  - destruct (bound_kw ty base true (pd =? 0)%nat (prev_max pd rp)); [|reflexivity]. apply loop_run; cbn [length]; lia.
Qed.

(* results up to the error class *)
Definition ropt {A} (r : res A) : option A := match r with Ok a => Some a | Err _ => None end.
Definition orun (ty : rty) (base rp : parts) (pd : nat) (re : bool) (e : bytes) : option (parts * nat) :=
  ropt (run ty base rp pd re e).

(* ---------------------------------------------------------------------------------------------
   2. tokens
   --------------------------------------------------------------------------------------------- *)
Lemma orun_ws ty base rp pd re ws r : all_space ws -> orun ty base rp pd re (ws ++ r) = orun ty base rp pd re r.
Proof.
  unfold all_space, orun. induction ws as [|c ws IH]; cbn [forallb app]; intro H; [reflexivity|].
  apply andb_true_iff in H. destruct H as [Hc Hws]. rewrite run_cons. cbv zeta. rewrite Hc. exact (IH Hws).
Qed.

Lemma orun_bar ty base rp pd re r :
  orun ty base rp pd re (124 :: r) =
  if is_nil rp || re || (pd =? length rp)%nat then None else orun ty base rp (S pd) re r.
Proof.
  unfold orun. rewrite run_cons. cbv zeta.
  change (is_space 124) with false. change (starts_with s_min (124 :: r)) with false. change (124 =? 124) with true.
  cbv iota. destruct (is_nil rp || re || (pd =? length rp)%nat); reflexivity.
Qed.

Lemma orun_min ty base rp pd re r :
  orun ty base rp pd re (s_min ++ r) =
  match rp with
  | _ :: _ => None
  | [] => orun ty base [(kw_value ty base false, kw_value ty base false)] pd re r
  end.
Proof.
  unfold orun, s_min. cbn [app]. rewrite run_cons. cbv zeta.
  change (is_space 109) with false. cbv iota.
  replace (starts_with [109; 105; 110] (109 :: 105 :: 110 :: r)) with true by (cbn; reflexivity).
  destruct rp; [|reflexivity]. unfold bound_kw. cbn [orb skipn]. reflexivity.
Qed.

Lemma orun_dots ty base rp pd re r :
  orun ty base rp pd re (s_dots ++ r) =
  if is_nil rp || (length rp =? pd)%nat then None else orun ty base rp pd true (skip_space r).
Proof.
  unfold orun, s_dots. cbn [app]. rewrite run_cons. cbv zeta.
  change (is_space 46) with false. cbv iota.
  change (starts_with s_min (46 :: 46 :: r)) with false. change (46 =? 124) with false. cbv iota.
  replace (starts_with [46; 46] (46 :: 46 :: r)) with true by (cbn; reflexivity).
  cbn [skipn]. destruct (is_nil rp || (length rp =? pd)%nat); reflexivity.
Qed.

(* max: only white space may follow *)
Lemma orun_max ty base rp pd re r :
  orun ty base rp pd re (s_max ++ r) =
  if negb re && negb (is_nil rp) && negb (length rp =? pd)%nat then None else
  match skip_space r with
  | _ :: _ => None
  | [] =>
      let M := kw_value ty base true in
      if re then
        match rp with
        | [] => None
        | (lo, _) :: tl => if (lo <=? M)%Z then orun ty base ((lo, M) :: tl) pd false [] else None
        end
      else if (pd =? 0)%nat || (prev_max pd rp <=? M)%Z then orun ty base ((M, M) :: rp) pd false [] else None
  end.
Proof.
  unfold orun, s_max. cbn [app]. rewrite run_cons. cbv zeta.
  change (is_space 109) with false. cbv iota.
  change (starts_with s_min (109 :: 97 :: 120 :: r)) with false. change (109 =? 124) with false. cbv iota.
  change (starts_with s_dots (109 :: 97 :: 120 :: r)) with false. cbv iota.
  change (is_digit 109 || (109 =? 45) || (109 =? 43)) with false. cbv iota.
  replace (starts_with [109; 97; 120] (109 :: 97 :: 120 :: r)) with true by (cbn; reflexivity).
  destruct (negb re && negb (is_nil rp) && negb (length rp =? pd)%nat); [reflexivity|].
  cbn [skipn]. destruct (skip_space r); [|reflexivity].
  unfold bound_kw, asc_ok. destruct re.
  - destruct rp as [|[lo hi0] tl]; [reflexivity|]. cbn [orb]. destruct (lo <=? kw_value ty base true)%Z; reflexivity.
  - destruct ((pd =? 0)%nat || (prev_max pd rp <=? kw_value ty base true)%Z); reflexivity.
Qed.

(* ---------- number lexemes ---------- *)
Definition in_type (ty : rty) (v : Z) : bool := (rty_min ty <=? v)%Z && (v <=? rty_max ty)%Z.

(* what may follow a number in the text: no digit, and no period followed by a digit *)
Definition num_follow (r : bytes) : Prop :=
  match r with
  | [] => True
  | c :: r' => is_digit c = false /\ (c = 46 -> match r' with [] => True | d :: _ => is_digit d = false end)
  end.

Definition head_nondigit' (r : bytes) : Prop := match r with [] => True | c :: _ => is_digit c = false end.

Lemma num_follow_head r : num_follow r -> head_nondigit' r.
Proof. destruct r; cbn; tauto. Qed.

Lemma count_digits_app ds r : all_digit ds -> head_nondigit' r -> count_digits (ds ++ r) = length ds.
Proof.
  unfold all_digit. induction ds as [|d ds IH]; cbn [forallb app length]; intros Hd Hr.
  - destruct r as [|c r]; cbn [count_digits]; [reflexivity|]. cbn in Hr. rewrite Hr. reflexivity.
  - apply andb_true_iff in Hd. destruct Hd as [Hd Hds]. cbn [count_digits]. rewrite Hd, (IH Hds Hr). reflexivity.
Qed.

Lemma rd_app_r a b i : rd (a ++ b) (length a + i) = rd b i.
Proof. unfold rd. apply app_nth2_plus. Qed.

Lemma rd_app_r0 a b : rd (a ++ b) (length a) = rd b 0.
Proof. rewrite <- (Nat.add_0_r (length a)). apply rd_app_r. Qed.

Lemma firstn_app_exact {A} (a b : list A) : firstn (length a) (a ++ b) = a.
Proof. induction a as [|x a IH]; cbn [length app firstn]; [destruct b; reflexivity|]. rewrite IH. reflexivity. Qed.

Lemma skipn_app_exact {A} (a b : list A) : skipn (length a) (a ++ b) = b.
Proof. induction a as [|x a IH]; cbn [length app skipn]; [reflexivity|exact IH]. Qed.

Lemma all_digit_app a b : all_digit a -> all_digit b -> all_digit (a ++ b).
Proof. unfold all_digit. intros Ha Hb. rewrite forallb_app, Ha, Hb. reflexivity. Qed.

Lemma all_digit_zeros n : all_digit (repeat 48 n).
Proof. unfold all_digit. induction n; cbn [repeat forallb]; [reflexivity|]. rewrite IHn. reflexivity. Qed.

(* the first byte and the sign step on  sign digits ... *)
Lemma sign_digits_head sg ds r :
  is_sign sg -> ds <> [] -> all_digit ds ->
  let c0 := rd (sg ++ ds ++ r) 0 in
  negb (is_digit c0) && negb (c0 =? 45) && negb (c0 =? 43) = false /\
  (if (c0 =? 45) || (c0 =? 43) then 1%nat else 0%nat) = length sg.
Proof.
  intros Hsg Hne Hds. destruct ds as [|d ds]; [congruence|].
  unfold all_digit in Hds. cbn [forallb] in Hds. apply andb_true_iff in Hds. destruct Hds as [Hd _].
  destruct Hsg as [-> | [-> | ->]]; cbn [app rd nth length]; unfold rd; cbn [nth].
  - rewrite Hd. unfold is_digit in Hd. split; [reflexivity|].
    destruct (d =? 45) eqn:H1; [lia|]. destruct (d =? 43) eqn:H2; [lia|]. reflexivity.
  - split; reflexivity.
  - split; reflexivity.
Qed.

Lemma value_syntax_int ty sg ds r :
  (forall fd, ty <> RDec fd) -> is_sign sg -> ds <> [] -> all_digit ds -> head_nondigit' r ->
  value_syntax ty ((sg ++ ds) ++ r) = Ok (length (sg ++ ds), sg ++ ds).
Proof.
  intros Hty Hsg Hne Hds Hr. unfold value_syntax. cbv zeta. rewrite <- app_assoc.
  destruct (sign_digits_head sg ds r Hsg Hne Hds) as [H0 H1]. cbv zeta in H0, H1.
  rewrite H0, H1. rewrite skipn_app_exact, (count_digits_app ds r Hds Hr).
  rewrite app_assoc, <- app_length, firstn_app_exact.
  destruct ty as [t|fd|]; [reflexivity|exfalso; exact (Hty fd eq_refl)|reflexivity].
Qed.

Lemma value_syntax_dec_int fd sg ip r :
  is_sign sg -> ip <> [] -> all_digit ip -> num_follow r ->
  value_syntax (RDec fd) ((sg ++ ip) ++ r) = Ok (length (sg ++ ip), sg ++ ip ++ repeat 48 fd).
Proof.
  intros Hsg Hne Hds Hr. unfold value_syntax. cbv zeta. rewrite <- app_assoc.
  destruct (sign_digits_head sg ip r Hsg Hne Hds) as [H0 H1]. cbv zeta in H0, H1.
  rewrite H0, H1. rewrite skipn_app_exact, (count_digits_app ip r Hds (num_follow_head r Hr)).
  rewrite app_assoc, <- app_length.
  assert (Hgo : negb (rd ((sg ++ ip) ++ r) (length (sg ++ ip)) =? 46)
                || negb (is_digit (rd ((sg ++ ip) ++ r) (length (sg ++ ip) + 1))) = true).
  { rewrite rd_app_r0, rd_app_r. destruct r as [|c r']; unfold rd; cbn [nth]; [reflexivity|].
    cbn [num_follow] in Hr. destruct Hr as [_ Hr]. destruct (c =? 46) eqn:Hc; [|reflexivity].
    assert (Hc' : c = 46) by lia. specialize (Hr Hc'). destruct r' as [|d r'']; cbn [nth]; [reflexivity|].
    rewrite Hr. reflexivity. }
  rewrite Hgo. unfold dec_valcopy. cbn [Nat.eqb negb andb]. rewrite firstn_app_exact, <- app_assoc. reflexivity.
Qed.

Lemma value_syntax_dec_frac fd sg ip fp r :
  is_sign sg -> ip <> [] -> all_digit ip -> fp <> [] -> all_digit fp -> (length fp <= fd)%nat -> head_nondigit' r ->
  value_syntax (RDec fd) ((sg ++ ip ++ 46 :: fp) ++ r) =
  Ok (length (sg ++ ip ++ 46 :: fp), sg ++ ip ++ fp ++ repeat 48 (fd - length fp)).
Proof.
  intros Hsg Hne Hds Hfne Hfp Hlen Hr. unfold value_syntax. cbv zeta.
  replace ((sg ++ ip ++ 46 :: fp) ++ r) with (sg ++ ip ++ (46 :: fp ++ r)) by (rewrite <- !app_assoc; reflexivity).
  destruct (sign_digits_head sg ip (46 :: fp ++ r) Hsg Hne Hds) as [H0 H1]. cbv zeta in H0, H1.
  rewrite H0, H1. rewrite skipn_app_exact, (count_digits_app ip (46 :: fp ++ r) Hds eq_refl).
  rewrite app_assoc, <- app_length.
  set (A := sg ++ ip).
  assert (HA : (1 <= length A)%nat).
  { unfold A. rewrite app_length. destruct ip; [congruence|]. cbn [length]. lia. }
  destruct fp as [|f0 fp']; [congruence|].
  assert (Hf0 : is_digit f0 = true).
  { unfold all_digit in Hfp. cbn [forallb] in Hfp. apply andb_true_iff in Hfp. tauto. }
  assert (Hgo : negb (rd (A ++ 46 :: (f0 :: fp') ++ r) (length A) =? 46)
                || negb (is_digit (rd (A ++ 46 :: (f0 :: fp') ++ r) (length A + 1))) = false).
  { rewrite rd_app_r0, rd_app_r. unfold rd. cbn [nth app]. rewrite Hf0. reflexivity. }
  rewrite Hgo.
  assert (Hsk : skipn (length A + 1) (A ++ 46 :: (f0 :: fp') ++ r) = (f0 :: fp') ++ r).
  { replace (A ++ 46 :: (f0 :: fp') ++ r) with ((A ++ [46]) ++ (f0 :: fp') ++ r) by (rewrite <- app_assoc; reflexivity).
    replace (length A + 1)%nat with (length (A ++ [46])) by (rewrite app_length; reflexivity).
    apply skipn_app_exact. }
  rewrite Hsk, (count_digits_app (f0 :: fp') r Hfp Hr).
  unfold dec_valcopy.
  replace (length A + 1 + length (f0 :: fp') - 1 - length A)%nat with (length (f0 :: fp')) by lia.
  destruct (length A =? 0)%nat eqn:HA0; [lia|]. cbn [negb andb].
  destruct (fd <? length (f0 :: fp'))%nat eqn:Hfd; [lia|].
  rewrite firstn_app_exact, Hsk, firstn_app_exact.
  f_equal. f_equal; [|unfold A; rewrite <- app_assoc; reflexivity].
  unfold A. rewrite !app_length. cbn [length]. lia.
Qed.

(* ly_parse_int / ly_parse_uint on  sign digits *)
Lemma plg_is_ly_int sg ds lo hi :
  is_sign sg -> ds <> [] -> all_digit ds -> plg_parse_int (sg ++ ds) lo hi = ly_parse_int (sg ++ ds) lo hi.
Proof.
  intros Hsg Hne Hds. destruct (core_head sg ds Hsg Hne Hds) as [c0 [r0 [Hc [Hsp [Hnz _]]]]].
  unfold plg_parse_int. rewrite Hc, (skip_space_id c0 r0 Hsp).
  destruct (c0 =? 0) eqn:H0; [lia|reflexivity].
Qed.

Lemma plg_is_ly_uint sg ds hi :
  is_sign sg -> ds <> [] -> all_digit ds -> plg_parse_uint (sg ++ ds) hi = ly_parse_uint (sg ++ ds) hi.
Proof.
  intros Hsg Hne Hds. destruct (core_head sg ds Hsg Hne Hds) as [c0 [r0 [Hc [Hsp [Hnz _]]]]].
  unfold plg_parse_uint. rewrite Hc, (skip_space_id c0 r0 Hsp).
  destruct (c0 =? 0) eqn:H0; [lia|reflexivity].
Qed.

Lemma sign_digits_lex sg ds : is_sign sg -> ds <> [] -> all_digit ds -> ly_int_lex (sg ++ ds) (sign_val sg (dec_to_N ds)).
Proof. intros. apply rfc_lex_is_ly_lex. apply RfcInt; assumption. Qed.

Lemma ly_parse_int_core sg ds lo hi :
  (- Z.of_N I64MAX - 1 <= lo)%Z -> (hi <= Z.of_N I64MAX)%Z ->
  is_sign sg -> ds <> [] -> all_digit ds ->
  ropt (ly_parse_int (sg ++ ds) lo hi) =
  let v := sign_val sg (dec_to_N ds) in if (lo <=? v)%Z && (v <=? hi)%Z then Some v else None.
Proof.
  intros Hlo Hhi Hsg Hne Hds. cbv zeta. rewrite <- plg_is_ly_int by assumption.
  pose proof (plg_parse_int_core sg ds lo hi) as Hcore.
  destruct (plg_parse_int (sg ++ ds) lo hi) as [w|e] eqn:Hp; cbn [ropt].
  - destruct (proj1 (Hcore w Hlo Hhi Hsg Hne Hds) eq_refl) as [-> Hb].
    destruct ((lo <=? sign_val sg (dec_to_N ds))%Z && (sign_val sg (dec_to_N ds) <=? hi)%Z) eqn:Hc; [reflexivity|lia].
  - destruct ((lo <=? sign_val sg (dec_to_N ds))%Z && (sign_val sg (dec_to_N ds) <=? hi)%Z) eqn:Hc; [|reflexivity].
    exfalso. assert (Hb : (lo <= sign_val sg (dec_to_N ds) <= hi)%Z) by lia.
    pose proof (proj2 (Hcore _ Hlo Hhi Hsg Hne Hds) (conj eq_refl Hb)) as Hok. congruence.
Qed.

Lemma ly_parse_uint_core sg ds hi :
  (hi <= Z.of_N U64MAX)%Z -> is_sign sg -> ds <> [] -> all_digit ds ->
  ropt (ly_parse_uint (sg ++ ds) hi) =
  let v := sign_val sg (dec_to_N ds) in if (0 <=? v)%Z && (v <=? hi)%Z then Some v else None.
Proof.
  intros Hhi Hsg Hne Hds. cbv zeta. rewrite <- plg_is_ly_uint by assumption.
  pose proof (sign_digits_lex sg ds Hsg Hne Hds) as Hlex.
  destruct (plg_parse_uint (sg ++ ds) hi) as [w|e] eqn:Hp; cbn [ropt].
  - destruct (plg_parse_uint_ok _ _ _ Hp) as [Hl Hb].
    pose proof (ly_int_lex_det _ _ _ Hl Hlex) as ->.
    destruct ((0 <=? sign_val sg (dec_to_N ds))%Z && (sign_val sg (dec_to_N ds) <=? hi)%Z) eqn:Hc; [reflexivity|lia].
  - destruct ((0 <=? sign_val sg (dec_to_N ds))%Z && (sign_val sg (dec_to_N ds) <=? hi)%Z) eqn:Hc; [|reflexivity].
    exfalso. assert (Hb : (0 <= sign_val sg (dec_to_N ds) <= hi)%Z) by lia.
    pose proof (plg_parse_uint_complete _ _ _ Hhi Hlex Hb) as Hok. congruence.
Qed.

Lemma parse_bound_core ty sg ds :
  is_sign sg -> ds <> [] -> all_digit ds ->
  ropt (parse_bound ty (sg ++ ds)) =
  let v := sign_val sg (dec_to_N ds) in if in_type ty v then Some v else None.
Proof.
  intros Hsg Hne Hds. unfold parse_bound, in_type. destruct ty as [t|fd|]; cbn [rty_min rty_max].
  - destruct (ity_signed t) eqn:Hs.
    + destruct (ity_bounds_signed t Hs) as [Hlo Hhi]. apply ly_parse_int_core; assumption.
    + destruct (ity_bounds_unsigned t Hs) as [Hlo Hhi]. rewrite Hlo. apply ly_parse_uint_core; assumption.
  - apply ly_parse_int_core; try assumption; unfold I64MIN_Z, I64MAX_Z; rewrite I64MAX_val; lia.
  - apply ly_parse_uint_core; try assumption. rewrite U64MAX_val. cbn. lia.
Qed.

(* a number of the grammar followed by something that does not continue it *)
Lemma bound_num_lex ty l v r mx first prev :
  num_lex ty l v -> num_follow r ->
  ropt (bound_num ty mx first prev (l ++ r)) =
  if in_type ty v && (first || asc_ok mx v prev) then Some (v, length l) else None.
Proof.
  intros Hlex Hr. unfold bound_num.
  assert (Hgen : forall sg DS vc, is_sign sg -> DS <> [] -> all_digit DS -> vc = sg ++ DS ->
            v = sign_val sg (dec_to_N DS) ->
            value_syntax ty (l ++ r) = Ok (length l, vc) ->
            ropt match value_syntax ty (l ++ r) with
                 | Ok (len, vc0) => match parse_bound ty vc0 with
                                    | Ok v0 => if first || asc_ok mx v0 prev then Ok (v0, len) else Err E_EXIST
                                    | Err e => Err e
                                    end
                 | Err e => Err e
                 end = if in_type ty v && (first || asc_ok mx v prev) then Some (v, length l) else None).
  { intros sg DS vc Hsg Hne Hds -> -> Hvs. rewrite Hvs.
    pose proof (parse_bound_core ty sg DS Hsg Hne Hds) as Hp. cbv zeta in Hp.
    destruct (parse_bound ty (sg ++ DS)) as [w|e]; cbn [ropt] in Hp.
    - destruct (in_type ty (sign_val sg (dec_to_N DS))); [|discriminate]. inversion Hp; subst w. cbn [andb].
      destruct (first || asc_ok mx (sign_val sg (dec_to_N DS)) prev); reflexivity.
    - destruct (in_type ty (sign_val sg (dec_to_N DS))); [discriminate|]. reflexivity. }
  destruct Hlex as [t sg ds Hsg Hne Hds | sg ds Hsg Hne Hds | fd sg ip Hsg Hne Hds | fd sg ip fp Hsg Hne Hds Hfne Hfp Hlen].
  - apply (Hgen sg ds (sg ++ ds)); try assumption; try reflexivity.
    apply value_syntax_int; try assumption; [intros fd; discriminate|apply num_follow_head; exact Hr].
  - apply (Hgen sg ds (sg ++ ds)); try assumption; try reflexivity.
    apply value_syntax_int; try assumption; [intros fd; discriminate|apply num_follow_head; exact Hr].
  - apply (Hgen sg (ip ++ repeat 48 fd) (sg ++ ip ++ repeat 48 fd)); try assumption; try reflexivity.
    + destruct ip; [congruence|discriminate].
    + apply all_digit_app; [assumption|apply all_digit_zeros].
    + apply value_syntax_dec_int; assumption.
  - apply (Hgen sg (ip ++ fp ++ repeat 48 (fd - length fp)) (sg ++ ip ++ fp ++ repeat 48 (fd - length fp)));
      try assumption; try reflexivity.
    + destruct ip; [congruence|discriminate].
    + apply all_digit_app; [assumption|apply all_digit_app; [assumption|apply all_digit_zeros]].
    + apply value_syntax_dec_frac; try assumption. apply num_follow_head; exact Hr.
Qed.

Lemma num_lex_head ty l v :
  num_lex ty l v -> exists c l', l = c :: l' /\ is_digit c || (c =? 45) || (c =? 43) = true.
Proof.
  assert (Hgen : forall sg ds tl, is_sign sg -> ds <> [] -> all_digit ds ->
            exists c l', sg ++ ds ++ tl = c :: l' /\ is_digit c || (c =? 45) || (c =? 43) = true).
  { intros sg ds tl Hsg Hne Hds. destruct ds as [|d ds]; [congruence|].
    unfold all_digit in Hds. cbn [forallb] in Hds. apply andb_true_iff in Hds. destruct Hds as [Hd _].
    destruct Hsg as [-> | [-> | ->]]; cbn [app].
    - exists d, (ds ++ tl). split; [reflexivity|]. rewrite Hd. reflexivity.
    - exists 43, (d :: ds ++ tl). split; reflexivity.
    - exists 45, (d :: ds ++ tl). split; reflexivity. }
  intros [t sg ds Hsg Hne Hds | sg ds Hsg Hne Hds | fd sg ip Hsg Hne Hds | fd sg ip fp Hsg Hne Hds Hfne Hfp Hlen].
  - destruct (Hgen sg ds [] Hsg Hne Hds) as [c [l' [H1 H2]]]. rewrite app_nil_r in H1. eauto.
  - destruct (Hgen sg ds [] Hsg Hne Hds) as [c [l' [H1 H2]]]. rewrite app_nil_r in H1. eauto.
  - destruct (Hgen sg ip [] Hsg Hne Hds) as [c [l' [H1 H2]]]. rewrite app_nil_r in H1. eauto.
  - exact (Hgen sg ip (46 :: fp) Hsg Hne Hds).
Qed.

Lemma orun_num ty base rp pd re l v r :
  num_lex ty l v -> num_follow r ->
  orun ty base rp pd re (l ++ r) =
  if re then
    match rp with
    | [] => None
    | (lo, _) :: tl => if in_type ty v && (lo <=? v)%Z then orun ty base ((lo, v) :: tl) pd false r else None
    end
  else if negb (is_nil rp) && negb (length rp =? pd)%nat then None
  else if in_type ty v && ((pd =? 0)%nat || (prev_max pd rp <? v)%Z) then orun ty base ((v, v) :: rp) pd false r
       else None.
Proof.
  intros Hlex Hr. destruct (num_lex_head ty l v Hlex) as [c [l' [Hl Hc]]].
  unfold orun. rewrite Hl. cbn [app]. rewrite run_cons. cbv zeta.
  assert (Hsp : is_space c = false).
  { destruct (is_digit c) eqn:Hd; [apply digit_not_space; exact Hd|]. unfold is_space. lia. }
  assert (Hmin : starts_with s_min (c :: l' ++ r) = false).
  { unfold s_min. cbn [starts_with]. unfold is_digit in Hc. destruct (109 =? c) eqn:H; [lia|reflexivity]. }
  assert (Hbar : (c =? 124) = false) by (unfold is_digit in Hc; lia).
  assert (Hdots : starts_with s_dots (c :: l' ++ r) = false).
  { unfold s_dots. cbn [starts_with]. unfold is_digit in Hc. destruct (46 =? c) eqn:H; [lia|reflexivity]. }
  rewrite Hsp, Hmin, Hbar, Hdots, Hc.
  change (c :: l' ++ r) with ((c :: l') ++ r). rewrite <- Hl.
  destruct re.
  - destruct rp as [|[lo hi0] tl]; [reflexivity|].
    pose proof (bound_num_lex ty l v r true false lo Hlex Hr) as Hb.
    destruct (bound_num ty true false lo (l ++ r)) as [[w len]|e]; cbn [ropt] in Hb; unfold asc_ok in Hb; cbn [orb] in Hb.
    + destruct (in_type ty v && (lo <=? v)%Z); [|discriminate]. inversion Hb; subst.
      rewrite skipn_app_exact. reflexivity.
    + destruct (in_type ty v && (lo <=? v)%Z); [discriminate|reflexivity].
  - destruct (negb (is_nil rp) && negb (length rp =? pd)%nat); [reflexivity|].
    pose proof (bound_num_lex ty l v r false (pd =? 0)%nat (prev_max pd rp) Hlex Hr) as Hb.
    destruct (bound_num ty false (pd =? 0)%nat (prev_max pd rp) (l ++ r)) as [[w len]|e]; cbn [ropt] in Hb;
      unfold asc_ok in Hb.
    + destruct (in_type ty v && ((pd =? 0)%nat || (prev_max pd rp <? v)%Z)); [|discriminate]. inversion Hb; subst.
      rewrite skipn_app_exact. reflexivity.
    + destruct (in_type ty v && ((pd =? 0)%nat || (prev_max pd rp <? v)%Z)); [discriminate|reflexivity].
Qed.

(* ---------------------------------------------------------------------------------------------
   3. the loop on texts of the grammar = a recursive function on the abstract syntax
   --------------------------------------------------------------------------------------------- *)
Definition prev_hi (rp : parts) : Z := match rp with (_, h) :: _ => h | [] => 0%Z end.

Lemma prev_max_len rp : prev_max (length rp) rp = prev_hi rp.
Proof. destruct rp as [|[l h] rp]; reflexivity. Qed.

Lemma len0_is_nil {A} (l : list A) : (length l =? 0)%nat = is_nil l.
Proof. destruct l; reflexivity. Qed.

(* lower bound of a new part; [last]: nothing but white space follows *)
Definition sem_lo (ty : rty) (base rp : parts) (last : bool) (b : bnd) : option Z :=
  match b with
  | BMin => if is_nil rp then Some (kw_value ty base false) else None
  | BNum v => if in_type ty v && (is_nil rp || (prev_hi rp <? v)%Z) then Some v else None
  | BMax => if last && (is_nil rp || (prev_hi rp <=? kw_value ty base true)%Z) then Some (kw_value ty base true) else None
  end.

Definition sem_hi (ty : rty) (base : parts) (lo : Z) (last : bool) (b : bnd) : option Z :=
  match b with
  | BMin => None
  | BNum v => if in_type ty v && (lo <=? v)%Z then Some v else None
  | BMax => if last && (lo <=? kw_value ty base true)%Z then Some (kw_value ty base true) else None
  end.

Definition sem_part (ty : rty) (base rp : parts) (last : bool) (p : rpart) : option (Z * Z) :=
  match p with
  | (b1, None) => match sem_lo ty base rp last b1 with Some lo => Some (lo, lo) | None => None end
  | (b1, Some b2) =>
      match sem_lo ty base rp false b1 with
      | None => None
      | Some lo => match sem_hi ty base lo last b2 with Some hi => Some (lo, hi) | None => None end
      end
  end.

Fixpoint sem_parts (ty : rty) (base rp : parts) (ps : list rpart) : option parts :=
  match ps with
  | [] => Some (rev rp)
  | p :: ps' =>
      match sem_part ty base rp (is_nil ps') p with
      | None => None
      | Some d => sem_parts ty base (d :: rp) ps'
      end
  end.

(* what follows a boundary (after optional white space): the end, a bar, or two periods *)
Definition sep_start (r : bytes) : Prop := r = [] \/ (exists r', r = 124 :: r') \/ (exists r', r = 46 :: 46 :: r').

Lemma sep_follow ws r : all_space ws -> sep_start r -> num_follow (ws ++ r).
Proof.
  intros Hws Hr. destruct ws as [|w ws]; cbn [app].
  - destruct Hr as [-> | [[r' ->] | [r' ->]]]; cbn [num_follow].
    + exact I.
    + split; [reflexivity|]. intro H; discriminate.
    + split; [reflexivity|]. intros _. reflexivity.
  - unfold all_space in Hws. cbn [forallb] in Hws. apply andb_true_iff in Hws. destruct Hws as [Hw _].
    cbn [num_follow]. split; [apply space_not_digit; exact Hw|]. intros ->. discriminate.
Qed.

Lemma sep_skip ws r : all_space ws -> sep_start r -> skip_space (ws ++ r) = r.
Proof.
  intros Hws Hr. rewrite skip_space_app_ws by exact Hws.
  destruct Hr as [-> | [[r' ->] | [r' ->]]]; reflexivity.
Qed.

Lemma bnd_text_head ty b tb : bnd_text ty b tb -> exists c t', tb = c :: t' /\ is_space c = false.
Proof.
  intros [ | | l v Hl].
  - exists 109, [105; 110]. split; reflexivity.
  - exists 109, [97; 120]. split; reflexivity.
  - destruct (num_lex_head ty l v Hl) as [c [l' [-> Hc]]]. exists c, l'. split; [reflexivity|].
    destruct (is_digit c) eqn:Hd; [apply digit_not_space; exact Hd|]. unfold is_space. lia.
Qed.

Lemma lo_sim ty base rp b tb ws R :
  bnd_text ty b tb -> all_space ws -> sep_start R ->
  orun ty base rp (length rp) false (tb ++ ws ++ R) =
  match sem_lo ty base rp (is_nil R) b with
  | None => None
  | Some lo => orun ty base ((lo, lo) :: rp) (length rp) false R
  end.
Proof.
  intros Hb Hws HR. destruct Hb as [ | | l v Hl]; cbn [sem_lo].
  - rewrite orun_min. destruct rp; cbn [is_nil]; [|reflexivity]. apply orun_ws. exact Hws.
  - rewrite orun_max, (sep_skip ws R Hws HR). cbv zeta. rewrite prev_max_len, len0_is_nil.
    rewrite Nat.eqb_refl. cbn [negb andb]. rewrite andb_false_r.
    destruct R as [|c R']; cbn [is_nil andb]; [|reflexivity].
    destruct (is_nil rp || (prev_hi rp <=? kw_value ty base true)%Z); reflexivity.
  - rewrite (orun_num ty base rp (length rp) false l v (ws ++ R) Hl (sep_follow ws R Hws HR)).
    rewrite prev_max_len, len0_is_nil. rewrite Nat.eqb_refl. cbn [negb]. rewrite andb_false_r.
    destruct (in_type ty v && (is_nil rp || (prev_hi rp <? v)%Z)); [|reflexivity]. apply orun_ws. exact Hws.
Qed.

Lemma hi_sim ty base rp lo x pd b tb ws R :
  bnd_text ty b tb -> all_space ws -> sep_start R ->
  orun ty base ((lo, x) :: rp) pd true (tb ++ ws ++ R) =
  match sem_hi ty base lo (is_nil R) b with
  | None => None
  | Some hi => orun ty base ((lo, hi) :: rp) pd false R
  end.
Proof.
  intros Hb Hws HR. destruct Hb as [ | | l v Hl]; cbn [sem_hi].
  - rewrite orun_min. reflexivity.
  - rewrite orun_max, (sep_skip ws R Hws HR). cbv zeta.
    destruct R as [|c R']; cbn [is_nil andb]; [|reflexivity].
    destruct (lo <=? kw_value ty base true)%Z; reflexivity.
  - rewrite (orun_num ty base ((lo, x) :: rp) pd true l v (ws ++ R) Hl (sep_follow ws R Hws HR)).
    destruct (in_type ty v && (lo <=? v)%Z); [|reflexivity]. apply orun_ws. exact Hws.
Qed.

(* R: what follows the part, nothing or a bar *)
Definition part_follow (R : bytes) : Prop := R = [] \/ exists R', R = 124 :: R'.

Lemma part_follow_sep R : part_follow R -> sep_start R.
Proof. intros [-> | [R' ->]]; [left; reflexivity|right; left; eauto]. Qed.

Lemma part_sim ty base rp p tp R :
  part_text ty p tp -> part_follow R ->
  orun ty base rp (length rp) false (tp ++ R) =
  match sem_part ty base rp (is_nil R) p with
  | None => None
  | Some d => orun ty base (d :: rp) (length rp) false R
  end.
Proof.
  intros Hp HR. pose proof (part_follow_sep R HR) as HS.
  destruct Hp as [b tb ws Hb Hws | b1 t1 ws1 ws2 b2 t2 ws3 Hb1 Hws1 Hws2 Hb2 Hws3]; cbn [sem_part].
  - rewrite <- app_assoc, (lo_sim ty base rp b tb ws R Hb Hws HS).
    destruct (sem_lo ty base rp (is_nil R) b); reflexivity.
  - replace ((t1 ++ ws1 ++ s_dots ++ ws2 ++ t2 ++ ws3) ++ R)
      with (t1 ++ ws1 ++ (s_dots ++ ws2 ++ t2 ++ ws3 ++ R)) by (rewrite <- !app_assoc; reflexivity).
    rewrite (lo_sim ty base rp b1 t1 ws1 (s_dots ++ ws2 ++ t2 ++ ws3 ++ R) Hb1 Hws1).
    2:{ right; right. unfold s_dots. cbn [app]. eauto. }
    change (is_nil (s_dots ++ ws2 ++ t2 ++ ws3 ++ R)) with false.
    destruct (sem_lo ty base rp false b1) as [lo|]; [|reflexivity].
    rewrite orun_dots. cbn [is_nil orb length].
    destruct (S (length rp) =? length rp)%nat eqn:Hn; [lia|].
    destruct (bnd_text_head ty b2 t2 Hb2) as [c [t' [Ht2 Hc]]].
    rewrite skip_space_app_ws by exact Hws2.
    assert (Hsk : skip_space (t2 ++ ws3 ++ R) = t2 ++ ws3 ++ R).
    { rewrite Ht2. cbn [app]. apply skip_space_id. exact Hc. }
    rewrite Hsk.
    rewrite (hi_sim ty base rp lo lo (length rp) b2 t2 ws3 R Hb2 Hws3 HS).
    destruct (sem_hi ty base lo (is_nil R) b2); reflexivity.
Qed.

Lemma parts_text_nonempty ty ps tps : parts_text ty ps tps -> ps <> [].
Proof. intros [p tp Hp | p tp ws ps' tps' Hp Hws Hps]; discriminate. Qed.

Lemma parts_sim ty base ps tps :
  parts_text ty ps tps -> forall rp,
  orun ty base rp (length rp) false tps =
  option_map (fun r => (r, length r)) (sem_parts ty base rp ps).
Proof.
  induction 1 as [p tp Hp | p tp ws ps' tps' Hp Hws Hps IH]; intro rp.
  - rewrite <- (app_nil_r tp). rewrite (part_sim ty base rp p tp [] Hp (or_introl eq_refl)).
    cbn [sem_parts is_nil]. destruct (sem_part ty base rp true p) as [d|]; [|reflexivity].
    unfold orun. rewrite run_nil. cbn [is_nil orb length].
    destruct (length rp =? S (length rp))%nat eqn:Hn; [lia|].
    cbn [ropt option_map]. rewrite rev_length. reflexivity.
  - rewrite (part_sim ty base rp p tp (124 :: ws ++ tps') Hp (or_intror (ex_intro _ _ eq_refl))).
    cbn [sem_parts is_nil].
    pose proof (parts_text_nonempty ty ps' tps' Hps) as Hne.
    destruct ps' as [|p2 ps'']; [congruence|]. cbn [is_nil].
    destruct (sem_part ty base rp false p) as [d|]; [|reflexivity].
    rewrite orun_bar. cbn [is_nil orb length].
    destruct (length rp =? S (length rp))%nat eqn:Hn; [lia|].
    rewrite (orun_ws ty base (d :: rp) (S (length rp)) false ws tps' Hws).
    exact (IH (d :: rp)).
Qed.

(* the whole function on a text of the grammar *)
Lemma compile_range_sem ty base ps text :
  range_text ty ps text ->
  ropt (compile_range ty base text) =
  match sem_parts ty base [] ps with
  | None => None
  | Some r => match base with
              | [] => Some r
              | _ :: _ => if check_base r base then Some r else None
              end
  end.
Proof.
  intros [ws ps' tps Hws Hps]. unfold compile_range. fold (run ty base [] 0 false (ws ++ tps)).
  pose proof (orun_ws ty base [] 0 false ws tps Hws) as H1.
  pose proof (parts_sim ty base ps' tps Hps []) as H2. cbn [length] in H2.
  unfold orun in H1, H2. rewrite H2 in H1. clear H2.
  destruct (sem_parts ty base [] ps') as [r|]; cbn [option_map] in H1.
  - destruct (run ty base [] 0 false (ws ++ tps)) as [[r0 pd]|e]; cbn [ropt] in H1; [|discriminate].
    inversion H1; subst. destruct base as [|b0 base']; [reflexivity|].
    rewrite firstn_all. unfold check_base.
    destruct (check_base_rem r (b0 :: base')); [|reflexivity].
    rewrite Nat.leb_refl. reflexivity.
  - destruct (run ty base [] 0 false (ws ++ tps)) as [[r0 pd]|e]; cbn [ropt] in H1; [discriminate|reflexivity].
Qed.

(* ---------------------------------------------------------------------------------------------
   4. the function on the abstract syntax, declaratively
   --------------------------------------------------------------------------------------------- *)
Definition prev_of (rp : parts) : option Z := match rp with [] => None | (_, h) :: _ => Some h end.

Fixpoint asc_from (prev : option Z) (l : parts) : Prop :=
  match l with
  | [] => True
  | (lo, hi) :: l' =>
      match prev with None => True | Some p => (p < lo)%Z end /\ (lo <= hi)%Z /\ asc_from (Some hi) l'
  end.

Lemma asc_from_sorted prev l :
  asc_from prev l <->
  match prev, l with Some p, (lo, _) :: _ => (p < lo)%Z | _, _ => True end /\ parts_sorted l.
Proof.
  revert prev. induction l as [|[lo hi] l IH]; intro prev; cbn [asc_from parts_sorted].
  - destruct prev; tauto.
  - rewrite (IH (Some hi)). destruct l as [|[lo2 hi2] l']; destruct prev; tauto.
Qed.

Definition kw_step (first last : bool) (p : rpart) : bool :=
  let '(b1, ob2) := p in
  (match b1 with
   | BMin => first
   | BMax => last && match ob2 with None => true | Some _ => false end
   | BNum _ => true
   end) &&
  (match ob2 with
   | None => true
   | Some BMin => false
   | Some BMax => last
   | Some (BNum _) => true
   end).

Lemma kw_ok_from_cons first p ps :
  kw_ok_from first (p :: ps) = kw_step first (is_nil ps) p && kw_ok_from false ps.
Proof. destruct p as [b1 ob2]. reflexivity. Qed.

Lemma sem_part_spec ty base rp last p d :
  ~ (last = true /\ p = (BMax, None) /\ prev_of rp = Some (kw_value ty base true)) ->
  (sem_part ty base rp last p = Some d <->
   d = part_val ty base p /\ kw_step (is_nil rp) last p = true /\ part_in_type ty p /\
   match prev_of rp with None => True | Some h => (h < fst d)%Z end /\ (fst d <= snd d)%Z).
Proof.
  intro Hnt.
  assert (Hne : forall l h rp', rp = (l, h) :: rp' -> last = true -> p = (BMax, None) -> h <> kw_value ty base true).
  { intros l h rp' -> -> -> Heq. apply Hnt. cbn [prev_of]. rewrite Heq. auto. }
  destruct p as [b1 [b2|]]; destruct b1 as [| |v1]; try destruct b2 as [| |v2];
    destruct rp as [|[l h] rp']; destruct last;
    try specialize (Hne l h rp' eq_refl eq_refl eq_refl);
    cbn [sem_part sem_lo sem_hi is_nil prev_hi prev_of kw_step part_val bnd_val part_in_type bnd_in_type fst snd andb orb];
    unfold in_type;
    repeat match goal with |- context [if ?c then _ else _] => destruct c eqn:? end;
    (split; [intro H; try discriminate; inversion H; subst; cbn [fst snd]; repeat split; try reflexivity; try lia
            | intros (H1 & H2 & H3 & H4 & H5); subst; unfold part_in_type, bnd_in_type in *; cbn [fst snd] in *;
              try discriminate; try reflexivity; try (exfalso; lia); try (exfalso; destruct H3; lia)]).
Qed.

Lemma touching_from_cons ty base prev p p2 ps :
  touching_from ty base prev (p :: p2 :: ps) = touching_from ty base (Some (snd (part_val ty base p))) (p2 :: ps).
Proof. destruct p as [[| |v] [b|]]; reflexivity. Qed.

Lemma sem_parts_spec ty base ps : forall rp r,
  ~ touching_from ty base (prev_of rp) ps ->
  (sem_parts ty base rp ps = Some r <->
   r = rev rp ++ resolve ty base ps /\ kw_ok_from (is_nil rp) ps = true /\ Forall (part_in_type ty) ps /\
   asc_from (prev_of rp) (resolve ty base ps)).
Proof.
  induction ps as [|p ps IH]; intros rp r Hnt.
  - cbn [sem_parts resolve map kw_ok_from asc_from]. rewrite app_nil_r. split.
    + intro H. inversion H. repeat split; auto.
    + intros [-> _]. reflexivity.
  - cbn [sem_parts]. rewrite kw_ok_from_cons. cbn [resolve map]. fold (resolve ty base ps).
    assert (Hstep : ~ (is_nil ps = true /\ p = (BMax, None) /\ prev_of rp = Some (kw_value ty base true))).
    { intros (Hl & Hp & Hprev). apply Hnt. destruct ps; [|discriminate]. subst p. cbn [touching_from]. exact Hprev. }
    assert (Hnext : ~ touching_from ty base (prev_of (part_val ty base p :: rp)) ps).
    { destruct ps as [|p2 ps']; [cbn [touching_from]; tauto|]. rewrite touching_from_cons in Hnt.
      destruct (part_val ty base p) as [lo hi]. exact Hnt. }
    destruct (sem_part ty base rp (is_nil ps) p) as [d|] eqn:Hsp.
    + pose proof (proj1 (sem_part_spec ty base rp (is_nil ps) p d Hstep) Hsp) as (Hd & Hk & Hin & Hprev & Hle).
      subst d. rewrite (IH (part_val ty base p :: rp) r Hnext). cbn [rev is_nil].
      destruct (part_val ty base p) as [lo hi] eqn:Hpv. cbn [asc_from prev_of fst snd] in *.
      rewrite Hk. cbn [andb]. rewrite <- app_assoc. cbn [app]. split.
      * intros (Hr & Hk2 & Hf & Ha). repeat split; auto.
      * intros (Hr & Hk2 & Hf & Ha). inversion Hf; subst. repeat split; tauto.
    + split; [discriminate|]. intros (Hr & Hk & Hf & Ha). exfalso.
      apply andb_true_iff in Hk. destruct Hk as [Hk1 Hk2]. inversion Hf as [|? ? Hin Hf']; subst.
      destruct (part_val ty base p) as [lo hi] eqn:Hpv. cbn [asc_from] in Ha. destruct Ha as (Ha1 & Ha2 & Ha3).
      assert (Hsome : sem_part ty base rp (is_nil ps) p = Some (lo, hi)).
      { apply (sem_part_spec ty base rp (is_nil ps) p (lo, hi) Hstep). rewrite Hpv. cbn [fst snd]. repeat split; auto; apply Hin. }
      congruence.
Qed.

Lemma sem_parts_top ty base ps r :
  ps <> [] -> ~ touching_max ty base ps ->
  (sem_parts ty base [] ps = Some r <->
   r = resolve ty base ps /\ kw_ok ps = true /\ Forall (part_in_type ty) ps /\ parts_sorted (resolve ty base ps)).
Proof.
  intros Hne Hnt. rewrite (sem_parts_spec ty base ps [] r Hnt). cbn [rev app is_nil prev_of].
  rewrite asc_from_sorted. unfold kw_ok. destruct ps; [congruence|]. cbn [is_nil negb andb]. tauto.
Qed.

(* ---------------------------------------------------------------------------------------------
   5. the check against the base restriction = every derived part lies inside one base part
   --------------------------------------------------------------------------------------------- *)
Lemma parts_sorted_tail p ps : parts_sorted (p :: ps) -> parts_sorted ps.
Proof. destruct p as [lo hi]. cbn [parts_sorted]. tauto. Qed.

Lemma parts_sorted_suffix dr b : parts_sorted (dr ++ b) -> parts_sorted b.
Proof. induction dr as [|x dr IH]; cbn [app]; [tauto|]. intro H. apply IH. exact (parts_sorted_tail _ _ H). Qed.

Lemma parts_sorted_le ps l h : parts_sorted ps -> In (l, h) ps -> (l <= h)%Z.
Proof.
  induction ps as [|[lo hi] ps IH]; intros Hs Hin; [destruct Hin|].
  destruct Hin as [Heq|Hin]; [inversion Heq; subst; cbn [parts_sorted] in Hs; tauto|].
  apply IH; [exact (parts_sorted_tail _ _ Hs)|exact Hin].
Qed.

Lemma part_inside_cons_skip bl bh b d :
  ~ ((bl <= fst d)%Z /\ (snd d <= bh)%Z) -> (part_inside ((bl, bh) :: b) d <-> part_inside b d).
Proof.
  intro Hn. unfold part_inside. split.
  - intros (l & h & [Heq|Hin] & H1 & H2); [inversion Heq; subst; tauto|]. exists l, h. auto.
  - intros (l & h & Hin & H1 & H2). exists l, h. split; [right; exact Hin|auto].
Qed.

Lemma check_part_some d b : forall b',
  (fst d <= snd d)%Z -> check_part d b = Some b' ->
  part_inside b d /\ exists dr, b = dr ++ b' /\ Forall (fun x => (snd x <= snd d)%Z) dr.
Proof.
  destruct d as [dl dh]. cbn [fst snd].
  induction b as [|[bl bh] b IH]; intros b' Hd H; cbn [check_part] in H; [discriminate|].
  destruct (dl <? bl)%Z eqn:H1; [discriminate|].
  assert (Hrec : ~ ((bl <= dl)%Z /\ (dh <= bh)%Z) -> (bh <= dh)%Z -> check_part (dl, dh) b = Some b' ->
          part_inside ((bl, bh) :: b) (dl, dh) /\
          exists dr, (bl, bh) :: b = dr ++ b' /\ Forall (fun x => (snd x <= dh)%Z) dr).
  { intros Hn Hle Hc. destruct (IH b' Hd Hc) as [Hin [dr [Hb Hf]]]. split.
    - apply (part_inside_cons_skip bl bh b (dl, dh)); [exact Hn|exact Hin].
    - exists ((bl, bh) :: dr). split; [rewrite Hb; reflexivity|]. constructor; [exact Hle|exact Hf]. }
  assert (Here : (bl <= dl)%Z -> (dh <= bh)%Z -> part_inside ((bl, bh) :: b) (dl, dh)).
  { intros Ha Hb. exists bl, bh. split; [left; reflexivity|]. cbn [fst snd]. auto. }
  destruct (bl =? bh)%Z eqn:H2.
  - destruct (bl =? dl)%Z eqn:H3.
    + destruct (negb (dl =? dh)%Z) eqn:H4; [discriminate|]. inversion H; subst b'. split; [apply Here; lia|].
      exists [(bl, bh)]. split; [reflexivity|]. constructor; [cbn [snd]; lia|constructor].
    + apply Hrec; [cbn; lia|lia|exact H].
  - destruct (dl =? dh)%Z eqn:H3.
    + destruct (bh <? dh)%Z eqn:H4.
      * apply Hrec; [cbn; lia|lia|exact H].
      * inversion H; subst b'. split; [apply Here; lia|]. exists []. split; [reflexivity|constructor].
    + destruct (bh <? dh)%Z eqn:H4.
      * destruct (bh <? dl)%Z eqn:H5; [|discriminate]. apply Hrec; [cbn; lia|lia|exact H].
      * inversion H; subst b'. split; [apply Here; lia|]. exists []. split; [reflexivity|constructor].
Qed.

Lemma check_part_none d b :
  (fst d <= snd d)%Z -> parts_sorted b -> check_part d b = None -> ~ part_inside b d.
Proof.
  destruct d as [dl dh]. cbn [fst snd].
  induction b as [|[bl bh] b IH]; intros Hd Hs H; cbn [check_part] in H.
  - intros (l & h & [] & _).
  - assert (Hlater : forall l h, In (l, h) b -> (bh < l)%Z).
    { intros l h Hin. exact (parts_sorted_later bl bh b l h Hs Hin). }
    assert (Hble : (bl <= bh)%Z) by (cbn [parts_sorted] in Hs; tauto).
    assert (Hnot : ~ ((bl <= dl)%Z /\ (dh <= bh)%Z) -> (dl <= bh)%Z -> ~ part_inside ((bl, bh) :: b) (dl, dh)).
    { intros Hn Hle (l & h & [Heq|Hin] & Ha & Hb); cbn [fst snd] in *.
      - inversion Heq; subst. tauto.
      - specialize (Hlater l h Hin). lia. }
    pose proof (parts_sorted_tail _ _ Hs) as Hs'.
    destruct (dl <? bl)%Z eqn:H1; [apply Hnot; lia|].
    destruct (bl =? bh)%Z eqn:H2.
    + destruct (bl =? dl)%Z eqn:H3.
      * destruct (negb (dl =? dh)%Z) eqn:H4; [|discriminate]. apply Hnot; lia.
      * intro Hin. apply (part_inside_cons_skip bl bh b (dl, dh)) in Hin; [|cbn; lia]. exact (IH Hd Hs' H Hin).
    + destruct (dl =? dh)%Z eqn:H3.
      * destruct (bh <? dh)%Z eqn:H4; [|discriminate].
        intro Hin. apply (part_inside_cons_skip bl bh b (dl, dh)) in Hin; [|cbn; lia]. exact (IH Hd Hs' H Hin).
      * destruct (bh <? dh)%Z eqn:H4; [|discriminate].
        destruct (bh <? dl)%Z eqn:H5.
        -- intro Hin. apply (part_inside_cons_skip bl bh b (dl, dh)) in Hin; [|cbn; lia]. exact (IH Hd Hs' H Hin).
        -- apply Hnot; lia.
Qed.

Lemma check_base_spec ds : forall b,
  parts_sorted ds -> parts_sorted b -> (check_base ds b = true <-> parts_inside ds b).
Proof.
  unfold check_base, parts_inside.
  induction ds as [|[dl dh] ds IH]; intros b Hds Hb; cbn [check_base_rem].
  - split; [constructor|reflexivity].
  - assert (Hd : (fst (dl, dh) <= snd (dl, dh))%Z) by (cbn [parts_sorted fst snd] in *; tauto).
    pose proof (parts_sorted_tail _ _ Hds) as Hds'.
    destruct (check_part (dl, dh) b) as [b1|] eqn:Hc.
    + destruct (check_part_some (dl, dh) b b1 Hd Hc) as [Hin [dr [Hbeq Hdr]]].
      assert (Hb1 : parts_sorted b1) by (rewrite Hbeq in Hb; exact (parts_sorted_suffix _ _ Hb)).
      rewrite (IH b1 Hds' Hb1). split.
      * intro Hf. constructor; [exact Hin|].
        eapply Forall_impl; [|exact Hf]. intros d (l & h & Hl & H1 & H2). exists l, h.
        split; [rewrite Hbeq; apply in_or_app; right; exact Hl|auto].
      * intro Hf. pose proof (Forall_inv_tail Hf) as Hf'.
        rewrite Forall_forall in Hf' |- *. intros [l2 h2] Hd2.
        destruct (Hf' _ Hd2) as (l & h & Hl & H1 & H2). cbn [fst snd] in *.
        exists l, h. split; [|cbn [fst snd]; auto].
        rewrite Hbeq in Hl. apply in_app_or in Hl. destruct Hl as [Hl|Hl]; [|exact Hl]. exfalso.
        rewrite Forall_forall in Hdr. specialize (Hdr _ Hl). cbn [snd] in Hdr.
        pose proof (parts_sorted_later dl dh ds l2 h2 Hds Hd2) as Hlt.
        pose proof (parts_sorted_le ds l2 h2 Hds' Hd2) as Hle2. lia.
    + split; [discriminate|]. intro Hf. pose proof (Forall_inv Hf) as Hin. exfalso.
      exact (check_part_none (dl, dh) b Hd Hb Hc Hin).
Qed.

(* inside one part implies subset of the value set; the converse needs gaps between the base parts *)
Lemma parts_inside_subset ds b : parts_inside ds b -> subset ds b.
Proof.
  unfold parts_inside, subset, in_parts. rewrite Forall_forall. intros Hf v (lo & hi & Hin & Hv).
  destruct (Hf _ Hin) as (l & h & Hl & H1 & H2). cbn [fst snd] in *. exists l, h. split; [exact Hl|lia].
Qed.

Lemma parts_gapped_later lo hi ps l h : parts_gapped ((lo, hi) :: ps) -> In (l, h) ps -> (hi + 1 < l)%Z.
Proof.
  revert lo hi. induction ps as [|[lo2 hi2] ps IH]; intros lo hi Hs Hin; [destruct Hin|].
  cbn [parts_gapped] in Hs. destruct Hs as [Hle [Hlt Hs2]].
  destruct Hin as [Heq|Hin]; [inversion Heq; subst; exact Hlt|].
  assert (H2 : (hi2 + 1 < l)%Z) by (apply (IH lo2 hi2); assumption).
  cbn [parts_gapped] in Hs2. lia.
Qed.

Lemma gapped_interval b : parts_gapped b -> forall dl dh,
  (dl <= dh)%Z -> (forall v, (dl <= v <= dh)%Z -> in_parts b v) -> part_inside b (dl, dh).
Proof.
  induction b as [|[bl bh] b IH]; intros Hg dl dh Hd Hall.
  - destruct (Hall dl ltac:(lia)) as (l & h & [] & _).
  - assert (Hlater : forall l h, In (l, h) b -> (bh + 1 < l)%Z) by (intros l h; apply (parts_gapped_later bl bh b l h Hg)).
    assert (Hg' : parts_gapped b) by (cbn [parts_gapped] in Hg; tauto).
    destruct (Z_le_gt_dec dl bh) as [Hle|Hgt].
    + (* dl is not above this part: it must be in it, and so must everything up to dh *)
      assert (Hdl : (bl <= dl)%Z).
      { destruct (Hall dl ltac:(lia)) as (l & h & [Heq|Hin] & Hv); [inversion Heq; subst; lia|].
        specialize (Hlater l h Hin). lia. }
      assert (Hdh : (dh <= bh)%Z).
      { destruct (Z_le_gt_dec dh bh) as [|Hbig]; [assumption|]. exfalso.
        destruct (Hall (bh + 1)%Z ltac:(lia)) as (l & h & [Heq|Hin] & Hv); [inversion Heq; subst; lia|].
        specialize (Hlater l h Hin). lia. }
      exists bl, bh. split; [left; reflexivity|cbn [fst snd]; auto].
    + (* the whole interval is above this part *)
      assert (Hin : part_inside b (dl, dh)).
      { apply IH; [exact Hg'|exact Hd|]. intros v Hv.
        destruct (Hall v Hv) as (l & h & [Heq|Hin] & Hv2); [inversion Heq; subst; lia|]. exists l, h. auto. }
      destruct Hin as (l & h & Hl & H1 & H2). exists l, h. split; [right; exact Hl|auto].
Qed.

Lemma subset_parts_inside ds b :
  parts_gapped b -> Forall (fun d => (fst d <= snd d)%Z) ds -> subset ds b -> parts_inside ds b.
Proof.
  intros Hg Hle Hsub. unfold parts_inside. rewrite Forall_forall in Hle |- *. intros [dl dh] Hin.
  apply gapped_interval; [exact Hg|exact (Hle _ Hin)|].
  intros v Hv. apply Hsub. exists dl, dh. auto.
Qed.

(* ---------------------------------------------------------------------------------------------
   6. the theorems
   --------------------------------------------------------------------------------------------- *)
Lemma range_text_nonempty ty ps text : range_text ty ps text -> ps <> [].
Proof. intros [ws ps' tps _ Hps]. exact (parts_text_nonempty _ _ _ Hps). Qed.

Lemma ropt_ok {A} (r : res A) a : ropt r = Some a <-> r = Ok a.
Proof. destruct r; cbn [ropt]; split; intro H; inversion H; reflexivity. Qed.

(* On every text of the grammar (RFC 7950 range-arg with white space around every token, + sign and leading zeros
   allowed in numbers) the compiler accepts exactly the legal restrictions and returns the resolved parts. *)
Theorem range_compile_iff ty base ps text r' :
  range_text ty ps text -> parts_sorted base -> ~ touching_max ty base ps ->
  (compile_range ty base text = Ok r' <-> r' = resolve ty base ps /\ legal ty base ps).
Proof.
  intros Htext Hbase Hnt. pose proof (range_text_nonempty _ _ _ Htext) as Hne.
  rewrite <- ropt_ok, (compile_range_sem ty base ps text Htext). unfold legal.
  pose proof (sem_parts_top ty base ps) as Htop.
  destruct (sem_parts ty base [] ps) as [r|] eqn:Hsem.
  - destruct (proj1 (Htop r Hne Hnt) eq_refl) as (Hr & Hk & Hin & Hs).
    destruct base as [|b0 base'].
    + split.
      * intro H. inversion H; subst r'. repeat split; auto. congruence.
      * intros [-> _]. rewrite Hr. reflexivity.
    + pose proof (check_base_spec r (b0 :: base') ltac:(rewrite Hr; exact Hs) Hbase) as Hcb.
      destruct (check_base r (b0 :: base')) eqn:Hc.
      * split.
        -- intro H. inversion H; subst r'. repeat split; auto. intros _. rewrite <- Hr. apply Hcb. reflexivity.
        -- intros [-> _]. rewrite Hr. reflexivity.
      * split; [discriminate|]. intros [-> (_ & _ & _ & Hi)]. exfalso.
        assert (Ht : false = true) by (apply Hcb; rewrite Hr; apply Hi; discriminate).
        discriminate.
  - split; [discriminate|]. intros [-> (Hk & Hin & Hs & _)]. exfalso.
    assert (Hsome : None = Some (resolve ty base ps)) by (apply (Htop _ Hne Hnt); auto).
    discriminate.
Qed.

(* the same with the RFC wording (the value set of the derived restriction is a subset of the value set of the
   base) when the parts of the base restriction do not touch *)
Theorem range_compile_iff_subset ty base ps text r' :
  range_text ty ps text -> parts_sorted base -> parts_gapped base -> base <> [] -> ~ touching_max ty base ps ->
  (compile_range ty base text = Ok r' <->
   r' = resolve ty base ps /\ kw_ok ps = true /\ Forall (part_in_type ty) ps /\ parts_sorted r' /\ subset r' base).
Proof.
  intros Htext Hbase Hgap Hne Hnt. rewrite (range_compile_iff ty base ps text r' Htext Hbase Hnt). unfold legal. split.
  - intros (-> & Hk & Hin & Hs & Hi). repeat split; auto. apply parts_inside_subset. apply Hi. exact Hne.
  - intros (-> & Hk & Hin & Hs & Hsub). repeat split; auto. intros _.
    apply subset_parts_inside; [exact Hgap| |exact Hsub].
    rewrite Forall_forall. intros [l h] Hd. exact (parts_sorted_le _ l h Hs Hd).
Qed.

(* a part that is not inside a part of the base restriction is rejected *)
Theorem range_rejects_widening ty base ps text :
  range_text ty ps text -> parts_sorted base -> base <> [] -> ~ touching_max ty base ps ->
  ~ parts_inside (resolve ty base ps) base -> exists e, compile_range ty base text = Err e.
Proof.
  intros Htext Hbase Hne Hnt Hni. destruct (compile_range ty base text) as [r'|e] eqn:Hc; [|eauto].
  exfalso. apply (range_compile_iff ty base ps text r' Htext Hbase Hnt) in Hc.
  destruct Hc as (_ & _ & _ & _ & Hi). exact (Hni (Hi Hne)).
Qed.

(* what is accepted is an ascending list of disjoint non-empty intervals, and lyplg_type_validate_range decides
   membership in its value set *)
Theorem range_compiled_sorted ty base ps text r' :
  range_text ty ps text -> parts_sorted base -> ~ touching_max ty base ps ->
  compile_range ty base text = Ok r' -> parts_sorted r' /\ r' <> [].
Proof.
  intros Htext Hbase Hnt Hc. apply (range_compile_iff ty base ps text r' Htext Hbase Hnt) in Hc.
  destruct Hc as (-> & _ & _ & Hs & _). split; [exact Hs|].
  pose proof (range_text_nonempty _ _ _ Htext). destruct ps; [congruence|discriminate].
Qed.

Theorem range_validate_agrees ty base ps text r' v :
  range_text ty ps text -> parts_sorted base -> ~ touching_max ty base ps ->
  compile_range ty base text = Ok r' -> (validate_range r' v = true <-> in_parts r' v).
Proof.
  intros Htext Hbase Hnt Hc. destruct (range_compiled_sorted ty base ps text r' Htext Hbase Hnt Hc) as [Hs Hne].
  exact (validate_range_spec r' v Hs Hne).
Qed.

(* ---------- chains of typedefs ---------- *)
Fixpoint chain_wf (ty : rty) (base : parts) (ls : list (option (list rpart))) (rs : list (option bytes)) : Prop :=
  match ls, rs with
  | [], [] => True
  | None :: ls', None :: rs' => chain_wf ty base ls' rs'
  | Some ps :: ls', Some r :: rs' =>
      range_text ty ps r /\ ~ touching_max ty base ps /\ chain_wf ty (resolve ty base ps) ls' rs'
  | _, _ => False
  end.

(* the value sets of the restrictions along the chain, each resolved against the restriction before it *)
Fixpoint chain_levels (ty : rty) (base : parts) (ls : list (option (list rpart))) : list parts :=
  match ls with
  | [] => []
  | None :: ls' => chain_levels ty base ls'
  | Some ps :: ls' => resolve ty base ps :: chain_levels ty (resolve ty base ps) ls'
  end.

Lemma validate_denote ps v : parts_sorted ps -> (validate_range ps v = true <-> denote ps v).
Proof.
  intro Hs. unfold denote. destruct ps as [|p ps].
  - split; [left; reflexivity|reflexivity].
  - rewrite (validate_range_spec (p :: ps) v Hs ltac:(discriminate)). split; [right; assumption|].
    intros [H|H]; [discriminate|exact H].
Qed.

Theorem range_chain_intersection ty ls : forall base rs eff,
  parts_sorted base -> chain_wf ty base ls rs -> compile_chain ty base rs = Ok eff ->
  parts_sorted eff /\
  forall v, denote eff v <-> denote base v /\ Forall (fun l => in_parts l v) (chain_levels ty base ls).
Proof.
  induction ls as [|[ps|] ls IH]; intros base rs eff Hbase Hwf Hc; destruct rs as [|[r|] rs]; cbn [chain_wf] in Hwf;
    try contradiction.
  - cbn [compile_chain] in Hc. inversion Hc; subst eff. split; [exact Hbase|]. intro v. cbn [chain_levels].
    split; [intro H; split; [exact H|constructor]|tauto].
  - destruct Hwf as (Htext & Hnt & Hwf). cbn [compile_chain] in Hc.
    destruct (compile_range ty base r) as [r1|e] eqn:Hr; [|discriminate].
    pose proof (proj1 (range_compile_iff ty base ps r r1 Htext Hbase Hnt) Hr) as (Hr1 & Hk & Hin & Hs & Hi).
    subst r1. destruct (IH (resolve ty base ps) rs eff Hs Hwf Hc) as [Heff Hv]. split; [exact Heff|].
    intro v. rewrite (Hv v). cbn [chain_levels]. rewrite Forall_cons_iff.
    assert (Hne : resolve ty base ps <> []).
    { pose proof (range_text_nonempty _ _ _ Htext). destruct ps; [congruence|discriminate]. }
    assert (Hsub : in_parts (resolve ty base ps) v -> denote base v).
    { intro H. destruct base as [|b0 base']; [left; reflexivity|]. right.
      exact (parts_inside_subset _ _ (Hi ltac:(discriminate)) v H). }
    unfold denote at 1. split.
    + intros [[H|H] Hf]; [congruence|]. auto.
    + intros (Hb & Hl & Hf). split; [right; exact Hl|exact Hf].
  - cbn [compile_chain] in Hc. cbn [chain_levels]. exact (IH base rs eff Hbase Hwf Hc).
Qed.

(* ---------------------------------------------------------------------------------------------
   7. where the code departs from RFC 7950 (every witness was run on the library as well)
   --------------------------------------------------------------------------------------------- *)
Definition bs (l : list N) : bytes := l.

(* regression (fixed by 72878af / b6c3725, formerly witnesses of refuted statements): parts that are not separated by
   a bar and two bars in a row are rejected, with and without a base restriction *)
Lemma former_witnesses_rejected :
  compile_range (RInt U8) [(1, 10)%Z] (bs [49; 32; 53; 48]) = Err E_VALID /\           (* 1 50 under 1..10 *)
  compile_range (RInt U8) [] (bs [53; 32; 49]) = Err E_VALID /\                        (* 5 1 *)
  compile_range (RInt U8) [(1, 3); (5, 5)]%Z (bs [49; 124; 124]) = Err E_VALID /\      (* 1|| under 1..3 | 5 *)
  compile_range (RInt U8) [] (bs [49; 124; 124]) = Err E_VALID /\                      (* 1|| *)
  compile_range (RInt U8) [] (bs [109; 105; 110; 53]) = Err E_VALID /\                 (* min5 *)
  compile_range (RInt U8) [] (bs [53; 109; 97; 120]) = Err E_VALID.                    (* 5max *)
Proof. repeat split; vm_compute; reflexivity. Qed.

(* 1..9..3  is the part 1..3;  127 | max  gives two equal parts;  -  is the decimal64 value 0;
   +5, 05 and (for uint8) -0 are numbers *)
Lemma lenient_syntax :
  compile_range (RInt U8) [] (bs [49; 46; 46; 57; 46; 46; 51]) = Ok [(1, 3)%Z] /\
  compile_range (RInt I8) [] (bs [49; 50; 55; 32; 124; 32; 109; 97; 120]) = Ok [(127, 127); (127, 127)]%Z /\
  compile_range (RDec 1) [] (bs [45]) = Ok [(0, 0)%Z] /\
  compile_range (RInt I8) [] (bs [43; 53]) = Ok [(5, 5)%Z] /\
  compile_range (RInt I8) [] (bs [48; 53]) = Ok [(5, 5)%Z] /\
  compile_range (RInt U8) [] (bs [45; 48]) = Ok [(0, 0)%Z] /\
  compile_range (RDec 1) [] (bs [45; 46; 53]) = Ok [(-5, -5)%Z].
Proof. repeat split; vm_compute; reflexivity. Qed.

(* legal by the RFC, rejected: 3..7 under 1..5 | 6..9 (a subset as a value set), 0..min for uint8, 1.50 for a
   decimal64 with one fraction digit *)
Lemma strict_rejections :
  (exists e, compile_range (RInt U8) [(1, 5); (6, 9)]%Z (bs [51; 46; 46; 55]) = Err e) /\
  subset [(3, 7)%Z] [(1, 5); (6, 9)]%Z /\
  (exists e, compile_range (RInt U8) [] (bs [48; 46; 46; 109; 105; 110]) = Err e) /\
  (exists e, compile_range (RDec 1) [] (bs [49; 46; 53; 48]) = Err e).
Proof.
  split; [eexists; vm_compute; reflexivity|]. split.
  - intros v (l & h & [Heq|[]] & Hv). inversion Heq; subst.
    destruct (Z_le_gt_dec v 5).
    + exists 1%Z, 5%Z. split; [left; reflexivity|lia].
    + exists 6%Z, 9%Z. split; [right; left; reflexivity|lia].
  - split; eexists; vm_compute; reflexivity.
Qed.

(* an example of the main theorem: a three-part decimal64 restriction with keywords and white space *)
Lemma example_text :
  range_text (RDec 2) [(BMin, Some (BNum (-150))); (BNum 0, None); (BNum 314, Some BMax)]
    (bs [32; 109; 105; 110; 46; 46; 45; 49; 46; 53; 32; 124; 48; 124; 32; 51; 46; 49; 52; 32; 46; 46; 32; 109; 97; 120; 10]).
Proof.
  apply (RangeText (RDec 2) [32] _ [109; 105; 110; 46; 46; 45; 49; 46; 53; 32; 124; 48; 124; 32; 51; 46; 49; 52; 32; 46; 46; 32; 109; 97; 120; 10]);
    [reflexivity|].
  apply (PsCons (RDec 2) (BMin, Some (BNum (-150))) [109; 105; 110; 46; 46; 45; 49; 46; 53; 32] [] _
           [48; 124; 32; 51; 46; 49; 52; 32; 46; 46; 32; 109; 97; 120; 10]); [|reflexivity|].
  - apply (PtTwo (RDec 2) BMin s_min [] [] (BNum (-150)) [45; 49; 46; 53] [32]); try reflexivity; [constructor|].
    constructor. apply (NumDecF 2 [45] [49] [53]); try reflexivity; try discriminate; try (cbn [length]; lia); right; right; reflexivity.
  - apply (PsCons (RDec 2) (BNum 0, None) [48] [32] _ [51; 46; 49; 52; 32; 46; 46; 32; 109; 97; 120; 10]); [|reflexivity|].
    + apply (PtOne (RDec 2) (BNum 0) [48] []); [|reflexivity]. constructor.
      apply (NumDecI 2 [] [48]); try reflexivity; try discriminate. left; reflexivity.
    + apply PsOne.
      apply (PtTwo (RDec 2) (BNum 314) [51; 46; 49; 52] [32] [32] BMax s_max [10]); try reflexivity; [|constructor].
      constructor. apply (NumDecF 2 [] [51] [49; 52]); try reflexivity; try discriminate; try (cbn [length]; lia); left; reflexivity.
Qed.

Lemma example_compiles :
  compile_range (RDec 2) [(-1000, 0); (100, 100000)]%Z
    (bs [32; 109; 105; 110; 46; 46; 45; 49; 46; 53; 32; 124; 48; 124; 32; 51; 46; 49; 52; 32; 46; 46; 32; 109; 97; 120; 10])
  = Ok [(-1000, -150); (0, 0); (314, 100000)]%Z.
Proof. vm_compute. reflexivity. Qed.

(* ---------------------------------------------------------------------------------------------
   8. arbitrary texts: the fuel never runs out, and every stored boundary lies within the limits of the type
   --------------------------------------------------------------------------------------------- *)
Definition model_only (e : N) : Prop := e = E_FUEL.

Lemma ly_parse_int_err s lo hi e : ly_parse_int s lo hi = Err e -> e <> E_FUEL.
Proof.
  unfold ly_parse_int. destruct s as [|c0 s']; [intro H; inversion H; discriminate|].
  destruct (c0 =? 0); [intro H; inversion H; discriminate|].
  destruct (strtoll10 (cstr (c0 :: s'))) as [| |i rest]; try (intro H; inversion H; discriminate).
  destruct ((i <? lo)%Z || (hi <? i)%Z); [intro H; inversion H; discriminate|].
  destruct (skip_space rest); intro H; inversion H; discriminate.
Qed.

Lemma ly_parse_uint_err s hi e : ly_parse_uint s hi = Err e -> e <> E_FUEL.
Proof.
  unfold ly_parse_uint. destruct s as [|c0 s']; [intro H; inversion H; discriminate|].
  destruct (c0 =? 0); [intro H; inversion H; discriminate|].
  destruct (strtoull10 (cstr (c0 :: s'))) as [| |u rest]; try (intro H; inversion H; discriminate).
  destruct ((hi <? Z.of_N u)%Z || (negb (u =? 0) && (c0 =? 45))); [intro H; inversion H; discriminate|].
  destruct (skip_space rest); intro H; inversion H; discriminate.
Qed.

Lemma ly_parse_int_range s lo hi v : ly_parse_int s lo hi = Ok v -> (lo <= v <= hi)%Z.
Proof.
  unfold ly_parse_int. destruct s as [|c0 s']; [discriminate|].
  destruct (c0 =? 0); [discriminate|].
  destruct (strtoll10 (cstr (c0 :: s'))) as [| |i rest]; try discriminate.
  destruct ((i <? lo)%Z || (hi <? i)%Z) eqn:Hr; [discriminate|].
  destruct (skip_space rest); intro H; inversion H; subst. lia.
Qed.

Lemma ly_parse_uint_range s hi v : ly_parse_uint s hi = Ok v -> (0 <= v <= hi)%Z.
Proof.
  unfold ly_parse_uint. destruct s as [|c0 s']; [discriminate|].
  destruct (c0 =? 0); [discriminate|].
  destruct (strtoull10 (cstr (c0 :: s'))) as [| |u rest]; try discriminate.
  destruct ((hi <? Z.of_N u)%Z || (negb (u =? 0) && (c0 =? 45))) eqn:Hr; [discriminate|].
  destruct (skip_space rest); intro H; inversion H; subst. lia.
Qed.

Lemma parse_bound_err ty vc e : parse_bound ty vc = Err e -> e <> E_FUEL.
Proof.
  unfold parse_bound. destruct ty as [t|fd|]; [destruct (ity_signed t)| |];
    first [apply ly_parse_int_err|apply ly_parse_uint_err].
Qed.

Lemma parse_bound_range ty vc v : parse_bound ty vc = Ok v -> (rty_min ty <= v <= rty_max ty)%Z.
Proof.
  unfold parse_bound. destruct ty as [t|fd|]; cbn [rty_min rty_max].
  - destruct (ity_signed t) eqn:Hs; [apply ly_parse_int_range|].
    intro H. apply ly_parse_uint_range in H. destruct (ity_bounds_unsigned t Hs) as [-> _]. exact H.
  - apply ly_parse_int_range.
  - apply ly_parse_uint_range.
Qed.

Lemma bound_num_err ty mx first prev e0 e : bound_num ty mx first prev e0 = Err e -> e <> E_FUEL.
Proof.
  unfold bound_num. destruct (value_syntax ty e0) as [[len vc]|e1] eqn:Hv.
  - destruct (parse_bound ty vc) as [v|e2] eqn:Hp.
    + destruct (first || asc_ok mx v prev); intro H; inversion H; discriminate.
    + intro H; inversion H; subst. exact (parse_bound_err _ _ _ Hp).
  - intro H; inversion H; subst. unfold value_syntax in Hv. cbv zeta in Hv.
    destruct (negb (is_digit (rd e0 0)) && negb (rd e0 0 =? 45) && negb (rd e0 0 =? 43)); [inversion Hv; discriminate|].
    destruct ty as [t|fd|]; try discriminate.
    unfold dec_valcopy in Hv.
    repeat match type of Hv with context [if ?c then _ else _] => destruct c end; inversion Hv; discriminate.
Qed.

Lemma bound_num_range ty mx first prev e0 v len :
  bound_num ty mx first prev e0 = Ok (v, len) -> (rty_min ty <= v <= rty_max ty)%Z.
Proof.
  unfold bound_num. destruct (value_syntax ty e0) as [[l vc]|]; [|discriminate].
  destruct (parse_bound ty vc) as [w|] eqn:Hp; [|discriminate].
  destruct (first || asc_ok mx w prev); [|discriminate]. intro H; inversion H; subst.
  exact (parse_bound_range _ _ _ Hp).
Qed.

Lemma bound_kw_err ty base mx first prev e : bound_kw ty base mx first prev = Err e -> e <> E_FUEL.
Proof. unfold bound_kw. destruct (first || asc_ok mx (kw_value ty base mx) prev); intro H; inversion H; discriminate. Qed.

Lemma loop_no_fuel f : forall ty base rp pd re e,
  (length e < f)%nat -> loop f ty base rp pd re e <> Err E_FUEL.
Proof.
  induction f as [|f IH]; intros ty base rp pd re e Hf; [lia|].
  cbn [loop]. destruct e as [|c rest].
  - destruct re; [discriminate|]. destruct (is_nil rp || (pd =? length rp)%nat); discriminate.
  - cbn [length] in Hf.
    destruct (is_space c); [apply IH; lia|].
    destruct (starts_with s_min (c :: rest)).
    { destruct rp; [|discriminate]. destruct (bound_kw ty base false true 0) eqn:Hk.
      - apply IH. rewrite skipn_length. cbn [length]. lia.
      - intro H; inversion H; subst. exact (bound_kw_err _ _ _ _ _ _ Hk eq_refl). }
    destruct (c =? 124).
    { destruct (is_nil rp || re || (pd =? length rp)%nat); [discriminate|]. apply IH; lia. }
    destruct (starts_with s_dots (c :: rest)).
    { destruct (is_nil rp || (length rp =? pd)%nat); [discriminate|].
      pose proof (skip_space_length (skipn 2 (c :: rest))) as Hl. rewrite skipn_length in Hl. cbn [length] in Hl.
      apply IH; lia. }
    destruct (is_digit c || (c =? 45) || (c =? 43)).
    { destruct re.
      - destruct rp as [|[lo hi0] tl]; [discriminate|].
        destruct (bound_num ty true false lo (c :: rest)) as [[v len]|e1] eqn:Hb.
        + pose proof (bound_num_len_pos _ _ _ _ _ _ _ Hb). apply IH. rewrite skipn_length. cbn [length]. lia.
        + intro H; inversion H; subst. exact (bound_num_err _ _ _ _ _ _ Hb eq_refl).
      - destruct (negb (is_nil rp) && negb (length rp =? pd)%nat); [discriminate|].
        destruct (bound_num ty false (pd =? 0)%nat (prev_max pd rp) (c :: rest)) as [[v len]|e1] eqn:Hb.
        + pose proof (bound_num_len_pos _ _ _ _ _ _ _ Hb). apply IH. rewrite skipn_length. cbn [length]. lia.
        + intro H; inversion H; subst. exact (bound_num_err _ _ _ _ _ _ Hb eq_refl). }
    destruct (starts_with s_max (c :: rest)); [|discriminate].
    destruct (negb re && negb (is_nil rp) && negb (length rp =? pd)%nat); [discriminate|].
    destruct (skip_space (skipn 3 (c :: rest))); [|discriminate].
    destruct re.
    + destruct rp as [|[lo hi0] tl]; [discriminate|].
      destruct (bound_kw ty base true false lo) eqn:Hk; [apply IH; cbn [length]; lia|].
      intro H; inversion H; subst. exact (bound_kw_err _ _ _ _ _ _ Hk eq_refl).
    + destruct (bound_kw ty base true (pd =? 0)%nat (prev_max pd rp)) eqn:Hk; [apply IH; cbn [length]; lia|].
      intro H; inversion H; subst. exact (bound_kw_err _ _ _ _ _ _ Hk eq_refl).
Qed.

Theorem compile_range_never_fuel ty base text : compile_range ty base text <> Err E_FUEL.
Proof.
  unfold compile_range.
  pose proof (loop_no_fuel (S (length text)) ty base [] 0 false text ltac:(lia)) as Hl.
  destruct (loop (S (length text)) ty base [] 0 false text) as [[ps pd]|e]; [|congruence].
  destruct base; [discriminate|].
  destruct (check_base_rem (firstn pd ps) (p :: base)); [|discriminate].
  destruct (pd <=? length ps)%nat; [discriminate|]. destruct (is_nil p0); discriminate.
Qed.

(* every stored boundary is within the limits of the built-in type and each part has lo <= hi, for ANY text *)
Definition part_ok (ty : rty) (p : Z * Z) : Prop :=
  (rty_min ty <= fst p)%Z /\ (fst p <= snd p)%Z /\ (snd p <= rty_max ty)%Z.

Lemma kw_value_ok ty base mx :
  Forall (part_ok ty) base -> (rty_min ty <= rty_max ty)%Z ->
  (rty_min ty <= kw_value ty base mx <= rty_max ty)%Z.
Proof.
  intros Hb Hty. unfold kw_value. destruct base as [|p base]; [destruct mx; lia|].
  destruct mx.
  - assert (Hin : In (last (p :: base) p) (p :: base)).
    { clear. generalize p at 1 3. induction base as [|q base IH]; intro d; cbn [last]; [left; reflexivity|].
      destruct base as [|q2 base']; [right; left; reflexivity|]. right. exact (IH q). }
    rewrite Forall_forall in Hb. destruct (Hb _ Hin) as (H1 & H2 & H3). lia.
  - destruct (Forall_inv Hb) as (H1 & H2 & H3). lia.
Qed.

Lemma rty_min_le_max ty : (rty_min ty <= rty_max ty)%Z.
Proof. destruct ty as [t|fd|]; cbn; [destruct t; cbn; lia|unfold I64MIN_Z, I64MAX_Z; lia|lia]. Qed.

Lemma loop_parts_ok f : forall ty base rp pd re e r pd',
  Forall (part_ok ty) base -> Forall (part_ok ty) rp ->
  loop f ty base rp pd re e = Ok (r, pd') -> Forall (part_ok ty) r.
Proof.
  induction f as [|f IH]; intros ty base rp pd re e r pd' Hbase Hrp H; [discriminate|].
  pose proof (rty_min_le_max ty) as Hty.
  assert (Hkw : forall mx, (rty_min ty <= kw_value ty base mx <= rty_max ty)%Z) by (intro; apply kw_value_ok; assumption).
  cbn [loop] in H. destruct e as [|c rest].
  - destruct re; [discriminate|]. destruct (is_nil rp || (pd =? length rp)%nat); [discriminate|].
    inversion H; subst. apply Forall_rev. exact Hrp.
  - destruct (is_space c); [exact (IH _ _ _ _ _ _ _ _ Hbase Hrp H)|].
    destruct (starts_with s_min (c :: rest)).
    { destruct rp; [|discriminate]. unfold bound_kw in H. cbn [orb] in H.
      refine (IH _ _ _ _ _ _ _ _ Hbase _ H). constructor; [|constructor].
      specialize (Hkw false). unfold part_ok. cbn [fst snd]. lia. }
    destruct (c =? 124).
    { destruct (is_nil rp || re || (pd =? length rp)%nat); [discriminate|]. exact (IH _ _ _ _ _ _ _ _ Hbase Hrp H). }
    destruct (starts_with s_dots (c :: rest)).
    { destruct (is_nil rp || (length rp =? pd)%nat); [discriminate|]. exact (IH _ _ _ _ _ _ _ _ Hbase Hrp H). }
    destruct (is_digit c || (c =? 45) || (c =? 43)).
    { destruct re.
      - destruct rp as [|[lo hi0] tl]; [discriminate|].
        destruct (bound_num ty true false lo (c :: rest)) as [[v len]|e1] eqn:Hb; [|discriminate].
        pose proof (bound_num_range _ _ _ _ _ _ _ Hb) as Hv.
        refine (IH _ _ _ _ _ _ _ _ Hbase _ H). constructor; [|exact (Forall_inv_tail Hrp)].
        destruct (Forall_inv Hrp) as (H1 & H2 & H3). cbn [fst snd] in *. unfold part_ok. cbn [fst snd].
        unfold bound_num in Hb. destruct (value_syntax ty (c :: rest)) as [[l0 vc]|]; [|discriminate].
        destruct (parse_bound ty vc) as [w|]; [|discriminate]. cbn [orb] in Hb. unfold asc_ok in Hb.
        destruct (lo <=? w)%Z eqn:Hle; [|discriminate]. inversion Hb; subst. lia.
      - destruct (negb (is_nil rp) && negb (length rp =? pd)%nat); [discriminate|].
        destruct (bound_num ty false (pd =? 0)%nat (prev_max pd rp) (c :: rest)) as [[v len]|e1] eqn:Hb; [|discriminate].
        pose proof (bound_num_range _ _ _ _ _ _ _ Hb) as Hv.
        refine (IH _ _ _ _ _ _ _ _ Hbase _ H). constructor; [|exact Hrp]. unfold part_ok. cbn [fst snd]. lia. }
    destruct (starts_with s_max (c :: rest)); [|discriminate].
    destruct (negb re && negb (is_nil rp) && negb (length rp =? pd)%nat); [discriminate|].
    destruct (skip_space (skipn 3 (c :: rest))); [|discriminate].
    destruct re.
    + destruct rp as [|[lo hi0] tl]; [discriminate|]. unfold bound_kw in H. cbn [orb] in H. unfold asc_ok in H.
      destruct (lo <=? kw_value ty base true)%Z eqn:Hle; [|discriminate].
      refine (IH _ _ _ _ _ _ _ _ Hbase _ H). constructor; [|exact (Forall_inv_tail Hrp)].
      destruct (Forall_inv Hrp) as (H1 & H2 & H3). cbn [fst snd] in *. specialize (Hkw true). unfold part_ok. cbn [fst snd]. lia.
    + unfold bound_kw in H. destruct ((pd =? 0)%nat || asc_ok true (kw_value ty base true) (prev_max pd rp)); [|discriminate].
      refine (IH _ _ _ _ _ _ _ _ Hbase _ H). constructor; [|exact Hrp]. specialize (Hkw true). unfold part_ok. cbn [fst snd]. lia.
Qed.

Theorem compile_range_parts_ok ty base text r :
  Forall (part_ok ty) base -> compile_range ty base text = Ok r -> Forall (part_ok ty) r /\ r <> [].
Proof.
  intros Hbase H. unfold compile_range in H.
  destruct (loop (S (length text)) ty base [] 0 false text) as [[ps pd]|e] eqn:Hl; [|discriminate].
  assert (Hps : Forall (part_ok ty) ps) by exact (loop_parts_ok _ _ _ _ _ _ _ _ _ Hbase (Forall_nil _) Hl).
  assert (Hne : ps <> []).
  { clear H Hps. revert Hl. generalize (S (length text)) as f. intro f. generalize (@nil (Z * Z)) at 1 as rp0.
    intros rp0 Hl. intro Hnil. subst ps.
    (* the loop only answers Ok at the end of the text with a non-empty array *)
    revert rp0 Hl. generalize 0%nat as pd0. generalize false as re0. generalize text as e0.
    induction f as [|f IH]; intros e0 re0 pd0 rp0 Hl; [discriminate|].
    cbn [loop] in Hl. destruct e0 as [|c rest].
    - destruct re0; [discriminate|]. destruct rp0 as [|p rp0']; [discriminate|].
      cbn [is_nil orb] in Hl. destruct (pd0 =? length (p :: rp0'))%nat; [discriminate|].
      inversion Hl as [[Hrev Hpd]]. apply (f_equal (@length _)) in Hrev. cbn [rev] in Hrev. rewrite app_length in Hrev. cbn [length] in Hrev. lia.
    - repeat match type of Hl with
             | context [if ?c then _ else _] => destruct c
             | context [match ?x with _ => _ end] => destruct x
             end; try discriminate; try exact (IH _ _ _ _ Hl). }
  destruct base as [|b0 base']; [inversion H; subst; auto|].
  destruct (check_base_rem (firstn pd ps) (b0 :: base')); [|discriminate].
  destruct (pd <=? length ps)%nat; [inversion H; subst; auto|]. destruct (is_nil p); discriminate.
Qed.

(* ---------------------------------------------------------------------------------------------
   9. arbitrary texts, after the fixes 72878af / b6c3725: parts_done = number of parts, the parts are in ascending
      order (the last one may touch: 127 | max), no read beyond the array, no widening, validate_range = membership
   --------------------------------------------------------------------------------------------- *)
(* ascending with touching allowed *)
Fixpoint wsorted (l : parts) : Prop :=
  match l with
  | [] => True
  | (lo, hi) :: l' =>
      (lo <= hi)%Z /\ match l' with [] => True | (lo2, _) :: _ => (hi <= lo2)%Z end /\ wsorted l'
  end.

(* the same on the reversed array the loop works on *)
Fixpoint rsorted (rp : parts) : Prop :=
  match rp with
  | [] => True
  | (lo, hi) :: tl =>
      (lo <= hi)%Z /\ match tl with [] => True | (_, h') :: _ => (h' <= lo)%Z end /\ rsorted tl
  end.

Lemma wsorted_snoc l : forall a b,
  wsorted l -> (a <= b)%Z -> match rev l with [] => True | (_, h) :: _ => (h <= a)%Z end ->
  wsorted (l ++ [(a, b)]).
Proof.
  induction l as [|[lo hi] l IH]; intros a b Hs Hab Hlast; cbn [app wsorted]; [tauto|].
  cbn [wsorted] in Hs. destruct Hs as (H1 & H2 & H3).
  split; [exact H1|]. split.
  - destruct l as [|[lo2 hi2] l']; cbn [app]; [cbn [rev app] in Hlast; exact Hlast|exact H2].
  - apply IH; [exact H3|exact Hab|].
    cbn [rev] in Hlast. destruct (rev l) as [|[l0 h0] r0] eqn:Hr; [exact I|]. cbn [app] in Hlast. exact Hlast.
Qed.

Lemma rsorted_rev rp : rsorted rp -> wsorted (rev rp).
Proof.
  induction rp as [|[lo hi] tl IH]; cbn [rsorted rev]; [tauto|]. intros (H1 & H2 & H3).
  apply wsorted_snoc; [exact (IH H3)|exact H1|]. rewrite rev_involutive. exact H2.
Qed.

Lemma wsorted_later lo hi ps l h : wsorted ((lo, hi) :: ps) -> In (l, h) ps -> (hi <= l)%Z.
Proof.
  revert lo hi. induction ps as [|[lo2 hi2] ps IH]; intros lo hi Hs Hin; [destruct Hin|].
  cbn [wsorted] in Hs. destruct Hs as (Hle & Hlt & Hle2 & Hnext & Hs2).
  destruct Hin as [Heq|Hin]; [inversion Heq; subst; exact Hlt|].
  assert (H2 : (hi2 <= l)%Z) by (apply (IH lo2 hi2); [cbn [wsorted]; tauto|exact Hin]). lia.
Qed.

Lemma validate_range_wspec parts v :
  wsorted parts -> parts <> [] -> (validate_range parts v = true <-> in_parts parts v).
Proof.
  induction parts as [|[lo hi] ps IH]; intros Hs Hne; [congruence|].
  cbn [validate_range].
  destruct (v <? lo)%Z eqn:Hlo.
  - split; [discriminate|]. intros [l [h [Hin Hv]]]. exfalso.
    destruct Hin as [Heq|Hin]; [inversion Heq; subst; lia|].
    pose proof (wsorted_later _ _ _ _ _ Hs Hin) as Hlt. cbn [wsorted] in Hs. lia.
  - destruct (v <=? hi)%Z eqn:Hhi.
    + split; [|reflexivity]. intros _. exists lo, hi. split; [left; reflexivity|lia].
    + destruct ps as [|p ps'].
      * split; [discriminate|]. intros [l [h [[Heq|[]] Hv]]]. inversion Heq; subst. lia.
      * assert (Hs2 : wsorted (p :: ps')) by (cbn [wsorted] in Hs; tauto).
        rewrite (IH Hs2 ltac:(discriminate)). split.
        -- intros [l [h [Hin Hv]]]. exists l, h. split; [right; exact Hin|exact Hv].
        -- intros [l [h [Hin Hv]]]. destruct Hin as [Heq|Hin]; [inversion Heq; subst; lia|]. exists l, h. auto.
Qed.

Lemma wsorted_le ps l h : wsorted ps -> In (l, h) ps -> (l <= h)%Z.
Proof.
  induction ps as [|[lo hi] ps IH]; intros Hs Hin; [destruct Hin|]. cbn [wsorted] in Hs.
  destruct Hin as [Heq|Hin]; [inversion Heq; subst; tauto|]. apply IH; tauto.
Qed.

Lemma bound_num_asc ty mx first prev e v len :
  bound_num ty mx first prev e = Ok (v, len) -> first = true \/ asc_ok mx v prev = true.
Proof.
  unfold bound_num. destruct (value_syntax ty e) as [[l vc]|]; [|discriminate].
  destruct (parse_bound ty vc) as [w|]; [|discriminate].
  destruct first; [left; reflexivity|]. cbn [orb]. destruct (asc_ok mx w prev) eqn:Ha; [|discriminate].
  intro H; inversion H; subst. right. exact Ha.
Qed.

Definition loop_invariant (rp : parts) (pd : nat) : Prop :=
  (length rp = pd \/ length rp = S pd) /\ rsorted rp.

Lemma loop_inv f : forall ty base rp pd re e ps pd',
  loop_invariant rp pd -> loop f ty base rp pd re e = Ok (ps, pd') -> pd' = length ps /\ wsorted ps.
Proof.
  induction f as [|f IH]; intros ty base rp pd re e ps pd' [Hlen Hsort] H; [discriminate|].
  cbn [loop] in H. destruct e as [|c rest].
  - destruct re; [discriminate|].
    destruct (is_nil rp || (pd =? length rp)%nat) eqn:Hc; [discriminate|]. inversion H; subst.
    rewrite rev_length. split; [destruct rp; [discriminate|]; cbn [is_nil orb] in Hc; lia|].
    apply rsorted_rev. exact Hsort.
  - destruct (is_space c); [exact (IH _ _ _ _ _ _ _ _ (conj Hlen Hsort) H)|].
    destruct (starts_with s_min (c :: rest)).
    { destruct rp; [|discriminate]. unfold bound_kw in H. cbn [orb] in H.
      refine (IH _ _ _ _ _ _ _ _ _ H). split; [cbn [length] in *; lia|]. cbn [rsorted]. lia. }
    destruct (c =? 124).
    { destruct (is_nil rp || re || (pd =? length rp)%nat) eqn:Hc; [discriminate|].
      refine (IH _ _ _ _ _ _ _ _ _ H). split; [lia|exact Hsort]. }
    destruct (starts_with s_dots (c :: rest)).
    { destruct (is_nil rp || (length rp =? pd)%nat); [discriminate|]. exact (IH _ _ _ _ _ _ _ _ (conj Hlen Hsort) H). }
    destruct (is_digit c || (c =? 45) || (c =? 43)).
    { destruct re.
      - destruct rp as [|[lo hi0] tl]; [discriminate|].
        destruct (bound_num ty true false lo (c :: rest)) as [[v len]|e1] eqn:Hb; [|discriminate].
        destruct (bound_num_asc _ _ _ _ _ _ _ Hb) as [Hf|Ha]; [discriminate|]. unfold asc_ok in Ha.
        refine (IH _ _ _ _ _ _ _ _ _ H). split; [exact Hlen|]. cbn [rsorted] in *. split; [lia|tauto].
      - destruct (negb (is_nil rp) && negb (length rp =? pd)%nat) eqn:Hc; [discriminate|].
        destruct (bound_num ty false (pd =? 0)%nat (prev_max pd rp) (c :: rest)) as [[v len]|e1] eqn:Hb; [|discriminate].
        refine (IH _ _ _ _ _ _ _ _ _ H). split.
        + cbn [length]. destruct rp; cbn [is_nil negb andb length] in *; lia.
        + cbn [rsorted]. split; [lia|]. split; [|exact Hsort].
          destruct rp as [|[l h] tl]; [exact I|]. cbn [is_nil negb andb length] in Hc.
          destruct (bound_num_asc _ _ _ _ _ _ _ Hb) as [Hf|Ha].
          * cbn [length] in Hlen. lia.
          * unfold asc_ok in Ha. assert (Hpd : pd = S (length tl)) by lia. subst pd. cbn [prev_max] in Ha. lia. }
    destruct (starts_with s_max (c :: rest)); [|discriminate].
    destruct (negb re && negb (is_nil rp) && negb (length rp =? pd)%nat) eqn:Hc; [discriminate|].
    destruct (skip_space (skipn 3 (c :: rest))); [|discriminate].
    destruct re.
    + destruct rp as [|[lo hi0] tl]; [discriminate|]. unfold bound_kw in H. cbn [orb] in H. unfold asc_ok in H.
      destruct (lo <=? kw_value ty base true)%Z eqn:Hle; [|discriminate].
      refine (IH _ _ _ _ _ _ _ _ _ H). split; [exact Hlen|]. cbn [rsorted] in *. split; [lia|tauto].
    + unfold bound_kw in H.
      destruct ((pd =? 0)%nat || asc_ok true (kw_value ty base true) (prev_max pd rp)) eqn:Ha; [|discriminate].
      refine (IH _ _ _ _ _ _ _ _ _ H). split.
      * cbn [length]. destruct rp; cbn [is_nil negb andb length] in *; lia.
      * cbn [rsorted]. split; [lia|]. split; [|exact Hsort].
        destruct rp as [|[l h] tl]; [exact I|]. cbn [negb andb is_nil length] in Hc. unfold asc_ok in Ha.
        cbn [length] in Hlen. assert (Hpd : pd = S (length tl)) by lia. subst pd. cbn [prev_max Nat.eqb orb] in Ha. lia.
Qed.

Lemma inv0 : loop_invariant [] 0.
Proof. split; [left; reflexivity|exact I]. Qed.

(* parts_done = number of parts: the check against the base covers every part and never indexes beyond the array *)
Theorem compile_range_never_oob ty base text : compile_range ty base text <> Err E_OOB.
Proof.
  unfold compile_range.
  destruct (loop (S (length text)) ty base [] 0 false text) as [[ps pd]|e] eqn:Hl.
  - destruct (loop_inv _ _ _ _ _ _ _ _ _ inv0 Hl) as [Hpd _]. subst pd.
    destruct base; [discriminate|]. destruct (check_base_rem (firstn (length ps) ps) (p :: base)); [|discriminate].
    rewrite Nat.leb_refl. discriminate.
  - intro H. inversion H; subst.
    (* the parser itself never answers E_OOB *)
    assert (Hno : forall f ty base rp pd re e, loop f ty base rp pd re e <> Err E_OOB).
    { clear. induction f as [|f IH]; intros ty base rp pd re e; cbn [loop]; [discriminate|].
      destruct e as [|c rest].
      - destruct re; [discriminate|]. destruct (is_nil rp || (pd =? length rp)%nat); discriminate.
      - destruct (is_space c); [apply IH|].
        destruct (starts_with s_min (c :: rest)).
        { destruct rp; [|discriminate]. unfold bound_kw. cbn [orb]. apply IH. }
        destruct (c =? 124); [destruct (is_nil rp || re || (pd =? length rp)%nat); [discriminate|apply IH]|].
        destruct (starts_with s_dots (c :: rest)); [destruct (is_nil rp || (length rp =? pd)%nat); [discriminate|apply IH]|].
        assert (Hbn : forall mx first prev e0 e1, bound_num ty mx first prev e0 = Err e1 -> e1 <> E_OOB).
        { intros mx first prev e0 e1. unfold bound_num. destruct (value_syntax ty e0) as [[len vc]|e2] eqn:Hv.
          - destruct (parse_bound ty vc) as [v|e3] eqn:Hp.
            + destruct (first || asc_ok mx v prev); intro H; inversion H; discriminate.
            + intro H; inversion H; subst. unfold parse_bound in Hp.
              assert (Hi : forall s lo hi e4, ly_parse_int s lo hi = Err e4 -> e4 <> E_OOB).
              { intros s lo hi e4. unfold ly_parse_int. destruct s as [|c0 s']; [intro X; inversion X; discriminate|].
                destruct (c0 =? 0); [intro X; inversion X; discriminate|].
                destruct (strtoll10 (cstr (c0 :: s'))) as [| |i r0]; try (intro X; inversion X; discriminate).
                destruct ((i <? lo)%Z || (hi <? i)%Z); [intro X; inversion X; discriminate|].
                destruct (skip_space r0); intro X; inversion X; discriminate. }
              assert (Hu : forall s hi e4, ly_parse_uint s hi = Err e4 -> e4 <> E_OOB).
              { intros s hi e4. unfold ly_parse_uint. destruct s as [|c0 s']; [intro X; inversion X; discriminate|].
                destruct (c0 =? 0); [intro X; inversion X; discriminate|].
                destruct (strtoull10 (cstr (c0 :: s'))) as [| |u r0]; try (intro X; inversion X; discriminate).
                destruct ((hi <? Z.of_N u)%Z || (negb (u =? 0) && (c0 =? 45))); [intro X; inversion X; discriminate|].
                destruct (skip_space r0); intro X; inversion X; discriminate. }
              destruct ty as [t|fd|]; [destruct (ity_signed t)| |]; eauto.
          - intro H; inversion H; subst. unfold value_syntax in Hv. cbv zeta in Hv.
            destruct (negb (is_digit (rd e0 0)) && negb (rd e0 0 =? 45) && negb (rd e0 0 =? 43)); [inversion Hv; discriminate|].
            destruct ty as [t|fd|]; try discriminate. unfold dec_valcopy in Hv.
            repeat match type of Hv with context [if ?c then _ else _] => destruct c end; inversion Hv; discriminate. }
        destruct (is_digit c || (c =? 45) || (c =? 43)).
        { destruct re.
          - destruct rp as [|[lo hi0] tl]; [discriminate|].
            destruct (bound_num ty true false lo (c :: rest)) as [[v len]|e1] eqn:Hb; [apply IH|].
            intro X; inversion X; subst. exact (Hbn _ _ _ _ _ Hb eq_refl).
          - destruct (negb (is_nil rp) && negb (length rp =? pd)%nat); [discriminate|].
            destruct (bound_num ty false (pd =? 0)%nat (prev_max pd rp) (c :: rest)) as [[v len]|e1] eqn:Hb; [apply IH|].
            intro X; inversion X; subst. exact (Hbn _ _ _ _ _ Hb eq_refl). }
        destruct (starts_with s_max (c :: rest)); [|discriminate].
        destruct (negb re && negb (is_nil rp) && negb (length rp =? pd)%nat); [discriminate|].
        destruct (skip_space (skipn 3 (c :: rest))); [|discriminate].
        destruct re.
        + destruct rp as [|[lo hi0] tl]; [discriminate|]. unfold bound_kw. cbn [orb].
          destruct (asc_ok true (kw_value ty base true) lo); [apply IH|discriminate].
        + unfold bound_kw. destruct ((pd =? 0)%nat || asc_ok true (kw_value ty base true) (prev_max pd rp)); [apply IH|discriminate]. }
    exact (Hno _ _ _ _ _ _ _ Hl).
Qed.

Theorem compile_range_wsorted ty base text r : compile_range ty base text = Ok r -> wsorted r /\ r <> [].
Proof.
  intro H. unfold compile_range in H.
  destruct (loop (S (length text)) ty base [] 0 false text) as [[ps pd]|e] eqn:Hl; [|discriminate].
  destruct (loop_inv _ _ _ _ _ _ _ _ _ inv0 Hl) as [Hpd Hs]. subst pd.
  assert (Hr : r = ps).
  { destruct base; [inversion H; reflexivity|].
    destruct (check_base_rem (firstn (length ps) ps) (p :: base)); [|discriminate].
    rewrite Nat.leb_refl in H. inversion H; reflexivity. }
  subst r. split; [exact Hs|].
  (* the end of the text is only accepted with parts_done <> COUNT, i.e. COUNT = parts_done + 1 >= 1 *)
  intro Hnil. subst ps.
  assert (Hne : forall f ty base rp pd re e pd', loop f ty base rp pd re e <> Ok ([], pd')).
  { clear. induction f as [|f IH]; intros ty base rp pd re e pd'; cbn [loop]; [discriminate|].
    destruct e as [|c rest].
    - destruct re; [discriminate|]. destruct rp as [|p rp']; [discriminate|]. cbn [is_nil orb].
      destruct (pd =? length (p :: rp'))%nat; [discriminate|]. intro X. inversion X as [[Hrev Hp]].
      apply (f_equal (@length _)) in Hrev. cbn [rev] in Hrev. rewrite app_length in Hrev. cbn [length] in Hrev. lia.
    - repeat match goal with
             | |- context [if ?c then _ else _] => destruct c
             | |- context [match ?x with _ => _ end] => destruct x
             end; try discriminate; try apply IH. }
  exact (Hne _ _ _ _ _ _ _ _ Hl).
Qed.

(* lyplg_type_validate_range decides membership on whatever the compiler accepted *)
Theorem range_validate_agrees_any ty base text r v :
  compile_range ty base text = Ok r -> (validate_range r v = true <-> in_parts r v).
Proof.
  intro H. destruct (compile_range_wsorted _ _ _ _ H) as [Hs Hne]. exact (validate_range_wspec r v Hs Hne).
Qed.

(* soundness of the check against the base without any order assumption *)
Lemma check_base_sound ds : forall b b',
  Forall (fun d => (fst d <= snd d)%Z) ds -> check_base_rem ds b = Some b' -> parts_inside ds b.
Proof.
  unfold parts_inside. induction ds as [|d ds IH]; intros b b' Hle H; [constructor|].
  cbn [check_base_rem] in H. destruct (check_part d b) as [b1|] eqn:Hc; [|discriminate].
  destruct (check_part_some d b b1 (Forall_inv Hle) Hc) as [Hin [dr [Hb _]]].
  constructor; [exact Hin|].
  eapply Forall_impl; [|exact (IH b1 b' (Forall_inv_tail Hle) H)].
  intros d' (l & h & Hl & H1 & H2). exists l, h. split; [rewrite Hb; apply in_or_app; right; exact Hl|auto].
Qed.

(* NO accepted restriction, whatever its text, has a part outside the parts of its base *)
Theorem range_no_widening ty base text r :
  base <> [] -> compile_range ty base text = Ok r -> parts_inside r base /\ subset r base.
Proof.
  intros Hb H. destruct (compile_range_wsorted _ _ _ _ H) as [Hs _].
  assert (Hin : parts_inside r base).
  { unfold compile_range in H.
    destruct (loop (S (length text)) ty base [] 0 false text) as [[ps pd]|e] eqn:Hl; [|discriminate].
    destruct (loop_inv _ _ _ _ _ _ _ _ _ inv0 Hl) as [Hpd _]. subst pd.
    destruct base as [|b0 base']; [congruence|].
    destruct (check_base_rem (firstn (length ps) ps) (b0 :: base')) as [b'|] eqn:Hc; [|discriminate].
    rewrite Nat.leb_refl in H. inversion H; subst r. rewrite firstn_all in Hc.
    apply (check_base_sound ps (b0 :: base') b'); [|exact Hc].
    rewrite Forall_forall. intros [l h] Hd. exact (wsorted_le _ _ _ Hs Hd). }
  split; [exact Hin|exact (parts_inside_subset _ _ Hin)].
Qed.

(* along ANY chain that compiles, every value the last type accepts is accepted by the base the chain started from *)
Theorem chain_never_widens ty rs : forall base eff,
  compile_chain ty base rs = Ok eff -> forall v, denote eff v -> denote base v.
Proof.
  induction rs as [|[r|] rs IH]; intros base eff H v Hv; cbn [compile_chain] in H.
  - inversion H; subst. exact Hv.
  - destruct (compile_range ty base r) as [ps|e] eqn:Hr; [|discriminate].
    pose proof (IH ps eff H v Hv) as Hps.
    destruct (compile_range_wsorted _ _ _ _ Hr) as [_ Hne].
    destruct base as [|b0 base']; [left; reflexivity|]. right.
    destruct Hps as [Hn|Hin]; [congruence|].
    exact (proj2 (range_no_widening ty (b0 :: base') r ps ltac:(discriminate) Hr) v Hin).
  - exact (IH base eff H v Hv).
Qed.

(* ---------------------------------------------------------------------------------------------
   10. a derived type that restates nothing inherits the restriction of its base whole
   --------------------------------------------------------------------------------------------- *)
(* typedefs without a range / length statement of their own (for strings also: with only a pattern, where the C code
   copies the length with lysc_range_dup) leave every part of the inherited restriction in place *)
Theorem chain_inherits_all ty base k : compile_chain ty base (repeat None k) = Ok base.
Proof. induction k as [|k IH]; cbn [repeat compile_chain]; [reflexivity|exact IH]. Qed.

Theorem chain_skip_unrestricted ty base rs1 rs2 :
  compile_chain ty base (rs1 ++ None :: rs2) = compile_chain ty base (rs1 ++ rs2).
Proof.
  revert base. induction rs1 as [|[r|] rs1 IH]; intro base; cbn [app compile_chain]; [reflexivity| |exact (IH base)].
  destruct (compile_range ty base r) as [ps|e]; [exact (IH ps)|reflexivity].
Qed.

(* regression witness (seeded change: the copy kept only the FIRST part): with the length 1..3 | 6..8 | 12 the
   truncated copy rejects the length 6, and the legal narrowing 2..3 | 6..7 no longer compiles under it *)
Lemma first_part_copy_differs :
  let base := [(1, 3); (6, 8); (12, 12)]%Z in
  let narrow := bs [50; 46; 46; 51; 32; 124; 32; 54; 46; 46; 55] in
  compile_chain RLen base [None] = Ok base /\
  validate_range base 6 = true /\ validate_range (firstn 1 base) 6 = false /\
  compile_chain RLen base [None; Some narrow] = Ok [(2, 3); (6, 7)]%Z /\
  compile_range RLen (firstn 1 base) narrow = Err E_BASE.
Proof. cbv zeta. repeat split; vm_compute; reflexivity. Qed.
