(* RestrictP.v — proofs about Restrict.v (slice restrict, property C11). *)
From LY Require Import Base TypesMisc TypesMiscP IntLex IntLexP Dec64 Restrict.
From Coq Require Import ZifyBool ZifyNat ZifyN.
Local Open Scope N_scope.

(* ---------------------------------------------------------------------------------------------
   1. the fuel of the loop does not matter once it exceeds the length of the text
   --------------------------------------------------------------------------------------------- *)
Lemma count_digits_pos c r : is_digit c = true -> (1 <= count_digits (c :: r))%nat.
Proof. intro H. cbn [count_digits]. rewrite H. lia. Qed.

Lemma value_syntax_len_pos ty e len vc : value_syntax ty e = Ok (len, vc) -> (1 <= len)%nat.
Proof.
  unfold value_syntax. cbv zeta.
  set (c0 := rd e 0).
  set (len1 := if (c0 =? 45) || (c0 =? 43) then 1%nat else 0%nat).
  set (len2 := (len1 + count_digits (skipn len1 e))%nat).
  intro H.
  destruct (negb (is_digit c0) && negb (c0 =? 45) && negb (c0 =? 43)) eqn:Hc0; [discriminate|].
  assert (Hl2 : (1 <= len2)%nat).
  { unfold len2, len1. destruct ((c0 =? 45) || (c0 =? 43)) eqn:Hs; [lia|].
    cbn [skipn]. destruct e as [|c r]; unfold c0, rd in *; cbn [nth] in *.
    - cbn in Hc0. discriminate.
    - assert (Hd : is_digit c = true) by (destruct (is_digit c); [reflexivity|]; exfalso; lia).
      pose proof (count_digits_pos c r Hd). lia. }
  destruct ty as [t|fd|].
  - inversion H; subst. exact Hl2.
  - match type of H with context [if ?c then _ else _] => destruct c end.
    + destruct (dec_valcopy _ _ _ _); inversion H; subst. exact Hl2.
    + destruct (dec_valcopy _ _ _ _); inversion H; subst. lia.
  - inversion H; subst. exact Hl2.
Qed.

Lemma bound_num_len_pos ty mx first prev e v len :
  bound_num ty mx first prev e = Ok (v, len) -> (1 <= len)%nat.
Proof.
  unfold bound_num. destruct (value_syntax ty e) as [[l vc]|] eqn:Hs; [|discriminate].
  destruct (parse_bound ty vc); [|discriminate].
  destruct (first || asc_ok mx a prev); [|discriminate].
  intro H. inversion H; subst. exact (value_syntax_len_pos _ _ _ _ Hs).
Qed.

Lemma skip_space_length s : (length (skip_space s) <= length s)%nat.
Proof.
  induction s as [|c s IH]; cbn [skip_space]; [lia|].
  destruct (is_space c); cbn [length]; lia.
Qed.

Lemma loop_fuel f1 : forall f2 ty base rp pd re e,
  (length e < f1)%nat -> (length e < f2)%nat ->
  loop f1 ty base rp pd re e = loop f2 ty base rp pd re e.
Proof.
  induction f1 as [|f1 IH]; intros f2 ty base rp pd re e H1 H2; [lia|].
  destruct f2 as [|f2]; [lia|].
  cbn [loop]. destruct e as [|c rest]; [reflexivity|].
  cbn [length] in H1, H2.
  destruct (is_space c); [apply IH; lia|].
  destruct (starts_with s_min (c :: rest)).
  { destruct rp; [|reflexivity]. destruct (bound_kw ty base false true 0); [|reflexivity].
    apply IH; rewrite skipn_length; cbn [length]; lia. }
  destruct (c =? 124).
  { destruct (is_nil rp || re); [reflexivity|]. apply IH; lia. }
  destruct (starts_with s_dots (c :: rest)).
  { destruct (is_nil rp || (length rp =? pd)%nat); [reflexivity|].
    pose proof (skip_space_length (skipn 2 (c :: rest))) as Hl. rewrite skipn_length in Hl. cbn [length] in Hl.
    apply IH; lia. }
  destruct (is_digit c || (c =? 45) || (c =? 43)).
  { destruct re.
    - destruct rp as [|[lo hi0] tl]; [reflexivity|].
      destruct (bound_num ty true false lo (c :: rest)) as [[v len]|] eqn:Hb; [|reflexivity].
      pose proof (bound_num_len_pos _ _ _ _ _ _ _ Hb) as Hlen.
      apply IH; rewrite skipn_length; cbn [length]; lia.
    - destruct (bound_num ty false (pd =? 0)%nat (prev_max pd rp) (c :: rest)) as [[v len]|] eqn:Hb; [|reflexivity].
      pose proof (bound_num_len_pos _ _ _ _ _ _ _ Hb) as Hlen.
      apply IH; rewrite skipn_length; cbn [length]; lia. }
  destruct (starts_with s_max (c :: rest)); [|reflexivity].
  destruct (skip_space (skipn 3 (c :: rest))); [|reflexivity].
  destruct re.
  - destruct rp as [|[lo hi0] tl]; [reflexivity|].
    destruct (bound_kw ty base true false lo); [|reflexivity]. apply IH; cbn [length]; lia.
  - destruct (bound_kw ty base true (pd =? 0)%nat (prev_max pd rp)); [|reflexivity]. apply IH; cbn [length]; lia.
Qed.

(* the loop with the fuel compile_range gives it *)
Definition run (ty : rty) (base rp : parts) (pd : nat) (re : bool) (e : bytes) : res (parts * nat) :=
  loop (S (length e)) ty base rp pd re e.

Lemma loop_run f ty base rp pd re e : (length e < f)%nat -> loop f ty base rp pd re e = run ty base rp pd re e.
Proof. intro H. unfold run. apply loop_fuel; lia. Qed.

(* one round of the loop, without fuel *)
Lemma run_nil ty base rp pd re :
  run ty base rp pd re [] =
  if re then Err E_VALID
  else if is_nil rp || (pd =? length rp)%nat then Err E_VALID
  else Ok (rev rp, S pd).
Proof. reflexivity. Qed.

Lemma run_cons ty base rp pd re c rest :
  run ty base rp pd re (c :: rest) =
  let expr := c :: rest in
  if is_space c then run ty base rp pd re rest
  else if starts_with s_min expr then
    match rp with
    | _ :: _ => Err E_VALID
    | [] => match bound_kw ty base false true 0 with
            | Err e => Err e
            | Ok m => run ty base [(m, m)] pd re (skipn 3 expr)
            end
    end
  else if c =? 124 then
    if is_nil rp || re then Err E_VALID else run ty base rp (S pd) re rest
  else if starts_with s_dots expr then
    if is_nil rp || (length rp =? pd)%nat then Err E_VALID
    else run ty base rp pd true (skip_space (skipn 2 expr))
  else if is_digit c || (c =? 45) || (c =? 43) then
    if re then
      match rp with
      | [] => Err E_INT
      | (lo, _) :: tl =>
          match bound_num ty true false lo expr with
          | Err e => Err e
          | Ok (v, len) => run ty base ((lo, v) :: tl) pd false (skipn len expr)
          end
      end
    else
      match bound_num ty false (pd =? 0)%nat (prev_max pd rp) expr with
      | Err e => Err e
      | Ok (v, len) => run ty base ((v, v) :: rp) pd false (skipn len expr)
      end
  else if starts_with s_max expr then
    match skip_space (skipn 3 expr) with
    | _ :: _ => Err E_VALID
    | [] =>
        if re then
          match rp with
          | [] => Err E_INT
          | (lo, _) :: tl =>
              match bound_kw ty base true false lo with
              | Err e => Err e
              | Ok v => run ty base ((lo, v) :: tl) pd false []
              end
          end
        else
          match bound_kw ty base true (pd =? 0)%nat (prev_max pd rp) with
          | Err e => Err e
          | Ok v => run ty base ((v, v) :: rp) pd false []
          end
    end
  else Err E_VALID.
Proof.
  cbv zeta. unfold run at 1. cbn [length]. remember (S (length rest)) as f eqn:Hf. cbn [loop].
  destruct (is_space c); [apply loop_run; lia|].
  destruct (starts_with s_min (c :: rest)).
  { destruct rp; [|reflexivity]. destruct (bound_kw ty base false true 0); [|reflexivity].
    apply loop_run; rewrite skipn_length; cbn [length]; lia. }
  destruct (c =? 124).
  { destruct (is_nil rp || re); [reflexivity|]. apply loop_run; lia. }
  destruct (starts_with s_dots (c :: rest)).
  { destruct (is_nil rp || (length rp =? pd)%nat); [reflexivity|].
    pose proof (skip_space_length (skipn 2 (c :: rest))) as Hl. rewrite skipn_length in Hl. cbn [length] in Hl.
    apply loop_run; lia. }
  destruct (is_digit c || (c =? 45) || (c =? 43)).
  { destruct re.
    - destruct rp as [|[lo hi0] tl]; [reflexivity|].
      destruct (bound_num ty true false lo (c :: rest)) as [[v len]|] eqn:Hb; [|reflexivity].
      pose proof (bound_num_len_pos _ _ _ _ _ _ _ Hb) as Hlen.
      apply loop_run; rewrite skipn_length; cbn [length]; lia.
    - destruct (bound_num ty false (pd =? 0)%nat (prev_max pd rp) (c :: rest)) as [[v len]|] eqn:Hb; [|reflexivity].
      pose proof (bound_num_len_pos _ _ _ _ _ _ _ Hb) as Hlen.
      apply loop_run; rewrite skipn_length; cbn [length]; lia. }
  destruct (starts_with s_max (c :: rest)); [|reflexivity].
  destruct (skip_space (skipn 3 (c :: rest))); [|reflexivity].
  destruct re.
  - destruct rp as [|[lo hi0] tl]; [reflexivity|].
    destruct (bound_kw ty base true false lo); [|reflexivity]. apply loop_run; cbn [length]; lia.
  - destruct (bound_kw ty base true (pd =? 0)%nat (prev_max pd rp)); [|reflexivity]. apply loop_run; cbn [length]; lia.
Qed.

(* results up to the error class *)
Definition ropt {A} (r : res A) : option A := match r with Ok a => Some a | Err _ => None end.
Definition orun (ty : rty) (base rp : parts) (pd : nat) (re : bool) (e : bytes) : option (parts * nat) :=
  ropt (run ty base rp pd re e).

(* ---------------------------------------------------------------------------------------------
   2. tokens
   --------------------------------------------------------------------------------------------- *)
Lemma orun_ws ty base rp pd re ws r : all_space ws -> orun ty base rp pd re (ws ++ r) = orun ty base rp pd re r.
Proof.
  unfold all_space, orun. induction ws as [|c ws IH]; cbn [forallb app]; intro H; [reflexivity|].
  apply andb_true_iff in H. destruct H as [Hc Hws]. rewrite run_cons. cbv zeta. rewrite Hc. exact (IH Hws).
Qed.

Lemma orun_bar ty base rp pd re r :
  orun ty base rp pd re (124 :: r) =
  if is_nil rp || re then None else orun ty base rp (S pd) re r.
Proof.
  unfold orun. rewrite run_cons. cbv zeta.
  change (is_space 124) with false. change (starts_with s_min (124 :: r)) with false. change (124 =? 124) with true.
  cbv iota. destruct (is_nil rp || re); reflexivity.
Qed.

Lemma orun_min ty base rp pd re r :
  orun ty base rp pd re (s_min ++ r) =
  match rp with
  | _ :: _ => None
  | [] => orun ty base [(kw_value ty base false, kw_value ty base false)] pd re r
  end.
Proof.
  unfold orun, s_min. cbn [app]. rewrite run_cons. cbv zeta.
  change (is_space 109) with false. cbv iota.
  replace (starts_with [109; 105; 110] (109 :: 105 :: 110 :: r)) with true by (cbn; reflexivity).
  destruct rp; [|reflexivity]. unfold bound_kw. cbn [orb skipn]. reflexivity.
Qed.

Lemma orun_dots ty base rp pd re r :
  orun ty base rp pd re (s_dots ++ r) =
  if is_nil rp || (length rp =? pd)%nat then None else orun ty base rp pd true (skip_space r).
Proof.
  unfold orun, s_dots. cbn [app]. rewrite run_cons. cbv zeta.
  change (is_space 46) with false. cbv iota.
  change (starts_with s_min (46 :: 46 :: r)) with false. change (46 =? 124) with false. cbv iota.
  replace (starts_with [46; 46] (46 :: 46 :: r)) with true by (cbn; reflexivity).
  cbn [skipn]. destruct (is_nil rp || (length rp =? pd)%nat); reflexivity.
Qed.

(* max: only white space may follow *)
Lemma orun_max ty base rp pd re r :
  orun ty base rp pd re (s_max ++ r) =
  match skip_space r with
  | _ :: _ => None
  | [] =>
      let M := kw_value ty base true in
      if re then
        match rp with
        | [] => None
        | (lo, _) :: tl => if (lo <=? M)%Z then orun ty base ((lo, M) :: tl) pd false [] else None
        end
      else if (pd =? 0)%nat || (prev_max pd rp <=? M)%Z then orun ty base ((M, M) :: rp) pd false [] else None
  end.
Proof.
  unfold orun, s_max. cbn [app]. rewrite run_cons. cbv zeta.
  change (is_space 109) with false. cbv iota.
  change (starts_with s_min (109 :: 97 :: 120 :: r)) with false. change (109 =? 124) with false. cbv iota.
  change (starts_with s_dots (109 :: 97 :: 120 :: r)) with false. cbv iota.
  change (is_digit 109 || (109 =? 45) || (109 =? 43)) with false. cbv iota.
  replace (starts_with [109; 97; 120] (109 :: 97 :: 120 :: r)) with true by (cbn; reflexivity).
  cbn [skipn]. destruct (skip_space r); [|reflexivity].
  unfold bound_kw, asc_ok. destruct re.
  - destruct rp as [|[lo hi0] tl]; [reflexivity|]. cbn [orb]. destruct (lo <=? kw_value ty base true)%Z; reflexivity.
  - destruct ((pd =? 0)%nat || (prev_max pd rp <=? kw_value ty base true)%Z); reflexivity.
Qed.

(* ---------- number lexemes ---------- *)
Definition in_type (ty : rty) (v : Z) : bool := (rty_min ty <=? v)%Z && (v <=? rty_max ty)%Z.

(* what may follow a number in the text: no digit, and no period followed by a digit *)
Definition num_follow (r : bytes) : Prop :=
  match r with
  | [] => True
  | c :: r' => is_digit c = false /\ (c = 46 -> match r' with [] => True | d :: _ => is_digit d = false end)
  end.

Definition head_nondigit' (r : bytes) : Prop := match r with [] => True | c :: _ => is_digit c = false end.

Lemma num_follow_head r : num_follow r -> head_nondigit' r.
Proof. destruct r; cbn; tauto. Qed.

Lemma count_digits_app ds r : all_digit ds -> head_nondigit' r -> count_digits (ds ++ r) = length ds.
Proof.
  unfold all_digit. induction ds as [|d ds IH]; cbn [forallb app length]; intros Hd Hr.
  - destruct r as [|c r]; cbn [count_digits]; [reflexivity|]. cbn in Hr. rewrite Hr. reflexivity.
  - apply andb_true_iff in Hd. destruct Hd as [Hd Hds]. cbn [count_digits]. rewrite Hd, (IH Hds Hr). reflexivity.
Qed.

Lemma rd_app_r a b i : rd (a ++ b) (length a + i) = rd b i.
Proof. unfold rd. apply app_nth2_plus. Qed.

Lemma rd_app_r0 a b : rd (a ++ b) (length a) = rd b 0.
Proof. rewrite <- (Nat.add_0_r (length a)). apply rd_app_r. Qed.

Lemma firstn_app_exact {A} (a b : list A) : firstn (length a) (a ++ b) = a.
Proof. induction a as [|x a IH]; cbn [length app firstn]; [destruct b; reflexivity|]. rewrite IH. reflexivity. Qed.

Lemma skipn_app_exact {A} (a b : list A) : skipn (length a) (a ++ b) = b.
Proof. induction a as [|x a IH]; cbn [length app skipn]; [reflexivity|exact IH]. Qed.

Lemma all_digit_app a b : all_digit a -> all_digit b -> all_digit (a ++ b).
Proof. unfold all_digit. intros Ha Hb. rewrite forallb_app, Ha, Hb. reflexivity. Qed.

Lemma all_digit_zeros n : all_digit (repeat 48 n).
Proof. unfold all_digit. induction n; cbn [repeat forallb]; [reflexivity|]. rewrite IHn. reflexivity. Qed.

(* the first byte and the sign step on  sign digits ... *)
Lemma sign_digits_head sg ds r :
  is_sign sg -> ds <> [] -> all_digit ds ->
  let c0 := rd (sg ++ ds ++ r) 0 in
  negb (is_digit c0) && negb (c0 =? 45) && negb (c0 =? 43) = false /\
  (if (c0 =? 45) || (c0 =? 43) then 1%nat else 0%nat) = length sg.
Proof.
  intros Hsg Hne Hds. destruct ds as [|d ds]; [congruence|].
  unfold all_digit in Hds. cbn [forallb] in Hds. apply andb_true_iff in Hds. destruct Hds as [Hd _].
  destruct Hsg as [-> | [-> | ->]]; cbn [app rd nth length]; unfold rd; cbn [nth].
  - rewrite Hd. unfold is_digit in Hd. split; [reflexivity|].
    destruct (d =? 45) eqn:H1; [lia|]. destruct (d =? 43) eqn:H2; [lia|]. reflexivity.
  - split; reflexivity.
  - split; reflexivity.
Qed.

Lemma value_syntax_int ty sg ds r :
  (forall fd, ty <> RDec fd) -> is_sign sg -> ds <> [] -> all_digit ds -> head_nondigit' r ->
  value_syntax ty ((sg ++ ds) ++ r) = Ok (length (sg ++ ds), sg ++ ds).
Proof.
  intros Hty Hsg Hne Hds Hr. unfold value_syntax. cbv zeta. rewrite <- app_assoc.
  destruct (sign_digits_head sg ds r Hsg Hne Hds) as [H0 H1]. cbv zeta in H0, H1.
  rewrite H0, H1. rewrite skipn_app_exact, (count_digits_app ds r Hds Hr).
  rewrite app_assoc, <- app_length, firstn_app_exact.
  destruct ty as [t|fd|]; [reflexivity|exfalso; exact (Hty fd eq_refl)|reflexivity].
Qed.

Lemma value_syntax_dec_int fd sg ip r :
  is_sign sg -> ip <> [] -> all_digit ip -> num_follow r ->
  value_syntax (RDec fd) ((sg ++ ip) ++ r) = Ok (length (sg ++ ip), sg ++ ip ++ repeat 48 fd).
Proof.
  intros Hsg Hne Hds Hr. unfold value_syntax. cbv zeta. rewrite <- app_assoc.
  destruct (sign_digits_head sg ip r Hsg Hne Hds) as [H0 H1]. cbv zeta in H0, H1.
  rewrite H0, H1. rewrite skipn_app_exact, (count_digits_app ip r Hds (num_follow_head r Hr)).
  rewrite app_assoc, <- app_length.
  assert (Hgo : negb (rd ((sg ++ ip) ++ r) (length (sg ++ ip)) =? 46)
                || negb (is_digit (rd ((sg ++ ip) ++ r) (length (sg ++ ip) + 1))) = true).
  { rewrite rd_app_r0, rd_app_r. destruct r as [|c r']; unfold rd; cbn [nth]; [reflexivity|].
    cbn [num_follow] in Hr. destruct Hr as [_ Hr]. destruct (c =? 46) eqn:Hc; [|reflexivity].
    assert (Hc' : c = 46) by lia. specialize (Hr Hc'). destruct r' as [|d r'']; cbn [nth]; [reflexivity|].
    rewrite Hr. reflexivity. }
  rewrite Hgo. unfold dec_valcopy. cbn [Nat.eqb negb andb]. rewrite firstn_app_exact, <- app_assoc. reflexivity.
Qed.

Lemma value_syntax_dec_frac fd sg ip fp r :
  is_sign sg -> ip <> [] -> all_digit ip -> fp <> [] -> all_digit fp -> (length fp <= fd)%nat -> head_nondigit' r ->
  value_syntax (RDec fd) ((sg ++ ip ++ 46 :: fp) ++ r) =
  Ok (length (sg ++ ip ++ 46 :: fp), sg ++ ip ++ fp ++ repeat 48 (fd - length fp)).
Proof.
  intros Hsg Hne Hds Hfne Hfp Hlen Hr. unfold value_syntax. cbv zeta.
  replace ((sg ++ ip ++ 46 :: fp) ++ r) with (sg ++ ip ++ (46 :: fp ++ r)) by (rewrite <- !app_assoc; reflexivity).
  destruct (sign_digits_head sg ip (46 :: fp ++ r) Hsg Hne Hds) as [H0 H1]. cbv zeta in H0, H1.
  rewrite H0, H1. rewrite skipn_app_exact, (count_digits_app ip (46 :: fp ++ r) Hds eq_refl).
  rewrite app_assoc, <- app_length.
  set (A := sg ++ ip).
  assert (HA : (1 <= length A)%nat).
  { unfold A. rewrite app_length. destruct ip; [congruence|]. cbn [length]. lia. }
  destruct fp as [|f0 fp']; [congruence|].
  assert (Hf0 : is_digit f0 = true).
  { unfold all_digit in Hfp. cbn [forallb] in Hfp. apply andb_true_iff in Hfp. tauto. }
  assert (Hgo : negb (rd (A ++ 46 :: (f0 :: fp') ++ r) (length A) =? 46)
                || negb (is_digit (rd (A ++ 46 :: (f0 :: fp') ++ r) (length A + 1))) = false).
  { rewrite rd_app_r0, rd_app_r. unfold rd. cbn [nth app]. rewrite Hf0. reflexivity. }
  rewrite Hgo.
  assert (Hsk : skipn (length A + 1) (A ++ 46 :: (f0 :: fp') ++ r) = (f0 :: fp') ++ r).
  { replace (A ++ 46 :: (f0 :: fp') ++ r) with ((A ++ [46]) ++ (f0 :: fp') ++ r) by (rewrite <- app_assoc; reflexivity).
    replace (length A + 1)%nat with (length (A ++ [46])) by (rewrite app_length; reflexivity).
    apply skipn_app_exact. }
  rewrite Hsk, (count_digits_app (f0 :: fp') r Hfp Hr).
  unfold dec_valcopy.
  replace (length A + 1 + length (f0 :: fp') - 1 - length A)%nat with (length (f0 :: fp')) by lia.
  destruct (length A =? 0)%nat eqn:HA0; [lia|]. cbn [negb andb].
  destruct (fd <? length (f0 :: fp'))%nat eqn:Hfd; [lia|].
  rewrite firstn_app_exact, Hsk, firstn_app_exact.
  f_equal. f_equal; [|unfold A; rewrite <- app_assoc; reflexivity].
  unfold A. rewrite !app_length. cbn [length]. lia.
Qed.

(* ly_parse_int / ly_parse_uint on  sign digits *)
Lemma plg_is_ly_int sg ds lo hi :
  is_sign sg -> ds <> [] -> all_digit ds -> plg_parse_int (sg ++ ds) lo hi = ly_parse_int (sg ++ ds) lo hi.
Proof.
  intros Hsg Hne Hds. destruct (core_head sg ds Hsg Hne Hds) as [c0 [r0 [Hc [Hsp [Hnz _]]]]].
  unfold plg_parse_int. rewrite Hc, (skip_space_id c0 r0 Hsp).
  destruct (c0 =? 0) eqn:H0; [lia|reflexivity].
Qed.

Lemma plg_is_ly_uint sg ds hi :
  is_sign sg -> ds <> [] -> all_digit ds -> plg_parse_uint (sg ++ ds) hi = ly_parse_uint (sg ++ ds) hi.
Proof.
  intros Hsg Hne Hds. destruct (core_head sg ds Hsg Hne Hds) as [c0 [r0 [Hc [Hsp [Hnz _]]]]].
  unfold plg_parse_uint. rewrite Hc, (skip_space_id c0 r0 Hsp).
  destruct (c0 =? 0) eqn:H0; [lia|reflexivity].
Qed.

Lemma sign_digits_lex sg ds : is_sign sg -> ds <> [] -> all_digit ds -> ly_int_lex (sg ++ ds) (sign_val sg (dec_to_N ds)).
Proof. intros. apply rfc_lex_is_ly_lex. apply RfcInt; assumption. Qed.

Lemma ly_parse_int_core sg ds lo hi :
  (- Z.of_N I64MAX - 1 <= lo)%Z -> (hi <= Z.of_N I64MAX)%Z ->
  is_sign sg -> ds <> [] -> all_digit ds ->
  ropt (ly_parse_int (sg ++ ds) lo hi) =
  let v := sign_val sg (dec_to_N ds) in if (lo <=? v)%Z && (v <=? hi)%Z then Some v else None.
Proof.
  intros Hlo Hhi Hsg Hne Hds. cbv zeta. rewrite <- plg_is_ly_int by assumption.
  pose proof (plg_parse_int_core sg ds lo hi) as Hcore.
  destruct (plg_parse_int (sg ++ ds) lo hi) as [w|e] eqn:Hp; cbn [ropt].
  - destruct (proj1 (Hcore w Hlo Hhi Hsg Hne Hds) eq_refl) as [-> Hb].
    destruct ((lo <=? sign_val sg (dec_to_N ds))%Z && (sign_val sg (dec_to_N ds) <=? hi)%Z) eqn:Hc; [reflexivity|lia].
  - destruct ((lo <=? sign_val sg (dec_to_N ds))%Z && (sign_val sg (dec_to_N ds) <=? hi)%Z) eqn:Hc; [|reflexivity].
    exfalso. assert (Hb : (lo <= sign_val sg (dec_to_N ds) <= hi)%Z) by lia.
    pose proof (proj2 (Hcore _ Hlo Hhi Hsg Hne Hds) (conj eq_refl Hb)) as Hok. congruence.
Qed.

Lemma ly_parse_uint_core sg ds hi :
  (hi <= Z.of_N U64MAX)%Z -> is_sign sg -> ds <> [] -> all_digit ds ->
  ropt (ly_parse_uint (sg ++ ds) hi) =
  let v := sign_val sg (dec_to_N ds) in if (0 <=? v)%Z && (v <=? hi)%Z then Some v else None.
Proof.
  intros Hhi Hsg Hne Hds. cbv zeta. rewrite <- plg_is_ly_uint by assumption.
  pose proof (sign_digits_lex sg ds Hsg Hne Hds) as Hlex.
  destruct (plg_parse_uint (sg ++ ds) hi) as [w|e] eqn:Hp; cbn [ropt].
  - destruct (plg_parse_uint_ok _ _ _ Hp) as [Hl Hb].
    pose proof (ly_int_lex_det _ _ _ Hl Hlex) as ->.
    destruct ((0 <=? sign_val sg (dec_to_N ds))%Z && (sign_val sg (dec_to_N ds) <=? hi)%Z) eqn:Hc; [reflexivity|lia].
  - destruct ((0 <=? sign_val sg (dec_to_N ds))%Z && (sign_val sg (dec_to_N ds) <=? hi)%Z) eqn:Hc; [|reflexivity].
    exfalso. assert (Hb : (0 <= sign_val sg (dec_to_N ds) <= hi)%Z) by lia.
    pose proof (plg_parse_uint_complete _ _ _ Hhi Hlex Hb) as Hok. congruence.
Qed.

Lemma parse_bound_core ty sg ds :
  is_sign sg -> ds <> [] -> all_digit ds ->
  ropt (parse_bound ty (sg ++ ds)) =
  let v := sign_val sg (dec_to_N ds) in if in_type ty v then Some v else None.
Proof.
  intros Hsg Hne Hds. unfold parse_bound, in_type. destruct ty as [t|fd|]; cbn [rty_min rty_max].
  - destruct (ity_signed t) eqn:Hs.
    + destruct (ity_bounds_signed t Hs) as [Hlo Hhi]. apply ly_parse_int_core; assumption.
    + destruct (ity_bounds_unsigned t Hs) as [Hlo Hhi]. rewrite Hlo. apply ly_parse_uint_core; assumption.
  - apply ly_parse_int_core; try assumption; unfold I64MIN_Z, I64MAX_Z; rewrite I64MAX_val; lia.
  - apply ly_parse_uint_core; try assumption. rewrite U64MAX_val. cbn. lia.
Qed.

(* a number of the grammar followed by something that does not continue it *)
Lemma bound_num_lex ty l v r mx first prev :
  num_lex ty l v -> num_follow r ->
  ropt (bound_num ty mx first prev (l ++ r)) =
  if in_type ty v && (first || asc_ok mx v prev) then Some (v, length l) else None.
Proof.
  intros Hlex Hr. unfold bound_num.
  assert (Hgen : forall sg DS vc, is_sign sg -> DS <> [] -> all_digit DS -> vc = sg ++ DS ->
            v = sign_val sg (dec_to_N DS) ->
            value_syntax ty (l ++ r) = Ok (length l, vc) ->
            ropt match value_syntax ty (l ++ r) with
                 | Ok (len, vc0) => match parse_bound ty vc0 with
                                    | Ok v0 => if first || asc_ok mx v0 prev then Ok (v0, len) else Err E_EXIST
                                    | Err e => Err e
                                    end
                 | Err e => Err e
                 end = if in_type ty v && (first || asc_ok mx v prev) then Some (v, length l) else None).
  { intros sg DS vc Hsg Hne Hds -> -> Hvs. rewrite Hvs.
    pose proof (parse_bound_core ty sg DS Hsg Hne Hds) as Hp. cbv zeta in Hp.
    destruct (parse_bound ty (sg ++ DS)) as [w|e]; cbn [ropt] in Hp.
    - destruct (in_type ty (sign_val sg (dec_to_N DS))); [|discriminate]. inversion Hp; subst w. cbn [andb].
      destruct (first || asc_ok mx (sign_val sg (dec_to_N DS)) prev); reflexivity.
    - destruct (in_type ty (sign_val sg (dec_to_N DS))); [discriminate|]. reflexivity. }
  destruct Hlex as [t sg ds Hsg Hne Hds | sg ds Hsg Hne Hds | fd sg ip Hsg Hne Hds | fd sg ip fp Hsg Hne Hds Hfne Hfp Hlen].
  - apply (Hgen sg ds (sg ++ ds)); try assumption; try reflexivity.
    apply value_syntax_int; try assumption; [intros fd; discriminate|apply num_follow_head; exact Hr].
  - apply (Hgen sg ds (sg ++ ds)); try assumption; try reflexivity.
    apply value_syntax_int; try assumption; [intros fd; discriminate|apply num_follow_head; exact Hr].
  - apply (Hgen sg (ip ++ repeat 48 fd) (sg ++ ip ++ repeat 48 fd)); try assumption; try reflexivity.
    + destruct ip; [congruence|discriminate].
    + apply all_digit_app; [assumption|apply all_digit_zeros].
    + apply value_syntax_dec_int; assumption.
  - apply (Hgen sg (ip ++ fp ++ repeat 48 (fd - length fp)) (sg ++ ip ++ fp ++ repeat 48 (fd - length fp)));
      try assumption; try reflexivity.
    + destruct ip; [congruence|discriminate].
    + apply all_digit_app; [assumption|apply all_digit_app; [assumption|apply all_digit_zeros]].
    + apply value_syntax_dec_frac; try assumption. apply num_follow_head; exact Hr.
Qed.
