(* WithDefaultsP.v -- the as-coded with-defaults selection (lyd_node_should_print + the printer's child loop) equals the
   RFC 6243 view on trees whose flags are consistent. *)
From LY Require Import Base Tree TreeP WithDefaults.
From Coq Require Import ZifyBool ZifyNat ZifyN.
Local Open Scope N_scope.

(* ------------------------------------------------------------------------------------------- *)
(* unfolding the nested fixpoints                                                                *)
(* ------------------------------------------------------------------------------------------- *)
Definition sp_list (sch : schema) (mode : wdmode) (ke : bool) (l : list dnode) : bool * bool :=
  fold_right (fun x b => let a := sp sch mode ke x in (fst a || fst b, fst a || snd a || snd b)) (false, false) l.

Definition sp_top (sch : schema) (mode : wdmode) (ke : bool) (n : dnode) (anyp anyd : bool) : bool :=
  match mode with
  | WdTrim =>
      if d_dflt n then false
      else if is_termnode sch n then negb (is_default_val sch n)
      else if is_np_cont sch (d_sid n) then (if ke then true else anyp)
      else true
  | _ =>
      if d_dflt n && is_container sch n then (if ke then true else anyd)
      else if d_dflt n && match mode with WdExplicit => true | _ => false end && si_config (sget sch (d_sid n))
      then is_state_data sch n || any_desc (is_state_data sch) n
      else true
  end.

Lemma sp_unfold sch mode ke s v d m ch :
  sp sch mode ke (DN s v d m ch) =
  (sp_top sch mode ke (DN s v d m ch) (fst (sp_list sch mode ke ch)) (snd (sp_list sch mode ke ch)),
   snd (sp_list sch mode ke ch)).
Proof. destruct mode; reflexivity. Qed.

Definition wd_list (sch : schema) (mode : wdmode) (ke : bool) (l : list dnode) : list dnode :=
  fold_right (fun x r => match wd_print sch mode ke x with Some y => y :: r | None => r end) [] l.

Lemma wd_print_unfold sch mode ke s v d m ch :
  wd_print sch mode ke (DN s v d m ch) =
  if should_print sch mode ke (DN s v d m ch)
  then Some (DN s v (tagged sch mode (DN s v d m ch)) m (wd_list sch mode ke ch)) else None.
Proof. reflexivity. Qed.

Definition rfc_list (sch : schema) (mode : wdmode) (ke : bool) (sibs l : list dnode) : list dnode :=
  fold_right (fun x r => match rfc_view sch mode ke sibs x with Some y => y :: r | None => r end) [] l.

Lemma rfc_view_unfold sch mode ke sibs s v d m ch :
  rfc_view sch mode ke sibs (DN s v d m ch) =
  let n := DN s v d m ch in
  let ch' := rfc_list sch mode ke ch ch in
  if is_termnode sch n
  then (if rfc_reported sch mode sibs n then Some (DN s v (rfc_tagged sch mode sibs n) m []) else None)
  else if is_np_cont sch s
  then (if ke || match ch' with [] => false | _ => true end then Some (DN s v false m ch') else None)
  else Some (DN s v false m ch').
Proof. reflexivity. Qed.

Lemma wd_print_forest_list sch mode ke f : wd_print_forest sch mode ke f = wd_list sch mode ke f.
Proof. induction f as [|x f IH]; cbn [wd_print_forest wd_list fold_right]; [reflexivity|]. rewrite IH. reflexivity. Qed.

Lemma rfc_view_forest_list sch mode ke sibs f : rfc_view_forest_aux sch mode ke sibs f = rfc_list sch mode ke sibs f.
Proof. induction f as [|x f IH]; cbn [rfc_view_forest_aux rfc_list fold_right]; [reflexivity|]. rewrite IH. reflexivity. Qed.


Lemma wd_wf_unfold sch sibs s v d m ch :
  wd_wf sch sibs (DN s v d m ch) =
  (if is_termnode sch (DN s v d m ch)
   then isnil ch && Bool.eqb (is_default_val sch (DN s v d m ch)) (rfc_holds_default sch sibs (DN s v d m ch)) &&
        (negb d || is_default_val sch (DN s v d m ch))
   else if is_np_cont sch s then Bool.eqb d (forallb d_dflt ch)
   else negb d) && forallb (wd_wf sch ch) ch.
Proof. reflexivity. Qed.

(* kinds *)
Lemma kinds_cases sch n :
  (is_termnode sch n = true /\ is_np_cont sch (d_sid n) = false /\ is_container sch n = false) \/
  (is_termnode sch n = false /\ is_np_cont sch (d_sid n) = true /\ is_container sch n = true) \/
  (is_termnode sch n = false /\ is_np_cont sch (d_sid n) = false).
Proof.
  unfold is_termnode, is_np_cont, is_container. destruct (kind_of sch (d_sid n)) as [[|]| | | |]; auto.
Qed.

Lemma existsb_false_all {A} (q : A -> bool) (l : list A) : existsb q l = false <-> forall x, In x l -> q x = false.
Proof.
  split.
  - intros H x Hx. destruct (q x) eqn:E; [|reflexivity].
    assert (existsb q l = true) by (apply existsb_exists; exists x; split; assumption). congruence.
  - intro H. destruct (existsb q l) eqn:E; [|reflexivity].
    apply existsb_exists in E. destruct E as [x [Hx Hq]]. rewrite (H x Hx) in Hq. discriminate.
Qed.

Lemma wd_list_nil sch mode ke l : wd_list sch mode ke l = [] <-> forall x, In x l -> should_print sch mode ke x = false.
Proof.
  induction l as [|x l IH]; cbn [wd_list fold_right]; [split; [intros _ y []|reflexivity]|].
  fold (wd_list sch mode ke l).
  destruct x as [s v d m ch]. rewrite wd_print_unfold.
  destruct (should_print sch mode ke (DN s v d m ch)) eqn:E.
  - split; [discriminate|]. intro H. rewrite (H _ (or_introl eq_refl)) in E. discriminate.
  - rewrite IH. split.
    + intros H y [<-|Hy]; [exact E|apply H, Hy].
    + intros H y Hy. apply H. right. exact Hy.
Qed.

Lemma sp_list_fst sch mode ke l : fst (sp_list sch mode ke l) = existsb (should_print sch mode ke) l.
Proof.
  induction l as [|x l IH]; cbn [sp_list fold_right existsb]; [reflexivity|].
  fold (sp_list sch mode ke l). cbn [fst]. rewrite IH. reflexivity.
Qed.

Lemma existsb_wd_list sch mode ke l :
  existsb (should_print sch mode ke) l = match wd_list sch mode ke l with [] => false | _ => true end.
Proof.
  destruct (wd_list sch mode ke l) eqn:E.
  - apply existsb_false_all. apply (proj1 (wd_list_nil sch mode ke l) E).
  - destruct (existsb (should_print sch mode ke) l) eqn:Ex; [reflexivity|].
    assert (En : wd_list sch mode ke l = []).
    { apply (proj2 (wd_list_nil sch mode ke l)). apply (proj1 (existsb_false_all _ _) Ex). }
    congruence.
Qed.

Definition nontrim (mode : wdmode) : bool := match mode with WdTrim => false | _ => true end.

(* the list form of the induction hypothesis *)
Lemma lists_agree sch mode sibs l :
  Forall (fun x => forall sibs', wd_wf sch sibs' x = true -> wd_print sch mode false x = rfc_view sch mode false sibs' x) l ->
  forallb (wd_wf sch sibs) l = true -> wd_list sch mode false l = rfc_list sch mode false sibs l.
Proof.
  induction l as [|x l IH]; intros HF Hw; cbn [wd_list rfc_list fold_right]; [reflexivity|].
  fold (wd_list sch mode false l). fold (rfc_list sch mode false sibs l).
  cbn [forallb] in Hw. apply andb_true_iff in Hw. destruct Hw as [Hx Hl].
  inversion HF as [|? ? H1 H2]; subst. rewrite (H1 sibs Hx), (IH H2 Hl). reflexivity.
Qed.

Lemma rfc_list_ne sch mode ke sibs l c :
  In c l -> rfc_view sch mode ke sibs c <> None -> rfc_list sch mode ke sibs l <> [].
Proof.
  induction l as [|x l IH]; intros Hin Hc; [destruct Hin|].
  cbn [rfc_list fold_right]. fold (rfc_list sch mode ke sibs l).
  destruct Hin as [->|Hin].
  - destruct (rfc_view sch mode ke sibs c); [discriminate|contradiction].
  - destruct (rfc_view sch mode ke sibs x); [discriminate|apply IH; assumption].
Qed.

Lemma rfc_list_nil sch mode ke sibs l :
  (forall x, In x l -> rfc_view sch mode ke sibs x = None) -> rfc_list sch mode ke sibs l = [].
Proof.
  induction l as [|x l IH]; intro H; cbn [rfc_list fold_right]; [reflexivity|].
  fold (rfc_list sch mode ke sibs l). rewrite (H x (or_introl eq_refl)). apply IH. intros y Hy. apply H. right. exact Hy.
Qed.

Lemma forallb_false_ex {A} (q : A -> bool) l : forallb q l = false -> exists c, In c l /\ q c = false.
Proof.
  induction l as [|c l IH]; cbn [forallb]; [discriminate|]. intro H.
  destruct (q c) eqn:E; [|exists c; split; [left; reflexivity|exact E]].
  destruct (IH H) as [c' [Hin Hd]]. exists c'. split; [right; exact Hin|exact Hd].
Qed.

(* an explicit node is reported in every mode but trim *)
Lemma explicit_reported sch mode n : nontrim mode = true ->
  forall sibs, wd_wf sch sibs n = true -> d_dflt n = false -> rfc_view sch mode false sibs n <> None.
Proof.
  intro Hm. induction n as [s v d m ch IH] using dnode_ind'. intros sibs Hw Hd. cbn [d_dflt] in Hd. subst d.
  rewrite wd_wf_unfold in Hw. rewrite rfc_view_unfold. cbv zeta.
  destruct (kinds_cases sch (DN s v false m ch)) as [[Ht [Hnp Hc]]|[[Ht [Hnp Hc]]|[Ht Hnp]]]; cbn [d_sid] in Hnp; rewrite Ht, ?Hnp in *.
  - assert (Hr : rfc_reported sch mode sibs (DN s v false m ch) = true) by (destruct mode; try reflexivity; discriminate).
    rewrite Hr. discriminate.
  - apply andb_true_iff in Hw. destruct Hw as [Hf Hall]. cbn [orb].
    apply Bool.eqb_prop in Hf. symmetry in Hf.
    destruct (forallb_false_ex _ _ Hf) as [c [Hcin Hcd]].
    rewrite Forall_forall in IH. rewrite forallb_forall in Hall.
    pose proof (rfc_list_ne sch mode false ch ch c Hcin (IH c Hcin ch (Hall c Hcin) Hcd)) as Hne.
    destruct (rfc_list sch mode false ch ch); [contradiction|discriminate].
  - discriminate.
Qed.

(* trim: a default-flagged node is not reported *)
Lemma dflt_trim_hidden sch n :
  forall sibs, wd_wf sch sibs n = true -> d_dflt n = true -> rfc_view sch WdTrim false sibs n = None.
Proof.
  induction n as [s v d m ch IH] using dnode_ind'. intros sibs Hw Hd. cbn [d_dflt] in Hd. subst d.
  rewrite wd_wf_unfold in Hw. rewrite rfc_view_unfold. cbv zeta.
  destruct (kinds_cases sch (DN s v true m ch)) as [[Ht [Hnp Hc]]|[[Ht [Hnp Hc]]|[Ht Hnp]]]; cbn [d_sid] in Hnp; rewrite Ht, ?Hnp in *.
  - apply andb_true_iff in Hw. destruct Hw as [Hw _]. apply andb_true_iff in Hw. destruct Hw as [Hw Hdv].
    apply andb_true_iff in Hw. destruct Hw as [_ He]. apply Bool.eqb_prop in He. cbn [negb orb] in Hdv.
    unfold rfc_reported. rewrite <- He, Hdv. reflexivity.
  - apply andb_true_iff in Hw. destruct Hw as [Hf Hall]. apply Bool.eqb_prop in Hf. symmetry in Hf.
    rewrite forallb_forall in Hf, Hall. rewrite Forall_forall in IH.
    rewrite (rfc_list_nil sch WdTrim false ch ch); [reflexivity|].
    intros x Hx. apply (IH x Hx ch (Hall x Hx) (Hf x Hx)).
  - apply andb_true_iff in Hw. destruct Hw as [Hw _]. discriminate.
Qed.

(* below a default container: a node with a printed descendant is printed itself (modes other than trim) *)
Lemma dflt_child_sp sch mode x sibs : nontrim mode = true ->
  wd_wf sch sibs x = true -> d_dflt x = true -> snd (sp sch mode false x) = true -> fst (sp sch mode false x) = true.
Proof.
  intros Hm Hw Hd. destruct x as [s v d m ch]. cbn [d_dflt] in Hd. subst d.
  rewrite wd_wf_unfold in Hw. rewrite sp_unfold. cbn [fst snd].
  destruct (kinds_cases sch (DN s v true m ch)) as [[Ht [Hnp Hc]]|[[Ht [Hnp Hc]]|[Ht Hnp]]]; cbn [d_sid] in Hnp; rewrite Ht, ?Hnp in *.
  - apply andb_true_iff in Hw. destruct Hw as [Hw _]. apply andb_true_iff in Hw. destruct Hw as [Hw _].
    apply andb_true_iff in Hw. destruct Hw as [Hn _]. destruct ch; [|discriminate]. cbn. discriminate.
  - intro Hs. unfold sp_top. cbn [d_dflt]. rewrite Hc. destruct mode; try discriminate; cbn [andb]; exact Hs.
  - apply andb_true_iff in Hw. destruct Hw as [Hw _]. discriminate.
Qed.

Lemma sp_list_snd_fst sch mode ke l :
  (forall x, In x l -> snd (sp sch mode ke x) = true -> fst (sp sch mode ke x) = true) ->
  snd (sp_list sch mode ke l) = fst (sp_list sch mode ke l).
Proof.
  induction l as [|x l IH]; intro H; cbn [sp_list fold_right]; [reflexivity|].
  fold (sp_list sch mode ke l). cbn [fst snd].
  rewrite (IH (fun y Hy => H y (or_intror Hy))).
  pose proof (H x (or_introl eq_refl)) as Hx.
  destruct (fst (sp sch mode ke x)); [reflexivity|].
  destruct (snd (sp sch mode ke x)); [specialize (Hx eq_refl); discriminate|reflexivity].
Qed.

(* the code and the RFC 6243 view agree on one node (LYD_PRINT_KEEPEMPTYCONT off) *)
Theorem wd_print_rfc sch mode n :
  forall sibs, wd_wf sch sibs n = true -> wd_print sch mode false n = rfc_view sch mode false sibs n.
Proof.
  induction n as [s v d m ch IH] using dnode_ind'. intros sibs Hw.
  pose proof Hw as Hw0. rewrite wd_wf_unfold in Hw.
  apply andb_true_iff in Hw. destruct Hw as [Hnode Hall].
  pose proof (lists_agree sch mode ch ch IH Hall) as Hlist.
  rewrite wd_print_unfold, rfc_view_unfold. cbv zeta. unfold should_print. rewrite sp_unfold. cbn [fst].
  rewrite sp_list_fst.
  destruct (kinds_cases sch (DN s v d m ch)) as [[Ht [Hnp Hc]]|[[Ht [Hnp Hc]]|[Ht Hnp]]]; cbn [d_sid] in Hnp; rewrite Ht, ?Hnp in *.
  - (* term *)
    apply andb_true_iff in Hnode. destruct Hnode as [Hnode Hdv]. apply andb_true_iff in Hnode. destruct Hnode as [Hn He].
    destruct ch; [|discriminate]. apply Bool.eqb_prop in He.
    unfold sp_top, tagged, rfc_reported, rfc_tagged. cbn [d_dflt d_sid existsb wd_list fold_right]. rewrite Ht, Hc, <- He.
    assert (Hs : is_state_data sch (DN s v d m []) = negb (si_config (sget sch s))).
    { unfold is_state_data. cbn [d_sid]. rewrite Hnp. reflexivity. }
    destruct mode, d; cbn [andb orb negb] in *; try reflexivity; try (rewrite Hdv; reflexivity).
    rewrite Hs. cbn [any_desc]. destruct (si_config (sget sch s)); reflexivity.
  - (* non-presence container *)
    apply Bool.eqb_prop in Hnode. cbn [orb]. rewrite <- Hlist.
    unfold sp_top, tagged. cbn [d_dflt d_sid]. rewrite Ht, Hnp, Hc. cbn [andb].
    destruct d.
    + (* default: all children are *)
      symmetry in Hnode. rewrite forallb_forall in Hnode.
      destruct mode.
      * (* explicit *) cbn [andb].
        rewrite (sp_list_snd_fst sch WdExplicit false ch), sp_list_fst, existsb_wd_list;
          [destruct (wd_list sch WdExplicit false ch); reflexivity|].
        rewrite forallb_forall in Hall. intros x Hx. apply (dflt_child_sp sch WdExplicit x ch eq_refl (Hall x Hx) (Hnode x Hx)).
      * (* trim *)
        rewrite Hlist. rewrite (rfc_list_nil sch WdTrim false ch ch); [reflexivity|].
        rewrite forallb_forall in Hall. intros x Hx. apply (dflt_trim_hidden sch x ch (Hall x Hx) (Hnode x Hx)).
      * cbn [andb].
        rewrite (sp_list_snd_fst sch WdAll false ch), sp_list_fst, existsb_wd_list;
          [destruct (wd_list sch WdAll false ch); reflexivity|].
        rewrite forallb_forall in Hall. intros x Hx. apply (dflt_child_sp sch WdAll x ch eq_refl (Hall x Hx) (Hnode x Hx)).
      * cbn [andb].
        rewrite (sp_list_snd_fst sch WdAllTag false ch), sp_list_fst, existsb_wd_list;
          [destruct (wd_list sch WdAllTag false ch); reflexivity|].
        rewrite forallb_forall in Hall. intros x Hx. apply (dflt_child_sp sch WdAllTag x ch eq_refl (Hall x Hx) (Hnode x Hx)).
      * cbn [andb].
        rewrite (sp_list_snd_fst sch WdImplTag false ch), sp_list_fst, existsb_wd_list;
          [destruct (wd_list sch WdImplTag false ch); reflexivity|].
        rewrite forallb_forall in Hall. intros x Hx. apply (dflt_child_sp sch WdImplTag x ch eq_refl (Hall x Hx) (Hnode x Hx)).
    + (* explicit container *)
      destruct mode; cbn [andb];
        try (rewrite existsb_wd_list; destruct (wd_list sch WdTrim false ch); reflexivity);
        (* not trim: some child is explicit, so it is reported *)
        (symmetry in Hnode; destruct (forallb_false_ex _ _ Hnode) as [c [Hcin Hcd]];
         rewrite forallb_forall in Hall;
         match goal with |- context [wd_list sch ?md false ch] =>
           pose proof (rfc_list_ne sch md false ch ch c Hcin (explicit_reported sch md c eq_refl ch (Hall c Hcin) Hcd)) as Hne;
           rewrite <- Hlist in Hne; destruct (wd_list sch md false ch); [contradiction|reflexivity]
         end).
  - (* list, presence container, anydata *)
    apply negb_true_iff in Hnode. subst d. rewrite <- Hlist.
    unfold sp_top, tagged. cbn [d_dflt d_sid andb]. rewrite Ht, Hnp. destruct mode; reflexivity.
Qed.

Theorem wd_forest_rfc sch mode f :
  wd_wf_forest sch f = true -> wd_print_forest sch mode false f = rfc_view_forest sch mode false f.
Proof.
  intro Hw. unfold rfc_view_forest. rewrite wd_print_forest_list, rfc_view_forest_list.
  apply lists_agree; [|exact Hw].
  apply Forall_forall. intros x _ sibs Hx. apply wd_print_rfc. exact Hx.
Qed.

(* the deviation wd-leaflist-partial-default: leaf-list ll with the defaults x, y and the single explicit instance x;
   trim mode prints nothing (lyd_is_default: x is SOME default value), RFC 6243 reports the instance (the leaf-list
   [x] differs from its default [x, y]; printing nothing reads back as [x, y]) *)
Definition wit_sch : schema :=
  [(0, mk_sinfo KLeafList None [] false true [[120]; [121]] [] false 0 None OBytes)].
Definition wit_tree : forest := [DN 0 [120] false [] []].

Lemma wd_trim_leaflist_refuted :
  canonb wit_sch None wit_tree = true /\
  wd_print_forest wit_sch WdTrim false wit_tree = [] /\
  rfc_view_forest wit_sch WdTrim false wit_tree = [DN 0 [120] false [] []].
Proof. vm_compute. repeat split. Qed.
