(* Properties_C11_restrict.v — property C11 (compilation gives constructs their RFC meaning), the part on range /
   length restrictions along typedef chains: theorem statements only.
   Model: Restrict.v (lys_compile_type_range, range_part_minmax, range_part_check_value_syntax,
   range_part_check_ascendancy of src/schema_compile_node.c and the hand-down of the compiled restriction in
   lys_compile_type; lyplg_type_validate_range is TypesMisc.validate_range), as of /repo commits 72878af and b6c3725;
   proofs: RestrictP.v.
   Vocabulary (Restrict.v): a restriction text of the grammar [range_text ty ps text] is a list ps of parts
   (boundary, optional second boundary; a boundary is min, max or a number) written as RFC 7950 range-arg / length-arg
   with any white space around the tokens (numbers: optional sign, digits, for decimal64 optionally a period and at
   most fraction-digits digits); [resolve ty base ps] replaces min / max by the smallest / largest value of the base
   restriction (of the built-in type when base = []); [legal]: min only as first and max only as last boundary, every
   number within the built-in type, parts ascending and disjoint, every part inside one part of the base. *)
From LY Require Import Base TypesMisc IntLex Dec64 Restrict RestrictP.
Local Open Scope N_scope.

(* C11_range_compile_iff: on every text of the grammar, compilation succeeds exactly for the legal restrictions, and
   the compiled parts are the parts written (keywords resolved against the base). The one shape excluded,
   x..M | max  with M the maximum, is accepted by the code although its parts overlap (refuted below). *)
Theorem C11_range_compile_iff :
  forall ty base ps text r',
    range_text ty ps text -> parts_sorted base -> ~ touching_max ty base ps ->
    (compile_range ty base text = Ok r' <-> r' = resolve ty base ps /\ legal ty base ps).
Proof. exact range_compile_iff. Qed.
Print Assumptions C11_range_compile_iff.

(* the same in the wording of RFC 7950 9.2.4 (the value set of the derived restriction is a subset of the value set
   of the base), for a base restriction whose parts do not touch (see C11_range_strictness_refuted for 1..5 | 6..9) *)
Theorem C11_range_compile_iff_subset :
  forall ty base ps text r',
    range_text ty ps text -> parts_sorted base -> parts_gapped base -> base <> [] -> ~ touching_max ty base ps ->
    (compile_range ty base text = Ok r' <->
     r' = resolve ty base ps /\ kw_ok ps = true /\ Forall (part_in_type ty) ps /\ parts_sorted r' /\ subset r' base).
Proof. exact range_compile_iff_subset. Qed.
Print Assumptions C11_range_compile_iff_subset.

(* C11_range_chain_intersection: along a chain of typedefs (None = a typedef without a restriction of its own) whose
   restriction texts are in the grammar, when the chain compiles, the effective restriction of the last type accepts
   exactly the values that every restriction of the chain accepts (and the base the chain started from); the
   effective parts are ascending and disjoint. [denote [] v] holds for every v (no restriction). *)
Theorem C11_range_chain_intersection :
  forall ty ls base rs eff,
    parts_sorted base -> chain_wf ty base ls rs -> compile_chain ty base rs = Ok eff ->
    parts_sorted eff /\
    forall v, denote eff v <-> denote base v /\ Forall (fun l => in_parts l v) (chain_levels ty base ls).
Proof. exact range_chain_intersection. Qed.
Print Assumptions C11_range_chain_intersection.

(* C11_range_rejects_widening, now for ANY argument text (in the grammar or not): whatever compiles under a restricted
   base has every part inside one part of the base, so its value set is a subset of the value set of the base.
   (Before commit 72878af this was refuted by the range 1 50 under 1..10.) *)
Theorem C11_range_rejects_widening :
  forall ty base text r,
    base <> [] -> compile_range ty base text = Ok r -> parts_inside r base /\ subset r base.
Proof. exact range_no_widening. Qed.
Print Assumptions C11_range_rejects_widening.

(* along ANY chain of typedefs that compiles (any texts), a value accepted by the last type is accepted by the
   restriction the chain started from: a derived type is never wider than any of its ancestors *)
Theorem C11_range_chain_never_widens :
  forall ty rs base eff,
    compile_chain ty base rs = Ok eff -> forall v, denote eff v -> denote base v.
Proof. exact chain_never_widens. Qed.
Print Assumptions C11_range_chain_never_widens.

(* for ANY text that compiles: the parts are non-empty intervals in ascending order (consecutive parts may touch, as in
   127 | max, see C11_range_rejects_illformed_refuted) and there is at least one *)
Theorem C11_range_compiled_ascending :
  forall ty base text r, compile_range ty base text = Ok r -> wsorted r /\ r <> [].
Proof. exact compile_range_wsorted. Qed.
Print Assumptions C11_range_compiled_ascending.

(* C11_range_validate_agrees, now for ANY text that compiles: lyplg_type_validate_range accepts exactly the values of the
   value set of the compiled parts. (Before commit 72878af this was refuted by the range 5 1.) *)
Theorem C11_range_validate_agrees :
  forall ty base text r v,
    compile_range ty base text = Ok r -> (validate_range r v = true <-> in_parts r v).
Proof. exact range_validate_agrees_any. Qed.
Print Assumptions C11_range_validate_agrees.

(* C11_range_no_overread: for ANY text and base, the check against the base never indexes parts[] beyond the array
   (the model's distinguished answer for that, E_OOB, is unreachable: the parser ends with parts_done = number of
   parts). Before commit b6c3725 this was refuted by the range 1|| under 1..3 | 5. *)
Theorem C11_range_no_overread : forall ty base text, compile_range ty base text <> Err E_OOB.
Proof. exact compile_range_never_oob. Qed.
Print Assumptions C11_range_no_overread.

(* for ANY argument text: the loop never runs out of the fuel the model gives it, and every stored part lies within the
   limits of the built-in type with lower <= upper bound *)
Theorem C11_range_total : forall ty base text, compile_range ty base text <> Err E_FUEL.
Proof. exact compile_range_never_fuel. Qed.
Print Assumptions C11_range_total.

Theorem C11_range_parts_in_type :
  forall ty base text r,
    Forall (part_ok ty) base -> compile_range ty base text = Ok r -> Forall (part_ok ty) r /\ r <> [].
Proof. exact compile_range_parts_ok. Qed.
Print Assumptions C11_range_parts_in_type.

(* C11_range_inherits_all_parts: typedefs that restate no range / length (for strings also those that add only a
   pattern: the C code copies the inherited length with lysc_range_dup) hand the restriction of their base down with
   ALL its parts, however many; such a level can be dropped from a chain without changing the result. Tie: chain cases
   with levels ~ and ~p of impl/t_restrict.c. *)
Theorem C11_range_inherits_all_parts :
  forall ty base k, compile_chain ty base (repeat None k) = Ok base.
Proof. exact chain_inherits_all. Qed.
Print Assumptions C11_range_inherits_all_parts.

Theorem C11_range_unrestricted_level_neutral :
  forall ty base rs1 rs2, compile_chain ty base (rs1 ++ None :: rs2) = compile_chain ty base (rs1 ++ rs2).
Proof. exact chain_skip_unrestricted. Qed.
Print Assumptions C11_range_unrestricted_level_neutral.

(* regression Example for a copy that keeps only the FIRST part (seeded change C11-5): under the length 1..3 | 6..8 | 12
   the inherited restriction accepts the length 6 and the narrowing 2..3 | 6..7 compiles; with the truncated copy
   [firstn 1] the length 6 is rejected and the same narrowing is refused - so first-part-only is refuted as inheritance *)
Example C11_range_first_part_copy_refuted :
  let base := [(1, 3); (6, 8); (12, 12)]%Z in
  let narrow := [50; 46; 46; 51; 32; 124; 32; 54; 46; 46; 55] in
  compile_chain RLen base [None] = Ok base /\
  validate_range base 6 = true /\ validate_range (firstn 1 base) 6 = false /\
  compile_chain RLen base [None; Some narrow] = Ok [(2, 3); (6, 7)]%Z /\
  compile_range RLen (firstn 1 base) narrow = Err E_BASE.
Proof. exact first_part_copy_differs. Qed.

(* regression: the witnesses of the statements that were refuted up to round 2 (1 50 under 1..10, 5 1, 1|| with and
   without a base, min5, 5max) are rejected now *)
Example C11_range_former_witnesses :
  compile_range (RInt U8) [(1, 10)%Z] [49; 32; 53; 48] = Err E_VALID /\
  compile_range (RInt U8) [] [53; 32; 49] = Err E_VALID /\
  compile_range (RInt U8) [(1, 3); (5, 5)]%Z [49; 124; 124] = Err E_VALID /\
  compile_range (RInt U8) [] [49; 124; 124] = Err E_VALID /\
  compile_range (RInt U8) [] [109; 105; 110; 53] = Err E_VALID /\
  compile_range (RInt U8) [] [53; 109; 97; 120] = Err E_VALID.
Proof. exact former_witnesses_rejected. Qed.

(* ---------- still refuted at full strength (the model follows the code; each witness behaves the same on the library) ---------- *)

(* texts outside the grammar (or with overlapping parts) that still compile: 1..9..3 (= 1..3), 127 | max for int8 (two
   equal parts), the decimal64
   boundary - (= 0), +5, 05, -0 for uint8, -.5 for decimal64 *)
Theorem C11_range_rejects_illformed_refuted :
  compile_range (RInt U8) [] [49; 46; 46; 57; 46; 46; 51] = Ok [(1, 3)%Z] /\
  compile_range (RInt I8) [] [49; 50; 55; 32; 124; 32; 109; 97; 120] = Ok [(127, 127); (127, 127)]%Z /\
  compile_range (RDec 1) [] [45] = Ok [(0, 0)%Z] /\
  compile_range (RInt I8) [] [43; 53] = Ok [(5, 5)%Z] /\
  compile_range (RInt I8) [] [48; 53] = Ok [(5, 5)%Z] /\
  compile_range (RInt U8) [] [45; 48] = Ok [(0, 0)%Z] /\
  compile_range (RDec 1) [] [45; 46; 53] = Ok [(-5, -5)%Z].
Proof. exact lenient_syntax. Qed.
Print Assumptions C11_range_rejects_illformed_refuted.

(* restrictions that are legal by RFC 7950 and do not compile: 3..7 under 1..5 | 6..9 (a subset as a value set),
   0..min for uint8 (min is only accepted as the first boundary), 1.50 for decimal64 with fraction-digits 1 *)
Theorem C11_range_strictness_refuted :
  (exists e, compile_range (RInt U8) [(1, 5); (6, 9)]%Z [51; 46; 46; 55] = Err e) /\
  subset [(3, 7)%Z] [(1, 5); (6, 9)]%Z /\
  (exists e, compile_range (RInt U8) [] [48; 46; 46; 109; 105; 110] = Err e) /\
  (exists e, compile_range (RDec 1) [] [49; 46; 53; 48] = Err e).
Proof. exact strict_rejections. Qed.
Print Assumptions C11_range_strictness_refuted.

(* the hypotheses of the main theorem are satisfiable by a non-trivial value: the decimal64 (fraction-digits 2) text
   SP min..-1.5 SP |0| SP 3.14 SP .. SP max LF  under the base -10.00..0 | 1..1000 *)
Example C11_range_hypotheses_satisfiable :
  range_text (RDec 2) [(BMin, Some (BNum (-150))); (BNum 0, None); (BNum 314, Some BMax)]
    [32; 109; 105; 110; 46; 46; 45; 49; 46; 53; 32; 124; 48; 124; 32; 51; 46; 49; 52; 32; 46; 46; 32; 109; 97; 120; 10] /\
  compile_range (RDec 2) [(-1000, 0); (100, 100000)]%Z
    [32; 109; 105; 110; 46; 46; 45; 49; 46; 53; 32; 124; 48; 124; 32; 51; 46; 49; 52; 32; 46; 46; 32; 109; 97; 120; 10]
  = Ok [(-1000, -150); (0, 0); (314, 100000)]%Z.
Proof. split; [exact example_text|exact example_compiles]. Qed.
