(* WithDefaults.v -- model of the with-defaults node selection of the data printers. MODEL ONLY (proofs: WithDefaultsP.v).

   Transcribed: lyd_node_should_print() (src/out.c), lyd_is_default() (src/tree_data_common.c), the with-defaults part of
   xml_print_meta() (src/printer_xml.c: which terms get the attribute ncwd:default=true), the child loop of
   xml_print_inner() / xml_print_node() (every node is asked separately; a skipped node hides its subtree).

   Spec side: RFC 6243 section 3 (report-all 3.1, trim 3.2, explicit 3.3, report-all-tagged 3.4) as the independent
   functions rfc_*: they speak about TERMINAL nodes (default-flagged? value = schema default? config?), lists and
   presence containers are data of their own and always reported, a non-presence container is reported exactly when
   something below it is (or the caller asked for empty containers, LYD_PRINT_KEEPEMPTYCONT).
   RFC 6243 predates leaf-list defaults (RFC 7950 7.7.2): the spec treats a leaf-list as ONE value, the set of its
   instances - it contains the schema default iff that set equals the set of default values; libyang asks every instance
   separately (lyd_is_default: equal to ANY default value). That is the known deviation wd-leaflist-partial-default. *)
From LY Require Import Base Tree.
Local Open Scope N_scope.

Inductive wdmode := WdExplicit | WdTrim | WdAll | WdAllTag | WdImplTag.

(* lyd_is_default(): a term whose value is one of the default values of its schema node *)
Definition is_default_val (sch : schema) (n : dnode) : bool :=
  match kind_of sch (d_sid n) with
  | KLeaf | KLeafList => existsb (beq_bytes (d_val n)) (si_dflts (sget sch (d_sid n)))
  | _ => false
  end.

Definition is_termnode (sch : schema) (n : dnode) : bool :=
  match kind_of sch (d_sid n) with KLeaf | KLeafList => true | _ => false end.

Definition is_container (sch : schema) (n : dnode) : bool :=
  match kind_of sch (d_sid n) with KCont _ => true | _ => false end.

(* LYD_TREE_DFS over the descendants of a node *)
Fixpoint any_desc (q : dnode -> bool) (n : dnode) {struct n} : bool :=
  match n with
  | DN _ _ _ _ ch =>
      (fix go (l : list dnode) : bool :=
         match l with [] => false | x :: l' => q x || any_desc q x || go l' end) ch
  end.

(* explicit mode, default config true node: printed only if it holds state data (a non-NP-container config false node) *)
Definition is_state_data (sch : schema) (n : dnode) : bool :=
  negb (is_np_cont sch (d_sid n)) && negb (si_config (sget sch (d_sid n))).

(* lyd_node_should_print(node, options), computed together with "some proper descendant would be printed" (the
   LYD_TREE_DFS of the default-container branch), so that the recursion is structural:
   sp n = (should_print n, exists a descendant e <> n with should_print e) *)
Fixpoint sp (sch : schema) (mode : wdmode) (keepempty : bool) (n : dnode) {struct n} : bool * bool :=
  match n with
  | DN s v d m ch =>
      let r := (fix go (l : list dnode) : bool * bool :=
                  match l with
                  | [] => (false, false)
                  | x :: l' => let a := sp sch mode keepempty x in
                               let b := go l' in
                               (fst a || fst b, fst a || snd a || snd b)
                  end) ch in
      let anyp := fst r in       (* a child would be printed *)
      let anyd := snd r in       (* a descendant would be printed *)
      (match mode with
       | WdTrim =>
           if d then false
           else if is_termnode sch n then negb (is_default_val sch n)
           else if is_np_cont sch s then (if keepempty then true else anyp)
           else true
       | _ =>
           if d && is_container sch n then (if keepempty then true else anyd)
           else if d && match mode with WdExplicit => true | _ => false end && si_config (sget sch s)
           then is_state_data sch n || any_desc (is_state_data sch) n
           else true
       end, anyd)
  end.

Definition should_print (sch : schema) (mode : wdmode) (keepempty : bool) (n : dnode) : bool :=
  fst (sp sch mode keepempty n).

(* xml_print_meta(): the term gets the attribute default=true *)
Definition tagged (sch : schema) (mode : wdmode) (n : dnode) : bool :=
  is_termnode sch n &&
  ((d_dflt n && match mode with WdAllTag | WdImplTag => true | _ => false end) ||
   (match mode with WdAllTag => true | _ => false end && is_default_val sch n)).

(* what the printer emits: xml_print_node() asks lyd_node_should_print() for every node; a node that is skipped hides
   its subtree; the default flag of a printed term is replaced by its tag *)
Fixpoint wd_print (sch : schema) (mode : wdmode) (keepempty : bool) (n : dnode) {struct n} : option dnode :=
  match n with
  | DN s v d m ch =>
      if should_print sch mode keepempty n
      then Some (DN s v (tagged sch mode n) m
                    ((fix go (l : list dnode) : list dnode :=
                        match l with
                        | [] => []
                        | x :: l' => match wd_print sch mode keepempty x with
                                     | Some y => y :: go l'
                                     | None => go l'
                                     end
                        end) ch))
      else None
  end.

Fixpoint wd_print_forest (sch : schema) (mode : wdmode) (keepempty : bool) (f : forest) : forest :=
  match f with
  | [] => []
  | x :: r => match wd_print sch mode keepempty x with
              | Some y => y :: wd_print_forest sch mode keepempty r
              | None => wd_print_forest sch mode keepempty r
              end
  end.

(* ------------------------------------------------------------------------------------------- *)
(* RFC 6243 (independent of the code above)                                                      *)
(* ------------------------------------------------------------------------------------------- *)
(* does the data node contain its schema default value: a leaf whose value is the default; a leaf-list (ONE value, the
   set of its instances sibs) whose instances are exactly the default values *)
Definition incl_vals (a b : list bytes) : bool := forallb (fun x => existsb (beq_bytes x) b) a.

Definition rfc_holds_default (sch : schema) (sibs : forest) (n : dnode) : bool :=
  let i := sget sch (d_sid n) in
  match si_kind i with
  | KLeaf => match si_dflts i with v :: _ => beq_bytes (d_val n) v | [] => false end
  | KLeafList =>
      match si_dflts i with
      | [] => false
      | ds => let vs := map d_val (filter (fun x => d_sid x =? d_sid n) sibs) in incl_vals vs ds && incl_vals ds vs
      end
  | _ => false
  end.

(* is the terminal node n (with siblings sibs) reported:
     3.1 report-all (and 3.4 tagged): every data node
     3.2 trim: not if it contains the schema default value (config or not)
     3.3 explicit: not if it was set by the server to the default (= it is default-flagged), except non-configuration
         nodes, which are reported *)
Definition rfc_reported (sch : schema) (mode : wdmode) (sibs : forest) (n : dnode) : bool :=
  match mode with
  | WdAll | WdAllTag | WdImplTag => true
  | WdTrim => negb (rfc_holds_default sch sibs n)
  | WdExplicit => negb (d_dflt n) || negb (si_config (sget sch (d_sid n)))
  end.

(* 3.4: the default attribute marks a node considered to contain default data: with the basic mode explicit that is a
   node not set by the client (LYD_PRINT_WD_IMPL_TAG), with the basic mode trim one holding the default value
   (LYD_PRINT_WD_ALL_TAG) *)
Definition rfc_tagged (sch : schema) (mode : wdmode) (sibs : forest) (n : dnode) : bool :=
  match mode with
  | WdImplTag => d_dflt n
  | WdAllTag => d_dflt n || rfc_holds_default sch sibs n
  | _ => false
  end.

(* the reported view of a tree: terms by rfc_reported, lists / presence containers / anydata always, a non-presence
   container iff it has reported content (or empty containers were asked for) *)
Fixpoint rfc_view (sch : schema) (mode : wdmode) (keepempty : bool) (sibs : forest) (n : dnode) {struct n} : option dnode :=
  match n with
  | DN s v d m ch =>
      let ch' := (fix go (l : list dnode) : list dnode :=
                    match l with
                    | [] => []
                    | x :: l' => match rfc_view sch mode keepempty ch x with
                                 | Some y => y :: go l'
                                 | None => go l'
                                 end
                    end) ch in
      if is_termnode sch n
      then (if rfc_reported sch mode sibs n then Some (DN s v (rfc_tagged sch mode sibs n) m []) else None)
      else if is_np_cont sch s
      then (if keepempty || match ch' with [] => false | _ => true end then Some (DN s v false m ch') else None)
      else Some (DN s v false m ch')
  end.

Fixpoint rfc_view_forest_aux (sch : schema) (mode : wdmode) (keepempty : bool) (sibs f : forest) : forest :=
  match f with
  | [] => []
  | x :: r => match rfc_view sch mode keepempty sibs x with
              | Some y => y :: rfc_view_forest_aux sch mode keepempty sibs r
              | None => rfc_view_forest_aux sch mode keepempty sibs r
              end
  end.
Definition rfc_view_forest (sch : schema) (mode : wdmode) (keepempty : bool) (f : forest) : forest :=
  rfc_view_forest_aux sch mode keepempty f f.

(* ------------------------------------------------------------------------------------------- *)
(* consistent flags: the hypothesis under which the code and RFC 6243 agree (validation establishes it:            *)
(* C07_dflt_flag_sound + the normal form)                                                                         *)
(*   - a term has no children; it is default-flagged only if it holds a default value; lyd_is_default agrees with *)
(*     the RFC notion (leaf-lists: no instance equal to SOME default value unless the whole leaf-list is default) *)
(*   - a non-presence container is default-flagged iff all its children are                                      *)
(*   - nothing else is default-flagged                                                                           *)
(* ------------------------------------------------------------------------------------------- *)
Definition isnil {A} (l : list A) : bool := match l with [] => true | _ => false end.

Fixpoint wd_wf (sch : schema) (sibs : forest) (n : dnode) {struct n} : bool :=
  match n with
  | DN s v d m ch =>
      (if is_termnode sch n
       then isnil ch && Bool.eqb (is_default_val sch n) (rfc_holds_default sch sibs n) && (negb d || is_default_val sch n)
       else if is_np_cont sch s then Bool.eqb d (forallb d_dflt ch)
       else negb d) &&
      (fix all (l : list dnode) : bool := match l with [] => true | x :: l' => wd_wf sch ch x && all l' end) ch
  end.
Definition wd_wf_forest (sch : schema) (f : forest) : bool := forallb (wd_wf sch f) f.
