(* RBTreeP.v - proofs about the red-black tree model RBTree.v (src/tree_data_sorted.c).
   Order hypotheses on the compare callback are Section hypotheses; they become explicit premises of
   the closed statements in Properties_C04_sorted.v. *)
From Coq Require Import Permutation.
From LY Require Import Base RBTree Sorted.

Ltac lnorm := repeat first [rewrite <- app_assoc | progress cbn [app]].

Section ListFacts.
Variable A : Type.

Fixpoint last_opt (l : list A) : option A :=
  match l with
  | [] => None
  | x :: l' => match l' with [] => Some x | _ :: _ => last_opt l' end
  end.

Lemma last_opt_none l : last_opt l = None -> l = [].
Proof.
  induction l as [|x l IH]; [reflexivity|]. cbn [last_opt]. destruct l as [|y l]; [discriminate|].
  intro H. apply IH in H. discriminate.
Qed.

Lemma last_opt_cons x l : last_opt (x :: l) = match last_opt l with Some y => Some y | None => Some x end.
Proof.
  cbn [last_opt]. destruct l as [|y l]; [reflexivity|].
  destruct (last_opt (y :: l)) eqn:E; [reflexivity|]. apply last_opt_none in E. discriminate.
Qed.

Lemma last_opt_app l1 l2 :
  last_opt (l1 ++ l2) = match last_opt l2 with Some y => Some y | None => last_opt l1 end.
Proof.
  induction l1 as [|x l1 IH].
  - cbn [app]. destruct (last_opt l2); reflexivity.
  - change ((x :: l1) ++ l2) with (x :: (l1 ++ l2)). rewrite !last_opt_cons, IH.
    destruct (last_opt l2); [reflexivity|]. destruct (last_opt l1); reflexivity.
Qed.

Lemma last_opt_snoc l x : last_opt (l ++ [x]) = Some x.
Proof. rewrite last_opt_app. reflexivity. Qed.

Lemma remove_nth_app (a : list A) k b : remove_nth (length a) (a ++ k :: b) = a ++ b.
Proof. induction a as [|y a IH]; cbn; [reflexivity|]. now rewrite IH. Qed.

Lemma nth_error_mid (a : list A) k b : nth_error (a ++ k :: b) (length a) = Some k.
Proof. induction a as [|y a IH]; cbn; [reflexivity|exact IH]. Qed.

End ListFacts.
Arguments last_opt {A}.

Section RBTreeP.
Variable A : Type.
Variable cmp : A -> A -> comparison.

Notation tree := (RBTree.tree A).
Notation path := (RBTree.path A).

Definition le (a b : A) : Prop := cmp a b <> Gt.

Hypothesis cmp_antisym : forall a b, cmp a b = CompOpp (cmp b a).
Hypothesis cmp_trans : forall a b c, le a b -> le b c -> le a c.

Lemma cmp_refl a : cmp a a = Eq.
Proof. pose proof (cmp_antisym a a) as H. destruct (cmp a a); cbn in H; congruence. Qed.

Lemma le_refl a : le a a.
Proof. unfold le. rewrite cmp_refl. discriminate. Qed.

Lemma le_total a b : le a b \/ le b a.
Proof. unfold le. rewrite (cmp_antisym b a). destruct (cmp a b); cbn; intuition discriminate. Qed.

Lemma not_le_gt a b : ~ le a b <-> cmp a b = Gt.
Proof. unfold le. destruct (cmp a b); intuition congruence. Qed.

Lemma gt_le a b : cmp a b = Gt -> le b a.
Proof. intro H. unfold le. rewrite (cmp_antisym b a), H. discriminate. Qed.

Lemma le_le_eq a b : le a b -> le b a -> cmp a b = Eq.
Proof. unfold le. rewrite (cmp_antisym b a). destruct (cmp a b); cbn; intuition congruence. Qed.

(* ---------- sorted lists and the stable insert ---------- *)
Fixpoint sorted (l : list A) : Prop :=
  match l with
  | [] => True
  | x :: l' => Forall (le x) l' /\ sorted l'
  end.

Lemma sorted_app l1 l2 :
  sorted (l1 ++ l2) <-> sorted l1 /\ sorted l2 /\ (forall a b, In a l1 -> In b l2 -> le a b).
Proof.
  induction l1 as [|x l1 IH]; cbn [app sorted].
  - split; [intro Hs; repeat split; [assumption|intros a b []]|intros (_ & Hs & _); exact Hs].
  - rewrite IH. rewrite Forall_app. split.
    + intros [[F1 F2] [S1 [S2 H]]]. repeat split; try assumption.
      intros a b [<-|Ha] Hb; [|auto]. rewrite Forall_forall in F2. auto.
    + intros [[F1 S1] [S2 H]]. repeat split; try assumption.
      * apply Forall_forall. intros b Hb. apply H; [left; reflexivity|assumption].
      * intros a b Ha Hb. apply H; [right|]; assumption.
Qed.

Notation stable_insert := (Sorted.stable_insert cmp).

Lemma si_app_gt l1 k l2 x : cmp k x = Gt -> stable_insert (l1 ++ k :: l2) x = stable_insert l1 x ++ k :: l2.
Proof.
  intro Hk. induction l1 as [|y l1 IH]; cbn [app stable_insert].
  - now rewrite Hk.
  - destruct (cmp y x); cbn [app]; try reflexivity; now rewrite IH.
Qed.

Lemma si_app_le l1 l2 x : Forall (fun y => le y x) l1 -> stable_insert (l1 ++ l2) x = l1 ++ stable_insert l2 x.
Proof.
  induction 1 as [|y l1 Hy _ IH]; cbn [app stable_insert]; [reflexivity|].
  unfold le in Hy. destruct (cmp y x); try congruence; now rewrite IH.
Qed.

(* full characterisation on a sorted list: x is placed after every element that is not greater and
   before every greater one; the other elements keep their order *)
Lemma stable_insert_split l x :
  sorted l -> exists l1 l2, l = l1 ++ l2 /\ stable_insert l x = l1 ++ x :: l2 /\
                            Forall (fun y => le y x) l1 /\ Forall (fun y => cmp y x = Gt) l2.
Proof.
  induction l as [|y l IH]; cbn [sorted stable_insert]; intros Hs.
  - exists [], []. repeat split; constructor.
  - destruct Hs as [Hy Hs]. destruct (cmp y x) eqn:E.
    + destruct (IH Hs) as (l1 & l2 & -> & -> & F1 & F2). exists (y :: l1), l2. repeat split; try assumption.
      constructor; [unfold le; congruence|assumption].
    + destruct (IH Hs) as (l1 & l2 & -> & -> & F1 & F2). exists (y :: l1), l2. repeat split; try assumption.
      constructor; [unfold le; congruence|assumption].
    + exists [], (y :: l). repeat split; [constructor|]. constructor; [assumption|].
      apply Forall_forall. intros z Hz. rewrite Forall_forall in Hy. specialize (Hy z Hz).
      apply not_le_gt. intro Hzx. apply (proj2 (not_le_gt y x) E). eapply cmp_trans; eassumption.
Qed.

Lemma stable_insert_sorted l x : sorted l -> sorted (stable_insert l x).
Proof.
  intro Hs. destruct (stable_insert_split l x Hs) as (l1 & l2 & -> & -> & F1 & F2).
  apply sorted_app in Hs. destruct Hs as (S1 & S2 & H12).
  apply sorted_app. split; [assumption|]. split.
  - cbn [sorted]. split; [|assumption]. eapply Forall_impl; [|exact F2]. intros a Ha. now apply gt_le.
  - intros a b Ha [<-|Hb].
    + rewrite Forall_forall in F1. auto.
    + auto.
Qed.

Lemma stable_insert_perm l x : Permutation (x :: l) (stable_insert l x).
Proof.
  induction l as [|y l IH]; cbn [stable_insert]; [reflexivity|].
  destruct (cmp y x); try reflexivity; (etransitivity; [apply perm_swap|apply perm_skip, IH]).
Qed.

Lemma remove_nth_sorted i l : sorted l -> sorted (remove_nth i l).
Proof.
  revert i. induction l as [|y l IH]; intros i Hs; [exact I|].
  destruct Hs as [Hy Hs]. destruct i as [|i]; cbn [remove_nth]; [assumption|].
  cbn [sorted]. split; [|auto].
  apply Forall_forall. intros z Hz. rewrite Forall_forall in Hy. apply Hy.
  clear - Hz. revert i Hz. induction l as [|w l IH]; intros i Hz; [destruct Hz|].
  destruct i; cbn in Hz; [right; assumption|]. destruct Hz as [<-|Hz]; [left; reflexivity|right; eauto].
Qed.

(* ---------- zipper and in-order sequence ---------- *)
Lemma inorder_plug f (t : tree) :
  inorder (plug f t) = match f with FL _ k r => inorder t ++ k :: inorder r | FR _ l k => inorder l ++ k :: inorder t end.
Proof. destruct f; reflexivity. Qed.

Lemma inorder_zip (p : path) (t : tree) : inorder (zip p t) = before p ++ inorder t ++ after p.
Proof.
  revert t. induction p as [|f p IH]; intro t; cbn [zip before after].
  - now rewrite app_nil_r.
  - rewrite IH. destruct f; cbn [plug inorder before after]; lnorm; reflexivity.
Qed.

Lemma size_inorder (t : tree) : size t = length (inorder t).
Proof. induction t as [|c l IHl k r IHr]; cbn; [reflexivity|]. rewrite app_length. cbn. lia. Qed.

Lemma inorder_blacken (t : tree) : inorder (blacken t) = inorder t.
Proof. destruct t; reflexivity. Qed.

Lemma before_app (p1 p2 : path) : before (p1 ++ p2) = before p2 ++ before p1.
Proof.
  induction p1 as [|f p1 IH]; cbn [app before]; [now rewrite app_nil_r|].
  destruct f; rewrite IH; lnorm; reflexivity.
Qed.

Lemma after_app (p1 p2 : path) : after (p1 ++ p2) = after p1 ++ after p2.
Proof.
  induction p1 as [|f p1 IH]; cbn [app after]; [reflexivity|].
  destruct f; rewrite IH; lnorm; reflexivity.
Qed.

(* ---------- rb_insert: in-order sequence ---------- *)
Lemma descend_inorder (t : tree) x p mx :
  sorted (inorder t) ->
  before (fst (descend cmp t x p mx)) ++ x :: after (fst (descend cmp t x p mx))
  = before p ++ stable_insert (inorder t) x ++ after p.
Proof.
  revert p mx. induction t as [|c l IHl k r IHr]; intros p mx Hs; cbn [descend inorder].
  - reflexivity.
  - cbn [inorder] in Hs. apply sorted_app in Hs. destruct Hs as (Sl & Skr & Hlk).
    cbn [sorted] in Skr. destruct Skr as [Hkr Sr].
    assert (Hgo_right : le k x ->
      before (fst (descend cmp r x (FR c l k :: p) mx)) ++ x :: after (fst (descend cmp r x (FR c l k :: p) mx))
      = before p ++ stable_insert (inorder l ++ k :: inorder r) x ++ after p).
    { intro Hkx. rewrite (IHr _ _ Sr). cbn [before after].
      replace (inorder l ++ k :: inorder r) with ((inorder l ++ [k]) ++ inorder r) by (lnorm; reflexivity).
      rewrite si_app_le; [lnorm; reflexivity|].
      apply Forall_app. split; [|constructor; [assumption|constructor]].
      apply Forall_forall. intros y Hy. eapply cmp_trans; [|exact Hkx]. apply Hlk; [assumption|left; reflexivity]. }
    destruct (cmp k x) eqn:E.
    + apply Hgo_right. unfold le. congruence.
    + apply Hgo_right. unfold le. congruence.
    + rewrite (IHl _ _ Sl). cbn [before after]. rewrite si_app_gt by assumption. lnorm. reflexivity.
Qed.

Lemma path_ind2 (P : path -> Prop) :
  P [] -> (forall f, P [f]) -> (forall f g rest, P rest -> P (f :: g :: rest)) -> forall p, P p.
Proof.
  intros H0 H1 H2. fix IH 1. intros [|f [|g rest]]; [exact H0|exact (H1 f)|exact (H2 f g rest (IH rest))].
Qed.

Lemma ins_color_inorder (p : path) (t t' : tree) :
  ins_color p t = Some t' -> inorder t' = before p ++ inorder t ++ after p.
Proof.
  revert t t'. induction p as [|f|f g rest IH] using path_ind2; intros t t' H.
  - cbn in H. injection H as <-. cbn. now rewrite app_nil_r.
  - cbn [ins_color] in H. destruct (frame_color f); [discriminate|]. injection H as <-. apply (inorder_zip [f] t).
  - cbn [ins_color] in H. destruct (frame_color f) eqn:Ef.
    2:{ injection H as <-. apply (inorder_zip (f :: g :: rest) t). }
    destruct g as [gc gk gr|gc gl gk].
    + destruct (is_red gr) eqn:Er.
      * apply IH in H. rewrite H. destruct f; cbn [plug frame_set inorder before after];
          rewrite ?inorder_blacken; lnorm; reflexivity.
      * destruct f as [pc pk pr|pc pl pk].
        -- injection H as <-. rewrite inorder_zip. cbn [inorder before after]. lnorm. reflexivity.
        -- destruct t as [|c l k r]; [discriminate|]. injection H as <-.
           rewrite inorder_zip. cbn [inorder before after]. lnorm. reflexivity.
    + destruct (is_red gl) eqn:Er.
      * apply IH in H. rewrite H. destruct f; cbn [plug frame_set inorder before after];
          rewrite ?inorder_blacken; lnorm; reflexivity.
      * destruct f as [pc pk pr|pc pl pk].
        -- destruct t as [|c l k r]; [discriminate|]. injection H as <-.
           rewrite inorder_zip. cbn [inorder before after]. lnorm. reflexivity.
        -- injection H as <-. rewrite inorder_zip. cbn [inorder before after]. lnorm. reflexivity.
Qed.

Theorem rb_insert_inorder (t t' : tree) x :
  sorted (inorder t) -> rb_insert cmp t x = Some t' -> inorder t' = stable_insert (inorder t) x.
Proof.
  unfold rb_insert. intros Hs H.
  destruct (ins_color (fst (descend cmp t x [] true)) (Node Red Leaf x Leaf)) as [t1|] eqn:E; [|discriminate].
  cbn in H. injection H as <-. rewrite inorder_blacken. apply ins_color_inorder in E. rewrite E.
  cbn [inorder app]. rewrite (descend_inorder t x [] true Hs). cbn. now rewrite app_nil_r.
Qed.

(* ---------- red-black shape invariant ---------- *)
(* rbh t n: no red node of t has a red child and every path from the root of t to a leaf has n black nodes
   (the root of t may be red) *)
Fixpoint rbh (t : tree) (n : nat) : Prop :=
  match t with
  | Leaf => n = 0
  | Node Red l _ r => is_red l = false /\ is_red r = false /\ rbh l n /\ rbh r n
  | Node Black l _ r => match n with 0 => False | S m => rbh l m /\ rbh r m end
  end.

(* shape invariant of a whole tree: black root (or empty), rbh *)
Definition rb_shape (t : tree) : Prop := is_red t = false /\ exists n, rbh t n.

(* the full invariant: search order + shape *)
Definition rb_inv (t : tree) : Prop := sorted (inorder t) /\ rb_shape t.

Definition hd_black (p : path) : Prop :=
  match p with [] => False | f :: _ => frame_color f = Black end.

(* the path is that of a red-black tree whose hole takes a subtree of black height n *)
Fixpoint pinv (p : path) (n : nat) : Prop :=
  match p with
  | [] => True
  | FL Black _ r :: p' => rbh r n /\ pinv p' (S n)
  | FR Black l _ :: p' => rbh l n /\ pinv p' (S n)
  | FL Red _ r :: p' => rbh r n /\ is_red r = false /\ hd_black p' /\ pinv p' n
  | FR Red l _ :: p' => rbh l n /\ is_red l = false /\ hd_black p' /\ pinv p' n
  end.

(* t may stand at p without a red-red conflict with its parent (and the root is not red) *)
Definition ok_under (p : path) (t : tree) : Prop := hd_black p \/ is_red t = false.

Lemma rbh_red_blacken (t : tree) n : is_red t = true -> rbh t n -> rbh (blacken t) (S n).
Proof. destruct t as [|[] l k r]; cbn; try discriminate. intros _ (_ & _ & Hl & Hr). split; assumption. Qed.

Lemma blacken_not_red (t : tree) : is_red t = false -> blacken t = t.
Proof. destruct t as [|[] l k r]; cbn; try discriminate; reflexivity. Qed.

Lemma is_red_blacken (t : tree) : is_red (blacken t) = false.
Proof. destruct t; reflexivity. Qed.

Lemma rb_shape_blacken (t : tree) n : rbh t n -> rb_shape (blacken t).
Proof.
  intro H. split; [apply is_red_blacken|]. destruct (is_red t) eqn:E.
  - exists (S n). now apply rbh_red_blacken.
  - rewrite blacken_not_red by assumption. now exists n.
Qed.

Lemma zip_shape (p : path) : forall (t : tree) n, pinv p n -> rbh t n -> ok_under p t -> rb_shape (zip p t).
Proof.
  induction p as [|f p IH]; intros t n Hp Ht Hok; cbn [zip].
  - destruct Hok as [[]|Hok]. split; [assumption|now exists n].
  - destruct f as [[] k r|[] l k]; cbn [pinv] in Hp.
    + destruct Hp as (Hr & Hnr & Hb & Hp). destruct Hok as [Hok|Hok]; [discriminate Hok|].
      apply (IH _ n Hp); [cbn; auto|left; assumption].
    + destruct Hp as (Hr & Hp). apply (IH _ (S n) Hp); [cbn; auto|right; reflexivity].
    + destruct Hp as (Hr & Hnr & Hb & Hp). destruct Hok as [Hok|Hok]; [discriminate Hok|].
      apply (IH _ n Hp); [cbn; auto|left; assumption].
    + destruct Hp as (Hr & Hp). apply (IH _ (S n) Hp); [cbn; auto|right; reflexivity].
Qed.

Lemma descend_pinv (t : tree) x : forall p mx n,
  pinv p n -> rbh t n -> ok_under p t -> pinv (fst (descend cmp t x p mx)) 0.
Proof.
  induction t as [|c l IHl k r IHr]; intros p mx n Hp Ht Hok; cbn [descend].
  - cbn in Ht. now subst n.
  - destruct c; cbn [rbh] in Ht.
    + destruct Ht as (Hnl & Hnr & Hl & Hr).
      assert (Hb : hd_black p) by (destruct Hok as [Hok|Hok]; [assumption|discriminate Hok]).
      destruct (cmp k x).
      * apply (IHr _ _ n); [cbn; auto|assumption|right; assumption].
      * apply (IHr _ _ n); [cbn; auto|assumption|right; assumption].
      * apply (IHl _ _ n); [cbn; auto|assumption|right; assumption].
    + destruct n as [|m]; [destruct Ht|]. destruct Ht as (Hl & Hr).
      destruct (cmp k x).
      * apply (IHr _ _ m); [cbn; auto|assumption|left; reflexivity].
      * apply (IHr _ _ m); [cbn; auto|assumption|left; reflexivity].
      * apply (IHl _ _ m); [cbn; auto|assumption|left; reflexivity].
Qed.

Lemma ins_color_shape (p : path) : forall (t : tree) n,
  pinv p n -> rbh t n -> is_red t = true -> exists t' m, ins_color p t = Some t' /\ rbh t' m.
Proof.
  induction p as [|f|f g rest IH] using path_ind2; intros t n Hp Ht Hred.
  - exists t, n. split; [reflexivity|assumption].
  - destruct f as [[] k r|[] l k]; cbn [pinv] in Hp.
    + destruct Hp as (_ & _ & [] & _).
    + destruct Hp as (Hr & _). eexists _, (S n). split; [reflexivity|]. cbn. auto.
    + destruct Hp as (_ & _ & [] & _).
    + destruct Hp as (Hl & _). eexists _, (S n). split; [reflexivity|]. cbn. auto.
  - cbn [ins_color]. destruct (frame_color f) eqn:Ef.
    2:{ (* black parent: nothing to repair *)
      assert (Hs : rb_shape (zip (f :: g :: rest) t)).
      { apply (zip_shape _ _ n Hp Ht). left. exact Ef. }
      destruct Hs as (_ & m & Hm). eexists _, m. split; [reflexivity|exact Hm]. }
    (* red parent: the grandparent is black *)
    assert (Hg : frame_color g = Black /\ exists o, (o = match f with FL _ _ r => r | FR _ l _ => l end) /\
                   rbh o n /\ is_red o = false /\ pinv (g :: rest) n).
    { destruct f as [[] k r|[] l k]; cbn in Ef; try discriminate; cbn [pinv] in Hp;
        destruct Hp as (Ho & Hno & Hb & Hp); (split; [exact Hb|eexists; repeat split; eassumption]). }
    destruct Hg as (Hgc & o & Ho & Hoh & Hon & Hpg).
    destruct g as [gc gk gr|gc gl gk]; cbn in Hgc; subst gc; cbn [pinv] in Hpg; destruct Hpg as (Hu & Hprest).
    + destruct (is_red gr) eqn:Er.
      * (* red uncle: recolour and continue from the grandparent *)
        apply (IH _ (S n) Hprest); [|reflexivity].
        cbn [rbh]. split; [destruct f; reflexivity|]. split; [apply is_red_blacken|].
        split; [|now apply rbh_red_blacken].
        destruct f; cbn [plug frame_set rbh]; subst o; auto.
      * destruct f as [pc pk pr|pc pl pk]; subst o.
        -- assert (Hs : rb_shape (zip rest (Node Black t pk (Node Red pr gk gr)))).
           { apply (zip_shape _ _ (S n) Hprest); [cbn; auto 10|right; reflexivity]. }
           destruct Hs as (_ & m & Hm). eexists _, m. split; [reflexivity|exact Hm].
        -- destruct t as [|[] l k r]; try discriminate Hred. cbn in Ef. subst pc.
           cbn [rbh] in Ht. destruct Ht as (Hnl & Hnr & Hl & Hr).
           assert (Hs : rb_shape (zip rest (Node Black (Node Red pl pk l) k (Node Red r gk gr)))).
           { apply (zip_shape _ _ (S n) Hprest); [cbn; auto 10|right; reflexivity]. }
           destruct Hs as (_ & m & Hm). eexists _, m. split; [reflexivity|exact Hm].
    + destruct (is_red gl) eqn:Er.
      * apply (IH _ (S n) Hprest); [|reflexivity].
        cbn [rbh]. split; [apply is_red_blacken|]. split; [destruct f; reflexivity|].
        split; [now apply rbh_red_blacken|].
        destruct f; cbn [plug frame_set rbh]; subst o; auto.
      * destruct f as [pc pk pr|pc pl pk]; subst o.
        -- destruct t as [|[] l k r]; try discriminate Hred. cbn in Ef. subst pc.
           cbn [rbh] in Ht. destruct Ht as (Hnl & Hnr & Hl & Hr).
           assert (Hs : rb_shape (zip rest (Node Black (Node Red gl gk l) k (Node Red r pk pr)))).
           { apply (zip_shape _ _ (S n) Hprest); [cbn; auto 10|right; reflexivity]. }
           destruct Hs as (_ & m & Hm). eexists _, m. split; [reflexivity|exact Hm].
        -- assert (Hs : rb_shape (zip rest (Node Black (Node Red gl gk pl) pk t))).
           { apply (zip_shape _ _ (S n) Hprest); [cbn; auto 10|right; reflexivity]. }
           destruct Hs as (_ & m & Hm). eexists _, m. split; [reflexivity|exact Hm].
Qed.

Theorem rb_insert_shape (t : tree) x : rb_shape t -> exists t', rb_insert cmp t x = Some t' /\ rb_shape t'.
Proof.
  intros (Hnr & n & Hn). unfold rb_insert.
  assert (Hp : pinv (fst (descend cmp t x [] true)) 0).
  { apply (descend_pinv t x [] true n); [exact I|assumption|right; assumption]. }
  destruct (ins_color_shape _ (Node Red Leaf x Leaf) 0 Hp) as (t1 & m & -> & Hm); [cbn; auto|reflexivity|].
  eexists. split; [reflexivity|]. eapply rb_shape_blacken; eassumption.
Qed.

Theorem rb_insert_inv (t : tree) x :
  rb_inv t -> exists t', rb_insert cmp t x = Some t' /\ rb_inv t' /\ inorder t' = stable_insert (inorder t) x.
Proof.
  intros (Hs & Hsh). destruct (rb_insert_shape t x Hsh) as (t' & E & Hsh').
  exists t'. pose proof (rb_insert_inorder t t' x Hs E) as Hi.
  split; [exact E|]. split; [|exact Hi]. split; [|exact Hsh']. rewrite Hi. now apply stable_insert_sorted.
Qed.

(* ---------- rb_remove: in-order sequence ---------- *)
Lemma some_inj (a b : tree) : Some a = Some b -> a = b.
Proof. congruence. Qed.
Definition res_tree (r : fix_res A) : tree := match r with Up s => s | Stop s => s end.

Lemma fix_left_inorder pc (t : tree) pk tmp res :
  fix_left pc t pk tmp = Some res -> inorder (res_tree res) = inorder t ++ pk :: inorder tmp.
Proof.
  unfold fix_left. destruct tmp as [|tc tl tk tr]; [discriminate|].
  destruct (negb (is_red tl) && negb (is_red tr)).
  - intros [= <-]. reflexivity.
  - destruct (negb (is_red tr)).
    + destruct tl as [|c2 tll tlk tlr]; [discriminate|]. intros [= <-]. cbn [res_tree inorder]. lnorm. reflexivity.
    + intros [= <-]. cbn [res_tree inorder]. rewrite inorder_blacken. lnorm. reflexivity.
Qed.

Lemma fix_right_inorder pc tmp pk (t : tree) res :
  fix_right pc tmp pk t = Some res -> inorder (res_tree res) = inorder tmp ++ pk :: inorder t.
Proof.
  unfold fix_right. destruct tmp as [|tc tl tk tr]; [discriminate|].
  destruct (negb (is_red tl) && negb (is_red tr)).
  - intros [= <-]. reflexivity.
  - destruct (negb (is_red tl)).
    + destruct tr as [|c2 trl trk trr]; [discriminate|]. intros [= <-]. cbn [res_tree inorder]. lnorm. reflexivity.
    + intros [= <-]. cbn [res_tree inorder]. rewrite inorder_blacken. lnorm. reflexivity.
Qed.

Lemma rem_color_inorder (p : path) : forall (t t' : tree),
  rem_color p t = Some t' -> inorder t' = before p ++ inorder t ++ after p.
Proof.
  induction p as [|f rest IH]; intros t t' H; cbn [rem_color] in H.
  - destruct (is_red t); injection H as <-; cbn [zip before after app]; rewrite inorder_blacken, app_nil_r; reflexivity.
  - destruct (is_red t) eqn:Er.
    { apply some_inj in H. subst t'. rewrite (inorder_zip (f :: rest)), inorder_blacken. reflexivity. }
    destruct f as [pc pk pr|pc pl pk].
    + destruct pr as [|[] tl tk tr]; [discriminate| |].
      * destruct (fix_left Red t pk tl) as [[s|s]|] eqn:Ef; [| |discriminate];
          apply fix_left_inorder in Ef; cbn [res_tree] in Ef; apply some_inj in H; subst t';
          rewrite ?inorder_blacken, (inorder_zip (FL Black tk tr :: rest)), ?inorder_blacken, Ef;
          cbn [before after inorder]; lnorm; reflexivity.
      * destruct (fix_left pc t pk (Node Black tl tk tr)) as [[s|s]|] eqn:Ef; [| |discriminate];
          apply fix_left_inorder in Ef; cbn [res_tree inorder] in Ef.
        -- apply IH in H. rewrite H, Ef. cbn [before after inorder]. lnorm. reflexivity.
        -- apply some_inj in H. subst t'. rewrite inorder_blacken, inorder_zip, Ef. cbn [before after inorder]. lnorm. reflexivity.
    + destruct pl as [|[] tl tk tr]; [discriminate| |].
      * destruct (fix_right Red tr pk t) as [[s|s]|] eqn:Ef; [| |discriminate];
          apply fix_right_inorder in Ef; cbn [res_tree] in Ef; apply some_inj in H; subst t';
          rewrite ?inorder_blacken, (inorder_zip (FR Black tl tk :: rest)), ?inorder_blacken, Ef;
          cbn [before after inorder]; lnorm; reflexivity.
      * destruct (fix_right pc (Node Black tl tk tr) pk t) as [[s|s]|] eqn:Ef; [| |discriminate];
          apply fix_right_inorder in Ef; cbn [res_tree inorder] in Ef.
        -- apply IH in H. rewrite H, Ef. cbn [before after inorder]. lnorm. reflexivity.
        -- apply some_inj in H. subst t'. rewrite inorder_blacken, inorder_zip, Ef. cbn [before after inorder]. lnorm. reflexivity.
Qed.

Lemma rem_finish_inorder c (p : path) (child t' : tree) :
  rem_finish c p child = Some t' -> inorder t' = before p ++ inorder child ++ after p.
Proof.
  destruct c; cbn [rem_finish]; intro H.
  - injection H as <-. apply inorder_zip.
  - now apply rem_color_inorder.
Qed.

Lemma min_path_inorder (t : tree) : forall (p ip : path) sc sk sr,
  min_path t p = Some (ip, sc, sk, sr) ->
  before ip = before p /\ sk :: inorder sr ++ after ip = inorder t ++ after p.
Proof.
  induction t as [|c l IHl k r _]; intros p ip sc sk sr H; cbn [min_path] in H; [discriminate|].
  destruct l as [|lc ll lk lr].
  - injection H as <- <- <- <-. split; reflexivity.
  - apply IHl in H. destruct H as [H1 H2]. cbn [before after] in H1, H2. split; [exact H1|].
    rewrite H2. cbn [inorder]. lnorm. reflexivity.
Qed.

Lemma min_path_app (t : tree) : forall q : path,
  min_path t q = match min_path t [] with
                 | Some (ip, sc, sk, sr) => Some (ip ++ q, sc, sk, sr)
                 | None => None
                 end.
Proof.
  induction t as [|c l IHl k r _]; intro q; cbn [min_path]; [reflexivity|].
  destruct l as [|lc ll lk lr]; [reflexivity|].
  rewrite (IHl (FL c k r :: q)), (IHl [FL c k r]).
  destruct (min_path (Node lc ll lk lr) []) as [[[[ip sc] sk] sr]|]; [|reflexivity].
  rewrite <- app_assoc. reflexivity.
Qed.

Lemma min_path_node c (l : tree) k r (q : path) : min_path (Node c l k r) q <> None.
Proof.
  revert c k r q. induction l as [|lc ll IHl lk lr _]; intros c k r q; cbn [min_path]; [discriminate|].
  apply IHl.
Qed.

Lemma rb_remove_at_inorder (p : path) c (l : tree) k r t' :
  rb_remove_at p (Node c l k r) = Some t' -> inorder t' = before p ++ (inorder l ++ inorder r) ++ after p.
Proof.
  cbn [rb_remove_at]. destruct l as [|lc ll lk lr].
  - intro H. apply rem_finish_inorder in H. exact H.
  - destruct r as [|rc rl rk rr].
    + intro H. apply rem_finish_inorder in H. rewrite H, app_nil_r. reflexivity.
    + destruct (min_path (Node rc rl rk rr) []) as [[[[ip sc] sk] sr]|] eqn:E; [|discriminate].
      intro H. apply rem_finish_inorder in H. apply min_path_inorder in E. destruct E as [E1 E2].
      cbn [before after] in E1, E2. rewrite app_nil_r in E2.
      rewrite H, before_app, after_app, E1, <- E2. cbn [before after]. lnorm. reflexivity.
Qed.

Lemma locate_spec (t : tree) : forall i (p p' : path) nd,
  locate t i p = Some (p', nd) ->
  exists c l k r, nd = Node c l k r /\
    before p' ++ inorder nd ++ after p' = before p ++ inorder t ++ after p /\
    length (before p' ++ inorder l) = length (before p) + i.
Proof.
  induction t as [|c l IHl k r IHr]; intros i p p' nd H; cbn [locate] in H; [discriminate|].
  destruct (Nat.compare i (size l)) eqn:E.
  - apply Nat.compare_eq in E. injection H as <- <-. exists c, l, k, r. repeat split.
    rewrite app_length, <- size_inorder. lia.
  - apply IHl in H. destruct H as (c' & l' & k' & r' & -> & H1 & H2). exists c', l', k', r'.
    split; [reflexivity|]. split; [rewrite H1; cbn [before after inorder]; lnorm; reflexivity|exact H2].
  - apply Nat.compare_gt_iff in E. apply IHr in H. destruct H as (c' & l' & k' & r' & -> & H1 & H2).
    exists c', l', k', r'. split; [reflexivity|].
    split; [rewrite H1; cbn [before after inorder]; lnorm; reflexivity|].
    rewrite H2. cbn [before]. rewrite !app_length, <- size_inorder. cbn [length]. lia.
Qed.

Lemma locate_some (t : tree) : forall i (p : path), i < size t -> exists p' nd, locate t i p = Some (p', nd).
Proof.
  induction t as [|c l IHl k r IHr]; intros i p Hi; cbn [size] in Hi; [lia|]. cbn [locate].
  destruct (Nat.compare i (size l)) eqn:E.
  - eexists _, _. reflexivity.
  - apply Nat.compare_lt_iff in E. apply IHl. exact E.
  - apply Nat.compare_gt_iff in E. apply IHr. lia.
Qed.

Theorem rb_remove_inorder (t t' : tree) i :
  rb_remove t i = Some t' -> inorder t' = remove_nth i (inorder t).
Proof.
  unfold rb_remove. destruct (locate t i []) as [[p nd]|] eqn:E; [|discriminate].
  apply locate_spec in E. destruct E as (c & l & k & r & -> & H1 & H2). intro H.
  apply rb_remove_at_inorder in H. cbn [before after length app] in H1, H2. rewrite app_nil_r in H1. change (0 + i) with i in H2.
  rewrite <- H1, H. cbn [inorder].
  replace (before p ++ (inorder l ++ k :: inorder r) ++ after p)
    with ((before p ++ inorder l) ++ k :: (inorder r ++ after p)) by (lnorm; reflexivity).
  rewrite <- H2, remove_nth_app. lnorm. reflexivity.
Qed.

(* ---------- rb_remove: shape invariant; the unchecked dereferences are never NULL ---------- *)
(* black height of the subtree of a parent of colour pc whose children have black height S n *)
Definition hp (pc : color) (n : nat) : nat := match pc with Black => S (S n) | Red => S n end.

(* the focus subtree t is one black node short of S n (a red root will simply be blackened) *)
Definition short (t : tree) (n : nat) : Prop := if is_red t then rbh (blacken t) (S n) else rbh t n.

Lemma short_of_rbh (t : tree) n : rbh t n -> short t n.
Proof. intro H. unfold short. destruct (is_red t) eqn:E; [now apply rbh_red_blacken|exact H]. Qed.

Ltac shape_tac :=
  cbn [rbh is_red blacken]; repeat match goal with |- _ /\ _ => split end;
  try assumption; try reflexivity; try (intros; discriminate); try (intros; reflexivity).

Definition fix_spec (pc : color) (n : nat) (res : fix_res A) : Prop :=
  match res with
  | Up s => exists m, hp pc n = S m /\ short s m /\ is_red s = match pc with Red => true | Black => false end
  | Stop s => rbh s (hp pc n) /\ (pc = Black -> is_red s = false)
  end.

Lemma fix_left_shape pc (t : tree) pk tmp n :
  rbh t n -> rbh tmp (S n) -> is_red tmp = false ->
  exists res, fix_left pc t pk tmp = Some res /\ fix_spec pc n res.
Proof.
  intros Ht Htmp Hnr. destruct tmp as [|[] tl tk tr]; cbn in Htmp, Hnr; try discriminate.
  destruct Htmp as (Hl & Hr). unfold fix_left.
  destruct (is_red tl) eqn:El; destruct (is_red tr) eqn:Er; cbn [negb andb].
  - eexists. split; [reflexivity|]. cbn [fix_spec]. pose proof (rbh_red_blacken tr n Er Hr) as Hb.
    pose proof (is_red_blacken tr) as Hnb.
    destruct pc; cbn [hp]; shape_tac.
  - destruct tl as [|[] tll tlk tlr]; try discriminate El. cbn [rbh] in Hl. destruct Hl as (_ & _ & Hll & Hlr).
    eexists. split; [reflexivity|]. cbn [fix_spec].
    destruct pc; cbn [hp]; shape_tac.
  - eexists. split; [reflexivity|]. cbn [fix_spec]. pose proof (rbh_red_blacken tr n Er Hr) as Hb.
    pose proof (is_red_blacken tr) as Hnb.
    destruct pc; cbn [hp]; shape_tac.
  - eexists. split; [reflexivity|]. cbn [fix_spec]. destruct pc; cbn [hp].
    + exists n. split; [reflexivity|]. split; [|reflexivity]. unfold short. cbn [is_red]. shape_tac.
    + exists (S n). split; [reflexivity|]. split; [|reflexivity]. unfold short. cbn [is_red]. shape_tac.
Qed.

Lemma fix_right_shape pc tmp pk (t : tree) n :
  rbh t n -> rbh tmp (S n) -> is_red tmp = false ->
  exists res, fix_right pc tmp pk t = Some res /\ fix_spec pc n res.
Proof.
  intros Ht Htmp Hnr. destruct tmp as [|[] tl tk tr]; cbn in Htmp, Hnr; try discriminate.
  destruct Htmp as (Hl & Hr). unfold fix_right.
  destruct (is_red tl) eqn:El; destruct (is_red tr) eqn:Er; cbn [negb andb].
  - eexists. split; [reflexivity|]. cbn [fix_spec]. pose proof (rbh_red_blacken tl n El Hl) as Hb.
    pose proof (is_red_blacken tl) as Hnb.
    destruct pc; cbn [hp]; shape_tac.
  - eexists. split; [reflexivity|]. cbn [fix_spec]. pose proof (rbh_red_blacken tl n El Hl) as Hb.
    pose proof (is_red_blacken tl) as Hnb.
    destruct pc; cbn [hp]; shape_tac.
  - destruct tr as [|[] trl trk trr]; try discriminate Er. cbn [rbh] in Hr. destruct Hr as (_ & _ & Hrl & Hrr).
    eexists. split; [reflexivity|]. cbn [fix_spec].
    destruct pc; cbn [hp]; shape_tac.
  - eexists. split; [reflexivity|]. cbn [fix_spec]. destruct pc; cbn [hp].
    + exists n. split; [reflexivity|]. split; [|reflexivity]. unfold short. cbn [is_red]. shape_tac.
    + exists (S n). split; [reflexivity|]. split; [|reflexivity]. unfold short. cbn [is_red]. shape_tac.
Qed.

Lemma rb_shape_blacken' (t : tree) : rb_shape t -> rb_shape (blacken t).
Proof. intros (Hn & H). rewrite blacken_not_red by assumption. split; assumption. Qed.

(* what happens with the answer of fix_left / fix_right at a parent of colour pc above [rest] *)
Lemma rem_after_fix pc n (rest : path) (res : fix_res A) :
  fix_spec pc n res -> pinv rest (hp pc n) -> (pc = Red -> hd_black rest) ->
  (forall (t : tree) m, pinv rest (S m) -> short t m -> exists t', rem_color rest t = Some t' /\ rb_shape t') ->
  exists t', match res with
             | Up s => rem_color rest s
             | Stop s => Some (blacken (zip rest s))
             end = Some t' /\ rb_shape t'.
Proof.
  intros Hs Hp Hb IH. destruct res as [s|s]; cbn [fix_spec] in Hs.
  - destruct Hs as (m & Em & Hsh & _). rewrite Em in Hp. exact (IH s m Hp Hsh).
  - destruct Hs as (Hh & Hbl). eexists. split; [reflexivity|]. apply rb_shape_blacken'.
    apply (zip_shape _ _ _ Hp Hh). destruct pc; [left; auto|right; auto].
Qed.

Lemma rem_color_shape (p : path) : forall (t : tree) n,
  pinv p (S n) -> short t n -> exists t', rem_color p t = Some t' /\ rb_shape t'.
Proof.
  induction p as [|f rest IH]; intros t n Hp Hs; cbn [rem_color]; unfold short in Hs.
  - destruct (is_red t) eqn:Er; eexists; (split; [reflexivity|]).
    + cbn [zip]. split; [apply is_red_blacken|eexists; exact Hs].
    + eapply rb_shape_blacken; exact Hs.
  - destruct (is_red t) eqn:Er.
    { eexists. split; [reflexivity|]. apply (zip_shape _ _ _ Hp Hs). right. apply is_red_blacken. }
    destruct f as [pc pk pr|pc pl pk].
    + assert (Hpr : rbh pr (S n)) by (destruct pc; cbn [pinv] in Hp; tauto).
      destruct pr as [|[] tl tk tr]; [discriminate Hpr| |].
      * (* red sibling, hence black parent *)
        destruct pc; cbn [pinv] in Hp; [destruct Hp as (_ & Hx & _); discriminate Hx|].
        destruct Hp as (_ & Hrest). cbn [rbh] in Hpr. destruct Hpr as (Hnl & Hnr & Hl & Hr).
        destruct (fix_left_shape Red t pk tl n Hs Hl Hnl) as (res & -> & Hspec).
        assert (Hp' : pinv (FL Black tk tr :: rest) (S n)) by (cbn [pinv]; auto).
        destruct res as [s|s]; cbn [fix_spec hp] in Hspec; (eexists; split; [reflexivity|]).
        -- destruct Hspec as (m & [= <-] & Hsh & Es). unfold short in Hsh. rewrite Es in Hsh.
           apply (zip_shape _ _ _ Hp' Hsh). left. reflexivity.
        -- destruct Hspec as (Hh & _). apply rb_shape_blacken'. apply (zip_shape _ _ _ Hp' Hh). left. reflexivity.
      * assert (Hx : pinv rest (hp pc n) /\ (pc = Red -> hd_black rest)).
        { destruct pc; cbn [pinv hp] in Hp |- *; [|split; [tauto|discriminate]]. split; [tauto|]. intros _. tauto. }
        destruct Hx as (Hrest & Hb).
        destruct (fix_left_shape pc t pk (Node Black tl tk tr) n Hs Hpr eq_refl) as (res & -> & Hspec).
        apply (rem_after_fix pc n rest res Hspec Hrest Hb). intros t0 m H1 H2. exact (IH t0 m H1 H2).
    + assert (Hpl : rbh pl (S n)) by (destruct pc; cbn [pinv] in Hp; tauto).
      destruct pl as [|[] tl tk tr]; [discriminate Hpl| |].
      * destruct pc; cbn [pinv] in Hp; [destruct Hp as (_ & Hx & _); discriminate Hx|].
        destruct Hp as (_ & Hrest). cbn [rbh] in Hpl. destruct Hpl as (Hnl & Hnr & Hl & Hr).
        destruct (fix_right_shape Red tr pk t n Hs Hr Hnr) as (res & -> & Hspec).
        assert (Hp' : pinv (FR Black tl tk :: rest) (S n)) by (cbn [pinv]; auto).
        destruct res as [s|s]; cbn [fix_spec hp] in Hspec; (eexists; split; [reflexivity|]).
        -- destruct Hspec as (m & [= <-] & Hsh & Es). unfold short in Hsh. rewrite Es in Hsh.
           apply (zip_shape _ _ _ Hp' Hsh). left. reflexivity.
        -- destruct Hspec as (Hh & _). apply rb_shape_blacken'. apply (zip_shape _ _ _ Hp' Hh). left. reflexivity.
      * assert (Hx : pinv rest (hp pc n) /\ (pc = Red -> hd_black rest)).
        { destruct pc; cbn [pinv hp] in Hp |- *; [|split; [tauto|discriminate]]. split; [tauto|]. intros _. tauto. }
        destruct Hx as (Hrest & Hb).
        destruct (fix_right_shape pc (Node Black tl tk tr) pk t n Hs Hpl eq_refl) as (res & -> & Hspec).
        apply (rem_after_fix pc n rest res Hspec Hrest Hb). intros t0 m H1 H2. exact (IH t0 m H1 H2).
Qed.

Lemma rem_finish_shape_l c k (r : tree) (p : path) m :
  pinv p m -> rbh (Node c Leaf k r) m -> ok_under p (Node c Leaf k r) ->
  exists t', rem_finish c p r = Some t' /\ rb_shape t'.
Proof.
  intros Hp Ht Hok. destruct c; cbn [rbh rem_finish] in *.
  - destruct Ht as (_ & Hnr & Hm & Hr). cbn in Hm. subst m. eexists. split; [reflexivity|].
    apply (zip_shape _ _ _ Hp Hr). right. exact Hnr.
  - destruct m as [|m]; [destruct Ht|]. destruct Ht as (Hm & Hr). cbn in Hm. subst m.
    apply (rem_color_shape p r 0 Hp). now apply short_of_rbh.
Qed.

Lemma rem_finish_shape_r c (l : tree) k (p : path) m :
  pinv p m -> rbh (Node c l k Leaf) m -> ok_under p (Node c l k Leaf) ->
  exists t', rem_finish c p l = Some t' /\ rb_shape t'.
Proof.
  intros Hp Ht Hok. destruct c; cbn [rbh rem_finish] in *.
  - destruct Ht as (Hnl & _ & Hl & Hm). cbn in Hm. subst m. eexists. split; [reflexivity|].
    apply (zip_shape _ _ _ Hp Hl). right. exact Hnl.
  - destruct m as [|m]; [destruct Ht|]. destruct Ht as (Hl & Hm). cbn in Hm. subst m.
    apply (rem_color_shape p l 0 Hp). now apply short_of_rbh.
Qed.

(* path invariant of the two child positions of a node standing at q *)
Lemma pinv_down c (l : tree) k r (q : path) n :
  pinv q n -> rbh (Node c l k r) n -> ok_under q (Node c l k r) ->
  exists m, rbh l m /\ rbh r m /\
            pinv (FL c k r :: q) m /\ ok_under (FL c k r :: q) l /\
            (forall k', pinv (FR c l k' :: q) m) /\ (forall k', ok_under (FR c l k' :: q) r).
Proof.
  intros Hq Ht Hok. destruct c; cbn [rbh] in Ht.
  - destruct Ht as (Hnl & Hnr & Hl & Hr).
    assert (Hb : hd_black q) by (destruct Hok as [Hok|Hok]; [assumption|discriminate Hok]).
    exists n. cbn [pinv]. unfold ok_under. cbn [hd_black frame_color]. auto 12.
  - destruct n as [|m]; [destruct Ht|]. destruct Ht as (Hl & Hr).
    exists m. cbn [pinv]. unfold ok_under. cbn [hd_black frame_color]. auto 12.
Qed.

Lemma min_path_pinv (t : tree) : forall (q ip : path) n sc sk sr,
  pinv q n -> rbh t n -> ok_under q t -> min_path t q = Some (ip, sc, sk, sr) ->
  exists m, pinv ip m /\ rbh (Node sc Leaf sk sr) m /\ ok_under ip (Node sc Leaf sk sr).
Proof.
  induction t as [|c l IHl k r _]; intros q ip n sc sk sr Hq Ht Hok H; cbn [min_path] in H; [discriminate|].
  destruct l as [|lc ll lk lr].
  - injection H as <- <- <- <-. exists n. auto.
  - destruct (pinv_down c _ k r q n Hq Ht Hok) as (m & Hl & Hr & Hp1 & Hok1 & _).
    exact (IHl _ _ m _ _ _ Hp1 Hl Hok1 H).
Qed.

Lemma rb_remove_at_shape (p : path) c (l : tree) k r m :
  pinv p m -> rbh (Node c l k r) m -> ok_under p (Node c l k r) ->
  exists t', rb_remove_at p (Node c l k r) = Some t' /\ rb_shape t'.
Proof.
  intros Hp Ht Hok. cbn [rb_remove_at]. destruct l as [|lc ll lk lr].
  - exact (rem_finish_shape_l c k r p m Hp Ht Hok).
  - destruct r as [|rc rl rk rr].
    + exact (rem_finish_shape_r c _ k p m Hp Ht Hok).
    + destruct (min_path (Node rc rl rk rr) []) as [[[[ip sc] sk] sr]|] eqn:E;
        [|exfalso; exact (min_path_node _ _ _ _ _ E)].
      destruct (pinv_down c _ k _ p m Hp Ht Hok) as (m' & Hl & Hr & _ & _ & Hp2 & Hok2).
      pose proof (min_path_app (Node rc rl rk rr) (FR c (Node lc ll lk lr) sk :: p)) as Ea. rewrite E in Ea.
      destruct (min_path_pinv _ _ _ _ _ _ _ (Hp2 sk) Hr (Hok2 sk) Ea) as (m2 & Hip & Hs & Hoks).
      exact (rem_finish_shape_l sc sk sr _ m2 Hip Hs Hoks).
Qed.

Lemma locate_pinv (t : tree) : forall i (p p' : path) nd n,
  pinv p n -> rbh t n -> ok_under p t -> locate t i p = Some (p', nd) ->
  exists m, pinv p' m /\ rbh nd m /\ ok_under p' nd.
Proof.
  induction t as [|c l IHl k r IHr]; intros i p p' nd n Hp Ht Hok H; cbn [locate] in H; [discriminate|].
  destruct (pinv_down c l k r p n Hp Ht Hok) as (m & Hl & Hr & Hp1 & Hok1 & Hp2 & Hok2).
  destruct (Nat.compare i (size l)).
  - injection H as <- <-. exists n. auto.
  - exact (IHl _ _ _ _ m Hp1 Hl Hok1 H).
  - exact (IHr _ _ _ _ m (Hp2 k) Hr (Hok2 k) H).
Qed.

(* removal of the node at a valid in-order position of a red-black tree: the model never reaches a NULL
   dereference, the result is a red-black tree and its in-order sequence is the old one without that element *)
Theorem rb_remove_inv (t : tree) i :
  rb_inv t -> i < size t ->
  exists t', rb_remove t i = Some t' /\ rb_inv t' /\ inorder t' = remove_nth i (inorder t).
Proof.
  intros (Hs & Hnr & n & Hn) Hi. unfold rb_remove.
  destruct (locate_some t i [] Hi) as (p & nd & E). rewrite E.
  destruct (locate_spec t i [] p nd E) as (c & l & k & r & -> & _).
  destruct (locate_pinv t i [] p _ n I Hn (or_intror Hnr) E) as (m & Hp & Hm & Hok).
  destruct (rb_remove_at_shape p c l k r m Hp Hm Hok) as (t' & E' & Hsh).
  exists t'. split; [exact E'|].
  assert (Hi' : inorder t' = remove_nth i (inorder t)).
  { apply rb_remove_inorder. unfold rb_remove. rewrite E. exact E'. }
  split; [|exact Hi']. split; [|exact Hsh]. rewrite Hi'. now apply remove_nth_sorted.
Qed.

(* ---------- rb_prev / rb_next ---------- *)
Lemma inorder_node_nonnil c (l : tree) k r : inorder (Node c l k r) <> [].
Proof. cbn [inorder]. destruct (inorder l); discriminate. Qed.

Lemma max_key_spec (t : tree) : max_key t = last_opt (inorder t).
Proof.
  induction t as [|c l _ k r IHr]; [reflexivity|]. cbn [max_key inorder].
  rewrite last_opt_app, last_opt_cons. destruct r as [|rc rl rk rr]; [reflexivity|].
  rewrite IHr. destruct (last_opt (inorder (Node rc rl rk rr))) eqn:E; [reflexivity|].
  apply last_opt_none in E. destruct (inorder_node_nonnil _ _ _ _ E).
Qed.

Lemma min_key_spec (t : tree) : min_key t = hd_error (inorder t).
Proof.
  induction t as [|c l IHl k r _]; [reflexivity|]. cbn [min_key inorder].
  destruct l as [|lc ll lk lr]; [reflexivity|]. rewrite IHl.
  destruct (inorder (Node lc ll lk lr)) eqn:E; [destruct (inorder_node_nonnil _ _ _ _ E)|reflexivity].
Qed.

Lemma up_prev_spec (p : path) : up_prev p = last_opt (before p).
Proof.
  induction p as [|[c k r|c l k] p IH]; cbn [up_prev before]; [reflexivity|exact IH|].
  rewrite app_assoc, last_opt_snoc. reflexivity.
Qed.

Lemma up_next_spec (p : path) : up_next p = hd_error (after p).
Proof. induction p as [|[c k r|c l k] p IH]; cbn [up_next after]; [reflexivity|reflexivity|exact IH]. Qed.

(* rb_prev(rbn) is the node that precedes rbn in the in-order sequence, rb_next(rbn) the one that follows *)
Lemma rb_prev_spec (p : path) c (l : tree) k r :
  rb_prev p (Node c l k r) = last_opt (before p ++ inorder l).
Proof.
  cbn [rb_prev]. rewrite last_opt_app. destruct l as [|lc ll lk lr].
  - cbn. apply up_prev_spec.
  - rewrite max_key_spec. destruct (last_opt (inorder (Node lc ll lk lr))) eqn:E; [reflexivity|].
    apply last_opt_none in E. destruct (inorder_node_nonnil _ _ _ _ E).
Qed.

Lemma rb_next_spec (p : path) c (l : tree) k r :
  rb_next p (Node c l k r) = hd_error (inorder r ++ after p).
Proof.
  cbn [rb_next]. destruct r as [|rc rl rk rr].
  - cbn. apply up_next_spec.
  - rewrite min_key_spec. destruct (inorder (Node rc rl rk rr)) eqn:E; [destruct (inorder_node_nonnil _ _ _ _ E)|reflexivity].
Qed.

(* ---------- rb_find ---------- *)
Section Find.
Variable ideq : A -> A -> bool.
Hypothesis ideq_spec : forall a b, ideq a b = true <-> a = b.

Lemma ideq_refl a : ideq a a = true.
Proof. now apply ideq_spec. Qed.

Lemma find_pivot_some (t : tree) x : forall (p p' : path) nd,
  find_pivot cmp t x p = Some (p', nd) ->
  exists c l k r, nd = Node c l k r /\ cmp k x = Eq /\
    before p' ++ inorder nd ++ after p' = before p ++ inorder t ++ after p.
Proof.
  induction t as [|c l IHl k r IHr]; intros p p' nd H; cbn [find_pivot] in H; [discriminate|].
  destruct (cmp k x) eqn:E.
  - injection H as <- <-. exists c, l, k, r. auto.
  - apply IHr in H. destruct H as (c' & l' & k' & r' & -> & Ek & H). exists c', l', k', r'.
    repeat split; [exact Ek|]. rewrite H. cbn [before after inorder]. lnorm. reflexivity.
  - apply IHl in H. destruct H as (c' & l' & k' & r' & -> & Ek & H). exists c', l', k', r'.
    repeat split; [exact Ek|]. rewrite H. cbn [before after inorder]. lnorm. reflexivity.
Qed.

Lemma find_pivot_none (t : tree) x : forall p : path,
  sorted (inorder t) -> find_pivot cmp t x p = None -> forall y, In y (inorder t) -> cmp y x <> Eq.
Proof.
  induction t as [|c l IHl k r IHr]; intros p Hs H y Hy; [destruct Hy|].
  cbn [find_pivot] in H. cbn [inorder] in Hs, Hy. apply sorted_app in Hs. destruct Hs as (Sl & Skr & Hlk).
  cbn [sorted] in Skr. destruct Skr as (Hkr & Sr). rewrite Forall_forall in Hkr.
  apply in_app_or in Hy. destruct (cmp k x) eqn:E; [discriminate| |].
  - (* k < x: right *)
    assert (Hxk : cmp x k = Gt) by (rewrite cmp_antisym, E; reflexivity).
    destruct Hy as [Hy|[<-|Hy]].
    + intro Ey. apply (proj2 (not_le_gt x k) Hxk). apply (cmp_trans x y k).
      * unfold le. rewrite cmp_antisym, Ey. discriminate.
      * apply Hlk; [exact Hy|left; reflexivity].
    + congruence.
    + exact (IHr _ Sr H y Hy).
  - (* k > x: left *)
    destruct Hy as [Hy|[<-|Hy]].
    + exact (IHl _ Sl H y Hy).
    + congruence.
    + intro Ey. apply (proj2 (not_le_gt k x) E). apply (cmp_trans k y x); [exact (Hkr y Hy)|].
      unfold le. rewrite Ey. discriminate.
Qed.

Lemma scan_eq_sound l x : forall j, scan_eq cmp ideq l x = Some j -> nth_error l j = Some x.
Proof.
  induction l as [|y l IH]; intros j H; cbn [scan_eq] in H; [discriminate|].
  destruct (cmp y x); try discriminate. destruct (ideq y x) eqn:E.
  - injection H as <-. apply ideq_spec in E. subst y. reflexivity.
  - destruct (scan_eq cmp ideq l x) as [j'|]; [|discriminate]. injection H as <-. cbn. now apply IH.
Qed.

Lemma scan_eq_complete l1 l2 x :
  Forall (fun y => cmp y x = Eq) l1 -> exists j, scan_eq cmp ideq (l1 ++ x :: l2) x = Some j.
Proof.
  induction 1 as [|y l1 Hy _ IH]; cbn [app scan_eq].
  - rewrite cmp_refl, ideq_refl. now exists 0.
  - rewrite Hy. destruct (ideq y x); [now exists 0|]. destruct IH as (j & ->). now exists (S j).
Qed.

Lemma nth_error_rev (l : list A) : forall j x,
  nth_error (rev l) j = Some x -> nth_error l (length l - 1 - j) = Some x /\ j < length l.
Proof.
  induction l as [|a l IH]; intros j x H; [destruct j; discriminate|].
  cbn [rev] in H. destruct (Nat.lt_ge_cases j (length (rev l))) as [Hj|Hj].
  - rewrite nth_error_app1 in H by assumption. apply IH in H. destruct H as (H & Hl).
    cbn [length]. split; [|lia]. replace (S (length l) - 1 - j) with (S (length l - 1 - j)) by lia. exact H.
  - rewrite nth_error_app2 in H by assumption. rewrite rev_length in *.
    destruct (j - length l) as [|d] eqn:Ed; [|destruct d; discriminate]. injection H as <-.
    cbn [length]. replace (S (length l) - 1 - j) with 0 by lia. split; [reflexivity|lia].
Qed.

(* a node found by rb_find is the node looked for *)
Theorem rb_find_sound (t : tree) x i : rb_find cmp ideq t x = Some i -> nth_error (inorder t) i = Some x.
Proof.
  unfold rb_find. destruct t as [|c0 l0 k0 r0]; [discriminate|].
  destruct (ideq k0 x) eqn:E0.
  { intros [= <-]. apply ideq_spec in E0. subst k0. cbn [inorder]. rewrite size_inorder. apply nth_error_mid. }
  destruct (find_pivot cmp (Node c0 l0 k0 r0) x []) as [[p nd]|] eqn:Ep; [|discriminate].
  apply find_pivot_some in Ep. destruct Ep as (c & l & k & r & -> & Ek & Heq).
  cbn [before after app] in Heq. rewrite app_nil_r in Heq. rewrite <- Heq.
  set (bef := before p ++ inorder l). set (aft := inorder r ++ after p).
  assert (Hsplit : before p ++ inorder (Node c l k r) ++ after p = bef ++ k :: aft)
    by (subst bef aft; cbn [inorder]; lnorm; reflexivity).
  rewrite Hsplit. destruct (ideq k x) eqn:Ekx.
  { intros [= <-]. apply ideq_spec in Ekx. subst k. apply nth_error_mid. }
  destruct (scan_eq cmp ideq (rev bef) x) as [j|] eqn:Eb.
  { intros [= <-]. apply scan_eq_sound, nth_error_rev in Eb. destruct Eb as (Eb & Hj).
    rewrite nth_error_app1 by lia. exact Eb. }
  destruct (scan_eq cmp ideq aft x) as [j|] eqn:Ea; [|discriminate].
  intros [= <-]. apply scan_eq_sound in Ea. rewrite nth_error_app2 by lia.
  replace (length bef + 1 + j - length bef) with (S j) by lia. exact Ea.
Qed.

(* rb_find finds every node that is in the tree *)
Theorem rb_find_complete (t : tree) x :
  sorted (inorder t) -> In x (inorder t) -> exists i, rb_find cmp ideq t x = Some i.
Proof.
  intros Hs Hin. unfold rb_find. destruct t as [|c0 l0 k0 r0]; [destruct Hin|].
  destruct (ideq k0 x); [eexists; reflexivity|].
  destruct (find_pivot cmp (Node c0 l0 k0 r0) x []) as [[p nd]|] eqn:Ep.
  2:{ exfalso. exact (find_pivot_none _ x [] Hs Ep x Hin (cmp_refl x)). }
  apply find_pivot_some in Ep. destruct Ep as (c & l & k & r & -> & Ek & Heq).
  cbn [before after app] in Heq. rewrite app_nil_r in Heq. rewrite <- Heq in Hs, Hin.
  set (bef := before p ++ inorder l). set (aft := inorder r ++ after p).
  assert (Hsplit : before p ++ inorder (Node c l k r) ++ after p = bef ++ k :: aft)
    by (subst bef aft; cbn [inorder]; lnorm; reflexivity).
  rewrite Hsplit in Hs, Hin. clear Hsplit Heq.
  apply sorted_app in Hs. destruct Hs as (Sb & Ska & Hbk). cbn [sorted] in Ska. destruct Ska as (Hka & Sa).
  rewrite Forall_forall in Hka.
  assert (Hkx : le k x) by (unfold le; rewrite Ek; discriminate).
  assert (Hxk : le x k) by (unfold le; rewrite cmp_antisym, Ek; discriminate).
  destruct (ideq k x) eqn:Ekx; [eexists; reflexivity|].
  destruct (scan_eq cmp ideq (rev bef) x) as [j|] eqn:Eb; [eexists; reflexivity|].
  destruct (scan_eq cmp ideq aft x) as [j|] eqn:Ea; [eexists; reflexivity|].
  exfalso. apply in_app_or in Hin. destruct Hin as [Hin|[Hin|Hin]].
  - apply in_split in Hin. destruct Hin as (b1 & b2 & Hb). rewrite Hb in Eb, Sb, Hbk.
    rewrite rev_app_distr in Eb. cbn [rev] in Eb. rewrite <- app_assoc in Eb. cbn [app] in Eb.
    destruct (scan_eq_complete (rev b2) (rev b1) x) as (j & Ej); [|congruence].
    apply Forall_forall. intros y Hy. apply in_rev in Hy.
    apply sorted_app in Sb. destruct Sb as (_ & Sxb & _). cbn [sorted] in Sxb. destruct Sxb as (Hxb & _).
    rewrite Forall_forall in Hxb. apply le_le_eq; [|exact (Hxb y Hy)].
    apply (cmp_trans y k x); [|exact Hkx]. apply Hbk; [apply in_or_app; right; right; exact Hy|left; reflexivity].
  - subst k. rewrite ideq_refl in Ekx. discriminate.
  - apply in_split in Hin. destruct Hin as (a1 & a2 & Ha). rewrite Ha in Ea, Sa, Hka.
    destruct (scan_eq_complete a1 a2 x) as (j & Ej); [|congruence].
    apply Forall_forall. intros y Hy.
    apply sorted_app in Sa. destruct Sa as (_ & _ & Hax).
    apply le_le_eq; [apply Hax; [exact Hy|left; reflexivity]|].
    apply (cmp_trans x k y); [exact Hxk|]. apply Hka. apply in_or_app. left. exact Hy.
Qed.

End Find.

(* ---------- height ---------- *)
Lemma rbh_size (t : tree) : forall n, rbh t n -> 2 ^ n <= size t + 1.
Proof.
  induction t as [|c l IHl k r IHr]; intros n H; cbn [rbh size] in *.
  - subst n. cbn. lia.
  - destruct c.
    + destruct H as (_ & _ & Hl & Hr). specialize (IHl n Hl). lia.
    + destruct n as [|m]; [destruct H|]. destruct H as (Hl & Hr). specialize (IHl m Hl). specialize (IHr m Hr).
      rewrite Nat.pow_succ_r'. lia.
Qed.

Lemma rbh_height (t : tree) : forall n, rbh t n -> height t <= 2 * n + (if is_red t then 1 else 0).
Proof.
  induction t as [|c l IHl k r IHr]; intros n H; cbn [rbh height is_red] in *.
  - lia.
  - destruct c.
    + destruct H as (Hnl & Hnr & Hl & Hr). specialize (IHl n Hl). specialize (IHr n Hr).
      rewrite Hnl in IHl. rewrite Hnr in IHr. lia.
    + destruct n as [|m]; [destruct H|]. destruct H as (Hl & Hr). specialize (IHl m Hl). specialize (IHr m Hr).
      destruct (is_red l), (is_red r); lia.
Qed.

Theorem rb_height_log (t : tree) : rb_shape t -> height t <= 2 * Nat.log2 (size t + 1).
Proof.
  intros (Hnr & n & Hn). pose proof (rbh_height t n Hn) as Hh. rewrite Hnr in Hh.
  pose proof (rbh_size t n Hn) as Hs. apply Nat.log2_le_pow2 in Hs; lia.
Qed.

(* ---------- histories ---------- *)
Lemma stable_insert_length l x : length (stable_insert l x) = S (length l).
Proof. induction l as [|y l IH]; cbn [Sorted.stable_insert length]; [reflexivity|]. destruct (cmp y x); cbn [length]; lia. Qed.

Lemma remove_nth_length (l : list A) : forall i, i < length l -> length (remove_nth i l) = length l - 1.
Proof.
  induction l as [|y l IH]; intros i Hi; cbn [length] in *; [lia|].
  destruct i as [|i]; cbn [remove_nth length]; [lia|]. rewrite IH by lia. lia.
Qed.

Lemma rb_inv_leaf : rb_inv (@Leaf A).
Proof. split; [exact I|]. split; [reflexivity|]. exists 0. reflexivity. Qed.

Lemma rb_history_gen (ops : list (op A)) : forall (t : tree),
  rb_inv t -> ops_valid ops (size t) ->
  exists t', fold_left (rb_step cmp) ops (Some t) = Some t' /\ rb_inv t' /\
             inorder t' = fold_left (seq_step cmp) ops (inorder t).
Proof.
  induction ops as [|o ops IH]; intros t Hinv Hv; cbn [fold_left].
  - exists t. auto.
  - destruct o as [x|i]; cbn [ops_valid] in Hv; cbn [rb_step seq_step].
    + destruct (rb_insert_inv t x Hinv) as (t1 & -> & Hinv1 & Hi1). rewrite <- Hi1. apply IH; [exact Hinv1|].
      rewrite size_inorder, Hi1, stable_insert_length, <- size_inorder. exact Hv.
    + destruct Hv as (Hi & Hv). destruct (rb_remove_inv t i Hinv Hi) as (t1 & -> & Hinv1 & Hi1).
      rewrite <- Hi1. apply IH; [exact Hinv1|].
      rewrite size_inorder, Hi1, remove_nth_length, <- size_inorder by (rewrite <- size_inorder; exact Hi). exact Hv.
Qed.

(* any history of inserts and removals starting from the empty tree: no NULL dereference, the result is
   a red-black search tree, and its in-order sequence is the history replayed on the abstract sequence *)
Theorem rb_history (ops : list (op A)) :
  ops_valid ops 0 ->
  exists t, rb_run cmp ops = Some t /\ rb_inv t /\ inorder t = seq_run cmp ops /\ sorted (seq_run cmp ops).
Proof.
  intro Hv. destruct (rb_history_gen ops Leaf rb_inv_leaf Hv) as (t & E & Hinv & Hi).
  exists t. repeat split; try assumption; try (destruct Hinv as (? & ? & ?); assumption).
  unfold seq_run. cbn [inorder] in Hi. rewrite <- Hi. exact (proj1 Hinv).
Qed.

(* ---------- insertion order does not matter when no two keys compare equal ---------- *)
Lemma sorted_perm_unique (a : list A) : forall b,
  sorted a -> sorted b -> Permutation a b ->
  (forall x y, In x a -> In y a -> cmp x y = Eq -> x = y) -> a = b.
Proof.
  induction a as [|x a IH]; intros b Sa Sb Hp Hd.
  - apply Permutation_nil in Hp. now subst b.
  - destruct b as [|y b]; [apply Permutation_sym, Permutation_nil in Hp; discriminate|].
    cbn [sorted] in Sa, Sb. destruct Sa as (Hxa & Sa). destruct Sb as (Hyb & Sb).
    rewrite Forall_forall in Hxa, Hyb.
    assert (Hxy : x = y).
    { assert (Hx : In x (y :: b)) by (apply (Permutation_in _ Hp); left; reflexivity).
      assert (Hy : In y (x :: a)) by (apply (Permutation_in _ (Permutation_sym Hp)); left; reflexivity).
      destruct Hx as [Hx|Hx]; [now symmetry|]. destruct Hy as [Hy|Hy]; [assumption|].
      apply Hd; [left; reflexivity|right; exact Hy|]. apply le_le_eq; [exact (Hxa y Hy)|exact (Hyb x Hx)]. }
    subst y. f_equal. apply IH; try assumption.
    + exact (Permutation_cons_inv Hp).
    + intros u v Hu Hv. apply Hd; right; assumption.
Qed.

Lemma isort_gen_perm (l : list A) : forall acc, Permutation (l ++ acc) (fold_left stable_insert l acc).
Proof.
  induction l as [|x l IH]; intro acc; cbn [fold_left app]; [reflexivity|].
  etransitivity; [|apply IH]. etransitivity; [apply Permutation_middle|].
  apply Permutation_app_head. apply stable_insert_perm.
Qed.

Lemma isort_gen_sorted (l : list A) : forall acc, sorted acc -> sorted (fold_left stable_insert l acc).
Proof. induction l as [|x l IH]; intros acc Hs; cbn [fold_left]; [exact Hs|]. apply IH. now apply stable_insert_sorted. Qed.

Theorem isort_order_independent (l1 l2 : list A) :
  Permutation l1 l2 -> (forall x y, In x l1 -> In y l1 -> cmp x y = Eq -> x = y) ->
  isort cmp l1 = isort cmp l2.
Proof.
  intros Hp Hd. unfold isort. apply sorted_perm_unique.
  - now apply isort_gen_sorted.
  - now apply isort_gen_sorted.
  - etransitivity; [symmetry; apply isort_gen_perm|]. etransitivity; [|apply isort_gen_perm].
    now apply Permutation_app_tail.
  - intros x y Hx Hy. apply Hd.
    + apply (Permutation_in _ (Permutation_sym (isort_gen_perm l1 []))) in Hx. now rewrite app_nil_r in Hx.
    + apply (Permutation_in _ (Permutation_sym (isort_gen_perm l1 []))) in Hy. now rewrite app_nil_r in Hy.
Qed.

Lemma rb_run_inserts (l : list A) :
  exists t, rb_run cmp (map Ins l) = Some t /\ rb_inv t /\ inorder t = isort cmp l.
Proof.
  assert (Hv : forall n, ops_valid (map (@Ins A) l) n) by (induction l; intro n; cbn; auto).
  destruct (rb_history (map Ins l) (Hv 0)) as (t & E & Hinv & Hi & _). exists t. repeat split; try assumption;
    try (destruct Hinv as (? & ? & ?); assumption).
  rewrite Hi. unfold seq_run, isort. generalize (@nil A). clear. induction l as [|x l IH]; intro acc; cbn; [reflexivity|apply IH].
Qed.

Theorem rb_insert_order_independent (l1 l2 : list A) :
  Permutation l1 l2 -> (forall x y, In x l1 -> In y l1 -> cmp x y = Eq -> x = y) ->
  exists t1 t2, rb_run cmp (map Ins l1) = Some t1 /\ rb_run cmp (map Ins l2) = Some t2 /\ inorder t1 = inorder t2.
Proof.
  intros Hp Hd. destruct (rb_run_inserts l1) as (t1 & E1 & _ & H1). destruct (rb_run_inserts l2) as (t2 & E2 & _ & H2).
  exists t1, t2. repeat split; try assumption. rewrite H1, H2. now apply isort_order_independent.
Qed.


(* ---------- the executable checker rb_check decides the invariant (soundness) ---------- *)
Lemma bheight_sound (t : tree) : forall n, bheight t = Some n -> rbh t n.
Proof.
  induction t as [|c l IHl k r IHr]; intros n H; cbn [bheight] in H.
  - injection H as <-. reflexivity.
  - destruct (bheight l) as [a|]; [|discriminate]. destruct (bheight r) as [b|]; [|discriminate].
    destruct (Nat.eqb a b) eqn:E; [|discriminate]. apply Nat.eqb_eq in E. subst b.
    specialize (IHl a eq_refl). specialize (IHr a eq_refl). destruct c.
    + destruct (is_red l) eqn:El; [discriminate|]. destruct (is_red r) eqn:Er; [discriminate|].
      cbn [orb] in H. injection H as <-. cbn [rbh]. auto.
    + injection H as <-. cbn [rbh]. auto.
Qed.

Lemma sortedb_sound (l : list A) : sortedb cmp l = true -> sorted l.
Proof.
  induction l as [|x l IH]; intro H; [exact I|]. cbn [sortedb] in H. destruct l as [|y l]; [cbn; auto|].
  destruct (cmp x y) eqn:E; try discriminate; specialize (IH H); cbn [sorted] in IH |- *; destruct IH as (Hy & Hs);
    (split; [|split; assumption]); (constructor; [unfold le; congruence|]);
    apply Forall_forall; intros z Hz; rewrite Forall_forall in Hy;
    (apply (cmp_trans x y z); [unfold le; congruence|exact (Hy z Hz)]).
Qed.

Theorem rb_check_sound (t : tree) : rb_check cmp t = true -> rb_inv t.
Proof.
  unfold rb_check. intro H. apply andb_true_iff in H. destruct H as (H & Hs).
  apply andb_true_iff in H. destruct H as (Hr & Hb). apply negb_true_iff in Hr.
  destruct (bheight t) as [n|] eqn:E; [|discriminate].
  split; [now apply sortedb_sound|]. split; [exact Hr|]. exists n. now apply bheight_sound.
Qed.

(* ---------- live elements: permutation and stability (equal keys stay in arrival order) ---------- *)
Section Stable.
Variable ideq : A -> A -> bool.
Hypothesis ideq_spec : forall a b, ideq a b = true <-> a = b.

Lemma ideq_false a b : ideq a b = false <-> a <> b.
Proof. pose proof (ideq_spec a b). destruct (ideq a b); intuition congruence. Qed.

Lemma remove_id_perm y (l : list A) : In y l -> Permutation l (y :: remove_id ideq y l).
Proof.
  induction l as [|z l IH]; intro Hin; [destruct Hin|]. cbn [remove_id].
  destruct (ideq z y) eqn:E.
  - apply ideq_spec in E. subst z. reflexivity.
  - apply ideq_false in E. destruct Hin as [Hin|Hin]; [congruence|].
    etransitivity; [apply perm_skip, IH, Hin|apply perm_swap].
Qed.

Lemma remove_nth_perm (l : list A) : forall i y, nth_error l i = Some y -> Permutation l (y :: remove_nth i l).
Proof.
  induction l as [|z l IH]; intros i y H; [destruct i; discriminate|].
  destruct i as [|i]; cbn [nth_error remove_nth] in *.
  - injection H as <-. reflexivity.
  - etransitivity; [apply perm_skip, (IH i y H)|apply perm_swap].
Qed.

Lemma remove_nth_oob (l : list A) : forall i, nth_error l i = None -> remove_nth i l = l.
Proof.
  induction l as [|z l IH]; intros i H; [reflexivity|]. destruct i as [|i]; [discriminate|].
  cbn [remove_nth]. f_equal. now apply IH.
Qed.

Lemma arrivals_perm_gen (ops : list (op A)) : forall sq arr,
  Permutation sq arr -> Permutation (fold_left (seq_step cmp) ops sq) (arrivals cmp ideq ops sq arr).
Proof.
  induction ops as [|o ops IH]; intros sq arr Hp; cbn [fold_left arrivals]; [exact Hp|].
  destruct o as [x|i]; cbn [seq_step].
  - apply IH. etransitivity; [symmetry; apply stable_insert_perm|].
    etransitivity; [apply perm_skip, Hp|apply Permutation_cons_append].
  - destruct (nth_error sq i) as [y|] eqn:E.
    + apply IH. apply (Permutation_cons_inv (a := y)).
      etransitivity; [symmetry; apply remove_nth_perm, E|].
      etransitivity; [exact Hp|]. apply remove_id_perm. apply (Permutation_in _ Hp). eapply nth_error_In, E.
    + rewrite remove_nth_oob by assumption. now apply IH.
Qed.

Lemma filter_all_true (g : A -> bool) (l : list A) : (forall z, In z l -> g z = true) -> filter g l = l.
Proof.
  induction l as [|z l IH]; intro H; [reflexivity|]. cbn [filter]. rewrite (H z) by (left; reflexivity).
  f_equal. apply IH. intros w Hw. apply H. right. exact Hw.
Qed.

Lemma filter_all_false (g : A -> bool) (l : list A) : (forall z, In z l -> g z = false) -> filter g l = [].
Proof.
  induction l as [|z l IH]; intro H; [reflexivity|]. cbn [filter]. rewrite (H z) by (left; reflexivity).
  apply IH. intros w Hw. apply H. right. exact Hw.
Qed.

Lemma filter_comm (f g : A -> bool) (l : list A) : filter f (filter g l) = filter g (filter f l).
Proof.
  induction l as [|z l IH]; [reflexivity|]. cbn [filter].
  destruct (g z) eqn:Eg, (f z) eqn:Ef; cbn [filter]; rewrite ?Eg, ?Ef, IH; reflexivity.
Qed.

Definition other (y z : A) : bool := negb (ideq z y).

Lemma remove_nth_filter (l : list A) : forall i y,
  NoDup l -> nth_error l i = Some y -> remove_nth i l = filter (other y) l.
Proof.
  induction l as [|z l IH]; intros i y Hnd H; [destruct i; discriminate|].
  inversion Hnd as [|? ? Hz Hnd']; subst. destruct i as [|i]; cbn [nth_error remove_nth filter] in *.
  - injection H as <-. unfold other at 1. rewrite (proj2 (ideq_spec z z) eq_refl). cbn [negb].
    symmetry. apply filter_all_true. intros w Hw. unfold other. apply negb_true_iff, ideq_false. congruence.
  - assert (Hzy : z <> y) by (intro; subst; apply Hz; eapply nth_error_In, H).
    unfold other at 1. rewrite (proj2 (ideq_false z y) Hzy). cbn [negb]. f_equal. now apply IH.
Qed.

Lemma remove_id_filter (l : list A) y : NoDup l -> remove_id ideq y l = filter (other y) l.
Proof.
  induction l as [|z l IH]; intro Hnd; [reflexivity|]. inversion Hnd as [|? ? Hz Hnd']; subst.
  cbn [remove_id filter]. unfold other at 1. destruct (ideq z y) eqn:E; cbn [negb].
  - apply ideq_spec in E. subst z. symmetry. apply filter_all_true. intros w Hw. unfold other.
    apply negb_true_iff, ideq_false. congruence.
  - f_equal. now apply IH.
Qed.

Lemma filter_stable_insert x' sq x :
  sorted sq ->
  filter (same_key cmp x') (stable_insert sq x) = filter (same_key cmp x') sq ++ (if same_key cmp x' x then [x] else []).
Proof.
  intro Hs. destruct (stable_insert_split sq x Hs) as (l1 & l2 & -> & -> & F1 & F2).
  rewrite !filter_app. cbn [filter]. destruct (same_key cmp x' x) eqn:Ex.
  - assert (H2 : filter (same_key cmp x') l2 = []).
    { apply filter_all_false. intros y Hy. rewrite Forall_forall in F2. specialize (F2 y Hy).
      unfold same_key in *. destruct (cmp x x') eqn:Exx; try discriminate.
      destruct (cmp y x') eqn:Eyx; try reflexivity. exfalso.
      apply (proj2 (not_le_gt y x) F2). apply (cmp_trans y x' x).
      - unfold le. rewrite Eyx. discriminate.
      - unfold le. rewrite cmp_antisym, Exx. discriminate. }
    rewrite H2, app_nil_r. reflexivity.
  - rewrite app_nil_r. reflexivity.
Qed.

Lemma arrivals_stable_gen x' (ops : list (op A)) : forall sq arr,
  sorted sq -> NoDup sq -> Permutation sq arr ->
  filter (same_key cmp x') sq = filter (same_key cmp x') arr -> ops_fresh cmp ops sq ->
  filter (same_key cmp x') (fold_left (seq_step cmp) ops sq) = filter (same_key cmp x') (arrivals cmp ideq ops sq arr).
Proof.
  induction ops as [|o ops IH]; intros sq arr Hs Hnd Hp Hf Hfr; cbn [fold_left arrivals]; [exact Hf|].
  destruct o as [x|i]; cbn [seq_step ops_fresh] in *.
  - destruct Hfr as (Hx & Hfr). apply IH; try assumption.
    + now apply stable_insert_sorted.
    + apply (Permutation_NoDup (stable_insert_perm sq x)). now constructor.
    + etransitivity; [symmetry; apply stable_insert_perm|].
      etransitivity; [apply perm_skip, Hp|apply Permutation_cons_append].
    + rewrite filter_stable_insert by assumption. rewrite filter_app, Hf. cbn [filter].
      destruct (same_key cmp x' x); reflexivity.
  - destruct (nth_error sq i) as [y|] eqn:E.
    + assert (Hnda : NoDup arr) by exact (Permutation_NoDup Hp Hnd).
      apply IH; try assumption.
      * now apply remove_nth_sorted.
      * rewrite (remove_nth_filter sq i y Hnd E). now apply NoDup_filter.
      * apply (Permutation_cons_inv (a := y)).
        etransitivity; [symmetry; apply remove_nth_perm, E|].
        etransitivity; [exact Hp|]. apply remove_id_perm. apply (Permutation_in _ Hp). eapply nth_error_In, E.
      * rewrite (remove_nth_filter sq i y Hnd E), (remove_id_filter arr y Hnda).
        rewrite filter_comm, Hf, filter_comm. reflexivity.
    + rewrite remove_nth_oob in * by assumption. now apply IH.
Qed.

(* the in-order sequence after any history is a permutation of the live elements, and elements with
   equal keys stand in the order in which they were inserted *)
Theorem rb_history_stable (ops : list (op A)) :
  ops_fresh cmp ops [] ->
  Permutation (seq_run cmp ops) (arrivals cmp ideq ops [] []) /\
  forall x, filter (same_key cmp x) (seq_run cmp ops) = filter (same_key cmp x) (arrivals cmp ideq ops [] []).
Proof.
  intro Hfr. split.
  - apply arrivals_perm_gen. constructor.
  - intro x. apply arrivals_stable_gen; try assumption; try constructor.
Qed.

End Stable.

End RBTreeP.

Arguments le {A}.
Arguments sorted {A}.
Arguments rbh {A}.
Arguments rb_shape {A}.
Arguments rb_inv {A}.
Arguments pinv {A}.
Arguments ok_under {A}.
Arguments hd_black {A}.
