(* LybHashP.v - proofs about the LYB schema hash model (LybHash.v).

   hashseq_identifies_gen: when lyb_hash_siblings() succeeds, the hash sequence printed for a sibling is
   parsed back to that very sibling (the parser takes the first sibling in lys_getnext() order whose hashes
   0..i all match). Proved for an abstract hash function h with the bit shape that lyb_generate_hash()
   guarantees (Section SibProofs), then instantiated for gen_hash.
   The table invariant (Good) records for every inserted node its collision id c and why it is c:
   no earlier node collides with it on the whole sequence 0..c through a record of id <= c, and for every
   i < c some earlier node does. The last id LYB_HASH_BITS-1 is never used (its hash is the constant 1), so
   the parser's array hash[LYB_HASH_BITS-1] is not overrun on printer output.
   hash_total_refuted: two distinct leaves of one module for which lyb_hash_siblings() fails. *)
From LY Require Import Base LybHash.
From LY.Gen Require Consts.
From Coq Require Import ZifyBool ZifyNat ZifyN.
Local Open Scope N_scope.

Lemma NoDup_map_inj_in {X Y} (f : X -> Y) l a b :
  NoDup (map f l) -> In a l -> In b l -> f a = f b -> a = b.
Proof.
  induction l as [|x l IH]; intros Hnd Ha Hb E; [destruct Ha|].
  cbn [map] in Hnd. inversion Hnd as [|? ? Hx Hl]; subst.
  destruct Ha as [->|Ha]; destruct Hb as [->|Hb]; try reflexivity.
  - exfalso. apply Hx. rewrite E. apply in_map. exact Hb.
  - exfalso. apply Hx. rewrite <- E. apply in_map. exact Ha.
  - apply IH; assumption.
Qed.

Lemma NoDup_snoc {X} (l : list X) a : NoDup l -> ~ In a l -> NoDup (l ++ [a]).
Proof.
  induction l as [|x l IH]; intros Hnd Hna; cbn [app].
  - constructor; [intros []|constructor].
  - inversion Hnd as [|? ? Hx Hl]; subst. constructor.
    + intro Hin. apply in_app_or in Hin. destruct Hin as [Hin|[<-|[]]]; [contradiction|].
      apply Hna. left. reflexivity.
    + apply IH; [exact Hl|]. intro Hin. apply Hna. right. exact Hin.
Qed.

Section SibProofs.
Variables BITS MASK COLID : N.
Variable A : Type.
Variable h : A -> N -> N.

Local Notation B := (N.to_nat BITS).
Local Notation hn a i := (h a (N.of_nat i)).
Local Notation seq_eq := (LybHash.seq_eq A h).
Local Notation sequence_check := (LybHash.sequence_check A h).
Local Notation lower_ids_collide := (LybHash.lower_ids_collide A h).
Local Notation insert_sibling := (LybHash.insert_sibling A h).
Local Notation hash_siblings_from := (LybHash.hash_siblings_from BITS A h).
Local Notation lyb_hash_siblings := (LybHash.lyb_hash_siblings BITS A h).
Local Notation hash_find_from := (LybHash.hash_find_from A h).
Local Notation lyb_hash_find := (LybHash.lyb_hash_find BITS A h).
Local Notation cid_from := (LybHash.collision_id_from COLID).
Local Notation collision_id := (LybHash.collision_id BITS COLID).
Local Notation lower_hashes := (LybHash.lower_hashes A h).
Local Notation lyb_print_schema_hash := (LybHash.lyb_print_schema_hash BITS COLID A h).
Local Notation read_lower := (LybHash.read_lower BITS MASK COLID).
Local Notation lyb_read_hashes := (LybHash.lyb_read_hashes BITS MASK COLID).
Local Notation hash_match_from := (LybHash.hash_match_from A h).
Local Notation first_match_from := (LybHash.first_match_from A h).
Local Notation lyb_parse_schema_hash := (LybHash.lyb_parse_schema_hash BITS MASK COLID A h).
Local Notation hrec := (LybHash.hrec A).
Local Notation rec_hash := (LybHash.rec_hash A).
Local Notation rec_idx := (LybHash.rec_idx A).
Local Notation rec_node := (LybHash.rec_node A).

(* the bit shape of the hashes *)
Hypothesis HB : (2 <= B)%nat.
Hypothesis Hcol : forall a i, (i < B)%nat -> cid_from (S B) 0 (hn a i) = Some i.
Hypothesis Hassert : forall a i, (i < B)%nat -> N.land (hn a i) (N.shiftl MASK (BITS - N.of_nat i)) = 0.
Hypothesis Hlast : forall a b, hn a (B - 1) = hn b (B - 1).

(* ---------- collision id of a hash ---------- *)
Lemma cid_spec x : forall n i0 c,
  cid_from n i0 x = Some c ->
  (i0 <= c < i0 + n)%nat /\ N.land x (N.shiftr COLID (N.of_nat c)) <> 0 /\
  forall k, (i0 <= k < c)%nat -> N.land x (N.shiftr COLID (N.of_nat k)) = 0.
Proof.
  induction n as [|n IH]; intros i0 c E; cbn [LybHash.collision_id_from] in E; [discriminate|].
  destruct (N.land x (N.shiftr COLID (N.of_nat i0)) =? 0) eqn:Eb; cbn [negb] in E.
  - apply IH in E. destruct E as (E1 & E2 & E3). split; [lia|]. split; [exact E2|].
    intros k Hk. destruct (Nat.eq_dec k i0) as [->|Hne]; [apply N.eqb_eq; exact Eb|]. apply E3. lia.
  - inversion E; subst c. split; [lia|]. split; [apply N.eqb_neq; exact Eb|]. intros k Hk. lia.
Qed.

Lemma cid_zero : forall n i0, cid_from n i0 0 = None.
Proof.
  induction n as [|n IH]; intro i0; cbn [LybHash.collision_id_from]; [reflexivity|].
  rewrite N.land_0_l. cbn [N.eqb negb]. apply IH.
Qed.

Lemma h_nonzero a i : (i < B)%nat -> hn a i <> 0.
Proof. intros Hi E. pose proof (Hcol a i Hi) as H. rewrite E, cid_zero in H. discriminate. Qed.

Lemma h_inj_id a b i j : (i < B)%nat -> (j < B)%nat -> hn a i = hn b j -> i = j.
Proof.
  intros Hi Hj E. pose proof (Hcol a i Hi) as H1. pose proof (Hcol b j Hj) as H2.
  rewrite E in H1. congruence.
Qed.

Lemma h_bit0 a i : (i < B)%nat -> negb (N.land (hn a i) COLID =? 0) = Nat.eqb i 0.
Proof.
  intro Hi. destruct (cid_spec _ _ _ _ (Hcol a i Hi)) as (_ & E2 & E3).
  destruct i as [|i].
  - change (N.of_nat 0) with 0 in E2 |- *. rewrite N.shiftr_0_r in E2. apply N.eqb_neq in E2. rewrite E2. reflexivity.
  - specialize (E3 O ltac:(lia)). change (N.of_nat 0) with 0 in E3. rewrite N.shiftr_0_r in E3. rewrite E3. reflexivity.
Qed.

(* ---------- equal hash sequences ---------- *)
Lemma seq_eq_spec a b n : seq_eq a b n = true <-> forall i, (i < n)%nat -> hn a i = hn b i.
Proof.
  induction n as [|n IH]; cbn [LybHash.seq_eq].
  - split; [intros _ i Hi; lia|reflexivity].
  - rewrite andb_true_iff, N.eqb_eq, IH. split.
    + intros [H1 H2] i Hi. destruct (Nat.eq_dec i n) as [->|Hne]; [exact H1|apply H2; lia].
    + intro H. split; [apply H; lia|]. intros i Hi. apply H. lia.
Qed.

Lemma seq_eq_refl a n : seq_eq a a n = true.
Proof. apply seq_eq_spec. reflexivity. Qed.

Lemma seq_eq_trans a b c n : seq_eq a b n = true -> seq_eq b c n = true -> seq_eq a c n = true.
Proof. rewrite !seq_eq_spec. intros H1 H2 i Hi. rewrite H1, H2 by exact Hi. reflexivity. Qed.

Lemma seq_eq_sym a b n : seq_eq a b n = true -> seq_eq b a n = true.
Proof. rewrite !seq_eq_spec. intros H1 i Hi. symmetry. apply H1. exact Hi. Qed.

(* ---------- collisions through the table ---------- *)
(* some record of an id j <= i has the hash of x at j and its node agrees with x on 0..i *)
Definition Coll (ht : list hrec) (x : A) (i : nat) : Prop :=
  exists r, In r ht /\ exists j, (j <= i)%nat /\ rec_hash r = hn x j /\ seq_eq x (rec_node r) (S i) = true.
(* the same among the records of the nodes before k *)
Definition CollB (ht : list hrec) (k : nat) (x : A) (i : nat) : Prop :=
  exists r, In r ht /\ (rec_idx r < k)%nat /\
            exists j, (j <= i)%nat /\ rec_hash r = hn x j /\ seq_eq x (rec_node r) (S i) = true.

Lemma seqcheck_spec ht x j i :
  sequence_check ht x j i = true <->
  exists r, In r ht /\ rec_hash r = hn x j /\ seq_eq x (rec_node r) (S i) = true.
Proof.
  unfold LybHash.sequence_check. rewrite existsb_exists. split.
  - intros (r & Hr & Hb). apply andb_true_iff in Hb. destruct Hb as [H1 H2]. apply N.eqb_eq in H1.
    exists r. repeat split; assumption.
  - intros (r & Hr & H1 & H2). exists r. split; [exact Hr|]. rewrite H2, andb_true_r. apply N.eqb_eq. exact H1.
Qed.

Lemma lower_spec ht x i j :
  lower_ids_collide ht x i j = true <-> exists j', (j' < j)%nat /\ sequence_check ht x j' i = true.
Proof.
  induction j as [|j IH]; cbn [LybHash.lower_ids_collide].
  - split; [discriminate|]. intros (j' & Hj & _). lia.
  - rewrite orb_true_iff, IH. split.
    + intros [H|(j' & Hj & H)]; [exists j; split; [lia|exact H]|exists j'; split; [lia|exact H]].
    + intros (j' & Hj & H). destruct (Nat.eq_dec j' j) as [->|Hne]; [left; exact H|].
      right. exists j'. split; [lia|exact H].
Qed.

(* every record holds the hash of its node at some id *)
Definition TI (ht : list hrec) : Prop :=
  forall r, In r ht -> exists c, (c < B)%nat /\ rec_hash r = hn (rec_node r) c.

Lemma insert_spec : forall n i0 ht idx x ht',
  TI ht -> (i0 + n = B)%nat -> (forall i, (i < i0)%nat -> Coll ht x i) ->
  insert_sibling n i0 ht idx x = Some ht' ->
  exists c, (i0 <= c < B)%nat /\ ht' = ht ++ [(hn x c, idx, x)] /\ ~ Coll ht x c /\
            forall i, (i < c)%nat -> Coll ht x i.
Proof.
  induction n as [|n IH]; intros i0 ht idx x ht' Hti Hn Hbelow E; cbn [LybHash.insert_sibling] in E; [discriminate|].
  destruct (lower_ids_collide ht x i0 i0) eqn:El.
  - (* a lower id collides on 0..i0 *)
    apply (IH (S i0)) in E; [|exact Hti|lia|].
    + destruct E as (c & Hc & E). exists c. split; [lia|exact E].
    + intros i Hi. destruct (Nat.eq_dec i i0) as [->|Hne]; [|apply Hbelow; lia].
      apply lower_spec in El. destruct El as (j' & Hj & Hs). apply seqcheck_spec in Hs.
      destruct Hs as (r & Hr & H1 & H2). exists r. split; [exact Hr|]. exists j'. repeat split; try assumption. lia.
  - assert (Hnolow : forall r j, In r ht -> (j < i0)%nat -> rec_hash r = hn x j ->
                                 seq_eq x (rec_node r) (S i0) = true -> False).
    { intros r j Hr Hj H1 H2.
      assert (Hl : lower_ids_collide ht x i0 i0 = true).
      { apply lower_spec. exists j. split; [exact Hj|]. apply seqcheck_spec. exists r. repeat split; assumption. }
      rewrite Hl in El. discriminate. }
    destruct (existsb (fun r => rec_hash r =? hn x i0) ht) eqn:Ee; cbn [negb] in E.
    + destruct (negb (Nat.eqb i0 0) && negb (sequence_check ht x i0 i0)) eqn:E2.
      * (* inserted after the second check *)
        inversion E; subst ht'. exists i0. split; [lia|]. split; [reflexivity|]. split; [|exact Hbelow].
        apply andb_true_iff in E2. destruct E2 as [_ E2]. apply negb_true_iff in E2.
        intros (r & Hr & j & Hj & H1 & H2).
        destruct (Nat.eq_dec j i0) as [->|Hne]; [|apply (Hnolow r j); try assumption; lia].
        assert (Hs : sequence_check ht x i0 i0 = true) by (apply seqcheck_spec; exists r; repeat split; assumption).
        rewrite Hs in E2. discriminate.
      * (* blocked at i0 *)
        apply (IH (S i0)) in E; [|exact Hti|lia|].
        -- destruct E as (c & Hc & E). exists c. split; [lia|exact E].
        -- intros i Hi. destruct (Nat.eq_dec i i0) as [->|Hne]; [|apply Hbelow; lia].
           apply andb_false_iff in E2. destruct E2 as [E2|E2].
           ++ apply negb_false_iff in E2. apply Nat.eqb_eq in E2. subst i0.
              apply existsb_exists in Ee. destruct Ee as (r & Hr & H1). apply N.eqb_eq in H1.
              destruct (Hti r Hr) as (c & Hc & Hrc).
              assert (c = O) by (apply (h_inj_id (rec_node r) x c 0); [exact Hc|lia|congruence]). subst c.
              exists r. split; [exact Hr|]. exists O. split; [lia|]. split; [exact H1|].
              apply seq_eq_spec. intros i Hi'. assert (i = O) by lia. subst i. congruence.
           ++ apply negb_false_iff in E2. apply seqcheck_spec in E2. destruct E2 as (r & Hr & H1 & H2).
              exists r. split; [exact Hr|]. exists i0. repeat split; try assumption. lia.
    + (* no record with this hash: inserted *)
      inversion E; subst ht'. exists i0. split; [lia|]. split; [reflexivity|]. split; [|exact Hbelow].
      intros (r & Hr & j & Hj & H1 & H2).
      destruct (Nat.eq_dec j i0) as [->|Hne]; [|apply (Hnolow r j); try assumption; lia].
      assert (Hex : existsb (fun r => rec_hash r =? hn x i0) ht = true).
      { apply existsb_exists. exists r. split; [exact Hr|]. apply N.eqb_eq. exact H1. }
      rewrite Hex in Ee. discriminate.
Qed.

(* the last id is useless: whoever is blocked at B-2 is blocked at B-1 *)
Lemma coll_last ht x : Coll ht x (B - 2) -> Coll ht x (B - 1).
Proof.
  intros (r & Hr & j & Hj & H1 & H2). exists r. split; [exact Hr|]. exists j. split; [lia|]. split; [exact H1|].
  apply seq_eq_spec. intros i Hi. destruct (Nat.eq_dec i (B - 1)) as [->|Hne]; [apply Hlast|].
  rewrite seq_eq_spec in H2. apply H2. lia.
Qed.

(* ---------- invariant of the table ---------- *)
Definition GoodRec (ht : list hrec) (r : hrec) : Prop :=
  exists c, (c < B - 1)%nat /\ rec_hash r = hn (rec_node r) c /\
            ~ CollB ht (rec_idx r) (rec_node r) c /\
            forall i, (i < c)%nat -> CollB ht (rec_idx r) (rec_node r) i.
Definition Good (ht : list hrec) (n : nat) : Prop :=
  NoDup (map rec_idx ht) /\ forall r, In r ht -> (rec_idx r < n)%nat /\ GoodRec ht r.

Lemma good_TI ht n : Good ht n -> TI ht.
Proof.
  intros [_ H] r Hr. destruct (H r Hr) as (_ & c & Hc & Hh & _). exists c. split; [lia|exact Hh].
Qed.

Lemma collB_old ht new k x i :
  (k <= rec_idx new)%nat -> (CollB (ht ++ [new]) k x i <-> CollB ht k x i).
Proof.
  intro Hk. split; intros (r & Hr & Hi & Hrest).
  - apply in_app_or in Hr. destruct Hr as [Hr|[<-|[]]]; [|lia]. exists r. repeat split; assumption.
  - exists r. split; [apply in_or_app; left; exact Hr|]. split; assumption.
Qed.

Lemma collB_new ht n x i :
  (forall r, In r ht -> (rec_idx r < n)%nat) -> (CollB ht n x i <-> Coll ht x i).
Proof.
  intro Hn. split.
  - intros (r & Hr & _ & Hrest). exists r. split; assumption.
  - intros (r & Hr & Hrest). exists r. split; [exact Hr|]. split; [apply Hn; exact Hr|exact Hrest].
Qed.

Lemma good_step ht n x ht' :
  Good ht n -> insert_sibling B 0 ht n x = Some ht' ->
  Good ht' (S n) /\ exists c, ht' = ht ++ [(hn x c, n, x)].
Proof.
  intros HG E. pose proof HG as [Hnd Hrec].
  destruct (insert_spec B 0 ht n x ht' (good_TI _ _ HG) eq_refl ltac:(intros; lia) E)
    as (c & Hc & -> & Hno & Hlow).
  assert (Hc' : (c < B - 1)%nat).
  { destruct (Nat.eq_dec c (B - 1)) as [->|Hne]; [|lia].
    exfalso. apply Hno. apply coll_last. apply Hlow. lia. }
  assert (Hidx : forall r, In r ht -> (rec_idx r < n)%nat) by (intros r Hr; apply Hrec; exact Hr).
  split; [|exists c; reflexivity]. split.
  - rewrite map_app. cbn [map]. apply NoDup_snoc.
    + exact Hnd.
    + intro Hin. apply in_map_iff in Hin. destruct Hin as (r & Er & Hr). specialize (Hidx r Hr).
      unfold LybHash.rec_idx in Er at 2. cbn [fst snd] in Er. lia.
  - intros r Hr. apply in_app_or in Hr. destruct Hr as [Hr|[<-|[]]].
    + destruct (Hrec r Hr) as (Hi & c0 & Hc0 & Hh0 & Hno0 & Hlow0). split; [lia|].
      exists c0. split; [exact Hc0|]. split; [exact Hh0|]. split.
      * intro H. apply Hno0. apply (collB_old ht (hn x c, n, x)) in H; [exact H|]. cbn. lia.
      * intros i Hi'. apply (collB_old ht (hn x c, n, x)); [cbn; lia|]. apply Hlow0. exact Hi'.
    + split; [cbn; lia|]. exists c. split; [exact Hc'|]. split; [reflexivity|].
      change (rec_idx (hn x c, n, x)) with n. change (rec_node (hn x c, n, x)) with x. split.
      * intro H. apply Hno. apply (collB_old ht (hn x c, n, x)) in H; [|cbn; lia].
        apply (collB_new ht n); assumption.
      * intros i Hi'. apply (collB_old ht (hn x c, n, x)); [cbn; lia|]. apply (collB_new ht n); [exact Hidx|].
        apply Hlow. exact Hi'.
Qed.

Lemma from_good : forall l idx ht htf,
  hash_siblings_from l idx ht = Some htf -> Good ht idx ->
  Good htf (idx + length l) /\
  (forall r, In r ht -> In r htf) /\
  (forall k x, nth_error l k = Some x -> exists r, In r htf /\ rec_idx r = (idx + k)%nat /\ rec_node r = x).
Proof.
  induction l as [|x l IH]; intros idx ht htf E HG; cbn [LybHash.hash_siblings_from] in E.
  - inversion E; subst htf. cbn [length]. rewrite Nat.add_0_r. split; [exact HG|]. split; [auto|].
    intros k y Hk. destruct k; discriminate.
  - destruct (insert_sibling B 0 ht idx x) as [ht1|] eqn:E1; [|discriminate].
    destruct (good_step _ _ _ _ HG E1) as [HG1 (c & ->)].
    destruct (IH _ _ _ E HG1) as (HGf & Hsub & Hnth).
    split; [cbn [length]; replace (idx + S (length l))%nat with (S idx + length l)%nat by lia; exact HGf|].
    split; [intros r Hr; apply Hsub; apply in_or_app; left; exact Hr|].
    intros k y Hk. destruct k as [|k]; cbn [nth_error] in Hk.
    + inversion Hk; subst y. exists (hn x c, idx, x). split; [apply Hsub; apply in_or_app; right; left; reflexivity|].
      split; [cbn; lia|reflexivity].
    + destruct (Hnth k y Hk) as (r & Hr & Hi & Hn). exists r. split; [exact Hr|]. split; [lia|exact Hn].
Qed.

Lemma good_nil : Good [] 0.
Proof. split; [constructor|]. intros r []. Qed.

(* ---------- the core: an earlier node never matches the printed sequence of a later one ---------- *)
Lemma earlier_no_match ht n rn rm cn :
  Good ht n -> In rn ht -> In rm ht -> (rec_idx rm < rec_idx rn)%nat ->
  rec_hash rn = hn (rec_node rn) cn -> (cn < B)%nat ->
  seq_eq (rec_node rn) (rec_node rm) (S cn) = true -> False.
Proof.
  intros [Hnd Hrec] Hrn Hrm Hlt Hcn HcnB Hseq.
  destruct (Hrec rn Hrn) as (_ & cn' & Hcn' & Hh & Hno & Hlow).
  assert (cn' = cn) by (apply (h_inj_id (rec_node rn) (rec_node rn)); [lia|exact HcnB|congruence]). subst cn'.
  destruct (Hrec rm Hrm) as (_ & cm & Hcm & Hhm & Hnom & Hlowm).
  apply Hno. destruct (le_lt_dec cm cn) as [Hle|Hgt].
  - exists rm. split; [exact Hrm|]. split; [exact Hlt|]. exists cm. split; [exact Hle|]. split; [|exact Hseq].
    rewrite Hhm. symmetry. rewrite seq_eq_spec in Hseq. apply Hseq. lia.
  - destruct (Hlowm cn Hgt) as (r & Hr & Hri & j & Hj & H1 & H2).
    exists r. split; [exact Hr|]. split; [lia|]. exists j. split; [exact Hj|]. split.
    + rewrite H1. symmetry. rewrite seq_eq_spec in Hseq. apply Hseq. lia.
    + eapply seq_eq_trans; [exact Hseq|exact H2].
Qed.

(* ---------- printer ---------- *)
Lemma find_ok ht n rn cn :
  Good ht n -> In rn ht -> rec_hash rn = hn (rec_node rn) cn -> (cn < B)%nat ->
  forall m i, (i + m = B)%nat -> (i <= cn)%nat ->
  hash_find_from m i ht (rec_idx rn) (rec_node rn) = Some (hn (rec_node rn) cn).
Proof.
  intros [Hnd Hrec] Hrn Hcn HcnB. induction m as [|m IH]; intros i Him Hic; [lia|].
  cbn [LybHash.hash_find_from].
  destruct (hn (rec_node rn) i =? 0) eqn:Ez; [apply N.eqb_eq in Ez; exfalso; revert Ez; apply h_nonzero; lia|].
  destruct (existsb _ ht) eqn:Ee.
  - apply existsb_exists in Ee. destruct Ee as (r & Hr & Hb). apply andb_true_iff in Hb. destruct Hb as [H1 H2].
    apply N.eqb_eq in H1. apply Nat.eqb_eq in H2.
    assert (r = rn) by (apply (NoDup_map_inj_in rec_idx ht); assumption). subst r.
    rewrite Hcn in H1. assert (cn = i) by (apply (h_inj_id (rec_node rn) (rec_node rn)); [exact HcnB|lia|exact H1]).
    subst i. reflexivity.
  - destruct (Nat.eq_dec i cn) as [->|Hne]; [|apply IH; lia].
    exfalso. assert (Hex : existsb (fun r => (rec_hash r =? hn (rec_node rn) cn) && Nat.eqb (rec_idx r) (rec_idx rn)) ht = true).
    { apply existsb_exists. exists rn. split; [exact Hrn|]. rewrite Hcn, N.eqb_refl, Nat.eqb_refl. reflexivity. }
    rewrite Hex in Ee. discriminate.
Qed.

(* hashes c-1 .. 0 as printed, and 0 .. c-1 as stored by the parser *)
Fixpoint lowseq (x : A) (c : nat) : bytes := match c with O => [] | S c' => hn x c' :: lowseq x c' end.
Fixpoint upseq (x : A) (c : nat) : bytes := match c with O => [] | S c' => upseq x c' ++ [hn x c'] end.

Lemma lower_hashes_ok x c : (c <= B)%nat -> lower_hashes x c = Some (lowseq x c).
Proof.
  induction c as [|c IH]; intro Hc; cbn [LybHash.lower_hashes lowseq]; [reflexivity|].
  destruct (hn x c =? 0) eqn:Ez; [apply N.eqb_eq in Ez; exfalso; revert Ez; apply h_nonzero; lia|].
  rewrite IH by lia. reflexivity.
Qed.

Lemma print_ok ht n rn cn :
  Good ht n -> In rn ht -> rec_hash rn = hn (rec_node rn) cn -> (cn < B)%nat ->
  lyb_print_schema_hash ht (rec_idx rn) (rec_node rn) = Some (hn (rec_node rn) cn :: lowseq (rec_node rn) cn).
Proof.
  intros HG Hrn Hcn HcnB. unfold LybHash.lyb_print_schema_hash, LybHash.lyb_hash_find.
  rewrite (find_ok ht n rn cn HG Hrn Hcn HcnB B 0 eq_refl) by lia.
  rewrite h_bit0 by exact HcnB.
  destruct cn as [|cn]; [reflexivity|]. cbn [Nat.eqb].
  unfold LybHash.collision_id. rewrite Hcol by exact HcnB.
  rewrite lower_hashes_ok by lia. reflexivity.
Qed.

(* ---------- parser ---------- *)
Lemma read_lower_ok x rest : forall c, (c <= B)%nat ->
  read_lower c (lowseq x c ++ rest) = Ok (upseq x c, rest).
Proof.
  induction c as [|c IH]; intro Hc; cbn [LybHash.read_lower lowseq upseq app]; [reflexivity|].
  destruct (cid_spec _ _ _ _ (Hcol x c ltac:(lia))) as (_ & E2 & _).
  apply N.eqb_neq in E2. rewrite E2. rewrite Hassert by lia. cbn [N.eqb negb orb].
  rewrite IH by lia. reflexivity.
Qed.

Lemma hash_match_app x l1 : forall i l2,
  hash_match_from x i (l1 ++ l2) = hash_match_from x i l1 && hash_match_from x (i + length l1) l2.
Proof.
  induction l1 as [|a l1 IH]; intros i l2; cbn [LybHash.hash_match_from app length].
  - rewrite Nat.add_0_r. reflexivity.
  - rewrite IH, andb_assoc. replace (S i + length l1)%nat with (i + S (length l1))%nat by lia. reflexivity.
Qed.

Lemma upseq_length x c : length (upseq x c) = c.
Proof. induction c as [|c IH]; cbn [upseq length]; [reflexivity|]. rewrite app_length, IH. cbn. lia. Qed.

Lemma upseq_head x c : exists t, upseq x (S c) = hn x 0 :: t.
Proof.
  induction c as [|c IH]; [exists []; reflexivity|].
  destruct IH as (t & IH). cbn [upseq] in IH |- *. rewrite IH. eexists. reflexivity.
Qed.

Lemma hash_match_upseq y x c : hash_match_from y 0 (upseq x c) = seq_eq y x c.
Proof.
  induction c as [|c IH]; cbn [upseq LybHash.seq_eq]; [reflexivity|].
  rewrite hash_match_app, IH, upseq_length. cbn [LybHash.hash_match_from Nat.add]. rewrite andb_true_r.
  apply andb_comm.
Qed.

Lemma first_match_ok hashes x : forall L off k,
  nth_error L k = Some x -> hash_match_from x 0 hashes = true ->
  (forall k' y, (k' < k)%nat -> nth_error L k' = Some y -> hash_match_from y 0 hashes = false) ->
  first_match_from L off hashes = Some (off + k)%nat.
Proof.
  induction L as [|y L IH]; intros off k Hk Hm Hbefore; [destruct k; discriminate|].
  cbn [LybHash.first_match_from]. destruct k as [|k]; cbn [nth_error] in Hk.
  - inversion Hk; subst y. rewrite Hm, Nat.add_0_r. reflexivity.
  - rewrite (Hbefore O y) by (try lia; reflexivity).
    rewrite (IH (S off) k Hk Hm); [f_equal; lia|].
    intros k' z Hk' Hz. apply (Hbefore (S k') z); [lia|exact Hz].
Qed.

(* lyb_hashseq_identifies for an abstract hash function of the right shape *)
Theorem hashseq_identifies_gen L ht :
  lyb_hash_siblings L = Some ht ->
  forall k x, nth_error L k = Some x ->
  exists bs, lyb_print_schema_hash ht k x = Some bs /\
             forall rest, lyb_parse_schema_hash L (bs ++ rest) = Ok (Some k, rest).
Proof.
  intros E k x Hk. unfold LybHash.lyb_hash_siblings in E.
  destruct (from_good _ _ _ _ E good_nil) as (HG & _ & Hnth). cbn [Nat.add] in HG, Hnth.
  destruct (Hnth k x Hk) as (rn & Hrn & Hik & Hnx).
  pose proof HG as [Hnd Hrec]. destruct (Hrec rn Hrn) as (_ & cn & Hcn & Hh & _).
  assert (HcnB : (cn < B)%nat) by lia.
  exists (hn x cn :: lowseq x cn). split.
  - rewrite <- Hik, <- Hnx. apply (print_ok ht _ rn cn HG Hrn Hh HcnB).
  - intro rest. unfold LybHash.lyb_parse_schema_hash, LybHash.lyb_read_hashes. cbn [app].
    destruct (hn x cn =? 0) eqn:Ez; [apply N.eqb_eq in Ez; exfalso; revert Ez; apply h_nonzero; exact HcnB|].
    unfold LybHash.collision_id. rewrite Hcol by exact HcnB.
    destruct (Nat.leb (B - 1) cn) eqn:El; [apply Nat.leb_le in El; lia|].
    rewrite read_lower_ok by lia.
    change (upseq x cn ++ [hn x cn]) with (upseq x (S cn)).
    assert (Hfm : first_match_from L 0 (upseq x (S cn)) = Some k).
    { apply (first_match_ok _ x L O k Hk).
      - rewrite hash_match_upseq. apply seq_eq_refl.
      - intros k' y Hk' Hy. destruct (hash_match_from y 0 (upseq x (S cn))) eqn:Em; [|reflexivity].
        exfalso. rewrite hash_match_upseq in Em.
        destruct (Hnth k' y Hy) as (rm & Hrm & Him & Hny).
        apply (earlier_no_match ht _ rn rm cn HG Hrn Hrm); [lia|exact Hh|exact HcnB|].
        rewrite Hnx, Hny. apply seq_eq_sym. exact Em. }
    destruct (upseq_head x cn) as (t & Eu). rewrite Eu in Hfm |- *.
    destruct (hn x 0) as [|p] eqn:E0; [exfalso; apply (h_nonzero x 0); [lia|exact E0]|].
    rewrite Hfm. reflexivity.
Qed.

End SibProofs.

(* ------------------------------------------------------------------------------------------ *)
(* the hashes of lyb_generate_hash() have the shape, for the constants of src/lyb.h            *)
(* ------------------------------------------------------------------------------------------ *)
Definition shape_chk (j : nat) (v : N) : bool :=
  let i := N.of_nat j in
  let g := N.lor v (N.shiftr Consts.LYB_HASH_COLLISION_ID i) mod 256 in
  match collision_id_from Consts.LYB_HASH_COLLISION_ID (S (N.to_nat Consts.LYB_HASH_BITS)) 0 g with
  | Some c => Nat.eqb c j
  | None => false
  end
  && (N.land g (N.shiftl Consts.LYB_HASH_MASK (Consts.LYB_HASH_BITS - i)) =? 0)
  && (negb (Nat.eqb j (N.to_nat Consts.LYB_HASH_BITS - 1)) || (g =? 1)).

Lemma shape_all : forall j, (j < 8)%nat -> forall v, v < 2 ^ (7 - N.of_nat j) -> shape_chk j v = true.
Proof.
  intros j Hj.
  do 8 (destruct j as [|j]; [apply N_all_below_spec; vm_cast_no_check (eq_refl true)|]). lia.
Qed.

Lemma gen_hash_shape m n j :
  (j < 8)%nat -> shape_chk j (N.land (lyht_hash_multi
     (if N.of_nat j =? 0 then lyht_hash_multi (lyht_hash_multi 0 (Some m)) (Some n)
      else lyht_hash_multi (lyht_hash_multi (lyht_hash_multi 0 (Some m)) (Some n))
             (Some (firstn (N.to_nat (if N.of_nat (length m) <? N.of_nat j then N.of_nat (length m) else N.of_nat j)) m)))
     None) (N.shiftr Consts.LYB_HASH_MASK (N.of_nat j))) = true.
Proof.
  intro Hj. apply shape_all; [exact Hj|].
  generalize (lyht_hash_multi
     (if N.of_nat j =? 0 then lyht_hash_multi (lyht_hash_multi 0 (Some m)) (Some n)
      else lyht_hash_multi (lyht_hash_multi (lyht_hash_multi 0 (Some m)) (Some n))
             (Some (firstn (N.to_nat (if N.of_nat (length m) <? N.of_nat j then N.of_nat (length m) else N.of_nat j)) m)))
     None).
  intro full.
  assert (E : N.shiftr Consts.LYB_HASH_MASK (N.of_nat j) = N.ones (7 - N.of_nat j)).
  { do 8 (destruct j as [|j]; [reflexivity|]). lia. }
  rewrite E, N.land_ones. apply N.mod_lt. apply N.pow_nonzero. lia.
Qed.

Lemma gen_hash_chk m n j :
  (j < 8)%nat -> exists v, shape_chk j v = true /\
  gen_hash m n (N.of_nat j) = N.lor v (N.shiftr Consts.LYB_HASH_COLLISION_ID (N.of_nat j)) mod 256.
Proof.
  intro Hj. eexists. split; [apply (gen_hash_shape m n j Hj)|]. reflexivity.
Qed.

Lemma nth_error_seq_val : forall n a k x, nth_error (seq a n) k = Some x -> x = (a + k)%nat.
Proof.
  induction n as [|n IH]; intros a k x H; cbn [seq] in H; [destruct k; discriminate|].
  destruct k as [|k]; cbn [nth_error] in H; [inversion H; lia|]. apply IH in H. lia.
Qed.

Lemma get_hash_gen c i : get_hash c i = gen_hash (fst (node_of c)) (snd (node_of c)) i.
Proof.
  unfold get_hash, node_of. destruct c as [[n l] H]. cbn [proj1_sig fst snd] in *. subst l.
  unfold hash_cache. destruct (nth_error _ (N.to_nat i)) as [v|] eqn:E; [|reflexivity].
  rewrite nth_error_map in E. destruct (nth_error (seq 0 _) (N.to_nat i)) as [k|] eqn:Ek; [|discriminate].
  cbn [option_map] in E. inversion E; subst v. apply nth_error_seq_val in Ek. subst k.
  cbn [Nat.add]. rewrite N2Nat.id. reflexivity.
Qed.

Section Inst.
Let BITS := Consts.LYB_HASH_BITS.
Let MASK := Consts.LYB_HASH_MASK.
Let COLID := Consts.LYB_HASH_COLLISION_ID.

Lemma inst_HB : (2 <= N.to_nat BITS)%nat.
Proof. vm_compute. lia. Qed.

Lemma inst_Hcol : forall (a : cnode) i, (i < N.to_nat BITS)%nat ->
  collision_id_from COLID (S (N.to_nat BITS)) 0 (get_hash a (N.of_nat i)) = Some i.
Proof.
  intros a i Hi. rewrite get_hash_gen.
  destruct (gen_hash_chk (fst (node_of a)) (snd (node_of a)) i Hi) as (v & Hv & ->).
  unfold shape_chk in Hv. apply andb_true_iff in Hv. destruct Hv as [Hv _].
  apply andb_true_iff in Hv. destruct Hv as [Hv _].
  fold COLID BITS in Hv.
  destruct (collision_id_from COLID (S (N.to_nat BITS)) 0 _) as [c|]; [|discriminate].
  apply Nat.eqb_eq in Hv. subst c. reflexivity.
Qed.

Lemma inst_Hassert : forall (a : cnode) i, (i < N.to_nat BITS)%nat ->
  N.land (get_hash a (N.of_nat i)) (N.shiftl MASK (BITS - N.of_nat i)) = 0.
Proof.
  intros a i Hi. rewrite get_hash_gen.
  destruct (gen_hash_chk (fst (node_of a)) (snd (node_of a)) i Hi) as (v & Hv & ->).
  unfold shape_chk in Hv. apply andb_true_iff in Hv. destruct Hv as [Hv _].
  apply andb_true_iff in Hv. destruct Hv as [_ Hv]. apply N.eqb_eq in Hv. exact Hv.
Qed.

Lemma inst_Hlast : forall a b : cnode,
  get_hash a (N.of_nat (N.to_nat BITS - 1)) = get_hash b (N.of_nat (N.to_nat BITS - 1)).
Proof.
  assert (H : forall a : cnode, get_hash a (N.of_nat (N.to_nat BITS - 1)) = 1).
  { intro a. rewrite get_hash_gen.
    destruct (gen_hash_chk (fst (node_of a)) (snd (node_of a)) (N.to_nat BITS - 1) ltac:(vm_compute; lia)) as (v & Hv & ->).
    unfold shape_chk in Hv. apply andb_true_iff in Hv. destruct Hv as [_ Hv].
    fold BITS in Hv. rewrite Nat.eqb_refl in Hv. cbn [negb orb] in Hv. apply N.eqb_eq in Hv. exact Hv. }
  intros a b. rewrite !H. reflexivity.
Qed.

(* lyb_hashseq_identifies for the model of the code *)
Theorem lyb_hashseq_identifies_proof :
  forall (l : list snode) ht,
    hash_siblings l = Some ht ->
    forall k n, nth_error l k = Some n ->
    exists bs, print_schema_hash ht k n = Some bs /\
               forall rest, parse_schema_hash l (bs ++ rest) = Ok (Some k, rest).
Proof.
  intros l ht E k n Hk. unfold hash_siblings in E.
  apply (hashseq_identifies_gen BITS MASK COLID cnode get_hash inst_HB inst_Hcol inst_Hassert inst_Hlast
           (map cache_node l) ht E k (cache_node n)).
  apply map_nth_error. exact Hk.
Qed.
End Inst.

(* ------------------------------------------------------------------------------------------ *)
(* hashing can fail for distinct names                                                         *)
(* ------------------------------------------------------------------------------------------ *)
Definition refuting_siblings : list snode :=
  [([109], [110; 50; 57]); ([109], [110; 56; 56])].     (* m:n29, m:n88 *)

(* the two nodes have the same hash for every collision id *)
Lemma refuting_collide :
  forallb (fun i => gen_hash [109] [110; 50; 57] i =? gen_hash [109] [110; 56; 56] i) [0; 1; 2; 3; 4; 5; 6; 7] = true.
Proof. vm_compute. reflexivity. Qed.

Theorem hash_total_refuted_proof : exists l : list snode, NoDup l /\ hash_siblings l = None.
Proof.
  exists refuting_siblings. split.
  - unfold refuting_siblings. constructor; [|constructor; [intros []|constructor]].
    intros [H|[]]. discriminate.
  - (* through a boolean: the type of the table must not be normalised *)
    assert (H : (match hash_siblings refuting_siblings with None => true | Some _ => false end) = true)
      by (vm_compute; reflexivity).
    destruct (hash_siblings refuting_siblings); [discriminate|reflexivity].
Qed.

(* the hypothesis of lyb_hashseq_identifies is met by non-trivial sibling sets: four leaves a, b, c, n256 of
   module m; n256 collides with a on collision id 0 (hash 0xca) and is printed with two hashes (id 1 first) *)
Example hashseq_example :
  match hash_siblings [([109], [97]); ([109], [98]); ([109], [99]); ([109], [110; 50; 53; 54])] with
  | Some ht => (print_schema_hash ht 0 ([109], [97]), print_schema_hash ht 3 ([109], [110; 50; 53; 54]))
  | None => (None, None)
  end = (Some [202], Some [71; 202]).
Proof. vm_compute. reflexivity. Qed.


