(* Properties_C19_yl.v - property C19 (a context can be rebuilt from its own yang-library description):
   theorem statements only.
   Models: ModHash.v (ly_ctx_get_modules_hash with lysp_feature_next, change counter; as of /repo commits c8adb05,
   d4e18d7), YangLib.v (ly_ctx_get_yanglib_data with ylib_feature / ylib_deviation / ylib_submodules, ly_ctx_new_yldata,
   ly_ctx_load_module, lysp_load_submodules as of 272016c); proofs: ModHashP.v, YangLibP.v.
   modhash = modhash_gen true is the code as it is (feature iterator index reset per module), mod_stream the byte
   stream it hashes; modhash_gen false is the former code and only appears in the regression example. *)
From LY Require Import Base HashFn ModHash ModHashP YangLib YangLibP.
Local Open Scope N_scope.

(* ---------------------------------- module-set hash ---------------------------------- *)

(* The model never runs out of fuel, and the value is lyht_hash_multi folded over exactly these strings: per
   module its name, its revision if any, the names of all its enabled features (module, then submodules), the
   implemented byte; then the finalisation. *)
Theorem C19_modhash_is_hash_of_chunks :
  forall ms, modhash ms = Some (hash_chunks (chunks_gen true ms)).
Proof. exact (modhash_gen_chunks true). Qed.
Print Assumptions C19_modhash_is_hash_of_chunks.

(* For modules whose names, revisions and feature names are not empty (guaranteed by the YANG parser) the value
   is the one-at-a-time hash of the concatenation of those strings: nothing but the byte stream matters. *)
Theorem C19_modhash_is_hash_of_stream :
  forall ms, forallb wf_mod ms = true -> modhash ms = Some (hash_stream (mod_stream ms)).
Proof. exact (modhash_gen_stream true). Qed.
Print Assumptions C19_modhash_is_hash_of_stream.

(* modhash_congruent: equal ordered observables (name, revision, implemented, the enabled feature names of module
   and submodules as one list) give equal hashes. *)
Theorem C19_modhash_congruent :
  forall ms ms', map obs_flat ms = map obs_flat ms' -> modhash ms = modhash ms'.
Proof. exact modhash_fixed_congruent_flat. Qed.
Print Assumptions C19_modhash_congruent.

(* the same on the finer observable that keeps the feature arrays apart *)
Theorem C19_modhash_congruent_obs :
  forall ms ms', map obs ms = map obs ms' -> modhash ms = modhash ms'.
Proof. exact (modhash_gen_congruent true). Qed.
Print Assumptions C19_modhash_congruent_obs.

(* modhash_stream_reads_every_field, part 1: changing the name, the revision or the implemented flag of ANY one
   module of a list changes the hashed byte stream. *)
Theorem C19_modhash_stream_reads_name_rev_impl :
  forall pre m m' post, wf_mod m = true -> wf_mod m' = true -> field_change m m' ->
    mod_stream (pre ++ m :: post) <> mod_stream (pre ++ m' :: post).
Proof. exact (stream_reads_name_rev_impl true). Qed.
Print Assumptions C19_modhash_stream_reads_name_rev_impl.

(* part 2, full strength: toggling one feature (of the module itself or of any submodule, g = number of the
   feature array) of ANY module changes the hashed byte stream.
   History: false for the code before c8adb05 (fi not reset: the features of every module but the first were
   skipped); it was proved for the first module only and refuted with the witness of C19_former_fi_witness. *)
Theorem C19_modhash_stream_reads_every_feature :
  forall pre m m' post g fname, feature_toggled m m' g fname -> nonempty fname = true ->
    mod_stream (pre ++ m :: post) <> mod_stream (pre ++ m' :: post).
Proof. exact stream_fixed_reads_features. Qed.
Print Assumptions C19_modhash_stream_reads_every_feature.

(* regression: the former refutation witness.  m1 revision 2020-01-01 with a on, b off and m2 with c on / c off
   used to have the one hash 2169919692 (model of the former code); now they have two (both values confirmed on
   the library). *)
Example C19_former_fi_witness :
  modhash [w_m1; w_m2 true] = Some 2926982747 /\ modhash [w_m1; w_m2 false] = Some 2169919692 /\
  modhash_gen false [w_m1; w_m2 true] = Some 2169919692 /\ modhash_gen false [w_m1; w_m2 false] = Some 2169919692.
Proof. destruct fi_witness as (H1 & H2 & H3 & H4 & _). repeat split; assumption. Qed.

(* The byte stream does not determine the module set: the strings are fed without separators or lengths
   (finding yl-hash-concat).  Witnesses (confirmed on the library): module m with features a, ab, bc, c and
   {ab, c} or {a, bc} enabled; module a revision 2020-01-01 and module a2020-01-01 without revision. *)
Theorem C19_modhash_stream_injective_refuted :
  exists ms ms', forallb wf_mod ms = true /\ forallb wf_mod ms' = true /\
    map obs_flat ms <> map obs_flat ms' /\ mod_stream ms = mod_stream ms' /\ modhash ms = modhash ms'.
Proof.
  exists [w_amb false true false true], [w_amb true false true false].
  destruct (concat_witness true) as (H1 & H2 & H3 & H4 & _).
  split; [reflexivity|]. split; [reflexivity|]. split; [exact H4|]. split; [exact H1|].
  unfold modhash. change FI_RESET with true. rewrite H2, H3. reflexivity.
Qed.
Print Assumptions C19_modhash_stream_injective_refuted.

Theorem C19_modhash_name_revision_boundary_refuted :
  map obs_flat [w_nr1] <> map obs_flat [w_nr2] /\ mod_stream [w_nr1] = mod_stream [w_nr2] /\
  modhash [w_nr1] = Some 3673482515 /\ modhash [w_nr2] = Some 3673482515.
Proof.
  destruct (concat_witness true) as (_ & _ & _ & _ & H5 & H6 & H7 & H8).
  split; [exact H8|]. split; [exact H5|]. split; assumption.
Qed.
Print Assumptions C19_modhash_name_revision_boundary_refuted.

(* what an injective encoding looks like (Spec): every string followed by a 0 byte, an absent revision as the
   empty string, the feature list closed by an empty string, then the implemented byte - i.e. hashing the strings
   with their terminating NUL.  It determines name, revision, implemented flag and enabled features of every module. *)
Theorem C19_spec_stream_injective :
  forall os os', Forall wf_obs os -> Forall wf_obs os' -> spec_stream os = spec_stream os' -> os = os'.
Proof. exact spec_stream_injective. Qed.
Print Assumptions C19_spec_stream_injective.

(* ---------------------------------- change counter ---------------------------------- *)

(* The counter is a uint16_t incremented once per module added, per module compiled, per module made implemented
   and per feature change of an implemented module (the last two since d4e18d7, so also under
   LY_CTX_EXPLICIT_COMPILE every change has an event).  After an operation with n such events, 0 < n < 2^16,
   its value differs from the value before. *)
Theorem C19_change_count_differs :
  forall c n, c < U16 -> 0 < n < U16 -> cc_after c n <> c.
Proof. exact cc_after_changes. Qed.
Print Assumptions C19_change_count_differs.

(* in particular consecutive values differ *)
Theorem C19_change_count_consecutive : forall c, c < U16 -> cc_incr c <> c.
Proof. exact cc_incr_changes. Qed.
Print Assumptions C19_change_count_consecutive.

(* change_count_strict refuted: the counter is not strictly increasing, after 2^16 events it has an OLD value *)
Theorem C19_change_count_strict_refuted : exists c n, c < U16 /\ 0 < n /\ cc_after c n = c.
Proof. exists 1, U16. split; [reflexivity|]. split; [reflexivity|]. apply cc_wraps. reflexivity. Qed.
Print Assumptions C19_change_count_strict_refuted.

(* The counter across lys_set_implemented(mod, features) (model set_impl_op: lys_set_features with its change flag,
   _lys_set_implemented, lys_implement; under LY_CTX_EXPLICIT_COMPILE, so no compile events; module without augment /
   deviation statements, one record per (name, revision)): a call that changes the context (the implemented flag or an
   enabled feature of the module) is counted at least once, a call that changes nothing is not counted, never more
   than one event; so the counter value differs exactly after the changing calls. *)
Theorem C19_set_implemented_counted :
  forall c k fs m c' n, NoDup (map key_of c) -> find_key k c = Some m -> y_deps m = [] ->
    set_impl_op true true c k fs = Ok (c', n) ->
    (c' <> c -> 1 <= n) /\ (c' = c -> n = 0) /\ n <= 1 /\
    (forall cnt, cnt < U16 -> c' <> c -> cc_after cnt n <> cnt).
Proof. exact set_implemented_counted. Qed.
Print Assumptions C19_set_implemented_counted.

(* regression of two seeded variants (the booleans of set_impl_op): with the disable arm of lys_set_features not
   setting its change flag, switching g off is not counted (0 events, context changed); with lys_implement not
   counting, making x implemented is not counted; the code counts 1 in both cases and 0 for a call that sets the
   features already set *)
Example C19_counter_seed_witnesses :
  set_impl_op true true [cnt_m true true true] (e_x, None) (F_list [[102]]) = Ok ([cnt_m true true false], 1) /\
  set_impl_op false true [cnt_m true true true] (e_x, None) (F_list [[102]]) = Ok ([cnt_m true true false], 0) /\
  set_impl_op true true [cnt_m false false false] (e_x, None) F_keep = Ok ([cnt_m true false false], 1) /\
  set_impl_op true false [cnt_m false false false] (e_x, None) F_keep = Ok ([cnt_m true false false], 0) /\
  set_impl_op true true [cnt_m true true false] (e_x, None) (F_list [[102]]) = Ok ([cnt_m true true false], 0).
Proof. exact counter_seed_witnesses. Qed.

(* ---------------------------------- yang-library round trip ---------------------------------- *)

(* The description tells the observable: reading the module and import-only-module entries back gives exactly
   the (name, revision, implemented, enabled features) of the modules of the context, provided a present revision
   is not the empty string and modules that are not implemented have no enabled feature. *)
Theorem C19_describe_tells_obs :
  forall cid c, (forall m, In m c -> visible m) ->
    forall o, In o (undescribe (describe cid c)) <-> In o (map (fun m => obs_flat (y_mod m)) c).
Proof. exact describe_tells_obs. Qed.
Print Assumptions C19_describe_tells_obs.

(* ---- submodule graphs (YANG 1.0 injected includes, includes between submodules) ---- *)

(* The includes array of a module as lysp_load_submodules builds it (the order of the feature arrays in the context
   and in the description; /repo commit 272016c): it holds exactly the submodules of the include closure of the
   module, each once; refused graphs only in YANG 1.1. *)
Theorem C19_includes_array_is_closure :
  forall incs v11, wf_incs incs -> NoDup (inc_of incs O) ->
    match includes_order v11 incs with
    | Ok l => NoDup l /\ (forall j, In j l <-> sreach incs j)
    | Err _ => v11 = true
    end.
Proof.
  intros incs v11 Hwf Hnd. pose proof (includes_order_spec incs Hwf false v11 Hnd) as H.
  change (includes_order v11 incs) with (includes_order_gen false v11 incs).
  destruct (includes_order_gen false v11 incs) as [l|e]; [|exact H].
  destruct H as (H1 & H2 & H3). split; [exact H1|]. intros j. split; [apply H2|apply H3; reflexivity].
Qed.
Print Assumptions C19_includes_array_is_closure.

(* Full strength: the feature leaf-list of the description (ylib_feature over the includes array, injected includes
   too) lists EVERY enabled feature of the module and of the submodules of its include closure, nothing else, and
   each exactly once (feature names are distinct within a module; the parser checks that).
   History: refuted for the code before 272016c (C19_former_sub_skip_witness). *)
Theorem C19_description_lists_closure_features :
  forall incs gs v11, wf_incs incs -> NoDup (inc_of incs O) -> NoDup (map f_name (concat gs)) ->
    match includes_order v11 incs with
    | Ok order =>
        NoDup (listed_features gs order) /\
        (forall x, In x (listed_features gs order) <->
           exists k f, (k = O \/ sreach incs k) /\ In f (nth k gs []) /\ f_en f = true /\ f_name f = x)
    | Err _ => v11 = true
    end.
Proof.
  intros incs gs v11 Hwf Hnd Hn. pose proof (listed_features_spec incs gs false v11 Hwf Hnd Hn) as H.
  change (includes_order v11 incs) with (includes_order_gen false v11 incs).
  destruct (includes_order_gen false v11 incs) as [order|e]; [|exact H].
  destruct H as (H1 & H2 & H3). split; [exact H1|]. intros x. split; [apply H2|].
  intros (k & f & Hk & Hin & Hen & <-). apply (H3 eq_refl k f Hk Hin Hen).
Qed.
Print Assumptions C19_description_lists_closure_features.

(* regression: the former refutation witness (module includes s1, s2; s2 includes s1 and s3).  The model of the
   former code stops the include loop of s2 at s1 and leaves s3 out (array 1 2, feature d of s3 not listed); the
   code now gives the array 1 2 3 and lists d (both confirmed on the library). *)
Example C19_former_sub_skip_witness :
  let incs := [[1; 2]; []; [1; 3]; []]%nat in
  let gs := [[mkfeat [97] true]; [mkfeat [98] true]; [mkfeat [99] true]; [mkfeat [100] true]] in
  includes_order false incs = Ok [1; 2; 3]%nat /\ In [100] (listed_features gs [1; 2; 3]%nat) /\
  includes_order_gen true false incs = Ok [1; 2]%nat /\ ~ In [100] (listed_features gs [1; 2]%nat) /\ sreach incs 3.
Proof.
  destruct sub_skip_witness as (H1 & H2 & H3 & _).
  split; [exact H2|]. split; [vm_compute; auto 10|]. split; [exact H1|]. split; [|exact H3].
  vm_compute. intros [H|[H|[H|[]]]]; discriminate.
Qed.

(* the order of injected includes (confirmed on the library): chain m -> s1 -> s2 -> s3 gives s1 s3 s2, the diamond
   s1 s2 s3; YANG 1.1 refuses an include that the module lacks and keeps the order of the module *)
Example C19_includes_order_examples :
  includes_order false [[1]; [2]; [3]; []]%nat = Ok [1; 3; 2]%nat /\
  includes_order false [[1; 2]; [3]; [3]; []]%nat = Ok [1; 2; 3]%nat /\
  includes_order true [[1]; [2]; [3]; []]%nat = Err E_SUB11 /\
  includes_order true [[3; 1; 2]; [2]; []; [1; 2]]%nat = Ok [3; 1; 2]%nat.
Proof. exact includes_order_examples. Qed.

(* Every submodule of the include closure of a module is described exactly once, with its revision, and nothing
   else is (ylib_submodules over the includes array; sinfo j = name and revision of submodule j, names distinct). *)
Theorem C19_description_lists_closure_submodules :
  forall incs v11 (sinfo : nat -> bytes * option bytes),
    wf_incs incs -> NoDup (inc_of incs O) -> (forall i j, fst (sinfo i) = fst (sinfo j) -> i = j) ->
    match includes_order v11 incs with
    | Ok order =>
        NoDup (map fst (map sinfo order)) /\
        (forall j, sreach incs j -> In (sinfo j) (map sinfo order)) /\
        (forall e, In e (map sinfo order) -> exists j, sreach incs j /\ e = sinfo j)
    | Err _ => v11 = true
    end.
Proof. exact described_submodules_spec. Qed.
Print Assumptions C19_description_lists_closure_submodules.

(* the submodule entries of a module / import-only-module entry are the includes array of the module *)
Theorem C19_description_submodule_entries :
  forall c m, ym_submodules (describe_module c m) = y_subs m /\ yi_submodules (describe_imponly m) = y_subs m.
Proof. exact describe_submodules. Qed.
Print Assumptions C19_description_submodule_entries.

(* The deviation list of an implemented module = exactly the implemented modules of the context that deviate it
   (what lys_implement registers in deviated_by); a module that is not implemented has none. *)
Theorem C19_description_deviation_list :
  forall c m,
    (y_impl m = true -> forall n, In n (ym_deviations (describe_module c m)) <->
       exists d, In d c /\ y_impl d = true /\ deviates d m = true /\ y_name d = n) /\
    (y_impl m = false -> ym_deviations (describe_module c m) = []).
Proof. exact describe_deviations_spec. Qed.
Print Assumptions C19_description_deviation_list.

(* describe (rebuild (describe s)) = describe s on the modelled part: the rebuilt context has the same records, its
   description has the same import-only-module entries and module entries that say the same (name, revision,
   namespace, features, submodules; the system-ordered deviation leaf-list as a set).  rt_ok now allows augment and
   deviation statements (through imports, original context settled: their targets are implemented). *)
Theorem C19_describe_rebuild_describe :
  forall src s c0 rk cid, rt_ok src s c0 rk ->
    exists s', rebuild (describe cid s) src c0 = Ok s' /\
      (forall e, In e (yl_imponly (describe cid s')) <-> In e (yl_imponly (describe cid s))) /\
      (forall e, In e (yl_modules (describe cid s')) -> exists e', In e' (yl_modules (describe cid s)) /\ entry_same e e') /\
      (forall e, In e (yl_modules (describe cid s)) -> exists e', In e' (yl_modules (describe cid s')) /\ entry_same e e').
Proof. exact describe_rebuild_describe. Qed.
Print Assumptions C19_describe_rebuild_describe.

(* the hypotheses are satisfiable with augment / deviation statements: x deviates a, b augments a and imports x, a
   has a submodule; the context is settled, and the model computes its round trip *)
Example C19_roundtrip_hypotheses_with_deviation :
  rt_ok d_src d_s [] d_rk /\ rebuild (describe [] d_s) d_src [] = Ok d_s /\ settle d_s = d_s.
Proof. split; [exact d_rt_ok|exact d_rebuild]. Qed.

(* with a deviation the model computes: x deviates a; loading x implements a; the description of a lists x; the
   rebuild from the description gives the same context *)
Example C19_deviation_roundtrip_computed :
  load_module 5 [d_x false; d_a] [] e_x None (F_list []) = Ok (settle [d_x true; d_a]) /\
  y_impl (nth 1 (settle [d_x true; d_a]) d_a) = true /\
  ym_deviations (describe_module (settle [d_x true; d_a]) (nth 1 (settle [d_x true; d_a]) d_a)) = [e_x] /\
  rebuild (describe [] (settle [d_x true; d_a])) [d_x false; d_a] [] = Ok (settle [d_x true; d_a]).
Proof. exact e_deviation_roundtrip. Qed.

(* yanglib_roundtrip: under rt_ok (same sources; every import means a module of the context, an import without
   revision-date only names a module with a single revision = imports_pinned; acyclic imports; import-only modules
   are reachable from implemented ones; augment / deviation statements go through imports and their targets are
   implemented in the original; the rebuilding context c0 may already hold modules of the original, the
   implemented ones in any feature state) rebuilding from the description succeeds and the new context holds exactly
   the module records of the old one: the same implemented modules at the same revisions with the same enabled
   features and every import-only module the description lists.  Compilation is not modelled. *)
Theorem C19_yanglib_roundtrip :
  forall src s c0 rk cid, rt_ok src s c0 rk ->
    exists s', rebuild (describe cid s) src c0 = Ok s' /\ NoDup (map key_of s') /\
               (forall x, In x s' <-> In x s) /\ (forall h, In h (ctx_obs s') <-> In h (ctx_obs s)).
Proof. exact yanglib_roundtrip. Qed.
Print Assumptions C19_yanglib_roundtrip.

(* rt_ok contains imports_pinned *)
Theorem C19_roundtrip_needs_imports_pinned : forall src s c0 rk, rt_ok src s c0 rk -> imports_pinned src s.
Proof. exact rt_ok_imports_pinned. Qed.
Print Assumptions C19_roundtrip_needs_imports_pinned.

(* the hypotheses are satisfiable by a non-trivial value: module x (feature f and submodule feature h enabled)
   imports a with revision-date 2019-01-01 (the sources also hold a revision 2020-01-01) and b without
   revision-date; a imports b; and the model computes the round trip, also on top of the internal modules *)
Example C19_hypotheses_satisfiable :
  rt_ok e_src e_s [] e_rk /\ rebuild (describe [] e_s) e_src [] = Ok e_s /\
  rebuild (describe [] (initial_ctx ++ e_s)) e_src initial_ctx = Ok (initial_ctx ++ e_s).
Proof. split; [exact e_rt_ok|]. split; [exact e_rebuild|exact e_rebuild_internal]. Qed.

(* the theorem covers rebuilding INTO a populated context (c0): an entry of c0 may be an implemented module of the
   original with ANY feature state; here x is already implemented with g on and f, h off, and the rebuild sets
   exactly the described features.  The feature array of an entry without feature leaves must be the empty array
   (disable all), not NULL (keep): the model tells the two apart. *)
Example C19_roundtrip_into_populated_context :
  rt_ok e_src e_s e_c0pre e_rk /\ rebuild (describe [] e_s) e_src e_c0pre = Ok e_s /\
  load_module 5 e_src e_c0pre e_x (Some e_r20) (F_list []) = Ok [e_X true false; e_A19; e_B] /\
  load_module 5 e_src e_c0pre e_x (Some e_r20) F_keep = Ok e_c0pre.
Proof.
  split; [exact e_rt_ok_pre|]. split; [exact e_rebuild_pre|].
  destruct e_keep_vs_empty as (H1 & H2 & _). split; assumption.
Qed.

(* outside imports_pinned the model does not answer (an import without revision-date of a module with two
   revisions); on the implementation the round trip can then fail (finding yl-import-only-rev) *)
Example C19_unpinned_import_is_unmodelled :
  rebuild (describe [] [e_X true true]) [mkymod (y_mod (e_X false false)) (e_ns e_x) [(e_a, None)] [] []; e_A19; e_A20] [e_A19]
  = Err E_UNMODELLED.
Proof. exact e_unmodelled. Qed.
