(* ImplicitP.v -- lemmas about Implicit.v: a tree in normal form is a fixpoint of validation (no change, empty change
   list), default flags are sound, validation keeps the canonical order. *)
From Coq Require Import Permutation Sorted.
From LY Require Import Base Tree TreeP Implicit.
From Coq Require Import ZifyBool ZifyNat ZifyN.
Local Open Scope N_scope.

(* ------------------------------------------------------------------------------------------- *)
(* small tools                                                                                   *)
(* ------------------------------------------------------------------------------------------- *)
Lemma bind_ok {A B} (r : res A) (f : A -> res B) b : bind r f = Ok b -> exists a, r = Ok a /\ f a = Ok b.
Proof. destruct r as [a|e]; cbn [bind]; intro H; [exists a; split; [reflexivity|exact H]|discriminate]. Qed.

Lemma fold_res_id {A S} (f : S -> A -> res S) (l : list A) (s r : S) :
  (forall x r', In x l -> f s x = Ok r' -> r' = s) -> fold_res f l s = Ok r -> r = s.
Proof.
  induction l as [|x l IH]; cbn [fold_res]; intros Hf H.
  - inversion H. reflexivity.
  - apply bind_ok in H. destruct H as [a [Ha Hr]].
    pose proof (Hf x a (or_introl eq_refl) Ha) as E. subst a.
    apply IH; [|exact Hr]. intros y r' Hy. apply Hf. right. exact Hy.
Qed.

Lemma filter_id {A} (q : A -> bool) (l : list A) : (forall x, In x l -> q x = true) -> filter q l = l.
Proof.
  induction l as [|x l IH]; cbn [filter]; intro H; [reflexivity|].
  rewrite (H x (or_introl eq_refl)). f_equal. apply IH. intros y Hy. apply H. right. exact Hy.
Qed.

Lemma existsb_false_forall {A} (q : A -> bool) (l : list A) : existsb q l = false <-> forall x, In x l -> q x = false.
Proof.
  split.
  - intros H x Hx. destruct (q x) eqn:E; [|reflexivity].
    assert (existsb q l = true) by (apply existsb_exists; exists x; split; assumption). congruence.
  - intro H. destruct (existsb q l) eqn:E; [|reflexivity].
    apply existsb_exists in E. destruct E as [x [Hx Hq]]. rewrite (H x Hx) in Hq. discriminate.
Qed.

Lemma clr_new_id n : d_new n = false -> clr_new n = n.
Proof.
  destruct n as [s v d m ch]. unfold d_new. cbn [d_meta clr_new]. intro H.
  f_equal. apply filter_id. intros kv Hkv.
  rewrite existsb_false_forall in H. rewrite (H kv Hkv). reflexivity.
Qed.

Lemma cc_eqb_eq a b : cc_eqb a b = true <-> a = b.
Proof.
  destruct a as [a1 a2], b as [b1 b2]. unfold cc_eqb. cbn [fst snd].
  rewrite andb_true_iff, !N.eqb_eq. split; [intros [-> ->]; reflexivity|intro H; inversion H; split; reflexivity].
Qed.

Lemma cc_eqb_refl a : cc_eqb a a = true.
Proof. apply cc_eqb_eq. reflexivity. Qed.

(* ------------------------------------------------------------------------------------------- *)
(* chains                                                                                        *)
(* ------------------------------------------------------------------------------------------- *)
(* next_chc pre l = Some x: l = l0 ++ x :: l1 with the (choice, case) pairs of l0 equal to pre *)
Lemma next_chc_some pre : forall l x, next_chc pre l = Some x -> exists l0 l1, l = l0 ++ x :: l1 /\ map cc_of l0 = pre.
Proof.
  induction pre as [|p pre IH]; intros l x H; destruct l as [|q l]; cbn [next_chc] in H; try discriminate.
  - inversion H; subst. exists [], l. split; reflexivity.
  - destruct (cc_eqb p (cc_of q)) eqn:E; [|discriminate].
    apply cc_eqb_eq in E. destruct (IH l x H) as [l0 [l1 [Hl Hp]]].
    exists (q :: l0), l1. split; [cbn [app]; congruence|cbn [map]; congruence].
Qed.

Lemma next_chc_app l0 x l1 : next_chc (map cc_of l0) (l0 ++ x :: l1) = Some x.
Proof.
  induction l0 as [|q l0 IH]; cbn [map app next_chc]; [reflexivity|].
  rewrite cc_eqb_refl. exact IH.
Qed.

Lemma chain_is_eq pre : forall l, chain_is pre l = true <-> map cc_of l = pre.
Proof.
  induction pre as [|p pre IH]; intros [|q l]; cbn [chain_is map]; split; intro H; try reflexivity; try discriminate.
  - apply andb_true_iff in H. destruct H as [H1 H2]. apply cc_eqb_eq in H1. apply IH in H2. congruence.
  - inversion H; subst. rewrite cc_eqb_refl. cbn [andb]. apply IH. reflexivity.
Qed.

Lemma chain_pre_app l0 l1 : chain_pre (map cc_of l0) (l0 ++ l1) = true.
Proof.
  induction l0 as [|q l0 IH]; cbn [map app chain_pre]; [reflexivity|].
  rewrite cc_eqb_refl. exact IH.
Qed.

(* the activity of a chain splits at every level *)
Lemma active_from_app sch g l0 : forall pre l1,
  active_from sch g pre (l0 ++ l1) = active_from sch g pre l0 && active_from sch g (pre ++ map cc_of l0) l1.
Proof.
  induction l0 as [|x l0 IH]; intros pre l1; cbn [app active_from map].
  - rewrite app_nil_r. reflexivity.
  - rewrite IH. rewrite <- app_assoc. cbn [app]. rewrite andb_assoc. reflexivity.
Qed.

(* ------------------------------------------------------------------------------------------- *)
(* lyd_validate_new on a sibling list without new nodes and without leftover defaults            *)
(* ------------------------------------------------------------------------------------------- *)
Section VNew.
  Variable sch : schema.

  Definition no_new (f : forest) : Prop := forall n, In n f -> d_new n = false.

  Lemma case_found_nonew pre c k f : no_new f -> case_found sch pre c k f <> FNew.
  Proof.
    intro Hn. unfold case_found.
    assert (E : existsb d_new (filter (in_case sch pre c k) f) = false).
    { apply existsb_false_forall. intros n Hin. apply filter_In in Hin. apply Hn. apply Hin. }
    rewrite E. destruct (filter (in_case sch pre c k) f); discriminate.
  Qed.

  Lemma cases_scan_nonew pre c f : no_new f ->
    forall ks old on, cases_scan sch pre c f ks old None = Ok on -> snd on = None.
  Proof.
    intro Hn. induction ks as [|k ks IH]; intros old on H; cbn [cases_scan] in H.
    - inversion H. reflexivity.
    - pose proof (case_found_nonew pre c k f Hn) as Hf.
      destruct (case_found sch pre c k f); [apply (IH _ _ H)| |congruence].
      destruct old; [discriminate|apply (IH _ _ H)].
  Qed.

  Lemma validate_cases_nonew path p pre c f r : no_new f -> validate_cases sch path p pre c f = Ok r -> r = (f, []).
  Proof.
    intros Hn H. unfold validate_cases in H. apply bind_ok in H. destruct H as [[o n] [Hs H]].
    apply (cases_scan_nonew pre c f Hn) in Hs. cbn [snd] in Hs. subst n.
    destruct o; inversion H; reflexivity.
  Qed.

  Lemma choice_r_nonew path p : forall fuel pre st r,
    no_new (fst st) -> choice_r fuel sch path p pre st = Ok r -> r = st.
  Proof.
    induction fuel as [|fuel IH]; intros pre st r Hn H; cbn [choice_r] in H; [discriminate|].
    apply (fold_res_id _ _ _ _) in H; [exact H|].
    intros c r' _ Hc. apply bind_ok in Hc. destruct Hc as [a [Ha Hc]].
    apply (validate_cases_nonew path p pre c (fst st) a Hn) in Ha. subst a. cbn [fst snd] in Hc.
    rewrite app_nil_r in Hc.
    assert (E : (fst st, snd st) = st) by (destruct st; reflexivity). rewrite E in Hc.
    apply (fold_res_id _ _ _ _) in Hc; [exact Hc|].
    intros k r'' _ Hk. apply (IH _ _ _ Hn Hk).
  Qed.

  Lemma vnew_loop_normal path : forall fuel bef aft last acc r,
    vnew_loop fuel sch path bef aft last acc = Ok r ->
    no_new aft ->
    (forall n, In n aft -> d_dflt n = true -> case_leftover sch (bef ++ aft) n = false) ->
    r = (bef ++ aft, acc).
  Proof.
    induction fuel as [|fuel IH]; intros bef aft last acc r H Hn Hl; cbn [vnew_loop] in H; [discriminate|].
    destruct aft as [|cur rest].
    - inversion H. rewrite app_nil_r. reflexivity.
    - assert (Hnc : d_new cur = false) by (apply Hn; left; reflexivity).
      assert (Hnr : no_new rest) by (intros n Hin; apply Hn; right; exact Hin).
      rewrite Hnc in H. cbn [orb] in H.
      destruct (d_dflt cur) eqn:Ed; cbn [negb] in H.
      + rewrite !andb_false_r in H. cbn [andb] in H. cbn [flat_map] in H. rewrite app_nil_r in H.
        rewrite (clr_new_id cur Hnc) in H. rewrite Ed in H.
        rewrite (Hl cur (or_introl eq_refl) Ed) in H. cbn [andb] in H.
        apply IH in H; [rewrite H, <- app_assoc; reflexivity|exact Hnr|].
        intros n Hin Hd. rewrite <- app_assoc. cbn [app]. apply Hl; [right; exact Hin|exact Hd].
      + apply IH in H; [rewrite H, <- app_assoc; reflexivity|exact Hnr|].
        intros n Hin Hd. rewrite <- app_assoc. cbn [app]. apply Hl; [right; exact Hin|exact Hd].
  Qed.

  Lemma vnew_normal path p f r :
    vnew sch path p f = Ok r -> no_new f ->
    (forall n, In n f -> d_dflt n = true -> case_leftover sch f n = false) ->
    r = (f, []).
  Proof.
    intros H Hn Hl. unfold vnew in H. apply bind_ok in H. destruct H as [st [Hc H]].
    apply choice_r_nonew in Hc; [|exact Hn]. subst st. cbn [fst snd] in H.
    apply vnew_loop_normal in H; [exact H|exact Hn|exact Hl].
  Qed.
End VNew.

(* ------------------------------------------------------------------------------------------- *)
(* what the normal form says about a default-flagged node                                        *)
(* ------------------------------------------------------------------------------------------- *)
Lemma is_nil_true {A} (l : list A) : is_nil l = true -> l = [].
Proof. destruct l; [reflexivity|discriminate]. Qed.

Lemma norm_snode_dflt_active sch g s n :
  norm_snode sch g s = true -> In n g -> is_dflt_of s n = true ->
  active sch g s = true /\ filter (is_expl_of s) g = [].
Proof.
  intros H Hin Hd.
  assert (HD : filter (is_dflt_of s) g <> []).
  { intro E. assert (Hf : In n (filter (is_dflt_of s) g)) by (apply filter_In; split; assumption).
    rewrite E in Hf. exact Hf. }
  unfold norm_snode in H.
  assert (Hw : is_nil (filter (is_expl_of s) g) && active sch g s = true).
  { destruct (is_nil (filter (is_expl_of s) g) && active sch g s) eqn:Ew; [reflexivity|exfalso].
    destruct (kind_of sch s) as [[|]| | | |]; try (apply is_nil_true in H; contradiction);
      destruct (si_dflts (sget sch s)); apply is_nil_true in H; contradiction. }
  apply andb_true_iff in Hw. destruct Hw as [Hx Ha]. split; [exact Ha|apply is_nil_true; exact Hx].
Qed.

Lemma in_case_chain sch pre c k m :
  in_case sch pre c k m = true ->
  exists l0 x l1, chainf sch (d_sid m) = l0 ++ x :: l1 /\ map cc_of l0 = pre /\ ch_id x = c /\ ch_case x = k.
Proof.
  unfold in_case, n_case, s_case. destruct (next_chc pre (chainf sch (d_sid m))) as [x|] eqn:E; [|discriminate].
  destruct (ch_id x =? c) eqn:Ec; [|discriminate]. intro Hk. apply N.eqb_eq in Ec. apply N.eqb_eq in Hk.
  destruct (next_chc_some _ _ _ E) as [l0 [l1 [Hl Hp]]]. exists l0, x, l1. repeat split; assumption.
Qed.

Lemma norm_no_leftover sch p g n :
  norm_level sch p g = true -> In n g -> d_dflt n = true -> case_leftover sch g n = false.
Proof.
  intros H Hin Hd. unfold norm_level in H.
  apply andb_true_iff in H. destruct H as [H Hs]. apply andb_true_iff in H. destruct H as [H _].
  apply andb_true_iff in H. destruct H as [_ Hids].
  rewrite forallb_forall in Hids, Hs.
  pose proof (Hids n Hin) as Hm. apply existsb_exists in Hm. destruct Hm as [s [Hsin Hse]]. apply N.eqb_eq in Hse. subst s.
  pose proof (Hs _ Hsin) as Hn.
  assert (Hdo : is_dflt_of (d_sid n) n = true) by (unfold is_dflt_of; rewrite N.eqb_refl, Hd; reflexivity).
  destruct (norm_snode_dflt_active sch g (d_sid n) n Hn Hin Hdo) as [Ha _].
  unfold case_leftover. destruct (rev (chainf sch (d_sid n))) as [|x r] eqn:Er; [reflexivity|].
  destruct (ch_dflt x) eqn:Edf; [reflexivity|].
  assert (Ec : chainf sch (d_sid n) = rev r ++ [x]).
  { rewrite <- (rev_involutive (chainf sch (d_sid n))), Er. reflexivity. }
  unfold active in Ha. rewrite Ec, active_from_app in Ha. apply andb_true_iff in Ha. destruct Ha as [_ Ha].
  cbn [active_from app] in Ha. rewrite Edf in Ha. cbn [andb] in Ha. rewrite orb_false_r, andb_true_r in Ha.
  apply existsb_exists in Ha. destruct Ha as [m [Hmin Hm]]. apply andb_true_iff in Hm. destruct Hm as [Hex Hic].
  destruct (in_case_chain _ _ _ _ _ Hic) as [l0 [x' [l1 [Hl [Hp [Hc Hk]]]]]].
  apply negb_false_iff. apply existsb_exists. exists m. split; [exact Hmin|].
  apply andb_true_iff. split; [|exact Hex].
  rewrite Ec, Hl. rewrite map_app. cbn [map].
  assert (Ecc : cc_of x = cc_of x') by (unfold cc_of; congruence).
  rewrite <- Hp, Ecc.
  replace (map cc_of l0 ++ [cc_of x']) with (map cc_of (l0 ++ [x'])) by (rewrite map_app; reflexivity).
  replace (l0 ++ x' :: l1) with ((l0 ++ [x']) ++ l1) by (rewrite <- app_assoc; reflexivity).
  apply chain_pre_app.
Qed.

(* ------------------------------------------------------------------------------------------- *)
(* schema: consistent choice encoding                                                            *)
(* ------------------------------------------------------------------------------------------- *)
Lemma lookup_In sch s i : lookup sch s = Some i -> In (s, i) sch.
Proof.
  induction sch as [|[k j] r IH]; cbn [lookup]; [discriminate|].
  destruct (k =? s) eqn:E; intro H.
  - apply N.eqb_eq in E. inversion H; subst. left. reflexivity.
  - right. apply IH, H.
Qed.

Lemma chainf_incl sch s : incl (chainf sch s) (all_chcs sch).
Proof.
  unfold chainf, sget. destruct (lookup sch s) as [i|] eqn:E; [|intros x Hx; destruct Hx].
  intros x Hx. unfold all_chcs. apply in_flat_map. exists (s, i). split; [apply lookup_In; exact E|exact Hx].
Qed.

Lemma chc_eq sch x y : chc_okb sch = true -> In x (all_chcs sch) -> In y (all_chcs sch) -> cc_of x = cc_of y -> x = y.
Proof.
  intros Hk Hx Hy E. unfold chc_okb in Hk. rewrite forallb_forall in Hk. specialize (Hk x Hx).
  rewrite forallb_forall in Hk. specialize (Hk y Hy).
  unfold cc_of in E. inversion E as [[E1 E2]].
  rewrite E1, E2, !N.eqb_refl in Hk. cbn [negb orb] in Hk.
  apply andb_true_iff in Hk. destruct Hk as [Hk _]. apply andb_true_iff in Hk. destruct Hk as [Hd Hm].
  apply Bool.eqb_prop in Hd. apply Bool.eqb_prop in Hm.
  destruct x, y. cbn in *. congruence.
Qed.

Lemma chain_eq sch : chc_okb sch = true -> forall a b,
  incl a (all_chcs sch) -> incl b (all_chcs sch) -> map cc_of a = map cc_of b -> a = b.
Proof.
  intro Hk. induction a as [|x a IH]; intros [|y b] Ha Hb E; cbn [map] in E; try discriminate; [reflexivity|].
  assert (E1 : cc_of x = cc_of y) by congruence.
  assert (E2 : map cc_of a = map cc_of b) by congruence.
  f_equal.
  - apply (chc_eq sch); [exact Hk|apply Ha; left; reflexivity|apply Hb; left; reflexivity|exact E1].
  - apply IH; [intros z Hz; apply Ha; right; exact Hz|intros z Hz; apply Hb; right; exact Hz|exact E2].
Qed.

(* ------------------------------------------------------------------------------------------- *)
(* lyd_new_implicit on a sibling list in normal form                                             *)
(* ------------------------------------------------------------------------------------------- *)
Lemma fold_left_id {A S} (f : S -> A -> S) (l : list A) (s : S) :
  (forall x, In x l -> f s x = s) -> fold_left f l s = s.
Proof.
  induction l as [|x l IH]; cbn [fold_left]; intro H; [reflexivity|].
  rewrite (H x (or_introl eq_refl)). apply IH. intros y Hy. apply H. right. exact Hy.
Qed.

Lemma has_sid_false_filter g s q :
  has_sid g s = false -> filter (fun n => (d_sid n =? s) && q n) g = [].
Proof.
  intro H. unfold has_sid in H. rewrite existsb_false_forall in H.
  induction g as [|n g IH]; cbn [filter]; [reflexivity|].
  rewrite (H n (or_introl eq_refl)). cbn [andb]. apply IH. intros x Hx. apply H. right. exact Hx.
Qed.

Lemma same_vals_nil_cons v vs : same_vals [] (v :: vs) = false.
Proof.
  unfold same_vals. cbn [app forallb]. unfold count_val at 1 2. cbn [filter length].
  rewrite (proj2 (beq_bytes_eq v v) eq_refl). cbn [length Nat.eqb andb]. reflexivity.
Qed.

Lemma impl_snode_normal sch path g acc s :
  norm_snode sch g s = true -> active sch g s = true -> impl_snode sch false path (g, acc) s = (g, acc).
Proof.
  intros Hn Ha. unfold impl_snode. cbn [andb fst]. destruct (has_sid g s) eqn:Eh; [reflexivity|].
  unfold norm_snode in Hn.
  assert (ED : filter (is_dflt_of s) g = []) by (apply (has_sid_false_filter g s d_dflt Eh)).
  assert (EX : filter (is_expl_of s) g = []) by (apply (has_sid_false_filter g s (fun n => negb (d_dflt n)) Eh)).
  rewrite ED, EX, Ha in Hn. cbn [is_nil andb map] in Hn.
  destruct (kind_of sch s) as [[|]| | | |]; try reflexivity; try discriminate.
  - destruct (si_dflts (sget sch s)); [reflexivity|discriminate].
  - destruct (si_dflts (sget sch s)) as [|v vs]; [reflexivity|].
    rewrite same_vals_nil_cons in Hn. discriminate.
Qed.

Lemma norm_level_snode sch p g s : norm_level sch p g = true -> In s (schildren sch p) -> norm_snode sch g s = true.
Proof.
  intros H Hs. unfold norm_level in H. apply andb_true_iff in H. destruct H as [_ H].
  rewrite forallb_forall in H. apply H, Hs.
Qed.

Lemma norm_level_sid sch p g n : norm_level sch p g = true -> In n g -> In (d_sid n) (schildren sch p).
Proof.
  intros H Hin. unfold norm_level in H.
  apply andb_true_iff in H. destruct H as [H _]. apply andb_true_iff in H. destruct H as [H _].
  apply andb_true_iff in H. destruct H as [_ H].
  rewrite forallb_forall in H. specialize (H n Hin). apply existsb_exists in H. destruct H as [s [Hs E]].
  apply N.eqb_eq in E. subst s. exact Hs.
Qed.

Lemma filter_map_In {A B} (f : A -> option B) l b : In b (filter_map f l) <-> exists a, In a l /\ f a = Some b.
Proof.
  unfold filter_map. rewrite in_flat_map. split.
  - intros [a [Ha Hb]]. exists a. split; [exact Ha|]. destruct (f a); [destruct Hb as [->|[]]; reflexivity|destruct Hb].
  - intros [a [Ha Hb]]. exists a. split; [exact Ha|]. rewrite Hb. left. reflexivity.
Qed.

Lemma choice_elem_some sch p pre c q x :
  choice_elem sch p pre c q = Some x ->
  In x (all_chcs sch) /\ ch_id x = c /\ q x = true /\ exists s, next_chc pre (chainf sch s) = Some x.
Proof.
  unfold choice_elem.
  destruct (filter_map _ (schildren sch p)) as [|y r] eqn:E; [discriminate|]. intro H. inversion H; subst y.
  assert (Hin : In x (filter_map (fun s => match next_chc pre (chainf sch s) with
                                           | Some x => if (ch_id x =? c) && q x then Some x else None
                                           | None => None end) (schildren sch p))) by (rewrite E; left; reflexivity).
  apply filter_map_In in Hin. destruct Hin as [s [_ Hs]].
  destruct (next_chc pre (chainf sch s)) as [z|] eqn:En; [|discriminate].
  destruct ((ch_id z =? c) && q z) eqn:Ec; [|discriminate]. inversion Hs; subst z.
  apply andb_true_iff in Ec. destruct Ec as [Ec Eq]. apply N.eqb_eq in Ec.
  repeat split; try assumption.
  - destruct (next_chc_some _ _ _ En) as [l0 [l1 [Hl _]]]. apply (chainf_incl sch s). rewrite Hl. apply in_or_app. right. left. reflexivity.
  - exists s. exact En.
Qed.

Section ImplNormal.
  Variable sch : schema.
  Variable path : list pstep.
  Variable p : option sid.
  Variable g : forest.
  Hypothesis Hk : chc_okb sch = true.
  Hypothesis Hn : norm_level sch p g = true.

  Lemma implicit_normal : forall fuel l0 acc r,
    incl l0 (all_chcs sch) -> active_from sch g [] l0 = true ->
    implicit fuel sch false path p (map cc_of l0) (g, acc) = Ok r -> r = (g, acc).
  Proof.
    induction fuel as [|fuel IH]; intros l0 acc r Hi Ha H; cbn [implicit] in H; [discriminate|].
    apply bind_ok in H. destruct H as [st1 [H1 H2]].
    assert (E1 : st1 = (g, acc)).
    { apply (fold_res_id _ _ _ _) in H1; [exact H1|].
      intros c r' _ Hc. cbn [fst] in Hc.
      (* the chain element of the selected case and the activity of its level *)
      assert (Hstep : forall x, In x (all_chcs sch) -> ch_id x = c ->
                 (existsb (fun n => expl n && in_case sch (map cc_of l0) (ch_id x) (ch_case x) n) g ||
                  (ch_dflt x && negb (existsb (fun n => expl n && in_choice sch (map cc_of l0) (ch_id x) n) g))) = true ->
                 implicit fuel sch false path p (map cc_of l0 ++ [(c, ch_case x)]) (g, acc) = Ok r' -> r' = (g, acc)).
      { intros x Hx Hxc Hlev Hr.
        apply (IH (l0 ++ [x]) acc r').
        - intros z Hz. apply in_app_or in Hz. destruct Hz as [Hz|[->|[]]]; [apply Hi; exact Hz|exact Hx].
        - rewrite active_from_app, Ha. cbn [andb active_from app]. rewrite Hlev. reflexivity.
        - rewrite map_app. cbn [map]. unfold cc_of at 2. rewrite Hxc. exact Hr. }
      destruct (find (in_choice sch (map cc_of l0) c) g) as [n|] eqn:Ef.
      - (* data of the choice exists *)
        pose proof (find_some _ _ Ef) as [Hnin Hnc].
        unfold in_choice in Hnc. unfold n_case, s_case in Hc, Hnc.
        destruct (next_chc (map cc_of l0) (chainf sch (d_sid n))) as [x|] eqn:En; [|discriminate].
        destruct (ch_id x =? c) eqn:Exc; [|discriminate]. apply N.eqb_eq in Exc.
        destruct (next_chc_some _ _ _ En) as [la [lb [Hl Hp]]].
        assert (Hxin : In x (all_chcs sch)).
        { apply (chainf_incl sch (d_sid n)). rewrite Hl. apply in_or_app. right. left. reflexivity. }
        apply (Hstep x Hxin Exc); [|exact Hc].
        destruct (d_dflt n) eqn:Ed.
        + (* a default node: its own chain is active *)
          assert (Hdo : is_dflt_of (d_sid n) n = true) by (unfold is_dflt_of; rewrite N.eqb_refl, Ed; reflexivity).
          pose proof (norm_level_snode sch p g _ Hn (norm_level_sid sch p g n Hn Hnin)) as Hsn.
          destruct (norm_snode_dflt_active sch g _ n Hsn Hnin Hdo) as [Hact _].
          unfold active in Hact. rewrite Hl, active_from_app in Hact. apply andb_true_iff in Hact. destruct Hact as [_ Hact].
          cbn [active_from app] in Hact. rewrite Hp in Hact. apply andb_true_iff in Hact. apply Hact.
        + apply orb_true_iff. left. apply existsb_exists. exists n. split; [exact Hnin|].
          unfold expl. rewrite Ed. cbn [negb andb]. unfold in_case, n_case, s_case. rewrite En, N.eqb_refl. apply N.eqb_refl.
      - (* no data: the default case *)
        unfold dflt_case in Hc.
        destruct (choice_elem sch p (map cc_of l0) c ch_dflt) as [x|] eqn:Ece; cbn [option_map] in Hc; [|inversion Hc; reflexivity].
        destruct (choice_elem_some _ _ _ _ _ _ Ece) as [Hxin [Hxc [Hxd _]]].
        apply (Hstep x Hxin Hxc); [|exact Hc].
        apply orb_true_iff. right. rewrite Hxd. cbn [andb]. apply negb_true_iff. apply existsb_false_forall.
        intros m Hm. rewrite Hxc. pose proof (find_none _ _ Ef m Hm) as Hnone. rewrite Hnone. apply andb_false_r. }
    subst st1. inversion H2 as [H3]. apply fold_left_id.
    intros s Hs. unfold snodes_at in Hs. apply filter_In in Hs. destruct Hs as [Hsc Hci].
    apply impl_snode_normal; [apply (norm_level_snode sch p g s Hn Hsc)|].
    apply chain_is_eq in Hci.
    assert (E : chainf sch s = l0).
    { apply (chain_eq sch Hk); [apply chainf_incl|exact Hi|exact Hci]. }
    unfold active. rewrite E. exact Ha.
  Qed.
End ImplNormal.

(* ------------------------------------------------------------------------------------------- *)
(* unfolding lemmas for the functions with a nested fixpoint                                     *)
(* ------------------------------------------------------------------------------------------- *)
Lemma normal_node_unfold sch s v d m ch :
  normal_node sch (DN s v d m ch) =
  (if is_np_cont sch s then Bool.eqb d (forallb d_dflt ch) else true) &&
  (if is_inner sch s then norm_level sch (Some s) ch else true) && forallb (normal_node sch) ch.
Proof.
  reflexivity.
Qed.

Lemma final_node_unfold sch s v d m ch :
  final_node sch (DN s v d m ch) =
  bind (check_level (cfuel sch) sch (Some s) [] ch) (fun _ =>
  bind (map_res (final_node sch) ch) (fun ch' => Ok (np_set sch (DN s v d m ch')))).
Proof.
  cbn [final_node]. destruct (check_level (cfuel sch) sch (Some s) [] ch); cbn [bind]; [|reflexivity].
  assert (E : (fix go (l : list dnode) : res (list dnode) :=
                 match l with
                 | [] => Ok []
                 | x :: l' => bind (final_node sch x) (fun x' => bind (go l') (fun r => Ok (x' :: r)))
                 end) ch = map_res (final_node sch) ch).
  { induction ch as [|x ch IH]; cbn [map_res]; [reflexivity|]. rewrite IH. reflexivity. }
  rewrite E. reflexivity.
Qed.

(* ------------------------------------------------------------------------------------------- *)
(* Theorem A: a tree in normal form is a fixpoint of validation, the change list is empty        *)
(* ------------------------------------------------------------------------------------------- *)
Lemma norm_level_no_new sch p g : norm_level sch p g = true -> no_new g.
Proof.
  intros H n Hin. unfold norm_level in H.
  apply andb_true_iff in H. destruct H as [H _]. apply andb_true_iff in H. destruct H as [H _].
  apply andb_true_iff in H. destruct H as [H _].
  rewrite forallb_forall in H. apply negb_true_iff, H, Hin.
Qed.

Lemma set_ch_id n : set_ch n (d_ch n) = n.
Proof. destruct n; reflexivity. Qed.

Section LevelNormal.
  Variable sch : schema.
  Hypothesis Hk : chc_okb sch = true.

  Lemma descend_normal (rec : list pstep -> option sid -> forest -> res (forest * list change)) path :
    forall l acc r,
    (forall n, In n l -> is_inner sch (d_sid n) = true ->
       forall c, rec (path ++ [step_of sch n]) (Some (d_sid n)) (d_ch n) = Ok c -> c = (d_ch n, [])) ->
    descend rec sch path l acc = Ok r -> r = (l, acc).
  Proof.
    induction l as [|n l IH]; intros acc r Hrec H; cbn [descend] in H.
    - inversion H. reflexivity.
    - apply bind_ok in H. destruct H as [n' [Hn' H]]. apply bind_ok in H. destruct H as [r' [Hr' H]].
      assert (En : n' = (n, [])).
      { destruct (is_inner sch (d_sid n)) eqn:Ei.
        - apply bind_ok in Hn'. destruct Hn' as [c [Hc Hn']].
          apply (Hrec n (or_introl eq_refl) Ei) in Hc. subst c. cbn [fst snd] in Hn'. rewrite set_ch_id in Hn'.
          inversion Hn'. reflexivity.
        - inversion Hn'. reflexivity. }
      subst n'. cbn [fst snd] in *. rewrite app_nil_r in Hr'.
      apply IH in Hr'; [|intros x Hx; apply Hrec; right; exact Hx]. subst r'. inversion H. reflexivity.
  Qed.

  Lemma level_normal : forall fuel path p g st,
    level fuel true false sch path p g = Ok st ->
    norm_level sch p g = true -> forallb (normal_node sch) g = true -> st = (g, []).
  Proof.
    induction fuel as [|fuel IH]; intros path p g st H Hn Hc; cbn [level] in H; [discriminate|].
    apply bind_ok in H. destruct H as [st1 [H1 H]]. apply bind_ok in H. destruct H as [st2 [H2 H]].
    apply vnew_normal in H1; [|apply (norm_level_no_new sch p g Hn)|intros n Hin Hd; apply (norm_no_leftover sch p g n Hn Hin Hd)].
    subst st1.
    apply (implicit_normal sch path p g Hk Hn (cfuel sch) [] [] st2) in H2; [|intros x []|reflexivity]. subst st2.
    cbn [fst snd] in H. apply descend_normal in H; [exact H|].
    intros n Hin Hi c Hcc. rewrite forallb_forall in Hc. specialize (Hc n Hin).
    destruct n as [s v d m ch]. rewrite normal_node_unfold in Hc. cbn [d_sid d_ch] in *. rewrite Hi in Hc.
    apply andb_true_iff in Hc. destruct Hc as [Hc Hch]. apply andb_true_iff in Hc. destruct Hc as [_ Hl].
    apply (IH _ _ _ _ Hcc Hl Hch).
  Qed.
End LevelNormal.

Lemma map_res_id {A} (f : A -> res A) (l r : list A) :
  Forall (fun x => forall y, f x = Ok y -> y = x) l -> map_res f l = Ok r -> r = l.
Proof.
  revert r. induction l as [|x l IH]; intros r HF H; cbn [map_res] in H.
  - inversion H. reflexivity.
  - apply bind_ok in H. destruct H as [x' [Hx H]]. apply bind_ok in H. destruct H as [r' [Hr H]].
    inversion HF as [|? ? Hx0 Hl0]; subst. apply Hx0 in Hx. apply (IH _ Hl0) in Hr. subst. inversion H. reflexivity.
Qed.

Lemma np_set_normal sch n : normal_node sch n = true -> np_set sch n = n.
Proof.
  destruct n as [s v d m ch]. rewrite normal_node_unfold. intro H.
  apply andb_true_iff in H. destruct H as [H _]. apply andb_true_iff in H. destruct H as [H _].
  unfold np_set. cbn [d_sid d_dflt d_ch]. destruct (is_np_cont sch s); [|reflexivity].
  apply Bool.eqb_prop in H. subst d. destruct (forallb d_dflt ch); reflexivity.
Qed.

Lemma final_node_normal sch n : forall n', final_node sch n = Ok n' -> normal_node sch n = true -> n' = n.
Proof.
  induction n as [s v d m ch IH] using dnode_ind'. intros n' H Hn.
  rewrite final_node_unfold in H. apply bind_ok in H. destruct H as [u [_ H]].
  apply bind_ok in H. destruct H as [ch' [Hch H]].
  pose proof Hn as Hn2. rewrite normal_node_unfold in Hn2. apply andb_true_iff in Hn2. destruct Hn2 as [_ Hall].
  assert (E : ch' = ch).
  { apply (map_res_id (final_node sch)); [|exact Hch].
    rewrite forallb_forall in Hall. rewrite Forall_forall in IH. apply Forall_forall.
    intros x Hx y Hy. apply (IH x Hx y Hy (Hall x Hx)). }
  subst ch'. inversion H. apply np_set_normal. exact Hn.
Qed.

Theorem validate_normal_fixpoint sch g g' d' :
  chc_okb sch = true -> normalb sch g = true -> validate_all sch g = Ok (g', d') -> g' = g /\ d' = [].
Proof.
  intros Hk Hn H. unfold normalb in Hn. apply andb_true_iff in Hn. destruct Hn as [Hl Hc].
  unfold validate_all in H. destruct g as [|n g0]; [inversion H; split; reflexivity|].
  apply bind_ok in H. destruct H as [st [Hs H]]. apply bind_ok in H. destruct H as [gg [Hf H]].
  apply (level_normal sch Hk) in Hs; [|exact Hl|exact Hc]. subst st. cbn [fst snd] in *.
  inversion H; subst. split; [|reflexivity].
  unfold final_forest in Hf. apply bind_ok in Hf. destruct Hf as [u [_ Hf]].
  apply (map_res_id (final_node sch)); [|exact Hf].
  rewrite forallb_forall in Hc. apply Forall_forall. intros x Hx y Hy. apply (final_node_normal sch x y Hy (Hc x Hx)).
Qed.

(* ------------------------------------------------------------------------------------------- *)
(* the default flag stays sound                                                                  *)
(* ------------------------------------------------------------------------------------------- *)
Lemma fold_res_inv {A S} (f : S -> A -> res S) (Inv : S -> Prop) (l : list A) :
  (forall s x r, In x l -> Inv s -> f s x = Ok r -> Inv r) -> forall s r, Inv s -> fold_res f l s = Ok r -> Inv r.
Proof.
  induction l as [|x l IH]; intros Hf s r Hs H; cbn [fold_res] in H.
  - inversion H; subst. exact Hs.
  - apply bind_ok in H. destruct H as [a [Ha H]].
    apply (IH (fun s' y r' Hy => Hf s' y r' (or_intror Hy)) a r); [|exact H].
    apply (Hf s x a (or_introl eq_refl) Hs Ha).
Qed.

Lemma fold_left_inv {A S} (f : S -> A -> S) (Inv : S -> Prop) (l : list A) :
  (forall s x, In x l -> Inv s -> Inv (f s x)) -> forall s, Inv s -> Inv (fold_left f l s).
Proof.
  induction l as [|x l IH]; intros Hf s Hs; cbn [fold_left]; [exact Hs|].
  apply IH; [intros s' y Hy; apply Hf; right; exact Hy|apply Hf; [left; reflexivity|exact Hs]].
Qed.

Lemma remove_first_In {A} (q : A -> bool) l x : In x (remove_first q l) -> In x l.
Proof.
  induction l as [|y l IH]; cbn [remove_first]; [intros []|].
  destruct (q y); intro H; [right; exact H|]. destruct H as [->|H]; [left; reflexivity|right; apply IH, H].
Qed.

Section Sound.
  Variable sch : schema.
  Let P (n : dnode) : Prop := sound_node sch n = true.
  Let PF (f : forest) : Prop := forall n, In n f -> P n.

  Lemma sound_node_unfold s v d m ch :
    sound_node sch (DN s v d m ch) = sound_top sch (DN s v d m ch) && forallb (sound_node sch) ch.
  Proof. reflexivity. Qed.

  Lemma sound_clr_new n : P n -> P (clr_new n).
  Proof. destruct n as [s v d m ch]. unfold P. cbn [clr_new]. rewrite !sound_node_unfold. exact (fun H => H). Qed.

  Lemma sound_set_ch n ch : P n -> PF ch -> P (set_ch n ch).
  Proof.
    destruct n as [s v d m c0]. unfold P, PF. cbn [set_ch]. rewrite !sound_node_unfold. intros H Hc.
    apply andb_true_iff in H. destruct H as [H _]. apply andb_true_iff. split; [exact H|].
    apply forallb_forall. exact Hc.
  Qed.

  Lemma sound_children n : P n -> PF (d_ch n).
  Proof.
    destruct n as [s v d m ch]. unfold P, PF. rewrite sound_node_unfold. cbn [d_ch]. intros H x Hx.
    apply andb_true_iff in H. destruct H as [_ H]. rewrite forallb_forall in H. apply H, Hx.
  Qed.

  Lemma sound_validate_cases path p pre c f r : PF f -> validate_cases sch path p pre c f = Ok r -> PF (fst r).
  Proof.
    intros Hf H. unfold validate_cases in H. apply bind_ok in H. destruct H as [[o n] [_ H]].
    destruct o as [ko|]; [destruct n|]; inversion H; subst; cbn [fst]; try exact Hf.
    intros x Hx. apply filter_In in Hx. apply Hf, Hx.
  Qed.

  Lemma sound_choice_r path p : forall fuel pre st r, PF (fst st) -> choice_r fuel sch path p pre st = Ok r -> PF (fst r).
  Proof.
    induction fuel as [|fuel IH]; intros pre st r Hs H; cbn [choice_r] in H; [discriminate|].
    apply (fold_res_inv _ (fun s => PF (fst s)) _) with (s := st) (r := r) in H; [exact H| |exact Hs].
    intros s c r' _ Hs' Hc. apply bind_ok in Hc. destruct Hc as [a [Ha Hc]].
    apply (sound_validate_cases _ _ _ _ _ _ Hs') in Ha.
    apply (fold_res_inv _ (fun s => PF (fst s)) _) with (s := (fst a, snd s ++ snd a)) (r := r') in Hc; [exact Hc| |exact Ha].
    intros s'' k r'' _ Hs'' Hk. apply (IH _ _ _ Hs'' Hk).
  Qed.

  Lemma autodel_dflt_sub bef cur aft b gn r ds :
    autodel_dflt sch bef cur aft = (b, gn, r, ds) ->
    (forall x, In x b -> In x bef) /\ (forall x, In x r -> In x aft).
  Proof.
    unfold autodel_dflt. intro H.
    destruct (existsb (is_expl_of (d_sid cur)) (bef ++ cur :: aft)).
    - inversion H; subst. split; intros x Hx; apply filter_In in Hx; apply Hx.
    - destruct (kind_of sch (d_sid cur)) as [[|]| | | |];
        try (destruct (find (is_olddflt_of (d_sid cur)) bef);
             [inversion H; subst; split; [intros x Hx; apply (remove_first_In _ _ _ Hx)|auto]|
              destruct (find (is_olddflt_of (d_sid cur)) aft); inversion H; subst; split; auto;
              intros x Hx; apply (remove_first_In _ _ _ Hx)]).
      inversion H; subst. split; auto.
  Qed.

  Lemma sound_vnew_loop path : forall fuel bef aft last acc r,
    PF bef -> PF aft -> vnew_loop fuel sch path bef aft last acc = Ok r -> PF (fst r).
  Proof.
    induction fuel as [|fuel IH]; intros bef aft last acc r Hb Ha H; cbn [vnew_loop] in H; [discriminate|].
    destruct aft as [|cur rest]; [inversion H; subst; exact Hb|].
    assert (Hc : P cur) by (apply Ha; left; reflexivity).
    assert (Hr : PF rest) by (intros x Hx; apply Ha; right; exact Hx).
    assert (Happ : forall l x, PF l -> P x -> PF (l ++ [x])).
    { intros l x Hl Hx y Hy. apply in_app_or in Hy. destruct Hy as [Hy|[<-|[]]]; [apply Hl, Hy|exact Hx]. }
    destruct (d_new cur || d_dflt cur); cbn [negb] in H.
    2: apply (IH _ _ _ _ _ (Happ _ _ Hb Hc) Hr H).
    { match type of H with context [match ?X with _ => _ end] =>
        match X with (if _ then _ else _) => destruct X as [[[bef1 gone] rest1] dels] eqn:Ea end end.
      assert (Hsub : (forall x, In x bef1 -> In x bef) /\ (forall x, In x rest1 -> In x rest)).
      { destruct (has_default sch (d_sid cur) && negb (opt_is last (d_sid cur)) && d_new cur).
        - apply (autodel_dflt_sub _ _ _ _ _ _ _ Ea).
        - inversion Ea; subst. split; auto. }
      destruct Hsub as [Hs1 Hs2].
      assert (Hb1 : PF bef1) by (intros x Hx; apply Hb, Hs1, Hx).
      assert (Hr1 : PF rest1) by (intros x Hx; apply Hr, Hs2, Hx).
      destruct gone; [apply (IH _ _ _ _ _ Hb1 Hr1 H)|].
      destruct (d_new cur && negb (dup_inst sch (d_sid cur)) && existsb (same_inst sch cur) (bef1 ++ rest1)); [discriminate|].
      destruct (d_dflt (clr_new cur) && case_leftover sch (bef1 ++ clr_new cur :: rest1) (clr_new cur)).
      + apply (IH _ _ _ _ _ Hb1 Hr1 H).
      + apply (IH _ _ _ _ _ (Happ _ _ Hb1 (sound_clr_new _ Hc)) Hr1 H). }
  Qed.

  Lemma sound_vnew path p f r : PF f -> vnew sch path p f = Ok r -> PF (fst r).
  Proof.
    intros Hf H. unfold vnew in H. apply bind_ok in H. destruct H as [st [Hc H]].
    apply (sound_choice_r path p _ _ (f, []) st Hf) in Hc.
    apply (sound_vnew_loop path _ [] (fst st) None (snd st) r (fun x (Hx : In x []) => match Hx with end) Hc H).
  Qed.

  Lemma sound_add_dflt path s st v : PF (fst st) -> P (mk_dflt s v) -> PF (fst (add_dflt sch path s st v)).
  Proof.
    intros Hs Hn x Hx. unfold add_dflt in Hx. cbn [fst] in Hx. apply insert_node_In in Hx.
    destruct Hx as [->|Hx]; [exact Hn|apply Hs, Hx].
  Qed.

  Lemma sound_impl_snode ns path st s : PF (fst st) -> PF (fst (impl_snode sch ns path st s)).
  Proof.
    intro Hs. unfold impl_snode. destruct (ns && negb (si_config (sget sch s))); [exact Hs|].
    destruct (has_sid (fst st) s); [exact Hs|].
    destruct (kind_of sch s) as [[|]| | | |] eqn:Ek; try exact Hs.
    - apply sound_add_dflt; [exact Hs|]. unfold P, mk_dflt. rewrite sound_node_unfold. cbn [forallb].
      unfold sound_top. cbn [d_dflt d_sid negb orb]. rewrite Ek. reflexivity.
    - destruct (si_dflts (sget sch s)) as [|v vs] eqn:Ed; [exact Hs|].
      apply sound_add_dflt; [exact Hs|]. unfold P, mk_dflt. rewrite sound_node_unfold. cbn [forallb].
      unfold sound_top. cbn [d_dflt d_sid d_val negb orb]. rewrite Ek, Ed. cbn [existsb].
      rewrite (proj2 (beq_bytes_eq v v) eq_refl). reflexivity.
    - apply (fold_left_inv _ (fun s' => PF (fst s'))); [|exact Hs].
      intros st' v Hv Hs'. apply sound_add_dflt; [exact Hs'|]. unfold P, mk_dflt. rewrite sound_node_unfold. cbn [forallb].
      unfold sound_top. cbn [d_dflt d_sid d_val negb orb]. rewrite Ek. rewrite andb_true_r.
      apply existsb_exists. exists v. split; [exact Hv|apply beq_bytes_eq; reflexivity].
  Qed.

  Lemma sound_implicit ns path p : forall fuel pre st r, PF (fst st) -> implicit fuel sch ns path p pre st = Ok r -> PF (fst r).
  Proof.
    induction fuel as [|fuel IH]; intros pre st r Hs H; cbn [implicit] in H; [discriminate|].
    apply bind_ok in H. destruct H as [st1 [H1 H]]. inversion H; subst.
    apply (fold_left_inv _ (fun s' => PF (fst s'))); [intros s' x _ Hs'; apply sound_impl_snode; exact Hs'|].
    apply (fold_res_inv _ (fun s => PF (fst s)) _) with (s := st) (r := st1) in H1; [exact H1| |exact Hs].
    intros s c r' _ Hs' Hc.
    destruct (find (in_choice sch pre c) (fst s)) as [n|].
    - destruct (n_case sch pre c n); [apply (IH _ _ _ Hs' Hc)|inversion Hc; subst; exact Hs'].
    - destruct (dflt_case sch p pre c); [apply (IH _ _ _ Hs' Hc)|inversion Hc; subst; exact Hs'].
  Qed.

  Lemma sound_descend rec path : forall l acc r,
    (forall pa pp f c, PF f -> rec pa pp f = Ok c -> PF (fst c)) ->
    PF l -> descend rec sch path l acc = Ok r -> PF (fst r).
  Proof.
    induction l as [|n l IH]; intros acc r Hrec Hl H; cbn [descend] in H.
    - inversion H; subst. intros x [].
    - apply bind_ok in H. destruct H as [n' [Hn' H]]. apply bind_ok in H. destruct H as [r' [Hr' H]].
      inversion H; subst. cbn [fst].
      assert (Hn : P n) by (apply Hl; left; reflexivity).
      assert (Hp : P (fst n')).
      { destruct (is_inner sch (d_sid n)).
        - apply bind_ok in Hn'. destruct Hn' as [c [Hc Hn']]. inversion Hn'; subst. cbn [fst].
          apply sound_set_ch; [exact Hn|]. apply (Hrec _ _ _ _ (sound_children n Hn) Hc).
        - inversion Hn'; subst. exact Hn. }
      apply IH in Hr'; [|exact Hrec|intros x Hx; apply Hl; right; exact Hx].
      intros x [<-|Hx]; [exact Hp|apply Hr', Hx].
  Qed.

  Lemma sound_level val ns : forall fuel path p f r, PF f -> level fuel val ns sch path p f = Ok r -> PF (fst r).
  Proof.
    induction fuel as [|fuel IH]; intros path p f r Hf H; cbn [level] in H; [discriminate|].
    apply bind_ok in H. destruct H as [st1 [H1 H]]. apply bind_ok in H. destruct H as [st2 [H2 H]].
    assert (Hs1 : PF (fst st1)).
    { destruct val; [apply (sound_vnew _ _ _ _ Hf H1)|inversion H1; subst; exact Hf]. }
    apply (sound_implicit ns path p _ _ _ _ Hs1) in H2.
    apply (sound_descend _ _ _ _ _ (fun pa pp f' c Hf' Hc => IH pa pp f' c Hf' Hc) H2 H).
  Qed.

  Lemma sound_np_set n : P n -> P (np_set sch n).
  Proof.
    intro H. unfold np_set. destruct (is_np_cont sch (d_sid n)) eqn:En; cbn [andb]; [|exact H].
    destruct (negb (d_dflt n) && forallb d_dflt (d_ch n)); [|exact H].
    destruct n as [s v d m ch]. unfold P in *. cbn [set_dflt]. rewrite sound_node_unfold in *.
    apply andb_true_iff in H. destruct H as [_ H]. rewrite H, andb_true_r.
    unfold sound_top. cbn [d_dflt d_sid negb orb]. unfold is_np_cont in En. cbn [d_sid] in En.
    destruct (kind_of sch s) as [[|]| | | |]; try discriminate. reflexivity.
  Qed.

  Lemma map_res_Forall {A} (f : A -> res A) (Q : A -> Prop) (l r : list A) :
    (forall x y, In x l -> f x = Ok y -> Q y) -> map_res f l = Ok r -> forall y, In y r -> Q y.
  Proof.
    revert r. induction l as [|x l IH]; intros r Hf H; cbn [map_res] in H.
    - inversion H; subst. intros y [].
    - apply bind_ok in H. destruct H as [x' [Hx H]]. apply bind_ok in H. destruct H as [r' [Hr H]]. inversion H; subst.
      intros y [<-|Hy]; [apply (Hf x _ (or_introl eq_refl) Hx)|].
      apply (IH r' (fun a b Ha Hb => Hf a b (or_intror Ha) Hb) Hr y Hy).
  Qed.

  Lemma sound_final_node n : forall n', P n -> final_node sch n = Ok n' -> P n'.
  Proof.
    induction n as [s v d m ch IH] using dnode_ind'. intros n' Hn H.
    rewrite final_node_unfold in H. apply bind_ok in H. destruct H as [u [_ H]].
    apply bind_ok in H. destruct H as [ch' [Hch H]]. inversion H; subst.
    apply sound_np_set. apply (sound_set_ch (DN s v d m ch) ch' Hn).
    rewrite Forall_forall in IH.
    refine (map_res_Forall (final_node sch) P ch ch' _ Hch).
    intros x y Hx Hy. apply (IH x Hx y); [apply (sound_children _ Hn x Hx)|exact Hy].
  Qed.

  Theorem flag_sound_validate f g d : flag_soundb sch f = true -> validate_all sch f = Ok (g, d) -> flag_soundb sch g = true.
  Proof.
    intros Hf H. unfold flag_soundb in *. rewrite forallb_forall in Hf.
    unfold validate_all in H. destruct f as [|n0 f0]; [inversion H; reflexivity|].
    apply bind_ok in H. destruct H as [st [Hs H]]. apply bind_ok in H. destruct H as [gg [Hfin H]]. inversion H; subst.
    apply (sound_level true false _ _ _ _ _ Hf) in Hs.
    unfold final_forest in Hfin. apply bind_ok in Hfin. destruct Hfin as [u [_ Hfin]].
    apply forallb_forall.
    refine (map_res_Forall (final_node sch) P (fst st) g _ Hfin).
    intros x y Hx Hy. apply (sound_final_node x y (Hs x Hx) Hy).
  Qed.

  Theorem flag_sound_implicit ns f g d : flag_soundb sch f = true -> implicit_all sch ns f = Ok (g, d) -> flag_soundb sch g = true.
  Proof.
    intros Hf H. unfold flag_soundb in *. rewrite forallb_forall in Hf. apply forallb_forall.
    unfold implicit_all in H. apply (sound_level false ns _ _ _ _ _ Hf H).
  Qed.
End Sound.

(* ------------------------------------------------------------------------------------------- *)
(* Sub l' l: l' is l with some elements dropped and LYD_NEW cleared on some                      *)
(* ------------------------------------------------------------------------------------------- *)
Inductive Sub : forest -> forest -> Prop :=
| Sub_nil : Sub [] []
| Sub_drop x l' l : Sub l' l -> Sub l' (x :: l)
| Sub_keep x l' l : Sub l' l -> Sub (x :: l') (x :: l)
| Sub_clr x l' l : Sub l' l -> Sub (clr_new x :: l') (x :: l).

Lemma Sub_refl l : Sub l l.
Proof. induction l; constructor; assumption. Qed.

Lemma clr_new_idem x : clr_new (clr_new x) = clr_new x.
Proof.
  destruct x as [s v d m ch]. cbn [clr_new]. f_equal.
  induction m as [|kv m IH]; cbn [filter]; [reflexivity|].
  destruct (negb (is_newkv kv)) eqn:E; cbn [filter]; [rewrite E; f_equal; exact IH|exact IH].
Qed.

Lemma Sub_trans : forall b c, Sub b c -> forall a, Sub a b -> Sub a c.
Proof.
  induction 1 as [|x b c Hbc IH|x b c Hbc IH|x b c Hbc IH]; intros a Hab.
  - exact Hab.
  - constructor. apply IH, Hab.
  - inversion Hab; subst.
    + constructor. apply IH. assumption.
    + apply Sub_keep. apply IH. assumption.
    + apply Sub_clr. apply IH. assumption.
  - inversion Hab; subst.
    + constructor. apply IH. assumption.
    + apply Sub_clr. apply IH. assumption.
    + rewrite clr_new_idem. apply Sub_clr. apply IH. assumption.
Qed.

Lemma Sub_app a a' b b' : Sub a a' -> Sub b b' -> Sub (a ++ b) (a' ++ b').
Proof.
  intros Ha Hb. induction Ha; cbn [app]; [exact Hb|apply Sub_drop|apply Sub_keep|apply Sub_clr]; assumption.
Qed.

Lemma Sub_filter q l : Sub (filter q l) l.
Proof. induction l as [|x l IH]; cbn [filter]; [constructor|]. destruct (q x); constructor; exact IH. Qed.

Lemma Sub_remove_first q l : Sub (remove_first q l) l.
Proof.
  induction l as [|x l IH]; cbn [remove_first]; [constructor|].
  destruct (q x); [constructor; apply Sub_refl|constructor; exact IH].
Qed.

Lemma Sub_In l' l x : Sub l' l -> In x l' -> exists y, In y l /\ (x = y \/ x = clr_new y).
Proof.
  induction 1 as [|z l' l H IH|z l' l H IH|z l' l H IH]; intro Hin.
  - destruct Hin.
  - destruct (IH Hin) as [y [Hy Hx]]. exists y. split; [right; exact Hy|exact Hx].
  - destruct Hin as [<-|Hin]; [exists z; split; [left; reflexivity|left; reflexivity]|].
    destruct (IH Hin) as [y [Hy Hx]]. exists y. split; [right; exact Hy|exact Hx].
  - destruct Hin as [<-|Hin]; [exists z; split; [left; reflexivity|right; reflexivity]|].
    destruct (IH Hin) as [y [Hy Hx]]. exists y. split; [right; exact Hy|exact Hx].
Qed.

(* a property of nodes that clr_new does not change is inherited *)
Lemma Sub_Forall (P : dnode -> Prop) l' l :
  (forall x, P x -> P (clr_new x)) -> Sub l' l -> Forall P l -> Forall P l'.
Proof.
  intros Hc H HF. apply Forall_forall. intros x Hx. rewrite Forall_forall in HF.
  destruct (Sub_In _ _ _ H Hx) as [y [Hy [-> | ->]]]; [apply HF, Hy|apply Hc, HF, Hy].
Qed.

Lemma Sub_sorted (R : dnode -> dnode -> Prop) l' l :
  (forall x y, R x y -> R (clr_new x) y) -> (forall x y, R x y -> R x (clr_new y)) ->
  Sub l' l -> StronglySorted R l -> StronglySorted R l'.
Proof.
  intros Hl Hr H. induction H as [|x l' l H IH|x l' l H IH|x l' l H IH]; intro HS.
  - constructor.
  - inversion HS; subst. apply IH. assumption.
  - inversion HS as [|? ? HS' HF]; subst. constructor; [apply IH, HS'|].
    apply (Sub_Forall (R x) l' l); [intros y Hy; apply Hr, Hy|exact H|exact HF].
  - inversion HS as [|? ? HS' HF]; subst. constructor; [apply IH, HS'|].
    apply (Sub_Forall (R (clr_new x)) l' l); [intros y Hy; apply Hr, Hy|exact H|].
    eapply Forall_impl; [|exact HF]. intros y Hy. apply Hl, Hy.
Qed.

(* ------------------------------------------------------------------------------------------- *)
(* lyd_validate_new only drops nodes and clears LYD_NEW                                          *)
(* ------------------------------------------------------------------------------------------- *)
Section VnewSub.
  Variable sch : schema.

  Lemma validate_cases_Sub path p pre c f r : validate_cases sch path p pre c f = Ok r -> Sub (fst r) f.
  Proof.
    intro H. unfold validate_cases in H. apply bind_ok in H. destruct H as [[o n] [_ H]].
    destruct o as [ko|]; [destruct n|]; inversion H; subst; cbn [fst]; try apply Sub_refl. apply Sub_filter.
  Qed.

  Lemma choice_r_Sub path p f0 : forall fuel pre st r, Sub (fst st) f0 -> choice_r fuel sch path p pre st = Ok r -> Sub (fst r) f0.
  Proof.
    induction fuel as [|fuel IH]; intros pre st r Hs H; cbn [choice_r] in H; [discriminate|].
    apply (fold_res_inv _ (fun s => Sub (fst s) f0) _) with (s := st) (r := r) in H; [exact H| |exact Hs].
    intros s c r' _ Hs' Hc. apply bind_ok in Hc. destruct Hc as [a [Ha Hc]].
    apply validate_cases_Sub in Ha.
    apply (fold_res_inv _ (fun s => Sub (fst s) f0) _) with (s := (fst a, snd s ++ snd a)) (r := r') in Hc;
      [exact Hc| |cbn [fst]; apply (Sub_trans _ _ Hs' _ Ha)].
    intros s'' k r'' _ Hs'' Hk. apply (IH _ _ _ Hs'' Hk).
  Qed.

  Lemma autodel_dflt_Sub bef cur aft b gn r ds :
    autodel_dflt sch bef cur aft = (b, gn, r, ds) -> Sub b bef /\ Sub r aft.
  Proof.
    unfold autodel_dflt. intro H.
    destruct (existsb (is_expl_of (d_sid cur)) (bef ++ cur :: aft)).
    - inversion H; subst. split; apply Sub_filter.
    - destruct (kind_of sch (d_sid cur)) as [[|]| | | |];
        try (destruct (find (is_olddflt_of (d_sid cur)) bef);
             [inversion H; subst; split; [apply Sub_remove_first|apply Sub_refl]|
              destruct (find (is_olddflt_of (d_sid cur)) aft); inversion H; subst; split;
              try apply Sub_refl; apply Sub_remove_first]).
      inversion H; subst. split; apply Sub_refl.
  Qed.

  Lemma vnew_loop_Sub path f0 : forall fuel bef aft last acc r,
    Sub (bef ++ aft) f0 -> vnew_loop fuel sch path bef aft last acc = Ok r -> Sub (fst r) f0.
  Proof.
    induction fuel as [|fuel IH]; intros bef aft last acc r Hs H; cbn [vnew_loop] in H; [discriminate|].
    destruct aft as [|cur rest]; [inversion H; subst; cbn [fst]; rewrite app_nil_r in Hs; exact Hs|].
    destruct (d_new cur || d_dflt cur); cbn [negb] in H.
    2: { apply (IH _ _ _ _ _ ) in H; [exact H|]. rewrite <- app_assoc. exact Hs. }
    match type of H with context [match ?X with _ => _ end] =>
      match X with (if _ then _ else _) => destruct X as [[[bef1 gone] rest1] dels] eqn:Ea end end.
    assert (Hsub : Sub bef1 bef /\ Sub rest1 rest).
    { destruct (has_default sch (d_sid cur) && negb (opt_is last (d_sid cur)) && d_new cur).
      - apply (autodel_dflt_Sub _ _ _ _ _ _ _ Ea).
      - inversion Ea; subst. split; apply Sub_refl. }
    destruct Hsub as [Hs1 Hs2].
    assert (Hdrop : Sub (bef1 ++ rest1) f0).
    { apply (Sub_trans _ _ Hs). apply Sub_app; [exact Hs1|apply Sub_drop; exact Hs2]. }
    destruct gone; [apply (IH _ _ _ _ _ Hdrop H)|].
    destruct (d_new cur && negb (dup_inst sch (d_sid cur)) && existsb (same_inst sch cur) (bef1 ++ rest1)); [discriminate|].
    destruct (d_dflt (clr_new cur) && case_leftover sch (bef1 ++ clr_new cur :: rest1) (clr_new cur)).
    - apply (IH _ _ _ _ _ Hdrop H).
    - apply (IH _ _ _ _ _) in H; [exact H|]. rewrite <- app_assoc. cbn [app].
      apply (Sub_trans _ _ Hs). apply Sub_app; [exact Hs1|apply Sub_clr; exact Hs2].
  Qed.

  Lemma vnew_Sub path p f r : vnew sch path p f = Ok r -> Sub (fst r) f.
  Proof.
    intro H. unfold vnew in H. apply bind_ok in H. destruct H as [st [Hc H]].
    apply (choice_r_Sub path p f _ _ (f, []) st (Sub_refl f)) in Hc.
    apply (vnew_loop_Sub path f _ [] (fst st) None (snd st) r Hc H).
  Qed.
End VnewSub.

(* ------------------------------------------------------------------------------------------- *)
(* the canonical form does not look at metadata                                                  *)
(* ------------------------------------------------------------------------------------------- *)
Lemma clr_new_fields x : d_sid (clr_new x) = d_sid x /\ d_val (clr_new x) = d_val x /\ d_dflt (clr_new x) = d_dflt x /\
                         d_ch (clr_new x) = d_ch x.
Proof. destruct x; repeat split. Qed.

Lemma node_cmp_ext sch a a' b b' :
  d_sid a' = d_sid a -> d_val a' = d_val a -> d_ch a' = d_ch a ->
  d_sid b' = d_sid b -> d_val b' = d_val b -> d_ch b' = d_ch b ->
  node_cmp sch a' b' = node_cmp sch a b.
Proof. intros H1 H2 H3 H4 H5 H6. unfold node_cmp, node_key. rewrite H1, H2, H3, H4, H5, H6. reflexivity. Qed.

Lemma sib_ok_ext sch a a' b b' :
  d_sid a' = d_sid a -> d_val a' = d_val a -> d_ch a' = d_ch a ->
  d_sid b' = d_sid b -> d_val b' = d_val b -> d_ch b' = d_ch b ->
  sib_ok sch a b -> sib_ok sch a' b'.
Proof.
  intros H1 H2 H3 H4 H5 H6. unfold sib_ok. rewrite (node_cmp_ext sch a a' b b' H1 H2 H3 H4 H5 H6), H1, H4. exact (fun H => H).
Qed.

Lemma CanonN_ext sch p n n' :
  d_sid n' = d_sid n -> d_ch n' = d_ch n -> CanonN sch p n -> CanonN sch p n'.
Proof.
  destruct n as [s v d m ch], n' as [s' v' d' m' ch']. cbn [d_sid d_ch]. intros -> ->.
  rewrite !CanonN_unfold. exact (fun H => H).
Qed.

Lemma Sub_CanonAt sch p l' l : Sub l' l -> CanonAt sch p l -> CanonAt sch p l'.
Proof.
  intros H Hc. pose proof (canon_strongly_sorted sch p l Hc) as HS. destruct Hc as [_ HF].
  split.
  - assert (HS' : StronglySorted (sib_ok sch) l').
    { apply (Sub_sorted (sib_ok sch) l' l); [| |exact H|exact HS].
      - intros x y Hxy. destruct (clr_new_fields x) as [E1 [E2 [_ E4]]].
        apply (sib_ok_ext sch x (clr_new x) y y E1 E2 E4 eq_refl eq_refl eq_refl Hxy).
      - intros x y Hxy. destruct (clr_new_fields y) as [E1 [E2 [_ E4]]].
        apply (sib_ok_ext sch x x y (clr_new y) eq_refl eq_refl eq_refl E1 E2 E4 Hxy). }
    clear -HS'. induction HS' as [|a l HS IH HF]; [constructor|].
    destruct l as [|b l]; [constructor|]. constructor; [inversion HF; assumption|exact IH].
  - apply (Sub_Forall (CanonN sch p) l' l); [|exact H|exact HF].
    intros x Hx. destruct (clr_new_fields x) as [E1 [_ [_ E4]]]. apply (CanonN_ext sch p x (clr_new x) E1 E4 Hx).
Qed.

(* ------------------------------------------------------------------------------------------- *)
(* lyd_new_implicit keeps the sibling list canonical (Tree.insert_node_canon)                    *)
(* ------------------------------------------------------------------------------------------- *)

Lemma lookup_unique sch : sids_uniqb sch = true -> forall s i, In (s, i) sch -> lookup sch s = Some i.
Proof.
  unfold sids_uniqb. induction sch as [|[k j] r IH]; intros Hu s i Hin; [destruct Hin|].
  cbn [map fst nodupb] in Hu. apply andb_true_iff in Hu. destruct Hu as [Hn Hu]. cbn [lookup].
  destruct Hin as [E|Hin].
  - inversion E; subst. rewrite N.eqb_refl. reflexivity.
  - destruct (k =? s) eqn:Ek; [|apply IH; assumption].
    apply N.eqb_eq in Ek. subst k. exfalso. apply negb_true_iff in Hn.
    rewrite existsb_false_forall in Hn. specialize (Hn s). rewrite N.eqb_refl in Hn.
    assert (In s (map fst r)) by (apply in_map_iff; exists (s, i); split; [reflexivity|exact Hin]). specialize (Hn H). discriminate.
Qed.

Lemma schildren_lookup sch p s : sids_uniqb sch = true -> In s (schildren sch p) ->
  exists i, lookup sch s = Some i /\ si_parent i = p /\ In (s, i) sch.
Proof.
  intros Hu Hs. unfold schildren in Hs. apply in_map_iff in Hs. destruct Hs as [[s' i] [E Hin]]. cbn [fst] in E. subst s'.
  apply filter_In in Hin. destruct Hin as [Hin Hp]. cbn [snd] in Hp. apply opt_sid_eqb_eq in Hp.
  exists i. split; [apply (lookup_unique sch Hu s i Hin)|split; assumption].
Qed.

Lemma schema_okb_keys sch s i : schema_okb sch = true -> In (s, i) sch ->
  match si_kind i with KList => True | _ => si_keys i = [] end.
Proof.
  intros Hk Hin. unfold schema_okb in Hk. rewrite forallb_forall in Hk. specialize (Hk (s, i) Hin). cbn beta iota in Hk.
  apply andb_true_iff in Hk. destruct Hk as [Hk _]. apply andb_true_iff in Hk. destruct Hk as [Hk _].
  apply andb_true_iff in Hk. destruct Hk as [Hk _].
  destruct (si_kind i); try exact I; destruct (si_keys i); try reflexivity; discriminate.
Qed.

Section ImplCanon.
  Variable sch : schema.
  Hypothesis Hu : sids_uniqb sch = true.
  Hypothesis Hk : schema_okb sch = true.

  Lemma mk_dflt_canon p s v : In s (schildren sch p) ->
    match kind_of sch s with KList => False | _ => True end -> CanonN sch p (mk_dflt s v).
  Proof.
    intros Hs Hkind. unfold mk_dflt. rewrite CanonN_unfold.
    destruct (schildren_lookup sch p s Hu Hs) as [i [Hl [Hp Hin]]].
    split; [|split; constructor].
    exists i. split; [exact Hl|]. split; [exact Hp|]. split; [|intros _; reflexivity].
    pose proof (schema_okb_keys sch s i Hk Hin) as Hkeys.
    unfold kind_of, sget in Hkind. rewrite Hl in Hkind.
    destruct (si_kind i); try contradiction; rewrite Hkeys; intros k [].
  Qed.

  Lemma add_dflt_canon path p s st v :
    CanonAt sch p (fst st) -> In s (schildren sch p) -> match kind_of sch s with KList => False | _ => True end ->
    (multi sch s = true \/ has_sid (fst st) s = false) ->
    CanonAt sch p (fst (add_dflt sch path s st v)).
  Proof.
    intros Hc Hs Hkind Hm. unfold add_dflt. cbn [fst].
    apply insert_node_canon; [exact Hc|apply mk_dflt_canon; assumption|].
    unfold insertable, mk_dflt. cbn [d_sid]. destruct Hm as [Hm|Hm]; [left; exact Hm|right].
    intros b Hb E. unfold has_sid in Hm. rewrite existsb_false_forall in Hm. specialize (Hm b Hb).
    apply N.eqb_neq in Hm. contradiction.
  Qed.

  Lemma impl_snode_canon ns path p st s :
    CanonAt sch p (fst st) -> In s (schildren sch p) -> CanonAt sch p (fst (impl_snode sch ns path st s)).
  Proof.
    intros Hc Hs. unfold impl_snode. destruct (ns && negb (si_config (sget sch s))); [exact Hc|].
    destruct (has_sid (fst st) s) eqn:Eh; [exact Hc|].
    destruct (kind_of sch s) as [[|]| | | |] eqn:Ek; try exact Hc.
    - apply add_dflt_canon; [exact Hc|exact Hs|rewrite Ek; exact I|right; exact Eh].
    - destruct (si_dflts (sget sch s)); [exact Hc|].
      apply add_dflt_canon; [exact Hc|exact Hs|rewrite Ek; exact I|right; exact Eh].
    - apply (fold_left_inv _ (fun s' => CanonAt sch p (fst s'))); [|exact Hc].
      intros st' v _ Hc'. apply add_dflt_canon; [exact Hc'|exact Hs|rewrite Ek; exact I|left].
      unfold multi. rewrite Ek. reflexivity.
  Qed.

  Lemma implicit_canon ns path p : forall fuel pre st r,
    CanonAt sch p (fst st) -> implicit fuel sch ns path p pre st = Ok r -> CanonAt sch p (fst r).
  Proof.
    induction fuel as [|fuel IH]; intros pre st r Hs H; cbn [implicit] in H; [discriminate|].
    apply bind_ok in H. destruct H as [st1 [H1 H]]. inversion H; subst.
    apply (fold_left_inv _ (fun s' => CanonAt sch p (fst s'))).
    - intros s' x Hx Hs'. apply impl_snode_canon; [exact Hs'|]. unfold snodes_at in Hx. apply filter_In in Hx. apply Hx.
    - apply (fold_res_inv _ (fun s => CanonAt sch p (fst s)) _) with (s := st) (r := st1) in H1; [exact H1| |exact Hs].
      intros s c r' _ Hs' Hc.
      destruct (find (in_choice sch pre c) (fst s)) as [n|].
      + destruct (n_case sch pre c n); [apply (IH _ _ _ Hs' Hc)|inversion Hc; subst; exact Hs'].
      + destruct (dflt_case sch p pre c); [apply (IH _ _ _ Hs' Hc)|inversion Hc; subst; exact Hs'].
  Qed.
End ImplCanon.

(* ------------------------------------------------------------------------------------------- *)
(* key leaves survive a level unchanged                                                          *)
(* ------------------------------------------------------------------------------------------- *)
Definition kvals (k : sid) (l : forest) : list bytes := map d_val (filter (fun n => d_sid n =? k) l).

Definition plain (sch : schema) (k : sid) : Prop := has_default sch k = false /\ chainf sch k = [].


Lemma kvals_app k a b : kvals k (a ++ b) = kvals k a ++ kvals k b.
Proof. unfold kvals. rewrite filter_app, map_app. reflexivity. Qed.

Lemma child_val_kvals ch k : child_val ch k = hd [] (kvals k ch).
Proof.
  unfold child_val, find_sid, kvals. induction ch as [|c ch IH]; cbn [find filter map hd]; [reflexivity|].
  destruct (d_sid c =? k); cbn [map hd]; [reflexivity|exact IH].
Qed.

Lemma kvals_filter_other k q l : (forall n, In n l -> d_sid n = k -> q n = true) -> kvals k (filter q l) = kvals k l.
Proof.
  intro H. unfold kvals. induction l as [|n l IH]; cbn [filter]; [reflexivity|].
  assert (IH' := IH (fun x Hx => H x (or_intror Hx))).
  destruct (q n) eqn:Eq; cbn [filter]; destruct (d_sid n =? k) eqn:Ek; cbn [map]; try (rewrite IH'; reflexivity).
  apply N.eqb_eq in Ek. rewrite (H n (or_introl eq_refl) Ek) in Eq. discriminate.
Qed.

Lemma kvals_remove_first_other k q l : (forall n, In n l -> d_sid n = k -> q n = false) -> kvals k (remove_first q l) = kvals k l.
Proof.
  intro H. unfold kvals. induction l as [|n l IH]; cbn [remove_first]; [reflexivity|].
  assert (IH' := IH (fun x Hx => H x (or_intror Hx))).
  destruct (q n) eqn:Eq.
  - cbn [filter]. destruct (d_sid n =? k) eqn:Ek; [|reflexivity].
    apply N.eqb_eq in Ek. rewrite (H n (or_introl eq_refl) Ek) in Eq. discriminate.
  - cbn [filter]. destruct (d_sid n =? k); cbn [map]; rewrite IH'; reflexivity.
Qed.

Lemma kvals_insert_other sch k f n : d_sid n <> k -> kvals k (insert_node sch f n) = kvals k f.
Proof.
  intro Hn. apply N.eqb_neq in Hn. unfold kvals. induction f as [|b r IH]; cbn [insert_node filter].
  - rewrite Hn. reflexivity.
  - destruct (goes_before sch n b); cbn [filter]; [rewrite Hn; reflexivity|].
    destruct (d_sid b =? k); cbn [map]; rewrite IH; reflexivity.
Qed.

Section KeysKept.
  Variable sch : schema.
  Variable k : sid.
  Hypothesis Hp : plain sch k.

  Lemma in_case_plain pre c kk n : d_sid n = k -> in_case sch pre c kk n = false.
  Proof.
    intro E. unfold in_case, n_case, s_case. rewrite E. destruct Hp as [_ Hc]. rewrite Hc.
    destruct pre; reflexivity.
  Qed.

  Lemma validate_cases_kvals path p pre c f r : validate_cases sch path p pre c f = Ok r -> kvals k (fst r) = kvals k f.
  Proof.
    intro H. unfold validate_cases in H. apply bind_ok in H. destruct H as [[o n] [_ H]].
    destruct o as [ko|]; [destruct n|]; inversion H; subst; cbn [fst]; try reflexivity.
    apply kvals_filter_other. intros x _ E. rewrite (in_case_plain pre c ko x E). reflexivity.
  Qed.

  Lemma choice_r_kvals path p v0 : forall fuel pre st r,
    kvals k (fst st) = v0 -> choice_r fuel sch path p pre st = Ok r -> kvals k (fst r) = v0.
  Proof.
    induction fuel as [|fuel IH]; intros pre st r Hs H; cbn [choice_r] in H; [discriminate|].
    apply (fold_res_inv _ (fun s => kvals k (fst s) = v0) _) with (s := st) (r := r) in H; [exact H| |exact Hs].
    intros s c r' _ Hs' Hc. apply bind_ok in Hc. destruct Hc as [a [Ha Hc]].
    apply validate_cases_kvals in Ha.
    apply (fold_res_inv _ (fun s => kvals k (fst s) = v0) _) with (s := (fst a, snd s ++ snd a)) (r := r') in Hc;
      [exact Hc| |cbn [fst]; congruence].
    intros s'' kk r'' _ Hs'' Hk. apply (IH _ _ _ Hs'' Hk).
  Qed.

  Lemma autodel_dflt_kvals bef cur aft b gn r ds : d_sid cur <> k ->
    autodel_dflt sch bef cur aft = (b, gn, r, ds) -> kvals k b = kvals k bef /\ kvals k r = kvals k aft.
  Proof.
    intros Hc. unfold autodel_dflt. intro H.
    assert (Hq1 : forall l, kvals k (filter (fun n => negb (is_dflt_of (d_sid cur) n)) l) = kvals k l).
    { intro l. apply kvals_filter_other. intros n _ E. unfold is_dflt_of. rewrite E.
      assert (k =? d_sid cur = false) by (apply N.eqb_neq; congruence). rewrite H0. reflexivity. }
    assert (Hq2 : forall l, kvals k (remove_first (is_olddflt_of (d_sid cur)) l) = kvals k l).
    { intro l. apply kvals_remove_first_other. intros n _ E. unfold is_olddflt_of. rewrite E.
      assert (k =? d_sid cur = false) by (apply N.eqb_neq; congruence). rewrite H0. reflexivity. }
    destruct (existsb (is_expl_of (d_sid cur)) (bef ++ cur :: aft)).
    - inversion H; subst. split; apply Hq1.
    - destruct (kind_of sch (d_sid cur)) as [[|]| | | |];
        try (destruct (find (is_olddflt_of (d_sid cur)) bef);
             [inversion H; subst; split; [apply Hq2|reflexivity]|
              destruct (find (is_olddflt_of (d_sid cur)) aft); inversion H; subst; split; try reflexivity; apply Hq2]).
      inversion H; subst. split; reflexivity.
  Qed.

  Lemma kvals_clr_new l cur r : kvals k (l ++ clr_new cur :: r) = kvals k (l ++ cur :: r).
  Proof.
    rewrite !kvals_app. f_equal. unfold kvals. cbn [filter]. destruct cur as [s v d m ch]. cbn [clr_new d_sid].
    destruct (s =? k); reflexivity.
  Qed.

  Lemma vnew_loop_kvals path v0 : forall fuel bef aft last acc r,
    kvals k (bef ++ aft) = v0 -> vnew_loop fuel sch path bef aft last acc = Ok r -> kvals k (fst r) = v0.
  Proof.
    induction fuel as [|fuel IH]; intros bef aft last acc r Hs H; cbn [vnew_loop] in H; [discriminate|].
    destruct aft as [|cur rest]; [injection H as E; rewrite <- E; cbn [fst]; rewrite app_nil_r in Hs; exact Hs|].
    destruct (d_new cur || d_dflt cur); cbn [negb] in H.
    2: { apply (IH _ _ _ _ _ ) in H; [exact H|]. rewrite <- app_assoc. exact Hs. }
    match type of H with context [match ?X with _ => _ end] =>
      match X with (if _ then _ else _) => destruct X as [[[bef1 gone] rest1] dels] eqn:Ea end end.
    destruct (N.eq_dec (d_sid cur) k) as [Ek|Ek].
    - (* the current node is an instance of k: nothing is auto-deleted for it *)
      destruct Hp as [Hd Hc]. rewrite Ek, Hd in Ea. cbn [andb] in Ea. inversion Ea; subst bef1 gone rest1 dels.
      destruct (d_new cur && negb (dup_inst sch (d_sid cur)) && existsb (same_inst sch cur) (bef ++ rest)); [discriminate|].
      assert (El : case_leftover sch (bef ++ clr_new cur :: rest) (clr_new cur) = false).
      { unfold case_leftover. destruct (clr_new_fields cur) as [E1 _]. rewrite E1, Ek, Hc. reflexivity. }
      rewrite El, andb_false_r in H.
      apply (IH _ _ _ _ _) in H; [exact H|]. rewrite <- app_assoc. cbn [app]. rewrite kvals_clr_new. exact Hs.
    - assert (Hsub : kvals k bef1 = kvals k bef /\ kvals k rest1 = kvals k rest).
      { destruct (has_default sch (d_sid cur) && negb (opt_is last (d_sid cur)) && d_new cur).
        - apply (autodel_dflt_kvals _ _ _ _ _ _ _ Ek Ea).
        - inversion Ea; subst. split; reflexivity. }
      destruct Hsub as [Hs1 Hs2].
      assert (Hcur : kvals k [cur] = []).
      { unfold kvals. cbn [filter]. apply N.eqb_neq in Ek. rewrite Ek. reflexivity. }
      assert (Hdrop : kvals k (bef1 ++ rest1) = v0).
      { rewrite kvals_app, Hs1, Hs2. rewrite <- Hs. replace (cur :: rest) with ([cur] ++ rest) by reflexivity.
        rewrite !kvals_app, Hcur. reflexivity. }
      destruct gone; [apply (IH _ _ _ _ _ Hdrop H)|].
      destruct (d_new cur && negb (dup_inst sch (d_sid cur)) && existsb (same_inst sch cur) (bef1 ++ rest1)); [discriminate|].
      destruct (d_dflt (clr_new cur) && case_leftover sch (bef1 ++ clr_new cur :: rest1) (clr_new cur)).
      + apply (IH _ _ _ _ _ Hdrop H).
      + apply (IH _ _ _ _ _) in H; [exact H|]. rewrite <- app_assoc. cbn [app]. rewrite kvals_clr_new.
        replace (cur :: rest1) with ([cur] ++ rest1) by reflexivity.
        rewrite !kvals_app, Hcur, Hs1, Hs2. rewrite <- Hs.
        replace (cur :: rest) with ([cur] ++ rest) by reflexivity. rewrite !kvals_app, Hcur. reflexivity.
  Qed.

  Lemma vnew_kvals path p f r : vnew sch path p f = Ok r -> kvals k (fst r) = kvals k f.
  Proof.
    intro H. unfold vnew in H. apply bind_ok in H. destruct H as [st [Hc H]].
    apply (choice_r_kvals path p (kvals k f) _ _ (f, []) st eq_refl) in Hc.
    apply (vnew_loop_kvals path (kvals k f) _ [] (fst st) None (snd st) r Hc H).
  Qed.

  Lemma impl_snode_kvals ns path st s : kvals k (fst (impl_snode sch ns path st s)) = kvals k (fst st).
  Proof.
    unfold impl_snode. destruct (ns && negb (si_config (sget sch s))); [reflexivity|].
    destruct (has_sid (fst st) s); [reflexivity|].
    assert (Hadd : forall st' v, has_default sch s = true -> kvals k (fst (add_dflt sch path s st' v)) = kvals k (fst st')).
    { intros st' v Hd. unfold add_dflt. cbn [fst]. apply kvals_insert_other. unfold mk_dflt. cbn [d_sid].
      intro E. subst s. destruct Hp as [Hd' _]. congruence. }
    destruct (kind_of sch s) as [[|]| | | |] eqn:Ek; try reflexivity.
    - apply Hadd. unfold has_default. rewrite Ek. reflexivity.
    - destruct (si_dflts (sget sch s)) eqn:Ed; [reflexivity|]. apply Hadd. unfold has_default. rewrite Ek, Ed. reflexivity.
    - destruct (si_dflts (sget sch s)) as [|v vs] eqn:Ed; [reflexivity|].
      apply (fold_left_inv _ (fun s' => kvals k (fst s') = kvals k (fst st))); [|reflexivity].
      intros st' v' _ Hs'. rewrite Hadd; [exact Hs'|]. unfold has_default. rewrite Ek, Ed. reflexivity.
  Qed.

  Lemma implicit_kvals ns path p v0 : forall fuel pre st r,
    kvals k (fst st) = v0 -> implicit fuel sch ns path p pre st = Ok r -> kvals k (fst r) = v0.
  Proof.
    induction fuel as [|fuel IH]; intros pre st r Hs H; cbn [implicit] in H; [discriminate|].
    apply bind_ok in H. destruct H as [st1 [H1 H]]. inversion H; subst.
    apply (fold_left_inv _ (fun s' => kvals k (fst s') = kvals k (fst st))).
    - intros s' x _ Hs'. rewrite impl_snode_kvals. exact Hs'.
    - apply (fold_res_inv _ (fun s => kvals k (fst s) = kvals k (fst st)) _) with (s := st) (r := st1) in H1; [exact H1| |reflexivity].
      intros s c r' _ Hs' Hc.
      destruct (find (in_choice sch pre c) (fst s)) as [n|].
      + destruct (n_case sch pre c n); [apply (IH _ _ _ Hs' Hc)|inversion Hc; subst; exact Hs'].
      + destruct (dflt_case sch p pre c); [apply (IH _ _ _ Hs' Hc)|inversion Hc; subst; exact Hs'].
  Qed.

  Lemma descend_kvals rec path : forall l acc r, descend rec sch path l acc = Ok r -> kvals k (fst r) = kvals k l.
  Proof.
    induction l as [|n l IH]; intros acc r H; cbn [descend] in H.
    - inversion H; subst. reflexivity.
    - apply bind_ok in H. destruct H as [n' [Hn' H]]. apply bind_ok in H. destruct H as [r' [Hr' H]].
      inversion H; subst. cbn [fst]. apply IH in Hr'.
      assert (E : d_sid (fst n') = d_sid n /\ d_val (fst n') = d_val n).
      { destruct (is_inner sch (d_sid n)).
        - apply bind_ok in Hn'. destruct Hn' as [c [_ Hn']]. inversion Hn'; subst. cbn [fst]. destruct n; split; reflexivity.
        - inversion Hn'; subst. split; reflexivity. }
      destruct E as [E1 E2]. unfold kvals in *. cbn [filter]. rewrite E1. destruct (d_sid n =? k); cbn [map]; rewrite ?E2, Hr'; reflexivity.
  Qed.

  Lemma level_kvals val ns fuel path p f r : level fuel val ns sch path p f = Ok r -> kvals k (fst r) = kvals k f.
  Proof.
    destruct fuel as [|fuel]; intro H; cbn [level] in H; [discriminate|].
    apply bind_ok in H. destruct H as [st1 [H1 H]]. apply bind_ok in H. destruct H as [st2 [H2 H]].
    assert (E1 : kvals k (fst st1) = kvals k f).
    { destruct val; [apply (vnew_kvals _ _ _ _ H1)|inversion H1; subst; reflexivity]. }
    apply (implicit_kvals ns path p (kvals k f) _ _ _ _ E1) in H2.
    apply descend_kvals in H. congruence.
  Qed.
End KeysKept.

(* ------------------------------------------------------------------------------------------- *)
(* the DFS keeps the tree canonical                                                              *)
(* ------------------------------------------------------------------------------------------- *)
Definition Rel (sch : schema) (n n' : dnode) : Prop :=
  d_sid n' = d_sid n /\ d_val n' = d_val n /\
  forall k, In k (si_keys (sget sch (d_sid n))) -> child_val (d_ch n') k = child_val (d_ch n) k.

Lemma Rel_refl sch n : Rel sch n n.
Proof. repeat split. Qed.

Lemma node_key_rel sch n n' : Rel sch n n' -> node_key sch n' = node_key sch n.
Proof.
  intros [E1 [E2 E3]]. unfold node_key. rewrite E1, E2.
  destruct (si_kind (sget sch (d_sid n))); try reflexivity.
  apply map_ext_in. intros k Hk. rewrite (E3 k Hk). reflexivity.
Qed.

Lemma sib_ok_rel sch a a' b b' : Rel sch a a' -> Rel sch b b' -> sib_ok sch a b -> sib_ok sch a' b'.
Proof.
  intros Ha Hb. unfold sib_ok, node_cmp. rewrite (node_key_rel sch a a' Ha), (node_key_rel sch b b' Hb).
  destruct Ha as [Ea _], Hb as [Eb _]. rewrite Ea, Eb. exact (fun H => H).
Qed.

Lemma Adj_rel sch l l' : Forall2 (Rel sch) l l' -> Adj (sib_ok sch) l -> Adj (sib_ok sch) l'.
Proof.
  intro HF. induction HF as [|a a' l l' Ha HF IH]; intro HA; [constructor|].
  destruct HF as [|b b' l l' Hb HF]; [constructor|].
  constructor; [apply (sib_ok_rel sch a a' b b' Ha Hb), (Adj_head _ _ _ _ HA)|apply IH, (Adj_tail _ _ _ HA)].
Qed.

Lemma kvals_nonempty k l : kvals k l <> [] <-> exists c, In c l /\ d_sid c = k.
Proof.
  unfold kvals. split.
  - intro H. destruct (filter (fun n => d_sid n =? k) l) as [|c r] eqn:E; [contradiction|].
    assert (Hin : In c (filter (fun n => d_sid n =? k) l)) by (rewrite E; left; reflexivity).
    apply filter_In in Hin. destruct Hin as [Hin Hs]. apply N.eqb_eq in Hs. exists c. split; assumption.
  - intros [c [Hin Hs]] E.
    assert (Hf : In c (filter (fun n => d_sid n =? k) l)) by (apply filter_In; split; [exact Hin|apply N.eqb_eq; exact Hs]).
    destruct (filter (fun n => d_sid n =? k) l); [destruct Hf|discriminate].
Qed.

Section LevelCanon.
  Variable sch : schema.
  Hypothesis Hu : sids_uniqb sch = true.
  Hypothesis Hk : schema_okb sch = true.
  Hypothesis Hkeys : keys_plainb sch = true.

  Lemma keys_plain s i k : lookup sch s = Some i -> In k (si_keys i) -> plain sch k.
  Proof.
    intros Hl Hin. unfold keys_plainb in Hkeys. rewrite forallb_forall in Hkeys.
    specialize (Hkeys (s, i) (lookup_In sch s i Hl)). cbn [snd] in Hkeys. rewrite forallb_forall in Hkeys.
    specialize (Hkeys k Hin). apply andb_true_iff in Hkeys. destruct Hkeys as [H1 H2].
    split; [apply negb_true_iff; exact H1|apply is_nil_true; exact H2].
  Qed.

  (* replacing the children of a canonical node by a canonical list with the same key leaves *)
  Lemma set_ch_canon p n ch' :
    CanonN sch p n -> CanonAt sch (Some (d_sid n)) ch' ->
    (forall k, plain sch k -> kvals k ch' = kvals k (d_ch n)) ->
    is_inner sch (d_sid n) = true ->
    CanonN sch p (set_ch n ch') /\ Rel sch n (set_ch n ch').
  Proof.
    destruct n as [s v d m ch]. cbn [d_sid d_ch set_ch]. rewrite !CanonN_unfold.
    intros [[i [Hl [Hp [Hkp Ht]]]] _] [HA HF] Hkv Hin.
    split.
    - split; [|split; assumption].
      exists i. split; [exact Hl|]. split; [exact Hp|]. split.
      + intros k Hkin. apply kvals_nonempty. rewrite (Hkv k (keys_plain s i k Hl Hkin)). apply kvals_nonempty. apply Hkp, Hkin.
      + intro Hterm. exfalso. unfold is_inner, kind_of, sget in Hin. rewrite Hl in Hin. destruct (si_kind i); discriminate.
    - split; [reflexivity|]. split; [reflexivity|]. cbn [d_sid d_ch]. intros k Hkin.
      unfold sget in Hkin. rewrite Hl in Hkin. rewrite !child_val_kvals, (Hkv k (keys_plain s i k Hl Hkin)). reflexivity.
  Qed.

  Lemma descend_canon (rec : list pstep -> option sid -> forest -> res (forest * list change)) path p :
    (forall pa s f c, CanonAt sch (Some s) f -> rec pa (Some s) f = Ok c ->
       CanonAt sch (Some s) (fst c) /\ forall k, plain sch k -> kvals k (fst c) = kvals k f) ->
    forall l acc r, Forall (CanonN sch p) l -> descend rec sch path l acc = Ok r ->
      Forall (CanonN sch p) (fst r) /\ Forall2 (Rel sch) l (fst r).
  Proof.
    intros Hrec. induction l as [|n l IH]; intros acc r HF H; cbn [descend] in H.
    - inversion H; subst. split; constructor.
    - apply bind_ok in H. destruct H as [n' [Hn' H]]. apply bind_ok in H. destruct H as [r' [Hr' H]].
      inversion H; subst. cbn [fst]. inversion HF as [|? ? Hn HF']; subst.
      destruct (IH _ _ HF' Hr') as [H1 H2].
      assert (Hx : CanonN sch p (fst n') /\ Rel sch n (fst n')).
      { destruct (is_inner sch (d_sid n)) eqn:Ei.
        - apply bind_ok in Hn'. destruct Hn' as [c [Hc Hn']]. inversion Hn'; subst. cbn [fst].
          destruct (Hrec _ _ _ _ (CanonAt_children sch p n Hn) Hc) as [Hc1 Hc2].
          apply set_ch_canon; assumption.
        - inversion Hn'; subst. split; [exact Hn|apply Rel_refl]. }
      destruct Hx as [Hx1 Hx2]. split; constructor; assumption.
  Qed.

  Lemma level_canon val ns : forall fuel path p f r,
    CanonAt sch p f -> level fuel val ns sch path p f = Ok r -> CanonAt sch p (fst r).
  Proof.
    induction fuel as [|fuel IH]; intros path p f r Hc H; cbn [level] in H; [discriminate|].
    apply bind_ok in H. destruct H as [st1 [H1 H]]. apply bind_ok in H. destruct H as [st2 [H2 H]].
    assert (Hc1 : CanonAt sch p (fst st1)).
    { destruct val; [apply (Sub_CanonAt sch p _ f (vnew_Sub sch _ _ _ _ H1) Hc)|inversion H1; subst; exact Hc]. }
    apply (implicit_canon sch Hu Hk ns path p _ _ _ _ Hc1) in H2.
    destruct H2 as [HA HF].
    destruct (descend_canon (level fuel val ns sch) path p
                (fun pa s f' c Hf' Hcc => conj (IH pa (Some s) f' c Hf' Hcc)
                                               (fun k Hpl => level_kvals sch k Hpl val ns fuel pa (Some s) f' c Hcc))
                _ _ _ HF H) as [H3 H4].
    split; [apply (Adj_rel sch _ _ H4 HA)|exact H3].
  Qed.
End LevelCanon.

(* ------------------------------------------------------------------------------------------- *)
(* lyd_validate_final_r only sets default flags                                                  *)
(* ------------------------------------------------------------------------------------------- *)
Lemma map_res_Forall2 {A} (f : A -> res A) (Q : A -> A -> Prop) (l r : list A) :
  (forall x y, In x l -> f x = Ok y -> Q x y) -> map_res f l = Ok r -> Forall2 Q l r.
Proof.
  revert r. induction l as [|x l IH]; intros r Hf H; cbn [map_res] in H.
  - inversion H; subst. constructor.
  - apply bind_ok in H. destruct H as [x' [Hx H]]. apply bind_ok in H. destruct H as [r' [Hr H]]. inversion H; subst.
    constructor; [apply (Hf x x' (or_introl eq_refl) Hx)|apply (IH r' (fun a b Ha Hb => Hf a b (or_intror Ha) Hb) Hr)].
Qed.

Lemma Forall2_Rel_kvals sch k l l' : Forall2 (Rel sch) l l' -> kvals k l' = kvals k l.
Proof.
  induction 1 as [|a a' l l' [E1 [E2 _]] HF IH]; [reflexivity|].
  unfold kvals in *. cbn [filter]. rewrite E1. destruct (d_sid a =? k); cbn [map]; rewrite ?E2, IH; reflexivity.
Qed.

Lemma Forall2_and_l {A B} (P Q : A -> B -> Prop) l l' : Forall2 (fun x y => P x y /\ Q x y) l l' -> Forall2 P l l' /\ Forall2 Q l l'.
Proof. induction 1 as [|a b l l' [H1 H2] HF [IH1 IH2]]; split; constructor; assumption. Qed.

Lemma Forall2_Forall_r {A B} (P : B -> Prop) (Q : A -> B -> Prop) l l' : Forall2 (fun x y => P y /\ Q x y) l l' -> Forall P l'.
Proof. induction 1 as [|a b l l' [H1 H2] HF IH]; constructor; assumption. Qed.

Lemma final_node_canon sch n : forall p n', CanonN sch p n -> final_node sch n = Ok n' -> CanonN sch p n' /\ Rel sch n n'.
Proof.
  induction n as [s v d m ch IH] using dnode_ind'. intros p n' Hc H.
  rewrite final_node_unfold in H. apply bind_ok in H. destruct H as [u [_ H]].
  apply bind_ok in H. destruct H as [ch' [Hch H]]. inversion H; subst. clear H.
  pose proof Hc as Hc0. rewrite CanonN_unfold in Hc. destruct Hc as [[i [Hl [Hp [Hkp Ht]]]] [HA HF]].
  assert (H2 : Forall2 (fun x y => CanonN sch (Some s) y /\ Rel sch x y) ch ch').
  { apply (map_res_Forall2 (final_node sch) _ ch ch'); [|exact Hch].
    intros x y Hx Hy. rewrite Forall_forall in IH, HF. apply (IH x Hx (Some s) y (HF x Hx) Hy). }
  pose proof (Forall2_Forall_r _ _ _ _ H2) as HF'.
  destruct (Forall2_and_l _ _ _ _ H2) as [_ HR].
  assert (Hbase : CanonN sch p (DN s v d m ch') /\ Rel sch (DN s v d m ch) (DN s v d m ch')).
  { split.
    - rewrite CanonN_unfold. split; [|split; [apply (Adj_rel sch _ _ HR HA)|exact HF']].
      exists i. split; [exact Hl|]. split; [exact Hp|]. split.
      + intros k Hkin. apply kvals_nonempty. rewrite (Forall2_Rel_kvals sch k _ _ HR). apply kvals_nonempty. apply Hkp, Hkin.
      + intro Hterm. specialize (Ht Hterm). subst ch. inversion HR. reflexivity.
    - split; [reflexivity|]. split; [reflexivity|]. cbn [d_ch]. intros k _.
      rewrite !child_val_kvals, (Forall2_Rel_kvals sch k _ _ HR). reflexivity. }
  destruct Hbase as [Hb1 Hb2].
  assert (E : d_sid (np_set sch (DN s v d m ch')) = s /\ d_val (np_set sch (DN s v d m ch')) = v /\
              d_ch (np_set sch (DN s v d m ch')) = ch').
  { unfold np_set. destruct (is_np_cont sch (d_sid (DN s v d m ch')) && negb (d_dflt (DN s v d m ch')) &&
                              forallb d_dflt (d_ch (DN s v d m ch'))); repeat split. }
  destruct E as [E1 [E2 E3]]. split.
  - apply (CanonN_ext sch p (DN s v d m ch')); [exact E1|exact E3|exact Hb1].
  - destruct Hb2 as [_ [_ Hb3]]. split; [exact E1|]. split; [exact E2|]. rewrite E3. exact Hb3.
Qed.

Theorem validate_canon sch f g d :
  sids_uniqb sch = true -> schema_okb sch = true -> keys_plainb sch = true ->
  Canon sch f -> validate_all sch f = Ok (g, d) -> Canon sch g.
Proof.
  intros Hu Hk Hkeys Hc H. unfold validate_all in H. destruct f as [|n0 f0]; [inversion H; subst; apply CanonAt_nil|].
  apply bind_ok in H. destruct H as [st [Hs H]]. apply bind_ok in H. destruct H as [gg [Hfin H]]. inversion H; subst.
  apply (level_canon sch Hu Hk Hkeys true false _ _ _ _ _ Hc) in Hs. destruct Hs as [HA HF].
  unfold final_forest in Hfin. apply bind_ok in Hfin. destruct Hfin as [u [_ Hfin]].
  assert (H2 : Forall2 (fun x y => CanonN sch None y /\ Rel sch x y) (fst st) g).
  { apply (map_res_Forall2 (final_node sch) _ (fst st) g); [|exact Hfin].
    intros x y Hx Hy. rewrite Forall_forall in HF. apply (final_node_canon sch x None y (HF x Hx) Hy). }
  split; [apply (Adj_rel sch _ _ (proj2 (Forall2_and_l _ _ _ _ H2)) HA)|apply (Forall2_Forall_r _ _ _ _ H2)].
Qed.

Theorem implicit_all_canon sch ns f g d :
  sids_uniqb sch = true -> schema_okb sch = true -> keys_plainb sch = true ->
  Canon sch f -> implicit_all sch ns f = Ok (g, d) -> Canon sch g.
Proof. intros Hu Hk Hkeys Hc H. apply (level_canon sch Hu Hk Hkeys false ns _ _ _ _ _ Hc H). Qed.

(* ------------------------------------------------------------------------------------------- *)
(* witnesses of the deviations (each is a finding, replayed on libyang by known_findings.d/dflt.json)              *)
(* ------------------------------------------------------------------------------------------- *)
Definition wleaf (par : option sid) (d : list bytes) (ch : list chc) : sinfo :=
  mk_sinfo KLeaf par [] false true d ch false 0 None OBytes.
Definition w_ca := mk_chc 0 0 false false.       (* choice 0, case a *)
Definition w_cb := mk_chc 0 1 false false.       (* choice 0, case b *)
Definition w_cn1 := mk_chc 1 0 true false.       (* choice 1 (nested in case a), its default case n1 *)
Definition w_new : list (bytes * bytes) := [([], [])].

(* dflt-nested-case-leftover:
     choice ch { case a { leaf e; leaf d { default 1 } choice n { default n1; case n1 { leaf y { default 2 } } } }
                 case b { leaf z } }   leaf w
   sids: e 0, d 1, y 2, z 3, w 4. *)
Definition w1_sch : schema :=
  [(0, wleaf None [] [w_ca]); (1, wleaf None [[49]] [w_ca]); (2, wleaf None [[50]] [w_ca; w_cn1]);
   (3, wleaf None [] [w_cb]); (4, wleaf None [] [])].
Definition w1_parsed : forest := [DN 0 [113] false w_new []; DN 4 [119] false w_new []].              (* e, w: new *)
Definition w1_valid : forest :=
  [DN 0 [113] false [] []; DN 1 [49] true [] []; DN 2 [50] true [] []; DN 4 [119] false [] []].      (* e d(dflt) y(dflt) w *)
Definition w1_freed : forest := [DN 1 [49] true [] []; DN 2 [50] true [] []; DN 4 [119] false [] []]. (* e freed *)

Definition snd_or_nil (r : res (forest * list change)) : list change := match r with Ok (_, d) => d | Err _ => [] end.
Definition w1_d0 := snd_or_nil (validate_all w1_sch w1_parsed).
Definition w1_d := snd_or_nil (validate_all w1_sch w1_freed).

Lemma w1_f1 : schema_okb w1_sch = true. Proof. vm_compute. reflexivity. Qed.
Lemma w1_f2 : chc_okb w1_sch = true. Proof. vm_compute. reflexivity. Qed.
Lemma w1_f3 : validate_all w1_sch w1_parsed = Ok (w1_valid, w1_d0). Proof. vm_compute. reflexivity. Qed.
Lemma w1_f4 : normalb w1_sch w1_valid = true. Proof. vm_compute. reflexivity. Qed.
Lemma w1_f5 : canonb w1_sch None w1_freed = true. Proof. vm_compute. reflexivity. Qed.
Lemma w1_f6 : np_flagsb w1_sch w1_freed = true. Proof. vm_compute. reflexivity. Qed.
Lemma w1_f7 : flag_soundb w1_sch w1_freed = true. Proof. vm_compute. reflexivity. Qed.
Lemma w1_f8 : validate_all w1_sch w1_freed = Ok (w1_freed, w1_d). Proof. vm_compute. reflexivity. Qed.
Lemma w1_f8b : is_nil w1_d = false. Proof. vm_compute. reflexivity. Qed.
Lemma w1_f9 : normalb w1_sch w1_freed = false. Proof. vm_compute. reflexivity. Qed.
Lemma w1_f10 : strip w1_freed = [DN 4 [119] false [] []]. Proof. vm_compute. reflexivity. Qed.

Lemma w1_facts :
  schema_okb w1_sch = true /\ chc_okb w1_sch = true /\
  (exists d, validate_all w1_sch w1_parsed = Ok (w1_valid, d)) /\ normalb w1_sch w1_valid = true /\
  canonb w1_sch None w1_freed = true /\ np_flagsb w1_sch w1_freed = true /\ flag_soundb w1_sch w1_freed = true /\
  (exists d, validate_all w1_sch w1_freed = Ok (w1_freed, d) /\ d <> []) /\
  normalb w1_sch w1_freed = false /\ strip w1_freed = [DN 4 [119] false [] []].
Proof.
  split; [exact w1_f1|]. split; [exact w1_f2|]. split; [exists w1_d0; exact w1_f3|]. split; [exact w1_f4|].
  split; [exact w1_f5|]. split; [exact w1_f6|]. split; [exact w1_f7|].
  split; [exists w1_d; split; [exact w1_f8|intro E; pose proof w1_f8b as H; rewrite E in H; discriminate]|].
  split; [exact w1_f9|exact w1_f10].
Qed.

(* dflt-leaflist-partial: leaf-list ll { default x; default y }  leaf z;  sids ll 0, z 1 *)
Definition w2_sch : schema :=
  [(0, mk_sinfo KLeafList None [] false true [[120]; [121]] [] false 0 None OBytes); (1, wleaf None [] [])].
Definition w2_parsed : forest := [DN 1 [113] false w_new []].
Definition w2_valid : forest := [DN 0 [120] true [] []; DN 0 [121] true [] []; DN 1 [113] false [] []].
Definition w2_freed : forest := [DN 0 [121] true [] []; DN 1 [113] false [] []].                     (* ll = x freed *)

Definition w2_d0 := snd_or_nil (validate_all w2_sch w2_parsed).
Lemma w2_f1 : schema_okb w2_sch = true. Proof. vm_compute. reflexivity. Qed.
Lemma w2_f2 : chc_okb w2_sch = true. Proof. vm_compute. reflexivity. Qed.
Lemma w2_f3 : validate_all w2_sch w2_parsed = Ok (w2_valid, w2_d0). Proof. vm_compute. reflexivity. Qed.
Lemma w2_f4 : normalb w2_sch w2_valid = true. Proof. vm_compute. reflexivity. Qed.
Lemma w2_f5 : canonb w2_sch None w2_freed = true. Proof. vm_compute. reflexivity. Qed.
Lemma w2_f6 : flag_soundb w2_sch w2_freed = true. Proof. vm_compute. reflexivity. Qed.
Lemma w2_f7 : validate_all w2_sch w2_freed = Ok (w2_freed, []). Proof. vm_compute. reflexivity. Qed.
Lemma w2_f8 : normalb w2_sch w2_freed = false. Proof. vm_compute. reflexivity. Qed.

Lemma w2_facts :
  schema_okb w2_sch = true /\ chc_okb w2_sch = true /\
  (exists d, validate_all w2_sch w2_parsed = Ok (w2_valid, d)) /\ normalb w2_sch w2_valid = true /\
  canonb w2_sch None w2_freed = true /\ flag_soundb w2_sch w2_freed = true /\
  validate_all w2_sch w2_freed = Ok (w2_freed, []) /\ normalb w2_sch w2_freed = false.
Proof.
  split; [exact w2_f1|]. split; [exact w2_f2|]. split; [exists w2_d0; exact w2_f3|]. split; [exact w2_f4|].
  split; [exact w2_f5|]. split; [exact w2_f6|]. split; [exact w2_f7|exact w2_f8].
Qed.

(* vdiff-np-container: choice ch { case a { container c; leaf e } case b { leaf z } };  sids c 0, e 1, z 2 *)
Definition w3_sch : schema :=
  [(0, mk_sinfo (KCont false) None [] false true [] [w_ca] false 0 None OBytes); (1, wleaf None [] [w_ca]);
   (2, wleaf None [] [w_cb])].
Definition w3_parsed : forest := [DN 1 [113] false w_new []].
Definition w3_valid : forest := [DN 0 [] true [] []; DN 1 [113] false [] []].
Definition w3_freed : forest := [DN 0 [] true [] []].                                                  (* e freed *)

Definition w3_d0 := snd_or_nil (validate_all w3_sch w3_parsed).
Definition w3_d := snd_or_nil (validate_all w3_sch w3_freed).
Lemma w3_f1 : schema_okb w3_sch = true. Proof. vm_compute. reflexivity. Qed.
Lemma w3_f2 : chc_okb w3_sch = true. Proof. vm_compute. reflexivity. Qed.
Lemma w3_f3 : validate_all w3_sch w3_parsed = Ok (w3_valid, w3_d0). Proof. vm_compute. reflexivity. Qed.
Lemma w3_f4 : canonb w3_sch None w3_freed = true. Proof. vm_compute. reflexivity. Qed.
Lemma w3_f5 : validate_all w3_sch w3_freed = Ok ([], w3_d). Proof. vm_compute. reflexivity. Qed.
Lemma w3_f6 : changes_idb w3_sch w3_d = true. Proof. vm_compute. reflexivity. Qed.
Lemma w3_f7 : np_norm w3_sch (apply_changes w3_sch w3_d w3_freed) = w3_freed. Proof. vm_compute. reflexivity. Qed.
Lemma w3_f8 : np_norm w3_sch (apply_changes_all w3_sch w3_d w3_freed) = []. Proof. vm_compute. reflexivity. Qed.

Lemma w3_facts :
  schema_okb w3_sch = true /\ chc_okb w3_sch = true /\
  (exists d, validate_all w3_sch w3_parsed = Ok (w3_valid, d)) /\
  canonb w3_sch None w3_freed = true /\
  (exists d, validate_all w3_sch w3_freed = Ok ([], d) /\ changes_idb w3_sch d = true /\
             np_norm w3_sch (apply_changes w3_sch d w3_freed) = w3_freed /\
             np_norm w3_sch (apply_changes_all w3_sch d w3_freed) = []).
Proof.
  split; [exact w3_f1|]. split; [exact w3_f2|]. split; [exists w3_d0; exact w3_f3|]. split; [exact w3_f4|].
  exists w3_d. split; [exact w3_f5|]. split; [exact w3_f6|]. split; [exact w3_f7|exact w3_f8].
Qed.
