(* ImplicitP.v -- lemmas about Implicit.v: a tree in normal form is a fixpoint of validation (no change, empty change
   list), default flags are sound, validation keeps the canonical order. *)
From Coq Require Import Permutation Sorted.
From LY Require Import Base Tree TreeP Implicit.
From Coq Require Import ZifyBool ZifyNat ZifyN.
Local Open Scope N_scope.

(* ------------------------------------------------------------------------------------------- *)
(* small tools                                                                                   *)
(* ------------------------------------------------------------------------------------------- *)
Lemma bind_ok {A B} (r : res A) (f : A -> res B) b : bind r f = Ok b -> exists a, r = Ok a /\ f a = Ok b.
Proof. destruct r as [a|e]; cbn [bind]; intro H; [exists a; split; [reflexivity|exact H]|discriminate]. Qed.

Lemma fold_res_id {A S} (f : S -> A -> res S) (l : list A) (s r : S) :
  (forall x r', In x l -> f s x = Ok r' -> r' = s) -> fold_res f l s = Ok r -> r = s.
Proof.
  induction l as [|x l IH]; cbn [fold_res]; intros Hf H.
  - inversion H. reflexivity.
  - apply bind_ok in H. destruct H as [a [Ha Hr]].
    pose proof (Hf x a (or_introl eq_refl) Ha) as E. subst a.
    apply IH; [|exact Hr]. intros y r' Hy. apply Hf. right. exact Hy.
Qed.

Lemma filter_id {A} (q : A -> bool) (l : list A) : (forall x, In x l -> q x = true) -> filter q l = l.
Proof.
  induction l as [|x l IH]; cbn [filter]; intro H; [reflexivity|].
  rewrite (H x (or_introl eq_refl)). f_equal. apply IH. intros y Hy. apply H. right. exact Hy.
Qed.

Lemma existsb_false_forall {A} (q : A -> bool) (l : list A) : existsb q l = false <-> forall x, In x l -> q x = false.
Proof.
  split.
  - intros H x Hx. destruct (q x) eqn:E; [|reflexivity].
    assert (existsb q l = true) by (apply existsb_exists; exists x; split; assumption). congruence.
  - intro H. destruct (existsb q l) eqn:E; [|reflexivity].
    apply existsb_exists in E. destruct E as [x [Hx Hq]]. rewrite (H x Hx) in Hq. discriminate.
Qed.

Lemma clr_new_id n : d_new n = false -> clr_new n = n.
Proof.
  destruct n as [s v d m ch]. unfold d_new. cbn [d_meta clr_new]. intro H.
  f_equal. apply filter_id. intros kv Hkv.
  rewrite existsb_false_forall in H. rewrite (H kv Hkv). reflexivity.
Qed.

Lemma cc_eqb_eq a b : cc_eqb a b = true <-> a = b.
Proof.
  destruct a as [a1 a2], b as [b1 b2]. unfold cc_eqb. cbn [fst snd].
  rewrite andb_true_iff, !N.eqb_eq. split; [intros [-> ->]; reflexivity|intro H; inversion H; split; reflexivity].
Qed.

Lemma cc_eqb_refl a : cc_eqb a a = true.
Proof. apply cc_eqb_eq. reflexivity. Qed.

(* ------------------------------------------------------------------------------------------- *)
(* chains                                                                                        *)
(* ------------------------------------------------------------------------------------------- *)
(* next_chc pre l = Some x: l = l0 ++ x :: l1 with the (choice, case) pairs of l0 equal to pre *)
Lemma next_chc_some pre : forall l x, next_chc pre l = Some x -> exists l0 l1, l = l0 ++ x :: l1 /\ map cc_of l0 = pre.
Proof.
  induction pre as [|p pre IH]; intros l x H; destruct l as [|q l]; cbn [next_chc] in H; try discriminate.
  - inversion H; subst. exists [], l. split; reflexivity.
  - destruct (cc_eqb p (cc_of q)) eqn:E; [|discriminate].
    apply cc_eqb_eq in E. destruct (IH l x H) as [l0 [l1 [Hl Hp]]].
    exists (q :: l0), l1. split; [cbn [app]; congruence|cbn [map]; congruence].
Qed.

Lemma next_chc_app l0 x l1 : next_chc (map cc_of l0) (l0 ++ x :: l1) = Some x.
Proof.
  induction l0 as [|q l0 IH]; cbn [map app next_chc]; [reflexivity|].
  rewrite cc_eqb_refl. exact IH.
Qed.

Lemma chain_is_eq pre : forall l, chain_is pre l = true <-> map cc_of l = pre.
Proof.
  induction pre as [|p pre IH]; intros [|q l]; cbn [chain_is map]; split; intro H; try reflexivity; try discriminate.
  - apply andb_true_iff in H. destruct H as [H1 H2]. apply cc_eqb_eq in H1. apply IH in H2. congruence.
  - inversion H; subst. rewrite cc_eqb_refl. cbn [andb]. apply IH. reflexivity.
Qed.

Lemma chain_pre_app l0 l1 : chain_pre (map cc_of l0) (l0 ++ l1) = true.
Proof.
  induction l0 as [|q l0 IH]; cbn [map app chain_pre]; [reflexivity|].
  rewrite cc_eqb_refl. exact IH.
Qed.

(* the activity of a chain splits at every level *)
Lemma active_from_app sch g l0 : forall pre l1,
  active_from sch g pre (l0 ++ l1) = active_from sch g pre l0 && active_from sch g (pre ++ map cc_of l0) l1.
Proof.
  induction l0 as [|x l0 IH]; intros pre l1; cbn [app active_from map].
  - rewrite app_nil_r. reflexivity.
  - rewrite IH. rewrite <- app_assoc. cbn [app]. rewrite andb_assoc. reflexivity.
Qed.

(* ------------------------------------------------------------------------------------------- *)
(* lyd_validate_new on a sibling list without new nodes and without leftover defaults            *)
(* ------------------------------------------------------------------------------------------- *)
Section VNew.
  Variable sch : schema.

  Definition no_new (f : forest) : Prop := forall n, In n f -> d_new n = false.

  Lemma case_found_nonew pre c k f : no_new f -> case_found sch pre c k f <> FNew.
  Proof.
    intro Hn. unfold case_found.
    assert (E : existsb d_new (filter (in_case sch pre c k) f) = false).
    { apply existsb_false_forall. intros n Hin. apply filter_In in Hin. apply Hn. apply Hin. }
    rewrite E. destruct (filter (in_case sch pre c k) f); discriminate.
  Qed.

  Lemma cases_scan_nonew pre c f : no_new f ->
    forall ks old on, cases_scan sch pre c f ks old None = Ok on -> snd on = None.
  Proof.
    intro Hn. induction ks as [|k ks IH]; intros old on H; cbn [cases_scan] in H.
    - inversion H. reflexivity.
    - pose proof (case_found_nonew pre c k f Hn) as Hf.
      destruct (case_found sch pre c k f); [apply (IH _ _ H)| |congruence].
      destruct old; [discriminate|apply (IH _ _ H)].
  Qed.

  Lemma validate_cases_nonew path p pre c f r : no_new f -> validate_cases sch path p pre c f = Ok r -> r = (f, []).
  Proof.
    intros Hn H. unfold validate_cases in H. apply bind_ok in H. destruct H as [[o n] [Hs H]].
    apply (cases_scan_nonew pre c f Hn) in Hs. cbn [snd] in Hs. subst n.
    destruct o; inversion H; reflexivity.
  Qed.

  Lemma choice_r_nonew path p : forall fuel pre st r,
    no_new (fst st) -> choice_r fuel sch path p pre st = Ok r -> r = st.
  Proof.
    induction fuel as [|fuel IH]; intros pre st r Hn H; cbn [choice_r] in H; [discriminate|].
    apply (fold_res_id _ _ _ _) in H; [exact H|].
    intros c r' _ Hc. apply bind_ok in Hc. destruct Hc as [a [Ha Hc]].
    apply (validate_cases_nonew path p pre c (fst st) a Hn) in Ha. subst a. cbn [fst snd] in Hc.
    rewrite app_nil_r in Hc.
    assert (E : (fst st, snd st) = st) by (destruct st; reflexivity). rewrite E in Hc.
    apply (fold_res_id _ _ _ _) in Hc; [exact Hc|].
    intros k r'' _ Hk. apply (IH _ _ _ Hn Hk).
  Qed.

  Lemma vnew_loop_normal path : forall fuel bef aft last acc r,
    vnew_loop fuel sch path bef aft last acc = Ok r ->
    no_new aft ->
    (forall n, In n aft -> d_dflt n = true -> case_leftover sch (bef ++ aft) n = false) ->
    r = (bef ++ aft, acc).
  Proof.
    induction fuel as [|fuel IH]; intros bef aft last acc r H Hn Hl; cbn [vnew_loop] in H; [discriminate|].
    destruct aft as [|cur rest].
    - inversion H. rewrite app_nil_r. reflexivity.
    - assert (Hnc : d_new cur = false) by (apply Hn; left; reflexivity).
      assert (Hnr : no_new rest) by (intros n Hin; apply Hn; right; exact Hin).
      rewrite Hnc in H. cbn [orb] in H.
      destruct (d_dflt cur) eqn:Ed; cbn [negb] in H.
      + rewrite !andb_false_r in H. cbn [andb] in H. cbn [flat_map] in H. rewrite app_nil_r in H.
        rewrite (clr_new_id cur Hnc) in H. rewrite Ed in H.
        rewrite (Hl cur (or_introl eq_refl) Ed) in H. cbn [andb] in H.
        apply IH in H; [rewrite H, <- app_assoc; reflexivity|exact Hnr|].
        intros n Hin Hd. rewrite <- app_assoc. cbn [app]. apply Hl; [right; exact Hin|exact Hd].
      + apply IH in H; [rewrite H, <- app_assoc; reflexivity|exact Hnr|].
        intros n Hin Hd. rewrite <- app_assoc. cbn [app]. apply Hl; [right; exact Hin|exact Hd].
  Qed.

  Lemma vnew_normal path p f r :
    vnew sch path p f = Ok r -> no_new f ->
    (forall n, In n f -> d_dflt n = true -> case_leftover sch f n = false) ->
    r = (f, []).
  Proof.
    intros H Hn Hl. unfold vnew in H. apply bind_ok in H. destruct H as [st [Hc H]].
    apply choice_r_nonew in Hc; [|exact Hn]. subst st. cbn [fst snd] in H.
    apply vnew_loop_normal in H; [exact H|exact Hn|exact Hl].
  Qed.
End VNew.

(* ------------------------------------------------------------------------------------------- *)
(* what the normal form says about a default-flagged node                                        *)
(* ------------------------------------------------------------------------------------------- *)
Lemma is_nil_true {A} (l : list A) : is_nil l = true -> l = [].
Proof. destruct l; [reflexivity|discriminate]. Qed.

Lemma norm_snode_dflt_active sch g s n :
  norm_snode sch g s = true -> In n g -> is_dflt_of s n = true ->
  active sch g s = true /\ filter (is_expl_of s) g = [].
Proof.
  intros H Hin Hd.
  assert (HD : filter (is_dflt_of s) g <> []).
  { intro E. assert (Hf : In n (filter (is_dflt_of s) g)) by (apply filter_In; split; assumption).
    rewrite E in Hf. exact Hf. }
  unfold norm_snode in H.
  assert (Hw : is_nil (filter (is_expl_of s) g) && active sch g s = true).
  { destruct (is_nil (filter (is_expl_of s) g) && active sch g s) eqn:Ew; [reflexivity|exfalso].
    destruct (kind_of sch s) as [[|]| | | |]; try (apply is_nil_true in H; contradiction);
      destruct (si_dflts (sget sch s)); apply is_nil_true in H; contradiction. }
  apply andb_true_iff in Hw. destruct Hw as [Hx Ha]. split; [exact Ha|apply is_nil_true; exact Hx].
Qed.

Lemma in_case_chain sch pre c k m :
  in_case sch pre c k m = true ->
  exists l0 x l1, chainf sch (d_sid m) = l0 ++ x :: l1 /\ map cc_of l0 = pre /\ ch_id x = c /\ ch_case x = k.
Proof.
  unfold in_case, n_case, s_case. destruct (next_chc pre (chainf sch (d_sid m))) as [x|] eqn:E; [|discriminate].
  destruct (ch_id x =? c) eqn:Ec; [|discriminate]. intro Hk. apply N.eqb_eq in Ec. apply N.eqb_eq in Hk.
  destruct (next_chc_some _ _ _ E) as [l0 [l1 [Hl Hp]]]. exists l0, x, l1. repeat split; assumption.
Qed.

Lemma stale_prefix_some r : forall rp, stale_prefix r = Some rp ->
  exists r1 x r', r = r1 ++ rp /\ rp = x :: r' /\ ch_dflt x = false.
Proof.
  induction r as [|y r IH]; intros rp H; cbn [stale_prefix] in H; [discriminate|].
  destruct (ch_dflt y) eqn:Ey.
  - destruct (IH rp H) as [r1 [x [r' [E1 [E2 E3]]]]]. exists (y :: r1), x, r'. subst r. repeat split; assumption.
  - inversion H; subst rp. exists [], y, r. repeat split. exact Ey.
Qed.

(* the reversed prefix found by stale_prefix, in chain order: chain = l0 ++ x :: l1 with x the non-default case *)
Lemma stale_prefix_chain l rp : stale_prefix (rev l) = Some rp ->
  exists l0 x l1, l = l0 ++ x :: l1 /\ rev rp = l0 ++ [x] /\ ch_dflt x = false.
Proof.
  intro H. destruct (stale_prefix_some _ _ H) as [r1 [x [r' [E1 [E2 E3]]]]].
  exists (rev r'), x, (rev r1). subst rp. split; [|split; [reflexivity|exact E3]].
  rewrite <- (rev_involutive l), E1, rev_app_distr. cbn [rev]. rewrite <- app_assoc. reflexivity.
Qed.

Lemma norm_no_leftover sch p g n :
  norm_level sch p g = true -> In n g -> d_dflt n = true -> case_leftover sch g n = false.
Proof.
  intros H Hin Hd. unfold norm_level in H.
  apply andb_true_iff in H. destruct H as [H Hs]. apply andb_true_iff in H. destruct H as [H _].
  apply andb_true_iff in H. destruct H as [_ Hids].
  rewrite forallb_forall in Hids, Hs.
  pose proof (Hids n Hin) as Hm. apply existsb_exists in Hm. destruct Hm as [s [Hsin Hse]]. apply N.eqb_eq in Hse. subst s.
  pose proof (Hs _ Hsin) as Hn.
  assert (Hdo : is_dflt_of (d_sid n) n = true) by (unfold is_dflt_of; rewrite N.eqb_refl, Hd; reflexivity).
  destruct (norm_snode_dflt_active sch g (d_sid n) n Hn Hin Hdo) as [Ha _].
  unfold case_leftover. destruct (stale_prefix (rev (chainf sch (d_sid n)))) as [rp|] eqn:Er; [|reflexivity].
  destruct (stale_prefix_chain _ _ Er) as [l0 [x [l1 [Ec [Erp Edf]]]]].
  unfold active in Ha. rewrite Ec, active_from_app in Ha. apply andb_true_iff in Ha. destruct Ha as [_ Ha].
  cbn [active_from app] in Ha. rewrite Edf in Ha. cbn [andb] in Ha. rewrite orb_false_r in Ha.
  apply andb_true_iff in Ha. destruct Ha as [Ha _].
  apply existsb_exists in Ha. destruct Ha as [m [Hmin Hm]]. apply andb_true_iff in Hm. destruct Hm as [Hex Hic].
  destruct (in_case_chain _ _ _ _ _ Hic) as [la [x' [lb [Hl [Hp [Hc Hk]]]]]].
  apply negb_false_iff. apply existsb_exists. exists m. split; [exact Hmin|].
  apply andb_true_iff. split; [|exact Hex].
  rewrite Erp, Hl. rewrite map_app. cbn [map].
  assert (Ecc : cc_of x = cc_of x') by (unfold cc_of; congruence).
  rewrite <- Hp, Ecc.
  replace (map cc_of la ++ [cc_of x']) with (map cc_of (la ++ [x'])) by (rewrite map_app; reflexivity).
  replace (la ++ x' :: lb) with ((la ++ [x']) ++ lb) by (rewrite <- app_assoc; reflexivity).
  apply chain_pre_app.
Qed.

(* ------------------------------------------------------------------------------------------- *)
(* schema: consistent choice encoding                                                            *)
(* ------------------------------------------------------------------------------------------- *)
Lemma lookup_In sch s i : lookup sch s = Some i -> In (s, i) sch.
Proof.
  induction sch as [|[k j] r IH]; cbn [lookup]; [discriminate|].
  destruct (k =? s) eqn:E; intro H.
  - apply N.eqb_eq in E. inversion H; subst. left. reflexivity.
  - right. apply IH, H.
Qed.

Lemma chainf_incl sch s : incl (chainf sch s) (all_chcs sch).
Proof.
  unfold chainf, sget. destruct (lookup sch s) as [i|] eqn:E; [|intros x Hx; destruct Hx].
  intros x Hx. unfold all_chcs. apply in_flat_map. exists (s, i). split; [apply lookup_In; exact E|exact Hx].
Qed.

Lemma chc_eq sch x y : chc_okb sch = true -> In x (all_chcs sch) -> In y (all_chcs sch) -> cc_of x = cc_of y -> x = y.
Proof.
  intros Hk Hx Hy E. unfold chc_okb in Hk. rewrite forallb_forall in Hk. specialize (Hk x Hx).
  rewrite forallb_forall in Hk. specialize (Hk y Hy).
  unfold cc_of in E. inversion E as [[E1 E2]].
  rewrite E1, E2, !N.eqb_refl in Hk. cbn [negb orb] in Hk.
  apply andb_true_iff in Hk. destruct Hk as [Hk _]. apply andb_true_iff in Hk. destruct Hk as [Hd Hm].
  apply Bool.eqb_prop in Hd. apply Bool.eqb_prop in Hm.
  destruct x, y. cbn in *. congruence.
Qed.

Lemma chain_eq sch : chc_okb sch = true -> forall a b,
  incl a (all_chcs sch) -> incl b (all_chcs sch) -> map cc_of a = map cc_of b -> a = b.
Proof.
  intro Hk. induction a as [|x a IH]; intros [|y b] Ha Hb E; cbn [map] in E; try discriminate; [reflexivity|].
  assert (E1 : cc_of x = cc_of y) by congruence.
  assert (E2 : map cc_of a = map cc_of b) by congruence.
  f_equal.
  - apply (chc_eq sch); [exact Hk|apply Ha; left; reflexivity|apply Hb; left; reflexivity|exact E1].
  - apply IH; [intros z Hz; apply Ha; right; exact Hz|intros z Hz; apply Hb; right; exact Hz|exact E2].
Qed.

(* ------------------------------------------------------------------------------------------- *)
(* lyd_new_implicit on a sibling list in normal form                                             *)
(* ------------------------------------------------------------------------------------------- *)
Lemma fold_left_id {A S} (f : S -> A -> S) (l : list A) (s : S) :
  (forall x, In x l -> f s x = s) -> fold_left f l s = s.
Proof.
  induction l as [|x l IH]; cbn [fold_left]; intro H; [reflexivity|].
  rewrite (H x (or_introl eq_refl)). apply IH. intros y Hy. apply H. right. exact Hy.
Qed.

Lemma has_sid_false_filter g s q :
  has_sid g s = false -> filter (fun n => (d_sid n =? s) && q n) g = [].
Proof.
  intro H. unfold has_sid in H. rewrite existsb_false_forall in H.
  induction g as [|n g IH]; cbn [filter]; [reflexivity|].
  rewrite (H n (or_introl eq_refl)). cbn [andb]. apply IH. intros x Hx. apply H. right. exact Hx.
Qed.

Lemma same_vals_nil_cons v vs : same_vals [] (v :: vs) = false.
Proof.
  unfold same_vals. cbn [app forallb]. unfold count_val at 1 2. cbn [filter length].
  rewrite (proj2 (beq_bytes_eq v v) eq_refl). cbn [length Nat.eqb andb]. reflexivity.
Qed.

Lemma impl_snode_normal sch path g acc s :
  norm_snode sch g s = true -> active sch g s = true -> impl_snode sch false path (g, acc) s = (g, acc).
Proof.
  intros Hn Ha. unfold impl_snode. cbn [andb fst]. destruct (has_sid g s) eqn:Eh; [reflexivity|].
  unfold norm_snode in Hn.
  assert (ED : filter (is_dflt_of s) g = []) by (apply (has_sid_false_filter g s d_dflt Eh)).
  assert (EX : filter (is_expl_of s) g = []) by (apply (has_sid_false_filter g s (fun n => negb (d_dflt n)) Eh)).
  rewrite ED, EX, Ha in Hn. cbn [is_nil andb map] in Hn.
  destruct (kind_of sch s) as [[|]| | | |]; try reflexivity; try discriminate.
  - destruct (si_dflts (sget sch s)); [reflexivity|discriminate].
  - destruct (si_dflts (sget sch s)) as [|v vs]; [reflexivity|].
    rewrite same_vals_nil_cons in Hn. discriminate.
Qed.

Lemma norm_level_snode sch p g s : norm_level sch p g = true -> In s (schildren sch p) -> norm_snode sch g s = true.
Proof.
  intros H Hs. unfold norm_level in H. apply andb_true_iff in H. destruct H as [_ H].
  rewrite forallb_forall in H. apply H, Hs.
Qed.

Lemma norm_level_sid sch p g n : norm_level sch p g = true -> In n g -> In (d_sid n) (schildren sch p).
Proof.
  intros H Hin. unfold norm_level in H.
  apply andb_true_iff in H. destruct H as [H _]. apply andb_true_iff in H. destruct H as [H _].
  apply andb_true_iff in H. destruct H as [_ H].
  rewrite forallb_forall in H. specialize (H n Hin). apply existsb_exists in H. destruct H as [s [Hs E]].
  apply N.eqb_eq in E. subst s. exact Hs.
Qed.

Lemma filter_map_In {A B} (f : A -> option B) l b : In b (filter_map f l) <-> exists a, In a l /\ f a = Some b.
Proof.
  unfold filter_map. rewrite in_flat_map. split.
  - intros [a [Ha Hb]]. exists a. split; [exact Ha|]. destruct (f a); [destruct Hb as [->|[]]; reflexivity|destruct Hb].
  - intros [a [Ha Hb]]. exists a. split; [exact Ha|]. rewrite Hb. left. reflexivity.
Qed.

Lemma choice_elem_some sch p pre c q x :
  choice_elem sch p pre c q = Some x ->
  In x (all_chcs sch) /\ ch_id x = c /\ q x = true /\ exists s, next_chc pre (chainf sch s) = Some x.
Proof.
  unfold choice_elem.
  destruct (filter_map _ (schildren sch p)) as [|y r] eqn:E; [discriminate|]. intro H. inversion H; subst y.
  assert (Hin : In x (filter_map (fun s => match next_chc pre (chainf sch s) with
                                           | Some x => if (ch_id x =? c) && q x then Some x else None
                                           | None => None end) (schildren sch p))) by (rewrite E; left; reflexivity).
  apply filter_map_In in Hin. destruct Hin as [s [_ Hs]].
  destruct (next_chc pre (chainf sch s)) as [z|] eqn:En; [|discriminate].
  destruct ((ch_id z =? c) && q z) eqn:Ec; [|discriminate]. inversion Hs; subst z.
  apply andb_true_iff in Ec. destruct Ec as [Ec Eq]. apply N.eqb_eq in Ec.
  repeat split; try assumption.
  - destruct (next_chc_some _ _ _ En) as [l0 [l1 [Hl _]]]. apply (chainf_incl sch s). rewrite Hl. apply in_or_app. right. left. reflexivity.
  - exists s. exact En.
Qed.

Section ImplNormal.
  Variable sch : schema.
  Variable path : list pstep.
  Variable p : option sid.
  Variable g : forest.
  Hypothesis Hk : chc_okb sch = true.
  Hypothesis Hn : norm_level sch p g = true.

  Lemma implicit_normal : forall fuel l0 acc r,
    incl l0 (all_chcs sch) -> active_from sch g [] l0 = true ->
    implicit fuel sch false path p (map cc_of l0) (g, acc) = Ok r -> r = (g, acc).
  Proof.
    induction fuel as [|fuel IH]; intros l0 acc r Hi Ha H; cbn [implicit] in H; [discriminate|].
    apply bind_ok in H. destruct H as [st1 [H1 H2]].
    assert (E1 : st1 = (g, acc)).
    { apply (fold_res_id _ _ _ _) in H1; [exact H1|].
      intros c r' _ Hc. cbn [fst] in Hc.
      (* the chain element of the selected case and the activity of its level *)
      assert (Hstep : forall x, In x (all_chcs sch) -> ch_id x = c ->
                 (existsb (fun n => expl n && in_case sch (map cc_of l0) (ch_id x) (ch_case x) n) g ||
                  (ch_dflt x && negb (existsb (fun n => expl n && in_choice sch (map cc_of l0) (ch_id x) n) g))) = true ->
                 implicit fuel sch false path p (map cc_of l0 ++ [(c, ch_case x)]) (g, acc) = Ok r' -> r' = (g, acc)).
      { intros x Hx Hxc Hlev Hr.
        apply (IH (l0 ++ [x]) acc r').
        - intros z Hz. apply in_app_or in Hz. destruct Hz as [Hz|[->|[]]]; [apply Hi; exact Hz|exact Hx].
        - rewrite active_from_app, Ha. cbn [andb active_from app]. rewrite Hlev. reflexivity.
        - rewrite map_app. cbn [map]. unfold cc_of at 2. rewrite Hxc. exact Hr. }
      destruct (find (in_choice sch (map cc_of l0) c) g) as [n|] eqn:Ef.
      - (* data of the choice exists *)
        pose proof (find_some _ _ Ef) as [Hnin Hnc].
        unfold in_choice in Hnc. unfold n_case, s_case in Hc, Hnc.
        destruct (next_chc (map cc_of l0) (chainf sch (d_sid n))) as [x|] eqn:En; [|discriminate].
        destruct (ch_id x =? c) eqn:Exc; [|discriminate]. apply N.eqb_eq in Exc.
        destruct (next_chc_some _ _ _ En) as [la [lb [Hl Hp]]].
        assert (Hxin : In x (all_chcs sch)).
        { apply (chainf_incl sch (d_sid n)). rewrite Hl. apply in_or_app. right. left. reflexivity. }
        apply (Hstep x Hxin Exc); [|exact Hc].
        destruct (d_dflt n) eqn:Ed.
        + (* a default node: its own chain is active *)
          assert (Hdo : is_dflt_of (d_sid n) n = true) by (unfold is_dflt_of; rewrite N.eqb_refl, Ed; reflexivity).
          pose proof (norm_level_snode sch p g _ Hn (norm_level_sid sch p g n Hn Hnin)) as Hsn.
          destruct (norm_snode_dflt_active sch g _ n Hsn Hnin Hdo) as [Hact _].
          unfold active in Hact. rewrite Hl, active_from_app in Hact. apply andb_true_iff in Hact. destruct Hact as [_ Hact].
          cbn [active_from app] in Hact. rewrite Hp in Hact. apply andb_true_iff in Hact. apply Hact.
        + apply orb_true_iff. left. apply existsb_exists. exists n. split; [exact Hnin|].
          unfold expl. rewrite Ed. cbn [negb andb]. unfold in_case, n_case, s_case. rewrite En, N.eqb_refl. apply N.eqb_refl.
      - (* no data: the default case *)
        unfold dflt_case in Hc.
        destruct (choice_elem sch p (map cc_of l0) c ch_dflt) as [x|] eqn:Ece; cbn [option_map] in Hc; [|inversion Hc; reflexivity].
        destruct (choice_elem_some _ _ _ _ _ _ Ece) as [Hxin [Hxc [Hxd _]]].
        apply (Hstep x Hxin Hxc); [|exact Hc].
        apply orb_true_iff. right. rewrite Hxd. cbn [andb]. apply negb_true_iff. apply existsb_false_forall.
        intros m Hm. rewrite Hxc. pose proof (find_none _ _ Ef m Hm) as Hnone. rewrite Hnone. apply andb_false_r. }
    subst st1. inversion H2 as [H3]. apply fold_left_id.
    intros s Hs. unfold snodes_at in Hs. apply filter_In in Hs. destruct Hs as [Hsc Hci].
    apply impl_snode_normal; [apply (norm_level_snode sch p g s Hn Hsc)|].
    apply chain_is_eq in Hci.
    assert (E : chainf sch s = l0).
    { apply (chain_eq sch Hk); [apply chainf_incl|exact Hi|exact Hci]. }
    unfold active. rewrite E. exact Ha.
  Qed.
End ImplNormal.

(* ------------------------------------------------------------------------------------------- *)
(* unfolding lemmas for the functions with a nested fixpoint                                     *)
(* ------------------------------------------------------------------------------------------- *)
Lemma normal_node_unfold sch s v d m ch :
  normal_node sch (DN s v d m ch) =
  (if is_np_cont sch s then Bool.eqb d (forallb d_dflt ch) else true) &&
  (if is_inner sch s then norm_level sch (Some s) ch else true) && forallb (normal_node sch) ch.
Proof.
  reflexivity.
Qed.

Lemma final_node_unfold sch s v d m ch :
  final_node sch (DN s v d m ch) =
  bind (check_level (cfuel sch) sch (Some s) [] ch) (fun _ =>
  bind (map_res (final_node sch) ch) (fun ch' => Ok (np_set sch (DN s v d m ch')))).
Proof.
  cbn [final_node]. destruct (check_level (cfuel sch) sch (Some s) [] ch); cbn [bind]; [|reflexivity].
  assert (E : (fix go (l : list dnode) : res (list dnode) :=
                 match l with
                 | [] => Ok []
                 | x :: l' => bind (final_node sch x) (fun x' => bind (go l') (fun r => Ok (x' :: r)))
                 end) ch = map_res (final_node sch) ch).
  { induction ch as [|x ch IH]; cbn [map_res]; [reflexivity|]. rewrite IH. reflexivity. }
  rewrite E. reflexivity.
Qed.

(* ------------------------------------------------------------------------------------------- *)
(* Theorem A: a tree in normal form is a fixpoint of validation, the change list is empty        *)
(* ------------------------------------------------------------------------------------------- *)
Lemma norm_level_no_new sch p g : norm_level sch p g = true -> no_new g.
Proof.
  intros H n Hin. unfold norm_level in H.
  apply andb_true_iff in H. destruct H as [H _]. apply andb_true_iff in H. destruct H as [H _].
  apply andb_true_iff in H. destruct H as [H _].
  rewrite forallb_forall in H. apply negb_true_iff, H, Hin.
Qed.

Lemma set_ch_id n : set_ch n (d_ch n) = n.
Proof. destruct n; reflexivity. Qed.

Section LevelNormal.
  Variable sch : schema.
  Hypothesis Hk : chc_okb sch = true.

  Lemma descend_normal (rec : list pstep -> option sid -> forest -> res (forest * list change)) path :
    forall l acc r,
    (forall n, In n l -> is_inner sch (d_sid n) = true ->
       forall c, rec (path ++ [step_of sch n]) (Some (d_sid n)) (d_ch n) = Ok c -> c = (d_ch n, [])) ->
    descend rec sch path l acc = Ok r -> r = (l, acc).
  Proof.
    induction l as [|n l IH]; intros acc r Hrec H; cbn [descend] in H.
    - inversion H. reflexivity.
    - apply bind_ok in H. destruct H as [n' [Hn' H]]. apply bind_ok in H. destruct H as [r' [Hr' H]].
      assert (En : n' = (n, [])).
      { destruct (is_inner sch (d_sid n)) eqn:Ei.
        - apply bind_ok in Hn'. destruct Hn' as [c [Hc Hn']].
          apply (Hrec n (or_introl eq_refl) Ei) in Hc. subst c. cbn [fst snd] in Hn'. rewrite set_ch_id in Hn'.
          inversion Hn'. reflexivity.
        - inversion Hn'. reflexivity. }
      subst n'. cbn [fst snd] in *. rewrite app_nil_r in Hr'.
      apply IH in Hr'; [|intros x Hx; apply Hrec; right; exact Hx]. subst r'. inversion H. reflexivity.
  Qed.

  Lemma level_normal : forall fuel path p g st,
    level fuel true false sch path p g = Ok st ->
    norm_level sch p g = true -> forallb (normal_node sch) g = true -> st = (g, []).
  Proof.
    induction fuel as [|fuel IH]; intros path p g st H Hn Hc; cbn [level] in H; [discriminate|].
    apply bind_ok in H. destruct H as [st1 [H1 H]]. apply bind_ok in H. destruct H as [st2 [H2 H]].
    apply vnew_normal in H1; [|apply (norm_level_no_new sch p g Hn)|intros n Hin Hd; apply (norm_no_leftover sch p g n Hn Hin Hd)].
    subst st1.
    apply (implicit_normal sch path p g Hk Hn (cfuel sch) [] [] st2) in H2; [|intros x []|reflexivity]. subst st2.
    cbn [fst snd] in H. apply descend_normal in H; [exact H|].
    intros n Hin Hi c Hcc. rewrite forallb_forall in Hc. specialize (Hc n Hin).
    destruct n as [s v d m ch]. rewrite normal_node_unfold in Hc. cbn [d_sid d_ch] in *. rewrite Hi in Hc.
    apply andb_true_iff in Hc. destruct Hc as [Hc Hch]. apply andb_true_iff in Hc. destruct Hc as [_ Hl].
    apply (IH _ _ _ _ Hcc Hl Hch).
  Qed.
End LevelNormal.

Lemma map_res_id {A} (f : A -> res A) (l r : list A) :
  Forall (fun x => forall y, f x = Ok y -> y = x) l -> map_res f l = Ok r -> r = l.
Proof.
  revert r. induction l as [|x l IH]; intros r HF H; cbn [map_res] in H.
  - inversion H. reflexivity.
  - apply bind_ok in H. destruct H as [x' [Hx H]]. apply bind_ok in H. destruct H as [r' [Hr H]].
    inversion HF as [|? ? Hx0 Hl0]; subst. apply Hx0 in Hx. apply (IH _ Hl0) in Hr. subst. inversion H. reflexivity.
Qed.

Lemma np_set_normal sch n : normal_node sch n = true -> np_set sch n = n.
Proof.
  destruct n as [s v d m ch]. rewrite normal_node_unfold. intro H.
  apply andb_true_iff in H. destruct H as [H _]. apply andb_true_iff in H. destruct H as [H _].
  unfold np_set. cbn [d_sid d_dflt d_ch]. destruct (is_np_cont sch s); [|reflexivity].
  apply Bool.eqb_prop in H. subst d. destruct (forallb d_dflt ch); reflexivity.
Qed.

Lemma final_node_normal sch n : forall n', final_node sch n = Ok n' -> normal_node sch n = true -> n' = n.
Proof.
  induction n as [s v d m ch IH] using dnode_ind'. intros n' H Hn.
  rewrite final_node_unfold in H. apply bind_ok in H. destruct H as [u [_ H]].
  apply bind_ok in H. destruct H as [ch' [Hch H]].
  pose proof Hn as Hn2. rewrite normal_node_unfold in Hn2. apply andb_true_iff in Hn2. destruct Hn2 as [_ Hall].
  assert (E : ch' = ch).
  { apply (map_res_id (final_node sch)); [|exact Hch].
    rewrite forallb_forall in Hall. rewrite Forall_forall in IH. apply Forall_forall.
    intros x Hx y Hy. apply (IH x Hx y Hy (Hall x Hx)). }
  subst ch'. inversion H. apply np_set_normal. exact Hn.
Qed.

Theorem validate_normal_fixpoint sch g g' d' :
  chc_okb sch = true -> normalb sch g = true -> validate_all sch g = Ok (g', d') -> g' = g /\ d' = [].
Proof.
  intros Hk Hn H. unfold normalb in Hn. apply andb_true_iff in Hn. destruct Hn as [Hl Hc].
  unfold validate_all in H. destruct g as [|n g0]; [inversion H; split; reflexivity|].
  apply bind_ok in H. destruct H as [st [Hs H]]. apply bind_ok in H. destruct H as [gg [Hf H]].
  apply (level_normal sch Hk) in Hs; [|exact Hl|exact Hc]. subst st. cbn [fst snd] in *.
  inversion H; subst. split; [|reflexivity].
  unfold final_forest in Hf. apply bind_ok in Hf. destruct Hf as [u [_ Hf]].
  apply (map_res_id (final_node sch)); [|exact Hf].
  rewrite forallb_forall in Hc. apply Forall_forall. intros x Hx y Hy. apply (final_node_normal sch x y Hy (Hc x Hx)).
Qed.

(* ------------------------------------------------------------------------------------------- *)
(* the default flag stays sound                                                                  *)
(* ------------------------------------------------------------------------------------------- *)
Lemma fold_res_inv {A S} (f : S -> A -> res S) (Inv : S -> Prop) (l : list A) :
  (forall s x r, In x l -> Inv s -> f s x = Ok r -> Inv r) -> forall s r, Inv s -> fold_res f l s = Ok r -> Inv r.
Proof.
  induction l as [|x l IH]; intros Hf s r Hs H; cbn [fold_res] in H.
  - inversion H; subst. exact Hs.
  - apply bind_ok in H. destruct H as [a [Ha H]].
    apply (IH (fun s' y r' Hy => Hf s' y r' (or_intror Hy)) a r); [|exact H].
    apply (Hf s x a (or_introl eq_refl) Hs Ha).
Qed.

Lemma fold_left_inv {A S} (f : S -> A -> S) (Inv : S -> Prop) (l : list A) :
  (forall s x, In x l -> Inv s -> Inv (f s x)) -> forall s, Inv s -> Inv (fold_left f l s).
Proof.
  induction l as [|x l IH]; intros Hf s Hs; cbn [fold_left]; [exact Hs|].
  apply IH; [intros s' y Hy; apply Hf; right; exact Hy|apply Hf; [left; reflexivity|exact Hs]].
Qed.

Lemma remove_first_In {A} (q : A -> bool) l x : In x (remove_first q l) -> In x l.
Proof.
  induction l as [|y l IH]; cbn [remove_first]; [intros []|].
  destruct (q y); intro H; [right; exact H|]. destruct H as [->|H]; [left; reflexivity|right; apply IH, H].
Qed.

Section Sound.
  Variable sch : schema.
  Let P (n : dnode) : Prop := sound_node sch n = true.
  Let PF (f : forest) : Prop := forall n, In n f -> P n.

  Lemma sound_node_unfold s v d m ch :
    sound_node sch (DN s v d m ch) = sound_top sch (DN s v d m ch) && forallb (sound_node sch) ch.
  Proof. reflexivity. Qed.

  Lemma sound_clr_new n : P n -> P (clr_new n).
  Proof. destruct n as [s v d m ch]. unfold P. cbn [clr_new]. rewrite !sound_node_unfold. exact (fun H => H). Qed.

  Lemma sound_set_ch n ch : P n -> PF ch -> P (set_ch n ch).
  Proof.
    destruct n as [s v d m c0]. unfold P, PF. cbn [set_ch]. rewrite !sound_node_unfold. intros H Hc.
    apply andb_true_iff in H. destruct H as [H _]. apply andb_true_iff. split; [exact H|].
    apply forallb_forall. exact Hc.
  Qed.

  Lemma sound_children n : P n -> PF (d_ch n).
  Proof.
    destruct n as [s v d m ch]. unfold P, PF. rewrite sound_node_unfold. cbn [d_ch]. intros H x Hx.
    apply andb_true_iff in H. destruct H as [_ H]. rewrite forallb_forall in H. apply H, Hx.
  Qed.

  Lemma sound_validate_cases path p pre c f r : PF f -> validate_cases sch path p pre c f = Ok r -> PF (fst r).
  Proof.
    intros Hf H. unfold validate_cases in H. apply bind_ok in H. destruct H as [[o n] [_ H]].
    destruct o as [ko|]; [destruct n|]; inversion H; subst; cbn [fst]; try exact Hf.
    intros x Hx. apply filter_In in Hx. apply Hf, Hx.
  Qed.

  Lemma sound_choice_r path p : forall fuel pre st r, PF (fst st) -> choice_r fuel sch path p pre st = Ok r -> PF (fst r).
  Proof.
    induction fuel as [|fuel IH]; intros pre st r Hs H; cbn [choice_r] in H; [discriminate|].
    apply (fold_res_inv _ (fun s => PF (fst s)) _) with (s := st) (r := r) in H; [exact H| |exact Hs].
    intros s c r' _ Hs' Hc. apply bind_ok in Hc. destruct Hc as [a [Ha Hc]].
    apply (sound_validate_cases _ _ _ _ _ _ Hs') in Ha.
    apply (fold_res_inv _ (fun s => PF (fst s)) _) with (s := (fst a, snd s ++ snd a)) (r := r') in Hc; [exact Hc| |exact Ha].
    intros s'' k r'' _ Hs'' Hk. apply (IH _ _ _ Hs'' Hk).
  Qed.

  Lemma autodel_dflt_sub bef cur aft b gn r ds :
    autodel_dflt sch bef cur aft = (b, gn, r, ds) ->
    (forall x, In x b -> In x bef) /\ (forall x, In x r -> In x aft).
  Proof.
    unfold autodel_dflt. intro H.
    destruct (existsb (is_expl_of (d_sid cur)) (bef ++ cur :: aft)).
    - inversion H; subst. split; intros x Hx; apply filter_In in Hx; apply Hx.
    - destruct (kind_of sch (d_sid cur)) as [[|]| | | |];
        try (destruct (find (is_olddflt_of (d_sid cur)) bef);
             [inversion H; subst; split; [intros x Hx; apply (remove_first_In _ _ _ Hx)|auto]|
              destruct (find (is_olddflt_of (d_sid cur)) aft); inversion H; subst; split; auto;
              intros x Hx; apply (remove_first_In _ _ _ Hx)]).
      inversion H; subst. split; auto.
  Qed.

  Lemma sound_vnew_loop path : forall fuel bef aft last acc r,
    PF bef -> PF aft -> vnew_loop fuel sch path bef aft last acc = Ok r -> PF (fst r).
  Proof.
    induction fuel as [|fuel IH]; intros bef aft last acc r Hb Ha H; cbn [vnew_loop] in H; [discriminate|].
    destruct aft as [|cur rest]; [inversion H; subst; exact Hb|].
    assert (Hc : P cur) by (apply Ha; left; reflexivity).
    assert (Hr : PF rest) by (intros x Hx; apply Ha; right; exact Hx).
    assert (Happ : forall l x, PF l -> P x -> PF (l ++ [x])).
    { intros l x Hl Hx y Hy. apply in_app_or in Hy. destruct Hy as [Hy|[<-|[]]]; [apply Hl, Hy|exact Hx]. }
    destruct (d_new cur || d_dflt cur); cbn [negb] in H.
    2: apply (IH _ _ _ _ _ (Happ _ _ Hb Hc) Hr H).
    { match type of H with context [match ?X with _ => _ end] =>
        match X with (if _ then _ else _) => destruct X as [[[bef1 gone] rest1] dels] eqn:Ea end end.
      assert (Hsub : (forall x, In x bef1 -> In x bef) /\ (forall x, In x rest1 -> In x rest)).
      { destruct (has_default sch (d_sid cur) && negb (opt_is last (d_sid cur)) && d_new cur).
        - apply (autodel_dflt_sub _ _ _ _ _ _ _ Ea).
        - inversion Ea; subst. split; auto. }
      destruct Hsub as [Hs1 Hs2].
      assert (Hb1 : PF bef1) by (intros x Hx; apply Hb, Hs1, Hx).
      assert (Hr1 : PF rest1) by (intros x Hx; apply Hr, Hs2, Hx).
      destruct gone; [apply (IH _ _ _ _ _ Hb1 Hr1 H)|].
      destruct (d_new cur && negb (dup_inst sch (d_sid cur)) && existsb (same_inst sch cur) (bef1 ++ rest1)); [discriminate|].
      destruct (d_dflt (clr_new cur) && case_leftover sch (bef1 ++ clr_new cur :: rest1) (clr_new cur)).
      + apply (IH _ _ _ _ _ Hb1 Hr1 H).
      + apply (IH _ _ _ _ _ (Happ _ _ Hb1 (sound_clr_new _ Hc)) Hr1 H). }
  Qed.

  Lemma sound_vnew path p f r : PF f -> vnew sch path p f = Ok r -> PF (fst r).
  Proof.
    intros Hf H. unfold vnew in H. apply bind_ok in H. destruct H as [st [Hc H]].
    apply (sound_choice_r path p _ _ (f, []) st Hf) in Hc.
    apply (sound_vnew_loop path _ [] (fst st) None (snd st) r (fun x (Hx : In x []) => match Hx with end) Hc H).
  Qed.

  Lemma sound_add_dflt path s st v : PF (fst st) -> P (mk_dflt s v) -> PF (fst (add_dflt sch path s st v)).
  Proof.
    intros Hs Hn x Hx. unfold add_dflt in Hx. cbn [fst] in Hx. apply insert_node_In in Hx.
    destruct Hx as [->|Hx]; [exact Hn|apply Hs, Hx].
  Qed.

  Lemma sound_impl_snode ns path st s : PF (fst st) -> PF (fst (impl_snode sch ns path st s)).
  Proof.
    intro Hs. unfold impl_snode. destruct (ns && negb (si_config (sget sch s))); [exact Hs|].
    destruct (has_sid (fst st) s); [exact Hs|].
    destruct (kind_of sch s) as [[|]| | | |] eqn:Ek; try exact Hs.
    - apply sound_add_dflt; [exact Hs|]. unfold P, mk_dflt. rewrite sound_node_unfold. cbn [forallb].
      unfold sound_top. cbn [d_dflt d_sid negb orb]. rewrite Ek. reflexivity.
    - destruct (si_dflts (sget sch s)) as [|v vs] eqn:Ed; [exact Hs|].
      apply sound_add_dflt; [exact Hs|]. unfold P, mk_dflt. rewrite sound_node_unfold. cbn [forallb].
      unfold sound_top. cbn [d_dflt d_sid d_val negb orb]. rewrite Ek, Ed. cbn [existsb].
      rewrite (proj2 (beq_bytes_eq v v) eq_refl). reflexivity.
    - apply (fold_left_inv _ (fun s' => PF (fst s'))); [|exact Hs].
      intros st' v Hv Hs'. apply sound_add_dflt; [exact Hs'|]. unfold P, mk_dflt. rewrite sound_node_unfold. cbn [forallb].
      unfold sound_top. cbn [d_dflt d_sid d_val negb orb]. rewrite Ek. rewrite andb_true_r.
      apply existsb_exists. exists v. split; [exact Hv|apply beq_bytes_eq; reflexivity].
  Qed.

  Lemma sound_implicit ns path p : forall fuel pre st r, PF (fst st) -> implicit fuel sch ns path p pre st = Ok r -> PF (fst r).
  Proof.
    induction fuel as [|fuel IH]; intros pre st r Hs H; cbn [implicit] in H; [discriminate|].
    apply bind_ok in H. destruct H as [st1 [H1 H]]. inversion H; subst.
    apply (fold_left_inv _ (fun s' => PF (fst s'))); [intros s' x _ Hs'; apply sound_impl_snode; exact Hs'|].
    apply (fold_res_inv _ (fun s => PF (fst s)) _) with (s := st) (r := st1) in H1; [exact H1| |exact Hs].
    intros s c r' _ Hs' Hc.
    destruct (find (in_choice sch pre c) (fst s)) as [n|].
    - destruct (n_case sch pre c n); [apply (IH _ _ _ Hs' Hc)|inversion Hc; subst; exact Hs'].
    - destruct (dflt_case sch p pre c); [apply (IH _ _ _ Hs' Hc)|inversion Hc; subst; exact Hs'].
  Qed.

  Lemma sound_descend rec path : forall l acc r,
    (forall pa pp f c, PF f -> rec pa pp f = Ok c -> PF (fst c)) ->
    PF l -> descend rec sch path l acc = Ok r -> PF (fst r).
  Proof.
    induction l as [|n l IH]; intros acc r Hrec Hl H; cbn [descend] in H.
    - inversion H; subst. intros x [].
    - apply bind_ok in H. destruct H as [n' [Hn' H]]. apply bind_ok in H. destruct H as [r' [Hr' H]].
      inversion H; subst. cbn [fst].
      assert (Hn : P n) by (apply Hl; left; reflexivity).
      assert (Hp : P (fst n')).
      { destruct (is_inner sch (d_sid n)).
        - apply bind_ok in Hn'. destruct Hn' as [c [Hc Hn']]. inversion Hn'; subst. cbn [fst].
          apply sound_set_ch; [exact Hn|]. apply (Hrec _ _ _ _ (sound_children n Hn) Hc).
        - inversion Hn'; subst. exact Hn. }
      apply IH in Hr'; [|exact Hrec|intros x Hx; apply Hl; right; exact Hx].
      intros x [<-|Hx]; [exact Hp|apply Hr', Hx].
  Qed.

  Lemma sound_level val ns : forall fuel path p f r, PF f -> level fuel val ns sch path p f = Ok r -> PF (fst r).
  Proof.
    induction fuel as [|fuel IH]; intros path p f r Hf H; cbn [level] in H; [discriminate|].
    apply bind_ok in H. destruct H as [st1 [H1 H]]. apply bind_ok in H. destruct H as [st2 [H2 H]].
    assert (Hs1 : PF (fst st1)).
    { destruct val; [apply (sound_vnew _ _ _ _ Hf H1)|inversion H1; subst; exact Hf]. }
    apply (sound_implicit ns path p _ _ _ _ Hs1) in H2.
    apply (sound_descend _ _ _ _ _ (fun pa pp f' c Hf' Hc => IH pa pp f' c Hf' Hc) H2 H).
  Qed.

  Lemma sound_np_set n : P n -> P (np_set sch n).
  Proof.
    intro H. unfold np_set. destruct (is_np_cont sch (d_sid n)) eqn:En; cbn [andb]; [|exact H].
    destruct (negb (d_dflt n) && forallb d_dflt (d_ch n)); [|exact H].
    destruct n as [s v d m ch]. unfold P in *. cbn [set_dflt]. rewrite sound_node_unfold in *.
    apply andb_true_iff in H. destruct H as [_ H]. rewrite H, andb_true_r.
    unfold sound_top. cbn [d_dflt d_sid negb orb]. unfold is_np_cont in En. cbn [d_sid] in En.
    destruct (kind_of sch s) as [[|]| | | |]; try discriminate. reflexivity.
  Qed.

  Lemma map_res_Forall {A} (f : A -> res A) (Q : A -> Prop) (l r : list A) :
    (forall x y, In x l -> f x = Ok y -> Q y) -> map_res f l = Ok r -> forall y, In y r -> Q y.
  Proof.
    revert r. induction l as [|x l IH]; intros r Hf H; cbn [map_res] in H.
    - inversion H; subst. intros y [].
    - apply bind_ok in H. destruct H as [x' [Hx H]]. apply bind_ok in H. destruct H as [r' [Hr H]]. inversion H; subst.
      intros y [<-|Hy]; [apply (Hf x _ (or_introl eq_refl) Hx)|].
      apply (IH r' (fun a b Ha Hb => Hf a b (or_intror Ha) Hb) Hr y Hy).
  Qed.

  Lemma sound_final_node n : forall n', P n -> final_node sch n = Ok n' -> P n'.
  Proof.
    induction n as [s v d m ch IH] using dnode_ind'. intros n' Hn H.
    rewrite final_node_unfold in H. apply bind_ok in H. destruct H as [u [_ H]].
    apply bind_ok in H. destruct H as [ch' [Hch H]]. inversion H; subst.
    apply sound_np_set. apply (sound_set_ch (DN s v d m ch) ch' Hn).
    rewrite Forall_forall in IH.
    refine (map_res_Forall (final_node sch) P ch ch' _ Hch).
    intros x y Hx Hy. apply (IH x Hx y); [apply (sound_children _ Hn x Hx)|exact Hy].
  Qed.

  Theorem flag_sound_validate f g d : flag_soundb sch f = true -> validate_all sch f = Ok (g, d) -> flag_soundb sch g = true.
  Proof.
    intros Hf H. unfold flag_soundb in *. rewrite forallb_forall in Hf.
    unfold validate_all in H. destruct f as [|n0 f0]; [inversion H; reflexivity|].
    apply bind_ok in H. destruct H as [st [Hs H]]. apply bind_ok in H. destruct H as [gg [Hfin H]]. inversion H; subst.
    apply (sound_level true false _ _ _ _ _ Hf) in Hs.
    unfold final_forest in Hfin. apply bind_ok in Hfin. destruct Hfin as [u [_ Hfin]].
    apply forallb_forall.
    refine (map_res_Forall (final_node sch) P (fst st) g _ Hfin).
    intros x y Hx Hy. apply (sound_final_node x y (Hs x Hx) Hy).
  Qed.

  Theorem flag_sound_implicit ns f g d : flag_soundb sch f = true -> implicit_all sch ns f = Ok (g, d) -> flag_soundb sch g = true.
  Proof.
    intros Hf H. unfold flag_soundb in *. rewrite forallb_forall in Hf. apply forallb_forall.
    unfold implicit_all in H. apply (sound_level false ns _ _ _ _ _ Hf H).
  Qed.
End Sound.

(* ------------------------------------------------------------------------------------------- *)
(* Sub l' l: l' is l with some elements dropped and LYD_NEW cleared on some                      *)
(* ------------------------------------------------------------------------------------------- *)
Inductive Sub : forest -> forest -> Prop :=
| Sub_nil : Sub [] []
| Sub_drop x l' l : Sub l' l -> Sub l' (x :: l)
| Sub_keep x l' l : Sub l' l -> Sub (x :: l') (x :: l)
| Sub_clr x l' l : Sub l' l -> Sub (clr_new x :: l') (x :: l).

Lemma Sub_refl l : Sub l l.
Proof. induction l; constructor; assumption. Qed.

Lemma clr_new_idem x : clr_new (clr_new x) = clr_new x.
Proof.
  destruct x as [s v d m ch]. cbn [clr_new]. f_equal.
  induction m as [|kv m IH]; cbn [filter]; [reflexivity|].
  destruct (negb (is_newkv kv)) eqn:E; cbn [filter]; [rewrite E; f_equal; exact IH|exact IH].
Qed.

Lemma Sub_trans : forall b c, Sub b c -> forall a, Sub a b -> Sub a c.
Proof.
  induction 1 as [|x b c Hbc IH|x b c Hbc IH|x b c Hbc IH]; intros a Hab.
  - exact Hab.
  - constructor. apply IH, Hab.
  - inversion Hab; subst.
    + constructor. apply IH. assumption.
    + apply Sub_keep. apply IH. assumption.
    + apply Sub_clr. apply IH. assumption.
  - inversion Hab; subst.
    + constructor. apply IH. assumption.
    + apply Sub_clr. apply IH. assumption.
    + rewrite clr_new_idem. apply Sub_clr. apply IH. assumption.
Qed.

Lemma Sub_app a a' b b' : Sub a a' -> Sub b b' -> Sub (a ++ b) (a' ++ b').
Proof.
  intros Ha Hb. induction Ha; cbn [app]; [exact Hb|apply Sub_drop|apply Sub_keep|apply Sub_clr]; assumption.
Qed.

Lemma Sub_filter q l : Sub (filter q l) l.
Proof. induction l as [|x l IH]; cbn [filter]; [constructor|]. destruct (q x); constructor; exact IH. Qed.

Lemma Sub_remove_first q l : Sub (remove_first q l) l.
Proof.
  induction l as [|x l IH]; cbn [remove_first]; [constructor|].
  destruct (q x); [constructor; apply Sub_refl|constructor; exact IH].
Qed.

Lemma Sub_In l' l x : Sub l' l -> In x l' -> exists y, In y l /\ (x = y \/ x = clr_new y).
Proof.
  induction 1 as [|z l' l H IH|z l' l H IH|z l' l H IH]; intro Hin.
  - destruct Hin.
  - destruct (IH Hin) as [y [Hy Hx]]. exists y. split; [right; exact Hy|exact Hx].
  - destruct Hin as [<-|Hin]; [exists z; split; [left; reflexivity|left; reflexivity]|].
    destruct (IH Hin) as [y [Hy Hx]]. exists y. split; [right; exact Hy|exact Hx].
  - destruct Hin as [<-|Hin]; [exists z; split; [left; reflexivity|right; reflexivity]|].
    destruct (IH Hin) as [y [Hy Hx]]. exists y. split; [right; exact Hy|exact Hx].
Qed.

(* a property of nodes that clr_new does not change is inherited *)
Lemma Sub_Forall (P : dnode -> Prop) l' l :
  (forall x, P x -> P (clr_new x)) -> Sub l' l -> Forall P l -> Forall P l'.
Proof.
  intros Hc H HF. apply Forall_forall. intros x Hx. rewrite Forall_forall in HF.
  destruct (Sub_In _ _ _ H Hx) as [y [Hy [-> | ->]]]; [apply HF, Hy|apply Hc, HF, Hy].
Qed.

Lemma Sub_sorted (R : dnode -> dnode -> Prop) l' l :
  (forall x y, R x y -> R (clr_new x) y) -> (forall x y, R x y -> R x (clr_new y)) ->
  Sub l' l -> StronglySorted R l -> StronglySorted R l'.
Proof.
  intros Hl Hr H. induction H as [|x l' l H IH|x l' l H IH|x l' l H IH]; intro HS.
  - constructor.
  - inversion HS; subst. apply IH. assumption.
  - inversion HS as [|? ? HS' HF]; subst. constructor; [apply IH, HS'|].
    apply (Sub_Forall (R x) l' l); [intros y Hy; apply Hr, Hy|exact H|exact HF].
  - inversion HS as [|? ? HS' HF]; subst. constructor; [apply IH, HS'|].
    apply (Sub_Forall (R (clr_new x)) l' l); [intros y Hy; apply Hr, Hy|exact H|].
    eapply Forall_impl; [|exact HF]. intros y Hy. apply Hl, Hy.
Qed.

(* ------------------------------------------------------------------------------------------- *)
(* lyd_validate_new only drops nodes and clears LYD_NEW                                          *)
(* ------------------------------------------------------------------------------------------- *)
Section VnewSub.
  Variable sch : schema.

  Lemma validate_cases_Sub path p pre c f r : validate_cases sch path p pre c f = Ok r -> Sub (fst r) f.
  Proof.
    intro H. unfold validate_cases in H. apply bind_ok in H. destruct H as [[o n] [_ H]].
    destruct o as [ko|]; [destruct n|]; inversion H; subst; cbn [fst]; try apply Sub_refl. apply Sub_filter.
  Qed.

  Lemma choice_r_Sub path p f0 : forall fuel pre st r, Sub (fst st) f0 -> choice_r fuel sch path p pre st = Ok r -> Sub (fst r) f0.
  Proof.
    induction fuel as [|fuel IH]; intros pre st r Hs H; cbn [choice_r] in H; [discriminate|].
    apply (fold_res_inv _ (fun s => Sub (fst s) f0) _) with (s := st) (r := r) in H; [exact H| |exact Hs].
    intros s c r' _ Hs' Hc. apply bind_ok in Hc. destruct Hc as [a [Ha Hc]].
    apply validate_cases_Sub in Ha.
    apply (fold_res_inv _ (fun s => Sub (fst s) f0) _) with (s := (fst a, snd s ++ snd a)) (r := r') in Hc;
      [exact Hc| |cbn [fst]; apply (Sub_trans _ _ Hs' _ Ha)].
    intros s'' k r'' _ Hs'' Hk. apply (IH _ _ _ Hs'' Hk).
  Qed.

  Lemma autodel_dflt_Sub bef cur aft b gn r ds :
    autodel_dflt sch bef cur aft = (b, gn, r, ds) -> Sub b bef /\ Sub r aft.
  Proof.
    unfold autodel_dflt. intro H.
    destruct (existsb (is_expl_of (d_sid cur)) (bef ++ cur :: aft)).
    - inversion H; subst. split; apply Sub_filter.
    - destruct (kind_of sch (d_sid cur)) as [[|]| | | |];
        try (destruct (find (is_olddflt_of (d_sid cur)) bef);
             [inversion H; subst; split; [apply Sub_remove_first|apply Sub_refl]|
              destruct (find (is_olddflt_of (d_sid cur)) aft); inversion H; subst; split;
              try apply Sub_refl; apply Sub_remove_first]).
      inversion H; subst. split; apply Sub_refl.
  Qed.

  Lemma vnew_loop_Sub path f0 : forall fuel bef aft last acc r,
    Sub (bef ++ aft) f0 -> vnew_loop fuel sch path bef aft last acc = Ok r -> Sub (fst r) f0.
  Proof.
    induction fuel as [|fuel IH]; intros bef aft last acc r Hs H; cbn [vnew_loop] in H; [discriminate|].
    destruct aft as [|cur rest]; [inversion H; subst; cbn [fst]; rewrite app_nil_r in Hs; exact Hs|].
    destruct (d_new cur || d_dflt cur); cbn [negb] in H.
    2: { apply (IH _ _ _ _ _ ) in H; [exact H|]. rewrite <- app_assoc. exact Hs. }
    match type of H with context [match ?X with _ => _ end] =>
      match X with (if _ then _ else _) => destruct X as [[[bef1 gone] rest1] dels] eqn:Ea end end.
    assert (Hsub : Sub bef1 bef /\ Sub rest1 rest).
    { destruct (has_default sch (d_sid cur) && negb (opt_is last (d_sid cur)) && d_new cur).
      - apply (autodel_dflt_Sub _ _ _ _ _ _ _ Ea).
      - inversion Ea; subst. split; apply Sub_refl. }
    destruct Hsub as [Hs1 Hs2].
    assert (Hdrop : Sub (bef1 ++ rest1) f0).
    { apply (Sub_trans _ _ Hs). apply Sub_app; [exact Hs1|apply Sub_drop; exact Hs2]. }
    destruct gone; [apply (IH _ _ _ _ _ Hdrop H)|].
    destruct (d_new cur && negb (dup_inst sch (d_sid cur)) && existsb (same_inst sch cur) (bef1 ++ rest1)); [discriminate|].
    destruct (d_dflt (clr_new cur) && case_leftover sch (bef1 ++ clr_new cur :: rest1) (clr_new cur)).
    - apply (IH _ _ _ _ _ Hdrop H).
    - apply (IH _ _ _ _ _) in H; [exact H|]. rewrite <- app_assoc. cbn [app].
      apply (Sub_trans _ _ Hs). apply Sub_app; [exact Hs1|apply Sub_clr; exact Hs2].
  Qed.

  Lemma vnew_Sub path p f r : vnew sch path p f = Ok r -> Sub (fst r) f.
  Proof.
    intro H. unfold vnew in H. apply bind_ok in H. destruct H as [st [Hc H]].
    apply (choice_r_Sub path p f _ _ (f, []) st (Sub_refl f)) in Hc.
    apply (vnew_loop_Sub path f _ [] (fst st) None (snd st) r Hc H).
  Qed.
End VnewSub.

(* ------------------------------------------------------------------------------------------- *)
(* the canonical form does not look at metadata                                                  *)
(* ------------------------------------------------------------------------------------------- *)
Lemma clr_new_fields x : d_sid (clr_new x) = d_sid x /\ d_val (clr_new x) = d_val x /\ d_dflt (clr_new x) = d_dflt x /\
                         d_ch (clr_new x) = d_ch x.
Proof. destruct x; repeat split. Qed.

Lemma node_cmp_ext sch a a' b b' :
  d_sid a' = d_sid a -> d_val a' = d_val a -> d_ch a' = d_ch a ->
  d_sid b' = d_sid b -> d_val b' = d_val b -> d_ch b' = d_ch b ->
  node_cmp sch a' b' = node_cmp sch a b.
Proof. intros H1 H2 H3 H4 H5 H6. unfold node_cmp, node_key. rewrite H1, H2, H3, H4, H5, H6. reflexivity. Qed.

Lemma sib_ok_ext sch a a' b b' :
  d_sid a' = d_sid a -> d_val a' = d_val a -> d_ch a' = d_ch a ->
  d_sid b' = d_sid b -> d_val b' = d_val b -> d_ch b' = d_ch b ->
  sib_ok sch a b -> sib_ok sch a' b'.
Proof.
  intros H1 H2 H3 H4 H5 H6. unfold sib_ok. rewrite (node_cmp_ext sch a a' b b' H1 H2 H3 H4 H5 H6), H1, H4. exact (fun H => H).
Qed.

Lemma CanonN_ext sch p n n' :
  d_sid n' = d_sid n -> d_ch n' = d_ch n -> CanonN sch p n -> CanonN sch p n'.
Proof.
  destruct n as [s v d m ch], n' as [s' v' d' m' ch']. cbn [d_sid d_ch]. intros -> ->.
  rewrite !CanonN_unfold. exact (fun H => H).
Qed.

Lemma Sub_CanonAt sch p l' l : Sub l' l -> CanonAt sch p l -> CanonAt sch p l'.
Proof.
  intros H Hc. pose proof (canon_strongly_sorted sch p l Hc) as HS. destruct Hc as [_ HF].
  split.
  - assert (HS' : StronglySorted (sib_ok sch) l').
    { apply (Sub_sorted (sib_ok sch) l' l); [| |exact H|exact HS].
      - intros x y Hxy. destruct (clr_new_fields x) as [E1 [E2 [_ E4]]].
        apply (sib_ok_ext sch x (clr_new x) y y E1 E2 E4 eq_refl eq_refl eq_refl Hxy).
      - intros x y Hxy. destruct (clr_new_fields y) as [E1 [E2 [_ E4]]].
        apply (sib_ok_ext sch x x y (clr_new y) eq_refl eq_refl eq_refl E1 E2 E4 Hxy). }
    clear -HS'. induction HS' as [|a l HS IH HF]; [constructor|].
    destruct l as [|b l]; [constructor|]. constructor; [inversion HF; assumption|exact IH].
  - apply (Sub_Forall (CanonN sch p) l' l); [|exact H|exact HF].
    intros x Hx. destruct (clr_new_fields x) as [E1 [_ [_ E4]]]. apply (CanonN_ext sch p x (clr_new x) E1 E4 Hx).
Qed.

(* ------------------------------------------------------------------------------------------- *)
(* lyd_new_implicit keeps the sibling list canonical (Tree.insert_node_canon)                    *)
(* ------------------------------------------------------------------------------------------- *)

Lemma lookup_unique sch : sids_uniqb sch = true -> forall s i, In (s, i) sch -> lookup sch s = Some i.
Proof.
  unfold sids_uniqb. induction sch as [|[k j] r IH]; intros Hu s i Hin; [destruct Hin|].
  cbn [map fst nodupb] in Hu. apply andb_true_iff in Hu. destruct Hu as [Hn Hu]. cbn [lookup].
  destruct Hin as [E|Hin].
  - inversion E; subst. rewrite N.eqb_refl. reflexivity.
  - destruct (k =? s) eqn:Ek; [|apply IH; assumption].
    apply N.eqb_eq in Ek. subst k. exfalso. apply negb_true_iff in Hn.
    rewrite existsb_false_forall in Hn. specialize (Hn s). rewrite N.eqb_refl in Hn.
    assert (In s (map fst r)) by (apply in_map_iff; exists (s, i); split; [reflexivity|exact Hin]). specialize (Hn H). discriminate.
Qed.

Lemma schildren_lookup sch p s : sids_uniqb sch = true -> In s (schildren sch p) ->
  exists i, lookup sch s = Some i /\ si_parent i = p /\ In (s, i) sch.
Proof.
  intros Hu Hs. unfold schildren in Hs. apply in_map_iff in Hs. destruct Hs as [[s' i] [E Hin]]. cbn [fst] in E. subst s'.
  apply filter_In in Hin. destruct Hin as [Hin Hp]. cbn [snd] in Hp. apply opt_sid_eqb_eq in Hp.
  exists i. split; [apply (lookup_unique sch Hu s i Hin)|split; assumption].
Qed.

Lemma schema_okb_keys sch s i : schema_okb sch = true -> In (s, i) sch ->
  match si_kind i with KList => True | _ => si_keys i = [] end.
Proof.
  intros Hk Hin. unfold schema_okb in Hk. rewrite forallb_forall in Hk. specialize (Hk (s, i) Hin). cbn beta iota in Hk.
  apply andb_true_iff in Hk. destruct Hk as [Hk _]. apply andb_true_iff in Hk. destruct Hk as [Hk _].
  apply andb_true_iff in Hk. destruct Hk as [Hk _].
  destruct (si_kind i); try exact I; destruct (si_keys i); try reflexivity; discriminate.
Qed.

Section ImplCanon.
  Variable sch : schema.
  Hypothesis Hu : sids_uniqb sch = true.
  Hypothesis Hk : schema_okb sch = true.

  Lemma mk_dflt_canon p s v : In s (schildren sch p) ->
    match kind_of sch s with KList => False | _ => True end -> CanonN sch p (mk_dflt s v).
  Proof.
    intros Hs Hkind. unfold mk_dflt. rewrite CanonN_unfold.
    destruct (schildren_lookup sch p s Hu Hs) as [i [Hl [Hp Hin]]].
    split; [|split; constructor].
    exists i. split; [exact Hl|]. split; [exact Hp|]. split; [|intros _; reflexivity].
    pose proof (schema_okb_keys sch s i Hk Hin) as Hkeys.
    unfold kind_of, sget in Hkind. rewrite Hl in Hkind.
    destruct (si_kind i); try contradiction; rewrite Hkeys; intros k [].
  Qed.

  Lemma add_dflt_canon path p s st v :
    CanonAt sch p (fst st) -> In s (schildren sch p) -> match kind_of sch s with KList => False | _ => True end ->
    (multi sch s = true \/ has_sid (fst st) s = false) ->
    CanonAt sch p (fst (add_dflt sch path s st v)).
  Proof.
    intros Hc Hs Hkind Hm. unfold add_dflt. cbn [fst].
    apply insert_node_canon; [exact Hc|apply mk_dflt_canon; assumption|].
    unfold insertable, mk_dflt. cbn [d_sid]. destruct Hm as [Hm|Hm]; [left; exact Hm|right].
    intros b Hb E. unfold has_sid in Hm. rewrite existsb_false_forall in Hm. specialize (Hm b Hb).
    apply N.eqb_neq in Hm. contradiction.
  Qed.

  Lemma impl_snode_canon ns path p st s :
    CanonAt sch p (fst st) -> In s (schildren sch p) -> CanonAt sch p (fst (impl_snode sch ns path st s)).
  Proof.
    intros Hc Hs. unfold impl_snode. destruct (ns && negb (si_config (sget sch s))); [exact Hc|].
    destruct (has_sid (fst st) s) eqn:Eh; [exact Hc|].
    destruct (kind_of sch s) as [[|]| | | |] eqn:Ek; try exact Hc.
    - apply add_dflt_canon; [exact Hc|exact Hs|rewrite Ek; exact I|right; exact Eh].
    - destruct (si_dflts (sget sch s)); [exact Hc|].
      apply add_dflt_canon; [exact Hc|exact Hs|rewrite Ek; exact I|right; exact Eh].
    - apply (fold_left_inv _ (fun s' => CanonAt sch p (fst s'))); [|exact Hc].
      intros st' v _ Hc'. apply add_dflt_canon; [exact Hc'|exact Hs|rewrite Ek; exact I|left].
      unfold multi. rewrite Ek. reflexivity.
  Qed.

  Lemma implicit_canon ns path p : forall fuel pre st r,
    CanonAt sch p (fst st) -> implicit fuel sch ns path p pre st = Ok r -> CanonAt sch p (fst r).
  Proof.
    induction fuel as [|fuel IH]; intros pre st r Hs H; cbn [implicit] in H; [discriminate|].
    apply bind_ok in H. destruct H as [st1 [H1 H]]. inversion H; subst.
    apply (fold_left_inv _ (fun s' => CanonAt sch p (fst s'))).
    - intros s' x Hx Hs'. apply impl_snode_canon; [exact Hs'|]. unfold snodes_at in Hx. apply filter_In in Hx. apply Hx.
    - apply (fold_res_inv _ (fun s => CanonAt sch p (fst s)) _) with (s := st) (r := st1) in H1; [exact H1| |exact Hs].
      intros s c r' _ Hs' Hc.
      destruct (find (in_choice sch pre c) (fst s)) as [n|].
      + destruct (n_case sch pre c n); [apply (IH _ _ _ Hs' Hc)|inversion Hc; subst; exact Hs'].
      + destruct (dflt_case sch p pre c); [apply (IH _ _ _ Hs' Hc)|inversion Hc; subst; exact Hs'].
  Qed.
End ImplCanon.

(* ------------------------------------------------------------------------------------------- *)
(* key leaves survive a level unchanged                                                          *)
(* ------------------------------------------------------------------------------------------- *)
Definition kvals (k : sid) (l : forest) : list bytes := map d_val (filter (fun n => d_sid n =? k) l).

Definition plain (sch : schema) (k : sid) : Prop := has_default sch k = false /\ chainf sch k = [].


Lemma kvals_app k a b : kvals k (a ++ b) = kvals k a ++ kvals k b.
Proof. unfold kvals. rewrite filter_app, map_app. reflexivity. Qed.

Lemma child_val_kvals ch k : child_val ch k = hd [] (kvals k ch).
Proof.
  unfold child_val, find_sid, kvals. induction ch as [|c ch IH]; cbn [find filter map hd]; [reflexivity|].
  destruct (d_sid c =? k); cbn [map hd]; [reflexivity|exact IH].
Qed.

Lemma kvals_filter_other k q l : (forall n, In n l -> d_sid n = k -> q n = true) -> kvals k (filter q l) = kvals k l.
Proof.
  intro H. unfold kvals. induction l as [|n l IH]; cbn [filter]; [reflexivity|].
  assert (IH' := IH (fun x Hx => H x (or_intror Hx))).
  destruct (q n) eqn:Eq; cbn [filter]; destruct (d_sid n =? k) eqn:Ek; cbn [map]; try (rewrite IH'; reflexivity).
  apply N.eqb_eq in Ek. rewrite (H n (or_introl eq_refl) Ek) in Eq. discriminate.
Qed.

Lemma kvals_remove_first_other k q l : (forall n, In n l -> d_sid n = k -> q n = false) -> kvals k (remove_first q l) = kvals k l.
Proof.
  intro H. unfold kvals. induction l as [|n l IH]; cbn [remove_first]; [reflexivity|].
  assert (IH' := IH (fun x Hx => H x (or_intror Hx))).
  destruct (q n) eqn:Eq.
  - cbn [filter]. destruct (d_sid n =? k) eqn:Ek; [|reflexivity].
    apply N.eqb_eq in Ek. rewrite (H n (or_introl eq_refl) Ek) in Eq. discriminate.
  - cbn [filter]. destruct (d_sid n =? k); cbn [map]; rewrite IH'; reflexivity.
Qed.

Lemma kvals_insert_other sch k f n : d_sid n <> k -> kvals k (insert_node sch f n) = kvals k f.
Proof.
  intro Hn. apply N.eqb_neq in Hn. unfold kvals. induction f as [|b r IH]; cbn [insert_node filter].
  - rewrite Hn. reflexivity.
  - destruct (goes_before sch n b); cbn [filter]; [rewrite Hn; reflexivity|].
    destruct (d_sid b =? k); cbn [map]; rewrite IH; reflexivity.
Qed.

Section KeysKept.
  Variable sch : schema.
  Variable k : sid.
  Hypothesis Hp : plain sch k.

  Lemma in_case_plain pre c kk n : d_sid n = k -> in_case sch pre c kk n = false.
  Proof.
    intro E. unfold in_case, n_case, s_case. rewrite E. destruct Hp as [_ Hc]. rewrite Hc.
    destruct pre; reflexivity.
  Qed.

  Lemma validate_cases_kvals path p pre c f r : validate_cases sch path p pre c f = Ok r -> kvals k (fst r) = kvals k f.
  Proof.
    intro H. unfold validate_cases in H. apply bind_ok in H. destruct H as [[o n] [_ H]].
    destruct o as [ko|]; [destruct n|]; inversion H; subst; cbn [fst]; try reflexivity.
    apply kvals_filter_other. intros x _ E. rewrite (in_case_plain pre c ko x E). reflexivity.
  Qed.

  Lemma choice_r_kvals path p v0 : forall fuel pre st r,
    kvals k (fst st) = v0 -> choice_r fuel sch path p pre st = Ok r -> kvals k (fst r) = v0.
  Proof.
    induction fuel as [|fuel IH]; intros pre st r Hs H; cbn [choice_r] in H; [discriminate|].
    apply (fold_res_inv _ (fun s => kvals k (fst s) = v0) _) with (s := st) (r := r) in H; [exact H| |exact Hs].
    intros s c r' _ Hs' Hc. apply bind_ok in Hc. destruct Hc as [a [Ha Hc]].
    apply validate_cases_kvals in Ha.
    apply (fold_res_inv _ (fun s => kvals k (fst s) = v0) _) with (s := (fst a, snd s ++ snd a)) (r := r') in Hc;
      [exact Hc| |cbn [fst]; congruence].
    intros s'' kk r'' _ Hs'' Hk. apply (IH _ _ _ Hs'' Hk).
  Qed.

  Lemma autodel_dflt_kvals bef cur aft b gn r ds : d_sid cur <> k ->
    autodel_dflt sch bef cur aft = (b, gn, r, ds) -> kvals k b = kvals k bef /\ kvals k r = kvals k aft.
  Proof.
    intros Hc. unfold autodel_dflt. intro H.
    assert (Hq1 : forall l, kvals k (filter (fun n => negb (is_dflt_of (d_sid cur) n)) l) = kvals k l).
    { intro l. apply kvals_filter_other. intros n _ E. unfold is_dflt_of. rewrite E.
      assert (k =? d_sid cur = false) by (apply N.eqb_neq; congruence). rewrite H0. reflexivity. }
    assert (Hq2 : forall l, kvals k (remove_first (is_olddflt_of (d_sid cur)) l) = kvals k l).
    { intro l. apply kvals_remove_first_other. intros n _ E. unfold is_olddflt_of. rewrite E.
      assert (k =? d_sid cur = false) by (apply N.eqb_neq; congruence). rewrite H0. reflexivity. }
    destruct (existsb (is_expl_of (d_sid cur)) (bef ++ cur :: aft)).
    - inversion H; subst. split; apply Hq1.
    - destruct (kind_of sch (d_sid cur)) as [[|]| | | |];
        try (destruct (find (is_olddflt_of (d_sid cur)) bef);
             [inversion H; subst; split; [apply Hq2|reflexivity]|
              destruct (find (is_olddflt_of (d_sid cur)) aft); inversion H; subst; split; try reflexivity; apply Hq2]).
      inversion H; subst. split; reflexivity.
  Qed.

  Lemma kvals_clr_new l cur r : kvals k (l ++ clr_new cur :: r) = kvals k (l ++ cur :: r).
  Proof.
    rewrite !kvals_app. f_equal. unfold kvals. cbn [filter]. destruct cur as [s v d m ch]. cbn [clr_new d_sid].
    destruct (s =? k); reflexivity.
  Qed.

  Lemma vnew_loop_kvals path v0 : forall fuel bef aft last acc r,
    kvals k (bef ++ aft) = v0 -> vnew_loop fuel sch path bef aft last acc = Ok r -> kvals k (fst r) = v0.
  Proof.
    induction fuel as [|fuel IH]; intros bef aft last acc r Hs H; cbn [vnew_loop] in H; [discriminate|].
    destruct aft as [|cur rest]; [injection H as E; rewrite <- E; cbn [fst]; rewrite app_nil_r in Hs; exact Hs|].
    destruct (d_new cur || d_dflt cur); cbn [negb] in H.
    2: { apply (IH _ _ _ _ _ ) in H; [exact H|]. rewrite <- app_assoc. exact Hs. }
    match type of H with context [match ?X with _ => _ end] =>
      match X with (if _ then _ else _) => destruct X as [[[bef1 gone] rest1] dels] eqn:Ea end end.
    destruct (N.eq_dec (d_sid cur) k) as [Ek|Ek].
    - (* the current node is an instance of k: nothing is auto-deleted for it *)
      destruct Hp as [Hd Hc]. rewrite Ek, Hd in Ea. cbn [andb] in Ea. inversion Ea; subst bef1 gone rest1 dels.
      destruct (d_new cur && negb (dup_inst sch (d_sid cur)) && existsb (same_inst sch cur) (bef ++ rest)); [discriminate|].
      assert (El : case_leftover sch (bef ++ clr_new cur :: rest) (clr_new cur) = false).
      { unfold case_leftover. destruct (clr_new_fields cur) as [E1 _]. rewrite E1, Ek, Hc. reflexivity. }
      rewrite El, andb_false_r in H.
      apply (IH _ _ _ _ _) in H; [exact H|]. rewrite <- app_assoc. cbn [app]. rewrite kvals_clr_new. exact Hs.
    - assert (Hsub : kvals k bef1 = kvals k bef /\ kvals k rest1 = kvals k rest).
      { destruct (has_default sch (d_sid cur) && negb (opt_is last (d_sid cur)) && d_new cur).
        - apply (autodel_dflt_kvals _ _ _ _ _ _ _ Ek Ea).
        - inversion Ea; subst. split; reflexivity. }
      destruct Hsub as [Hs1 Hs2].
      assert (Hcur : kvals k [cur] = []).
      { unfold kvals. cbn [filter]. apply N.eqb_neq in Ek. rewrite Ek. reflexivity. }
      assert (Hdrop : kvals k (bef1 ++ rest1) = v0).
      { rewrite kvals_app, Hs1, Hs2. rewrite <- Hs. replace (cur :: rest) with ([cur] ++ rest) by reflexivity.
        rewrite !kvals_app, Hcur. reflexivity. }
      destruct gone; [apply (IH _ _ _ _ _ Hdrop H)|].
      destruct (d_new cur && negb (dup_inst sch (d_sid cur)) && existsb (same_inst sch cur) (bef1 ++ rest1)); [discriminate|].
      destruct (d_dflt (clr_new cur) && case_leftover sch (bef1 ++ clr_new cur :: rest1) (clr_new cur)).
      + apply (IH _ _ _ _ _ Hdrop H).
      + apply (IH _ _ _ _ _) in H; [exact H|]. rewrite <- app_assoc. cbn [app]. rewrite kvals_clr_new.
        replace (cur :: rest1) with ([cur] ++ rest1) by reflexivity.
        rewrite !kvals_app, Hcur, Hs1, Hs2. rewrite <- Hs.
        replace (cur :: rest) with ([cur] ++ rest) by reflexivity. rewrite !kvals_app, Hcur. reflexivity.
  Qed.

  Lemma vnew_kvals path p f r : vnew sch path p f = Ok r -> kvals k (fst r) = kvals k f.
  Proof.
    intro H. unfold vnew in H. apply bind_ok in H. destruct H as [st [Hc H]].
    apply (choice_r_kvals path p (kvals k f) _ _ (f, []) st eq_refl) in Hc.
    apply (vnew_loop_kvals path (kvals k f) _ [] (fst st) None (snd st) r Hc H).
  Qed.

  Lemma impl_snode_kvals ns path st s : kvals k (fst (impl_snode sch ns path st s)) = kvals k (fst st).
  Proof.
    unfold impl_snode. destruct (ns && negb (si_config (sget sch s))); [reflexivity|].
    destruct (has_sid (fst st) s); [reflexivity|].
    assert (Hadd : forall st' v, has_default sch s = true -> kvals k (fst (add_dflt sch path s st' v)) = kvals k (fst st')).
    { intros st' v Hd. unfold add_dflt. cbn [fst]. apply kvals_insert_other. unfold mk_dflt. cbn [d_sid].
      intro E. subst s. destruct Hp as [Hd' _]. congruence. }
    destruct (kind_of sch s) as [[|]| | | |] eqn:Ek; try reflexivity.
    - apply Hadd. unfold has_default. rewrite Ek. reflexivity.
    - destruct (si_dflts (sget sch s)) eqn:Ed; [reflexivity|]. apply Hadd. unfold has_default. rewrite Ek, Ed. reflexivity.
    - destruct (si_dflts (sget sch s)) as [|v vs] eqn:Ed; [reflexivity|].
      apply (fold_left_inv _ (fun s' => kvals k (fst s') = kvals k (fst st))); [|reflexivity].
      intros st' v' _ Hs'. rewrite Hadd; [exact Hs'|]. unfold has_default. rewrite Ek, Ed. reflexivity.
  Qed.

  Lemma implicit_kvals ns path p v0 : forall fuel pre st r,
    kvals k (fst st) = v0 -> implicit fuel sch ns path p pre st = Ok r -> kvals k (fst r) = v0.
  Proof.
    induction fuel as [|fuel IH]; intros pre st r Hs H; cbn [implicit] in H; [discriminate|].
    apply bind_ok in H. destruct H as [st1 [H1 H]]. inversion H; subst.
    apply (fold_left_inv _ (fun s' => kvals k (fst s') = kvals k (fst st))).
    - intros s' x _ Hs'. rewrite impl_snode_kvals. exact Hs'.
    - apply (fold_res_inv _ (fun s => kvals k (fst s) = kvals k (fst st)) _) with (s := st) (r := st1) in H1; [exact H1| |reflexivity].
      intros s c r' _ Hs' Hc.
      destruct (find (in_choice sch pre c) (fst s)) as [n|].
      + destruct (n_case sch pre c n); [apply (IH _ _ _ Hs' Hc)|inversion Hc; subst; exact Hs'].
      + destruct (dflt_case sch p pre c); [apply (IH _ _ _ Hs' Hc)|inversion Hc; subst; exact Hs'].
  Qed.

  Lemma descend_kvals rec path : forall l acc r, descend rec sch path l acc = Ok r -> kvals k (fst r) = kvals k l.
  Proof.
    induction l as [|n l IH]; intros acc r H; cbn [descend] in H.
    - inversion H; subst. reflexivity.
    - apply bind_ok in H. destruct H as [n' [Hn' H]]. apply bind_ok in H. destruct H as [r' [Hr' H]].
      inversion H; subst. cbn [fst]. apply IH in Hr'.
      assert (E : d_sid (fst n') = d_sid n /\ d_val (fst n') = d_val n).
      { destruct (is_inner sch (d_sid n)).
        - apply bind_ok in Hn'. destruct Hn' as [c [_ Hn']]. inversion Hn'; subst. cbn [fst]. destruct n; split; reflexivity.
        - inversion Hn'; subst. split; reflexivity. }
      destruct E as [E1 E2]. unfold kvals in *. cbn [filter]. rewrite E1. destruct (d_sid n =? k); cbn [map]; rewrite ?E2, Hr'; reflexivity.
  Qed.

  Lemma level_kvals val ns fuel path p f r : level fuel val ns sch path p f = Ok r -> kvals k (fst r) = kvals k f.
  Proof.
    destruct fuel as [|fuel]; intro H; cbn [level] in H; [discriminate|].
    apply bind_ok in H. destruct H as [st1 [H1 H]]. apply bind_ok in H. destruct H as [st2 [H2 H]].
    assert (E1 : kvals k (fst st1) = kvals k f).
    { destruct val; [apply (vnew_kvals _ _ _ _ H1)|inversion H1; subst; reflexivity]. }
    apply (implicit_kvals ns path p (kvals k f) _ _ _ _ E1) in H2.
    apply descend_kvals in H. congruence.
  Qed.
End KeysKept.

(* ------------------------------------------------------------------------------------------- *)
(* the DFS keeps the tree canonical                                                              *)
(* ------------------------------------------------------------------------------------------- *)
Definition Rel (sch : schema) (n n' : dnode) : Prop :=
  d_sid n' = d_sid n /\ d_val n' = d_val n /\
  forall k, In k (si_keys (sget sch (d_sid n))) -> child_val (d_ch n') k = child_val (d_ch n) k.

Lemma Rel_refl sch n : Rel sch n n.
Proof. repeat split. Qed.

Lemma node_key_rel sch n n' : Rel sch n n' -> node_key sch n' = node_key sch n.
Proof.
  intros [E1 [E2 E3]]. unfold node_key. rewrite E1, E2.
  destruct (si_kind (sget sch (d_sid n))); try reflexivity.
  apply map_ext_in. intros k Hk. rewrite (E3 k Hk). reflexivity.
Qed.

Lemma sib_ok_rel sch a a' b b' : Rel sch a a' -> Rel sch b b' -> sib_ok sch a b -> sib_ok sch a' b'.
Proof.
  intros Ha Hb. unfold sib_ok, node_cmp. rewrite (node_key_rel sch a a' Ha), (node_key_rel sch b b' Hb).
  destruct Ha as [Ea _], Hb as [Eb _]. rewrite Ea, Eb. exact (fun H => H).
Qed.

Lemma Adj_rel sch l l' : Forall2 (Rel sch) l l' -> Adj (sib_ok sch) l -> Adj (sib_ok sch) l'.
Proof.
  intro HF. induction HF as [|a a' l l' Ha HF IH]; intro HA; [constructor|].
  destruct HF as [|b b' l l' Hb HF]; [constructor|].
  constructor; [apply (sib_ok_rel sch a a' b b' Ha Hb), (Adj_head _ _ _ _ HA)|apply IH, (Adj_tail _ _ _ HA)].
Qed.

Lemma kvals_nonempty k l : kvals k l <> [] <-> exists c, In c l /\ d_sid c = k.
Proof.
  unfold kvals. split.
  - intro H. destruct (filter (fun n => d_sid n =? k) l) as [|c r] eqn:E; [contradiction|].
    assert (Hin : In c (filter (fun n => d_sid n =? k) l)) by (rewrite E; left; reflexivity).
    apply filter_In in Hin. destruct Hin as [Hin Hs]. apply N.eqb_eq in Hs. exists c. split; assumption.
  - intros [c [Hin Hs]] E.
    assert (Hf : In c (filter (fun n => d_sid n =? k) l)) by (apply filter_In; split; [exact Hin|apply N.eqb_eq; exact Hs]).
    destruct (filter (fun n => d_sid n =? k) l); [destruct Hf|discriminate].
Qed.

Section LevelCanon.
  Variable sch : schema.
  Hypothesis Hu : sids_uniqb sch = true.
  Hypothesis Hk : schema_okb sch = true.
  Hypothesis Hkeys : keys_plainb sch = true.

  Lemma keys_plain s i k : lookup sch s = Some i -> In k (si_keys i) -> plain sch k.
  Proof.
    intros Hl Hin. unfold keys_plainb in Hkeys. rewrite forallb_forall in Hkeys.
    specialize (Hkeys (s, i) (lookup_In sch s i Hl)). cbn [snd] in Hkeys. rewrite forallb_forall in Hkeys.
    specialize (Hkeys k Hin). apply andb_true_iff in Hkeys. destruct Hkeys as [H1 H2].
    split; [apply negb_true_iff; exact H1|apply is_nil_true; exact H2].
  Qed.

  (* replacing the children of a canonical node by a canonical list with the same key leaves *)
  Lemma set_ch_canon p n ch' :
    CanonN sch p n -> CanonAt sch (Some (d_sid n)) ch' ->
    (forall k, plain sch k -> kvals k ch' = kvals k (d_ch n)) ->
    is_inner sch (d_sid n) = true ->
    CanonN sch p (set_ch n ch') /\ Rel sch n (set_ch n ch').
  Proof.
    destruct n as [s v d m ch]. cbn [d_sid d_ch set_ch]. rewrite !CanonN_unfold.
    intros [[i [Hl [Hp [Hkp Ht]]]] _] [HA HF] Hkv Hin.
    split.
    - split; [|split; assumption].
      exists i. split; [exact Hl|]. split; [exact Hp|]. split.
      + intros k Hkin. apply kvals_nonempty. rewrite (Hkv k (keys_plain s i k Hl Hkin)). apply kvals_nonempty. apply Hkp, Hkin.
      + intro Hterm. exfalso. unfold is_inner, kind_of, sget in Hin. rewrite Hl in Hin. destruct (si_kind i); discriminate.
    - split; [reflexivity|]. split; [reflexivity|]. cbn [d_sid d_ch]. intros k Hkin.
      unfold sget in Hkin. rewrite Hl in Hkin. rewrite !child_val_kvals, (Hkv k (keys_plain s i k Hl Hkin)). reflexivity.
  Qed.

  Lemma descend_canon (rec : list pstep -> option sid -> forest -> res (forest * list change)) path p :
    (forall pa s f c, CanonAt sch (Some s) f -> rec pa (Some s) f = Ok c ->
       CanonAt sch (Some s) (fst c) /\ forall k, plain sch k -> kvals k (fst c) = kvals k f) ->
    forall l acc r, Forall (CanonN sch p) l -> descend rec sch path l acc = Ok r ->
      Forall (CanonN sch p) (fst r) /\ Forall2 (Rel sch) l (fst r).
  Proof.
    intros Hrec. induction l as [|n l IH]; intros acc r HF H; cbn [descend] in H.
    - inversion H; subst. split; constructor.
    - apply bind_ok in H. destruct H as [n' [Hn' H]]. apply bind_ok in H. destruct H as [r' [Hr' H]].
      inversion H; subst. cbn [fst]. inversion HF as [|? ? Hn HF']; subst.
      destruct (IH _ _ HF' Hr') as [H1 H2].
      assert (Hx : CanonN sch p (fst n') /\ Rel sch n (fst n')).
      { destruct (is_inner sch (d_sid n)) eqn:Ei.
        - apply bind_ok in Hn'. destruct Hn' as [c [Hc Hn']]. inversion Hn'; subst. cbn [fst].
          destruct (Hrec _ _ _ _ (CanonAt_children sch p n Hn) Hc) as [Hc1 Hc2].
          apply set_ch_canon; assumption.
        - inversion Hn'; subst. split; [exact Hn|apply Rel_refl]. }
      destruct Hx as [Hx1 Hx2]. split; constructor; assumption.
  Qed.

  Lemma level_canon val ns : forall fuel path p f r,
    CanonAt sch p f -> level fuel val ns sch path p f = Ok r -> CanonAt sch p (fst r).
  Proof.
    induction fuel as [|fuel IH]; intros path p f r Hc H; cbn [level] in H; [discriminate|].
    apply bind_ok in H. destruct H as [st1 [H1 H]]. apply bind_ok in H. destruct H as [st2 [H2 H]].
    assert (Hc1 : CanonAt sch p (fst st1)).
    { destruct val; [apply (Sub_CanonAt sch p _ f (vnew_Sub sch _ _ _ _ H1) Hc)|inversion H1; subst; exact Hc]. }
    apply (implicit_canon sch Hu Hk ns path p _ _ _ _ Hc1) in H2.
    destruct H2 as [HA HF].
    destruct (descend_canon (level fuel val ns sch) path p
                (fun pa s f' c Hf' Hcc => conj (IH pa (Some s) f' c Hf' Hcc)
                                               (fun k Hpl => level_kvals sch k Hpl val ns fuel pa (Some s) f' c Hcc))
                _ _ _ HF H) as [H3 H4].
    split; [apply (Adj_rel sch _ _ H4 HA)|exact H3].
  Qed.
End LevelCanon.

(* ------------------------------------------------------------------------------------------- *)
(* lyd_validate_final_r only sets default flags                                                  *)
(* ------------------------------------------------------------------------------------------- *)
Lemma map_res_Forall2 {A} (f : A -> res A) (Q : A -> A -> Prop) (l r : list A) :
  (forall x y, In x l -> f x = Ok y -> Q x y) -> map_res f l = Ok r -> Forall2 Q l r.
Proof.
  revert r. induction l as [|x l IH]; intros r Hf H; cbn [map_res] in H.
  - inversion H; subst. constructor.
  - apply bind_ok in H. destruct H as [x' [Hx H]]. apply bind_ok in H. destruct H as [r' [Hr H]]. inversion H; subst.
    constructor; [apply (Hf x x' (or_introl eq_refl) Hx)|apply (IH r' (fun a b Ha Hb => Hf a b (or_intror Ha) Hb) Hr)].
Qed.

Lemma Forall2_Rel_kvals sch k l l' : Forall2 (Rel sch) l l' -> kvals k l' = kvals k l.
Proof.
  induction 1 as [|a a' l l' [E1 [E2 _]] HF IH]; [reflexivity|].
  unfold kvals in *. cbn [filter]. rewrite E1. destruct (d_sid a =? k); cbn [map]; rewrite ?E2, IH; reflexivity.
Qed.

Lemma Forall2_and_l {A B} (P Q : A -> B -> Prop) l l' : Forall2 (fun x y => P x y /\ Q x y) l l' -> Forall2 P l l' /\ Forall2 Q l l'.
Proof. induction 1 as [|a b l l' [H1 H2] HF [IH1 IH2]]; split; constructor; assumption. Qed.

Lemma Forall2_Forall_r {A B} (P : B -> Prop) (Q : A -> B -> Prop) l l' : Forall2 (fun x y => P y /\ Q x y) l l' -> Forall P l'.
Proof. induction 1 as [|a b l l' [H1 H2] HF IH]; constructor; assumption. Qed.

Lemma final_node_canon sch n : forall p n', CanonN sch p n -> final_node sch n = Ok n' -> CanonN sch p n' /\ Rel sch n n'.
Proof.
  induction n as [s v d m ch IH] using dnode_ind'. intros p n' Hc H.
  rewrite final_node_unfold in H. apply bind_ok in H. destruct H as [u [_ H]].
  apply bind_ok in H. destruct H as [ch' [Hch H]]. inversion H; subst. clear H.
  pose proof Hc as Hc0. rewrite CanonN_unfold in Hc. destruct Hc as [[i [Hl [Hp [Hkp Ht]]]] [HA HF]].
  assert (H2 : Forall2 (fun x y => CanonN sch (Some s) y /\ Rel sch x y) ch ch').
  { apply (map_res_Forall2 (final_node sch) _ ch ch'); [|exact Hch].
    intros x y Hx Hy. rewrite Forall_forall in IH, HF. apply (IH x Hx (Some s) y (HF x Hx) Hy). }
  pose proof (Forall2_Forall_r _ _ _ _ H2) as HF'.
  destruct (Forall2_and_l _ _ _ _ H2) as [_ HR].
  assert (Hbase : CanonN sch p (DN s v d m ch') /\ Rel sch (DN s v d m ch) (DN s v d m ch')).
  { split.
    - rewrite CanonN_unfold. split; [|split; [apply (Adj_rel sch _ _ HR HA)|exact HF']].
      exists i. split; [exact Hl|]. split; [exact Hp|]. split.
      + intros k Hkin. apply kvals_nonempty. rewrite (Forall2_Rel_kvals sch k _ _ HR). apply kvals_nonempty. apply Hkp, Hkin.
      + intro Hterm. specialize (Ht Hterm). subst ch. inversion HR. reflexivity.
    - split; [reflexivity|]. split; [reflexivity|]. cbn [d_ch]. intros k _.
      rewrite !child_val_kvals, (Forall2_Rel_kvals sch k _ _ HR). reflexivity. }
  destruct Hbase as [Hb1 Hb2].
  assert (E : d_sid (np_set sch (DN s v d m ch')) = s /\ d_val (np_set sch (DN s v d m ch')) = v /\
              d_ch (np_set sch (DN s v d m ch')) = ch').
  { unfold np_set. destruct (is_np_cont sch (d_sid (DN s v d m ch')) && negb (d_dflt (DN s v d m ch')) &&
                              forallb d_dflt (d_ch (DN s v d m ch'))); repeat split. }
  destruct E as [E1 [E2 E3]]. split.
  - apply (CanonN_ext sch p (DN s v d m ch')); [exact E1|exact E3|exact Hb1].
  - destruct Hb2 as [_ [_ Hb3]]. split; [exact E1|]. split; [exact E2|]. rewrite E3. exact Hb3.
Qed.

Theorem validate_canon sch f g d :
  sids_uniqb sch = true -> schema_okb sch = true -> keys_plainb sch = true ->
  Canon sch f -> validate_all sch f = Ok (g, d) -> Canon sch g.
Proof.
  intros Hu Hk Hkeys Hc H. unfold validate_all in H. destruct f as [|n0 f0]; [inversion H; subst; apply CanonAt_nil|].
  apply bind_ok in H. destruct H as [st [Hs H]]. apply bind_ok in H. destruct H as [gg [Hfin H]]. inversion H; subst.
  apply (level_canon sch Hu Hk Hkeys true false _ _ _ _ _ Hc) in Hs. destruct Hs as [HA HF].
  unfold final_forest in Hfin. apply bind_ok in Hfin. destruct Hfin as [u [_ Hfin]].
  assert (H2 : Forall2 (fun x y => CanonN sch None y /\ Rel sch x y) (fst st) g).
  { apply (map_res_Forall2 (final_node sch) _ (fst st) g); [|exact Hfin].
    intros x y Hx Hy. rewrite Forall_forall in HF. apply (final_node_canon sch x None y (HF x Hx) Hy). }
  split; [apply (Adj_rel sch _ _ (proj2 (Forall2_and_l _ _ _ _ H2)) HA)|apply (Forall2_Forall_r _ _ _ _ H2)].
Qed.

Theorem implicit_all_canon sch ns f g d :
  sids_uniqb sch = true -> schema_okb sch = true -> keys_plainb sch = true ->
  Canon sch f -> implicit_all sch ns f = Ok (g, d) -> Canon sch g.
Proof. intros Hu Hk Hkeys Hc H. apply (level_canon sch Hu Hk Hkeys false ns _ _ _ _ _ Hc H). Qed.

(* ------------------------------------------------------------------------------------------- *)
(* inserting a default node                                                                      *)
(* ------------------------------------------------------------------------------------------- *)
Lemma filter_insert_other sch (q : dnode -> bool) f n : q n = false -> filter q (insert_node sch f n) = filter q f.
Proof.
  intro Hq. induction f as [|b r IH]; cbn [insert_node filter]; [rewrite Hq; reflexivity|].
  destruct (goes_before sch n b); cbn [filter]; [rewrite Hq; reflexivity|]. rewrite IH. reflexivity.
Qed.

Lemma filter_insert_perm sch (q : dnode -> bool) f n : q n = true -> Permutation (n :: filter q f) (filter q (insert_node sch f n)).
Proof.
  intro Hq. induction f as [|b r IH]; cbn [insert_node filter]; [rewrite Hq; reflexivity|].
  destruct (goes_before sch n b); cbn [filter]; [rewrite Hq; reflexivity|].
  destruct (q b); [|exact IH]. rewrite perm_swap. constructor. exact IH.
Qed.

Lemma existsb_insert sch (q : dnode -> bool) f n : existsb q (insert_node sch f n) = q n || existsb q f.
Proof.
  destruct (existsb q (insert_node sch f n)) eqn:E.
  - apply existsb_exists in E. destruct E as [x [Hx Hq]]. apply insert_node_In in Hx. symmetry.
    destruct Hx as [->|Hx]; [rewrite Hq; reflexivity|]. apply orb_true_iff. right. apply existsb_exists. exists x. split; assumption.
  - rewrite existsb_false_forall in E. symmetry. apply orb_false_iff. split.
    + apply E. apply insert_node_In. left. reflexivity.
    + apply existsb_false_forall. intros x Hx. apply E. apply insert_node_In. right. exact Hx.
Qed.

(* the activity of a chain only looks at the explicit nodes *)
Lemma active_from_insert sch g n : d_dflt n = true -> forall l pre,
  active_from sch (insert_node sch g n) pre l = active_from sch g pre l.
Proof.
  intro Hd. induction l as [|x l IH]; intro pre; cbn [active_from]; [reflexivity|].
  rewrite !existsb_insert, IH. unfold expl. rewrite Hd. reflexivity.
Qed.

Lemma active_insert sch g n s : d_dflt n = true -> active sch (insert_node sch g n) s = active sch g s.
Proof. intro Hd. unfold active. apply active_from_insert. exact Hd. Qed.

Lemma has_sid_insert sch g n s : has_sid (insert_node sch g n) s = (d_sid n =? s) || has_sid g s.
Proof. unfold has_sid. apply existsb_insert. Qed.

(* chains that agree up to a choice *)
Lemma chain_conflict_split la : forall lb x y ra rb, map cc_of la = map cc_of lb ->
  chain_conflict (la ++ x :: ra) (lb ++ y :: rb) =
  if ch_id x =? ch_id y then (if ch_case x =? ch_case y then chain_conflict ra rb else true) else false.
Proof.
  induction la as [|a la IH]; intros [|b lb] x y ra rb E; cbn [map] in E; try discriminate; cbn [app chain_conflict]; [reflexivity|].
  assert (E1 : cc_of a = cc_of b) by congruence. assert (E2 : map cc_of la = map cc_of lb) by congruence.
  unfold cc_of in E1. assert (E1a : ch_id a = ch_id b) by congruence. assert (E1b : ch_case a = ch_case b) by congruence.
  rewrite E1a, E1b, !N.eqb_refl. apply IH. exact E2.
Qed.

Lemma clr_new_not_new n : d_new (clr_new n) = false.
Proof.
  destruct n as [s v d m ch]. unfold d_new. cbn [clr_new d_meta]. apply existsb_false_forall.
  intros kv Hkv. apply filter_In in Hkv. apply negb_true_iff. apply Hkv.
Qed.

(* ------------------------------------------------------------------------------------------- *)
(* the required default instances                                                                *)
(* ------------------------------------------------------------------------------------------- *)
Lemma norm_snode_alt sch g s :
  norm_snode sch g s =
  if has_default sch s && (is_nil (filter (is_expl_of s) g) && active sch g s)
  then complete sch s (filter (is_dflt_of s) g) else is_nil (filter (is_dflt_of s) g).
Proof.
  unfold norm_snode, complete, has_default.
  destruct (kind_of sch s) as [[|]| | | |]; cbn [andb]; try reflexivity;
    destruct (si_dflts (sget sch s)); cbn [andb]; try reflexivity;
    destruct (is_nil (filter (is_expl_of s) g) && active sch g s); reflexivity.
Qed.

Lemma count_val_perm v a b : Permutation a b -> count_val v a = count_val v b.
Proof.
  unfold count_val. induction 1 as [|x a b H IH|x y a|a b c H1 IH1 H2 IH2]; cbn [filter]; try reflexivity.
  - destruct (beq_bytes v x); cbn [length]; rewrite IH; reflexivity.
  - destruct (beq_bytes v y), (beq_bytes v x); reflexivity.
  - congruence.
Qed.

Lemma same_vals_perm a b : Permutation a b -> same_vals a b = true.
Proof.
  intro H. unfold same_vals. apply forallb_forall. intros v _. apply Nat.eqb_eq. apply count_val_perm. exact H.
Qed.

Lemma same_vals_refl a : same_vals a a = true.
Proof. apply same_vals_perm. reflexivity. Qed.

(* ------------------------------------------------------------------------------------------- *)
(* lyd_new_implicit on a sibling list: invariant                                                 *)
(* ------------------------------------------------------------------------------------------- *)
Section Impl.
  Variable sch : schema.
  Variable path : list pstep.
  Variable p : option sid.
  Variable E : forest.                       (* the explicit siblings *)
  Variable g0 : forest.                      (* the siblings lyd_new_implicit starts from *)
  Hypothesis Hk : chc_okb sch = true.
  Hypothesis HEcases : cases_okb sch E = true.

  Record Inv (g : forest) : Prop := {
    i_expl : filter expl g = E;
    i_dflt : forall n, In n g -> d_dflt n = true ->
             In (d_sid n) (schildren sch p) /\ active sch g (d_sid n) = true /\ d_new n = false /\
             (In n g0 \/ d_ch n = []);
    i_comp : forall s, filter (is_dflt_of s) g = [] \/
                       (has_sid E s = false /\ has_default sch s = true /\ complete sch s (filter (is_dflt_of s) g) = true)
  }.

  Lemma mk_dflt_facts s v : d_dflt (mk_dflt s v) = true /\ d_sid (mk_dflt s v) = s /\ d_new (mk_dflt s v) = false /\
                            expl (mk_dflt s v) = false /\ d_ch (mk_dflt s v) = [] /\ d_val (mk_dflt s v) = v.
  Proof. repeat split. Qed.

  (* several default instances of s added one after the other *)
  Lemma fold_add_dflt s : forall vs st,
    let r := fold_left (add_dflt sch path s) vs st in
    (forall q : dnode -> bool, (forall v, q (mk_dflt s v) = false) -> filter q (fst r) = filter q (fst st)) /\
    Permutation (map (mk_dflt s) (rev vs) ++ filter (is_dflt_of s) (fst st)) (filter (is_dflt_of s) (fst r)) /\
    (forall l pre, active_from sch (fst r) pre l = active_from sch (fst st) pre l) /\
    (forall x, In x (fst r) <-> In x (fst st) \/ exists v, In v vs /\ x = mk_dflt s v).
  Proof.
    induction vs as [|v vs IH]; intro st; cbn [fold_left rev map app].
    - repeat split; try reflexivity; [intro H; left; exact H|intros [H|[v [[] _]]]; exact H].
    - destruct (IH (add_dflt sch path s st v)) as [H1 [H2 [H3 H4]]]. cbv zeta in *.
      assert (Ea : fst (add_dflt sch path s st v) = insert_node sch (fst st) (mk_dflt s v)) by reflexivity.
      rewrite Ea in H1, H2, H3, H4.
      repeat split.
      + intros q Hq. rewrite (H1 q Hq). apply filter_insert_other. apply Hq.
      + rewrite map_app. cbn [map]. rewrite <- app_assoc. cbn [app].
        eapply Permutation_trans; [|exact H2].
        apply Permutation_app_head.
        apply (filter_insert_perm sch (is_dflt_of s) (fst st) (mk_dflt s v)).
        unfold is_dflt_of. cbn [mk_dflt d_sid d_dflt]. rewrite N.eqb_refl. reflexivity.
      + intros l pre. rewrite H3. apply active_from_insert. reflexivity.
      + intro Hx. apply H4 in Hx. destruct Hx as [Hx|[v' [Hv' Hx]]].
        * apply insert_node_In in Hx. destruct Hx as [->|Hx]; [right; exists v; split; [left; reflexivity|reflexivity]|left; exact Hx].
        * right. exists v'. split; [right; exact Hv'|exact Hx].
      + intros [Hx|[v' [[<-|Hv'] Hx]]]; apply H4.
        * left. apply insert_node_In. right. exact Hx.
        * left. apply insert_node_In. left. exact Hx.
        * right. exists v'. split; assumption.
  Qed.

  Lemma has_sid_filter_expl g s : has_sid g s = false -> has_sid (filter expl g) s = false.
  Proof.
    unfold has_sid. rewrite !existsb_false_forall. intros H x Hx. apply filter_In in Hx. apply H, Hx.
  Qed.

  Lemma add_many_inv g acc s vs :
    Inv g -> In s (schildren sch p) -> active sch g s = true -> has_sid g s = false ->
    has_default sch s = true ->
    (forall D, Permutation (map (mk_dflt s) (rev vs)) D -> complete sch s D = true) ->
    Inv (fst (fold_left (add_dflt sch path s) vs (g, acc))).
  Proof.
    intros [I1 I2 I3] Hs Ha Hh Hd Hc.
    destruct (fold_add_dflt s vs (g, acc)) as [H1 [H2 [H3 H4]]]. cbv zeta in *. cbn [fst] in H1, H2, H3, H4.
    set (r := fold_left (add_dflt sch path s) vs (g, acc)) in *.
    assert (Hact : forall s', active sch (fst r) s' = active sch g s') by (intro s'; unfold active; apply H3).
    constructor.
    - rewrite (H1 expl (fun v => eq_refl)). exact I1.
    - intros n Hn Hdn. apply H4 in Hn. destruct Hn as [Hn|[v [_ ->]]].
      + destruct (I2 n Hn Hdn) as [A [B [C D]]]. repeat split; [exact A|rewrite Hact; exact B|exact C|exact D].
      + split; [exact Hs|]. split; [rewrite Hact; exact Ha|]. split; [reflexivity|right; reflexivity].
    - intro s'. destruct (N.eq_dec s' s) as [->|Hne].
      + right. split; [rewrite <- I1; apply has_sid_filter_expl; exact Hh|]. split; [exact Hd|].
        assert (E0 : filter (is_dflt_of s) g = []) by (apply (has_sid_false_filter g s d_dflt Hh)).
        apply Hc. rewrite E0, app_nil_r in H2. exact H2.
      + assert (Eq : filter (is_dflt_of s') (fst r) = filter (is_dflt_of s') g).
        { apply H1. intro v. unfold is_dflt_of. cbn [mk_dflt d_sid d_dflt].
          assert (s =? s' = false) by (apply N.eqb_neq; congruence). rewrite H. reflexivity. }
        rewrite Eq. apply I3.
  Qed.

  Lemma perm_singleton {A} (x : A) D : Permutation [x] D -> D = [x].
  Proof. intro H. apply Permutation_length_1_inv in H. exact H. Qed.

  Lemma impl_snode_inv g acc s :
    Inv g -> In s (schildren sch p) -> active sch g s = true -> Inv (fst (impl_snode sch false path (g, acc) s)).
  Proof.
    intros HI Hs Ha. unfold impl_snode. cbn [andb fst]. destruct (has_sid g s) eqn:Eh; [exact HI|].
    destruct (kind_of sch s) as [[|]| | | |] eqn:Ek; try exact HI.
    - (* non-presence container *)
      apply (add_many_inv g acc s [[]] HI Hs Ha Eh); [unfold has_default; rewrite Ek; reflexivity|].
      intros D HD. cbn [rev app map] in HD. apply perm_singleton in HD. subst D. unfold complete. rewrite Ek. reflexivity.
    - destruct (si_dflts (sget sch s)) as [|v vs] eqn:Ed; [exact HI|].
      apply (add_many_inv g acc s [v] HI Hs Ha Eh); [unfold has_default; rewrite Ek, Ed; reflexivity|].
      intros D HD. cbn [rev app map] in HD. apply perm_singleton in HD. subst D. unfold complete. rewrite Ek, Ed.
      cbn [mk_dflt d_val d_ch is_nil]. rewrite (proj2 (beq_bytes_eq v v) eq_refl). reflexivity.
    - destruct (si_dflts (sget sch s)) as [|v vs] eqn:Ed; [exact HI|].
      apply (add_many_inv g acc s (v :: vs) HI Hs Ha Eh); [unfold has_default; rewrite Ek, Ed; reflexivity|].
      intros D HD. unfold complete. rewrite Ek, Ed. apply andb_true_iff. split.
      + apply same_vals_perm. apply Permutation_sym.
        eapply Permutation_trans; [apply Permutation_rev|].
        assert (Em : map d_val (map (mk_dflt s) (rev (v :: vs))) = rev (v :: vs)).
        { rewrite map_map. cbn [mk_dflt d_val]. apply map_id. }
        rewrite <- Em. apply Permutation_map. exact HD.
      + apply forallb_forall. intros x Hx. apply (Permutation_in _ (Permutation_sym HD)) in Hx.
        apply in_map_iff in Hx. destruct Hx as [w [<- _]]. reflexivity.
  Qed.

  Lemma existsb_expl q g : existsb (fun n => expl n && q n) g = existsb q (filter expl g).
  Proof.
    induction g as [|n g IH]; cbn [existsb filter]; [reflexivity|].
    destruct (expl n); cbn [andb orb existsb]; rewrite IH; reflexivity.
  Qed.

  Lemma active_from_Inv g : Inv g -> forall l pre, active_from sch g pre l = active_from sch E pre l.
  Proof.
    intros [I1 _ _]. induction l as [|x l IH]; intro pre; cbn [active_from]; [reflexivity|].
    rewrite IH. rewrite !(existsb_expl _ g), !(existsb_expl _ E), I1.
    assert (EE : filter expl E = E).
    { rewrite <- I1. clear. induction g as [|n g IH]; cbn [filter]; [reflexivity|].
      destruct (expl n) eqn:En; cbn [filter]; [rewrite En, IH; reflexivity|exact IH]. }
    rewrite EE. reflexivity.
  Qed.

  Lemma impl_snode_incl g acc s x : In x g -> In x (fst (impl_snode sch false path (g, acc) s)).
  Proof.
    intro Hx. unfold impl_snode. cbn [andb fst]. destruct (has_sid g s); [exact Hx|].
    assert (Hone : forall st v, In x (fst st) -> In x (fst (add_dflt sch path s st v))).
    { intros st v H. unfold add_dflt. cbn [fst]. apply insert_node_In. right. exact H. }
    destruct (kind_of sch s) as [[|]| | | |]; try exact Hx.
    - apply Hone. exact Hx.
    - destruct (si_dflts (sget sch s)); [exact Hx|apply Hone; exact Hx].
    - apply (fold_left_inv _ (fun st => In x (fst st))); [intros st v _ H; apply Hone; exact H|exact Hx].
  Qed.

  (* the decision taken for a choice agrees with the activity of the case *)
  Definition level_cond (g : forest) (pre : list cc) (x : chc) : bool :=
    existsb (fun n => expl n && in_case sch pre (ch_id x) (ch_case x) n) g ||
    (ch_dflt x && negb (existsb (fun n => expl n && in_choice sch pre (ch_id x) n) g)).

  Lemma active_from_snoc g l0 x : active_from sch g [] (l0 ++ [x]) = active_from sch g [] l0 && level_cond g (map cc_of l0) x.
  Proof. rewrite active_from_app. cbn [active_from app]. rewrite andb_true_r. reflexivity. Qed.

  (* the chain element the code follows at choice c of level l0 is in use *)
  Lemma decision_active g l0 c : Inv g -> incl l0 (all_chcs sch) ->
    forall k, match find (in_choice sch (map cc_of l0) c) g with
              | Some n => n_case sch (map cc_of l0) c n
              | None => dflt_case sch p (map cc_of l0) c
              end = Some k ->
    exists x, In x (all_chcs sch) /\ ch_id x = c /\ ch_case x = k /\ level_cond g (map cc_of l0) x = true.
  Proof.
    intros HI Hi k Hd.
    destruct (find (in_choice sch (map cc_of l0) c) g) as [n|] eqn:Ef.
    - pose proof (find_some _ _ Ef) as [Hnin _].
      unfold n_case, s_case in Hd.
      destruct (next_chc (map cc_of l0) (chainf sch (d_sid n))) as [x|] eqn:En; [|discriminate].
      destruct (ch_id x =? c) eqn:Exc; [|discriminate]. apply N.eqb_eq in Exc. injection Hd as Hd.
      destruct (next_chc_some _ _ _ En) as [la [lb [Hl Hp]]].
      exists x. split; [apply (chainf_incl sch (d_sid n)); rewrite Hl; apply in_or_app; right; left; reflexivity|].
      split; [exact Exc|]. split; [exact Hd|].
      destruct (d_dflt n) eqn:Ed.
      + destruct (i_dflt g HI n Hnin Ed) as [_ [Hact _]].
        unfold active in Hact. rewrite Hl, active_from_app in Hact. apply andb_true_iff in Hact. destruct Hact as [_ Hact].
        cbn [active_from app] in Hact. rewrite Hp in Hact. apply andb_true_iff in Hact. apply Hact.
      + unfold level_cond. apply orb_true_iff. left. apply existsb_exists. exists n. split; [exact Hnin|].
        unfold expl. rewrite Ed. cbn [negb andb]. unfold in_case, n_case, s_case. rewrite En, N.eqb_refl. apply N.eqb_refl.
    - unfold dflt_case in Hd.
      destruct (choice_elem sch p (map cc_of l0) c ch_dflt) as [x|] eqn:Ece; cbn [option_map] in Hd; [|discriminate].
      injection Hd as Hd. destruct (choice_elem_some _ _ _ _ _ _ Ece) as [Hxin [Hxc [Hxd _]]].
      exists x. split; [exact Hxin|]. split; [exact Hxc|]. split; [exact Hd|].
      unfold level_cond. apply orb_true_iff. right. rewrite Hxd. cbn [andb]. apply negb_true_iff. apply existsb_false_forall.
      intros m Hm. rewrite Hxc. rewrite (find_none _ _ Ef m Hm). apply andb_false_r.
  Qed.

  Lemma implicit_inv : forall fuel l0 st r,
    incl l0 (all_chcs sch) -> Inv (fst st) -> active_from sch E [] l0 = true ->
    implicit fuel sch false path p (map cc_of l0) st = Ok r -> Inv (fst r) /\ incl (fst st) (fst r).
  Proof.
    induction fuel as [|fuel IH]; intros l0 st r Hi HI Ha H; cbn [implicit] in H; [discriminate|].
    apply bind_ok in H. destruct H as [st1 [H1 H]].
    assert (P1 : Inv (fst st1) /\ incl (fst st) (fst st1)).
    { apply (fold_res_inv _ (fun s => Inv (fst s) /\ incl (fst st) (fst s)) _) with (s := st) (r := st1) in H1;
        [exact H1| |split; [exact HI|apply incl_refl]].
      intros s c r' _ [HIs Hinc] Hc.
      assert (Hgen : forall k, match find (in_choice sch (map cc_of l0) c) (fst s) with
                               | Some n => n_case sch (map cc_of l0) c n
                               | None => dflt_case sch p (map cc_of l0) c end = Some k ->
                     implicit fuel sch false path p (map cc_of l0 ++ [(c, k)]) s = Ok r' ->
                     Inv (fst r') /\ incl (fst st) (fst r')).
      { intros k Hd Hr. destruct (decision_active (fst s) l0 c HIs Hi k Hd) as [x [Hxin [Hxc [Hxk Hlc]]]].
        assert (Em : map cc_of l0 ++ [(c, k)] = map cc_of (l0 ++ [x])).
        { assert (Ex : cc_of x = (c, k)) by (unfold cc_of; rewrite Hxc, Hxk; reflexivity).
          rewrite map_app. cbn [map]. rewrite Ex. reflexivity. }
        rewrite Em in Hr. apply IH in Hr.
        - destruct Hr as [Hr1 Hr2]. split; [exact Hr1|]. intros y Hy. apply Hr2, Hinc, Hy.
        - intros z Hz. apply in_app_or in Hz. destruct Hz as [Hz|[<-|[]]]; [apply Hi; exact Hz|exact Hxin].
        - exact HIs.
        - rewrite <- (active_from_Inv (fst s) HIs), active_from_snoc, (active_from_Inv (fst s) HIs), Ha, Hlc. reflexivity. }
      destruct (find (in_choice sch (map cc_of l0) c) (fst s)) as [n|].
      - destruct (n_case sch (map cc_of l0) c n) as [k|]; [apply (Hgen k eq_refl Hc)|inversion Hc; subst; split; assumption].
      - destruct (dflt_case sch p (map cc_of l0) c) as [k|]; [apply (Hgen k eq_refl Hc)|inversion Hc; subst; split; assumption]. }
    destruct P1 as [HI1 Hinc1]. inversion H; subst.
    apply (fold_left_inv _ (fun s' => Inv (fst s') /\ incl (fst st) (fst s'))); [|split; assumption].
    intros [g acc] s Hs [HIg Hincg]. cbn [fst] in *. split.
    - unfold snodes_at in Hs. apply filter_In in Hs. destruct Hs as [Hsc Hci].
      apply impl_snode_inv; [exact HIg|exact Hsc|].
      apply chain_is_eq in Hci.
      assert (Ec : chainf sch s = l0) by (apply (chain_eq sch Hk); [apply chainf_incl|exact Hi|exact Hci]).
      unfold active. rewrite Ec, (active_from_Inv g HIg). exact Ha.
    - intros y Hy. apply impl_snode_incl. apply Hincg, Hy.
  Qed.

  (* ---- completeness: every default in use gets created ---- *)
  Lemma In_fold_add_new l : forall acc x, In x (fold_left add_new l acc) <-> In x acc \/ In x l.
  Proof.
    induction l as [|y l IH]; intros acc x; cbn [fold_left]; [split; [intro H; left; exact H|intros [H|[]]; exact H]|].
    rewrite IH. unfold add_new. destruct (existsb (N.eqb y) acc) eqn:Ey.
    - split; [intros [H|H]; [left; exact H|right; right; exact H]|intros [H|[<-|H]]; [left; exact H| |right; exact H]].
      left. apply existsb_exists in Ey. destruct Ey as [z [Hz Ez]]. apply N.eqb_eq in Ez. subst z. exact Hz.
    - split.
      + intros [H|H]; [apply in_app_or in H; destruct H as [H|[<-|[]]]; [left; exact H|right; left; reflexivity]|right; right; exact H].
      + intros [H|[<-|H]]; [left; apply in_or_app; left; exact H|left; apply in_or_app; right; left; reflexivity|right; exact H].
  Qed.

  Lemma In_nodupN l x : In x (nodupN l) <-> In x l.
  Proof. unfold nodupN. rewrite In_fold_add_new. split; [intros [[]|H]; exact H|intro H; right; exact H]. Qed.

  Lemma in_choices_at s l0 x l1 :
    In s (schildren sch p) -> chainf sch s = l0 ++ x :: l1 -> In (ch_id x) (choices_at sch p (map cc_of l0)).
  Proof.
    intros Hs Hc. unfold choices_at. apply In_nodupN. apply filter_map_In. exists s. split; [exact Hs|].
    rewrite Hc, next_chc_app. reflexivity.
  Qed.

  Lemma fold_left_elem {A S} (f : S -> A -> S) (P : S -> Prop) (l : list A) (a : A) :
    In a l -> (forall st, P (f st a)) -> (forall st x, P st -> P (f st x)) -> forall st0, P (fold_left f l st0).
  Proof.
    induction l as [|y l IH]; intros Hin Ha Hm st0; [destruct Hin|]. cbn [fold_left].
    destruct Hin as [->|Hin]; [apply fold_left_inv; [intros s x _ Hp; apply Hm, Hp|apply Ha]|apply IH; assumption].
  Qed.

  Lemma impl_snode_creates st s : has_default sch s = true -> has_sid (fst (impl_snode sch false path st s)) s = true.
  Proof.
    intro Hd. unfold impl_snode. cbn [andb]. destruct (has_sid (fst st) s) eqn:Eh; [exact Eh|].
    assert (Hone : forall st' v, has_sid (fst (add_dflt sch path s st' v)) s = true).
    { intros st' v. unfold add_dflt. cbn [fst]. rewrite has_sid_insert. cbn [mk_dflt d_sid]. rewrite N.eqb_refl. reflexivity. }
    unfold has_default in Hd.
    destruct (kind_of sch s) as [[|]| | | |]; try discriminate.
    - apply Hone.
    - destruct (si_dflts (sget sch s)); [discriminate|apply Hone].
    - destruct (si_dflts (sget sch s)) as [|v vs]; [discriminate|]. cbn [fold_left].
      apply (fold_left_inv _ (fun st' => has_sid (fst st') s = true)); [|apply Hone].
      intros st' v' _ H. unfold add_dflt. cbn [fst]. rewrite has_sid_insert, H. apply orb_true_r.
  Qed.

  Lemma has_sid_incl g g' s : incl g g' -> has_sid g s = true -> has_sid g' s = true.
  Proof.
    unfold has_sid. intros Hi H. apply existsb_exists in H. destruct H as [x [Hx Hs]].
    apply existsb_exists. exists x. split; [apply Hi, Hx|exact Hs].
  Qed.

  Lemma in_case_in_choice pre c k n : in_case sch pre c k n = true -> in_choice sch pre c n = true.
  Proof. unfold in_case, in_choice. destruct (n_case sch pre c n); [reflexivity|discriminate]. Qed.

  (* two cases of one choice that are both in use are the same case *)
  Lemma level_cond_same_case g l0 x x' : Inv g -> In x (all_chcs sch) -> In x' (all_chcs sch) ->
    ch_id x = ch_id x' -> level_cond g (map cc_of l0) x = true -> level_cond g (map cc_of l0) x' = true ->
    ch_case x = ch_case x'.
  Proof.
    intros HI Hx Hx' Eid H1 H2. unfold level_cond in H1, H2. rewrite <- Eid in H2.
    set (N := existsb (fun n => expl n && in_choice sch (map cc_of l0) (ch_id x) n) g) in *.
    assert (Hex : forall y, existsb (fun n => expl n && in_case sch (map cc_of l0) (ch_id x) (ch_case y) n) g = true -> N = true).
    { intros y H. apply existsb_exists in H. destruct H as [m [Hm Hq]]. apply andb_true_iff in Hq. destruct Hq as [He Hc].
      apply existsb_exists. exists m. split; [exact Hm|]. rewrite He. apply (in_case_in_choice _ _ _ _ Hc). }
    apply orb_true_iff in H1. apply orb_true_iff in H2.
    destruct H1 as [A1|D1], H2 as [A2|D2].
    - (* explicit nodes in both cases: the explicit siblings do not conflict *)
      apply existsb_exists in A1. destruct A1 as [m1 [Hm1 Hq1]]. apply andb_true_iff in Hq1. destruct Hq1 as [He1 Hc1].
      apply existsb_exists in A2. destruct A2 as [m2 [Hm2 Hq2]]. apply andb_true_iff in Hq2. destruct Hq2 as [He2 Hc2].
      destruct (in_case_chain _ _ _ _ _ Hc1) as [la [y1 [ra [Hl1 [Hp1 [Hi1 Hk1]]]]]].
      destruct (in_case_chain _ _ _ _ _ Hc2) as [lb [y2 [rb [Hl2 [Hp2 [Hi2 Hk2]]]]]].
      assert (HE1 : In m1 E) by (rewrite <- (i_expl g HI); apply filter_In; split; assumption).
      assert (HE2 : In m2 E) by (rewrite <- (i_expl g HI); apply filter_In; split; assumption).
      unfold cases_okb in HEcases. rewrite forallb_forall in HEcases. specialize (HEcases m1 HE1).
      rewrite forallb_forall in HEcases. specialize (HEcases m2 HE2). apply negb_true_iff in HEcases.
      rewrite Hl1, Hl2, (chain_conflict_split la lb y1 y2 ra rb) in HEcases by congruence.
      rewrite Hi1, Hi2, N.eqb_refl in HEcases.
      destruct (ch_case y1 =? ch_case y2) eqn:Ec; [|discriminate]. apply N.eqb_eq in Ec. congruence.
    - apply andb_true_iff in D2. destruct D2 as [_ D2]. rewrite (Hex x A1) in D2. discriminate.
    - apply andb_true_iff in D1. destruct D1 as [_ D1]. rewrite (Hex x' A2) in D1. discriminate.
    - apply andb_true_iff in D1. destruct D1 as [D1 _]. apply andb_true_iff in D2. destruct D2 as [D2 _].
      unfold chc_okb in Hk. rewrite forallb_forall in Hk. specialize (Hk x Hx). rewrite forallb_forall in Hk.
      specialize (Hk x' Hx'). rewrite Eid, N.eqb_refl, D1, D2 in Hk. cbn [negb orb andb] in Hk.
      apply andb_true_iff in Hk. destruct Hk as [_ Hk2]. apply N.eqb_eq in Hk2. exact Hk2.
  Qed.

  Lemma fold_res_elem {A S} (f : S -> A -> res S) (I P : S -> Prop) (l : list A) (a : A) :
    In a l ->
    (forall st x st', I st -> f st x = Ok st' -> I st' /\ (P st -> P st')) ->
    (forall st st', I st -> f st a = Ok st' -> P st') ->
    forall st0 r, I st0 -> fold_res f l st0 = Ok r -> P r.
  Proof.
    induction l as [|y l IH]; intros Hin Hstep Ha st0 r HI H; [destruct Hin|]. cbn [fold_res] in H.
    apply bind_ok in H. destruct H as [st1 [H1 H]].
    destruct (Hstep st0 y st1 HI H1) as [HI1 _].
    destruct Hin as [->|Hin].
    - pose proof (Ha st0 st1 HI H1) as HP.
      apply (fold_res_inv _ (fun s => I s /\ P s) l) with (s := st1) (r := r) in H; [apply H| |split; assumption].
      intros s x r' _ [Hs1 Hs2] Hx. destruct (Hstep s x r' Hs1 Hx) as [Hr1 Hr2]. split; [exact Hr1|apply Hr2, Hs2].
    - apply (IH Hin Hstep Ha st1 r HI1 H).
  Qed.

  Lemma decision_follows g l0 s x l1 : Inv g -> incl l0 (all_chcs sch) ->
    In s (schildren sch p) -> chainf sch s = l0 ++ x :: l1 -> level_cond g (map cc_of l0) x = true ->
    match find (in_choice sch (map cc_of l0) (ch_id x)) g with
    | Some n => n_case sch (map cc_of l0) (ch_id x) n
    | None => dflt_case sch p (map cc_of l0) (ch_id x)
    end = Some (ch_case x).
  Proof.
    intros HI Hi Hs Hc Hlc.
    assert (Hxin : In x (all_chcs sch)) by (apply (chainf_incl sch s); rewrite Hc; apply in_or_app; right; left; reflexivity).
    assert (Hsome : exists k, match find (in_choice sch (map cc_of l0) (ch_id x)) g with
                              | Some n => n_case sch (map cc_of l0) (ch_id x) n
                              | None => dflt_case sch p (map cc_of l0) (ch_id x) end = Some k).
    { destruct (find (in_choice sch (map cc_of l0) (ch_id x)) g) as [n|] eqn:Ef.
      - pose proof (find_some _ _ Ef) as [_ Hn]. unfold in_choice in Hn.
        destruct (n_case sch (map cc_of l0) (ch_id x) n) as [k|]; [exists k; reflexivity|discriminate].
      - (* no node of the choice: x must be the default case *)
        unfold level_cond in Hlc. apply orb_true_iff in Hlc. destruct Hlc as [A|D].
        + apply existsb_exists in A. destruct A as [m [Hm Hq]]. apply andb_true_iff in Hq. destruct Hq as [_ Hq].
          apply in_case_in_choice in Hq. rewrite (find_none _ _ Ef m Hm) in Hq. discriminate.
        + apply andb_true_iff in D. destruct D as [D _].
          unfold dflt_case, choice_elem.
          destruct (filter_map (fun s0 => match next_chc (map cc_of l0) (chainf sch s0) with
                                          | Some x0 => if (ch_id x0 =? ch_id x) && ch_dflt x0 then Some x0 else None
                                          | None => None end) (schildren sch p)) as [|y r] eqn:Efm.
          * exfalso. assert (Hin : In x []).
            { rewrite <- Efm. apply filter_map_In. exists s. split; [exact Hs|]. rewrite Hc, next_chc_app, N.eqb_refl, D. reflexivity. }
            destruct Hin.
          * exists (ch_case y). reflexivity. }
    destruct Hsome as [k Hd]. rewrite Hd. f_equal.
    destruct (decision_active g l0 (ch_id x) HI Hi k Hd) as [x' [Hx'in [Hx'c [Hx'k Hlc']]]].
    rewrite <- Hx'k. symmetry. apply (level_cond_same_case g l0 x x' HI Hxin Hx'in); [congruence|exact Hlc|exact Hlc'].
  Qed.

  Lemma implicit_complete : forall fuel l0 st r s l1,
    incl l0 (all_chcs sch) -> Inv (fst st) -> active_from sch E [] l0 = true ->
    implicit fuel sch false path p (map cc_of l0) st = Ok r ->
    In s (schildren sch p) -> chainf sch s = l0 ++ l1 -> active_from sch E (map cc_of l0) l1 = true ->
    has_default sch s = true -> has_sid (fst r) s = true.
  Proof.
    induction fuel as [|fuel IH]; intros l0 st r s l1 Hi HI Ha H Hs Hc Hal Hd; cbn [implicit] in H; [discriminate|].
    apply bind_ok in H. destruct H as [st1 [H1 H]]. inversion H; subst. clear H.
    destruct l1 as [|x l1].
    - (* s is a direct member of this level *)
      rewrite app_nil_r in Hc.
      apply (fold_left_elem _ (fun st' => has_sid (fst st') s = true) _ s).
      + unfold snodes_at. apply filter_In. split; [exact Hs|]. apply chain_is_eq. rewrite Hc. reflexivity.
      + intro st'. apply impl_snode_creates. exact Hd.
      + intros [g acc] x Hp. apply (has_sid_incl g); [intros y Hy; apply impl_snode_incl; exact Hy|exact Hp].
    - (* s lives below the choice of x *)
      apply (fold_left_inv _ (fun st' => has_sid (fst st') s = true)).
      { intros [g acc] y _ Hp. apply (has_sid_incl g); [intros z Hz; apply impl_snode_incl; exact Hz|exact Hp]. }
      cbn [active_from] in Hal. apply andb_true_iff in Hal. destruct Hal as [Hlc Hal].
      assert (Hstep : forall s0 c r', Inv (fst s0) ->
                match find (in_choice sch (map cc_of l0) c) (fst s0) with
                | Some n => match n_case sch (map cc_of l0) c n with
                            | Some k => implicit fuel sch false path p (map cc_of l0 ++ [(c, k)]) s0
                            | None => Ok s0 end
                | None => match dflt_case sch p (map cc_of l0) c with
                          | Some k => implicit fuel sch false path p (map cc_of l0 ++ [(c, k)]) s0
                          | None => Ok s0 end
                end = Ok r' -> Inv (fst r') /\ incl (fst s0) (fst r')).
      { intros s0 c r' HIs Hr.
        assert (Hgen : forall k, match find (in_choice sch (map cc_of l0) c) (fst s0) with
                                 | Some n => n_case sch (map cc_of l0) c n
                                 | None => dflt_case sch p (map cc_of l0) c end = Some k ->
                       implicit fuel sch false path p (map cc_of l0 ++ [(c, k)]) s0 = Ok r' ->
                       Inv (fst r') /\ incl (fst s0) (fst r')).
        { intros k Hdk Hrk. destruct (decision_active (fst s0) l0 c HIs Hi k Hdk) as [x' [Hxin [Hxc [Hxk Hlc']]]].
          assert (Em : map cc_of l0 ++ [(c, k)] = map cc_of (l0 ++ [x'])).
          { assert (Ex : cc_of x' = (c, k)) by (unfold cc_of; rewrite Hxc, Hxk; reflexivity).
            rewrite map_app. cbn [map]. rewrite Ex. reflexivity. }
          rewrite Em in Hrk. apply implicit_inv in Hrk; [exact Hrk| |exact HIs|].
          - intros z Hz. apply in_app_or in Hz. destruct Hz as [Hz|[<-|[]]]; [apply Hi; exact Hz|exact Hxin].
          - rewrite <- (active_from_Inv (fst s0) HIs), active_from_snoc, (active_from_Inv (fst s0) HIs), Ha, Hlc'. reflexivity. }
        destruct (find (in_choice sch (map cc_of l0) c) (fst s0)) as [n|].
        - destruct (n_case sch (map cc_of l0) c n) as [k|]; [apply (Hgen k eq_refl Hr)|inversion Hr; subst; split; [exact HIs|apply incl_refl]].
        - destruct (dflt_case sch p (map cc_of l0) c) as [k|]; [apply (Hgen k eq_refl Hr)|inversion Hr; subst; split; [exact HIs|apply incl_refl]]. }
      pose proof (fun Hin Hst Ha' => fold_res_elem _ (fun s0 => Inv (fst s0)) (fun s0 => has_sid (fst s0) s = true)
                                                   _ (ch_id x) Hin Hst Ha' st st1 HI H1) as Hfe.
      apply Hfe; clear Hfe.
      + apply (in_choices_at s l0 x l1 Hs Hc).
      + intros s0 c r' HIs Hr. destruct (Hstep s0 c r' HIs Hr) as [Hr1 Hr2]. split; [exact Hr1|]. intro Hp. apply (has_sid_incl _ _ _ Hr2 Hp).
      + intros s0 r' HIs Hr.
        pose proof (decision_follows (fst s0) l0 s x l1 HIs Hi Hs Hc) as Hdec.
        assert (Hlc0 : level_cond (fst s0) (map cc_of l0) x = true).
        { unfold level_cond. rewrite (existsb_expl _ (fst s0)), (existsb_expl _ (fst s0)), (i_expl (fst s0) HIs).
          rewrite !(existsb_expl _ E) in Hlc.
          assert (EE : filter expl E = E).
          { rewrite <- (i_expl (fst s0) HIs). generalize (fst s0). intro gg. induction gg as [|n gg IHg]; cbn [filter]; [reflexivity|].
            destruct (expl n) eqn:En; cbn [filter]; [rewrite En, IHg; reflexivity|exact IHg]. }
          rewrite EE in Hlc. exact Hlc. }
        specialize (Hdec Hlc0).
        assert (Hrec : implicit fuel sch false path p (map cc_of (l0 ++ [x])) s0 = Ok r').
        { rewrite map_app. cbn [map]. unfold cc_of at 2.
          destruct (find (in_choice sch (map cc_of l0) (ch_id x)) (fst s0)) as [n|]; rewrite Hdec in Hr; exact Hr. }
        apply (IH (l0 ++ [x]) s0 r' s l1); [| exact HIs| |exact Hrec|exact Hs| | |exact Hd].
        * intros z Hz. apply in_app_or in Hz. destruct Hz as [Hz|[<-|[]]]; [apply Hi; exact Hz|].
          apply (chainf_incl sch s). rewrite Hc. apply in_or_app. right. left. reflexivity.
        * rewrite active_from_snoc, Ha. exact Hlc.
        * rewrite <- app_assoc. exact Hc.
        * rewrite map_app. cbn [map]. exact Hal.
  Qed.

  (* ---- the result is the normal form of the level ---- *)
  Lemma chain_conflict_inv : forall a b, chain_conflict a b = true ->
    exists la xa ra lb xb rb, a = la ++ xa :: ra /\ b = lb ++ xb :: rb /\ map cc_of la = map cc_of lb /\
                              ch_id xa = ch_id xb /\ ch_case xa <> ch_case xb.
  Proof.
    induction a as [|x a IH]; intros [|y b] H; cbn [chain_conflict] in H; try discriminate.
    destruct (ch_id x =? ch_id y) eqn:Ei; [|discriminate]. apply N.eqb_eq in Ei.
    destruct (ch_case x =? ch_case y) eqn:Ec.
    - apply N.eqb_eq in Ec. destruct (IH b H) as [la [xa [ra [lb [xb [rb [Ha [Hb [Hm [Hi Hc]]]]]]]]]].
      exists (x :: la), xa, ra, (y :: lb), xb, rb. subst a b. repeat split; try assumption.
      cbn [map]. unfold cc_of at 1 3. rewrite Ei, Ec, Hm. reflexivity.
    - apply N.eqb_neq in Ec. exists [], x, a, [], y, b. repeat split; assumption.
  Qed.

  Lemma node_level_cond g n la x ra : Inv g -> In n g -> chainf sch (d_sid n) = la ++ x :: ra ->
    level_cond g (map cc_of la) x = true.
  Proof.
    intros HI Hn Hc. destruct (d_dflt n) eqn:Ed.
    - destruct (i_dflt g HI n Hn Ed) as [_ [Hact _]]. unfold active in Hact. rewrite Hc, active_from_app in Hact.
      apply andb_true_iff in Hact. destruct Hact as [_ Hact]. cbn [active_from app] in Hact.
      apply andb_true_iff in Hact. apply Hact.
    - unfold level_cond. apply orb_true_iff. left. apply existsb_exists. exists n. split; [exact Hn|].
      unfold expl. rewrite Ed. cbn [negb andb]. unfold in_case, n_case, s_case. rewrite Hc, next_chc_app, !N.eqb_refl. reflexivity.
  Qed.

  Lemma Inv_cases_ok g : Inv g -> cases_okb sch g = true.
  Proof.
    intro HI. unfold cases_okb. apply forallb_forall. intros a Ha. apply forallb_forall. intros b Hb.
    apply negb_true_iff. destruct (chain_conflict (chainf sch (d_sid a)) (chainf sch (d_sid b))) eqn:Ec; [exfalso|reflexivity].
    destruct (chain_conflict_inv _ _ Ec) as [la [xa [ra [lb [xb [rb [Hca [Hcb [Hm [Hi Hne]]]]]]]]]].
    pose proof (node_level_cond g a la xa ra HI Ha Hca) as L1.
    pose proof (node_level_cond g b lb xb rb HI Hb Hcb) as L2. rewrite <- Hm in L2.
    apply Hne. apply (level_cond_same_case g la xa xb HI); try assumption.
    - apply (chainf_incl sch (d_sid a)). rewrite Hca. apply in_or_app. right. left. reflexivity.
    - apply (chainf_incl sch (d_sid b)). rewrite Hcb. apply in_or_app. right. left. reflexivity.
  Qed.

  Lemma complete_nonnil s : complete sch s [] = false.
  Proof.
    unfold complete. destruct (kind_of sch s) as [[|]| | | |]; try reflexivity;
      destruct (si_dflts (sget sch s)) as [|v vs]; try reflexivity. cbn [map]. rewrite same_vals_nil_cons. reflexivity.
  Qed.

  Lemma sid_split g s : filter (is_dflt_of s) g = [] -> filter (is_expl_of s) g = [] -> has_sid g s = false.
  Proof.
    intros HD HX. unfold has_sid. apply existsb_false_forall. intros n Hn.
    destruct (d_sid n =? s) eqn:Es; [exfalso|reflexivity].
    destruct (d_dflt n) eqn:Ed.
    - assert (In n (filter (is_dflt_of s) g)) by (apply filter_In; split; [exact Hn|unfold is_dflt_of; rewrite Es, Ed; reflexivity]).
      rewrite HD in H. exact H.
    - assert (In n (filter (is_expl_of s) g)) by (apply filter_In; split; [exact Hn|unfold is_expl_of; rewrite Es, Ed; reflexivity]).
      rewrite HX in H. exact H.
  Qed.

  Hypothesis HEnew : forall n, In n E -> d_new n = false.
  Hypothesis HEsids : forall n, In n E -> In (d_sid n) (schildren sch p).
  Hypothesis HEexpl : forall n, In n E -> d_dflt n = false.

  Lemma filter_dflt_none (l : forest) s : (forall n, In n l -> d_dflt n = false) -> filter (is_dflt_of s) l = [].
  Proof.
    induction l as [|n l IH]; intro H; cbn [filter]; [reflexivity|].
    unfold is_dflt_of at 1. rewrite (H n (or_introl eq_refl)), andb_false_r. apply IH. intros x Hx. apply H. right. exact Hx.
  Qed.

  Lemma Inv_init : Inv E.
  Proof.
    constructor.
    - apply filter_id. intros n Hn. unfold expl. rewrite (HEexpl n Hn). reflexivity.
    - intros n Hn Hd. rewrite (HEexpl n Hn) in Hd. discriminate.
    - intro s. left. apply filter_dflt_none. exact HEexpl.
  Qed.

  Lemma Inv_norm_level g :
    Inv g ->
    (forall s, In s (schildren sch p) -> has_default sch s = true -> active sch g s = true -> has_sid g s = true) ->
    norm_level sch p g = true.
  Proof.
    intros HI Hcomp. unfold norm_level. rewrite !andb_true_iff. repeat split.
    - apply forallb_forall. intros n Hn. apply negb_true_iff. destruct (d_dflt n) eqn:Ed.
      + apply (i_dflt g HI n Hn Ed).
      + apply HEnew. rewrite <- (i_expl g HI). apply filter_In. split; [exact Hn|unfold expl; rewrite Ed; reflexivity].
    - apply forallb_forall. intros n Hn. apply existsb_exists. exists (d_sid n). split; [|apply N.eqb_refl].
      destruct (d_dflt n) eqn:Ed.
      + apply (i_dflt g HI n Hn Ed).
      + apply HEsids. rewrite <- (i_expl g HI). apply filter_In. split; [exact Hn|unfold expl; rewrite Ed; reflexivity].
    - apply Inv_cases_ok. exact HI.
    - apply forallb_forall. intros s Hs. rewrite norm_snode_alt.
      destruct (i_comp g HI s) as [HD|[HE [Hd Hc]]].
      + (* no default instance *)
        rewrite HD. cbn [is_nil].
        destruct (has_default sch s && (is_nil (filter (is_expl_of s) g) && active sch g s)) eqn:Ew; [exfalso|reflexivity].
        apply andb_true_iff in Ew. destruct Ew as [Hd Ew]. apply andb_true_iff in Ew. destruct Ew as [HX Ha].
        apply is_nil_true in HX.
        pose proof (sid_split g s HD HX) as Hno. rewrite (Hcomp s Hs Hd Ha) in Hno. discriminate.
      + (* the complete set of defaults: it is wanted *)
        assert (HX : filter (is_expl_of s) g = []).
        { destruct (filter (is_expl_of s) g) as [|n r] eqn:Ef; [reflexivity|exfalso].
          assert (Hn : In n (filter (is_expl_of s) g)) by (rewrite Ef; left; reflexivity).
          apply filter_In in Hn. destruct Hn as [Hn Hq]. unfold is_expl_of in Hq. apply andb_true_iff in Hq. destruct Hq as [Hs1 Hs2].
          assert (HnE : In n E) by (rewrite <- (i_expl g HI); apply filter_In; split; [exact Hn|exact Hs2]).
          unfold has_sid in HE. rewrite existsb_false_forall in HE. rewrite (HE n HnE) in Hs1. discriminate. }
        assert (Ha : active sch g s = true).
        { destruct (filter (is_dflt_of s) g) as [|n r] eqn:Ef; [rewrite complete_nonnil in Hc; discriminate|].
          assert (Hn : In n (filter (is_dflt_of s) g)) by (rewrite Ef; left; reflexivity).
          apply filter_In in Hn. destruct Hn as [Hn Hq]. unfold is_dflt_of in Hq. apply andb_true_iff in Hq. destruct Hq as [Hs1 Hs2].
          apply N.eqb_eq in Hs1. rewrite <- Hs1. apply (i_dflt g HI n Hn Hs2). }
        rewrite HX, Ha, Hd. cbn [is_nil andb]. exact Hc.
  Qed.
End Impl.

(* ------------------------------------------------------------------------------------------- *)
(* lyd_new_implicit on explicit siblings yields the normal form of the level                     *)
(* ------------------------------------------------------------------------------------------- *)
Lemma implicit_normal_form sch path p E acc r :
  chc_okb sch = true -> cases_okb sch E = true ->
  (forall n, In n E -> d_new n = false) -> (forall n, In n E -> In (d_sid n) (schildren sch p)) ->
  (forall n, In n E -> d_dflt n = false) ->
  implicit (cfuel sch) sch false path p [] (E, acc) = Ok r ->
  norm_level sch p (fst r) = true /\ Inv sch p E E (fst r).
Proof.
  intros Hk Hc Hn Hs He H.
  pose proof (Inv_init sch p E E He) as HI0.
  destruct (implicit_inv sch path p E E Hk (cfuel sch) [] (E, acc) r (fun x (Hx : In x []) => match Hx with end) HI0 eq_refl H) as [HI _].
  split; [|exact HI].
  apply (Inv_norm_level sch p E E Hk Hc Hn Hs); [exact HI|].
  intros s Hss Hd Ha.
  apply (implicit_complete sch path p E E Hk Hc (cfuel sch) [] (E, acc) r s (chainf sch s)
           (fun x (Hx : In x []) => match Hx with end) HI0 eq_refl H Hss eq_refl); [|exact Hd].
  unfold active in Ha. rewrite (active_from_Inv sch p E E (fst r) HI) in Ha. exact Ha.
Qed.

(* ------------------------------------------------------------------------------------------- *)
(* lyd_validate_new on freshly parsed siblings only clears LYD_NEW                               *)
(* ------------------------------------------------------------------------------------------- *)
Section VnewFresh.
  Variable sch : schema.

  Definition all_new (f : forest) : Prop := forall n, In n f -> d_new n = true.
  Definition all_expl (f : forest) : Prop := forall n, In n f -> d_dflt n = false.

  Lemma case_found_allnew pre c k f : all_new f -> case_found sch pre c k f <> FOld.
  Proof.
    intro Hn. unfold case_found. destruct (filter (in_case sch pre c k) f) as [|n r] eqn:Ef; cbn [existsb]; [discriminate|].
    assert (Hin : In n f) by (assert (In n (filter (in_case sch pre c k) f)) by (rewrite Ef; left; reflexivity);
                              apply filter_In in H; apply H).
    rewrite (Hn n Hin). cbn [orb]. discriminate.
  Qed.

  Lemma cases_scan_allnew pre c f : all_new f -> forall ks new on, cases_scan sch pre c f ks None new = Ok on -> fst on = None.
  Proof.
    intro Hn. induction ks as [|k ks IH]; intros new on H; cbn [cases_scan] in H; [inversion H; reflexivity|].
    pose proof (case_found_allnew pre c k f Hn) as Hf.
    destruct (case_found sch pre c k f); [apply (IH _ _ H)|congruence|].
    destruct new; [discriminate|apply (IH _ _ H)].
  Qed.

  Lemma validate_cases_allnew path p pre c f r : all_new f -> validate_cases sch path p pre c f = Ok r -> r = (f, []).
  Proof.
    intros Hn H. unfold validate_cases in H. apply bind_ok in H. destruct H as [[o n] [Hs H]].
    apply (cases_scan_allnew pre c f Hn) in Hs. cbn [fst] in Hs. subst o. inversion H. reflexivity.
  Qed.

  Lemma choice_r_allnew path p : forall fuel pre st r, all_new (fst st) -> choice_r fuel sch path p pre st = Ok r -> r = st.
  Proof.
    induction fuel as [|fuel IH]; intros pre st r Hn H; cbn [choice_r] in H; [discriminate|].
    apply (fold_res_id _ _ _ _) in H; [exact H|].
    intros c r' _ Hc. apply bind_ok in Hc. destruct Hc as [a [Ha Hc]].
    apply (validate_cases_allnew path p pre c (fst st) a Hn) in Ha. subst a. cbn [fst snd] in Hc. rewrite app_nil_r in Hc.
    assert (E : (fst st, snd st) = st) by (destruct st; reflexivity). rewrite E in Hc.
    apply (fold_res_id _ _ _ _) in Hc; [exact Hc|]. intros k r'' _ Hk. apply (IH _ _ _ Hn Hk).
  Qed.

  Lemma clr_new_expl n : d_dflt (clr_new n) = d_dflt n.
  Proof. destruct n; reflexivity. Qed.

  Lemma vnew_loop_fresh path : forall fuel bef aft last acc r,
    all_expl (bef ++ aft) -> all_new aft ->
    vnew_loop fuel sch path bef aft last acc = Ok r -> r = (bef ++ map clr_new aft, acc).
  Proof.
    induction fuel as [|fuel IH]; intros bef aft last acc r He Hn H; cbn [vnew_loop] in H; [discriminate|].
    destruct aft as [|cur rest]; [inversion H; cbn [map]; rewrite app_nil_r; reflexivity|].
    assert (Hnc : d_new cur = true) by (apply Hn; left; reflexivity).
    assert (Hec : d_dflt cur = false) by (apply He; apply in_or_app; right; left; reflexivity).
    rewrite Hnc in H. cbn [orb negb] in H.
    assert (Hnd : forall l, all_expl l -> filter (fun n => negb (is_dflt_of (d_sid cur) n)) l = l).
    { intros l Hl. apply filter_id. intros n Hin. unfold is_dflt_of. rewrite (Hl n Hin), andb_false_r. reflexivity. }
    assert (Heb : all_expl bef) by (intros n Hin; apply He; apply in_or_app; left; exact Hin).
    assert (Her : all_expl rest) by (intros n Hin; apply He; apply in_or_app; right; right; exact Hin).
    assert (Ea : autodel_dflt sch bef cur rest = (bef, false, rest, [])).
    { unfold autodel_dflt.
      assert (Ex : existsb (is_expl_of (d_sid cur)) (bef ++ cur :: rest) = true).
      { apply existsb_exists. exists cur. split; [apply in_or_app; right; left; reflexivity|].
        unfold is_expl_of. rewrite N.eqb_refl, Hec. reflexivity. }
      rewrite Ex, (Hnd bef Heb), (Hnd rest Her). unfold is_dflt_of at 1. rewrite Hec, andb_false_r.
      rewrite (filter_dflt_none (bef ++ cur :: rest) (d_sid cur) He). reflexivity. }
    assert (Hgen : match (if has_default sch (d_sid cur) && negb (opt_is last (d_sid cur)) && true
                          then autodel_dflt sch bef cur rest else (bef, false, rest, [])) with
                   | (b, gn, r0, ds) => (b, gn, r0, ds) end = (bef, false, rest, [])).
    { destruct (has_default sch (d_sid cur) && negb (opt_is last (d_sid cur)) && true); [rewrite Ea|]; reflexivity. }
    destruct (if has_default sch (d_sid cur) && negb (opt_is last (d_sid cur)) && true
              then autodel_dflt sch bef cur rest else (bef, false, rest, [])) as [[[b gn] r0] ds] eqn:Et.
    inversion Hgen; subst b gn r0 ds. clear Hgen.
    cbn [flat_map] in H. rewrite app_nil_r in H.
    destruct (true && negb (dup_inst sch (d_sid cur)) && existsb (same_inst sch cur) (bef ++ rest)); [discriminate|].
    rewrite clr_new_expl, Hec in H. cbn [andb] in H.
    apply IH in H.
    - rewrite H. cbn [map]. rewrite <- app_assoc. reflexivity.
    - intros n Hin. rewrite <- app_assoc in Hin. cbn [app] in Hin. apply in_app_or in Hin.
      destruct Hin as [Hin|[<-|Hin]]; [apply Heb, Hin|rewrite clr_new_expl; exact Hec|apply Her, Hin].
    - intros n Hin. apply Hn. right. exact Hin.
  Qed.

  Lemma vnew_fresh path p f r : all_new f -> all_expl f -> vnew sch path p f = Ok r -> r = (map clr_new f, []).
  Proof.
    intros Hn He H. unfold vnew in H. apply bind_ok in H. destruct H as [st [Hc H]].
    apply choice_r_allnew in Hc; [|exact Hn]. subst st. cbn [fst snd] in H.
    apply vnew_loop_fresh in H; [exact H|exact He|exact Hn].
  Qed.
End VnewFresh.

(* ------------------------------------------------------------------------------------------- *)
(* the normal form of a level does not look below inner nodes                                    *)
(* ------------------------------------------------------------------------------------------- *)
Section Shallow.
  Variable sch : schema.

  Definition sh (n : dnode) : dnode := if is_inner sch (d_sid n) then set_ch n [] else n.

  Lemma sh_fields n : d_sid (sh n) = d_sid n /\ d_val (sh n) = d_val n /\ d_dflt (sh n) = d_dflt n /\ d_new (sh n) = d_new n.
  Proof. unfold sh. destruct (is_inner sch (d_sid n)); destruct n; repeat split. Qed.

  Lemma filter_map_sh (q : dnode -> bool) l : (forall n, q (sh n) = q n) -> filter q (map sh l) = map sh (filter q l).
  Proof.
    intro Hq. induction l as [|n l IH]; cbn [map filter]; [reflexivity|].
    rewrite Hq. destruct (q n); cbn [map]; rewrite IH; reflexivity.
  Qed.

  Lemma existsb_map_sh (q : dnode -> bool) l : (forall n, q (sh n) = q n) -> existsb q (map sh l) = existsb q l.
  Proof. intro Hq. induction l as [|n l IH]; cbn [map existsb]; [reflexivity|]. rewrite Hq, IH. reflexivity. Qed.

  Lemma forallb_map_sh (q : dnode -> bool) l : (forall n, q (sh n) = q n) -> forallb q (map sh l) = forallb q l.
  Proof. intro Hq. induction l as [|n l IH]; cbn [map forallb]; [reflexivity|]. rewrite Hq, IH. reflexivity. Qed.

  Lemma active_from_sh l : forall ch pre, active_from sch (map sh l) pre ch = active_from sch l pre ch.
  Proof.
    induction ch as [|x ch IH]; intro pre; cbn [active_from]; [reflexivity|]. rewrite IH.
    rewrite !(existsb_map_sh _ l); [reflexivity| |]; intro n; destruct (sh_fields n) as [E1 [_ [E3 _]]];
      unfold expl, in_choice, in_case, n_case; rewrite E1, E3; reflexivity.
  Qed.

  Lemma map_sh_noninner l s : is_inner sch s = false -> (forall n, In n l -> d_sid n = s) -> map sh l = l.
  Proof.
    intros Hi Hs. induction l as [|n l IH]; cbn [map]; [reflexivity|].
    rewrite IH by (intros x Hx; apply Hs; right; exact Hx).
    unfold sh. rewrite (Hs n (or_introl eq_refl)), Hi. reflexivity.
  Qed.

  Lemma is_nil_map {A B} (f : A -> B) l : is_nil (map f l) = is_nil l.
  Proof. destruct l; reflexivity. Qed.

  Lemma norm_snode_sh l s : norm_snode sch (map sh l) s = norm_snode sch l s.
  Proof.
    unfold norm_snode.
    assert (HD : filter (is_dflt_of s) (map sh l) = map sh (filter (is_dflt_of s) l)).
    { apply filter_map_sh. intro n. destruct (sh_fields n) as [E1 [_ [E3 _]]]. unfold is_dflt_of. rewrite E1, E3. reflexivity. }
    assert (HX : filter (is_expl_of s) (map sh l) = map sh (filter (is_expl_of s) l)).
    { apply filter_map_sh. intro n. destruct (sh_fields n) as [E1 [_ [E3 _]]]. unfold is_expl_of. rewrite E1, E3. reflexivity. }
    assert (HA : active sch (map sh l) s = active sch l s) by (unfold active; apply active_from_sh).
    rewrite HD, HX, HA, !is_nil_map.
    assert (Hsid : forall n, In n (filter (is_dflt_of s) l) -> d_sid n = s).
    { intros n Hn. apply filter_In in Hn. destruct Hn as [_ Hq]. unfold is_dflt_of in Hq. apply andb_true_iff in Hq. apply N.eqb_eq, Hq. }
    destruct (kind_of sch s) as [[|]| | | |] eqn:Ek; try reflexivity.
    - destruct (filter (is_dflt_of s) l) as [|a [|b r]]; reflexivity.
    - rewrite (map_sh_noninner _ s); [reflexivity|unfold is_inner; rewrite Ek; reflexivity|exact Hsid].
    - rewrite (map_sh_noninner _ s); [reflexivity|unfold is_inner; rewrite Ek; reflexivity|exact Hsid].
  Qed.

  Lemma forallb_ext' {A} (f g : A -> bool) l : (forall x, f x = g x) -> forallb f l = forallb g l.
  Proof. intro H. induction l as [|x l IH]; cbn [forallb]; [reflexivity|]. rewrite H, IH. reflexivity. Qed.

  Lemma norm_level_sh p l : norm_level sch p (map sh l) = norm_level sch p l.
  Proof.
    unfold norm_level. f_equal; [f_equal; [f_equal|]|].
    - apply forallb_map_sh. intro n. destruct (sh_fields n) as [_ [_ [_ E4]]]. rewrite E4. reflexivity.
    - apply forallb_map_sh. intro n. destruct (sh_fields n) as [E1 _]. rewrite E1. reflexivity.
    - unfold cases_okb. rewrite forallb_map_sh.
      + apply forallb_ext'. intro a. apply forallb_map_sh. intro n. destruct (sh_fields n) as [E1 _]. rewrite E1. reflexivity.
      + intro n. destruct (sh_fields n) as [E1 _]. rewrite E1. apply forallb_ext'. intro b. reflexivity.
    - apply forallb_ext'. intro s. apply norm_snode_sh.
  Qed.

  (* what descend does to every sibling *)
  Lemma descend_spec (rec : list pstep -> option sid -> forest -> res (forest * list change)) path : forall l acc r,
    descend rec sch path l acc = Ok r ->
    map sh (fst r) = map sh l /\
    Forall2 (fun n n' => (is_inner sch (d_sid n) = true /\
                          exists c, rec (path ++ [step_of sch n]) (Some (d_sid n)) (d_ch n) = Ok c /\ n' = set_ch n (fst c)) \/
                         (is_inner sch (d_sid n) = false /\ n' = n)) l (fst r).
  Proof.
    induction l as [|n l IH]; intros acc r H; cbn [descend] in H.
    - inversion H; subst. split; [reflexivity|constructor].
    - apply bind_ok in H. destruct H as [n' [Hn' H]]. apply bind_ok in H. destruct H as [r' [Hr' H]].
      inversion H; subst. cbn [fst]. destruct (IH _ _ Hr') as [H1 H2].
      destruct (is_inner sch (d_sid n)) eqn:Ei.
      + apply bind_ok in Hn'. destruct Hn' as [c [Hc Hn']]. inversion Hn'; subst. cbn [fst].
        split; [cbn [map]; rewrite H1; f_equal; unfold sh; destruct n; cbn [set_ch d_sid] in *; rewrite Ei; reflexivity|].
        constructor; [left; split; [exact Ei|exists c; split; [exact Hc|reflexivity]]|exact H2].
      + inversion Hn'; subst. cbn [fst]. split; [cbn [map]; rewrite H1; reflexivity|].
        constructor; [right; split; [exact Ei|reflexivity]|exact H2].
  Qed.
End Shallow.

(* ------------------------------------------------------------------------------------------- *)
(* a successful lyd_validate_choice_r on new siblings: no two of them lie in different cases     *)
(* ------------------------------------------------------------------------------------------- *)
Section CasesFromSuccess.
  Variable sch : schema.
  Variable path : list pstep.
  Variable p : option sid.
  Variable f : forest.
  Hypothesis Hnew : all_new f.
  Hypothesis Hsids : forall n, In n f -> In (d_sid n) (schildren sch p).

  Lemma case_found_new pre c k n : In n f -> in_case sch pre c k n = true -> case_found sch pre c k f = FNew.
  Proof.
    intros Hn Hc. unfold case_found.
    assert (Hin : In n (filter (in_case sch pre c k) f)) by (apply filter_In; split; assumption).
    assert (E : existsb d_new (filter (in_case sch pre c k) f) = true).
    { apply existsb_exists. exists n. split; [exact Hin|apply Hnew, Hn]. }
    rewrite E. reflexivity.
  Qed.

  Lemma cases_scan_some_new pre c : forall ks old k0 k, In k ks -> case_found sch pre c k f = FNew ->
    cases_scan sch pre c f ks old (Some k0) = Err E_VALID.
  Proof.
    induction ks as [|k' ks IH]; intros old k0 k Hin Hf; [destruct Hin|]. cbn [cases_scan].
    destruct Hin as [->|Hin]; [rewrite Hf; reflexivity|].
    destruct (case_found sch pre c k' f); [apply (IH _ _ _ Hin Hf)| |reflexivity].
    destruct old; [reflexivity|apply (IH _ _ _ Hin Hf)].
  Qed.

  Lemma cases_scan_two_new pre c : forall ks old new k1 k2, In k1 ks -> In k2 ks -> k1 <> k2 ->
    case_found sch pre c k1 f = FNew -> case_found sch pre c k2 f = FNew ->
    cases_scan sch pre c f ks old new = Err E_VALID.
  Proof.
    induction ks as [|k ks IH]; intros old new k1 k2 H1 H2 Hne F1 F2; [destruct H1|]. cbn [cases_scan].
    destruct H1 as [->|H1], H2 as [->|H2].
    - contradiction.
    - rewrite F1. destruct new; [reflexivity|apply (cases_scan_some_new pre c ks old k1 k2 H2 F2)].
    - rewrite F2. destruct new; [reflexivity|apply (cases_scan_some_new pre c ks old k2 k1 H1 F1)].
    - destruct (case_found sch pre c k f).
      + apply (IH _ _ _ _ H1 H2 Hne F1 F2).
      + destruct old; [reflexivity|apply (IH _ _ _ _ H1 H2 Hne F1 F2)].
      + destruct new; [reflexivity|apply (IH _ _ _ _ H1 H2 Hne F1 F2)].
  Qed.

  Lemma in_cases_of s l0 x l1 : In s (schildren sch p) -> chainf sch s = l0 ++ x :: l1 ->
    In (ch_case x) (cases_of sch p (map cc_of l0) (ch_id x)).
  Proof.
    intros Hs Hc. unfold cases_of. apply In_nodupN. apply filter_map_In. exists s. split; [exact Hs|].
    unfold s_case. rewrite Hc, next_chc_app, N.eqb_refl. reflexivity.
  Qed.

  Lemma fold_res_const {A S} (g : S -> A -> res S) (l : list A) (st r : S) :
    (forall x r', In x l -> g st x = Ok r' -> r' = st) -> fold_res g l st = Ok r ->
    forall c, In c l -> exists r', g st c = Ok r'.
  Proof.
    induction l as [|x l IH]; intros Hid H c Hc; [destruct Hc|]. cbn [fold_res] in H.
    apply bind_ok in H. destruct H as [a [Ha H]].
    pose proof (Hid x a (or_introl eq_refl) Ha) as E. subst a.
    destruct Hc as [->|Hc]; [exists st; exact Ha|].
    apply (IH (fun y r' Hy => Hid y r' (or_intror Hy)) H c Hc).
  Qed.

  (* two nodes in different cases of a choice: the traversal reaches that choice and fails *)
  Lemma choice_r_conflict a b : In a f -> In b f ->
    forall fuel l1 l1' l0 l0' xa ra xb rb acc r,
    chainf sch (d_sid a) = l0 ++ l1 ++ xa :: ra -> chainf sch (d_sid b) = l0' ++ l1' ++ xb :: rb ->
    map cc_of l0 = map cc_of l0' -> map cc_of l1 = map cc_of l1' -> ch_id xa = ch_id xb -> ch_case xa <> ch_case xb ->
    choice_r fuel sch path p (map cc_of l0) (f, acc) = Ok r -> False.
  Proof.
    intros Ha Hb. induction fuel as [|fuel IH]; intros l1 l1' l0 l0' xa ra xb rb acc r Hca Hcb Hm Hm1 Hid Hne H; cbn [choice_r] in H; [discriminate|].
    assert (Hstep : forall c r', bind (validate_cases sch path p (map cc_of l0) c (fst (f, acc))) (fun r0 =>
                      fold_res (fun st' k => choice_r fuel sch path p (map cc_of l0 ++ [(c, k)]) st')
                               (cases_of sch p (map cc_of l0) c) (fst r0, snd (f, acc) ++ snd r0)) = Ok r' -> r' = (f, acc)).
    { intros c r' Hc. apply bind_ok in Hc. destruct Hc as [a0 [Ha0 Hc]].
      apply (validate_cases_allnew sch path p _ c f a0 Hnew) in Ha0. subst a0. cbn [fst snd] in Hc. rewrite app_nil_r in Hc.
      apply (fold_res_id _ _ _ _) in Hc; [exact Hc|]. intros k r'' _ Hk. apply (choice_r_allnew sch path p fuel _ (f, acc) r'' Hnew Hk). }
    destruct l1 as [|y l1], l1' as [|y' l1']; cbn [map] in Hm1; try discriminate; cbn [app] in Hca, Hcb.
    - (* the choice of the conflict is at this level *)
      destruct (fold_res_const _ _ _ _ (fun c r' _ Hc => Hstep c r' Hc) H (ch_id xa)
                  (in_choices_at sch p _ l0 xa ra (Hsids a Ha) Hca)) as [r' Hr'].
      apply bind_ok in Hr'. destruct Hr' as [a0 [Ha0 _]]. cbn [fst] in Ha0.
      unfold validate_cases in Ha0. apply bind_ok in Ha0. destruct Ha0 as [on [Hscan _]].
      rewrite (cases_scan_two_new (map cc_of l0) (ch_id xa) _ None None (ch_case xa) (ch_case xb)) in Hscan; [discriminate| | |exact Hne| |].
      + apply (in_cases_of _ l0 xa ra (Hsids a Ha) Hca).
      + rewrite Hid, Hm. apply (in_cases_of _ l0' xb rb (Hsids b Hb) Hcb).
      + apply (case_found_new _ _ _ a Ha). unfold in_case, n_case, s_case. rewrite Hca, next_chc_app, !N.eqb_refl. reflexivity.
      + apply (case_found_new _ _ _ b Hb). unfold in_case, n_case, s_case. rewrite Hcb, Hm, next_chc_app, Hid, !N.eqb_refl. reflexivity.
    - (* go down into the case of y *)
      assert (Ey : cc_of y = cc_of y') by congruence. assert (Em1 : map cc_of l1 = map cc_of l1') by congruence.
      destruct (fold_res_const _ _ _ _ (fun c r' _ Hc => Hstep c r' Hc) H (ch_id y)
                  (in_choices_at sch p _ l0 y _ (Hsids a Ha) Hca)) as [r' Hr'].
      apply bind_ok in Hr'. destruct Hr' as [a0 [Ha0 Hr']]. cbn [fst snd] in Ha0, Hr'.
      apply (validate_cases_allnew sch path p _ _ f a0 Hnew) in Ha0. subst a0. cbn [fst snd] in Hr'. rewrite app_nil_r in Hr'.
      destruct (fold_res_const _ _ _ _ (fun k r'' _ Hk => choice_r_allnew sch path p fuel _ (f, acc) r'' Hnew Hk) Hr' (ch_case y)
                  (in_cases_of _ l0 y _ (Hsids a Ha) Hca)) as [r'' Hr''].
      assert (Em : map cc_of l0 ++ [(ch_id y, ch_case y)] = map cc_of (l0 ++ [y])) by (rewrite map_app; reflexivity).
      rewrite Em in Hr''.
      apply (IH l1 l1' (l0 ++ [y]) (l0' ++ [y']) xa ra xb rb acc r''); try assumption.
      + rewrite <- app_assoc. exact Hca.
      + rewrite <- app_assoc. exact Hcb.
      + rewrite !map_app, Hm. cbn [map]. rewrite Ey. reflexivity.
  Qed.

  Lemma choice_r_cases_ok acc r : choice_r (cfuel sch) sch path p [] (f, acc) = Ok r -> cases_okb sch f = true.
  Proof.
    intro H. unfold cases_okb. apply forallb_forall. intros a Ha. apply forallb_forall. intros b Hb.
    apply negb_true_iff. destruct (chain_conflict (chainf sch (d_sid a)) (chainf sch (d_sid b))) eqn:Ec; [exfalso|reflexivity].
    destruct (chain_conflict_inv _ _ Ec) as [la [xa [ra [lb [xb [rb [Hca [Hcb [Hm [Hi Hne]]]]]]]]]].
    apply (choice_r_conflict a b Ha Hb (cfuel sch) la lb [] [] xa ra xb rb acc r Hca Hcb eq_refl Hm Hi Hne H).
  Qed.
End CasesFromSuccess.

Lemma vnew_cases_ok sch path p f r :
  all_new f -> (forall n, In n f -> In (d_sid n) (schildren sch p)) -> vnew sch path p f = Ok r -> cases_okb sch f = true.
Proof.
  intros Hn Hs H. unfold vnew in H. apply bind_ok in H. destruct H as [st [Hc _]].
  apply (choice_r_cases_ok sch path p f Hn Hs [] st Hc).
Qed.

(* ------------------------------------------------------------------------------------------- *)
(* freshly parsed data: validation reaches the normal form                                       *)
(* ------------------------------------------------------------------------------------------- *)
Lemma fresh_node_unfold sch s v d m ch :
  fresh_node sch (DN s v d m ch) =
  d_new (DN s v d m ch) && negb d && (if is_np_cont sch s then negb (is_nil ch) else true) &&
  forallb (fresh_node sch) ch.
Proof. reflexivity. Qed.

Lemma canon_sid sch p n : CanonN sch p n -> In (d_sid n) (schildren sch p).
Proof.
  destruct n as [s v d m ch]. rewrite CanonN_unfold. intros [[i [Hl [Hp _]]] _]. cbn [d_sid].
  unfold schildren. apply in_map_iff. exists (s, i). split; [reflexivity|]. apply filter_In. split; [apply lookup_In; exact Hl|].
  cbn [snd]. apply opt_sid_eqb_eq. exact Hp.
Qed.

Lemma canon_term_nochild sch p n : CanonN sch p n -> is_inner sch (d_sid n) = false -> d_ch n = [].
Proof.
  destruct n as [s v d m ch]. rewrite CanonN_unfold. intros [[i [Hl [_ [_ Ht]]]] _] Hi. cbn [d_sid d_ch] in *.
  apply Ht. unfold is_inner, kind_of, sget in Hi. rewrite Hl in Hi. destruct (si_kind i) as [[|]| | | |]; try discriminate; reflexivity.
Qed.

Lemma cases_okb_map_clr sch f : cases_okb sch (map clr_new f) = cases_okb sch f.
Proof.
  unfold cases_okb.
  assert (H : forall (q : dnode -> bool) l, (forall n, q (clr_new n) = q n) -> forallb q (map clr_new l) = forallb q l).
  { intros q l Hq. induction l as [|n l IH]; cbn [map forallb]; [reflexivity|]. rewrite Hq, IH. reflexivity. }
  rewrite H.
  - apply forallb_ext'. intro a. apply H. intro n. destruct (clr_new_fields n) as [E1 _]. rewrite E1. reflexivity.
  - intro n. destruct (clr_new_fields n) as [E1 _]. rewrite E1. apply forallb_ext'. intro b. reflexivity.
Qed.

Lemma existsb_expl_not_all l : existsb expl l = true -> forallb d_dflt l = false.
Proof.
  intro H. apply existsb_exists in H. destruct H as [x [Hx He]].
  destruct (forallb d_dflt l) eqn:E; [|reflexivity]. rewrite forallb_forall in E. unfold expl in He. rewrite (E x Hx) in He. discriminate.
Qed.

Lemma Forall2_In_r {A B} (R : A -> B -> Prop) l l' : Forall2 R l l' -> forall y, In y l' -> exists x, In x l /\ R x y.
Proof.
  induction 1 as [|a b l l' Hab HF IH]; intros y Hy; [destruct Hy|].
  destruct Hy as [<-|Hy]; [exists a; split; [left; reflexivity|exact Hab]|].
  destruct (IH y Hy) as [x [Hx Hr]]. exists x. split; [right; exact Hx|exact Hr].
Qed.

Lemma strip_node_unfold s v d m ch :
  strip_node (DN s v d m ch) = DN s v d (filter (fun kv => negb (is_newkv kv)) m) (strip ch).
Proof.
  cbn [strip_node]. f_equal.
Qed.

Lemma strip_filter l : strip l = map strip_node (filter expl l).
Proof.
  induction l as [|x l IH]; cbn [strip filter]; [reflexivity|]. unfold expl at 1.
  destruct (d_dflt x); cbn [negb map]; rewrite IH; reflexivity.
Qed.

Lemma filter_idem {A} (q : A -> bool) l : filter q (filter q l) = filter q l.
Proof. apply filter_id. intros x Hx. apply filter_In in Hx. apply Hx. Qed.

Lemma Forall2_filter {A B} (R : A -> B -> Prop) (q : A -> bool) (q' : B -> bool) l l' :
  Forall2 R l l' -> (forall x y, R x y -> q x = q' y) -> Forall2 R (filter q l) (filter q' l').
Proof.
  intros HF Hq. induction HF as [|a b l l' Hab HF IH]; cbn [filter]; [constructor|].
  rewrite (Hq a b Hab). destruct (q' b); [constructor; assumption|exact IH].
Qed.

Lemma Forall2_map_eq {A B C} (R : A -> B -> Prop) (f : A -> C) (g : B -> C) l l' :
  Forall2 R l l' -> (forall x y, R x y -> f x = g y) -> map f l = map g l'.
Proof. intros HF H. induction HF as [|a b l l' Hab HF IH]; cbn [map]; [reflexivity|]. rewrite (H a b Hab), IH. reflexivity. Qed.

Lemma Forall2_map_eq_in {A B C} (R : A -> B -> Prop) (f : A -> C) (g : B -> C) l l' :
  Forall2 R l l' -> (forall x y, In x l -> R x y -> f x = g y) -> map f l = map g l'.
Proof.
  intros HF. induction HF as [|a b l l' Hab HF IH]; intro H; cbn [map]; [reflexivity|].
  rewrite (H a b (or_introl eq_refl) Hab), IH; [reflexivity|]. intros x y Hx. apply H. right. exact Hx.
Qed.

Lemma Forall2_map_l {A B C} (R : B -> C -> Prop) (f : A -> B) l l' : Forall2 R (map f l) l' -> Forall2 (fun x y => R (f x) y) l l'.
Proof.
  revert l'. induction l as [|a l IH]; intros l' H; inversion H; subst; constructor; [assumption|apply IH; assumption].
Qed.

Section LevelFresh.
  Variable sch : schema.
  Hypothesis Hk : chc_okb sch = true.

  Lemma level_fresh : forall fuel path p f r,
    CanonAt sch p f -> forallb (fresh_node sch) f = true ->
    level fuel true false sch path p f = Ok r ->
    norm_level sch p (fst r) = true /\ forallb (normal_node sch) (fst r) = true /\
    (f <> [] -> existsb expl (fst r) = true) /\ (f = [] -> forallb d_dflt (fst r) = true) /\
    strip (fst r) = strip f.
  Proof.
    induction fuel as [|fuel IH]; intros path p f r Hcan Hfresh H; cbn [level] in H; [discriminate|].
    apply bind_ok in H. destruct H as [st1 [H1 H]]. apply bind_ok in H. destruct H as [st2 [H2 H]].
    rewrite forallb_forall in Hfresh.
    assert (Hnew : all_new f).
    { intros n Hn. specialize (Hfresh n Hn). destruct n as [s v d m ch]. rewrite fresh_node_unfold in Hfresh.
      repeat (apply andb_true_iff in Hfresh; destruct Hfresh as [Hfresh ?]). exact Hfresh. }
    assert (Hexp : all_expl f).
    { intros n Hn. specialize (Hfresh n Hn). destruct n as [s v d m ch]. rewrite fresh_node_unfold in Hfresh.
      repeat (apply andb_true_iff in Hfresh; destruct Hfresh as [Hfresh ?]). cbn [d_dflt]. apply negb_true_iff. assumption. }
    assert (Hcases : cases_okb sch f = true).
    { apply (vnew_cases_ok sch path p f st1 Hnew); [|exact H1].
      intros n Hn. apply (canon_sid sch p n). apply (CanonAt_In sch p f n Hcan Hn). }
    apply (vnew_fresh sch path p f st1 Hnew Hexp) in H1. subst st1.
    set (E := map clr_new f) in *.
    assert (HEn : forall n, In n E -> d_new n = false).
    { intros n Hn. apply in_map_iff in Hn. destruct Hn as [n0 [<- _]]. apply clr_new_not_new. }
    assert (HEs : forall n, In n E -> In (d_sid n) (schildren sch p)).
    { intros n Hn. apply in_map_iff in Hn. destruct Hn as [n0 [<- Hn0]]. destruct (clr_new_fields n0) as [E1 _]. rewrite E1.
      apply (canon_sid sch p n0). apply (CanonAt_In sch p f n0 Hcan Hn0). }
    assert (HEe : forall n, In n E -> d_dflt n = false).
    { intros n Hn. apply in_map_iff in Hn. destruct Hn as [n0 [<- Hn0]]. rewrite clr_new_expl. apply Hexp, Hn0. }
    assert (HEc : cases_okb sch E = true) by (unfold E; rewrite cases_okb_map_clr; exact Hcases).
    destruct (implicit_normal_form sch path p E [] st2 Hk HEc HEn HEs HEe H2) as [Hnl HI].
    destruct (descend_spec sch (level fuel true false sch) path (fst st2) (snd st2) r H) as [Hsh HF2].
    assert (Hflags : forall q : dnode -> bool, (forall n, q (sh sch n) = q n) -> forall a b, map (sh sch) a = map (sh sch) b ->
                     existsb q a = existsb q b /\ forallb q a = forallb q b).
    { intros q Hq a b Hab. rewrite <- (existsb_map_sh sch q a Hq), <- (existsb_map_sh sch q b Hq),
                                  <- (forallb_map_sh sch q a Hq), <- (forallb_map_sh sch q b Hq), Hab. split; reflexivity. }
    assert (Hexpl_sh : forall n, expl (sh sch n) = expl n).
    { intro n. destruct (sh_fields sch n) as [_ [_ [E3 _]]]. unfold expl. rewrite E3. reflexivity. }
    assert (Hdflt_sh : forall n, d_dflt (sh sch n) = d_dflt n) by (intro n; apply (sh_fields sch n)).
    split; [rewrite <- (norm_level_sh sch p (fst r)), Hsh, norm_level_sh; exact Hnl|].
    split.
    - (* every node is in normal form *)
      apply forallb_forall. intros n' Hn'.
      destruct (Forall2_In_r _ _ _ HF2 n' Hn') as [n [Hn Hrel]].
      destruct Hrel as [[Hi [c [Hc ->]]]|[Hi ->]].
      + (* inner node: its children went through the same procedure *)
        destruct n as [s v d m ch]. cbn [set_ch d_sid d_ch] in *. rewrite normal_node_unfold, Hi.
        destruct d.
        * (* created default container: no children before *)
          destruct (i_dflt sch p E E (fst st2) HI _ Hn eq_refl) as [_ [_ [_ [HinE|Hch]]]];
            [pose proof (HEe _ HinE) as Hx; cbn [d_dflt] in Hx; discriminate|]. cbn [d_ch] in Hch. subst ch.
          destruct (IH _ _ _ _ (CanonAt_nil sch (Some s)) eq_refl Hc) as [A [B [_ [D _]]]].
          rewrite A, B, (D eq_refl). destruct (is_np_cont sch s); reflexivity.
        * (* explicit node: from the input *)
          assert (HnE : In (DN s v false m ch) E).
          { rewrite <- (i_expl sch p E E (fst st2) HI). apply filter_In. split; [exact Hn|reflexivity]. }
          apply in_map_iff in HnE. destruct HnE as [n0 [En0 Hn0]].
          pose proof (Hfresh n0 Hn0) as Hf0. destruct n0 as [s0 v0 d0 m0 ch0]. cbn [clr_new] in En0. inversion En0; subst s0 v0 d0 ch0.
          rewrite fresh_node_unfold in Hf0.
          apply andb_true_iff in Hf0. destruct Hf0 as [Hf0 Hf5].
          apply andb_true_iff in Hf0. destruct Hf0 as [Hf0 Hf3].
          pose proof (CanonAt_children sch p _ (CanonAt_In sch p f _ Hcan Hn0)) as Hcc. cbn [d_sid d_ch] in Hcc.
          destruct (IH _ _ _ _ Hcc Hf5 Hc) as [A [B [C _]]].
          rewrite A, B. destruct (is_np_cont sch s); [|reflexivity].
          apply negb_true_iff in Hf3. assert (Hne : ch <> []) by (intro Ee; subst ch; discriminate).
          rewrite (existsb_expl_not_all _ (C Hne)). reflexivity.
      + (* terminal node *)
        assert (Hch : d_ch n = []).
        { destruct (d_dflt n) eqn:Ed.
          - destruct (i_dflt sch p E E (fst st2) HI n Hn Ed) as [_ [_ [_ [HinE|Hch]]]]; [|exact Hch].
            rewrite (HEe _ HinE) in Ed. discriminate.
          - assert (HnE : In n E) by (rewrite <- (i_expl sch p E E (fst st2) HI); apply filter_In; split; [exact Hn|unfold expl; rewrite Ed; reflexivity]).
            apply in_map_iff in HnE. destruct HnE as [n0 [<- Hn0]]. destruct (clr_new_fields n0) as [E1 [_ [_ E4]]].
            rewrite E4. rewrite E1 in Hi. apply (canon_term_nochild sch p n0 (CanonAt_In sch p f n0 Hcan Hn0) Hi). }
        destruct n as [s v d m ch]. cbn [d_ch d_sid] in *. subst ch. rewrite normal_node_unfold, Hi. cbn [forallb].
        unfold is_inner in Hi. unfold is_np_cont. destruct (kind_of sch s) as [[|]| | | |]; try discriminate; reflexivity.
    - (* explicit nodes of the result are those of the input *)
      destruct (Hflags expl Hexpl_sh _ _ Hsh) as [Hex _]. destruct (Hflags d_dflt Hdflt_sh _ _ Hsh) as [_ Hfa].
      rewrite Hex, Hfa. split; [|split].
      + intro Hne. destruct f as [|n0 f0]; [contradiction|]. apply existsb_exists. exists (clr_new n0).
        assert (HinE : In (clr_new n0) E) by (left; reflexivity).
        rewrite <- (i_expl sch p E E (fst st2) HI) in HinE. apply filter_In in HinE. exact HinE.
      + intro Hnil. subst f. apply forallb_forall. intros n Hn. destruct (d_dflt n) eqn:Ed; [reflexivity|exfalso].
        assert (HinE : In n E) by (rewrite <- (i_expl sch p E E (fst st2) HI); apply filter_In; split; [exact Hn|unfold expl; rewrite Ed; reflexivity]).
        destruct HinE.
      + (* the explicit content *)
        rewrite !strip_filter.
        assert (HF3 : Forall2 (fun n n' => (is_inner sch (d_sid n) = true /\
                          exists c, level fuel true false sch (path ++ [step_of sch n]) (Some (d_sid n)) (d_ch n) = Ok c /\ n' = set_ch n (fst c)) \/
                         (is_inner sch (d_sid n) = false /\ n' = n)) (filter expl (fst st2)) (filter expl (fst r))).
        { apply Forall2_filter; [exact HF2|]. intros x y [[_ [c [_ ->]]]|[_ ->]]; [destruct x; reflexivity|reflexivity]. }
        rewrite (i_expl sch p E E (fst st2) HI) in HF3. unfold E in HF3. apply Forall2_map_l in HF3.
        assert (Hfe : filter expl f = f) by (apply filter_id; intros n Hn; unfold expl; rewrite (Hexp n Hn); reflexivity).
        rewrite Hfe. symmetry.
        apply (Forall2_map_eq_in _ strip_node strip_node _ _ HF3).
        intros n0 n' Hn0 Hrel.
        pose proof (Hfresh n0 Hn0) as Hf0. destruct n0 as [s0 v0 d0 m0 ch0]. rewrite fresh_node_unfold in Hf0.
        apply andb_true_iff in Hf0. destruct Hf0 as [Hf0 Hf5].
        cbn [clr_new d_sid d_ch set_ch] in Hrel.
        destruct Hrel as [[Hi [c [Hc ->]]]|[Hi ->]].
        * pose proof (CanonAt_children sch p _ (CanonAt_In sch p f _ Hcan Hn0)) as Hcc. cbn [d_sid d_ch] in Hcc.
          destruct (IH _ _ _ _ Hcc Hf5 Hc) as [_ [_ [_ [_ Hst]]]].
          cbn [set_ch]. rewrite !strip_node_unfold, Hst, filter_idem. reflexivity.
        * rewrite !strip_node_unfold, filter_idem. reflexivity.
  Qed.
End LevelFresh.

Theorem validate_fresh_normal sch f g d :
  chc_okb sch = true -> Canon sch f -> freshb sch f = true -> f <> [] ->
  validate_all sch f = Ok (g, d) -> normalb sch g = true /\ strip g = strip f.
Proof.
  intros Hk Hc Hf2 Hne H. unfold freshb in Hf2.
  unfold validate_all in H. destruct f as [|n0 f0]; [contradiction|].
  apply bind_ok in H. destruct H as [st [Hs H]]. apply bind_ok in H. destruct H as [gg [Hfin H]]. inversion H; subst gg d. clear H.
  destruct (level_fresh sch Hk _ _ _ _ _ Hc Hf2 Hs) as [A [B [_ [_ S]]]].
  assert (Eg : g = fst st).
  { unfold final_forest in Hfin. apply bind_ok in Hfin. destruct Hfin as [u [_ Hfin]].
    apply (map_res_id (final_node sch)); [|exact Hfin].
    rewrite forallb_forall in B. apply Forall_forall. intros x Hx y Hy. apply (final_node_normal sch x y Hy (B x Hx)). }
  subst g. split; [unfold normalb; rewrite A, B; reflexivity|exact S].
Qed.

(* ------------------------------------------------------------------------------------------- *)
(* lyd_validate_choice_r on ANY sibling list: what a successful run leaves                       *)
(* ------------------------------------------------------------------------------------------- *)
Lemma filter_filter {A} (q1 q2 : A -> bool) l : filter q2 (filter q1 l) = filter (fun x => q1 x && q2 x) l.
Proof.
  induction l as [|x l IH]; cbn [filter]; [reflexivity|].
  destruct (q1 x); cbn [filter andb]; [destruct (q2 x); rewrite IH; reflexivity|exact IH].
Qed.

Section ChoiceGen.
  Variable sch : schema.
  Variable path : list pstep.
  Variable p : option sid.

  (* what the scan over the cases returns *)
  Lemma cases_scan_char pre c f : forall ks old new o n,
    cases_scan sch pre c f ks old new = Ok (o, n) ->
    match old with
    | Some x => o = Some x /\ (forall k, In k ks -> case_found sch pre c k f <> FOld)
    | None => forall k, In k ks -> case_found sch pre c k f = FOld -> o = Some k
    end /\
    match new with
    | Some x => n = Some x /\ (forall k, In k ks -> case_found sch pre c k f <> FNew)
    | None => forall k, In k ks -> case_found sch pre c k f = FNew -> n = Some k
    end.
  Proof.
    induction ks as [|k ks IH]; intros old new o n H; cbn [cases_scan] in H.
    - inversion H; subst. split; [destruct o|destruct n]; try (split; [reflexivity|intros k []]); intros k [].
    - destruct (case_found sch pre c k f) eqn:Ef.
      + destruct (IH _ _ _ _ H) as [H1 H2]. split.
        * destruct old; [destruct H1 as [H1 H1']; split; [exact H1|intros k' [<-|Hk']; [congruence|apply H1', Hk']]|].
          intros k' [<-|Hk'] Hf; [congruence|apply (H1 k' Hk' Hf)].
        * destruct new; [destruct H2 as [H2 H2']; split; [exact H2|intros k' [<-|Hk']; [congruence|apply H2', Hk']]|].
          intros k' [<-|Hk'] Hf; [congruence|apply (H2 k' Hk' Hf)].
      + destruct old; [discriminate|]. destruct (IH _ _ _ _ H) as [[H1 H1'] H2]. split.
        * intros k' [<-|Hk'] Hf; [exact H1|]. exfalso. apply (H1' k' Hk' Hf).
        * destruct new; [destruct H2 as [H2 H2']; split; [exact H2|intros k' [<-|Hk']; [congruence|apply H2', Hk']]|].
          intros k' [<-|Hk'] Hf; [congruence|apply (H2 k' Hk' Hf)].
      + destruct new; [discriminate|]. destruct (IH _ _ _ _ H) as [H1 [H2 H2']]. split.
        * destruct old; [destruct H1 as [H1 H1'']; split; [exact H1|intros k' [<-|Hk']; [congruence|apply H1'', Hk']]|].
          intros k' [<-|Hk'] Hf; [congruence|apply (H1 k' Hk' Hf)].
        * intros k' [<-|Hk'] Hf; [exact H2|]. exfalso. apply (H2' k' Hk' Hf).
  Qed.

  Lemma cases_scan_orig pre c f : forall ks old new o n,
    cases_scan sch pre c f ks old new = Ok (o, n) ->
    (o = old \/ exists k, In k ks /\ o = Some k /\ case_found sch pre c k f = FOld) /\
    (n = new \/ exists k, In k ks /\ n = Some k /\ case_found sch pre c k f = FNew).
  Proof.
    assert (Hw : forall (k : N) ks (F : found) (x : option N),
               (exists k', In k' ks /\ x = Some k' /\ case_found sch pre c k' f = F) ->
               exists k', In k' (k :: ks) /\ x = Some k' /\ case_found sch pre c k' f = F).
    { intros k ks F x [k' [A [B C]]]. exists k'. split; [right; exact A|split; assumption]. }
    induction ks as [|k ks IH]; intros old new o n H; cbn [cases_scan] in H.
    - inversion H; subst. split; left; reflexivity.
    - destruct (case_found sch pre c k f) eqn:Ef.
      + destruct (IH _ _ _ _ H) as [H1 H2]. split.
        * destruct H1 as [H1|H1]; [left; exact H1|right; apply Hw; exact H1].
        * destruct H2 as [H2|H2]; [left; exact H2|right; apply Hw; exact H2].
      + destruct old; [discriminate|]. destruct (IH _ _ _ _ H) as [H1 H2]. split.
        * right. destruct H1 as [H1|H1]; [exists k; split; [left; reflexivity|split; [exact H1|exact Ef]]|apply Hw; exact H1].
        * destruct H2 as [H2|H2]; [left; exact H2|right; apply Hw; exact H2].
      + destruct new; [discriminate|]. destruct (IH _ _ _ _ H) as [H1 H2]. split.
        * destruct H1 as [H1|H1]; [left; exact H1|right; apply Hw; exact H1].
        * right. destruct H2 as [H2|H2]; [exists k; split; [left; reflexivity|split; [exact H2|exact Ef]]|apply Hw; exact H2].
  Qed.

  Lemma case_found_new_node pre c k f : case_found sch pre c k f = FNew -> exists x, In x f /\ d_new x = true.
  Proof.
    unfold case_found. destruct (existsb d_new (filter (in_case sch pre c k) f)) eqn:E.
    - intros _. apply existsb_exists in E. destruct E as [x [Hx Hn]]. apply filter_In in Hx. exists x. split; [apply Hx|exact Hn].
    - destruct (filter (in_case sch pre c k) f); discriminate.
  Qed.

  Definition sid_in_case (pre : list cc) (c k : N) (s : sid) : bool :=
    match s_case sch pre c s with Some k' => k' =? k | None => false end.

  Lemma in_case_sid pre c k n : in_case sch pre c k n = sid_in_case pre c k (d_sid n).
  Proof. reflexivity. Qed.

  (* validate_cases keeps the nodes whose schema node passes a test; new nodes always pass *)
  Lemma validate_cases_form pre c f r : validate_cases sch path p pre c f = Ok r ->
    exists q : sid -> bool, fst r = filter (fun n => q (d_sid n)) f /\
                            (forall n, In n f -> d_new n = true -> q (d_sid n) = true) /\
                            ((forall n, In n f -> d_new n = false) -> forall s, q s = true).
  Proof.
    intro H. unfold validate_cases in H. apply bind_ok in H. destruct H as [[o n] [Hs H]].
    destruct (cases_scan_char pre c f _ None None o n Hs) as [Ho Hn].
    assert (Hid : exists q : sid -> bool, f = filter (fun n => q (d_sid n)) f /\
                      (forall n, In n f -> d_new n = true -> q (d_sid n) = true) /\
                      ((forall n, In n f -> d_new n = false) -> forall s, q s = true)).
    { exists (fun _ => true). split; [symmetry; apply filter_id; reflexivity|split; reflexivity]. }
    destruct o as [ko|]; [destruct n as [kn|]|]; inversion H; subst; cbn [fst]; try exact Hid.
    exists (fun s => negb (sid_in_case pre c ko s)). split; [reflexivity|]. split.
    - (* the old case holds no new node *)
      intros x Hx Hnew. apply negb_true_iff. destruct (sid_in_case pre c ko (d_sid x)) eqn:E; [exfalso|reflexivity].
      assert (Hf : case_found sch pre c ko f = FNew).
      { unfold case_found.
        assert (Hin : In x (filter (in_case sch pre c ko) f)) by (apply filter_In; split; [exact Hx|rewrite in_case_sid; exact E]).
        assert (Ee : existsb d_new (filter (in_case sch pre c ko) f) = true) by (apply existsb_exists; exists x; split; assumption).
        rewrite Ee. reflexivity. }
      destruct (cases_scan_orig pre c f _ None None _ _ Hs) as [[Ho1|[k1 [_ [Ek Hk1]]]] _]; [discriminate|].
      inversion Ek; subst k1. congruence.
    - (* no new node at all: no case is new *)
      intros Hnn. exfalso.
      destruct (cases_scan_orig pre c f _ None None _ _ Hs) as [_ [Hn1|[k2 [_ [_ Hk2]]]]]; [discriminate|].
      destruct (case_found_new_node _ _ _ _ Hk2) as [x [Hx Hxn]]. rewrite (Hnn x Hx) in Hxn. discriminate.
  Qed.

  Definition FiltOf (l0 l : forest) : Prop :=
    exists q : sid -> bool, l = filter (fun n => q (d_sid n)) l0 /\
                            (forall n, In n l0 -> d_new n = true -> q (d_sid n) = true) /\
                            ((forall n, In n l0 -> d_new n = false) -> forall s, q s = true).

  Lemma FiltOf_refl l : FiltOf l l.
  Proof. exists (fun _ => true). split; [symmetry; apply filter_id; reflexivity|split; reflexivity]. Qed.

  Lemma FiltOf_trans l0 l1 l2 : FiltOf l0 l1 -> FiltOf l1 l2 -> FiltOf l0 l2.
  Proof.
    intros [q1 [E1 [N1 A1]]] [q2 [E2 [N2 A2]]]. exists (fun s => q1 s && q2 s). split; [|split].
    - rewrite E2, E1, filter_filter. reflexivity.
    - intros n Hn Hnew. rewrite (N1 n Hn Hnew). cbn [andb]. apply N2; [|exact Hnew].
      rewrite E1. apply filter_In. split; [exact Hn|apply N1; assumption].
    - intros Hnn s. rewrite (A1 Hnn s). cbn [andb]. apply A2. intros n Hn. rewrite E1 in Hn. apply filter_In in Hn. apply Hnn, Hn.
  Qed.

  Lemma FiltOf_incl l0 l x : FiltOf l0 l -> In x l -> In x l0.
  Proof. intros [q [E _]] Hx. rewrite E in Hx. apply filter_In in Hx. apply Hx. Qed.

  Lemma choice_r_form : forall fuel pre st r, choice_r fuel sch path p pre st = Ok r -> FiltOf (fst st) (fst r).
  Proof.
    induction fuel as [|fuel IH]; intros pre st r H; cbn [choice_r] in H; [discriminate|].
    apply (fold_res_inv _ (fun s => FiltOf (fst st) (fst s)) _) with (s := st) (r := r) in H; [exact H| |apply FiltOf_refl].
    intros s c r' _ Hs Hc. apply bind_ok in Hc. destruct Hc as [a [Ha Hc]].
    apply validate_cases_form in Ha.
    apply (fold_res_inv _ (fun s' => FiltOf (fst st) (fst s')) _) with (s := (fst a, snd s ++ snd a)) (r := r') in Hc;
      [exact Hc| |cbn [fst]; apply (FiltOf_trans _ _ _ Hs Ha)].
    intros s'' k r'' _ Hs'' Hk. apply (FiltOf_trans _ _ _ Hs'' (IH _ _ _ Hk)).
  Qed.

  (* after a successful lyd_validate_cases the nodes of the choice lie in one case *)
  Lemma validate_cases_one_case pre c f r : validate_cases sch path p pre c f = Ok r ->
    (forall n, In n f -> In (d_sid n) (schildren sch p)) ->
    forall a b, In a (fst r) -> In b (fst r) -> forall ka kb,
    n_case sch pre c a = Some ka -> n_case sch pre c b = Some kb -> ka = kb.
  Proof.
    intros H Hsids a b Ha Hb ka kb Hka Hkb.
    pose proof (validate_cases_form _ _ _ _ H) as HF.
    pose proof (FiltOf_incl _ _ a HF Ha) as Haf. pose proof (FiltOf_incl _ _ b HF Hb) as Hbf.
    unfold validate_cases in H. apply bind_ok in H. destruct H as [[o n] [Hs H]].
    destruct (cases_scan_char pre c f _ None None o n Hs) as [Ho Hn].
    assert (Hin : forall x k, In x f -> n_case sch pre c x = Some k -> In k (cases_of sch p pre c) /\ in_case sch pre c k x = true).
    { intros x k Hx Hk. split.
      - unfold cases_of. apply In_nodupN. apply filter_map_In. exists (d_sid x). split; [apply Hsids, Hx|exact Hk].
      - unfold in_case. rewrite Hk. apply N.eqb_refl. }
    destruct (Hin a ka Haf Hka) as [Hka1 Hka2]. destruct (Hin b kb Hbf Hkb) as [Hkb1 Hkb2].
    assert (Hfound : forall x k, In x f -> in_case sch pre c k x = true -> case_found sch pre c k f <> FNone).
    { intros x k Hx Hc. unfold case_found.
      assert (Hi : In x (filter (in_case sch pre c k) f)) by (apply filter_In; split; assumption).
      destruct (existsb d_new (filter (in_case sch pre c k) f)); [discriminate|].
      destruct (filter (in_case sch pre c k) f); [destruct Hi|discriminate]. }
    pose proof (Hfound a ka Haf Hka2) as Fa. pose proof (Hfound b kb Hbf Hkb2) as Fb.
    destruct (case_found sch pre c ka f) eqn:Ea; [contradiction| |]; destruct (case_found sch pre c kb f) eqn:Eb; try contradiction.
    - pose proof (Ho ka Hka1 Ea). pose proof (Ho kb Hkb1 Eb). congruence.
    - (* ka old, kb new: the nodes of ka were deleted *)
      pose proof (Ho ka Hka1 Ea) as Eo. pose proof (Hn kb Hkb1 Eb) as En. subst o n. inversion H; subst r. cbn [fst] in Ha.
      apply filter_In in Ha. destruct Ha as [_ Ha]. rewrite Hka2 in Ha. discriminate.
    - pose proof (Hn ka Hka1 Ea) as En. pose proof (Ho kb Hkb1 Eb) as Eo. subst o n. inversion H; subst r. cbn [fst] in Hb.
      apply filter_In in Hb. destruct Hb as [_ Hb]. rewrite Hkb2 in Hb. discriminate.
    - pose proof (Hn ka Hka1 Ea). pose proof (Hn kb Hkb1 Eb). congruence.
  Qed.
End ChoiceGen.

Lemma fold_res_mid {A S} (f : S -> A -> res S) (le : S -> S -> Prop) :
  (forall s, le s s) -> (forall a b c, le a b -> le b c -> le a c) ->
  (forall s x s', f s x = Ok s' -> le s' s) ->
  forall l c st r, In c l -> fold_res f l st = Ok r -> exists s1 s2, le s1 st /\ f s1 c = Ok s2 /\ le r s2.
Proof.
  intros Hrefl Htrans Hstep. induction l as [|x l IH]; intros c st r Hc H; [destruct Hc|]. cbn [fold_res] in H.
  apply bind_ok in H. destruct H as [s' [Hx H]].
  assert (Hrest : le r s').
  { clear -Hrefl Htrans Hstep H. revert s' H. induction l as [|y l IHl]; intros s' H; cbn [fold_res] in H.
    - inversion H; subst. apply Hrefl.
    - apply bind_ok in H. destruct H as [s'' [Hy H]]. apply (Htrans _ s'' _ (IHl _ H) (Hstep _ _ _ Hy)). }
  destruct Hc as [->|Hc].
  - exists st, s'. split; [apply Hrefl|split; [exact Hx|exact Hrest]].
  - destruct (IH c s' r Hc H) as [s1 [s2 [H1 [H2 H3]]]]. exists s1, s2. split; [apply (Htrans _ _ _ H1 (Hstep _ _ _ Hx))|split; assumption].
Qed.

Section ChoiceCases.
  Variable sch : schema.
  Variable path : list pstep.
  Variable p : option sid.

  Definition fle (s' s : forest * list change) : Prop := incl (fst s') (fst s).

  Lemma choice_r_fle fuel pre st r : choice_r fuel sch path p pre st = Ok r -> fle r st.
  Proof. intros H x Hx. apply (FiltOf_incl _ _ x (choice_r_form sch path p _ _ _ _ H) Hx). Qed.

  Lemma choice_r_nc : forall fuel l0 st r,
    choice_r fuel sch path p (map cc_of l0) st = Ok r ->
    (forall n, In n (fst st) -> In (d_sid n) (schildren sch p)) ->
    forall a b la ra lb rb, In a (fst r) -> In b (fst r) ->
    chainf sch (d_sid a) = la ++ ra -> chainf sch (d_sid b) = lb ++ rb ->
    map cc_of la = map cc_of l0 -> map cc_of lb = map cc_of l0 -> chain_conflict ra rb = false.
  Proof.
    induction fuel as [|fuel IH]; intros l0 st r H Hsids a b la ra lb rb Ha Hb Hca Hcb Hma Hmb; cbn [choice_r] in H; [discriminate|].
    destruct ra as [|xa ra]; [reflexivity|]. destruct rb as [|xb rb]; [reflexivity|]. cbn [chain_conflict].
    destruct (ch_id xa =? ch_id xb) eqn:Eid; [|reflexivity]. apply N.eqb_eq in Eid.
    assert (Hstep1 : forall s x s', bind (validate_cases sch path p (map cc_of l0) x (fst s)) (fun r0 =>
                       fold_res (fun st' k => choice_r fuel sch path p (map cc_of l0 ++ [(x, k)]) st')
                                (cases_of sch p (map cc_of l0) x) (fst r0, snd s ++ snd r0)) = Ok s' -> fle s' s).
    { intros s x s' Hx. apply bind_ok in Hx. destruct Hx as [a0 [Ha0 Hx]].
      apply validate_cases_form in Ha0.
      apply (fold_res_inv _ (fun t => fle t (fst a0, snd s ++ snd a0)) _) with (s := (fst a0, snd s ++ snd a0)) (r := s') in Hx.
      - intros y Hy. apply (FiltOf_incl _ _ y Ha0). apply Hx, Hy.
      - intros t k t' _ Ht Hk y Hy. apply Ht. apply (choice_r_fle _ _ _ _ Hk y Hy).
      - intros y Hy; exact Hy. }
    assert (Hrefl : forall s, fle s s) by (intros s y Hy; exact Hy).
    assert (Htrans : forall x y z, fle x y -> fle y z -> fle x z) by (intros x y z H1 H2 w Hw; apply H2, H1, Hw).
    assert (Hain : In a (fst st)) by (apply (choice_r_fle (S fuel) _ _ _ H a Ha)).
    assert (Hcin : In (ch_id xa) (choices_at sch p (map cc_of l0))).
    { rewrite <- Hma. apply (in_choices_at sch p (d_sid a) la xa ra (Hsids a Hain) Hca). }
    destruct (fold_res_mid _ fle Hrefl Htrans Hstep1 _ (ch_id xa) st r Hcin H) as [s1 [s2 [Hs1 [Hmid Hs2]]]].
    apply bind_ok in Hmid. destruct Hmid as [a0 [Ha0 Hmid]].
    assert (Hle2 : fle s2 (fst a0, snd s1 ++ snd a0)).
    { apply (fold_res_inv _ (fun t => fle t (fst a0, snd s1 ++ snd a0)) _) with (s := (fst a0, snd s1 ++ snd a0)) (r := s2) in Hmid;
        [exact Hmid| |apply Hrefl].
      intros t k t' _ Ht Hk y Hy. apply Ht. apply (choice_r_fle _ _ _ _ Hk y Hy). }
    assert (Ha0in : In a (fst a0)) by (apply Hle2, Hs2, Ha). assert (Hb0in : In b (fst a0)) by (apply Hle2, Hs2, Hb).
    assert (Hs1sids : forall n, In n (fst s1) -> In (d_sid n) (schildren sch p)) by (intros n Hn; apply Hsids, Hs1, Hn).
    assert (Eka : n_case sch (map cc_of l0) (ch_id xa) a = Some (ch_case xa)).
    { unfold n_case, s_case. rewrite Hca, <- Hma, next_chc_app, N.eqb_refl. reflexivity. }
    assert (Ekb : n_case sch (map cc_of l0) (ch_id xa) b = Some (ch_case xb)).
    { unfold n_case, s_case. rewrite Hcb, <- Hmb, next_chc_app, Eid, N.eqb_refl. reflexivity. }
    pose proof (validate_cases_one_case sch path p _ _ _ _ Ha0 Hs1sids a b Ha0in Hb0in _ _ Eka Ekb) as Ecase.
    rewrite Ecase, N.eqb_refl.
    (* into the common case *)
    assert (Hkin : In (ch_case xb) (cases_of sch p (map cc_of l0) (ch_id xa))).
    { rewrite <- Ecase, <- Hma. apply (in_cases_of sch p (d_sid a) la xa ra (Hsids a Hain) Hca). }
    assert (Hstep2 : forall t k t', choice_r fuel sch path p (map cc_of l0 ++ [(ch_id xa, k)]) t = Ok t' -> fle t' t)
      by (intros t k t' Hk; apply (choice_r_fle _ _ _ _ Hk)).
    destruct (fold_res_mid _ fle Hrefl Htrans Hstep2 _ (ch_case xb) _ s2 Hkin Hmid) as [t1 [t2 [Ht1 [Hk Ht2]]]].
    assert (Em : map cc_of l0 ++ [(ch_id xa, ch_case xb)] = map cc_of (l0 ++ [xa])).
    { assert (Ex : cc_of xa = (ch_id xa, ch_case xb)) by (unfold cc_of; rewrite Ecase; reflexivity).
      rewrite map_app. cbn [map]. rewrite Ex. reflexivity. }
    rewrite Em in Hk.
    apply (IH (l0 ++ [xa]) t1 t2 Hk) with (a := a) (b := b) (la := la ++ [xa]) (lb := lb ++ [xb]).
    - intros n Hn. apply Hs1sids. apply (FiltOf_incl _ _ n (validate_cases_form sch path p _ _ _ _ Ha0)). apply Ht1, Hn.
    - apply Ht2, Hs2, Ha.
    - apply Ht2, Hs2, Hb.
    - rewrite <- app_assoc. exact Hca.
    - rewrite <- app_assoc. exact Hcb.
    - rewrite !map_app, Hma. reflexivity.
    - assert (Ex : cc_of xb = cc_of xa) by (unfold cc_of; rewrite Eid, Ecase; reflexivity).
      rewrite !map_app, Hmb. cbn [map]. rewrite Ex. reflexivity.
  Qed.

  Lemma choice_r_cases_ok_gen st r :
    choice_r (cfuel sch) sch path p [] st = Ok r ->
    (forall n, In n (fst st) -> In (d_sid n) (schildren sch p)) -> cases_okb sch (fst r) = true.
  Proof.
    intros H Hs. unfold cases_okb. apply forallb_forall. intros a Ha. apply forallb_forall. intros b Hb.
    apply negb_true_iff.
    apply (choice_r_nc (cfuel sch) [] st r H Hs a b [] _ [] _ Ha Hb eq_refl eq_refl eq_refl eq_refl).
  Qed.
End ChoiceCases.

(* ------------------------------------------------------------------------------------------- *)
(* the node loop of lyd_validate_new in closed form                                              *)
(* ------------------------------------------------------------------------------------------- *)
Definition esids (l : forest) : list sid := map d_sid (filter expl l).

Definition lo_s (sch : schema) (es : list sid) (s : sid) : bool :=
  match stale_prefix (rev (chainf sch s)) with
  | None => false
  | Some rp => negb (existsb (fun t => chain_pre (map cc_of (rev rp)) (chainf sch t)) es)
  end.

Lemma case_leftover_es sch all n : case_leftover sch all n = lo_s sch (esids all) (d_sid n).
Proof.
  unfold case_leftover, lo_s. destruct (stale_prefix (rev (chainf sch (d_sid n)))) as [rp|]; [|reflexivity]. f_equal.
  unfold esids. induction all as [|x all IH]; cbn [existsb filter map]; [reflexivity|].
  unfold expl at 1. destruct (d_dflt x); cbn [negb map existsb]; rewrite IH; [rewrite andb_false_r|rewrite andb_true_r]; reflexivity.
Qed.

Definition purge (sch : schema) (L : forest) (s : sid) : bool :=
  has_default sch s && existsb (fun n => (d_sid n =? s) && d_new n) L.

Definition keep (sch : schema) (L : forest) (n : dnode) : bool :=
  negb (d_dflt n && (purge sch L (d_sid n) || lo_s sch (esids L) (d_sid n))).

Lemma keep_clr sch L n : keep sch L (clr_new n) = keep sch L n.
Proof. unfold keep. destruct (clr_new_fields n) as [E1 [_ [E3 _]]]. rewrite E1, E3. reflexivity. Qed.

Lemma esids_app a b : esids (a ++ b) = esids a ++ esids b.
Proof. unfold esids. rewrite filter_app, map_app. reflexivity. Qed.

Lemma filter_sub {A} (q q' : A -> bool) l : (forall x, In x l -> q x = true -> q' x = true) -> filter q (filter q' l) = filter q l.
Proof.
  intro H. induction l as [|x l IH]; cbn [filter]; [reflexivity|].
  assert (IH' := IH (fun y Hy => H y (or_intror Hy))).
  destruct (q' x) eqn:E'; cbn [filter]; [rewrite IH'; reflexivity|].
  destruct (q x) eqn:E; [rewrite (H x (or_introl eq_refl) E) in E'; discriminate|exact IH'].
Qed.

Lemma filter_remove_first {A} (q qr : A -> bool) l : (forall x, In x l -> qr x = true -> q x = false) -> filter q (remove_first qr l) = filter q l.
Proof.
  intro H. induction l as [|x l IH]; cbn [remove_first]; [reflexivity|].
  destruct (qr x) eqn:E; cbn [filter]; [rewrite (H x (or_introl eq_refl) E); reflexivity|].
  rewrite (IH (fun y Hy => H y (or_intror Hy))). reflexivity.
Qed.

Lemma esids_filter_dflt (q : dnode -> bool) l : (forall n, In n l -> q n = false -> d_dflt n = true) -> esids (filter q l) = esids l.
Proof.
  intro H. unfold esids. rewrite (filter_sub expl q l); [reflexivity|].
  intros x Hx He. destruct (q x) eqn:Eq; [reflexivity|]. unfold expl in He. rewrite (H x Hx Eq) in He. discriminate.
Qed.

Lemma esids_remove_first_dflt (q : dnode -> bool) l : (forall n, In n l -> q n = true -> d_dflt n = true) -> esids (remove_first q l) = esids l.
Proof.
  intro H. unfold esids. rewrite (filter_remove_first expl q l); [reflexivity|].
  intros x Hx Eq. unfold expl. rewrite (H x Hx Eq). reflexivity.
Qed.

Lemma esids_clr n : esids [clr_new n] = esids [n].
Proof. unfold esids. cbn [filter]. unfold expl. rewrite clr_new_expl. destruct (d_dflt n); cbn [negb map]; [reflexivity|]. destruct (clr_new_fields n) as [E1 _]. rewrite E1. reflexivity. Qed.


Section LoopForm.
  Variable sch : schema.
  Variable path : list pstep.
  Variable L : forest.
  Hypothesis H1 : forall n, In n L -> d_new n = true -> d_dflt n = false.

  Let target : forest := map clr_new (filter (keep sch L) L).

  (* wit = where a not yet visited new instance of a purged schema node may still be *)
  Record LInv (bef all wit : forest) (last : option sid) : Prop := {
    l_keep : map clr_new (filter (keep sch L) all) = target;
    l_bef : forall n, In n bef -> d_new n = false /\ (d_dflt n = true -> lo_s sch (esids L) (d_sid n) = false);
    l_purge : forall s, purge sch L s = true ->
              (exists n, In n wit /\ d_sid n = s /\ d_new n = true) \/ (forall n, In n all -> is_dflt_of s n = false);
    l_last : forall s, last = Some s -> forall n, In n all -> is_dflt_of s n = false;
    l_es : esids all = esids L
  }.

  Lemma purge_of_new n : In n L -> d_new n = true -> has_default sch (d_sid n) = true -> purge sch L (d_sid n) = true.
  Proof.
    intros Hn Hnew Hd. unfold purge. rewrite Hd. cbn [andb]. apply existsb_exists. exists n. split; [exact Hn|].
    rewrite N.eqb_refl, Hnew. reflexivity.
  Qed.

  Lemma keep_false_purged n : d_dflt n = true -> purge sch L (d_sid n) = true -> keep sch L n = false.
  Proof. intros Hd Hp. unfold keep. rewrite Hd, Hp. reflexivity. Qed.

  (* the final step *)
  Lemma LInv_done bef last : LInv bef bef [] last -> bef = target.
  Proof.
    intros [Hk Hb Hp _ _].
    assert (E1 : filter (keep sch L) bef = bef).
    { apply filter_id. intros n Hn. unfold keep. destruct (d_dflt n) eqn:Ed; [|reflexivity]. cbn [andb].
      destruct (Hb n Hn) as [_ Hlo]. rewrite (Hlo Ed), orb_false_r.
      destruct (purge sch L (d_sid n)) eqn:Ep; [exfalso|reflexivity].
      destruct (Hp _ Ep) as [[x [[] _]]|Hno]. specialize (Hno n Hn). unfold is_dflt_of in Hno. rewrite N.eqb_refl, Ed in Hno. discriminate. }
    assert (E2 : map clr_new bef = bef).
    { clear -Hb. induction bef as [|n l IH]; cbn [map]; [reflexivity|].
      rewrite (clr_new_id n (proj1 (Hb n (or_introl eq_refl)))), IH; [reflexivity|]. intros x Hx. apply Hb. right. exact Hx. }
    rewrite <- Hk, E1, E2. reflexivity.
  Qed.

  Lemma vnew_loop_form : forall fuel bef aft last acc r,
    LInv bef (bef ++ aft) aft last -> (forall n, In n aft -> In n L) ->
    vnew_loop fuel sch path bef aft last acc = Ok r -> fst r = target.
  Proof.
    induction fuel as [|fuel IH]; intros bef aft last acc r HI Haft H; cbn [vnew_loop] in H; [discriminate|].
    destruct aft as [|cur rest].
    - inversion H; subst. cbn [fst]. rewrite app_nil_r in HI. apply (LInv_done bef last HI).
    - assert (HcurL : In cur L) by (apply Haft; left; reflexivity).
      assert (HrestL : forall n, In n rest -> In n L) by (intros n Hn; apply Haft; right; exact Hn).
      destruct (d_new cur || d_dflt cur) eqn:End; cbn [negb] in H.
      2: { (* neither new nor default: just step over it *)
        apply orb_false_iff in End. destruct End as [En Ed].
        apply (IH _ _ _ _ _) in H; [exact H| |exact HrestL].
        destruct HI as [Hk Hb Hp Hl He]. rewrite <- app_assoc. cbn [app]. constructor; try assumption.
        - intros n Hn. apply in_app_or in Hn. destruct Hn as [Hn|[<-|[]]]; [apply Hb, Hn|]. split; [exact En|]. rewrite Ed. discriminate.
        - intros s Hs. destruct (Hp s Hs) as [[x [[<-|Hx] [Hxs Hxn]]]|Hno]; [congruence|left; exists x; repeat split; assumption|right; exact Hno]. }
      (* the state after the auto-deletion of superseded defaults *)
      set (s := d_sid cur) in *.
      set (try := has_default sch s && negb (opt_is last s) && d_new cur) in *.
      match type of H with context [match ?X with _ => _ end] =>
        match X with (if _ then _ else _) => set (T := X) in * end end.
      assert (Hmid : exists bef1 rest1 dels,
                 T = (bef1, false, rest1, dels) /\
                 LInv bef1 (bef1 ++ cur :: rest1) rest1 (if try then Some s else last) /\
                 (forall n, In n rest1 -> In n L)).
      { unfold T. destruct try eqn:Et.
        - (* a new node of a schema node with a default: the default instances go *)
          unfold try in Et. apply andb_true_iff in Et. destruct Et as [Et Hcn]. apply andb_true_iff in Et. destruct Et as [Hhd _].
          pose proof (H1 cur HcurL Hcn) as Hce.
          pose proof (purge_of_new cur HcurL Hcn Hhd) as Hps. fold s in Hps.
          unfold autodel_dflt. fold s.
          assert (Ex : existsb (is_expl_of s) (bef ++ cur :: rest) = true).
          { apply existsb_exists. exists cur. split; [apply in_or_app; right; left; reflexivity|].
            unfold is_expl_of, s. rewrite N.eqb_refl, Hce. reflexivity. }
          rewrite Ex. unfold is_dflt_of at 2. rewrite Hce, andb_false_r.
          eexists _, _, _. split; [reflexivity|].
          set (q := fun n => negb (is_dflt_of s n)).
          assert (Eall : filter q (bef ++ cur :: rest) = filter q bef ++ cur :: filter q rest).
          { rewrite filter_app. cbn [filter]. unfold q at 2, is_dflt_of. rewrite Hce, andb_false_r. reflexivity. }
          destruct HI as [Hk Hb Hp Hl He]. split; [|intros n Hn; apply filter_In in Hn; apply HrestL, Hn].
          rewrite <- Eall. constructor.
          + rewrite filter_sub; [exact Hk|]. intros x Hx Hkx. unfold q. apply negb_true_iff.
            destruct (is_dflt_of s x) eqn:Ex0; [exfalso|reflexivity]. unfold is_dflt_of in Ex0. apply andb_true_iff in Ex0.
            destruct Ex0 as [Es Ed]. apply N.eqb_eq in Es. rewrite keep_false_purged in Hkx; [discriminate|exact Ed|rewrite Es; exact Hps].
          + intros n Hn. apply filter_In in Hn. apply Hb, Hn.
          + intros t Ht. destruct (N.eq_dec t s) as [->|Hne].
            * right. intros n Hn. apply filter_In in Hn. destruct Hn as [_ Hn]. unfold q in Hn. apply negb_true_iff in Hn. exact Hn.
            * destruct (Hp t Ht) as [[x [[<-|Hx] [Hxs Hxn]]]|Hno]; [unfold s in Hne; congruence| |right; intros n Hn; apply filter_In in Hn; apply Hno, Hn].
              left. exists x. split; [|split; assumption]. apply filter_In. split; [exact Hx|].
              unfold q, is_dflt_of. rewrite (H1 x (HrestL x Hx) Hxn), andb_false_r. reflexivity.
          + intros t Et n Hn. inversion Et; subst t. apply filter_In in Hn. destruct Hn as [_ Hn]. unfold q in Hn. apply negb_true_iff in Hn. exact Hn.
          + rewrite esids_filter_dflt; [exact He|]. intros n _ Hq. unfold q in Hq. apply negb_false_iff in Hq.
            unfold is_dflt_of in Hq. apply andb_true_iff in Hq. apply Hq.
        - exists bef, rest, []. split; [reflexivity|]. split; [|exact HrestL].
          destruct HI as [Hk Hb Hp Hl He]. constructor; try assumption.
          intros t Ht. destruct (Hp t Ht) as [[x [[<-|Hx] [Hxs Hxn]]]|Hno]; [|left; exists x; repeat split; assumption|right; exact Hno].
          (* cur is the new instance: its defaults were purged when last was set *)
          right. unfold try in Et. fold s in Hxs. subst t.
          assert (Hhd : has_default sch s = true) by (unfold purge in Ht; apply andb_true_iff in Ht; apply Ht).
          rewrite Hhd, Hxn, andb_true_r in Et. cbn [andb] in Et. apply negb_false_iff in Et.
          unfold opt_is in Et. destruct last as [t|]; [|discriminate]. apply N.eqb_eq in Et. subst t. apply (Hl s eq_refl). }
      destruct Hmid as [bef1 [rest1 [dels [Ea [HM HrestL1]]]]].
      set (last' := if try then Some s else last) in *.
      rewrite Ea in H.
      destruct (d_new cur && negb (dup_inst sch s) && existsb (same_inst sch cur) (bef1 ++ rest1)); [discriminate|].
      destruct HM as [Hk Hb Hp Hl He].
      assert (Elo : case_leftover sch (bef1 ++ clr_new cur :: rest1) (clr_new cur) = lo_s sch (esids L) s).
      { rewrite case_leftover_es. destruct (clr_new_fields cur) as [E1 _]. rewrite E1. fold s. f_equal.
        rewrite <- He, !esids_app. f_equal. change (clr_new cur :: rest1) with ([clr_new cur] ++ rest1).
        change (cur :: rest1) with ([cur] ++ rest1). rewrite !esids_app, esids_clr. reflexivity. }
      rewrite Elo, clr_new_expl in H.
      destruct (d_dflt cur && lo_s sch (esids L) s) eqn:Edel.
      + (* left over: deleted *)
        apply andb_true_iff in Edel. destruct Edel as [Ed Elos].
        assert (Hcn : d_new cur = false).
        { destruct (d_new cur) eqn:E; [|reflexivity]. rewrite (H1 cur HcurL E) in Ed. discriminate. }
        apply (IH _ _ _ _ _) in H; [exact H| |exact HrestL1].
        constructor.
        * assert (Ekc : keep sch L cur = false) by (unfold keep; fold s; rewrite Ed, Elos, orb_true_r; reflexivity).
          rewrite <- Hk. rewrite !filter_app. cbn [filter]. rewrite Ekc. reflexivity.
        * exact Hb.
        * intros t Ht. destruct (Hp t Ht) as [Hw|Hno]; [left; exact Hw|right].
          intros n Hn. apply Hno. apply in_app_or in Hn. apply in_or_app. destruct Hn as [Hn|Hn]; [left; exact Hn|right; right; exact Hn].
        * intros t Et n Hn. apply (Hl t Et). apply in_app_or in Hn. apply in_or_app. destruct Hn as [Hn|Hn]; [left; exact Hn|right; right; exact Hn].
        * rewrite <- He, !esids_app. f_equal. change (cur :: rest1) with ([cur] ++ rest1). rewrite esids_app.
          unfold esids at 2. cbn [filter]. unfold expl. rewrite Ed. reflexivity.
      + (* kept, LYD_NEW cleared *)
        apply (IH _ _ _ _ _) in H; [exact H| |exact HrestL1].
        rewrite <- app_assoc. cbn [app].
        assert (Hfields := clr_new_fields cur). destruct Hfields as [F1 [_ [F3 _]]].
        constructor.
        * rewrite <- Hk. rewrite !filter_app, !map_app. f_equal. cbn [filter]. rewrite keep_clr.
          destruct (keep sch L cur); cbn [map]; [rewrite clr_new_idem|]; reflexivity.
        * intros n Hn. apply in_app_or in Hn. destruct Hn as [Hn|[<-|[]]]; [apply Hb, Hn|].
          split; [apply clr_new_not_new|]. rewrite F3, F1. fold s. intro Ed. rewrite Ed in Edel. cbn [andb] in Edel. exact Edel.
        * intros t Ht. destruct (Hp t Ht) as [Hw|Hno]; [left; exact Hw|right].
          intros n Hn. apply in_app_or in Hn. destruct Hn as [Hn|[<-|Hn]].
          -- apply Hno. apply in_or_app. left. exact Hn.
          -- unfold is_dflt_of. rewrite F1, F3. apply (Hno cur). apply in_or_app. right. left. reflexivity.
          -- apply Hno. apply in_or_app. right. right. exact Hn.
        * intros t Et n Hn. apply in_app_or in Hn. destruct Hn as [Hn|[<-|Hn]].
          -- apply (Hl t Et). apply in_or_app. left. exact Hn.
          -- unfold is_dflt_of. rewrite F1, F3. apply (Hl t Et cur). apply in_or_app. right. left. reflexivity.
          -- apply (Hl t Et). apply in_or_app. right. right. exact Hn.
        * rewrite <- He, !esids_app. f_equal. change (clr_new cur :: rest1) with ([clr_new cur] ++ rest1).
          change (cur :: rest1) with ([cur] ++ rest1). rewrite !esids_app, esids_clr. reflexivity.
  Qed.
End LoopForm.

(* ------------------------------------------------------------------------------------------- *)
(* lyd_validate_new in closed form                                                               *)
(* ------------------------------------------------------------------------------------------- *)
Lemma vnew_form sch path p f r :
  (forall n, In n f -> d_new n = true -> d_dflt n = false) ->
  (forall n, In n f -> In (d_sid n) (schildren sch p)) ->
  vnew sch path p f = Ok r ->
  exists F, FiltOf f F /\ cases_okb sch F = true /\ fst r = map clr_new (filter (keep sch F) F).
Proof.
  intros H1 Hs H. unfold vnew in H. apply bind_ok in H. destruct H as [st [Hc H]].
  exists (fst st). split; [apply (choice_r_form sch path p _ _ _ _ Hc)|].
  split; [apply (choice_r_cases_ok_gen sch path p (f, []) st Hc Hs)|].
  assert (H1' : forall n, In n (fst st) -> d_new n = true -> d_dflt n = false).
  { intros n Hn. apply H1. apply (FiltOf_incl _ _ n (choice_r_form sch path p _ _ _ _ Hc) Hn). }
  refine (vnew_loop_form sch path (fst st) H1' _ [] (fst st) None (snd st) r _ (fun n Hn => Hn) H).
  constructor.
  - reflexivity.
  - intros n [].
  - intros s Hp. left. unfold purge in Hp. apply andb_true_iff in Hp. destruct Hp as [_ Hp].
    apply existsb_exists in Hp. destruct Hp as [n [Hn Hq]]. apply andb_true_iff in Hq. destruct Hq as [Hq1 Hq2].
    apply N.eqb_eq in Hq1. exists n. repeat split; assumption.
  - intros s Hs0. discriminate.
  - reflexivity.
Qed.

(* ------------------------------------------------------------------------------------------- *)
(* a node that is not left over is in use (given consistent cases)                               *)
(* ------------------------------------------------------------------------------------------- *)
Lemma stale_prefix_none r : stale_prefix r = None -> forall x, In x r -> ch_dflt x = true.
Proof.
  induction r as [|y r IH]; intros H x Hx; [destruct Hx|]. cbn [stale_prefix] in H.
  destruct (ch_dflt y) eqn:Ey; [|discriminate]. destruct Hx as [<-|Hx]; [exact Ey|apply (IH H x Hx)].
Qed.

Lemma stale_prefix_some2 r : forall rp, stale_prefix r = Some rp ->
  exists r1 x r', r = r1 ++ rp /\ rp = x :: r' /\ ch_dflt x = false /\ forall y, In y r1 -> ch_dflt y = true.
Proof.
  induction r as [|y r IH]; intros rp H; cbn [stale_prefix] in H; [discriminate|].
  destruct (ch_dflt y) eqn:Ey.
  - destruct (IH rp H) as [r1 [x [r' [E1 [E2 [E3 E4]]]]]]. exists (y :: r1), x, r'. subst r. repeat split; try assumption.
    intros z [<-|Hz]; [exact Ey|apply E4, Hz].
  - inversion H; subst rp. exists [], y, r. repeat split; [exact Ey|intros z []].
Qed.

Lemma active_from_levels sch g : forall l pre,
  (forall la x lb, l = la ++ x :: lb -> level_cond sch g (pre ++ map cc_of la) x = true) -> active_from sch g pre l = true.
Proof.
  induction l as [|x l IH]; intros pre H; cbn [active_from]; [reflexivity|].
  apply andb_true_iff. split.
  - pose proof (H [] x l eq_refl) as H0. cbn [map] in H0. rewrite app_nil_r in H0. exact H0.
  - apply IH. intros la y lb E. pose proof (H (x :: la) y lb) as H0. cbn [map app] in H0. rewrite <- app_assoc. cbn [app].
    apply H0. rewrite E. reflexivity.
Qed.

Section NotLeftover.
  Variable sch : schema.
  Hypothesis Hk : chc_okb sch = true.

  (* a default case on the chain of a sibling: in use as soon as the cases of the siblings do not conflict *)
  Lemma dflt_level_cond g n la x lb : cases_okb sch g = true -> In n g ->
    chainf sch (d_sid n) = la ++ x :: lb -> ch_dflt x = true -> level_cond sch g (map cc_of la) x = true.
  Proof.
    intros Hc Hn Hch Hd. unfold level_cond. rewrite Hd. cbn [andb].
    destruct (existsb (fun m => expl m && in_choice sch (map cc_of la) (ch_id x) m) g) eqn:Ee; [|apply orb_true_r].
    apply orb_true_iff. left. apply existsb_exists in Ee. destruct Ee as [m [Hm Hq]]. apply andb_true_iff in Hq. destruct Hq as [He Hic].
    apply existsb_exists. exists m. split; [exact Hm|]. rewrite He. cbn [andb].
    unfold in_choice in Hic. destruct (n_case sch (map cc_of la) (ch_id x) m) as [k'|] eqn:Ek; [|discriminate].
    unfold in_case. rewrite Ek.
    (* m and n do not conflict *)
    unfold n_case, s_case in Ek. destruct (next_chc (map cc_of la) (chainf sch (d_sid m))) as [y|] eqn:En; [|discriminate].
    destruct (ch_id y =? ch_id x) eqn:Ei; [|discriminate]. apply N.eqb_eq in Ei. inversion Ek; subst k'.
    destruct (next_chc_some _ _ _ En) as [ma [mb [Hml Hmp]]].
    unfold cases_okb in Hc. rewrite forallb_forall in Hc. specialize (Hc m Hm). rewrite forallb_forall in Hc. specialize (Hc n Hn).
    apply negb_true_iff in Hc. rewrite Hml, Hch, (chain_conflict_split ma la y x mb lb Hmp), Ei, N.eqb_refl in Hc.
    destruct (ch_case y =? ch_case x) eqn:Ec; [reflexivity|discriminate].
  Qed.

  Lemma not_leftover_active g n : cases_okb sch g = true -> In n g ->
    lo_s sch (esids g) (d_sid n) = false -> active sch g (d_sid n) = true.
  Proof.
    intros Hc Hn Hlo. unfold active. apply active_from_levels. intros la x lb El. cbn [app].
    destruct (ch_dflt x) eqn:Ed; [apply (dflt_level_cond g n la x lb Hc Hn El Ed)|].
    (* a case that is not a default case: it is at or above the one checked for an explicit node *)
    unfold lo_s in Hlo. destruct (stale_prefix (rev (chainf sch (d_sid n)))) as [rp|] eqn:Er.
    - destruct (stale_prefix_some2 _ _ Er) as [r1 [y [r' [E1 [E2 [E3 E4]]]]]].
      assert (Ech : chainf sch (d_sid n) = rev r' ++ y :: rev r1).
      { rewrite <- (rev_involutive (chainf sch (d_sid n))), E1, E2, rev_app_distr. cbn [rev]. rewrite <- app_assoc. reflexivity. }
      (* x is not in the default tail rev r1 *)
      assert (Hpos : exists t, rev r' ++ [y] = la ++ x :: t).
      { rewrite El in Ech. clear -Ech Ed E4. revert Ech. generalize (rev r') as u. revert la.
        assert (E4' : forall z, In z (rev r1) -> ch_dflt z = true) by (intros z Hz; apply E4; apply in_rev; exact Hz).
        clear E4. generalize dependent (rev r1). intros w E4'.
        induction la as [|a la IH]; intros u Ech.
        - destruct u as [|b u]; cbn [app] in Ech.
          + inversion Ech; subst. exists []. reflexivity.
          + inversion Ech; subst. exists (u ++ [y]). reflexivity.
        - destruct u as [|b u]; cbn [app] in Ech.
          + inversion Ech; subst. exfalso. assert (Hx : In x (la ++ x :: lb)) by (apply in_or_app; right; left; reflexivity).
            rewrite (E4' x Hx) in Ed. discriminate.
          + inversion Ech; subst. destruct (IH u H1) as [t Ht]. exists t. cbn [app]. rewrite Ht. reflexivity. }
      destruct Hpos as [t Ht].
      apply negb_false_iff in Hlo. apply existsb_exists in Hlo. destruct Hlo as [ms [Hms Hpre]].
      unfold esids in Hms. apply in_map_iff in Hms. destruct Hms as [m [<- Hm]]. apply filter_In in Hm. destruct Hm as [Hm He].
      unfold level_cond. apply orb_true_iff. left. apply existsb_exists. exists m. split; [exact Hm|]. rewrite He. cbn [andb].
      rewrite E2 in Hpre. cbn [rev] in Hpre. rewrite Ht in Hpre.
      (* the chain of m starts with la ++ [x] *)
      unfold in_case, n_case, s_case.
      assert (Hnx : exists x', next_chc (map cc_of la) (chainf sch (d_sid m)) = Some x' /\ cc_of x' = cc_of x).
      { clear -Hpre. revert Hpre. generalize (chainf sch (d_sid m)) as cm. induction la as [|a la IH]; intros cm Hpre; cbn [app map chain_pre] in Hpre.
        - destruct cm as [|c0 cm]; [discriminate|]. apply andb_true_iff in Hpre. destruct Hpre as [Hc0 _]. apply cc_eqb_eq in Hc0.
          exists c0. split; [reflexivity|symmetry; exact Hc0].
        - destruct cm as [|c0 cm]; [discriminate|]. apply andb_true_iff in Hpre. destruct Hpre as [Hc0 Hpre].
          destruct (IH cm Hpre) as [x' [Hn' Hc']]. exists x'. cbn [map next_chc]. rewrite Hc0. split; assumption. }
      destruct Hnx as [x' [Hn' Hc']]. rewrite Hn'. unfold cc_of in Hc'. inversion Hc' as [[Hi Hcs]]. rewrite Hi, N.eqb_refl, Hcs. apply N.eqb_refl.
    - pose proof (stale_prefix_none _ Er x) as Hall. rewrite Hall in Ed; [discriminate|]. apply -> in_rev. rewrite El. apply in_or_app. right. left. reflexivity.
  Qed.
End NotLeftover.

(* ------------------------------------------------------------------------------------------- *)
(* lyd_new_implicit on siblings whose default nodes are complete and in use                      *)
(* ------------------------------------------------------------------------------------------- *)
Lemma cases_okb_incl sch l l' : incl l' l -> cases_okb sch l = true -> cases_okb sch l' = true.
Proof.
  intros Hi H. unfold cases_okb in *. rewrite forallb_forall in H. apply forallb_forall. intros a Ha.
  specialize (H a (Hi a Ha)). rewrite forallb_forall in H. apply forallb_forall. intros b Hb. apply H, Hi, Hb.
Qed.

Lemma implicit_normal_form_gen sch path p g0 acc r :
  chc_okb sch = true -> cases_okb sch g0 = true ->
  (forall n, In n g0 -> d_new n = false) -> (forall n, In n g0 -> In (d_sid n) (schildren sch p)) ->
  (forall n, In n g0 -> d_dflt n = true -> active sch g0 (d_sid n) = true) ->
  (forall s, filter (is_dflt_of s) g0 = [] \/
             (has_sid (filter expl g0) s = false /\ has_default sch s = true /\ complete sch s (filter (is_dflt_of s) g0) = true)) ->
  implicit (cfuel sch) sch false path p [] (g0, acc) = Ok r ->
  norm_level sch p (fst r) = true /\ Inv sch p (filter expl g0) g0 (fst r).
Proof.
  intros Hk Hc Hn Hs Ha Hcomp H.
  set (E := filter expl g0).
  assert (HEc : cases_okb sch E = true) by (apply (cases_okb_incl sch g0); [intros x Hx; apply filter_In in Hx; apply Hx|exact Hc]).
  assert (HEn : forall n, In n E -> d_new n = false) by (intros n Hx; apply filter_In in Hx; apply Hn, Hx).
  assert (HEs : forall n, In n E -> In (d_sid n) (schildren sch p)) by (intros n Hx; apply filter_In in Hx; apply Hs, Hx).
  assert (HI0 : Inv sch p E g0 g0).
  { constructor; [reflexivity| |exact Hcomp].
    intros n Hx Hd. split; [apply Hs, Hx|]. split; [apply Ha; assumption|]. split; [apply Hn, Hx|left; exact Hx]. }
  destruct (implicit_inv sch path p E g0 Hk (cfuel sch) [] (g0, acc) r (fun x (Hx : In x []) => match Hx with end) HI0 eq_refl H) as [HI _].
  split; [|exact HI].
  apply (Inv_norm_level sch p E g0 Hk HEc HEn HEs); [exact HI|].
  intros s Hss Hd Hact.
  apply (implicit_complete sch path p E g0 Hk HEc (cfuel sch) [] (g0, acc) r s (chainf sch s)
           (fun x (Hx : In x []) => match Hx with end) HI0 eq_refl H Hss eq_refl); [|exact Hd].
  unfold active in Hact. rewrite (active_from_Inv sch p E g0 (fst r) HI) in Hact. exact Hact.
Qed.

(* ------------------------------------------------------------------------------------------- *)
(* edited siblings: new nodes are explicit; the (old) default instances of a schema node are complete and no old       *)
(* explicit instance stands beside them                                                                               *)
(* ------------------------------------------------------------------------------------------- *)
Lemma complete_has_default sch s D : complete sch s D = true -> has_default sch s = true.
Proof.
  unfold complete, has_default. destruct (kind_of sch s) as [[|]| | | |]; try discriminate; try reflexivity;
    destruct (si_dflts (sget sch s)); try discriminate; reflexivity.
Qed.

Lemma map_clr_old l : (forall n, In n l -> d_new n = false) -> map clr_new l = l.
Proof.
  induction l as [|n l IH]; intro H; cbn [map]; [reflexivity|].
  rewrite (clr_new_id n (H n (or_introl eq_refl))), IH; [reflexivity|]. intros x Hx. apply H. right. exact Hx.
Qed.

Lemma filter_map_clr (q : dnode -> bool) l : (forall n, q (clr_new n) = q n) -> filter q (map clr_new l) = map clr_new (filter q l).
Proof.
  intro Hq. induction l as [|n l IH]; cbn [map filter]; [reflexivity|]. rewrite Hq. destruct (q n); cbn [map]; rewrite IH; reflexivity.
Qed.

Lemma esids_map_clr l : esids (map clr_new l) = esids l.
Proof.
  unfold esids. rewrite filter_map_clr by (intro n; unfold expl; rewrite clr_new_expl; reflexivity).
  rewrite map_map. apply map_ext. intro n. apply (clr_new_fields n).
Qed.

Lemma filter_none {A} (q : A -> bool) l : (forall x, In x l -> q x = false) -> filter q l = [].
Proof.
  induction l as [|x l IH]; intro H; cbn [filter]; [reflexivity|]. rewrite (H x (or_introl eq_refl)). apply IH. intros y Hy. apply H. right. exact Hy.
Qed.

Section VnewP.
  Variable sch : schema.
  Variable path : list pstep.
  Variable p : option sid.
  Hypothesis Hk : chc_okb sch = true.

  Lemma vnew_P f r : edited_lvl sch p f = true -> vnew sch path p f = Ok r ->
    let g0 := fst r in
    cases_okb sch g0 = true /\
    (forall n, In n g0 -> d_new n = false) /\ (forall n, In n g0 -> In (d_sid n) (schildren sch p)) /\
    (forall n, In n g0 -> d_dflt n = true -> active sch g0 (d_sid n) = true) /\
    (forall s, filter (is_dflt_of s) g0 = [] \/
               (has_sid (filter expl g0) s = false /\ has_default sch s = true /\ complete sch s (filter (is_dflt_of s) g0) = true)) /\
    (exists F, FiltOf f F /\ g0 = map clr_new (filter (keep sch F) F)).
  Proof.
    intros He H. unfold edited_lvl in He. apply andb_true_iff in He. destruct He as [He E3]. apply andb_true_iff in He. destruct He as [E1 E2].
    rewrite forallb_forall in E1, E2, E3.
    assert (H1 : forall n, In n f -> d_new n = true -> d_dflt n = false).
    { intros n Hn Hnew. specialize (E1 n Hn). rewrite Hnew in E1. cbn [andb] in E1. apply negb_true_iff. exact E1. }
    assert (Hsids : forall n, In n f -> In (d_sid n) (schildren sch p)).
    { intros n Hn. specialize (E2 n Hn). apply existsb_exists in E2. destruct E2 as [s [Hs Es]]. apply N.eqb_eq in Es. subst s. exact Hs. }
    destruct (vnew_form sch path p f r H1 Hsids H) as [F [HF [HcF Hr]]]. cbv zeta. rewrite Hr.
    set (K := filter (keep sch F) F).
    assert (HKF : incl K F) by (intros x Hx; apply filter_In in Hx; apply Hx).
    assert (HFf : incl F f) by (intros x Hx; apply (FiltOf_incl _ _ x HF Hx)).
    assert (Hin : forall n, In n (map clr_new K) -> exists n0, In n0 K /\ n = clr_new n0).
    { intros n Hn. apply in_map_iff in Hn. destruct Hn as [n0 [E Hn0]]. exists n0. split; [exact Hn0|symmetry; exact E]. }
    assert (HcK : cases_okb sch (map clr_new K) = true).
    { rewrite cases_okb_map_clr. apply (cases_okb_incl sch F K HKF HcF). }
    assert (Hes : esids (map clr_new K) = esids F).
    { rewrite esids_map_clr. unfold K. apply esids_filter_dflt. intros n _ Hq. unfold keep in Hq. apply negb_false_iff in Hq.
      apply andb_true_iff in Hq. apply Hq. }
    split; [exact HcK|]. split; [|split; [|split; [|split]]].
    - intros n Hn. destruct (Hin n Hn) as [n0 [_ ->]]. apply clr_new_not_new.
    - intros n Hn. destruct (Hin n Hn) as [n0 [Hn0 ->]]. destruct (clr_new_fields n0) as [E _]. rewrite E. apply Hsids, HFf, HKF, Hn0.
    - (* a default node that was kept is in use *)
      intros n Hn Hd. apply (not_leftover_active sch _ n HcK Hn). rewrite Hes.
      destruct (Hin n Hn) as [n0 [Hn0 ->]]. destruct (clr_new_fields n0) as [F1 [_ [F3 _]]]. rewrite F1. rewrite F3 in Hd.
      apply filter_In in Hn0. destruct Hn0 as [_ Hkeep]. unfold keep in Hkeep. rewrite Hd in Hkeep. cbn [andb] in Hkeep.
      apply negb_true_iff in Hkeep. apply orb_false_iff in Hkeep. apply Hkeep.
    - (* the default instances of s *)
      intro s.
      assert (ED : filter (is_dflt_of s) (map clr_new K) = map clr_new (filter (fun n => is_dflt_of s n && keep sch F n) F)).
      { rewrite filter_map_clr by (intro n; unfold is_dflt_of; destruct (clr_new_fields n) as [F1 [_ [F3 _]]]; rewrite F1, F3; reflexivity).
        unfold K. rewrite filter_filter. f_equal. apply filter_ext. intro n. apply andb_comm. }
      set (ks := negb (purge sch F s || lo_s sch (esids F) s)).
      assert (EDk : filter (fun n => is_dflt_of s n && keep sch F n) F = if ks then filter (is_dflt_of s) F else []).
      { destruct ks eqn:Eks.
        - apply filter_ext_in. intros n _. unfold is_dflt_of. destruct (d_sid n =? s) eqn:Es; [|reflexivity].
          destruct (d_dflt n) eqn:Ed; [|reflexivity]. cbn [andb]. unfold keep. rewrite Ed. apply N.eqb_eq in Es. rewrite Es. exact Eks.
        - assert (Hnone : forall n, In n F -> (is_dflt_of s n && keep sch F n) = false).
          { intros n _. unfold is_dflt_of. destruct (d_sid n =? s) eqn:Es; [|reflexivity].
            destruct (d_dflt n) eqn:Ed; [|reflexivity]. cbn [andb]. unfold keep. rewrite Ed. apply N.eqb_eq in Es. rewrite Es. exact Eks. }
          apply filter_none. exact Hnone. }
      rewrite ED, EDk. destruct ks eqn:Eks; [|left; reflexivity].
      destruct (filter (is_dflt_of s) F) as [|d0 DF] eqn:EDF; [left; reflexivity|]. right.
      (* all instances of s pass the case filter *)
      destruct HF as [q [EF [Hqn Hqa]]].
      assert (Hd0 : In d0 F /\ is_dflt_of s d0 = true).
      { assert (Hx : In d0 (filter (is_dflt_of s) F)) by (rewrite EDF; left; reflexivity). apply filter_In in Hx. exact Hx. }
      destruct Hd0 as [Hd0F Hd0s]. unfold is_dflt_of in Hd0s. apply andb_true_iff in Hd0s. destruct Hd0s as [Hd0sid Hd0d]. apply N.eqb_eq in Hd0sid.
      assert (Hqs : q s = true).
      { rewrite EF in Hd0F. apply filter_In in Hd0F. rewrite <- Hd0sid. apply Hd0F. }
      assert (EDf : filter (is_dflt_of s) F = filter (is_dflt_of s) f).
      { rewrite EF, filter_filter. apply filter_ext_in. intros n _. unfold is_dflt_of. destruct (d_sid n =? s) eqn:Es; [|apply andb_false_r].
        apply N.eqb_eq in Es. rewrite Es, Hqs. reflexivity. }
      assert (Hss : In s (schildren sch p)) by (rewrite <- Hd0sid; apply Hsids, HFf, Hd0F).
      specialize (E3 s Hss). cbv zeta in E3. rewrite <- EDf, EDF in E3. cbn [is_nil orb] in E3.
      apply andb_true_iff in E3. destruct E3 as [Hcomp Hnoold]. apply is_nil_true in Hnoold.
      assert (Hdold : forall n, In n (d0 :: DF) -> d_new n = false).
      { intros n Hn. rewrite <- EDF in Hn. apply filter_In in Hn. destruct Hn as [HnF Hq]. unfold is_dflt_of in Hq. apply andb_true_iff in Hq.
        destruct Hq as [_ Hq]. destruct (d_new n) eqn:En; [|reflexivity]. rewrite (H1 n (HFf n HnF) En) in Hq. discriminate. }
      rewrite (map_clr_old _ Hdold).
      pose proof (complete_has_default sch s _ Hcomp) as Hhd.
      split; [|split; [exact Hhd|exact Hcomp]].
      (* no explicit instance: an old one is excluded by the hypothesis, a new one would have purged the defaults *)
      unfold has_sid. apply existsb_false_forall. intros n Hn. apply filter_In in Hn. destruct Hn as [Hn Hex].
      destruct (Hin n Hn) as [n0 [Hn0 ->]]. destruct (clr_new_fields n0) as [F1 [_ [F3 _]]]. rewrite F1.
      unfold expl in Hex. rewrite F3 in Hex. apply negb_true_iff in Hex.
      destruct (d_sid n0 =? s) eqn:Es; [exfalso|reflexivity].
      pose proof (HKF n0 Hn0) as Hn0F.
      destruct (d_new n0) eqn:En.
      + apply negb_true_iff in Eks. apply orb_false_iff in Eks. destruct Eks as [Ep _].
        unfold purge in Ep. rewrite Hhd in Ep. cbn [andb] in Ep. rewrite existsb_false_forall in Ep. specialize (Ep n0 Hn0F).
        rewrite Es, En in Ep. discriminate.
      + assert (Hx : In n0 (filter (fun n => is_expl_of s n && negb (d_new n)) f)).
        { apply filter_In. split; [apply HFf, Hn0F|]. unfold is_expl_of. rewrite Es, Hex, En. reflexivity. }
        rewrite Hnoold in Hx. exact Hx.
    - exists F. split; [exact HF|reflexivity].
  Qed.
End VnewP.

(* ------------------------------------------------------------------------------------------- *)
(* edited trees: validation reaches the normal form                                              *)
(* ------------------------------------------------------------------------------------------- *)
Lemma edited_node_unfold sch s v d m ch :
  edited_node sch (DN s v d m ch) =
  (if is_np_cont sch s then Bool.eqb d (forallb d_dflt ch) else true) &&
  (if is_inner sch s then edited_lvl sch (Some s) ch else is_nil ch) && forallb (edited_node sch) ch.
Proof. reflexivity. Qed.

Lemma edited_lvl_nil sch p : edited_lvl sch p [] = true.
Proof. unfold edited_lvl. cbn [forallb filter is_nil orb andb]. apply forallb_forall. intros s _. reflexivity. Qed.

Lemma forallb_dflt_expl l : forallb d_dflt l = negb (existsb expl l).
Proof. induction l as [|x l IH]; cbn [forallb existsb]; [reflexivity|]. rewrite IH. unfold expl. destruct (d_dflt x); reflexivity. Qed.

Lemma existsb_filter {A} (q r : A -> bool) l : existsb q (filter r l) = existsb (fun x => r x && q x) l.
Proof. induction l as [|x l IH]; cbn [filter existsb]; [reflexivity|]. destruct (r x); cbn [existsb andb]; rewrite IH; reflexivity. Qed.

Lemma existsb_ext' {A} (q r : A -> bool) l : (forall x, q x = r x) -> existsb q l = existsb r l.
Proof. intro H. induction l as [|x l IH]; cbn [existsb]; [reflexivity|]. rewrite H, IH. reflexivity. Qed.

Lemma existsb_map_clr' (q : dnode -> bool) l : (forall n, q (clr_new n) = q n) -> existsb q (map clr_new l) = existsb q l.
Proof. intro H. induction l as [|x l IH]; cbn [map existsb]; [reflexivity|]. rewrite H, IH. reflexivity. Qed.

Section LevelEdited.
  Variable sch : schema.
  Hypothesis Hk : chc_okb sch = true.

  Lemma level_edited : forall fuel path p f r,
    edited_lvl sch p f = true -> forallb (edited_node sch) f = true ->
    level fuel true false sch path p f = Ok r ->
    norm_level sch p (fst r) = true /\ forallb (normal_node sch) (fst r) = true /\ existsb expl (fst r) = existsb expl f.
  Proof.
    induction fuel as [|fuel IH]; intros path p f r Hlvl Hnodes H; cbn [level] in H; [discriminate|].
    apply bind_ok in H. destruct H as [st1 [H1 H]]. apply bind_ok in H. destruct H as [st2 [H2 H]].
    destruct (vnew_P sch path p f st1 Hlvl H1) as [Hc [Hnn [Hs [Ha [Hcomp [F [HF Eg0]]]]]]].
    assert (Est1 : st1 = (fst st1, snd st1)) by (destruct st1; reflexivity). rewrite Est1 in H2.
    destruct (implicit_normal_form_gen sch path p (fst st1) (snd st1) st2 Hk Hc Hnn Hs Ha Hcomp H2) as [Hnl HI].
    destruct (descend_spec sch (level fuel true false sch) path (fst st2) (snd st2) r H) as [Hsh HF2].
    assert (Hexpl_sh : forall n, expl (sh sch n) = expl n).
    { intro n. destruct (sh_fields sch n) as [_ [_ [E3 _]]]. unfold expl. rewrite E3. reflexivity. }
    (* where the nodes come from *)
    assert (Horigin : forall n, In n (fst st2) ->
              (exists n0, In n0 f /\ n = clr_new n0) \/ (d_ch n = [] /\ d_dflt n = true)).
    { intros n Hn.
      assert (Hg0 : In n (fst st1) -> exists n0, In n0 f /\ n = clr_new n0).
      { intro Hx. rewrite Eg0 in Hx. apply in_map_iff in Hx. destruct Hx as [n0 [E Hn0]]. exists n0. split; [|symmetry; exact E].
        apply filter_In in Hn0. apply (FiltOf_incl _ _ n0 HF), Hn0. }
      destruct (d_dflt n) eqn:Ed.
      - destruct (i_dflt sch p _ _ (fst st2) HI n Hn Ed) as [_ [_ [_ [Hx|Hx]]]]; [left; apply Hg0, Hx|right; split; [exact Hx|reflexivity]].
      - left. apply Hg0. assert (Hx : In n (filter expl (fst st2))) by (apply filter_In; split; [exact Hn|unfold expl; rewrite Ed; reflexivity]).
        rewrite (i_expl sch p _ _ (fst st2) HI) in Hx. apply filter_In in Hx. apply Hx. }
    rewrite forallb_forall in Hnodes.
    split; [rewrite <- (norm_level_sh sch p (fst r)), Hsh, norm_level_sh; exact Hnl|]. split.
    - apply forallb_forall. intros n' Hn'.
      destruct (Forall2_In_r _ _ _ HF2 n' Hn') as [n [Hn Hrel]].
      destruct Hrel as [[Hi [c [Hcc ->]]]|[Hi ->]].
      + (* inner node *)
        destruct (Horigin n Hn) as [[n0 [Hn0 ->]]|[Hch Hd]].
        * pose proof (Hnodes n0 Hn0) as He0. destruct n0 as [s v d m ch]. cbn [clr_new set_ch d_sid d_ch] in *.
          rewrite edited_node_unfold, Hi in He0. apply andb_true_iff in He0. destruct He0 as [He0 He3].
          apply andb_true_iff in He0. destruct He0 as [He1 He2].
          destruct (IH _ _ _ _ He2 He3 Hcc) as [A [B C]].
          rewrite normal_node_unfold, Hi, A, B, !andb_true_r.
          destruct (is_np_cont sch s); [|reflexivity]. apply Bool.eqb_prop in He1. rewrite He1, !forallb_dflt_expl, C. apply Bool.eqb_reflx.
        * destruct n as [s v d m ch]. cbn [set_ch d_sid d_ch d_dflt] in *. subst ch d.
          destruct (IH _ _ _ _ (edited_lvl_nil sch (Some s)) eq_refl Hcc) as [A [B C]].
          rewrite normal_node_unfold, Hi, A, B, !andb_true_r.
          destruct (is_np_cont sch s); [|reflexivity]. rewrite forallb_dflt_expl, C. reflexivity.
      + (* terminal node: no children *)
        assert (Hch : d_ch n = []).
        { destruct (Horigin n Hn) as [[n0 [Hn0 ->]]|[Hch _]]; [|exact Hch].
          pose proof (Hnodes n0 Hn0) as He0. destruct n0 as [s v d m ch]. cbn [clr_new d_sid d_ch] in *.
          rewrite edited_node_unfold, Hi in He0. apply andb_true_iff in He0. destruct He0 as [He0 _].
          apply andb_true_iff in He0. destruct He0 as [_ He2]. apply is_nil_true. exact He2. }
        destruct n as [s v d m ch]. cbn [d_ch d_sid] in *. subst ch. rewrite normal_node_unfold, Hi. cbn [forallb].
        unfold is_inner in Hi. unfold is_np_cont. destruct (kind_of sch s) as [[|]| | | |]; try discriminate; reflexivity.
    - (* explicit nodes *)
      transitivity (existsb expl (fst st2)).
      { rewrite <- (existsb_map_sh sch expl (fst r) Hexpl_sh), <- (existsb_map_sh sch expl (fst st2) Hexpl_sh), Hsh. reflexivity. }
      assert (E1 : existsb expl (fst st2) = existsb expl (fst st1)).
      { transitivity (existsb (fun _ => true) (filter expl (fst st2))).
        - rewrite existsb_filter. apply existsb_ext'. intro x. rewrite andb_true_r. reflexivity.
        - rewrite (i_expl sch p _ _ (fst st2) HI), existsb_filter. apply existsb_ext'. intro x. rewrite andb_true_r. reflexivity. }
      rewrite E1, Eg0.
      assert (E2 : existsb expl (map clr_new (filter (keep sch F) F)) = existsb expl F).
      { rewrite existsb_map_clr' by (intro n; unfold expl; rewrite clr_new_expl; reflexivity).
        rewrite existsb_filter. apply existsb_ext'. intro x. unfold keep, expl. destruct (d_dflt x); cbn [andb negb]; [apply andb_false_r|reflexivity]. }
      rewrite E2. destruct HF as [q [EF [Hqn Hqa]]].
      destruct (existsb d_new f) eqn:Enew.
      + (* a new node: it is explicit and survives *)
        apply existsb_exists in Enew. destruct Enew as [x [Hx Hxn]].
        assert (Hxe : expl x = true).
        { unfold edited_lvl in Hlvl. apply andb_true_iff in Hlvl. destruct Hlvl as [Hl _]. apply andb_true_iff in Hl. destruct Hl as [Hl _].
          rewrite forallb_forall in Hl. specialize (Hl x Hx). rewrite Hxn in Hl. cbn [andb] in Hl. exact Hl. }
        assert (E3 : existsb expl f = true) by (apply existsb_exists; exists x; split; assumption).
        rewrite E3. apply existsb_exists. exists x. split; [|exact Hxe]. rewrite EF. apply filter_In. split; [exact Hx|apply Hqn; assumption].
      + rewrite existsb_false_forall in Enew. rewrite EF. f_equal. apply filter_id. intros x _. apply Hqa. exact Enew.
  Qed.
End LevelEdited.

Theorem validate_edited_normal sch f g d :
  chc_okb sch = true -> editedb sch f = true -> f <> [] -> validate_all sch f = Ok (g, d) -> normalb sch g = true.
Proof.
  intros Hk He Hne H. unfold editedb in He. apply andb_true_iff in He. destruct He as [He1 He2].
  unfold validate_all in H. destruct f as [|n0 f0]; [contradiction|].
  apply bind_ok in H. destruct H as [st [Hs H]]. apply bind_ok in H. destruct H as [gg [Hfin H]]. inversion H; subst gg d. clear H.
  destruct (level_edited sch Hk _ _ _ _ _ He1 He2 Hs) as [A [B _]].
  assert (Eg : g = fst st).
  { unfold final_forest in Hfin. apply bind_ok in Hfin. destruct Hfin as [u [_ Hfin]].
    apply (map_res_id (final_node sch)); [|exact Hfin].
    rewrite forallb_forall in B. apply Forall_forall. intros x Hx y Hy. apply (final_node_normal sch x y Hy (B x Hx)). }
  subst g. unfold normalb. rewrite A, B. reflexivity.
Qed.

(* freshly parsed canonical data are a special case *)
Lemma fresh_edited_node sch n : forall p, CanonN sch p n -> fresh_node sch n = true -> edited_node sch n = true /\ d_new n = true /\ d_dflt n = false.
Proof.
  induction n as [s v d m ch IH] using dnode_ind'. intros p Hc Hf.
  rewrite fresh_node_unfold in Hf. apply andb_true_iff in Hf. destruct Hf as [Hf Hf4]. apply andb_true_iff in Hf. destruct Hf as [Hf Hf3].
  apply andb_true_iff in Hf. destruct Hf as [Hf1 Hf2]. apply negb_true_iff in Hf2. subst d.
  split; [|split; [exact Hf1|reflexivity]].
  pose proof (CanonAt_children sch p _ Hc) as Hcc. cbn [d_sid d_ch] in Hcc.
  rewrite forallb_forall in Hf4. rewrite Forall_forall in IH.
  assert (Hch : forall x, In x ch -> edited_node sch x = true /\ d_new x = true /\ d_dflt x = false).
  { intros x Hx. apply (IH x Hx (Some s)); [apply (CanonAt_In sch (Some s) ch x Hcc Hx)|apply Hf4, Hx]. }
  rewrite edited_node_unfold. apply andb_true_iff. split; [apply andb_true_iff; split|].
  - destruct (is_np_cont sch s); [|reflexivity]. apply negb_true_iff in Hf3.
    destruct ch as [|c ch]; [discriminate|]. cbn [forallb]. destruct (Hch c (or_introl eq_refl)) as [_ [_ Hd]]. rewrite Hd. reflexivity.
  - destruct (is_inner sch s) eqn:Ei.
    + unfold edited_lvl. apply andb_true_iff. split; [apply andb_true_iff; split|].
      * apply forallb_forall. intros x Hx. destruct (Hch x Hx) as [_ [_ Hd]]. rewrite Hd, andb_false_r. reflexivity.
      * apply forallb_forall. intros x Hx. apply existsb_exists. exists (d_sid x). split; [|apply N.eqb_refl].
        apply (canon_sid sch (Some s) x). apply (CanonAt_In sch (Some s) ch x Hcc Hx).
      * apply forallb_forall. intros t _. cbv zeta. rewrite (filter_dflt_none ch t (fun x Hx => proj2 (proj2 (Hch x Hx)))). reflexivity.
    + apply (canon_term_nochild sch p (DN s v false m ch) Hc) in Ei. cbn [d_ch] in Ei. subst ch. reflexivity.
  - apply forallb_forall. intros x Hx. apply (Hch x Hx).
Qed.

Lemma fresh_edited sch f : Canon sch f -> freshb sch f = true -> editedb sch f = true.
Proof.
  intros Hc Hf. unfold freshb in Hf. rewrite forallb_forall in Hf.
  assert (Hch : forall x, In x f -> edited_node sch x = true /\ d_new x = true /\ d_dflt x = false).
  { intros x Hx. apply (fresh_edited_node sch x None); [apply (CanonAt_In sch None f x Hc Hx)|apply Hf, Hx]. }
  unfold editedb. apply andb_true_iff. split; [|apply forallb_forall; intros x Hx; apply (Hch x Hx)].
  unfold edited_lvl. apply andb_true_iff. split; [apply andb_true_iff; split|].
  - apply forallb_forall. intros x Hx. destruct (Hch x Hx) as [_ [_ Hd]]. rewrite Hd, andb_false_r. reflexivity.
  - apply forallb_forall. intros x Hx. apply existsb_exists. exists (d_sid x). split; [|apply N.eqb_refl].
    apply (canon_sid sch None x). apply (CanonAt_In sch None f x Hc Hx).
  - apply forallb_forall. intros t _. cbv zeta. rewrite (filter_dflt_none f t (fun x Hx => proj2 (proj2 (Hch x Hx)))). reflexivity.
Qed.

(* ------------------------------------------------------------------------------------------- *)
(* witnesses of the deviations (each is a finding, replayed on libyang by known_findings.d/dflt.json)              *)
(* ------------------------------------------------------------------------------------------- *)
Definition wleaf (par : option sid) (d : list bytes) (ch : list chc) : sinfo :=
  mk_sinfo KLeaf par [] false true d ch false 0 None OBytes.
Definition w_ca := mk_chc 0 0 false false.       (* choice 0, case a *)
Definition w_cb := mk_chc 0 1 false false.       (* choice 0, case b *)
Definition w_cn1 := mk_chc 1 0 true false.       (* choice 1 (nested in case a), its default case n1 *)
Definition w_new : list (bytes * bytes) := [([], [])].

(* former finding dflt-nested-case-leftover (fixed by 357db45), kept as regression case:
     choice ch { case a { leaf e; leaf d { default 1 } choice n { default n1; case n1 { leaf y { default 2 } } } }
                 case b { leaf z } }   leaf w
   sids: e 0, d 1, y 2, z 3, w 4. *)
Definition w1_sch : schema :=
  [(0, wleaf None [] [w_ca]); (1, wleaf None [[49]] [w_ca]); (2, wleaf None [[50]] [w_ca; w_cn1]);
   (3, wleaf None [] [w_cb]); (4, wleaf None [] [])].
Definition w1_parsed : forest := [DN 0 [113] false w_new []; DN 4 [119] false w_new []].              (* e, w: new *)
Definition w1_valid : forest :=
  [DN 0 [113] false [] []; DN 1 [49] true [] []; DN 2 [50] true [] []; DN 4 [119] false [] []].      (* e d(dflt) y(dflt) w *)
Definition w1_freed : forest := [DN 1 [49] true [] []; DN 2 [50] true [] []; DN 4 [119] false [] []]. (* e freed *)

Definition snd_or_nil (r : res (forest * list change)) : list change := match r with Ok (_, d) => d | Err _ => [] end.
Definition w1_d0 := snd_or_nil (validate_all w1_sch w1_parsed).
Definition w1_d := snd_or_nil (validate_all w1_sch w1_freed).

Lemma w1_f1 : schema_okb w1_sch = true. Proof. vm_compute. reflexivity. Qed.
Lemma w1_f2 : chc_okb w1_sch = true. Proof. vm_compute. reflexivity. Qed.
Lemma w1_f3 : validate_all w1_sch w1_parsed = Ok (w1_valid, w1_d0). Proof. vm_compute. reflexivity. Qed.
Lemma w1_f4 : normalb w1_sch w1_valid = true. Proof. vm_compute. reflexivity. Qed.
Lemma w1_f5 : canonb w1_sch None w1_freed = true. Proof. vm_compute. reflexivity. Qed.
Lemma w1_f6 : np_flagsb w1_sch w1_freed = true. Proof. vm_compute. reflexivity. Qed.
Lemma w1_f7 : flag_soundb w1_sch w1_freed = true. Proof. vm_compute. reflexivity. Qed.
Definition w1_after : forest := [DN 4 [119] false [] []].
Lemma w1_f8 : validate_all w1_sch w1_freed = Ok (w1_after, w1_d). Proof. vm_compute. reflexivity. Qed.
Lemma w1_f9 : normalb w1_sch w1_after = true. Proof. vm_compute. reflexivity. Qed.
Lemma w1_f10 : strip w1_freed = w1_after. Proof. vm_compute. reflexivity. Qed.
Lemma w1_f11 : validate_all w1_sch w1_after = Ok (w1_after, []). Proof. vm_compute. reflexivity. Qed.
Lemma w1_f12 : editedb w1_sch w1_freed = true. Proof. vm_compute. reflexivity. Qed.

(* regression case of the former finding dflt-nested-case-leftover (fixed by 357db45): after e is freed validation removes
   the left-over defaults d and y, the result is the normal form of the explicit content w and a fixpoint *)
Lemma w1_facts :
  schema_okb w1_sch = true /\ chc_okb w1_sch = true /\
  (exists d, validate_all w1_sch w1_parsed = Ok (w1_valid, d)) /\ normalb w1_sch w1_valid = true /\
  canonb w1_sch None w1_freed = true /\ np_flagsb w1_sch w1_freed = true /\ flag_soundb w1_sch w1_freed = true /\
  (exists d, validate_all w1_sch w1_freed = Ok (w1_after, d)) /\
  normalb w1_sch w1_after = true /\ strip w1_freed = w1_after /\ validate_all w1_sch w1_after = Ok (w1_after, []).
Proof.
  split; [exact w1_f1|]. split; [exact w1_f2|]. split; [exists w1_d0; exact w1_f3|]. split; [exact w1_f4|].
  split; [exact w1_f5|]. split; [exact w1_f6|]. split; [exact w1_f7|].
  split; [exists w1_d; exact w1_f8|]. split; [exact w1_f9|]. split; [exact w1_f10|exact w1_f11].
Qed.

(* dflt-leaflist-partial: leaf-list ll { default x; default y }  leaf z;  sids ll 0, z 1 *)
Definition w2_sch : schema :=
  [(0, mk_sinfo KLeafList None [] false true [[120]; [121]] [] false 0 None OBytes); (1, wleaf None [] [])].
Definition w2_parsed : forest := [DN 1 [113] false w_new []].
Definition w2_valid : forest := [DN 0 [120] true [] []; DN 0 [121] true [] []; DN 1 [113] false [] []].
Definition w2_freed : forest := [DN 0 [121] true [] []; DN 1 [113] false [] []].                     (* ll = x freed *)

Definition w2_d0 := snd_or_nil (validate_all w2_sch w2_parsed).
Lemma w2_f1 : schema_okb w2_sch = true. Proof. vm_compute. reflexivity. Qed.
Lemma w2_f2 : chc_okb w2_sch = true. Proof. vm_compute. reflexivity. Qed.
Lemma w2_f3 : validate_all w2_sch w2_parsed = Ok (w2_valid, w2_d0). Proof. vm_compute. reflexivity. Qed.
Lemma w2_f4 : normalb w2_sch w2_valid = true. Proof. vm_compute. reflexivity. Qed.
Lemma w2_f5 : canonb w2_sch None w2_freed = true. Proof. vm_compute. reflexivity. Qed.
Lemma w2_f6 : flag_soundb w2_sch w2_freed = true. Proof. vm_compute. reflexivity. Qed.
Lemma w2_f7 : validate_all w2_sch w2_freed = Ok (w2_freed, []). Proof. vm_compute. reflexivity. Qed.
Lemma w2_f8 : normalb w2_sch w2_freed = false. Proof. vm_compute. reflexivity. Qed.
Lemma w2_f9 : editedb w2_sch w2_freed = false. Proof. vm_compute. reflexivity. Qed.

Lemma w2_facts :
  schema_okb w2_sch = true /\ chc_okb w2_sch = true /\
  (exists d, validate_all w2_sch w2_parsed = Ok (w2_valid, d)) /\ normalb w2_sch w2_valid = true /\
  canonb w2_sch None w2_freed = true /\ flag_soundb w2_sch w2_freed = true /\
  validate_all w2_sch w2_freed = Ok (w2_freed, []) /\ normalb w2_sch w2_freed = false.
Proof.
  split; [exact w2_f1|]. split; [exact w2_f2|]. split; [exists w2_d0; exact w2_f3|]. split; [exact w2_f4|].
  split; [exact w2_f5|]. split; [exact w2_f6|]. split; [exact w2_f7|exact w2_f8].
Qed.

(* vdiff-np-container: choice ch { case a { container c; leaf e } case b { leaf z } };  sids c 0, e 1, z 2 *)
Definition w3_sch : schema :=
  [(0, mk_sinfo (KCont false) None [] false true [] [w_ca] false 0 None OBytes); (1, wleaf None [] [w_ca]);
   (2, wleaf None [] [w_cb])].
Definition w3_parsed : forest := [DN 1 [113] false w_new []].
Definition w3_valid : forest := [DN 0 [] true [] []; DN 1 [113] false [] []].
Definition w3_freed : forest := [DN 0 [] true [] []].                                                  (* e freed *)

Definition w3_d0 := snd_or_nil (validate_all w3_sch w3_parsed).
Definition w3_d := snd_or_nil (validate_all w3_sch w3_freed).
Lemma w3_f1 : schema_okb w3_sch = true. Proof. vm_compute. reflexivity. Qed.
Lemma w3_f2 : chc_okb w3_sch = true. Proof. vm_compute. reflexivity. Qed.
Lemma w3_f3 : validate_all w3_sch w3_parsed = Ok (w3_valid, w3_d0). Proof. vm_compute. reflexivity. Qed.
Lemma w3_f4 : canonb w3_sch None w3_freed = true. Proof. vm_compute. reflexivity. Qed.
Lemma w3_f5 : validate_all w3_sch w3_freed = Ok ([], w3_d). Proof. vm_compute. reflexivity. Qed.
Lemma w3_f6 : changes_idb w3_sch w3_d = true. Proof. vm_compute. reflexivity. Qed.
Lemma w3_f7 : np_norm w3_sch (apply_changes w3_sch w3_d w3_freed) = w3_freed. Proof. vm_compute. reflexivity. Qed.
Lemma w3_f8 : np_norm w3_sch (apply_changes_all w3_sch w3_d w3_freed) = []. Proof. vm_compute. reflexivity. Qed.

Lemma w3_facts :
  schema_okb w3_sch = true /\ chc_okb w3_sch = true /\
  (exists d, validate_all w3_sch w3_parsed = Ok (w3_valid, d)) /\
  canonb w3_sch None w3_freed = true /\
  (exists d, validate_all w3_sch w3_freed = Ok ([], d) /\ changes_idb w3_sch d = true /\
             np_norm w3_sch (apply_changes w3_sch d w3_freed) = w3_freed /\
             np_norm w3_sch (apply_changes_all w3_sch d w3_freed) = []).
Proof.
  split; [exact w3_f1|]. split; [exact w3_f2|]. split; [exists w3_d0; exact w3_f3|]. split; [exact w3_f4|].
  exists w3_d. split; [exact w3_f5|]. split; [exact w3_f6|]. split; [exact w3_f7|exact w3_f8].
Qed.

(* implicit nodes of EVERY enclosing case when the only explicit data sit in the innermost case of a choice nested three
   deep (the walk `scase->parent != snode` of lyd_new_implicit; seeded change C02-5 stops at the innermost case):
     choice c0 { case a { leaf da { default 1 }  container np { leaf dn { default 2 } }
                          choice c1 { case b { leaf db { default 3 }
                                               choice c2 { case c { leaf x } case c' { leaf y { default 4 } } } } } }
                 case z { leaf q } }
   sids: da 0, np 1, dn 2, db 3, x 4, y 5, q 6; the input is <x>x</x> *)
Definition w4_a := mk_chc 0 0 false false.
Definition w4_z := mk_chc 0 1 false false.
Definition w4_b := mk_chc 1 0 false false.
Definition w4_c := mk_chc 2 0 false false.
Definition w4_c' := mk_chc 2 1 false false.
Definition w4_sch : schema :=
  [(0, wleaf None [[49]] [w4_a]); (1, mk_sinfo (KCont false) None [] false true [] [w4_a] false 0 None OBytes);
   (2, wleaf (Some 1) [[50]] []); (3, wleaf None [[51]] [w4_a; w4_b]); (4, wleaf None [] [w4_a; w4_b; w4_c]);
   (5, wleaf None [[52]] [w4_a; w4_b; w4_c']); (6, wleaf None [] [w4_z])].
Definition w4_parsed : forest := [DN 4 [120] false w_new []].
Definition w4_valid : forest :=
  [DN 0 [49] true [] []; DN 1 [] true [] [DN 2 [50] true [] []]; DN 3 [51] true [] []; DN 4 [120] false [] []].
(* what the seeded change leaves: no implicit node of case a or case b *)
Definition w4_inner_only : forest := [DN 4 [120] false [] []].
Definition w4_d0 := snd_or_nil (validate_all w4_sch w4_parsed).
Lemma w4_f1 : schema_okb w4_sch = true. Proof. vm_compute. reflexivity. Qed.
Lemma w4_f2 : chc_okb w4_sch = true. Proof. vm_compute. reflexivity. Qed.
Lemma w4_f3 : canonb w4_sch None w4_parsed = true. Proof. vm_compute. reflexivity. Qed.
Lemma w4_f4 : freshb w4_sch w4_parsed = true. Proof. vm_compute. reflexivity. Qed.
Lemma w4_f5 : validate_all w4_sch w4_parsed = Ok (w4_valid, w4_d0). Proof. vm_compute. reflexivity. Qed.
Lemma w4_f6 : normalb w4_sch w4_valid = true. Proof. vm_compute. reflexivity. Qed.
Lemma w4_f7 : validate_all w4_sch w4_valid = Ok (w4_valid, []). Proof. vm_compute. reflexivity. Qed.
Lemma w4_f8 : normalb w4_sch w4_inner_only = false. Proof. vm_compute. reflexivity. Qed.
Lemma w4_f9 : strip w4_valid = w4_inner_only. Proof. vm_compute. reflexivity. Qed.
Lemma w4_f10 : sids_uniqb w4_sch = true /\ keys_plainb w4_sch = true. Proof. vm_compute. split; reflexivity. Qed.
