(* Extract_jsonnum.v — extraction of the jsonnum slice (JsonNum) to OCaml; see Extract_xml.v. *)
From Coq Require Extraction ExtrOcamlBasic.
From LY Require Import Base JsonNum.
Extraction Language OCaml.
Extraction "model_jsonnum.ml"
  N.add N.mul N.div N.modulo N.sub Z.add Z.mul Z.opp Z.of_N Z.abs_N Z.sub Z.ltb
  JsonNum.number_c JsonNum.denotes_ok JsonNum.cstr.
